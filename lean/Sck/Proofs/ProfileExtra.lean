import Sck.Proofs.ProfileGen
import Sck.Proofs.ProfileOrdinal
import Sck.Proofs.ProfileComplete

/-! C18 extras: canonical admissible orders (so that the "for every admissible order" theorems are
never vacuous), the exact rank block of a tie class, the literal generator loop, numpy's tolerance. -/

theorem ascLe_trans (a b c : Option Nat) (h1 : ascLe a b = true) (h2 : ascLe b c = true) :
    ascLe a c = true := by
  (cases a <;> cases b <;> cases c <;> simp_all [ascLe]); omega

theorem ascLe_total (a b : Option Nat) : ascLe a b = true ∨ ascLe b a = true := by
  (cases a <;> cases b <;> simp [ascLe]); omega

theorem descLe_trans (a b c : Option Rat) (h1 : descLe a b = true) (h2 : descLe b c = true) :
    descLe a c = true := by
  cases a <;> cases b <;> cases c <;> simp_all [descLe]; exact le_trans h2 h1

theorem descLe_total (a b : Option Rat) : descLe a b = true ∨ descLe b a = true := by
  cases a <;> cases b <;> simp [descLe]; exact le_total _ _

theorem range_pairwise_lt (n : Nat) : (List.range n).Pairwise (· < ·) := List.pairwise_lt_range

/-- the stable ascending sort of the positions is an admissible order for both tie-breakers -/
theorem ascOrderFirst_valid (row : List (Option Nat)) (first : Bool) :
    validAscOrder row (ascOrderFirst row) first = true := by
  unfold validAscOrder ascOrderFirst
  rw [Bool.and_eq_true, List.isPerm_iff, allPairsB_iff]
  refine ⟨isortBy_perm _ _, ?_⟩
  have := isortBy_stable (fun a b => ascLe (valAt row a) (valAt row b))
    (fun a b c => ascLe_trans _ _ _) (fun a b => ascLe_total _ _) _ (range_pairwise_lt row.length)
  refine this.imp ?_
  intro a b hab
  obtain ⟨h1, h2⟩ := hab
  simp only [Bool.and_eq_true, Bool.or_eq_true, Bool.not_eq_true', bne_iff_ne, ne_eq,
    decide_eq_true_eq, Option.isNone_iff_eq_none]
  refine ⟨h1, ?_⟩
  by_cases he : valAt row a = valAt row b
  · right
    apply h2
    rw [← he] at h1 ⊢
    exact h1
  · left; right; exact he

theorem descOrderStable_valid (vals : List (Option Rat)) :
    validDescOrder vals (descOrderStable vals) = true := by
  unfold validDescOrder descOrderStable
  rw [Bool.and_eq_true, List.isPerm_iff, allPairsB_iff]
  exact ⟨isortBy_perm _ _, isortBy_pairwise (fun a b => descLe (valAt vals a) (valAt vals b))
    (fun a b c => descLe_trans _ _ _) (fun a b => descLe_total _ _) _⟩

/-! ### exact rank block of a tie class -/

theorem count_eq_countP_range (row : List (Option Nat)) (r : Nat) :
    row.count (some r) = ((List.range row.length).filter (fun j => valAt row j == some r)).length := by
  rw [← List.countP_eq_length_filter, List.count_eq_countP, countP_eq_range]

/-- an accepted output maps the positions of a tie class bijectively onto its block `r..r+t-1` -/
theorem strictifyOkB_block_perm (row out : List (Option Nat)) (first : Bool)
    (h : strictifyOkB row out first = true) (r : Nat) :
    (((List.range row.length).filter (fun j => valAt row j == some r)).map (valAt out)).Perm
      ((List.range' r (row.count (some r))).map some) := by
  obtain ⟨hlen, _, hstrict, _, hblock, _⟩ := strictifyOkB_spec row out first h
  have hmem : ∀ j ∈ (List.range row.length).filter (fun j => valAt row j == some r),
      row[j]? = some (some r) := by
    intro j hj
    simp only [List.mem_filter, List.mem_range, beq_iff_eq] at hj
    exact (valAt_eq_some row j r).1 hj.2
  apply List.Subperm.perm_of_length_le
  · apply List.subperm_of_subset
    · apply List.Nodup.map_on
      · intro i hi j hj hij
        obtain ⟨s, hs, _⟩ := hblock i r (hmem i hi)
        have hs' : valAt out i = some s := valAt_of_getElem? _ _ _ hs
        rw [hs'] at hij
        exact hstrict i j s hs ((valAt_eq_some out j s).1 hij.symm)
      · exact List.nodup_range.filter _
    · intro x hx
      rw [List.mem_map] at hx
      obtain ⟨j, hj, rfl⟩ := hx
      obtain ⟨s, hs, h1, h2⟩ := hblock j r (hmem j hj)
      rw [valAt_of_getElem? _ _ _ hs, List.mem_map]
      exact ⟨s, by rw [List.mem_range'_1]; omega, rfl⟩
  · simp only [List.length_map, List.length_range']
    rw [count_eq_countP_range]

/-! ### the literal generator loop agrees with the order-free form on strict rows -/

theorem count_some_eq (ranks : List (Option Nat)) (r : Nat) :
    ranks.count (some r) = (ranks.filterMap id).count r := by
  induction ranks with
  | nil => rfl
  | cons x ranks ih =>
    cases x with
    | none =>
      rw [List.filterMap_cons_none (by rfl), List.count_cons, ih]
      simp
    | some s =>
      rw [List.filterMap_cons_some (by rfl : id (some s) = some s), List.count_cons,
        List.count_cons, ih]
      simp

theorem generateRowWith_eq (ranks : List (Option Nat)) (draws : List Rat) (o : List Nat)
    (first : Bool) (hs : strictRowB ranks = true) (ho : validAscOrder ranks o first = true) :
    generateRowWith ranks draws o = generateRow ranks draws := by
  unfold generateRowWith generateRow
  apply List.map_congr_left
  intro j hj
  rw [List.mem_range] at hj
  cases hv : valAt ranks j with
  | none => rfl
  | some r =>
    have hb := idx_bounds ranks o first ho j r hj hv
    have hj' := (valAt_eq_some ranks j r).1 hv
    have hc1 : ranks.count (some r) ≤ 1 := by
      rw [count_some_eq]
      exact List.nodup_iff_count_le_one.1 (nodup_of_strict ranks hs) r
    have : o.idxOf j = ranks.countP (fun y => ltR y (some r)) := by omega
    simp only [this]

/-! ### numpy's tolerance -/

theorem isConsistent_rejects_np (vals : List (Option Rat)) (ranks : List (Option Nat))
    (hlen : vals.length = ranks.length) (hbound : ∀ y, some y ∈ vals → |y| ≤ 1)
    (o1 o2 : List Nat) (first : Bool)
    (h1 : validDescOrder vals o1 = true) (h2 : validAscOrder ranks o2 first = true)
    (a b ra rb : Nat) (x y : Rat)
    (hxa : vals[a]? = some (some x)) (hyb : vals[b]? = some (some y))
    (hra : ranks[a]? = some (some ra)) (hrb : ranks[b]? = some (some rb))
    (hr : ra < rb) (hv : x + 2 * (1 / 100000000 + 1 / 100000) < y) :
    isConsistentWith npTol vals ranks o1 o2 = false :=
  isConsistent_rejects npTol _ (by norm_num) vals ranks hlen
    (fun x y _ hy h => npTol_bound x y (hbound y hy) h) o1 o2 first h1 h2 a b ra rb x y
    hxa hyb hra hrb hr hv
