import Sck.Proofs.LatticeJ17

/-! # C03, package L8b, part 18: obligation (i) — the mirror's list of all rotations is a MAXIMAL chain of eliminations from
the male-optimal matching — and optimality of the mirror of `Irving.scf`, unconditionally (up to `WeightBound`) -/

namespace IrvingAlgo.J

open Irving SMLattice SMLattice.J

section
variable {n : Nat} {P1 P2 : List (List Nat)} {M0 : List Pair} {μ0 : Equiv.Perm (Fin n)}

/-- **the level loop produces a maximal run**: what it appends to its accumulator can be eliminated from `M`, and no
rotation is exposed in the stable matching where it stops -/
theorem levelLoop_run_max (C : JCtx n P1 P2 M0 μ0) {all : List (List Pair)} {el : List (Pair × Nat)} :
    ∀ (fuel : Nat) (st : LvSt) (ans : List (List Pair)) (M : List Pair) (μ : Equiv.Perm (Fin n)),
      Rep M μ → JLevelInv C μ st →
      DictAll (fun (p : Pair) pi => ElimOK P2 all p.1 p.2 pi) st.elim →
      EIInv (shortlists n P1 P2 (muOf n M0)).2 st → st.cnt = ans.length →
      levelLoop fuel st ans = some (all, el) →
      ∃ suf Mz μz, all = ans ++ suf ∧ exposedAllB P1 P2 M suf = true ∧ (∀ r ∈ suf, r ≠ []) ∧
        eliminateAll M suf = some Mz ∧ Rep Mz μz ∧ StableSM (rk n P1) (rk n P2) μz ∧
        ∀ ρ, ¬ ExposedRot (rk n P1) (rk n P2) μz ρ := by
  intro fuel
  induction fuel with
  | zero => intro st ans M μ _ _ _ _ _ h; simp [levelLoop] at h
  | succ fuel ih =>
    intro st ans M μ hM hinv hel hei hcnt h
    simp only [levelLoop] at h
    split at h
    · rename_i hempty
      have := Prod.mk.inj (Option.some.inj h)
      refine ⟨[], M, μ, by rw [← this.1]; simp, rfl, fun r hr => by simp at hr, rfl, hM, hinv.stable, ?_⟩
      intro ρ hex
      have hne := findRotations_ne_nil hinv hex
      exact hne (List.isEmpty_iff.mp hempty)
    · obtain ⟨suf', hs⟩ := levelLoop_prefix _ _ _ _ h
      simp only at hs
      obtain ⟨hgood, hdisj⟩ := findRotations_spec (P1 := P1) (P2 := P2) hinv
      obtain ⟨hexp, hne⟩ := level_run C _ M μ hM hinv.stable hgood hdisj
      obtain ⟨M', μ', r1, r2, r3, r4, r5, r6, r7, r8, r9, r10⟩ := levelFold_inv2 C (findRotations st.l1 st.l2) st ans suf'
        M μ hM hinv.stable hinv.l2 hel hei hinv.pm2 hcnt (by rw [hs, List.append_assoc]) hexp hne
      have hinv' := jLevelInv_step C hinv r2 r3 r4 r7 r8
      obtain ⟨suf2, Mz, μz, hs2, e1, e2, e3, e4, e5, e6⟩ := ih _ (ans ++ findRotations st.l1 st.l2) M' μ' r1 hinv'
        (by exact r5) (by exact r6) (by exact r9) h
      have hsuf : suf' = suf2 := by
        rw [hs] at hs2
        exact List.append_cancel_left hs2
      subst hsuf
      refine ⟨findRotations st.l1 st.l2 ++ suf', Mz, μz, by rw [hs, List.append_assoc], ?_, ?_, ?_, e4, e5, e6⟩
      · exact exposedAllB_append P1 P2 _ M M' _ hexp r10 e1
      · intro r hr
        rcases List.mem_append.mp hr with hr | hr
        · exact hne r hr
        · exact e2 r hr
      · rw [eliminateAll_append, r10]; exact e3

end

/-- **obligation (i) at one instance** -/
theorem remaining_i_at {n : Nat} {P1 P2 : List (List Nat)} {V1 V2 : List (List Int)} (hwf : wfB n P1 P2 V1 V2 = true) :
    Remaining_i_at n P1 P2 := by
  intro M0 all el hmo hall
  obtain ⟨μ0, C⟩ := jctx_of_wf hwf hmo
  unfold allRotations at hall
  obtain ⟨suf, Mz, μz, hs, e1, e2, e3, e4, e5, e6⟩ := levelLoop_run_max C _ _ [] M0 μ0 C.rep (jLevelInv_init C)
    (fun e he => by simp at he) (fun m w _ hnot => absurd ‹_› hnot) rfl hall
  simp only [List.nil_append] at hs
  subst hs
  refine ⟨e1, e2, Mz, e3, ?_⟩
  intro rho hne hex
  obtain ⟨ρ, _, hexρ⟩ := exposed_unbridge C.h1 e4 e5 hne hex
  exact e6 ρ hexρ

end IrvingAlgo.J

/-- **obligation (i)**: on every strict complete instance the mirror's list of all rotations, in discovery order, is a
maximal chain of eliminations from the male-optimal matching -/
theorem L8b.remaining_i : Remaining_i := fun _ _ _ _ _ hwf => IrvingAlgo.J.remaining_i_at hwf

/-- **optimality of the mirror of `Irving.scf`** (no remaining obligation; `WeightBound` is the numeric side condition of
the max-flow stage): every `ok` answer has the brute-force optimal value, and on strict complete inputs the run-time
checks `check-exposed` / `not-exposed` never fire -/
theorem L8b.irving_optimal {n : Nat} {P1 P2 : List (List Nat)} {V1 V2 : List (List Int)}
    (hbig : IrvingAlgo.WeightBound n P1 P2 V1 V2) :
    (∀ M, IrvingAlgo.irving n P1 P2 V1 V2 = .ok M →
      Brute.optStable n P1 P2 V1 V2 = some (Irving.matchingValue V1 V2 M)) ∧
    (IrvingAlgo.wfB n P1 P2 V1 V2 = true →
      IrvingAlgo.irving n P1 P2 V1 V2 ≠ .error "check-exposed" ∧ IrvingAlgo.irving n P1 P2 V1 V2 ≠ .error "not-exposed") :=
  IrvingAlgo.irving_optimal_of_remaining_task L8b.remaining_i L8b.remaining_j_task hbig

#print axioms L8b.remaining_i
#print axioms L8b.irving_optimal
