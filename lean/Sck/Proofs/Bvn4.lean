import Sck.Proofs.Bvn3

/-! C06: progress (a support permutation always exists), one step keeps the matrix balanced and creates a
new zero, hence ANY run of the loop terminates within `n²` steps at the zero matrix. -/

open Finset

variable {n : ℕ}

/-! ### from `Equiv.Perm (Fin n)` back to a checked list -/

def listOfPerm (τ : Equiv.Perm (Fin n)) : List ℕ := List.ofFn (fun i => ((τ i : Fin n) : ℕ))

theorem listOfPerm_getD (τ : Equiv.Perm (Fin n)) (i : ℕ) (hi : i < n) :
    (listOfPerm τ).getD i n = τ ⟨i, hi⟩ := by
  simp [listOfPerm, List.getD_eq_getElem?_getD, hi]

theorem listOfPerm_idxOf (τ : Equiv.Perm (Fin n)) (j : ℕ) (hj : j < n) :
    (listOfPerm τ).idxOf j = τ.symm ⟨j, hj⟩ := by
  have hnd : (listOfPerm τ).Nodup := by
    unfold listOfPerm
    rw [List.nodup_ofFn]
    intro a b hab
    exact τ.injective (Fin.ext hab)
  have hlen : ((τ.symm ⟨j, hj⟩ : Fin n) : ℕ) < (listOfPerm τ).length := by simp [listOfPerm]
  have := hnd.idxOf_getElem _ hlen
  rw [← this]
  congr 1
  simp [listOfPerm]

theorem isPermB_listOfPerm (τ : Equiv.Perm (Fin n)) : isPermB n (listOfPerm τ) = true := by
  simp only [isPermB, isPermWith, Bool.and_eq_true, beq_iff_eq, allLt_iff, decide_eq_true_eq]
  refine ⟨⟨⟨by simp [listOfPerm], by simp [invOfList]⟩, ?_⟩, ?_⟩
  · intro i hi
    rw [listOfPerm_getD τ i hi]
    refine ⟨(τ ⟨i, hi⟩).2, ?_⟩
    simp only [invOfList, List.getD_eq_getElem?_getD, List.getElem?_map,
      List.getElem?_range (τ ⟨i, hi⟩).2, Option.map_some, Option.getD_some]
    rw [listOfPerm_idxOf τ _ (τ ⟨i, hi⟩).2]
    simp
  · intro j hj
    have h1 : (invOfList n (listOfPerm τ)).getD j n = τ.symm ⟨j, hj⟩ := by
      simp only [invOfList, List.getD_eq_getElem?_getD, List.getElem?_map,
        List.getElem?_range hj, Option.map_some, Option.getD_some]
      exact listOfPerm_idxOf τ j hj
    rw [h1]
    refine ⟨(τ.symm ⟨j, hj⟩).2, ?_⟩
    rw [listOfPerm_getD τ _ (τ.symm ⟨j, hj⟩).2]
    simp

theorem permOfList_listOfPerm (τ : Equiv.Perm (Fin n)) (h : isPermB n (listOfPerm τ) = true) :
    permOfList n (listOfPerm τ) h = τ := by
  ext i
  rw [permOfList_val, listOfPerm_getD τ i i.2]

/-! ### converse bridges -/

theorem toFun_zero_isZeroB (X : List (List Rat)) (hsq : isSquareB n X = true)
    (h : ∀ i j, toFun n X i j = 0) : isZeroB X = true := by
  simp only [isZeroB, List.all_eq_true, beq_iff_eq]
  intro r hr x hx
  obtain ⟨i, hi, rfl⟩ := List.getElem_of_mem hr
  obtain ⟨j, hj, rfl⟩ := List.getElem_of_mem hx
  have hsq' := (isSquareB_iff n X).mp hsq
  have hin : i < n := by omega
  have hjn : j < n := by have := hsq'.2 _ hr; omega
  have := h ⟨i, hin⟩ ⟨j, hjn⟩
  rwa [show toFun n X ⟨i, hin⟩ ⟨j, hjn⟩ = X[i][j] from matGet_eq X i j X[i] _ (by simp) (by simp)] at this

theorem balanced_isBalancedB (hn : 0 < n) (X : List (List Rat)) (s : Rat) (hsq : isSquareB n X = true)
    (hb : Balanced (toFun n X) s) : isBalancedB n X = some s := by
  have hsq' := (isSquareB_iff n X).mp hsq
  have hrows : ∀ r ∈ X, sumList r = s := by
    intro r hr
    obtain ⟨i, hi, rfl⟩ := List.getElem_of_mem hr
    have hin : i < n := by omega
    rw [← row_sum_eq X hsq ⟨i, hin⟩ X[i] (by simp)]
    exact hb.row _
  have hhead : headSum X = s := by
    cases X with
    | nil => simp at hsq'; omega
    | cons r rest => exact hrows r List.mem_cons_self
  unfold isBalancedB
  rw [if_pos, if_pos, hhead]
  · simp only [hhead, Bool.and_eq_true, List.all_eq_true, beq_iff_eq, allLt_iff]
    refine ⟨hrows, ?_⟩
    intro j hj
    rw [← col_sum_eq X hsq j hj]
    exact hb.col _
  · simp only [hsq, Bool.true_and, List.all_eq_true, decide_eq_true_eq]
    intro r hr x hx
    obtain ⟨i, hi, rfl⟩ := List.getElem_of_mem hr
    obtain ⟨j, hj, rfl⟩ := List.getElem_of_mem hx
    have hin : i < n := by omega
    have hjn : j < n := by have := hsq'.2 _ hr; omega
    have := hb.nonneg ⟨i, hin⟩ ⟨j, hjn⟩
    rwa [show toFun n X ⟨i, hin⟩ ⟨j, hjn⟩ = X[i][j] from matGet_eq X i j X[i] _ (by simp) (by simp)] at this

theorem balanced_pos_of_ne_zero (X : Fin n → Fin n → ℚ) (s : ℚ) (hb : Balanced X s) (i j : Fin n)
    (hne : X i j ≠ 0) : 0 < s := by
  have h1 : 0 < X i j := lt_of_le_of_ne (hb.nonneg i j) (Ne.symm hne)
  have h2 : X i j ≤ ∑ j', X i j' :=
    Finset.single_le_sum (f := fun j' => X i j') (fun j' _ => hb.nonneg i j') (Finset.mem_univ j)
  rw [hb.row i] at h2
  linarith

/-- **Progress.** A balanced matrix that is not zero has a permutation inside its support. -/
theorem bvn_progress_aux (X : List (List Rat)) (s : Rat) (hbal : isBalancedB n X = some s)
    (hnz : isZeroB X = false) :
    ∃ sigma, isPermB n sigma = true ∧ (diagVals X sigma).all (fun v => decide (0 < v)) = true := by
  have hsq := isBalancedB_square X s hbal
  have hb := isBalancedB_balanced X s hbal
  have hex : ∃ i j, toFun n X i j ≠ 0 := by
    apply Classical.byContradiction
    intro hcon
    have : ∀ i j, toFun n X i j = 0 := by
      intro i j
      apply Classical.byContradiction
      intro h
      exact hcon ⟨i, j, h⟩
    rw [toFun_zero_isZeroB X hsq this] at hnz
    simp at hnz
  obtain ⟨i, j, hne⟩ := hex
  have hs := balanced_pos_of_ne_zero _ s hb i j hne
  obtain ⟨τ, hτ⟩ := exists_support_perm _ s hs hb
  refine ⟨listOfPerm τ, isPermB_listOfPerm τ, ?_⟩
  rw [support_iff X _ hsq (isPermB_listOfPerm τ), permOfList_listOfPerm]
  exact hτ

/-- **One step.** The residual is balanced with sum `s − z`, `z` is positive, and the number of zero
entries strictly increases. -/
theorem bvn_step_aux (X : List (List Rat)) (s : Rat) (sigma : List ℕ) (z : Rat)
    (hbal : isBalancedB n X = some s) (hp : isPermB n sigma = true)
    (hsupp : (diagVals X sigma).all (fun v => decide (0 < v)) = true)
    (hz : minList (diagVals X sigma) = some z) :
    0 < z ∧ isBalancedB n (subPerm X sigma z) = some (s - z) ∧
    zeroCount (toFun n X) < zeroCount (toFun n (subPerm X sigma z)) := by
  have hsq := isBalancedB_square X s hbal
  have hb := isBalancedB_balanced X s hbal
  have hn : 0 < n := by
    rcases Nat.eq_zero_or_pos n with rfl | hn
    · have hlen := diagVals_length 0 X sigma hsq (isPermB_length 0 sigma hp)
      rw [List.eq_nil_of_length_eq_zero hlen] at hz
      simp [minList] at hz
    · exact hn
  have hsupp' := (support_iff X sigma hsq hp).mp hsupp
  have hz' := stepZ_eq hn X sigma z hsq hp hz
  refine ⟨?_, ?_, ?_⟩
  · obtain ⟨i, hi⟩ := stepZ_attained hn (toFun n X) (permOfList n sigma hp)
    rw [← hz', hi]; exact hsupp' i
  · apply balanced_isBalancedB hn _ _ (subPerm_square n X sigma z hsq (isPermB_length n sigma hp))
    rw [toFun_subPerm X sigma z hsq hp]
    apply bvnStep_balanced _ s hb
    intro i
    rw [← hz']; exact stepZ_le hn _ _ i
  · rw [toFun_subPerm X sigma z hsq hp, ← hz']
    exact zeroCount_step_lt hn _ _ hsupp'

theorem zeroCount_le (X : Fin n → Fin n → ℚ) : zeroCount X ≤ n * n := by
  unfold zeroCount
  calc #{p : Fin n × Fin n | X p.1 p.2 = 0} ≤ Fintype.card (Fin n × Fin n) := Finset.card_le_univ _
    _ = n * n := by simp

theorem zeroCount_full (X : Fin n → Fin n → ℚ) (h : n * n ≤ zeroCount X) : ∀ i j, X i j = 0 := by
  have hcard : #{p : Fin n × Fin n | X p.1 p.2 = 0} = #(Finset.univ : Finset (Fin n × Fin n)) := by
    have h1 := zeroCount_le X
    have h2 : #(Finset.univ : Finset (Fin n × Fin n)) = n * n := by simp
    unfold zeroCount at h h1
    omega
  rw [Finset.card_filter_eq_iff] at hcard
  intro i j
  exact hcard (i, j) (Finset.mem_univ _)

/-- **Termination for every choice.** -/
theorem bvnRunL_terminates (choose : List (List Rat) → List ℕ)
    (hchoose : ∀ Y t, isBalancedB n Y = some t → isZeroB Y = false →
      isPermB n (choose Y) = true ∧ (diagVals Y (choose Y)).all (fun v => decide (0 < v)) = true) :
    ∀ (k : ℕ) (X : List (List Rat)) (s : Rat), isBalancedB n X = some s →
      n * n ≤ zeroCount (toFun n X) + k →
      ∃ zs R, bvnReplayAux n X (bvnRunL choose k X) = .ok (zs, R) ∧ isZeroB R = true := by
  intro k
  induction k with
  | zero =>
    intro X s hbal hk
    have hsq := isBalancedB_square X s hbal
    exact ⟨[], X, by simp [bvnRunL, bvnReplayAux],
      toFun_zero_isZeroB X hsq (zeroCount_full _ (by omega))⟩
  | succ k ih =>
    intro X s hbal hk
    have hsq := isBalancedB_square X s hbal
    simp only [bvnRunL]
    split
    · rename_i hzero
      exact ⟨[], X, by simp [bvnReplayAux], hzero⟩
    · rename_i hnz
      have hnz' : isZeroB X = false := by simpa using hnz
      obtain ⟨hp, hsupp⟩ := hchoose X s hbal hnz'
      have hne : diagVals X (choose X) ≠ [] := by
        intro hnil
        have hlen := diagVals_length n X (choose X) hsq (isPermB_length n _ hp)
        rw [hnil] at hlen
        have hn0 : n = 0 := by simpa using hlen.symm
        subst hn0
        have hX : X = [] := List.eq_nil_of_length_eq_zero ((isSquareB_iff 0 X).mp hsq).1
        rw [hX] at hnz'
        simp [isZeroB] at hnz'
      obtain ⟨z, hz⟩ := minList_isSome _ hne
      rw [hz]
      obtain ⟨_, hbal', hcount⟩ := bvn_step_aux X s (choose X) z hbal hp hsupp hz
      obtain ⟨zs, R, hrec, hR⟩ := ih _ _ hbal' (by omega)
      refine ⟨z :: zs, R, ?_, hR⟩
      simp only [bvnReplayAux]
      rw [if_pos hp, if_pos hsupp, hz]
      simp only [hrec]

theorem bvnRunL_terminates' (choose : List (List Rat) → List ℕ)
    (hchoose : ∀ Y t, isBalancedB n Y = some t → isZeroB Y = false →
      isPermB n (choose Y) = true ∧ (diagVals Y (choose Y)).all (fun v => decide (0 < v)) = true)
    (X : List (List Rat)) (s : Rat) (hbal : isBalancedB n X = some s) :
    ∃ zs R, bvnReplay n X (bvnRunL choose (n * n) X) = .ok (zs, R) ∧ isZeroB R = true := by
  obtain ⟨zs, R, h1, h2⟩ := bvnRunL_terminates choose hchoose (n * n) X s hbal (by omega)
  refine ⟨zs, R, ?_, h2⟩
  unfold bvnReplay
  rw [if_pos (isBalancedB_square X s hbal)]
  exact h1

/-! ### the zero count on lists -/

theorem sum_fin_getD_nat {α : Type} (l : List α) (d : α) (g : α → ℕ) (h : l.length = n) :
    ∑ j : Fin n, g (l.getD j d) = (l.map g).sum := by
  subst h
  conv_rhs => rw [← List.ofFn_getElem (xs := l), List.map_ofFn, List.sum_ofFn]
  apply Finset.sum_congr rfl
  intro j _
  simp [List.getD_eq_getElem?_getD]

theorem count_zero_eq (r : List Rat) : (r.map (fun x => if x = 0 then 1 else 0)).sum = r.count 0 := by
  induction r with
  | nil => rfl
  | cons x r ih =>
    simp only [List.map_cons, List.sum_cons, ih, List.count_cons, beq_iff_eq]
    omega

/-- the `Fin`-level measure is the number of zero entries of the list matrix -/
theorem zeroCount_eq_zeroCountL (X : List (List Rat)) (hsq : isSquareB n X = true) :
    zeroCount (toFun n X) = zeroCountL X := by
  have hsq' := (isSquareB_iff n X).mp hsq
  unfold zeroCount zeroCountL
  rw [Finset.card_filter, Fintype.sum_prod_type]
  rw [← sum_fin_getD_nat X [] (fun r => r.count 0) hsq'.1]
  apply Finset.sum_congr rfl
  intro i _
  obtain ⟨row, hrow, hlen⟩ := square_get n X hsq i i.2
  have hrow' : X.getD i [] = row := by simp [List.getD_eq_getElem?_getD, hrow]
  rw [hrow', ← count_zero_eq, ← sum_fin_getD_nat row 0 _ hlen]
  apply Finset.sum_congr rfl
  intro j _
  simp [toFun, matGet, hrow]

#print axioms bvnRunL_terminates'
#print axioms bvn_progress_aux
