import Sck.Proofs.VotingBasic
import Mathlib.Data.List.Nodup

/-! Voting model: the ranking output (`swfI`) and its checker (`validRankingI`) (C10). -/

namespace Vote

/-! ## insertion sort by non-increasing score -/

theorem insDesc_perm (s : List Int) (j : Nat) (l : List Nat) : (insDesc s j l).Perm (j :: l) := by
  induction l with
  | nil => simp [insDesc]
  | cons a as ih =>
    unfold insDesc
    split
    · exact List.Perm.refl _
    · exact (List.Perm.cons a ih).trans (List.Perm.swap j a as)

theorem insDesc_sorted (s : List Int) (j : Nat) (l : List Nat)
    (h : l.Pairwise (fun a b => s.getD b 0 ≤ s.getD a 0)) :
    (insDesc s j l).Pairwise (fun a b => s.getD b 0 ≤ s.getD a 0) := by
  induction l with
  | nil => simp [insDesc]
  | cons a as ih =>
    unfold insDesc
    have ha := List.pairwise_cons.1 h
    split
    · rename_i hlt
      refine List.pairwise_cons.2 ⟨fun b hb => ?_, h⟩
      rcases List.mem_cons.1 hb with hb | hb
      · subst hb; exact le_of_lt hlt
      · exact le_trans (ha.1 b hb) (le_of_lt hlt)
    · rename_i hlt
      refine List.pairwise_cons.2 ⟨fun b hb => ?_, ih ha.2⟩
      have hb' := (insDesc_perm s j as).mem_iff.1 hb
      rcases List.mem_cons.1 hb' with hb' | hb'
      · subst hb'; exact not_lt.1 hlt
      · exact ha.1 b hb'

/-- the order computed inside `swfI` -/
def order (s : List Int) : List Nat :=
  (List.range s.length).reverse.foldl (fun acc j => insDesc s j acc) []

theorem swfI_eq (fixer : Nat) (s : List Int) :
    swfI fixer s = (order s).map (fun j => (j + fixer, s.getD j 0)) := rfl

theorem foldr_insDesc_perm (s : List Int) (l : List Nat) :
    (l.foldr (fun j acc => insDesc s j acc) []).Perm l := by
  induction l with
  | nil => simp
  | cons a as ih => exact (insDesc_perm s a _).trans (List.Perm.cons a ih)

theorem foldr_insDesc_sorted (s : List Int) (l : List Nat) :
    (l.foldr (fun j acc => insDesc s j acc) []).Pairwise (fun a b => s.getD b 0 ≤ s.getD a 0) := by
  induction l with
  | nil => simp
  | cons a as ih => exact insDesc_sorted s a _ ih

theorem order_eq_foldr (s : List Int) :
    order s = (List.range s.length).foldr (fun j acc => insDesc s j acc) [] := by
  unfold order; rw [List.foldl_reverse]

theorem order_perm (s : List Int) : (order s).Perm (List.range s.length) := by
  rw [order_eq_foldr]; exact foldr_insDesc_perm s _

theorem order_sorted (s : List Int) :
    (order s).Pairwise (fun a b => s.getD b 0 ≤ s.getD a 0) := by
  rw [order_eq_foldr]; exact foldr_insDesc_sorted s _

/-! ## the checker -/

/-- What a valid ranking output is, as a proposition: the reported alternatives are exactly the alternatives
`fixer, …, fixer + m − 1`, each once; every entry carries the score of its alternative; scores never increase. -/
structure ValidRanking (fixer : Nat) (s : List Int) (out : List (Nat × Int)) : Prop where
  perm : (out.map Prod.fst).Perm ((List.range s.length).map (· + fixer))
  score : ∀ e ∈ out, ∃ (j : Nat) (hj : j < s.length), e = (j + fixer, s[j])
  sorted : out.Pairwise (fun a b => b.2 ≤ a.2)

theorem count_map_fst (out : List (Nat × Int)) (x : Nat) :
    (out.map Prod.fst).count x = (out.filter (fun e => e.1 == x)).length := by
  rw [List.count_eq_length_filter, List.filter_map, List.length_map]; rfl

theorem adj_of_all {out : List (Nat × Int)}
    (h : (List.range (out.length - 1)).all
      (fun t => decide ((out.getD (t + 1) (0, 0)).2 ≤ (out.getD t (0, 0)).2)) = true) :
    out.Pairwise (fun a b => b.2 ≤ a.2) := by
  induction out with
  | nil => simp
  | cons a as ih =>
    cases as with
    | nil => simp
    | cons b bs =>
      rw [List.all_eq_true] at h
      have h0 := h 0 (by simp)
      simp at h0
      have ih' := ih (by
        rw [List.all_eq_true]
        intro t ht
        have := h (t + 1) (by simp at ht ⊢; omega)
        simpa using this)
      refine List.pairwise_cons.2 ⟨fun c hc => ?_, ih'⟩
      rcases List.mem_cons.1 hc with hc | hc
      · subst hc; exact h0
      · exact le_trans ((List.pairwise_cons.1 ih').1 c hc) h0

theorem all_of_pairwise {out : List (Nat × Int)} (h : out.Pairwise (fun a b => b.2 ≤ a.2)) :
    (List.range (out.length - 1)).all
      (fun t => decide ((out.getD (t + 1) (0, 0)).2 ≤ (out.getD t (0, 0)).2)) = true := by
  rw [List.all_eq_true]
  intro t ht
  have ht' : t + 1 < out.length := by simp at ht; omega
  rw [getD_eq_getElem _ _ _ ht', getD_eq_getElem _ _ _ (by omega : t < out.length)]
  simp only [decide_eq_true_eq]
  exact List.pairwise_iff_getElem.1 h t (t + 1) (by omega) ht' (by omega)

theorem validRankingI_spec (fixer : Nat) (s : List Int) (out : List (Nat × Int)) :
    validRankingI fixer s out = true ↔ ValidRanking fixer s out := by
  unfold validRankingI
  simp only [Bool.and_eq_true, beq_iff_eq, List.all_eq_true, decide_eq_true_eq, List.mem_range]
  constructor
  · rintro ⟨⟨⟨hlen, hcnt⟩, hsc⟩, hadj⟩
    have hscore : ∀ e ∈ out, ∃ (j : Nat) (hj : j < s.length), e = (j + fixer, s[j]) := by
      intro e he
      obtain ⟨⟨h1, h2⟩, h3⟩ := hsc e he
      refine ⟨e.1 - fixer, h2, ?_⟩
      rw [getD_eq_getElem s _ 0 h2] at h3
      ext
      · simp; omega
      · exact h3
    refine ⟨?_, hscore, adj_of_all (by simpa [List.all_eq_true] using hadj)⟩
    rw [List.perm_iff_count]
    intro x
    rw [count_map_fst]
    by_cases hx : ∃ j, j < s.length ∧ x = j + fixer
    · obtain ⟨j, hj, rfl⟩ := hx
      rw [hcnt j hj]
      symm
      apply List.count_eq_one_of_mem
      · exact (List.nodup_range.map (fun a b hab => by simpa using hab))
      · exact List.mem_map.2 ⟨j, List.mem_range.2 hj, rfl⟩
    · have h1 : (out.filter (fun e => e.1 == x)).length = 0 := by
        rw [List.length_eq_zero_iff, List.filter_eq_nil_iff]
        intro e he hex
        obtain ⟨j, hj, rfl⟩ := hscore e he
        exact hx ⟨j, hj, by simp at hex; exact hex.symm⟩
      rw [h1]
      symm
      rw [List.count_eq_zero]
      intro hmem
      obtain ⟨j, hj, rfl⟩ := List.mem_map.1 hmem
      exact hx ⟨j, List.mem_range.1 hj, rfl⟩
  · rintro ⟨hperm, hscore, hsorted⟩
    refine ⟨⟨⟨?_, ?_⟩, ?_⟩, ?_⟩
    · simpa using hperm.length_eq
    · intro j hj
      rw [← count_map_fst, hperm.count_eq]
      apply List.count_eq_one_of_mem
      · exact (List.nodup_range.map (fun a b hab => by simpa using hab))
      · exact List.mem_map.2 ⟨j, List.mem_range.2 hj, rfl⟩
    · intro e he
      obtain ⟨j, hj, rfl⟩ := hscore e he
      simp only [Nat.le_add_left, Nat.add_sub_cancel, true_and]
      exact ⟨hj, (getD_eq_getElem s j 0 hj).symm⟩
    · have := all_of_pairwise hsorted
      simpa [List.all_eq_true] using this

theorem swfI_validRanking (fixer : Nat) (s : List Int) : ValidRanking fixer s (swfI fixer s) := by
  rw [swfI_eq]
  refine ⟨?_, ?_, ?_⟩
  · rw [List.map_map]
    exact (order_perm s).map _
  · intro e he
    obtain ⟨j, hj, rfl⟩ := List.mem_map.1 he
    have hj' : j < s.length := List.mem_range.1 ((order_perm s).mem_iff.1 hj)
    exact ⟨j, hj', by rw [getD_eq_getElem s j 0 hj']⟩
  · rw [List.pairwise_map]
    exact order_sorted s

theorem swfI_valid (fixer : Nat) (s : List Int) : validRankingI fixer s (swfI fixer s) = true :=
  (validRankingI_spec fixer s _).2 (swfI_validRanking fixer s)

/-! ## rational scores -/

/-- The same for rational scores (Harmonic, utilitarian). What a valid ranking output is, as a proposition: the reported alternatives are exactly the alternatives
`fixer, …, fixer + m − 1`, each once; every entry carries the score of its alternative; scores never increase. -/
structure ValidRankingQ (fixer : Nat) (s : List Rat) (out : List (Nat × Rat)) : Prop where
  perm : (out.map Prod.fst).Perm ((List.range s.length).map (· + fixer))
  score : ∀ e ∈ out, ∃ (j : Nat) (hj : j < s.length), e = (j + fixer, s[j])
  sorted : out.Pairwise (fun a b => b.2 ≤ a.2)

theorem count_map_fstQ (out : List (Nat × Rat)) (x : Nat) :
    (out.map Prod.fst).count x = (out.filter (fun e => e.1 == x)).length := by
  rw [List.count_eq_length_filter, List.filter_map, List.length_map]; rfl

theorem adj_of_allQ {out : List (Nat × Rat)}
    (h : (List.range (out.length - 1)).all
      (fun t => decide ((out.getD (t + 1) (0, 0)).2 ≤ (out.getD t (0, 0)).2)) = true) :
    out.Pairwise (fun a b => b.2 ≤ a.2) := by
  induction out with
  | nil => simp
  | cons a as ih =>
    cases as with
    | nil => simp
    | cons b bs =>
      rw [List.all_eq_true] at h
      have h0 := h 0 (by simp)
      simp at h0
      have ih' := ih (by
        rw [List.all_eq_true]
        intro t ht
        have := h (t + 1) (by simp at ht ⊢; omega)
        simpa using this)
      refine List.pairwise_cons.2 ⟨fun c hc => ?_, ih'⟩
      rcases List.mem_cons.1 hc with hc | hc
      · subst hc; exact h0
      · exact le_trans ((List.pairwise_cons.1 ih').1 c hc) h0

theorem all_of_pairwiseQ {out : List (Nat × Rat)} (h : out.Pairwise (fun a b => b.2 ≤ a.2)) :
    (List.range (out.length - 1)).all
      (fun t => decide ((out.getD (t + 1) (0, 0)).2 ≤ (out.getD t (0, 0)).2)) = true := by
  rw [List.all_eq_true]
  intro t ht
  have ht' : t + 1 < out.length := by simp at ht; omega
  rw [getD_eq_getElem _ _ _ ht', getD_eq_getElem _ _ _ (by omega : t < out.length)]
  simp only [decide_eq_true_eq]
  exact List.pairwise_iff_getElem.1 h t (t + 1) (by omega) ht' (by omega)

theorem validRankingQ_spec (fixer : Nat) (s : List Rat) (out : List (Nat × Rat)) :
    validRankingQ fixer s out = true ↔ ValidRankingQ fixer s out := by
  unfold validRankingQ
  simp only [Bool.and_eq_true, beq_iff_eq, List.all_eq_true, decide_eq_true_eq, List.mem_range]
  constructor
  · rintro ⟨⟨⟨hlen, hcnt⟩, hsc⟩, hadj⟩
    have hscore : ∀ e ∈ out, ∃ (j : Nat) (hj : j < s.length), e = (j + fixer, s[j]) := by
      intro e he
      obtain ⟨⟨h1, h2⟩, h3⟩ := hsc e he
      refine ⟨e.1 - fixer, h2, ?_⟩
      rw [getD_eq_getElem s _ 0 h2] at h3
      ext
      · simp; omega
      · exact h3
    refine ⟨?_, hscore, adj_of_allQ (by simpa [List.all_eq_true] using hadj)⟩
    rw [List.perm_iff_count]
    intro x
    rw [count_map_fstQ]
    by_cases hx : ∃ j, j < s.length ∧ x = j + fixer
    · obtain ⟨j, hj, rfl⟩ := hx
      rw [hcnt j hj]
      symm
      apply List.count_eq_one_of_mem
      · exact (List.nodup_range.map (fun a b hab => by simpa using hab))
      · exact List.mem_map.2 ⟨j, List.mem_range.2 hj, rfl⟩
    · have h1 : (out.filter (fun e => e.1 == x)).length = 0 := by
        rw [List.length_eq_zero_iff, List.filter_eq_nil_iff]
        intro e he hex
        obtain ⟨j, hj, rfl⟩ := hscore e he
        exact hx ⟨j, hj, by simp at hex; exact hex.symm⟩
      rw [h1]
      symm
      rw [List.count_eq_zero]
      intro hmem
      obtain ⟨j, hj, rfl⟩ := List.mem_map.1 hmem
      exact hx ⟨j, List.mem_range.1 hj, rfl⟩
  · rintro ⟨hperm, hscore, hsorted⟩
    refine ⟨⟨⟨?_, ?_⟩, ?_⟩, ?_⟩
    · simpa using hperm.length_eq
    · intro j hj
      rw [← count_map_fstQ, hperm.count_eq]
      apply List.count_eq_one_of_mem
      · exact (List.nodup_range.map (fun a b hab => by simpa using hab))
      · exact List.mem_map.2 ⟨j, List.mem_range.2 hj, rfl⟩
    · intro e he
      obtain ⟨j, hj, rfl⟩ := hscore e he
      simp only [Nat.le_add_left, Nat.add_sub_cancel, true_and]
      exact ⟨hj, (getD_eq_getElem s j 0 hj).symm⟩
    · have := all_of_pairwiseQ hsorted
      simpa [List.all_eq_true] using this

end Vote
