import Sck.Proofs.GsRelabel

/-! Concrete instances for the non-vacuity `example`s of C01/C02. `List.mergeSort` is defined by
well-founded recursion and does not reduce in the kernel, so the preference lists of the examples
are computed once by `simp` and the loop itself is then evaluated by `decide`. -/

/-- 3 residents, 2 hospitals, some NaN on both sides, capacities 1 and 2 -/
def exI : HR :=
  { n := 3, m := 2,
    R := [[some 1, some 2], [some 1, none], [some 2, some 1]],
    H := [[some 2, some 1, some 3], [some 1, none, some 2]],
    cap := [1, 2] }

def exDARes : DA :=
  { plist := fun r => match r with | 0 => [0, 1] | 1 => [0] | 2 => [1, 0] | _ => []
    rrank := fun h r => rankAt exI.H h r
    qp := fun _ => 1
    qr := fun h => exI.cap.getD h 0 }

theorem exDARes_eq : daRes exI = exDARes := by
  unfold daRes exDARes
  congr 1
  funext r
  match r with
  | 0 => simp [exI, plistOfRow, List.mergeSort, leKey, keyOf, List.range, List.range.loop]
  | 1 => simp [exI, plistOfRow, List.range, List.range.loop]
  | 2 => simp [exI, plistOfRow, List.mergeSort, leKey, keyOf, List.range, List.range.loop]
  | r + 3 => simp [exI]; omega

def exDAHosp : DA :=
  { plist := fun h => match h with | 0 => [1, 0, 2] | 1 => [0, 2] | _ => []
    rrank := fun r h => rankAt exI.R r h
    qp := fun h => exI.cap.getD h 0
    qr := fun _ => 1 }

theorem exDAHosp_eq : daHosp exI = exDAHosp := by
  unfold daHosp exDAHosp
  congr 1
  funext h
  match h with
  | 0 => simp [exI, plistOfRow, List.mergeSort, leKey, keyOf, List.range, List.range.loop]
  | 1 => simp [exI, plistOfRow, List.mergeSort, leKey, keyOf, List.range, List.range.loop]
  | h + 2 => simp [exI]; omega

theorem exI_gsRes : gsRes exI = some [(0, 1), (2, 1), (1, 0)] := by
  unfold gsRes; rw [exDARes_eq]; decide

theorem exI_gsHosp : gsHosp exI = some [(2, 1), (0, 1), (1, 0)] := by
  unfold gsHosp; rw [exDAHosp_eq]; decide

/-- 2 × 2 instance with two different stable matchings -/
def exTwo : HR :=
  { n := 2, m := 2, R := [[some 1, some 2], [some 2, some 1]],
    H := [[some 2, some 1], [some 1, some 2]], cap := [1, 1] }

def exTwoDARes : DA :=
  { plist := fun r => match r with | 0 => [0, 1] | 1 => [1, 0] | _ => []
    rrank := fun h r => rankAt exTwo.H h r
    qp := fun _ => 1
    qr := fun h => exTwo.cap.getD h 0 }

theorem exTwoDARes_eq : daRes exTwo = exTwoDARes := by
  unfold daRes exTwoDARes
  congr 1
  funext r
  match r with
  | 0 => simp [exTwo, plistOfRow, List.mergeSort, leKey, keyOf, List.range, List.range.loop]
  | 1 => simp [exTwo, plistOfRow, List.mergeSort, leKey, keyOf, List.range, List.range.loop]
  | r + 2 => simp [exTwo]; omega

def exTwoDAHosp : DA :=
  { plist := fun h => match h with | 0 => [1, 0] | 1 => [0, 1] | _ => []
    rrank := fun r h => rankAt exTwo.R r h
    qp := fun h => exTwo.cap.getD h 0
    qr := fun _ => 1 }

theorem exTwoDAHosp_eq : daHosp exTwo = exTwoDAHosp := by
  unfold daHosp exTwoDAHosp
  congr 1
  funext h
  match h with
  | 0 => simp [exTwo, plistOfRow, List.mergeSort, leKey, keyOf, List.range, List.range.loop]
  | 1 => simp [exTwo, plistOfRow, List.mergeSort, leKey, keyOf, List.range, List.range.loop]
  | h + 2 => simp [exTwo]; omega

theorem exTwo_gsRes : gsRes exTwo = some [(1, 1), (0, 0)] := by
  unfold gsRes; rw [exTwoDARes_eq]; decide

theorem exTwo_gsHosp : gsHosp exTwo = some [(0, 1), (1, 0)] := by
  unfold gsHosp; rw [exTwoDAHosp_eq]; decide

/-- a renaming of `exI`: residents rotated `0 → 1 → 2 → 0`, hospitals swapped -/
def exσ : Nat → Nat := fun r => match r with | 0 => 1 | 1 => 2 | 2 => 0 | r => r
def exσ' : Nat → Nat := fun r => match r with | 0 => 2 | 1 => 0 | 2 => 1 | r => r
def exτ : Nat → Nat := fun h => match h with | 0 => 1 | 1 => 0 | h => h

theorem exσ_perm : PermOn exI.n exσ exσ' := ⟨by decide, by decide, by decide, by decide⟩
theorem exτ_perm : PermOn exI.m exτ exτ := ⟨by decide, by decide, by decide, by decide⟩

#eval (exI.relabel exσ' exτ).R
#eval gsRes (exI.relabel exσ' exτ)
#eval (gsRes exI).map (relL exσ exτ)

example : exI.compactB = true := by decide
example : exTwo.compactB = true := by decide
