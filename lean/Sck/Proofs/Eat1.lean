import Mathlib.Algebra.BigOperators.Group.Finset.Basic
import Mathlib.Algebra.Order.BigOperators.Group.Finset
import Mathlib.Algebra.BigOperators.Ring.Finset
import Mathlib.Algebra.Order.Field.Basic
import Mathlib.Algebra.Order.Ring.Rat
import Mathlib.Data.Fintype.BigOperators
import Mathlib.Tactic.Linarith
import Mathlib.Tactic.FieldSimp
import Mathlib.Tactic.Positivity
import Mathlib.Tactic.Ring

/-! C05 prototype: one event of the simultaneous-eating process, exact arithmetic. -/

open Finset

variable {n : ℕ}

structure EatSt (n : ℕ) where
  rem : Fin n → ℚ            -- remaining fraction of each item
  eaten : Fin n → ℚ          -- amount eaten by each agent
  X : Fin n → Fin n → ℚ      -- X i j = amount of item j eaten by agent i

/-- the item agent `i` is eating: its best not yet exhausted item, unless it is full -/
def cur (order : Fin n → List (Fin n)) (st : EatSt n) (i : Fin n) : Option (Fin n) :=
  if st.eaten i < 1 then (order i).find? (fun j => decide (0 < st.rem j)) else none

/-- total speed at which item `j` is being eaten -/
def tot (order : Fin n → List (Fin n)) (s : Fin n → ℚ) (st : EatSt n) (j : Fin n) : ℚ :=
  ∑ i, if cur order st i = some j then s i else 0

/-- advance the process by `dt` -/
def advance (order : Fin n → List (Fin n)) (s : Fin n → ℚ) (st : EatSt n) (dt : ℚ) : EatSt n where
  rem := fun j => st.rem j - dt * tot order s st j
  eaten := fun i => st.eaten i + (if (cur order st i).isSome then dt * s i else 0)
  X := fun i j => st.X i j + (if cur order st i = some j then dt * s i else 0)

structure EatInv (st : EatSt n) : Prop where
  row : ∀ i, st.eaten i = ∑ j, st.X i j
  col : ∀ j, st.rem j = 1 - ∑ i, st.X i j
  rem_nonneg : ∀ j, 0 ≤ st.rem j
  eaten_le : ∀ i, st.eaten i ≤ 1
  X_nonneg : ∀ i j, 0 ≤ st.X i j

/-- `dt` is admissible: non-negative, does not overfill any eating agent, does not over-eat any item -/
structure Admissible (order : Fin n → List (Fin n)) (s : Fin n → ℚ) (st : EatSt n) (dt : ℚ) : Prop where
  nonneg : 0 ≤ dt
  agent : ∀ i, (cur order st i).isSome → dt * s i ≤ 1 - st.eaten i
  item : ∀ j, dt * tot order s st j ≤ st.rem j

theorem sum_cur_indicator (order : Fin n → List (Fin n)) (st : EatSt n) (i : Fin n) (c : ℚ) :
    ∑ j, (if cur order st i = some j then c else 0) = if (cur order st i).isSome then c else 0 := by
  cases h : cur order st i with
  | none => simp
  | some j0 =>
    simp only [Option.some.injEq, Option.isSome_some, if_true]
    rw [Finset.sum_ite_eq Finset.univ j0 (fun _ => c)]
    simp

theorem advance_inv (order : Fin n → List (Fin n)) (s : Fin n → ℚ) (hs : ∀ i, 0 < s i)
    (st : EatSt n) (h : EatInv st) (dt : ℚ) (hdt : Admissible order s st dt) :
    EatInv (advance order s st dt) := by
  refine ⟨?_, ?_, ?_, ?_, ?_⟩
  · intro i
    simp only [advance, sum_add_distrib, sum_cur_indicator]
    rw [h.row i]
  · intro j
    simp only [advance, sum_add_distrib]
    rw [h.col j]
    have : ∑ i, (if cur order st i = some j then dt * s i else 0) = dt * tot order s st j := by
      unfold tot
      rw [Finset.mul_sum]
      refine sum_congr rfl (fun i _ => ?_)
      split <;> simp
    rw [this]; ring
  · intro j
    simp only [advance]
    have := hdt.item j
    linarith
  · intro i
    simp only [advance]
    by_cases hc : (cur order st i).isSome
    · simp only [hc, if_true]
      have := hdt.agent i hc
      linarith
    · simp only [hc]
      simpa using h.eaten_le i
  · intro i j
    simp only [advance]
    have h1 := h.X_nonneg i j
    have h2 : 0 ≤ dt * s i := mul_nonneg hdt.nonneg (le_of_lt (hs i))
    split <;> linarith

/-- at a state where nobody can eat, every row and column sums to one (complete lists) -/
theorem final_bistochastic (order : Fin n → List (Fin n)) (hcomplete : ∀ i j, j ∈ order i)
    (st : EatSt n) (h : EatInv st) (hfin : ∀ i, cur order st i = none) :
    (∀ i, ∑ j, st.X i j = 1) ∧ (∀ j, ∑ i, st.X i j = 1) := by
  -- total balance
  have hbal : ∑ j, st.rem j = (n : ℚ) - ∑ i, st.eaten i := by
    have h1 : ∑ j, st.rem j = ∑ j, (1 - ∑ i, st.X i j) := sum_congr rfl (fun j _ => h.col j)
    have h2 : ∑ i, st.eaten i = ∑ i, ∑ j, st.X i j := sum_congr rfl (fun i _ => h.row i)
    rw [h1, h2, sum_sub_distrib, sum_comm]
    simp
  have hall : ∀ i, st.eaten i = 1 := by
    by_contra hne
    push_neg at hne
    obtain ⟨i0, hi0⟩ := hne
    have hlt : st.eaten i0 < 1 := lt_of_le_of_ne (h.eaten_le i0) hi0
    -- agent i0 is hungry but finds nothing: every item is exhausted
    have hrem : ∀ j, st.rem j = 0 := by
      intro j
      have hc := hfin i0
      simp only [cur, hlt, if_true] at hc
      have := List.find?_eq_none.mp hc j (hcomplete i0 j)
      simp at this
      exact le_antisymm this (h.rem_nonneg j)
    have hsum0 : ∑ j, st.rem j = 0 := sum_eq_zero (fun j _ => hrem j)
    have hsum : ∑ i, st.eaten i = n := by linarith
    -- but one summand is < 1 and all are ≤ 1
    have : ∑ i, st.eaten i < ∑ _i : Fin n, (1 : ℚ) :=
      sum_lt_sum (fun i _ => h.eaten_le i) ⟨i0, mem_univ _, hlt⟩
    simp at this
    linarith
  have hrows : ∀ i, ∑ j, st.X i j = 1 := fun i => by rw [← h.row i]; exact hall i
  refine ⟨hrows, ?_⟩
  have hsum0 : ∑ j, st.rem j = 0 := by
    rw [hbal]; simp [hall]
  have hrem0 : ∀ j, st.rem j = 0 := by
    intro j
    exact (sum_eq_zero_iff_of_nonneg (fun j _ => h.rem_nonneg j)).mp hsum0 j (mem_univ _)
  intro j
  have := h.col j
  rw [hrem0 j] at this
  linarith

#print axioms advance_inv
#print axioms final_bistochastic
