import Sck.Proofs.LatticeI4
import Sck.Proofs.Lattice8

/-! # C03, package L8a, part 5: the shortlists satisfy the invariant; obligation (i) -/

namespace SMLattice

open Irving IrvingAlgo

variable {n : ℕ}

/-! ### `np.argsort` of a permutation row -/

theorem succ_mem_row {row : List Nat} (h : permRowB n row = true) {k : Nat} (hk : k < n) : k + 1 ∈ row := by
  obtain ⟨hlen, hrng, hnd⟩ := (permRowB_iff n row).mp h
  have hperm : (row.map (· - 1)).Perm (List.range n) := by
    refine perm_range_of_nodup n _ (by simp [hlen]) ?_ ?_
    · refine List.Nodup.map_on ?_ hnd
      intro x hx y hy hxy
      have := hrng x hx
      have := hrng y hy
      omega
    · intro x hx
      obtain ⟨r, hr, rfl⟩ := List.mem_map.mp hx
      have := hrng r hr
      omega
  have : k ∈ row.map (· - 1) := hperm.symm.subset (List.mem_range.mpr hk)
  obtain ⟨r, hr, hrk⟩ := List.mem_map.mp this
  have := hrng r hr
  have : r = k + 1 := by omega
  rw [← this]; exact hr

theorem argsort_length (row : List Nat) : (rankedRow n row).length = n := by simp [rankedRow]

/-- entry `k` of the argsort is the position of rank `k + 1` -/
theorem argsort_getElem {row : List Nat} (h : permRowB n row = true) (k : Nat) (hk : k < (rankedRow n row).length) :
    (rankedRow n row)[k] < n ∧ row.getD (rankedRow n row)[k] 0 = k + 1 := by
  obtain ⟨hlen, _, _⟩ := (permRowB_iff n row).mp h
  have hk' : k < n := by rwa [argsort_length] at hk
  have hmem := succ_mem_row h hk'
  have hidx : row.idxOf (k + 1) < row.length := List.idxOf_lt_length_of_mem hmem
  have e : (rankedRow n row)[k] = row.idxOf (k + 1) := by simp [rankedRow]
  rw [e]
  refine ⟨by omega, ?_⟩
  rw [List.getD_eq_getElem?_getD, List.getElem?_eq_getElem hidx]
  exact List.getElem_idxOf hidx

theorem argsort_sorted {row : List Nat} (h : permRowB n row = true) :
    (rankedRow n row).Pairwise (fun a b => row.getD a 0 < row.getD b 0) := by
  rw [List.pairwise_iff_getElem]
  intro i j hi hj hij
  rw [(argsort_getElem h i hi).2, (argsort_getElem h j hj).2]
  omega

theorem mem_argsort_drop {row : List Nat} (h : permRowB n row = true) (d w : Nat) :
    w ∈ (rankedRow n row).drop d ↔ w < n ∧ d ≤ row.getD w 0 - 1 := by
  rw [List.mem_drop_iff_getElem]
  constructor
  · rintro ⟨j, hj, rfl⟩
    obtain ⟨h1, h2⟩ := argsort_getElem h (d + j) (by omega)
    exact ⟨h1, by omega⟩
  · rintro ⟨hw, hd⟩
    obtain ⟨h1, h2⟩ := rankedRow_getElem? n row h w hw
    refine ⟨row.getD w 0 - 1 - d, by omega, ?_⟩
    have e : d + (row.getD w 0 - 1 - d) = row.getD w 0 - 1 := by omega
    rw [List.getElem?_eq_getElem h2] at h1
    simp only [e]
    exact Option.some.inj h1

theorem mem_argsort_take {row : List Nat} (h : permRowB n row = true) (t w : Nat) :
    w ∈ (rankedRow n row).take t ↔ w < n ∧ row.getD w 0 - 1 < t := by
  rw [List.mem_take_iff_getElem]
  constructor
  · rintro ⟨j, hj, rfl⟩
    have hj' : j < (rankedRow n row).length := by omega
    obtain ⟨h1, h2⟩ := argsort_getElem h j hj'
    exact ⟨h1, by omega⟩
  · rintro ⟨hw, hd⟩
    obtain ⟨h1, h2⟩ := rankedRow_getElem? n row h w hw
    refine ⟨row.getD w 0 - 1, by omega, ?_⟩
    rw [List.getElem?_eq_getElem h2] at h1
    exact Option.some.inj h1

theorem rank_ge_one {row : List Nat} (h : permRowB n row = true) {w : Nat} (hw : w < n) : 1 ≤ row.getD w 0 := by
  obtain ⟨hlen, hrng, _⟩ := (permRowB_iff n row).mp h
  rw [List.getD_eq_getElem?_getD, List.getElem?_eq_getElem (by omega)]
  exact (hrng _ (List.getElem_mem _)).1

theorem permRow_of_wfB {P1 P2 : List (List Nat)} {V1 V2 : List (List Int)} (hwf : wfB n P1 P2 V1 V2 = true) :
    (∀ i, i < n → permRowB n (P1.getD i []) = true) ∧ (∀ j, j < n → permRowB n (P2.getD j []) = true) := by
  obtain ⟨⟨l1, l2, _, _⟩, r1, r2, _, _⟩ := (wfB_iff n P1 P2 V1 V2).mp hwf
  constructor
  · intro i hi
    rw [List.getD_eq_getElem?_getD, List.getElem?_eq_getElem (by omega)]
    exact r1 _ (List.getElem_mem _)
  · intro j hj
    rw [List.getD_eq_getElem?_getD, List.getElem?_eq_getElem (by omega)]
    exact r2 _ (List.getElem_mem _)

/-! ### the list form `mu` of the male-optimal matching -/

section mu

variable {M0 : List Pair} {μ0 : Equiv.Perm (Fin n)}

theorem muOf_perm (hrep : Rep M0 μ0) : (muOf n M0).Perm (List.range n) :=
  Brute.muOfPairs_perm hrep.fst_perm hrep.snd_perm

theorem muOf_getD (hrep : Rep M0 μ0) (a : Fin n) : (muOf n M0).getD a n = ((μ0 a : Fin n) : Nat) := by
  have hnd : (M0.map Prod.fst).Nodup := hrep.fst_perm.nodup_iff.mpr List.nodup_range
  have := Brute.partner_of_mem (n := n) hnd (hrep.mem a)
  unfold muOf
  rw [getD_map_range _ _ _ _ a.2]
  exact this

theorem muOf_idxOf (hrep : Rep M0 μ0) (b : Fin n) : (muOf n M0).idxOf (b : Nat) = ((μ0.symm b : Fin n) : Nat) := by
  obtain ⟨hk, hback⟩ := (mu_facts n _ (muOf_perm hrep)).2 b b.2
  have := muOf_getD hrep ⟨_, hk⟩
  simp only at this
  rw [hback] at this
  have e : μ0 ⟨_, hk⟩ = b := Fin.ext this.symm
  have : (⟨_, hk⟩ : Fin n) = μ0.symm b := (Equiv.eq_symm_apply μ0).mpr e
  exact congrArg Fin.val this

variable {P1 P2 : List (List Nat)}

theorem mem_pl1' (hrep : Rep M0 μ0) (hP1 : ∀ i, i < n → permRowB n (P1.getD i []) = true) (i : Fin n) (w : Nat) :
    w ∈ pl1 n P1 (muOf n M0) i ↔ w < n ∧ rankOf P1 i (μ0 i) ≤ rankOf P1 i w := by
  unfold pl1
  rw [mem_argsort_drop (hP1 i i.2), muOf_getD hrep]
  have h0 := rank_ge_one (hP1 i i.2) (μ0 i).2
  constructor
  · rintro ⟨hw, hd⟩
    have := rank_ge_one (hP1 i i.2) hw
    refine ⟨hw, ?_⟩
    unfold rk0 rankOf at *
    omega
  · rintro ⟨hw, hd⟩
    refine ⟨hw, ?_⟩
    unfold rk0 rankOf at *
    omega

theorem mem_pl2' (hrep : Rep M0 μ0) (hP2 : ∀ j, j < n → permRowB n (P2.getD j []) = true) (j : Fin n) (m : Nat) :
    m ∈ pl2 n P2 (muOf n M0) j ↔ m < n ∧ rankOf P2 j m ≤ rankOf P2 j (μ0.symm j) := by
  unfold pl2
  rw [mem_argsort_take (hP2 j j.2), muOf_idxOf hrep]
  have h0 := rank_ge_one (hP2 j j.2) (μ0.symm j).2
  constructor
  · rintro ⟨hw, hd⟩
    have := rank_ge_one (hP2 j j.2) hw
    refine ⟨hw, ?_⟩
    unfold rk0 rankOf at *
    omega
  · rintro ⟨hw, hd⟩
    refine ⟨hw, ?_⟩
    unfold rk0 rankOf at *
    omega

theorem pl1_sorted (hP1 : ∀ i, i < n → permRowB n (P1.getD i []) = true) (mu : List Nat) (i : Fin n) :
    (pl1 n P1 mu i).Pairwise (fun a b => rankOf P1 i a < rankOf P1 i b) :=
  (argsort_sorted (hP1 i i.2)).sublist (List.drop_sublist _ _)

theorem pl2_sorted (hP2 : ∀ j, j < n → permRowB n (P2.getD j []) = true) (mu : List Nat) (j : Fin n) :
    (pl2 n P2 mu j).Pairwise (fun a b => rankOf P2 j a < rankOf P2 j b) :=
  (argsort_sorted (hP2 j j.2)).sublist (List.take_sublist _ _)

/-- membership in the men's shortlists -/
theorem mem_sl1 (hrep : Rep M0 μ0) (hP1 : ∀ i, i < n → permRowB n (P1.getD i []) = true)
    (hP2 : ∀ j, j < n → permRowB n (P2.getD j []) = true) (i : Fin n) (w : Nat) :
    w ∈ (shortlists n P1 P2 (muOf n M0)).1.getD i [] ↔
      ∃ hw : w < n, rankOf P1 i (μ0 i) ≤ rankOf P1 i w ∧ rankOf P2 w i ≤ rankOf P2 w (μ0.symm ⟨w, hw⟩) := by
  rw [shortlists_fst, if_pos i.2, List.mem_filter, mem_pl1' hrep hP1]
  constructor
  · rintro ⟨⟨hw, h1⟩, h2⟩
    simp only [Bool.and_eq_true, decide_eq_true_eq, List.contains_iff_mem] at h2
    have := (mem_pl2' hrep hP2 ⟨w, hw⟩ i).mp h2.2
    exact ⟨hw, h1, this.2⟩
  · rintro ⟨hw, h1, h2⟩
    refine ⟨⟨hw, h1⟩, ?_⟩
    simp only [Bool.and_eq_true, decide_eq_true_eq, List.contains_iff_mem]
    exact ⟨hw, (mem_pl2' hrep hP2 ⟨w, hw⟩ i).mpr ⟨i.2, h2⟩⟩

/-- membership in the women's shortlists: the second filter removes nothing when `μ0` is stable -/
theorem mem_sl2 (hrep : Rep M0 μ0) (hP1 : ∀ i, i < n → permRowB n (P1.getD i []) = true)
    (hP2 : ∀ j, j < n → permRowB n (P2.getD j []) = true)
    (h2 : ∀ b, Function.Injective (rk n P2 b)) (hst : StableSM (rk n P1) (rk n P2) μ0) (j : Fin n) (m : Nat) :
    m ∈ (shortlists n P1 P2 (muOf n M0)).2.getD j [] ↔ m < n ∧ rankOf P2 j m ≤ rankOf P2 j (μ0.symm j) := by
  rw [shortlists_snd, if_pos j.2, List.mem_filter, mem_pl2' hrep hP2, List.contains_iff_mem]
  constructor
  · exact fun h => h.1
  · rintro ⟨hm, hle⟩
    refine ⟨⟨hm, hle⟩, ?_⟩
    rw [mem_sl1 hrep hP1 hP2 ⟨m, hm⟩ j]
    refine ⟨j.2, ?_, hle⟩
    by_contra hlt
    have hlt : rk n P1 ⟨m, hm⟩ j < rk n P1 ⟨m, hm⟩ (μ0 ⟨m, hm⟩) := Nat.lt_of_not_le hlt
    have hne : (⟨m, hm⟩ : Fin n) ≠ μ0.symm j := by
      intro he
      have : μ0 ⟨m, hm⟩ = j := by rw [he]; simp
      rw [this] at hlt
      exact Nat.lt_irrefl _ hlt
    have hlt2 : rk n P2 j ⟨m, hm⟩ < rk n P2 j (μ0.symm j) := lt_of_le_of_ne hle (fun h => hne (h2 _ h))
    exact hst ⟨m, hm⟩ j ⟨hlt, hlt2⟩

theorem shortlists_length (n : Nat) (P1 P2 : List (List Nat)) (mu : List Nat) :
    (shortlists n P1 P2 mu).1.length = n ∧ (shortlists n P1 P2 mu).2.length = n := by
  unfold shortlists; simp

/-- the women's side of the invariant holds for the shortlists and the initial `preference_matrix_2` -/
theorem init_winv (hrep : Rep M0 μ0) (hP1 : ∀ i, i < n → permRowB n (P1.getD i []) = true)
    (hP2 : ∀ j, j < n → permRowB n (P2.getD j []) = true)
    (h2 : ∀ b, Function.Injective (rk n P2 b)) (hst : StableSM (rk n P1) (rk n P2) μ0) :
    WInv n P2 (shortlists n P1 P2 (muOf n M0)).2
      ((List.range n).map (fun j => (List.range n).map (fun i =>
        ((shortlists n P1 P2 (muOf n M0)).2.getD j []).contains i))) μ0.symm := by
  refine ⟨(shortlists_length n P1 P2 _).2, ?_, fun j m => mem_sl2 hrep hP1 hP2 h2 hst j m, ?_⟩
  · intro w
    rw [shortlists_snd, if_pos w.2]
    exact (pl2_sorted hP2 _ w).filter _
  · intro w m
    by_cases hw : w < n
    · rw [getD_map_range _ _ _ _ hw]
      by_cases hm : m < n
      · rw [getD_map_range _ _ _ _ hm]
      · rw [getD_map_range_ge _ _ _ _ (by omega)]
        symm
        rw [Bool.eq_false_iff]
        intro hc
        rw [List.contains_iff_mem] at hc
        exact hm ((mem_sl2 hrep hP1 hP2 h2 hst ⟨w, hw⟩ m).mp hc).1
    · rw [getD_map_range_ge _ _ _ _ (by omega), shortlists_snd, if_neg hw]
      rfl

/-- the men's side of the invariant holds for the shortlists -/
theorem init_minv (hrep : Rep M0 μ0) (hP1 : ∀ i, i < n → permRowB n (P1.getD i []) = true)
    (hP2 : ∀ j, j < n → permRowB n (P2.getD j []) = true) :
    MInv n P1 (shortlists n P1 P2 (muOf n M0)).1 (shortlists n P1 P2 (muOf n M0)).2 := by
  refine ⟨(shortlists_length n P1 P2 _).1, ?_, ?_, ?_, ?_, ?_⟩
  · intro m
    rw [shortlists_fst, if_pos m.2]
    exact (pl1_sorted hP1 _ m).filter _
  · intro m w hw
    obtain ⟨h, _⟩ := (mem_sl1 hrep hP1 hP2 m w).mp hw
    exact h
  · intro m w hw
    exact (shortlists_mutual n P1 P2 _ m w).mpr hw
  · intro m a t hl
    exact (shortlists_mutual n P1 P2 _ m a).mp (by rw [hl]; exact List.mem_cons_self)
  · intro m a b t hl
    exact (shortlists_mutual n P1 P2 _ m b).mp (by rw [hl]; simp)

end mu

/-- **the invariant holds initially**: the mirror's male-optimal matching `M0` represents the man-optimal stable
matching `μ0`, and the state `find_all_rotations_and_eliminations` starts from (the shortlists of `M0` and their indicator
matrix) satisfies the loop invariant for `μ0` -/
theorem levelInv_init {P1 P2 : List (List Nat)} {V1 V2 : List (List Int)} (hwf : wfB n P1 P2 V1 V2 = true)
    {M0 : List Pair} (hmo : maleOptimal n P1 P2 = some M0) :
    ∃ μ0 : Equiv.Perm (Fin n), Rep M0 μ0 ∧ (∀ ν, StableSM (rk n P1) (rk n P2) ν → MLe (rk n P1) μ0 ν) ∧
      LevelInv n P1 P2
        (initLevel (shortlists n P1 P2 (muOf n M0)).1 (shortlists n P1 P2 (muOf n M0)).2) μ0 := by
  obtain ⟨_, h2⟩ := rk_injective hwf
  obtain ⟨hP1, hP2⟩ := permRow_of_wfB hwf
  obtain ⟨μ0, hrep0, hst0, hopt⟩ := maleOptimal_spec hwf hmo
  refine ⟨μ0, hrep0, hopt, ?_, init_minv hrep0 hP1 hP2, hst0⟩
  have := init_winv hrep0 hP1 hP2 h2 hst0
  unfold initLevel
  rw [(shortlists_length n P1 P2 _).1]
  exact this

/-- **obligation (i) at one instance** -/
theorem remaining_i_at {P1 P2 : List (List Nat)} {V1 V2 : List (List Int)} (hwf : wfB n P1 P2 V1 V2 = true) :
    Remaining_i_at n P1 P2 := by
  intro M0 all elm hmo hall
  obtain ⟨h1, h2⟩ := rk_injective hwf
  obtain ⟨μ0, hrep0, _, inv⟩ := levelInv_init hwf hmo
  have hst0 := inv.stable
  rw [allRotations_eq] at hall
  obtain ⟨ρs, νz, hp, hall', hterm⟩ := levelLoop_spec h1 h2 _ _ [] μ0 all elm inv hall
  rw [List.nil_append] at hall'
  obtain ⟨hexp, Mz, hMz, hrepz⟩ := path_bridge (P2 := P2) h1 ρs μ0 νz M0 hrep0 hst0 hp
  have hstz := (elimPath_stable h1 ρs μ0 νz hst0 hp).1
  rw [← hall'] at hexp hMz
  refine ⟨hexp, ?_, Mz, hMz, ?_⟩
  · rw [hall']; exact pathPairs_ne_nil ρs μ0 νz hp
  · intro rho hne hex
    obtain ⟨ρ, _, hρ⟩ := exposed_unbridge h1 hrepz hstz hne hex
    exact hterm ρ hρ

end SMLattice

/-- **obligation (i) of package L7 holds**: on every strict complete instance, `allRotations` lists, in discovery order,
a maximal chain of eliminations from the male-optimal matching -/
theorem remaining_i : Remaining_i := fun _ _ _ _ _ hwf => SMLattice.remaining_i_at hwf

#print axioms remaining_i
