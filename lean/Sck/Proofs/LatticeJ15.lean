import Sck.Proofs.LatticeJ14

/-! # C03, package L8b, part 15: the rotations found by `find_rotations` are exposed and pairwise disjoint; the level loop
produces a run (`AllRun_at` holds unconditionally) -/

namespace IrvingAlgo.J

open Irving SMLattice SMLattice.J

section
variable {n : Nat} {P1 P2 : List (List Nat)} {M0 : List Pair} {μ0 : Equiv.Perm (Fin n)} {C : JCtx n P1 P2 M0 μ0}

/-- `rho` is the pairs form of a rotation exposed in `μ` -/
def RotGood (P1 P2 : List (List Nat)) (μ : Equiv.Perm (Fin n)) (rho : List Pair) : Prop :=
  ∃ ρ : List (Fin n), rho = rotPairs μ ρ ∧ ExposedRot (rk n P1) (rk n P2) μ ρ

/-- a non-empty, duplicate-free list of `(man, head of his list)` pairs whose men are linked cyclically by `outEdge` is an
exposed rotation -/
theorem cycle_good {μ : Equiv.Perm (Fin n)} {st : LvSt} (hinv : JLevelInv C μ st) (rho : List Pair) (cur : Nat)
    (hent : ∀ p ∈ rho, p.2 = (st.l1.getD p.1 []).headD 0) (hnd : (rho.map Prod.fst).Nodup)
    (hlink : Linked st.l1 st.l2 (rho.map Prod.fst) cur) (hhead : (rho.map Prod.fst).head? = some cur) :
    RotGood P1 P2 μ rho := by
  set ρN := rho.map Prod.fst with hρN
  have hne : ρN ≠ [] := by intro h; rw [h] at hhead; simp at hhead
  have hpos : 0 < ρN.length := List.length_pos_iff.mpr hne
  have h0 : ρN[0] = cur := by
    have : ρN[0]? = some cur := by rw [← List.head?_eq_getElem?]; exact hhead
    obtain ⟨_, h⟩ := List.getElem?_eq_some_iff.mp this
    exact h
  have hstep : ∀ t (ht : t < ρN.length),
      outEdge st.l1 st.l2 ρN[t] = some (ρN[(t + 1) % ρN.length]'(Nat.mod_lt _ hpos)) := by
    intro t ht
    rw [linked_getElem st.l1 st.l2 ρN cur hlink t ht]
    congr 1
    by_cases hlt : t + 1 < ρN.length
    · simp [hlt, Nat.mod_eq_of_lt hlt]
    · have : t + 1 = ρN.length := by omega
      simp [this, h0]
  have hlt : ∀ a ∈ ρN, a < n := by
    intro a ha
    obtain ⟨t, ht, rfl⟩ := List.getElem_of_mem ha
    obtain ⟨m, _, hm, _, _⟩ := outEdge_spec hinv (hstep t ht)
    rw [hm]; exact m.2
  set ρ : List (Fin n) := ρN.pmap (fun a h => (⟨a, h⟩ : Fin n)) hlt with hρ
  have hlen : ρ.length = ρN.length := by simp [hρ]
  have hget : ∀ t (ht : t < ρ.length), ((ρ[t] : Fin n) : Nat) = ρN[t]'(by omega) := by
    intro t ht; simp [hρ]
  have hnodup : ρ.Nodup := by
    rw [List.nodup_iff_injective_getElem]
    intro ⟨i, hi⟩ ⟨j, hj⟩ hij
    simp only at hij
    have : ρN[i]'(by omega) = ρN[j]'(by omega) := by rw [← hget i hi, ← hget j hj, hij]
    have := (List.Nodup.getElem_inj_iff hnd).mp this
    exact Fin.ext this
  refine ⟨ρ, ?_, hnodup, ?_, ?_⟩
  · apply List.ext_getElem
    · rw [rotPairs_length, hlen, hρN, List.length_map]
    · intro i h1 h2
      have hi : i < ρ.length := by rw [rotPairs_length] at h2; exact h2
      have e1 : (rotPairs μ ρ)[i] = pr μ ρ[i] := by simp [rotPairs]
      rw [e1]
      have hfst : (rho[i]).1 = ρN[i]'(by omega) := by simp [hρN]
      have ha1 : ((ρ[i] : Fin n) : Nat) = (rho[i]).1 := by rw [hget i hi, hfst]
      have hsnd := hent rho[i] (List.getElem_mem h1)
      rw [← ha1, hinv.head ρ[i]] at hsnd
      exact Prod.ext ha1.symm hsnd
  · intro h; rw [h] at hlen; simp at hlen; omega
  · intro a ha
    obtain ⟨t, ht, rfl⟩ := List.getElem_of_mem ha
    rw [List.formPerm_apply_getElem ρ hnodup t ht]
    obtain ⟨m, m', hm, hm', hsucc⟩ := outEdge_spec hinv (hstep t (by omega))
    have e1 : ρ[t] = m := Fin.ext (by rw [hget t ht, hm])
    have hmod : (t + 1) % ρ.length < ρ.length := Nat.mod_lt _ (by omega)
    have e2 : ρ[(t + 1) % ρ.length] = m' := by
      apply Fin.ext
      rw [hget _ hmod, ← hm']
      simp only [hlen]
    rw [e1, e2]; exact hsucc

/-- the invariant of the `while start_point < n` loop of `find_rotations` -/
def FRInv (P1 P2 : List (List Nat)) (μ : Equiv.Perm (Fin n)) (stF : List Bool × List (List Pair)) : Prop :=
  (∀ rho ∈ stF.2, RotGood P1 P2 μ rho ∧ ∀ p ∈ rho, stF.1.getD p.1 true = true) ∧
  stF.2.Pairwise (fun r r' => ∀ p ∈ r, ∀ q ∈ r', p.1 ≠ q.1)

theorem rotStep_spec {μ : Equiv.Perm (Fin n)} {st : LvSt} (hinv : JLevelInv C μ st)
    (stF : List Bool × List (List Pair)) (start : Nat) (h : FRInv P1 P2 μ stF) :
    FRInv P1 P2 μ (rotStep st.l1 st.l2 stF start) := by
  unfold rotStep
  split
  · exact h
  · obtain ⟨⟨hw1, hw2, hw3⟩, hmono, hnew⟩ := walk_spec st.l1 st.l2 (st.l1.length + 1) stF.1 start []
      ⟨fun p hp => by simp at hp, by simp, trivial⟩
    have hold : ∀ rho ∈ stF.2, RotGood P1 P2 μ rho ∧
        ∀ p ∈ rho, (walk st.l1 st.l2 (st.l1.length + 1) stF.1 start []).1.getD p.1 true = true :=
      fun rho hr => ⟨(h.1 rho hr).1, fun p hp => hmono _ ((h.1 rho hr).2 p hp)⟩
    simp only
    split
    · exact ⟨hold, h.2⟩
    · rename_i w tl hmatch
      split
      · rename_i hcont
        have hmem := List.contains_iff_mem.mp hcont
        set cyc := (walk st.l1 st.l2 (st.l1.length + 1) stF.1 start []).2.2 with hcyc
        set cur := (walk st.l1 st.l2 (st.l1.length + 1) stF.1 start []).2.1 with hcur
        have hk : cyc.idxOf (cur, w) < cyc.length := List.idxOf_lt_length_of_mem hmem
        have hsub : ∀ p ∈ cyc.drop (cyc.idxOf (cur, w)), p ∈ cyc := fun p hp => List.mem_of_mem_drop hp
        have hgood : RotGood P1 P2 μ (cyc.drop (cyc.idxOf (cur, w))) := by
          refine cycle_good hinv _ cur (fun p hp => (hw1 p (hsub p hp)).1) ?_ ?_ ?_
          · rw [List.map_drop]; exact hw2.sublist (List.drop_sublist _ _)
          · rw [List.map_drop]; exact linked_suffix _ _ _ _ _ hw3
          · rw [List.map_drop, List.head?_drop, List.getElem?_map, List.getElem?_eq_getElem hk,
              List.getElem_idxOf hk]
            rfl
        refine ⟨?_, ?_⟩
        · intro rho hr
          rcases List.mem_append.mp hr with hr | hr
          · exact hold rho hr
          · simp only [List.mem_singleton] at hr
            subst hr
            exact ⟨hgood, fun p hp => (hw1 p (hsub p hp)).2⟩
        · rw [List.pairwise_append]
          refine ⟨h.2, by simp, ?_⟩
          intro r hr r' hr' p hp q hq
          simp only [List.mem_singleton] at hr'
          subst hr'
          have h1 := (h.1 r hr).2 p hp
          rcases hnew q (hsub q hq) with h2 | h2
          · simp at h2
          · intro he; rw [he, h2] at h1; exact absurd h1 (by simp)
      · exact ⟨hold, h.2⟩

/-- **`find_rotations` is sound**: every rotation it returns is exposed in the current matching, and different ones have
no man in common -/
theorem findRotations_spec {μ : Equiv.Perm (Fin n)} {st : LvSt} (hinv : JLevelInv C μ st) :
    (∀ rho ∈ findRotations st.l1 st.l2, RotGood P1 P2 μ rho) ∧
      (findRotations st.l1 st.l2).Pairwise (fun r r' => ∀ p ∈ r, ∀ q ∈ r', p.1 ≠ q.1) := by
  unfold findRotations
  have : ∀ (starts : List Nat) (stF : List Bool × List (List Pair)), FRInv P1 P2 μ stF →
      FRInv P1 P2 μ (starts.foldl (rotStep st.l1 st.l2) stF) := by
    intro starts
    induction starts with
    | nil => intro stF h; exact h
    | cons a l ih => intro stF h; rw [List.foldl_cons]; exact ih _ (rotStep_spec hinv stF a h)
  have := this (List.range st.l1.length) (List.replicate st.l1.length false, [])
    ⟨fun rho hr => by simp at hr, List.Pairwise.nil⟩
  exact ⟨fun rho hr => (this.1 rho hr).1, this.2⟩

/-- pairwise disjoint rotations exposed in the same stable matching can be eliminated one after the other -/
theorem level_run (C : JCtx n P1 P2 M0 μ0) : ∀ (rots : List (List Pair)) (M : List Pair) (μ : Equiv.Perm (Fin n)),
    Rep M μ → StableSM (rk n P1) (rk n P2) μ → (∀ rho ∈ rots, RotGood P1 P2 μ rho) →
    rots.Pairwise (fun r r' => ∀ p ∈ r, ∀ q ∈ r', p.1 ≠ q.1) →
    exposedAllB P1 P2 M rots = true ∧ ∀ r ∈ rots, r ≠ [] := by
  intro rots
  induction rots with
  | nil => intro M μ _ _ _ _; exact ⟨rfl, fun r hr => by simp at hr⟩
  | cons rho rest ih =>
    intro M μ hM hμ hgood hpw
    obtain ⟨ρ, rfl, hex⟩ := hgood _ List.mem_cons_self
    obtain ⟨M1, hM1, hrep1⟩ := eliminate_bridge hM hex.1 (exposedRot_move hex)
    obtain ⟨hst1, hle1, _⟩ := exposed_elim_stable C.h1 hμ hex
    rw [List.pairwise_cons] at hpw
    have hgood' : ∀ rho' ∈ rest, RotGood P1 P2 (elim μ ρ) rho' := by
      intro rho' hr'
      obtain ⟨ρ', rfl, hex'⟩ := hgood _ (List.mem_cons_of_mem _ hr')
      have hdisj : ∀ a ∈ ρ', a ∉ ρ := by
        intro a ha ha'
        exact hpw.1 _ hr' (pr μ a) (List.mem_map.mpr ⟨a, ha', rfl⟩) (pr μ a) (List.mem_map.mpr ⟨a, ha, rfl⟩) rfl
      have hag : ∀ a ∈ ρ', elim μ ρ a = μ a := fun a ha => elim_apply_of_notMem μ (hdisj a ha)
      refine ⟨ρ', ?_, exposed_of_agree C.h1 hst1 hle1 hex' hag⟩
      unfold rotPairs
      apply List.map_congr_left
      intro a ha
      unfold pr; rw [hag a ha]
    obtain ⟨e1, e2⟩ := ih M1 (elim μ ρ) hrep1 hst1 hgood' hpw.2
    refine ⟨?_, ?_⟩
    · simp only [exposedAllB, Bool.and_eq_true]
      refine ⟨(exposedB_iff _ _ _ _).mpr (exposed_bridge hM hex), ?_⟩
      rw [hM1]; exact e1
    · intro r hr
      rcases List.mem_cons.mp hr with rfl | hr
      · intro h0; exact hex.2.1 (List.map_eq_nil_iff.mp h0)
      · exact e2 r hr

end

end IrvingAlgo.J

#print axioms IrvingAlgo.J.findRotations_spec
#print axioms IrvingAlgo.J.level_run
