import Sck.Proofs.Bvn1
import Mathlib.Data.Finset.Card
import Mathlib.Data.Fintype.Prod
import Mathlib.Data.Fintype.Card
import Mathlib.Order.Fin.Basic

/-! C06 prototype: replaying a sequence of permutations through the exact Birkhoff loop. -/

open Finset

variable {n : ℕ}

/-- minimum entry along a permutation (n ≥ 1) -/
def stepZ (hn : 0 < n) (X : Fin n → Fin n → ℚ) (σ : Equiv.Perm (Fin n)) : ℚ :=
  (Finset.univ : Finset (Fin n)).inf' ⟨⟨0, hn⟩, mem_univ _⟩ (fun i => X i (σ i))

theorem stepZ_le (hn : 0 < n) (X : Fin n → Fin n → ℚ) (σ : Equiv.Perm (Fin n)) (i : Fin n) :
    stepZ hn X σ ≤ X i (σ i) := Finset.inf'_le _ (mem_univ i)

theorem stepZ_attained (hn : 0 < n) (X : Fin n → Fin n → ℚ) (σ : Equiv.Perm (Fin n)) :
    ∃ i, stepZ hn X σ = X i (σ i) := by
  obtain ⟨i, _, hi⟩ := Finset.exists_mem_eq_inf' (s := (Finset.univ : Finset (Fin n)))
    ⟨⟨0, hn⟩, mem_univ _⟩ (fun i => X i (σ i))
  exact ⟨i, hi⟩

/-- exact replay: each permutation must lie in the current support -/
def replay (hn : 0 < n) : (Fin n → Fin n → ℚ) → List (Equiv.Perm (Fin n)) →
    Option (List (ℚ × Equiv.Perm (Fin n)) × (Fin n → Fin n → ℚ))
  | X, [] => some ([], X)
  | X, σ :: rest =>
    if ∀ i, 0 < X i (σ i) then
      match replay hn (bvnStep X σ (stepZ hn X σ)) rest with
      | some (out, Xf) => some ((stepZ hn X σ, σ) :: out, Xf)
      | none => none
    else none

def zeroCount (X : Fin n → Fin n → ℚ) : ℕ := #{p : Fin n × Fin n | X p.1 p.2 = 0}

theorem zeroCount_step_lt (hn : 0 < n) (X : Fin n → Fin n → ℚ) (σ : Equiv.Perm (Fin n))
    (hsupp : ∀ i, 0 < X i (σ i)) :
    zeroCount X < zeroCount (bvnStep X σ (stepZ hn X σ)) := by
  unfold zeroCount
  apply Finset.card_lt_card
  rw [Finset.ssubset_iff_of_subset]
  · obtain ⟨i, hi⟩ := stepZ_attained hn X σ
    refine ⟨(i, σ i), ?_, ?_⟩
    · simp [bvnStep, hi]
    · simp; exact (hsupp i).ne'
  · intro p hp
    simp only [mem_filter, mem_univ, true_and] at hp ⊢
    unfold bvnStep
    split
    · rename_i h
      have := hsupp p.1
      rw [h] at this
      linarith
    · simpa using hp

/-- Specification of a successful replay that ends at the zero matrix. -/
theorem replay_spec (hn : 0 < n) :
    ∀ (perms : List (Equiv.Perm (Fin n))) (X : Fin n → Fin n → ℚ) (s : ℚ) (out) (Xf),
      Balanced X s → replay hn X perms = some (out, Xf) →
      Balanced Xf (s - (out.map (·.1)).sum) ∧
      (∀ e ∈ out, 0 < e.1) ∧
      (∀ i j, X i j = Xf i j + (out.map (fun e => e.1 * (if e.2 i = j then (1 : ℚ) else 0))).sum) ∧
      zeroCount X + out.length ≤ zeroCount Xf := by
  intro perms
  induction perms with
  | nil =>
    intro X s out Xf hX h
    simp [replay] at h
    obtain ⟨rfl, rfl⟩ := h
    simp; simpa using hX
  | cons σ rest ih =>
    intro X s out Xf hX h
    simp only [replay] at h
    split at h
    · rename_i hsupp
      split at h
      · rename_i out' Xf' hrec
        simp at h
        obtain ⟨rfl, rfl⟩ := h
        have hz := stepZ_le hn X σ
        have hbal := bvnStep_balanced X s hX σ (stepZ hn X σ) hz
        obtain ⟨h1, h2, h3, h4⟩ := ih _ _ _ _ hbal hrec
        have hzpos : 0 < stepZ hn X σ := by
          obtain ⟨i, hi⟩ := stepZ_attained hn X σ
          rw [hi]; exact hsupp i
        refine ⟨?_, ?_, ?_, ?_⟩
        · simp only [List.map_cons, List.sum_cons]
          have : s - (stepZ hn X σ + (out'.map (·.1)).sum) = s - stepZ hn X σ - (out'.map (·.1)).sum := by ring
          rw [this]; exact h1
        · intro e he
          simp only [List.mem_cons] at he
          rcases he with rfl | he
          · exact hzpos
          · exact h2 e he
        · intro i j
          simp only [List.map_cons, List.sum_cons]
          rw [bvnStep_recon X σ (stepZ hn X σ) i j, h3 i j]
          ring
        · have := zeroCount_step_lt hn X σ hsupp
          simp only [List.length_cons]
          omega
      · simp at h
    · simp at h

/-- Consequences when the replay ends at zero: coefficients sum to the common row sum and there
are at most `n²` terms. -/
theorem replay_zero (hn : 0 < n) (perms : List (Equiv.Perm (Fin n))) (X : Fin n → Fin n → ℚ) (s : ℚ)
    (out) (hX : Balanced X s) (h : replay hn X perms = some (out, fun _ _ => 0)) :
    (out.map (·.1)).sum = s ∧ out.length ≤ n * n ∧ (∀ e ∈ out, 0 < e.1) ∧
    ∀ i j, X i j = (out.map (fun e => e.1 * (if e.2 i = j then (1 : ℚ) else 0))).sum := by
  obtain ⟨h1, h2, h3, h4⟩ := replay_spec hn perms X s out _ hX h
  refine ⟨?_, ?_, h2, fun i j => by simpa using h3 i j⟩
  · have := h1.row ⟨0, hn⟩
    simp at this; linarith
  · have hle : zeroCount (fun (_ _ : Fin n) => (0 : ℚ)) ≤ n * n := by
      unfold zeroCount
      calc #{p : Fin n × Fin n | (0 : ℚ) = 0} ≤ Fintype.card (Fin n × Fin n) := Finset.card_le_univ _
        _ = n * n := by simp
    omega

#print axioms replay_spec
#print axioms replay_zero
