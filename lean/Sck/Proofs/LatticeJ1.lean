import Sck.Proofs.Lattice10

/-! # C03, package L8b, part 1: Rule 2 of the sparse rotation poset is sound (spec level)

If the rotation `σ'` (exposed in the stable matching `N'`) moves the man `c` from `N' c` down to `(N'/σ') c`, jumping over
the woman `b`, and `(a, b)` is a pair of the rotation `σ` (exposed in the stable matching `N`) such that `b` likes `c` at
least as much as `a`, then `σ` is eliminated on every path on which `σ'` is eliminated.  (The rotation `σ` is the one
that moves `b` from `a` up to a man she prefers to `c`: it is the rotation that deletes the pair `(c, b)` from the lists.) -/

namespace SMLattice.J

open Irving

variable {n : ℕ}

/-- **Rule 2, spec level** -/
theorem precedes_of_jumped_woman {P1 P2 : Fin n → Fin n → ℕ} (h1 : ∀ a, Function.Injective (P1 a))
    (h2 : ∀ b, Function.Injective (P2 b)) {N N' : Equiv.Perm (Fin n)} (hN : StableSM P1 P2 N)
    (hN' : StableSM P1 P2 N') {σ σ' : List (Fin n)} (hσ : ExposedRot P1 P2 N σ) (hσ' : ExposedRot P1 P2 N' σ')
    {c a : Fin n} (hc' : c ∈ σ') (ha : a ∈ σ) (hjump : P1 c (N a) < P1 c (elim N' σ' c))
    (hw : P2 (N a) c ≤ P2 (N a) a)
    {A : List (List (Fin n))} {μ ν : Equiv.Perm (Fin n)} (hμ : StableSM P1 P2 μ) (hp : ElimPath P1 P2 μ A ν)
    (hstart : P1 a (μ a) ≤ P1 a (N a)) (h' : ∃ r ∈ pathPairs μ A, r ~r rotPairs N' σ') :
    ∃ r ∈ pathPairs μ A, r ~r rotPairs N σ := by
  have hν := (elimPath_stable h1 A μ ν hμ hp).1
  obtain ⟨_, hlt⟩ := (mem_path_iff h1 h2 hN' hσ' hc' A μ ν hμ hp).mp h'
  refine (mem_path_iff h1 h2 hN hσ ha A μ ν hμ hp).mpr ⟨hstart, ?_⟩
  -- `c` ends below `(N'/σ') c`, hence below `b = N a`
  have hge : P1 c (elim N' σ' c) ≤ P1 c (ν c) := by
    by_contra hcon
    exact no_jump h1 h2 hN' hν hσ' hc' hlt (by omega)
  have hcb : P1 c (N a) < P1 c (ν c) := by omega
  -- so `b` prefers her `ν`-husband to `c` (else `(c, b)` blocks `ν`), strictly
  have hb1 : ¬ P2 (N a) c < P2 (N a) (ν.symm (N a)) := fun hlt' => hν c (N a) ⟨hcb, hlt'⟩
  have hne : ν.symm (N a) ≠ c := by
    intro he
    have : ν c = N a := by rw [← he]; simp
    rw [this] at hcb; exact Nat.lt_irrefl _ hcb
  have hb2 : P2 (N a) (ν.symm (N a)) ≠ P2 (N a) c := fun he => hne (h2 _ he)
  have hb3 : P2 (N a) (ν.symm (N a)) < P2 (N a) a := by omega
  have hna : ν a ≠ N a := by
    intro he
    have : ν.symm (N a) = a := by rw [← he]; simp
    rw [this] at hb3; exact Nat.lt_irrefl _ hb3
  have hna' : P1 a (ν a) ≠ P1 a (N a) := fun he => hna (h1 a he)
  by_contra hcon
  exact both_prefer_false h1 h2 hν hN (a := a) (b := N a) rfl (by omega) hb3

end SMLattice.J

#print axioms SMLattice.J.precedes_of_jumped_woman
