import Sck.Proofs.SMDual
import Mathlib.Data.Fintype.EquivFin
import Mathlib.Logic.Equiv.Defs

/-! # The lattice of stable matchings (C03, package L7), part 1: dominance, meet and join (Conway)

Spec level: `n` men and `n` women are `Fin n`; `P1 a b` is the rank man `a` gives woman `b`, `P2 b a` the rank woman
`b` gives man `a` (smaller = better); a perfect matching is `μ : Equiv.Perm (Fin n)` (`μ a` = wife of `a`,
`μ.symm b` = husband of `b`); stability is `StableSM` of `Sck/Proofs/SMDual.lean`.  Preferences are strict when the
rows are injective. -/

namespace SMLattice

variable {n : ℕ}

/-- `μ ≼ ν`: every man likes his `μ`-partner at least as much as his `ν`-partner (`μ` dominates `ν`) -/
def MLe (P1 : Fin n → Fin n → ℕ) (μ ν : Equiv.Perm (Fin n)) : Prop := ∀ a, P1 a (μ a) ≤ P1 a (ν a)

/-- the better of the two partners of `a` (for the agent whose ranks are `P`) -/
def better (P : Fin n → Fin n → ℕ) (μ ν : Equiv.Perm (Fin n)) (a : Fin n) : Fin n :=
  if P a (μ a) ≤ P a (ν a) then μ a else ν a

/-- the worse of the two partners of `a` -/
def worse (P : Fin n → Fin n → ℕ) (μ ν : Equiv.Perm (Fin n)) (a : Fin n) : Fin n :=
  if P a (μ a) ≤ P a (ν a) then ν a else μ a

theorem MLe.refl (P1 : Fin n → Fin n → ℕ) (μ : Equiv.Perm (Fin n)) : MLe P1 μ μ := fun _ => Nat.le_refl _

theorem MLe.trans {P1 : Fin n → Fin n → ℕ} {μ ν κ : Equiv.Perm (Fin n)} (h1 : MLe P1 μ ν) (h2 : MLe P1 ν κ) :
    MLe P1 μ κ := fun a => Nat.le_trans (h1 a) (h2 a)

theorem MLe.antisymm {P1 : Fin n → Fin n → ℕ} (hinj : ∀ a, Function.Injective (P1 a)) {μ ν : Equiv.Perm (Fin n)}
    (h1 : MLe P1 μ ν) (h2 : MLe P1 ν μ) : μ = ν :=
  Equiv.ext (fun a => hinj a (Nat.le_antisymm (h1 a) (h2 a)))

/-- stability is symmetric in the two sides -/
theorem stable_symm {P1 P2 : Fin n → Fin n → ℕ} {μ : Equiv.Perm (Fin n)} (h : StableSM P1 P2 μ) :
    StableSM P2 P1 μ.symm := by
  intro b a ⟨h1, h2⟩
  exact h a b ⟨by simpa using h2, h1⟩

theorem stable_symm_iff {P1 P2 : Fin n → Fin n → ℕ} {μ : Equiv.Perm (Fin n)} :
    StableSM P2 P1 μ.symm ↔ StableSM P1 P2 μ :=
  ⟨fun h => by simpa using stable_symm h, stable_symm⟩

/-- **women's side of dominance**: if every man weakly prefers `μ` to `ν` (both stable), every woman weakly prefers
`ν` to `μ` -/
theorem women_le {P1 P2 : Fin n → Fin n → ℕ} (h1 : ∀ a, Function.Injective (P1 a)) {μ ν : Equiv.Perm (Fin n)}
    (hν : StableSM P1 P2 ν) (hle : MLe P1 μ ν) : MLe P2 ν.symm μ.symm := by
  intro b
  by_contra hlt
  have hlt : P2 b (μ.symm b) < P2 b (ν.symm b) := by omega
  have hne : ν (μ.symm b) ≠ b := by
    intro he
    have : μ.symm b = ν.symm b := (Equiv.eq_symm_apply ν).mpr he
    rw [this] at hlt; exact Nat.lt_irrefl _ hlt
  have h3 := hle (μ.symm b)
  simp only [Equiv.apply_symm_apply] at h3
  have h4 : P1 (μ.symm b) b ≠ P1 (μ.symm b) (ν (μ.symm b)) := fun he => hne (h1 _ he).symm
  exact hν (μ.symm b) b ⟨by omega, hlt⟩

/-- the crossing case of Conway's argument: `a` weakly prefers his `μ`-wife `b`, `a' ≠ a` weakly prefers his
`ν`-wife, and she is the same woman `b` — impossible for stable `μ`, `ν` -/
theorem no_crossing {P1 P2 : Fin n → Fin n → ℕ} (h1 : ∀ a, Function.Injective (P1 a))
    (h2 : ∀ b, Function.Injective (P2 b)) {μ ν : Equiv.Perm (Fin n)} (hμ : StableSM P1 P2 μ)
    (hν : StableSM P1 P2 ν) (a a' : Fin n) (hne : a ≠ a') (hb : μ a = ν a')
    (ha : P1 a (μ a) ≤ P1 a (ν a)) (ha' : P1 a' (ν a') ≤ P1 a' (μ a')) : False := by
  have e1 : μ.symm (μ a) = a := by simp
  have e2 : ν.symm (μ a) = a' := by rw [hb]; simp
  have n1 : μ a ≠ ν a := by rw [hb]; exact fun h => hne (ν.injective h).symm
  have n2 : ν a' ≠ μ a' := by rw [← hb]; exact fun h => hne (μ.injective h)
  have s1 : P1 a (μ a) < P1 a (ν a) := lt_of_le_of_ne ha (fun h => n1 (h1 a h))
  have s2 : P1 a' (ν a') < P1 a' (μ a') := lt_of_le_of_ne ha' (fun h => n2 (h1 a' h))
  have s3 : P2 (μ a) a ≠ P2 (μ a) a' := fun h => hne (h2 _ h)
  rcases Nat.lt_or_ge (P2 (μ a) a) (P2 (μ a) a') with hw | hw
  · exact hν a (μ a) ⟨s1, by rw [e2]; exact hw⟩
  · refine hμ a' (μ a) ⟨by rw [hb]; exact s2, ?_⟩
    rw [e1]; omega

/-- giving every man the better of his two partners is one-to-one -/
theorem better_injective {P1 P2 : Fin n → Fin n → ℕ} (h1 : ∀ a, Function.Injective (P1 a))
    (h2 : ∀ b, Function.Injective (P2 b)) {μ ν : Equiv.Perm (Fin n)} (hμ : StableSM P1 P2 μ)
    (hν : StableSM P1 P2 ν) : Function.Injective (better P1 μ ν) := by
  intro a a' he
  by_contra hne
  unfold better at he
  split at he <;> split at he
  · exact hne (μ.injective he)
  · rename_i ha ha'
    exact no_crossing h1 h2 hμ hν a a' hne he ha (by omega)
  · rename_i ha ha'
    exact no_crossing h1 h2 hν hμ a a' hne he (by omega) ha'
  · exact hne (ν.injective he)

/-- **Conway, meet**: for stable `μ`, `ν`, giving every man the better of his two partners is a stable matching
(and every woman gets the worse of her two partners) -/
theorem stable_meet {P1 P2 : Fin n → Fin n → ℕ} (h1 : ∀ a, Function.Injective (P1 a))
    (h2 : ∀ b, Function.Injective (P2 b)) {μ ν : Equiv.Perm (Fin n)} (hμ : StableSM P1 P2 μ)
    (hν : StableSM P1 P2 ν) :
    ∃ κ : Equiv.Perm (Fin n), StableSM P1 P2 κ ∧ (∀ a, κ a = better P1 μ ν a) := by
  let κ : Equiv.Perm (Fin n) :=
    Equiv.ofBijective (better P1 μ ν) (Finite.injective_iff_bijective.mp (better_injective h1 h2 hμ hν))
  have hκ : ∀ a, κ a = better P1 μ ν a := fun a => rfl
  refine ⟨κ, ?_, hκ⟩
  intro a b ⟨hb1, hb2⟩
  -- the husband of `b` in `κ` got her from `μ` or from `ν`
  have hle1 : P1 a (κ a) ≤ P1 a (μ a) := by rw [hκ]; unfold better; split <;> omega
  have hle2 : P1 a (κ a) ≤ P1 a (ν a) := by rw [hκ]; unfold better; split <;> omega
  have hb : κ (κ.symm b) = b := by simp
  rw [hκ] at hb
  unfold better at hb
  split at hb
  · have : μ.symm b = κ.symm b := (Equiv.symm_apply_eq μ).mpr hb.symm
    exact hμ a b ⟨by omega, by rw [this]; exact hb2⟩
  · have : ν.symm b = κ.symm b := (Equiv.symm_apply_eq ν).mpr hb.symm
    exact hν a b ⟨by omega, by rw [this]; exact hb2⟩

/-- **Conway, join**: for stable `μ`, `ν`, giving every man the worse of his two partners is a stable matching, and
every woman gets the better of her two partners -/
theorem stable_join {P1 P2 : Fin n → Fin n → ℕ} (h1 : ∀ a, Function.Injective (P1 a))
    (h2 : ∀ b, Function.Injective (P2 b)) {μ ν : Equiv.Perm (Fin n)} (hμ : StableSM P1 P2 μ)
    (hν : StableSM P1 P2 ν) :
    ∃ κ : Equiv.Perm (Fin n), StableSM P1 P2 κ ∧ (∀ a, κ a = worse P1 μ ν a) ∧
      (∀ b, κ.symm b = better P2 μ.symm ν.symm b) := by
  obtain ⟨κ', hst, hκ'⟩ := stable_meet h2 h1 (stable_symm hμ) (stable_symm hν)
  refine ⟨κ'.symm, stable_symm_iff.mp (by simpa using hst), ?_, by simpa using hκ'⟩
  intro a
  have hb := hκ' (κ'.symm a)
  simp only [Equiv.apply_symm_apply] at hb
  unfold better at hb
  unfold worse
  split at hb
  · rename_i hw
    -- `a` is the `μ`-husband of `b := κ'.symm a`
    have hba : κ'.symm a = μ a := (Equiv.symm_apply_eq μ).mp hb.symm
    rw [hba] at hw ⊢
    simp only [Equiv.symm_apply_apply] at hw
    split
    · rename_i hm
      by_contra hne
      have n1 : P1 a (μ a) ≠ P1 a (ν a) := fun h => hne (h1 a h)
      have n2 : ν.symm (μ a) ≠ a := fun h => hne ((Equiv.symm_apply_eq ν).mp h)
      have n3 : P2 (μ a) a ≠ P2 (μ a) (ν.symm (μ a)) := fun h => n2 (h2 _ h).symm
      exact hν a (μ a) ⟨by omega, by omega⟩
    · rfl
  · rename_i hw
    have hba : κ'.symm a = ν a := (Equiv.symm_apply_eq ν).mp hb.symm
    rw [hba] at hw ⊢
    simp only [Equiv.symm_apply_apply] at hw
    split
    · rfl
    · rename_i hm
      exact absurd ⟨by omega, by omega⟩ (hμ a (ν a))

/-- the join is weakly worse than both for the men; the meet weakly better -/
theorem worse_ge (P1 : Fin n → Fin n → ℕ) (μ ν : Equiv.Perm (Fin n)) (a : Fin n) :
    P1 a (μ a) ≤ P1 a (worse P1 μ ν a) ∧ P1 a (ν a) ≤ P1 a (worse P1 μ ν a) := by
  unfold worse; split <;> constructor <;> omega

theorem better_le (P1 : Fin n → Fin n → ℕ) (μ ν : Equiv.Perm (Fin n)) (a : Fin n) :
    P1 a (better P1 μ ν a) ≤ P1 a (μ a) ∧ P1 a (better P1 μ ν a) ≤ P1 a (ν a) := by
  unfold better; split <;> constructor <;> omega

end SMLattice

#print axioms SMLattice.stable_meet
#print axioms SMLattice.stable_join
