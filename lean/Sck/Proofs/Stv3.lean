import Sck.Proofs.Stv2
import Mathlib.Data.List.Forall2
import Mathlib.Data.List.InsertIdx
import Mathlib.Data.List.Perm.Subperm

/-! C12, STV half, part 2: what one elimination does to a ballot (`stv_reduced_profile`), and the invariant
linking the reduced profile of every round to the ORIGINAL ballots (`firstAmong`, `firstCount`). -/

namespace C12

/-! ### well-formed ballots -/

theorem wfB_iff (P : List (List Nat)) (m : Nat) :
    wfB P m = true ↔ ∀ row ∈ P, row.Perm (List.range' 1 m) := by
  simp [wfB, List.all_eq_true, List.isPerm_iff]

theorem perm_range'_props {row : List Nat} {m : Nat} (h : row.Perm (List.range' 1 m)) :
    row.length = m ∧ row.Nodup ∧ ∀ r ∈ row, 1 ≤ r ∧ r ≤ m := by
  refine ⟨by simpa using h.length_eq, h.nodup_iff.mpr (List.nodup_range' 1), fun r hr => ?_⟩
  have := h.mem_iff.mp hr
  rw [List.mem_range'_1] at this; omega

theorem perm_range'_of {row : List Nat} {m : Nat} (hl : row.length = m) (hnd : row.Nodup)
    (hb : ∀ r ∈ row, 1 ≤ r ∧ r ≤ m) : row.Perm (List.range' 1 m) := by
  have hsub : row ⊆ List.range' 1 m := fun r hr => by
    rw [List.mem_range'_1]; have := hb r hr; omega
  exact (List.subperm_of_subset hnd hsub).perm_of_length_le (by simp [hl])

/-- soundness of the decidable well-formedness check -/
theorem wfB_sound (P : List (List Nat)) (m : Nat) (h : wfB P m = true) :
    ∀ row ∈ P, row.length = m ∧ row.Nodup ∧ ∀ r ∈ row, 1 ≤ r ∧ r ≤ m :=
  fun row hr => perm_range'_props ((wfB_iff P m).mp h row hr)

theorem getD_bounds {row : List Nat} {m : Nat} (h : row.Perm (List.range' 1 m)) (k : Nat) (hk : k < m) :
    1 ≤ row.getD k 0 ∧ row.getD k 0 ≤ m := by
  obtain ⟨hl, _, hb⟩ := perm_range'_props h
  rw [getD_lt _ _ _ (by omega)]
  exact hb _ (List.getElem_mem _)

theorem getD_inj {row : List Nat} (hnd : row.Nodup) (j k : Nat) (hj : j < row.length) (hk : k < row.length)
    (h : row.getD j 0 = row.getD k 0) : j = k := by
  rw [getD_lt _ _ _ hj, getD_lt _ _ _ hk] at h
  exact (List.Nodup.getElem_inj_iff hnd).mp h

/-! ### positions before and after a deletion -/

/-- the position, before column `d` was deleted, of what is now at position `p` -/
def up (d p : Nat) : Nat := if p < d then p else p + 1

/-- the position, after column `d` was deleted, of what was at position `a ≠ d` -/
def dn (d a : Nat) : Nat := if d < a then a - 1 else a

theorem up_ne (d p : Nat) : up d p ≠ d := by unfold up; split <;> omega

theorem up_dn (d a : Nat) (h : a ≠ d) : up d (dn d a) = a := by unfold up dn; split <;> split <;> omega

theorem dn_up (d p : Nat) : dn d (up d p) = p := by unfold up dn; split <;> split <;> omega

theorem up_lt (d p n : Nat) (hp : p + 1 < n) : up d p < n := by unfold up; split <;> omega

theorem dn_lt (d a n : Nat) (ha : a < n) (hd : d < n) (h : a ≠ d) : dn d a + 1 < n := by
  unfold dn; split <;> omega

theorem up_mono (d p q : Nat) : up d p < up d q ↔ p < q := by unfold up; split <;> split <;> omega

theorem eraseIdx_getD (l : List Nat) (d p z : Nat) : (l.eraseIdx d).getD p z = l.getD (up d p) z := by
  simp only [List.getD_eq_getElem?_getD, List.getElem?_eraseIdx, up]
  split <;> rfl

/-- the entry at position `p` of the reduced ballot is the old entry of the same alternative, lowered by
one exactly when it was ranked below the deleted alternative -/
theorem dropRow_getD (row : List Nat) (d p : Nat) :
    (dropRow row d).getD p 0 =
      if row.getD d 0 < row.getD (up d p) 0 then row.getD (up d p) 0 - 1 else row.getD (up d p) 0 := by
  rw [← eraseIdx_getD]
  unfold dropRow
  simp only [List.getD_eq_getElem?_getD, List.getElem?_map]
  cases (row.eraseIdx d)[p]? with
  | none => simp
  | some v => simp

/-! ### `stv_reduced_profile` -/

/-- the reduced ballot is again a permutation of `1..m−1` -/
theorem dropRow_perm (row : List Nat) (m d : Nat) (h : row.Perm (List.range' 1 m)) (hd : d < m) :
    (dropRow row d).Perm (List.range' 1 (m - 1)) := by
  obtain ⟨hl, hnd, hb⟩ := perm_range'_props h
  have hlen := dropRow_length row d (by omega)
  apply perm_range'_of (by omega) (dropRow_nodup row d (by omega) hnd)
  intro r hr
  obtain ⟨p, hp, rfl⟩ := List.getElem_of_mem hr
  rw [← getD_lt _ _ 0 hp, dropRow_getD]
  have hk : up d p < m := up_lt d p m (by omega)
  have hne : row.getD (up d p) 0 ≠ row.getD d 0 := fun he =>
    up_ne d p (getD_inj hnd _ _ (by omega) (by omega) he)
  have h1 := getD_bounds h (up d p) hk
  have h2 := getD_bounds h d hd
  split <;> omega

/-- the relative order of the survivors is unchanged (positions of the reduced ballot) -/
theorem dropRow_order (row : List Nat) (m d p q : Nat) (h : row.Perm (List.range' 1 m)) (hd : d < m)
    (hp : p + 1 < m) (hq : q + 1 < m) :
    ((dropRow row d).getD p 0 < (dropRow row d).getD q 0 ↔
      row.getD (up d p) 0 < row.getD (up d q) 0) := by
  obtain ⟨hl, hnd, hb⟩ := perm_range'_props h
  rw [dropRow_getD, dropRow_getD]
  have hne1 : row.getD (up d p) 0 ≠ row.getD d 0 := fun he =>
    up_ne d p (getD_inj hnd _ _ (by have := up_lt d p m hp; omega) (by omega) he)
  have hne2 : row.getD (up d q) 0 ≠ row.getD d 0 := fun he =>
    up_ne d q (getD_inj hnd _ _ (by have := up_lt d q m hq; omega) (by omega) he)
  have h1 := getD_bounds h (up d p) (up_lt d p m hp)
  have h2 := getD_bounds h (up d q) (up_lt d q m hq)
  split <;> split <;> omega

/-- **The reduced profile**: deleting column `d` from a ballot that is a permutation of `1..m` gives a
permutation of `1..m−1`, and two surviving alternatives `a, b` (now at positions `dn d a`, `dn d b`)
compare exactly as they did before. -/
theorem stv_reduced_profile (row : List Nat) (m d : Nat) (h : row.Perm (List.range' 1 m)) (hd : d < m) :
    (dropRow row d).Perm (List.range' 1 (m - 1)) ∧
    ∀ a b, a < m → b < m → a ≠ d → b ≠ d →
      ((dropRow row d).getD (dn d a) 0 < (dropRow row d).getD (dn d b) 0 ↔ row.getD a 0 < row.getD b 0) := by
  refine ⟨dropRow_perm row m d h hd, fun a b ha hb had hbd => ?_⟩
  rw [dropRow_order row m d _ _ h hd (dn_lt d a m ha hd had) (dn_lt d b m hb hd hbd),
    up_dn d a had, up_dn d b hbd]

/-! ### the best alive alternative on an original ballot -/

theorem firstAmong_spec (row : List Nat) (alive : List Nat) (h : alive ≠ []) :
    firstAmong row alive ∈ alive ∧ ∀ x ∈ alive, row.getD (firstAmong row alive) 0 ≤ row.getD x 0 := by
  induction alive with
  | nil => exact absurd rfl h
  | cons a as ih =>
    cases as with
    | nil => simp [firstAmong]
    | cons b bs =>
      obtain ⟨hm, hle⟩ := ih (by simp)
      simp only [firstAmong]
      split
      · rename_i hlt
        refine ⟨List.mem_cons_of_mem _ hm, fun x hx => ?_⟩
        rw [List.mem_cons] at hx
        rcases hx with rfl | hx
        · omega
        · exact hle x hx
      · rename_i hge
        refine ⟨by simp, fun x hx => ?_⟩
        rw [List.mem_cons] at hx
        rcases hx with rfl | hx
        · omega
        · have := hle x hx; omega

/-! ### the invariant of the loop, ballot by ballot -/

/-- `row` is the ballot `row0` restricted to the alternatives `alive` (position `p` of `row` is
alternative `alive[p]`) and re-ranked `1..alive.length` in the same order -/
structure Reduced (row0 alive row : List Nat) : Prop where
  perm : row.Perm (List.range' 1 alive.length)
  ord : ∀ p q, p < alive.length → q < alive.length →
    (row.getD p 0 < row.getD q 0 ↔ row0.getD (alive.getD p 0) 0 < row0.getD (alive.getD q 0) 0)

theorem range_getD (m p : Nat) (hp : p < m) : (List.range m).getD p 0 = p := by
  simp [List.getD_eq_getElem?_getD, List.getElem?_range hp]

theorem reduced_init (row0 : List Nat) (m : Nat) (h : row0.Perm (List.range' 1 m)) :
    Reduced row0 (List.range m) row0 := by
  refine ⟨by simpa using h, fun p q hp hq => ?_⟩
  rw [List.length_range] at hp hq
  rw [range_getD m p hp, range_getD m q hq]

theorem reduced_step (row0 alive row : List Nat) (d : Nat) (h : Reduced row0 alive row)
    (hd : d < alive.length) : Reduced row0 (alive.eraseIdx d) (dropRow row d) := by
  have hlen : (alive.eraseIdx d).length = alive.length - 1 := List.length_eraseIdx_of_lt hd
  refine ⟨?_, fun p q hp hq => ?_⟩
  · rw [hlen]; exact dropRow_perm row _ d h.perm hd
  · rw [hlen] at hp hq
    rw [dropRow_order row _ d p q h.perm hd (by omega) (by omega), eraseIdx_getD, eraseIdx_getD]
    exact h.ord _ _ (up_lt d p _ (by omega)) (up_lt d q _ (by omega))

/-- on the reduced ballot, position `p` carries rank 1 iff alternative `alive[p]` is the voter's best
alive alternative on the ORIGINAL ballot -/
theorem one_iff_firstAmong (row0 : List Nat) (m : Nat) (alive row : List Nat) (p : Nat)
    (h0 : row0.Perm (List.range' 1 m)) (hlt : ∀ x ∈ alive, x < m)
    (h : Reduced row0 alive row) (hp : p < alive.length) :
    row.getD p 0 = 1 ↔ firstAmong row0 alive = alive.getD p 0 := by
  obtain ⟨hl0, hnd0, _⟩ := perm_range'_props h0
  obtain ⟨hl, _, hb⟩ := perm_range'_props h.perm
  have hne : alive ≠ [] := by intro he; rw [he] at hp; simp at hp
  obtain ⟨hfm, hfle⟩ := firstAmong_spec row0 alive hne
  have hpm : alive.getD p 0 ∈ alive := by rw [getD_lt _ _ _ hp]; exact List.getElem_mem hp
  constructor
  · intro h1
    -- `alive[p]` is at least as good as every alive alternative, in particular as `firstAmong`
    obtain ⟨q, hq, hqv⟩ := List.getElem_of_mem hfm
    have hq' : alive.getD q 0 = firstAmong row0 alive := by rw [getD_lt _ _ _ hq]; exact hqv
    have hrq := getD_bounds h.perm q hq
    have hnlt : ¬ row.getD q 0 < row.getD p 0 := by omega
    rw [h.ord q p hq hp, hq'] at hnlt
    have hle := hfle _ hpm
    exact getD_inj hnd0 _ _ (by have := hlt _ hfm; omega) (by have := hlt _ hpm; omega) (by omega)
  · intro hf
    -- rank 1 occurs somewhere on the reduced ballot
    have h1m : 1 ∈ row := h.perm.mem_iff.mpr (by rw [List.mem_range'_1]; omega)
    obtain ⟨q, hq, hqv⟩ := List.getElem_of_mem h1m
    have hq' : q < alive.length := by omega
    have hqv' : row.getD q 0 = 1 := by rw [getD_lt _ _ _ hq]; exact hqv
    have hqm : alive.getD q 0 ∈ alive := by rw [getD_lt _ _ _ hq']; exact List.getElem_mem hq'
    have hle := hfle _ hqm
    rw [hf] at hle
    have hnlt : ¬ row.getD q 0 < row.getD p 0 := by
      rw [h.ord q p hq' hp]; omega
    have := getD_bounds h.perm p hp
    omega

end C12
