import Sck.Model.Elicit
import Mathlib.Algebra.Order.Field.Basic
import Mathlib.Algebra.Order.Ring.Rat

/-! C16: the `distortion` helper returns max welfare / (worst) chosen welfare, which is at least 1. -/

namespace Elicit

theorem maxL_spec : ∀ (l : List ℚ), l ≠ [] → maxL l ∈ l ∧ ∀ x ∈ l, x ≤ maxL l
  | [], h => absurd rfl h
  | [x], _ => by simp [maxL]
  | x :: y :: ys, _ => by
    have ih := maxL_spec (y :: ys) (by simp)
    rw [maxL]
    split
    · rename_i hle
      refine ⟨List.mem_cons_of_mem _ ih.1, ?_⟩
      intro z hz
      rcases List.mem_cons.mp hz with rfl | hz
      · exact hle
      · exact ih.2 z hz
    · rename_i hle
      have hlt : maxL (y :: ys) < x := lt_of_not_ge hle
      refine ⟨List.mem_cons_self, ?_⟩
      intro z hz
      rcases List.mem_cons.mp hz with rfl | hz
      · exact le_refl _
      · exact le_trans (ih.2 z hz) (le_of_lt hlt)

theorem minL_spec : ∀ (l : List ℚ), l ≠ [] → minL l ∈ l ∧ ∀ x ∈ l, minL l ≤ x
  | [], h => absurd rfl h
  | [x], _ => by simp [minL]
  | x :: y :: ys, _ => by
    have ih := minL_spec (y :: ys) (by simp)
    rw [minL]
    split
    · rename_i hle
      refine ⟨List.mem_cons_of_mem _ ih.1, ?_⟩
      intro z hz
      rcases List.mem_cons.mp hz with rfl | hz
      · exact hle
      · exact ih.2 z hz
    · rename_i hle
      have hlt : x < minL (y :: ys) := lt_of_not_ge hle
      refine ⟨List.mem_cons_self, ?_⟩
      intro z hz
      rcases List.mem_cons.mp hz with rfl | hz
      · exact le_refl _
      · exact le_trans (le_of_lt hlt) (ih.2 z hz)

/-- single choice: maximal welfare divided by the welfare of the chosen alternative -/
theorem distortionOf_single (scores : List ℚ) (c : Nat) (hc : c < scores.length) :
    distortionOf scores [c] = maxL scores / scores[c] := by
  simp [distortionOf, minL, List.getD_eq_getElem?_getD, List.getElem?_eq_getElem hc]

/-- several choices: the denominator is the welfare of the worst chosen alternative -/
theorem distortionOf_denominator (scores : List ℚ) (chosen : List Nat) (hne : chosen ≠ [])
    (hin : ∀ c ∈ chosen, c < scores.length) :
    (∃ c, ∃ (_ : c ∈ chosen) (hc : c < scores.length),
        distortionOf scores chosen = maxL scores / scores[c]) ∧
      ∀ c, c ∈ chosen → ∀ hc : c < scores.length,
        minL (chosen.map (fun c => scores.getD c 0)) ≤ scores[c] := by
  have hne' : chosen.map (fun c => scores.getD c 0) ≠ [] := by simpa using hne
  obtain ⟨hmem, hle⟩ := minL_spec _ hne'
  constructor
  · obtain ⟨c, hc, hcv⟩ := List.mem_map.mp hmem
    refine ⟨c, hc, hin c hc, ?_⟩
    unfold distortionOf
    rw [← hcv]
    simp [List.getD_eq_getElem?_getD, List.getElem?_eq_getElem (hin c hc)]
  · intro c hc hcl
    apply hle
    refine List.mem_map.mpr ⟨c, hc, ?_⟩
    simp [List.getD_eq_getElem?_getD, List.getElem?_eq_getElem hcl]

/-- the distortion is never below 1 when the (worst) chosen alternative has positive welfare -/
theorem distortion_helper_ge_one (scores : List ℚ) (chosen : List Nat) (hne : chosen ≠ [])
    (hin : ∀ c ∈ chosen, c < scores.length) (hpos : ∀ c ∈ chosen, 0 < scores.getD c 0) :
    1 ≤ distortionOf scores chosen := by
  have hne' : chosen.map (fun c => scores.getD c 0) ≠ [] := by simpa using hne
  obtain ⟨hmem, _⟩ := minL_spec _ hne'
  obtain ⟨c, hc, hcv⟩ := List.mem_map.mp hmem
  have hcl := hin c hc
  have hsne : scores ≠ [] := by intro h; rw [h] at hcl; simp at hcl
  have hmax := (maxL_spec scores hsne).2 (scores.getD c 0) (by
    simp [List.getD_eq_getElem?_getD, List.getElem?_eq_getElem hcl])
  unfold distortionOf
  rw [← hcv]
  have hp := hpos c hc
  rw [le_div_iff₀ hp, one_mul]
  exact hmax

theorem distortion_helper_ge_one_single (scores : List ℚ) (c : Nat) (hc : c < scores.length)
    (hpos : 0 < scores[c]) : 1 ≤ maxL scores / scores[c] := by
  rw [← distortionOf_single scores c hc]
  apply distortion_helper_ge_one scores [c] (by simp) (by simpa using hc)
  intro c' hc'
  rw [List.mem_singleton] at hc'
  subst hc'
  simpa [List.getD_eq_getElem?_getD, List.getElem?_eq_getElem hc] using hpos

end Elicit

#print axioms Elicit.distortion_helper_ge_one
