import Sck.Proofs.Preflib2

/-! Proofs for property C19, part 3: the row checker `prefRowOkB` (used by the Python harness). -/

theorem pf_valAt_eq_some_iff {α : Type} (row : List (Option α)) (j : Nat) (x : α) :
    valAt row j = some x ↔ row[j]? = some (some x) := by
  unfold valAt
  cases h : row[j]? with
  | none => simp
  | some v => simp

/-- what the checker demands of class `k` -/
def ClassOk (order : List (List Nat)) (modeNum : Nat) (row : List (Option Nat)) (k : Nat)
    (hk : k < order.length) : Prop :=
  if modeNum = 0 then ∀ a ∈ order[k], valAt row (a - 1) = some (classBase order k)
  else if modeNum = 1 then
    (sortAsc order[k]).map (fun a => valAt row (a - 1)) =
      (List.range' (classBase order k) order[k].length).map some
  else ((order[k]).map (fun a => valAt row (a - 1))).Perm
      ((List.range' (classBase order k) order[k].length).map some)

theorem prefRowOkB_iff (m : Nat) (order : List (List Nat)) (modeNum : Nat) (row : List (Option Nat)) :
    prefRowOkB m order modeNum row = true ↔
      row.length = m ∧ (∀ k (hk : k < order.length), ClassOk order modeNum row k hk) ∧
      (∀ j, j < m → j + 1 ∈ order.flatten ∨ valAt row j = none) := by
  unfold prefRowOkB
  rw [Bool.and_eq_true, Bool.and_eq_true, beq_iff_eq, and_assoc]
  refine and_congr Iff.rfl (and_congr ?_ ?_)
  · rw [List.all_eq_true]
    constructor
    · intro h k hk
      have := h (order[k], k) (List.mem_zipIdx_iff_getElem?.2 (by simp [hk]))
      unfold ClassOk
      dsimp only at this
      by_cases h0 : modeNum = 0
      · rw [if_pos h0]
        rw [if_pos (by simp [h0])] at this
        intro a ha
        have := List.all_eq_true.1 this _ (List.mem_map_of_mem (f := fun a => valAt row (a - 1)) ha)
        simpa using this
      · rw [if_neg h0]
        rw [if_neg (by simp [h0])] at this
        by_cases h1 : modeNum = 1
        · rw [if_pos h1]
          rw [if_pos (by simp [h1])] at this
          exact beq_iff_eq.1 this
        · rw [if_neg h1]
          rw [if_neg (by simp [h1])] at this
          exact List.isPerm_iff.1 this
    · intro h p hp
      rw [List.mem_zipIdx_iff_getElem?] at hp
      obtain ⟨hk, hpe⟩ := List.getElem?_eq_some_iff.1 hp
      have := h p.2 hk
      unfold ClassOk at this
      rw [hpe] at this
      dsimp only
      by_cases h0 : modeNum = 0
      · rw [if_pos h0] at this
        rw [if_pos (by simp [h0])]
        rw [List.all_eq_true]
        intro v hv
        obtain ⟨a, ha, rfl⟩ := List.mem_map.1 hv
        simp [this a ha]
      · rw [if_neg h0] at this
        rw [if_neg (by simp [h0])]
        by_cases h1 : modeNum = 1
        · rw [if_pos h1] at this
          rw [if_pos (by simp [h1])]
          exact beq_iff_eq.2 this
        · rw [if_neg h1] at this
          rw [if_neg (by simp [h1])]
          exact List.isPerm_iff.2 this
  · rw [List.all_eq_true]
    constructor
    · intro h j hj
      have := h j (List.mem_range.2 hj)
      simpa using this
    · intro h j hj
      have := h j (List.mem_range.1 hj)
      simpa using this

/-- the mode number handed to the checker fits the tie-breaker -/
def modeMatches (mode : TieMode) (modeNum : Nat) : Prop :=
  match mode with
  | .accept => modeNum = 0
  | .first => modeNum = 1
  | .random _ => modeNum ≠ 0 ∧ modeNum ≠ 1

/-- completeness of the checker: the row built by the converter (NaN-initialised) is accepted -/
theorem prefRow_accepted (m : Nat) (mode : TieMode) (i : Nat) (order : List (List Nat)) (modeNum : Nat)
    (hwf : orderWFB m order = true)
    (hp : ∀ sh, mode = .random sh → ∀ ci (hc : ci < order.length), (sh i ci order[ci]).Perm order[ci])
    (hnum : modeMatches mode modeNum) :
    prefRowOkB m order modeNum (prefRow none m mode i order) = true := by
  have hP := modePerm_of_random mode i order hp
  rw [prefRowOkB_iff]
  refine ⟨prefRow_length .., ?_, ?_⟩
  · intro k hk
    unfold ClassOk
    cases mode with
    | accept =>
      simp only [modeMatches] at hnum
      rw [if_pos hnum]
      intro a ha
      obtain ⟨t, ht, rfl⟩ := List.mem_iff_getElem.1 ha
      have := prefRow_get none m .accept i order hwf hP k hk t ht
      rw [pf_valAt_eq_some_iff]
      simpa [TieMode.arr, TieMode.isAccept] using this
    | first =>
      simp only [modeMatches] at hnum
      rw [if_neg (by omega), if_pos hnum]
      exact prefRow_block none m .first i order hwf hP rfl k hk
    | random sh =>
      simp only [modeMatches] at hnum
      rw [if_neg hnum.1, if_neg hnum.2]
      have := prefRow_block none m (.random sh) i order hwf hP rfl k hk
      rw [← this]
      exact ((hP k hk).map _).symm
  · intro j hj
    by_cases hmem : j + 1 ∈ order.flatten
    · exact Or.inl hmem
    · right
      have := prefRow_unlisted none m mode i order hwf hP (j + 1) (by omega) (by omega) hmem
      exact pf_valAt_of_getElem? _ _ _ (by simpa using this)

/-- soundness of the checker, as Props -/
theorem prefRowOkB_spec (m : Nat) (order : List (List Nat)) (modeNum : Nat) (row : List (Option Nat))
    (h : prefRowOkB m order modeNum row = true) :
    row.length = m ∧
    (∀ k (hk : k < order.length),
      (modeNum = 0 → ∀ a ∈ order[k], row[a - 1]? = some (some (classBase order k))) ∧
      (modeNum = 1 → (sortAsc order[k]).map (fun a => valAt row (a - 1)) =
        (List.range' (classBase order k) order[k].length).map some) ∧
      (modeNum ≠ 0 → modeNum ≠ 1 → ((order[k]).map (fun a => valAt row (a - 1))).Perm
        ((List.range' (classBase order k) order[k].length).map some))) ∧
    (∀ a, 1 ≤ a → a ≤ m → a ∉ order.flatten → row[a - 1]? = some none) := by
  rw [prefRowOkB_iff] at h
  obtain ⟨hlen, hcls, hun⟩ := h
  refine ⟨hlen, ?_, ?_⟩
  · intro k hk
    have := hcls k hk
    unfold ClassOk at this
    refine ⟨?_, ?_, ?_⟩
    · intro h0 a ha
      rw [if_pos h0] at this
      exact (pf_valAt_eq_some_iff _ _ _).1 (this a ha)
    · intro h1
      rw [if_neg (by omega), if_pos h1] at this
      exact this
    · intro h0 h1
      rw [if_neg h0, if_neg h1] at this
      exact this
  · intro a h1 hm ha
    have := hun (a - 1) (by omega)
    rw [show a - 1 + 1 = a by omega] at this
    rcases this with h | h
    · exact absurd h ha
    · have hlt : a - 1 < row.length := by omega
      unfold valAt at h
      rw [List.getElem?_eq_getElem hlt] at h ⊢
      simpa using h

/-- mode "first", pointwise form: with no alternative listed twice in the class, a member is ranked
at the class base plus the number of smaller members -/
theorem prefRowOkB_spec_first (m : Nat) (order : List (List Nat)) (row : List (Option Nat))
    (h : prefRowOkB m order 1 row = true) (k : Nat) (hk : k < order.length) (hnd : (order[k]).Nodup)
    (a : Nat) (ha : a ∈ order[k]) :
    row[a - 1]? = some (some (classBase order k + (order[k]).countP (· < a))) := by
  have hs := ((prefRowOkB_spec m order 1 row h).2.1 k hk).2.1 rfl
  have ha' : a ∈ sortAsc order[k] := (sortAsc_perm _).mem_iff.2 ha
  obtain ⟨t, ht, rfl⟩ := List.mem_iff_getElem.1 ha'
  rw [sortAsc_countP _ hnd t ht, ← pf_valAt_eq_some_iff]
  have h1 : t < ((sortAsc order[k]).map (fun a => valAt row (a - 1))).length := by simpa using ht
  have := List.getElem_of_eq hs h1
  simpa using this
