import Sck.Proofs.LatticeJ5

/-! # C03, package L8b, part 6: where the edges of `posetGraph` come from

Every edge `x → y` of the mirror's sparse poset graph was added by `scanMan` for some man `m`, either by Rule 1 (two pairs
`(m, w)`, `(m, w')` of rotations `x`, `y`, with `w` before `w'` on `m`'s shortlist) or by Rule 2 (`(m, w)` a pair of rotation
`y`, `(m, w')` recorded as deleted by rotation `x`, and `w'` before the woman `y` gives to `m` on `m`'s shortlist). -/

namespace IrvingAlgo.J

open Irving

/-- the woman that rotation number `y` gives to `m` in exchange for `w` (as `scanMan` computes her) -/
def wnextOf (rots : List (List Pair)) (y m w : Nat) : Nat :=
  (rotAt (rots.getD y []) (((rots.getD y []).idxOf (m, w) + 1) % (rots.getD y []).length)).2

/-- the two ways an edge `x → y` can arise -/
def EdgeSrc (rots : List (List Pair)) (l1 : List (List Nat)) (elim : List (Pair × Nat)) (x y : Nat) : Prop :=
  (∃ m w w' pre post, l1.getD m [] = pre ++ w' :: post ∧ w ∈ pre ∧
      dictGet? (rotOfPair rots) (m, w) = some x ∧ dictGet? (rotOfPair rots) (m, w') = some y) ∨
  (∃ m w w', w' ∈ l1.getD m [] ∧ dictGet? (rotOfPair rots) (m, w) = some y ∧ dictGet? elim (m, w') = some x ∧
      (l1.getD m []).idxOf w' < (l1.getD m []).idxOf (wnextOf rots y m w))

/-- all edges of the graph satisfy `Q` -/
def EdgesFrom (Q : Nat → Nat → Prop) (G : List (List Nat)) : Prop := ∀ x y, y ∈ G.getD x [] → Q x y

theorem edgesFrom_replicate (Q : Nat → Nat → Prop) (k : Nat) : EdgesFrom Q (List.replicate k []) := by
  intro x y hy
  have : (List.replicate k ([] : List Nat)).getD x [] = [] := by
    rw [List.getD_eq_getElem?_getD]
    by_cases h : x < k
    · simp [h]
    · rw [List.getElem?_eq_none (by simpa using h)]; rfl
  rw [this] at hy; simp at hy

theorem edgesFrom_addEdge {Q : Nat → Nat → Prop} {G : List (List Nat)} (h : EdgesFrom Q G) (pi rho : Nat)
    (hQ : Q pi rho) : EdgesFrom Q (addEdge G pi rho) := by
  unfold addEdge
  split
  · exact h
  · intro x y hy
    by_cases hx : pi = x
    · subst hx
      by_cases hlt : pi < G.length
      · rw [getD_set_self _ _ _ _ hlt] at hy
        rcases List.mem_append.mp hy with hy | hy
        · exact h _ _ hy
        · simp only [List.mem_singleton] at hy; subst hy; exact hQ
      · rw [List.set_eq_of_length_le (by omega)] at hy; exact h _ _ hy
    · rw [getD_set_ne _ _ _ _ _ hx] at hy; exact h _ _ hy

theorem edgesFrom_scanMan (Q : Nat → Nat → Prop) (rots : List (List Pair)) (rop elim : List (Pair × Nat)) (m : Nat)
    (L : List Nat)
    (rule1 : ∀ w w' pre post x y, L = pre ++ w' :: post → w ∈ pre → dictGet? rop (m, w) = some x →
      dictGet? rop (m, w') = some y → Q x y)
    (rule2 : ∀ w w' x y, w' ∈ L → dictGet? rop (m, w) = some y → dictGet? elim (m, w') = some x →
      L.idxOf w' < L.idxOf (wnextOf rots y m w) → Q x y) :
    ∀ (rest : List Nat) (cur : Option (Nat × Nat)) (G : List (List Nat)) (pre : List Nat), L = pre ++ rest →
      (∀ c, cur = some c → c.1 ∈ pre ∧ dictGet? rop (m, c.1) = some c.2) → EdgesFrom Q G →
      EdgesFrom Q (scanMan rots rop elim m L cur rest G) := by
  intro rest
  induction rest with
  | nil => intro cur G pre _ _ hG; cases cur <;> simpa [scanMan] using hG
  | cons w' rest ih =>
    intro cur G pre hL hcur hG
    have hL' : L = (pre ++ [w']) ++ rest := by rw [hL]; simp
    have hw'L : w' ∈ L := by rw [hL]; simp
    cases cur with
    | none =>
      simp only [scanMan]
      split
      · exact ih _ _ _ hL' (fun c hc => by cases hc) hG
      · rename_i rho hrho
        exact ih _ _ _ hL' (fun c hc => by cases hc; exact ⟨by simp, hrho⟩) hG
    | some c =>
      obtain ⟨w, rho⟩ := c
      obtain ⟨hwpre, hwrho⟩ := hcur (w, rho) rfl
      have hkeep : ∀ c, some (w, rho) = some c → c.1 ∈ pre ++ [w'] ∧ dictGet? rop (m, c.1) = some c.2 := by
        intro c hc; cases hc; exact ⟨List.mem_append_left _ hwpre, hwrho⟩
      simp only [scanMan]
      split
      · rename_i rho' hrho'
        exact ih _ _ _ hL' (fun c hc => by cases hc; exact ⟨by simp, hrho'⟩)
          (edgesFrom_addEdge hG rho rho' (rule1 w w' pre rest rho rho' hL hwpre hwrho hrho'))
      · split
        · rename_i pi hpi
          split
          · rename_i hlt
            exact ih _ _ _ hL' hkeep (edgesFrom_addEdge hG pi rho (rule2 w w' pi rho hw'L hwrho hpi hlt))
          · exact ih _ _ _ hL' hkeep hG
        · exact ih _ _ _ hL' hkeep hG

/-- **every edge of the mirror's poset graph comes from Rule 1 or Rule 2** -/
theorem edgesFrom_posetGraph (rots : List (List Pair)) (l1 : List (List Nat)) (elim : List (Pair × Nat)) :
    EdgesFrom (EdgeSrc rots l1 elim) (posetGraph rots l1 elim) := by
  unfold posetGraph
  have : ∀ (ms : List Nat) (G : List (List Nat)), EdgesFrom (EdgeSrc rots l1 elim) G →
      EdgesFrom (EdgeSrc rots l1 elim)
        (ms.foldl (fun G m => scanMan rots (rotOfPair rots) elim m (l1.getD m []) none (l1.getD m []) G) G) := by
    intro ms
    induction ms with
    | nil => intro G hG; exact hG
    | cons m ms ih =>
      intro G hG
      rw [List.foldl_cons]
      refine ih _ (edgesFrom_scanMan _ rots _ elim m (l1.getD m []) ?_ ?_ _ none G [] rfl (fun c hc => by cases hc) hG)
      · intro w w' pre post x y hL hw hx hy
        exact Or.inl ⟨m, w, w', pre, post, hL, hw, hx, hy⟩
      · intro w w' x y hw' hy hx hlt
        exact Or.inr ⟨m, w, w', hw', hy, hx, hlt⟩
  exact this _ _ (edgesFrom_replicate _ _)

end IrvingAlgo.J

#print axioms IrvingAlgo.J.edgesFrom_posetGraph
