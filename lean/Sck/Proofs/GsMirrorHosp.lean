import Sck.Proofs.GsMirrorLoop
import Sck.Proofs.GsMirrorArgsort

/-! L5: the hospital-oriented mirror `GsMirror.gsHospMirror` refines the generic deferred-acceptance model
(`gsHosp`): simulation relation `RelH` between the code's state (`hospital_offers`,
`resident_waiting_lists`, `hospital_accepted_offers`, `current_offerers`) and the model's state (`ptr`, `mu`),
one lemma per loop iteration, one per round, one for the `while` loop. -/

namespace GsMirror

/-! ### list helpers -/

theorem getD_set_self {α : Type} (l : List α) (i : Nat) (a d : α) (h : i < l.length) : (l.set i a).getD i d = a := by
  simp [List.getD_eq_getElem?_getD, h]

theorem getD_set_ne {α : Type} (l : List α) (i j : Nat) (a d : α) (h : i ≠ j) :
    (l.set i a).getD j d = l.getD j d := by
  simp [List.getD_eq_getElem?_getD, List.getElem?_set_ne h]

theorem last1_set_self (d : List (Option Nat)) (i k : Nat) (h : i < d.length) : last1 (d.set i (some k)) i = k + 1 := by
  unfold last1; rw [getD_set_self d i _ _ h]

theorem last1_set_ne (d : List (Option Nat)) (i j : Nat) (x : Option Nat) (h : i ≠ j) :
    last1 (d.set i x) j = last1 d j := by
  unfold last1; rw [getD_set_ne d i j _ _ h]

theorem eq_singleton_of_mem_of_length_le_one {l : List Nat} {a : Nat} (hm : a ∈ l) (hl : l.length ≤ 1) : l = [a] := by
  match l, hm, hl with
  | [b], hm, _ => simp at hm; rw [hm]
  | _ :: _ :: _, _, hl => simp at hl

/-! ### the loop body, case by case -/

theorem hospBodyG_skip (pinned : Bool) (I : HR) (s : HospSt) (h : Nat)
    (hc : s.cur.getD h 0 = 0 ∨ s.cur.getD h 0 = 2) : hospBodyG pinned I s h = s := by
  unfold hospBodyG
  rcases hc with hc | hc <;> rw [if_pos (by rw [hc]; rfl)]

theorem hospBody_mark1 (I : HR) (s : HospSt) (h : Nat) (hc : s.cur.getD h 0 = 1)
    (hn : I.n ≤ last1 s.offers h) : hospBodyG false I s h = { s with cur := s.cur.set h 2 } := by
  unfold hospBodyG
  simp only [hc, hn]
  simp

theorem hospBody_mark2 (I : HR) (s : HospSt) (h r : Nat) (hc : s.cur.getD h 0 = 1)
    (hn : ¬ I.n ≤ last1 s.offers h) (hr : (argsortRow (I.H.getD h [])).getD (last1 s.offers h) 0 = r)
    (hnan : rankAt I.H h r = none) : hospBodyG false I s h = { s with cur := s.cur.set h 2 } := by
  unfold hospBodyG
  simp only [hc, hn, hr, hnan]
  simp

theorem hospBody_rej (I : HR) (s : HospSt) (h r a : Nat) (hc : s.cur.getD h 0 = 1)
    (hn : ¬ I.n ≤ last1 s.offers h) (hr : (argsortRow (I.H.getD h [])).getD (last1 s.offers h) 0 = r)
    (ha : rankAt I.H h r = some a) (hx : rankAt I.R r h = none) :
    hospBodyG false I s h = { s with offers := s.offers.set h (some (last1 s.offers h)) } := by
  unfold hospBodyG
  simp only [hc, hn, hr, ha, hx]
  simp

theorem hospBody_free (I : HR) (s : HospSt) (h r a x : Nat) (hc : s.cur.getD h 0 = 1)
    (hn : ¬ I.n ≤ last1 s.offers h) (hr : (argsortRow (I.H.getD h [])).getD (last1 s.offers h) 0 = r)
    (ha : rankAt I.H h r = some a) (hx : rankAt I.R r h = some x) (hw : s.wl.getD r none = none) :
    hospBodyG false I s h = { s with offers := s.offers.set h (some (last1 s.offers h)),
                                     acc := s.acc.set h (s.acc.getD h 0 + 1),
                                     wl := s.wl.set r (some h) } := by
  unfold hospBodyG
  rw [List.getD_eq_getElem?_getD] at hw
  simp only [hc, hn, hr, ha, hx]
  simp [hw]

theorem hospBody_better (I : HR) (s : HospSt) (h r a x ch y : Nat) (hc : s.cur.getD h 0 = 1)
    (hn : ¬ I.n ≤ last1 s.offers h) (hr : (argsortRow (I.H.getD h [])).getD (last1 s.offers h) 0 = r)
    (ha : rankAt I.H h r = some a) (hx : rankAt I.R r h = some x) (hw : s.wl.getD r none = some ch)
    (hy : rankAt I.R r ch = some y) (hlt : x < y) :
    hospBodyG false I s h = { s with offers := s.offers.set h (some (last1 s.offers h)),
                                     acc := (s.acc.set h (s.acc.getD h 0 + 1)).set ch
                                        ((s.acc.set h (s.acc.getD h 0 + 1)).getD ch 0 - 1),
                                     wl := s.wl.set r (some h) } := by
  unfold hospBodyG
  rw [List.getD_eq_getElem?_getD] at hw
  simp only [hc, hn, hr, ha, hx]
  simp [hw, hy, rankLt, hlt]

theorem hospBody_worse (I : HR) (s : HospSt) (h r a x ch y : Nat) (hc : s.cur.getD h 0 = 1)
    (hn : ¬ I.n ≤ last1 s.offers h) (hr : (argsortRow (I.H.getD h [])).getD (last1 s.offers h) 0 = r)
    (ha : rankAt I.H h r = some a) (hx : rankAt I.R r h = some x) (hw : s.wl.getD r none = some ch)
    (hy : rankAt I.R r ch = some y) (hlt : ¬ x < y) :
    hospBodyG false I s h = { s with offers := s.offers.set h (some (last1 s.offers h)) } := by
  unfold hospBodyG
  rw [List.getD_eq_getElem?_getD] at hw
  simp only [hc, hn, hr, ha, hx]
  simp [hw, hy, rankLt, hlt]

/-! ### the simulation relation -/

structure RelH (I : HR) (s : HospSt) (st : St) : Prop where
  lenO : s.offers.length = I.m
  lenW : s.wl.length = I.n
  lenA : s.acc.length = I.m
  lenC : s.cur.length = I.m
  /-- `hospital_offers[h] + 1` is the model's pointer -/
  ptr : ∀ h, h < I.m → st.ptr h = last1 s.offers h
  /-- `resident_waiting_lists` is the model's matching -/
  mu : ∀ h r, (h, r) ∈ st.mu ↔ s.wl.getD r none = some h
  /-- `hospital_accepted_offers` counts the matched residents -/
  acc : ∀ h, h < I.m → s.acc.getD h 0 = ((matchesOf st.mu h).length : Int)
  /-- status 2 is only given to hospitals whose list is exhausted -/
  two : ∀ h, h < I.m → s.cur.getD h 0 = 2 → ((daHosp I).plist h).length ≤ st.ptr h

theorem hospRow_facts (I : HR) (hwf : I.WF2) (h : Nat) (hh : h < I.m) :
    (I.H.getD h []).length = I.n ∧ StrictRow (I.H.getD h []) ∧
    (daHosp I).plist h = plistOfRow (I.H.getD h []) := by
  have hmem : I.H.getD h [] ∈ I.H := by
    rcases getD_row_mem_or_nil I.H h with h1 | h1
    · exact h1
    · rw [List.getD_eq_getElem?_getD, List.getElem?_eq_getElem (by rw [hwf.lenH]; exact hh)] at h1 ⊢
      exact List.getElem_mem _
  refine ⟨hwf.rowH _ hmem, hwf.strictH _ hmem, ?_⟩
  simp only [daHosp, hh, if_true]

theorem hosp_pair_lt (I : HR) (hwf : I.WF2) (st : St) (hinv : DAInv (daHosp I) st) (h r : Nat)
    (hm : (h, r) ∈ st.mu) : h < I.m ∧ r < I.n := by
  obtain ⟨i, _, hi⟩ := hinv.before h r hm
  have hh : h < I.m := getElem?_plistM_lt I.H I.m h i r hi
  obtain ⟨a, ha⟩ := (mem_plistM I.H I.m hwf.lenH h r).mp (List.mem_of_getElem? hi)
  exact ⟨hh, (rankAt_some_lt I.H I.n hwf.rowH h r a ha).2⟩

/-- **one iteration of `for hospital in range(m)`** for a hospital with status 1 is one `step` of the model -/
theorem hospBody_sim (I : HR) (hwf : I.WF2) (s : HospSt) (st : St) (hrel : RelH I s st)
    (hinv : DAInv (daHosp I) st) (h : Nat) (hh : h < I.m) (hcur : s.cur.getD h 0 = 1) :
    RelH I (hospBodyG false I s h) (step (daHosp I) st h) ∧
    (∀ q, q ≠ h → (hospBodyG false I s h).cur.getD q 0 = s.cur.getD q 0) ∧
    (((daHosp I).plist h)[st.ptr h]? = none → hospBodyG false I s h = { s with cur := s.cur.set h 2 }) ∧
    ((∃ r, ((daHosp I).plist h)[st.ptr h]? = some r) → (hospBodyG false I s h).cur = s.cur) := by
  obtain ⟨hrowlen, hstrict, hpl⟩ := hospRow_facts I hwf h hh
  have hptr := hrel.ptr h hh
  have hwfD := daHosp_wf2 I hwf
  by_cases hex : (plistOfRow (I.H.getD h [])).length ≤ last1 s.offers h
  · -- the list is exhausted: the code marks the hospital, the model does nothing
    have hnone : ((daHosp I).plist h)[st.ptr h]? = none := by
      rw [hpl, hptr]; exact List.getElem?_eq_none hex
    have hbody : hospBodyG false I s h = { s with cur := s.cur.set h 2 } := by
      by_cases hn : I.n ≤ last1 s.offers h
      · exact hospBody_mark1 I s h hcur hn
      · refine hospBody_mark2 I s h _ hcur hn rfl ?_
        have := argsortRow_getD_ge (I.H.getD h []) hstrict (last1 s.offers h) hex (by omega)
        unfold rankAt
        exact Option.isNone_iff_eq_none.mp this
    rw [step_exhausted _ _ _ hnone, hbody]
    refine ⟨⟨hrel.lenO, hrel.lenW, hrel.lenA, by simp [hrel.lenC], hrel.ptr, hrel.mu, hrel.acc, ?_⟩, ?_, fun _ => rfl, ?_⟩
    · intro q hq hq2
      by_cases hqh : q = h
      · subst hqh; rw [hpl, hptr]; exact hex
      · rw [getD_set_ne _ _ _ _ _ (Ne.symm hqh)] at hq2; exact hrel.two q hq hq2
    · intro q hq; exact getD_set_ne _ _ _ _ _ (Ne.symm hq)
    · rintro ⟨r, hr⟩; rw [hnone] at hr; exact absurd hr (by simp)
  · -- an offer is made
    have hlt : last1 s.offers h < (plistOfRow (I.H.getD h [])).length := by omega
    have hplen := plistOfRow_length_le (I.H.getD h [])
    have hn : ¬ I.n ≤ last1 s.offers h := by omega
    obtain ⟨r, hr⟩ : ∃ r, (plistOfRow (I.H.getD h []))[last1 s.offers h]? = some r :=
      ⟨_, List.getElem?_eq_getElem hlt⟩
    have hsome : ((daHosp I).plist h)[st.ptr h]? = some r := by rw [hpl, hptr]; exact hr
    have hnext := argsortRow_getD_lt (I.H.getD h []) hstrict _ r hr
    obtain ⟨hrl, hrs⟩ := (mem_plistOfRow _ r).mp (List.mem_of_getElem? hr)
    obtain ⟨a, ha'⟩ := Option.isSome_iff_exists.mp hrs
    have ha : rankAt I.H h r = some a := ha'
    have hrn : r < I.n := by omega
    have hfresh := fresh (daHosp I) hwfD st hinv h r hsome
    have hptr' : ∀ q, q < I.m → setPtr st.ptr h (st.ptr h + 1) q =
        last1 (s.offers.set h (some (last1 s.offers h))) q := by
      intro q hq
      by_cases hqh : q = h
      · subst hqh; rw [setPtr_same, last1_set_self _ _ _ (by rw [hrel.lenO]; exact hq), hptr]
      · rw [setPtr_ne _ _ _ _ hqh, last1_set_ne _ _ _ _ (Ne.symm hqh)]; exact hrel.ptr q hq
    have htwo' : ∀ q, q < I.m → s.cur.getD q 0 = 2 →
        ((daHosp I).plist q).length ≤ setPtr st.ptr h (st.ptr h + 1) q := by
      intro q hq hq2
      exact Nat.le_trans (hrel.two q hq hq2) (setPtr_ge st.ptr h q)
    refine ⟨?_, ?_, fun hnone => by rw [hsome] at hnone; exact absurd hnone (by simp), ?_⟩
    rotate_left
    · intro q _
      cases hx : rankAt I.R r h with
      | none => rw [hospBody_rej I s h r a hcur hn hnext ha hx]
      | some x =>
        cases hw : s.wl.getD r none with
        | none => rw [hospBody_free I s h r a x hcur hn hnext ha hx hw]
        | some ch =>
          obtain ⟨y, hy⟩ := hinv.acc ch r ((hrel.mu ch r).mpr hw)
          by_cases hxy : x < y
          · rw [hospBody_better I s h r a x ch y hcur hn hnext ha hx hw hy hxy]
          · rw [hospBody_worse I s h r a x ch y hcur hn hnext ha hx hw hy hxy]
    · intro _
      cases hx : rankAt I.R r h with
      | none => rw [hospBody_rej I s h r a hcur hn hnext ha hx]
      | some x =>
        cases hw : s.wl.getD r none with
        | none => rw [hospBody_free I s h r a x hcur hn hnext ha hx hw]
        | some ch =>
          obtain ⟨y, hy⟩ := hinv.acc ch r ((hrel.mu ch r).mpr hw)
          by_cases hxy : x < y
          · rw [hospBody_better I s h r a x ch y hcur hn hnext ha hx hw hy hxy]
          · rw [hospBody_worse I s h r a x ch y hcur hn hnext ha hx hw hy hxy]
    cases hx : rankAt I.R r h with
    | none =>
      -- the resident finds the hospital unacceptable
      rw [hospBody_rej I s h r a hcur hn hnext ha hx, step_rejected _ _ _ _ hsome hx]
      exact ⟨by simp [hrel.lenO], hrel.lenW, hrel.lenA, hrel.lenC, hptr', hrel.mu, hrel.acc, htwo'⟩
    | some x =>
      cases hw : s.wl.getD r none with
      | none =>
        -- the resident holds no offer: accepted
        have hheld : heldBy st.mu r = [] := by
          rw [heldBy_eq_nil_iff]; intro p hp
          have := (hrel.mu p r).mp hp; rw [hw] at this; exact absurd this (by simp)
        have hroom : (heldBy ((h, r) :: st.mu) r).length ≤ (daHosp I).qr r := by
          rw [heldBy_cons_same, hheld]; exact Nat.le_refl _
        rw [hospBody_free I s h r a x hcur hn hnext ha hx hw, step_room _ _ _ _ x hsome hx hroom]
        refine ⟨by simp [hrel.lenO], by simp [hrel.lenW], by simp [hrel.lenA], hrel.lenC, hptr', ?_, ?_, htwo'⟩
        · intro h' r'
          simp only [List.mem_cons, Prod.mk.injEq]
          by_cases hrr : r' = r
          · subst hrr
            rw [getD_set_self _ _ _ _ (by rw [hrel.lenW]; exact hrn)]
            constructor
            · rintro (⟨rfl, _⟩ | hm)
              · rfl
              · have := (hrel.mu h' r').mp hm; rw [hw] at this; exact absurd this (by simp)
            · intro he; simp only [Option.some.injEq] at he; exact Or.inl ⟨he.symm, rfl⟩
          · rw [getD_set_ne _ _ _ _ _ (Ne.symm hrr)]
            constructor
            · rintro (⟨_, hc⟩ | hm)
              · exact absurd hc hrr
              · exact (hrel.mu h' r').mp hm
            · intro he; exact Or.inr ((hrel.mu h' r').mpr he)
        · intro q hq
          by_cases hqh : q = h
          · subst hqh
            rw [getD_set_self _ _ _ _ (by rw [hrel.lenA]; exact hq), matchesOf_cons_same, hrel.acc q hq]
            simp
          · rw [getD_set_ne _ _ _ _ _ (Ne.symm hqh), matchesOf_cons_ne _ _ _ _ (Ne.symm hqh)]
            exact hrel.acc q hq
      | some ch =>
        have hchm : (ch, r) ∈ st.mu := (hrel.mu ch r).mpr hw
        obtain ⟨y, hy⟩ := hinv.acc ch r hchm
        have hne : h ≠ ch := by intro he; subst he; exact hfresh hchm
        have hchlt : ch < I.m := (hosp_pair_lt I hwf st hinv ch r hchm).1
        have hheld : heldBy st.mu r = [ch] :=
          eq_singleton_of_mem_of_length_le_one (mem_heldBy.mpr hchm) (hinv.capR r)
        have hfull : ¬ (heldBy ((h, r) :: st.mu) r).length ≤ (daHosp I).qr r := by
          rw [heldBy_cons_same, hheld]; simp [daHosp]
        have hrkh : rk (daHosp I) r h = x := by unfold rk; rw [show (daHosp I).rrank r h = rankAt I.R r h from rfl, hx]; rfl
        have hrkc : rk (daHosp I) r ch = y := by unfold rk; rw [hy]; rfl
        by_cases hxy : x < y
        · -- the new offer is better: the old hospital is dropped
          have hworst : worst (daHosp I) r (heldBy ((h, r) :: st.mu) r) = some ch := by
            rw [heldBy_cons_same, hheld]
            simp only [worst, hrkh, hrkc]
            rw [if_neg (by omega)]
          rw [hospBody_better I s h r a x ch y hcur hn hnext ha hx hw hy hxy,
            step_full _ _ _ _ x ch hsome hx hfull hworst]
          have herase : ((h, r) :: st.mu).erase (ch, r) = (h, r) :: st.mu.erase (ch, r) := by
            rw [List.erase_cons_tail]; simp [hne]
          rw [herase]
          refine ⟨by simp [hrel.lenO], by simp [hrel.lenW], by simp [hrel.lenA], hrel.lenC, hptr', ?_, ?_, htwo'⟩
          · intro h' r'
            simp only [List.mem_cons, Prod.mk.injEq, hinv.nodup.mem_erase_iff]
            by_cases hrr : r' = r
            · subst hrr
              rw [getD_set_self _ _ _ _ (by rw [hrel.lenW]; exact hrn)]
              constructor
              · rintro (⟨rfl, _⟩ | ⟨hne', hm⟩)
                · rfl
                · have := (hrel.mu h' r').mp hm; rw [hw] at this
                  simp only [Option.some.injEq] at this
                  exact absurd (by rw [this]) hne'
              · intro he; simp only [Option.some.injEq] at he; exact Or.inl ⟨he.symm, rfl⟩
            · rw [getD_set_ne _ _ _ _ _ (Ne.symm hrr)]
              constructor
              · rintro (⟨_, hc⟩ | ⟨_, hm⟩)
                · exact absurd hc hrr
                · exact (hrel.mu h' r').mp hm
              · intro he
                exact Or.inr ⟨by intro hc; simp only [Prod.mk.injEq] at hc; exact hrr hc.2, (hrel.mu h' r').mpr he⟩
          · intro q hq
            by_cases hqc : q = ch
            · subst hqc
              rw [getD_set_self _ _ _ _ (by simp [hrel.lenA]; exact hq), getD_set_ne _ _ _ _ _ hne,
                matchesOf_cons_ne _ _ _ _ hne, hrel.acc q hq]
              have := matchesOf_erase_len st.mu q r hchm
              omega
            · rw [getD_set_ne _ _ _ _ _ (Ne.symm hqc)]
              by_cases hqh : q = h
              · subst hqh
                rw [getD_set_self _ _ _ _ (by rw [hrel.lenA]; exact hq), matchesOf_cons_same,
                  List.length_cons, matchesOf_erase_ne _ _ _ _ (Ne.symm hqc), hrel.acc q hq]
                simp
              · rw [getD_set_ne _ _ _ _ _ (Ne.symm hqh), matchesOf_cons_ne _ _ _ _ (Ne.symm hqh),
                  matchesOf_erase_ne _ _ _ _ (Ne.symm hqc)]
                exact hrel.acc q hq
        · -- the held offer is better: the new one is turned down
          have hxy' : y < x := by
            have : x ≠ y := by
              intro he; subst he
              exact hne (hwfD.2 r h ch x hx hy)
            omega
          have hworst : worst (daHosp I) r (heldBy ((h, r) :: st.mu) r) = some h := by
            rw [heldBy_cons_same, hheld]
            simp only [worst, hrkh, hrkc]
            rw [if_pos hxy']
          rw [hospBody_worse I s h r a x ch y hcur hn hnext ha hx hw hy hxy,
            step_full _ _ _ _ x h hsome hx hfull hworst]
          have herase : ((h, r) :: st.mu).erase (h, r) = st.mu := by simp
          rw [herase]
          exact ⟨by simp [hrel.lenO], hrel.lenW, hrel.lenA, hrel.lenC, hptr', hrel.mu, hrel.acc, htwo'⟩

/-! ### one pass of the `for` loop -/

/-- what the round still owes hospital `p` (not yet visited): its status code tells whether the model's
round (which looks at the state `st0` at the top of the round) lets it propose -/
def PendH (I : HR) (st0 : St) (s : HospSt) (st : St) (p : Nat) : Prop :=
  (s.cur.getD p 0 = 1 → (matchesOf st.mu p).length < (daHosp I).qp p ∧
      (active (daHosp I) st0 p = true ∨ ((daHosp I).plist p)[st.ptr p]? = none)) ∧
  (s.cur.getD p 0 ≠ 1 → (s.cur.getD p 0 = 0 ∨ s.cur.getD p 0 = 2) ∧ active (daHosp I) st0 p = false)

theorem hospFold_sim (I : HR) (hwf : I.WF2) (st0 : St) (ps : List Nat) (hnd : ps.Nodup)
    (hlt : ∀ p ∈ ps, p < I.m) (s : HospSt) (st : St) (hrel : RelH I s st)
    (hinv : DAInv (daHosp I) st) (hcap : CapP (daHosp I) st) (hpend : ∀ p ∈ ps, PendH I st0 s st p) :
    RelH I (ps.foldl (hospBodyG false I) s)
      (ps.foldl (fun s p => if active (daHosp I) st0 p then step (daHosp I) s p else s) st) ∧
    DAInv (daHosp I) (ps.foldl (fun s p => if active (daHosp I) st0 p then step (daHosp I) s p else s) st) ∧
    CapP (daHosp I) (ps.foldl (fun s p => if active (daHosp I) st0 p then step (daHosp I) s p else s) st) ∧
    (∀ q, q ∉ ps → (ps.foldl (hospBodyG false I) s).cur.getD q 0 = s.cur.getD q 0) ∧
    (∀ p ∈ ps, s.cur.getD p 0 = 1 → ((daHosp I).plist p)[st.ptr p]? = none →
      (ps.foldl (hospBodyG false I) s).cur.getD p 0 = 2) ∧
    (∀ p ∈ ps, s.cur.getD p 0 = 2 → (ps.foldl (hospBodyG false I) s).cur.getD p 0 = 2) := by
  have hwfD := daHosp_wf2 I hwf
  induction ps generalizing s st with
  | nil => exact ⟨hrel, hinv, hcap, fun _ _ => rfl, fun p hp => absurd hp (by simp), fun p hp => absurd hp (by simp)⟩
  | cons p ps ih =>
    rw [List.nodup_cons] at hnd
    have hp := hlt p (by simp)
    simp only [List.foldl_cons]
    by_cases hc : s.cur.getD p 0 = 1
    · -- status 1: the code's iteration is the model's step
      obtain ⟨hact, hstep⟩ := (hpend p (by simp)).1 hc
      obtain ⟨hrel1, hcur1, hmark, hkeep⟩ := hospBody_sim I hwf s st hrel hinv p hp hc
      have hst : (if active (daHosp I) st0 p then step (daHosp I) st p else st) = step (daHosp I) st p := by
        rcases hstep with h1 | h1
        · rw [if_pos h1]
        · rw [step_exhausted _ _ _ h1]; simp
      rw [hst]
      have hinv1 := step_inv (daHosp I) hwfD st p hinv
      have hcap1 := step_capP (daHosp I) st p hcap hact
      have hpend1 : ∀ q ∈ ps, PendH I st0 (hospBodyG false I s p) (step (daHosp I) st p) q := by
        intro q hq
        have hqp : q ≠ p := fun h => hnd.1 (h ▸ hq)
        have hpq := hpend q (by simp [hq])
        unfold PendH
        rw [hcur1 q hqp, step_ptr_other _ _ _ _ hqp]
        refine ⟨fun h1 => ?_, hpq.2⟩
        obtain ⟨h2, h3⟩ := hpq.1 h1
        exact ⟨Nat.lt_of_le_of_lt (matches_len_other (daHosp I) hwfD st hinv p q hqp) h2, h3⟩
      obtain ⟨r1, r2, r3, r4, r5, r6⟩ := ih hnd.2 (fun q hq => hlt q (by simp [hq])) _ _ hrel1 hinv1 hcap1 hpend1
      refine ⟨r1, r2, r3, ?_, ?_, ?_⟩
      · intro q hq
        simp only [List.mem_cons, not_or] at hq
        rw [r4 q hq.2, hcur1 q hq.1]
      · intro q hq h1 h2
        rcases List.mem_cons.mp hq with rfl | hq'
        · rw [r4 q hnd.1, hmark h2]
          exact getD_set_self _ _ _ _ (by rw [hrel.lenC]; exact hp)
        · have hqp : q ≠ p := fun h => hnd.1 (h ▸ hq')
          exact r5 q hq' (by rw [hcur1 q hqp]; exact h1) (by rw [step_ptr_other _ _ _ _ hqp]; exact h2)
      · intro q hq h1
        rcases List.mem_cons.mp hq with rfl | hq'
        · rw [hc] at h1; exact absurd h1 (by decide)
        · have hqp : q ≠ p := fun h => hnd.1 (h ▸ hq')
          exact r6 q hq' (by rw [hcur1 q hqp]; exact h1)
    · -- status 0 or 2: `continue`, and the model's round skips the hospital
      obtain ⟨h02, hina⟩ := (hpend p (by simp)).2 hc
      rw [hospBodyG_skip false I s p h02, hina]
      simp only [Bool.false_eq_true, if_false]
      obtain ⟨r1, r2, r3, r4, r5, r6⟩ := ih hnd.2 (fun q hq => hlt q (by simp [hq])) s st hrel hinv hcap
        (fun q hq => hpend q (by simp [hq]))
      refine ⟨r1, r2, r3, ?_, ?_, ?_⟩
      · intro q hq
        simp only [List.mem_cons, not_or] at hq
        exact r4 q hq.2
      · intro q hq h1 h2
        rcases List.mem_cons.mp hq with rfl | hq'
        · exact absurd h1 hc
        · exact r5 q hq' h1 h2
      · intro q hq h1
        rcases List.mem_cons.mp hq with rfl | hq'
        · rw [r4 q hnd.1]; exact h1
        · exact r6 q hq' h1

/-! ### the head of the `while` loop -/

theorem hospStatus_length (I : HR) (s : HospSt) : (hospStatus I s).length = I.m := by simp [hospStatus]

theorem hospStatus_getD (I : HR) (s : HospSt) (h : Nat) (hh : h < I.m) :
    (hospStatus I s).getD h 0 =
      if s.cur.getD h 0 == 2 then 2 else if (I.cap.getD h 0 : Int) == s.acc.getD h 0 then 0 else 1 := by
  unfold hospStatus
  rw [List.getD_eq_getElem?_getD, List.getElem?_map, List.getElem?_range hh]
  rfl

theorem hospHead_rel (I : HR) (s : HospSt) (st : St) (hrel : RelH I s st) :
    RelH I { s with cur := hospStatus I s } st := by
  refine ⟨hrel.lenO, hrel.lenW, hrel.lenA, hospStatus_length I s, hrel.ptr, hrel.mu, hrel.acc, ?_⟩
  intro h hh h2
  apply hrel.two h hh
  dsimp only at h2
  rw [hospStatus_getD I s h hh] at h2
  split at h2
  · rename_i hc; simpa using hc
  · split at h2 <;> simp at h2

theorem hospHead_pend (I : HR) (s : HospSt) (st : St) (hrel : RelH I s st) (hcap : CapP (daHosp I) st)
    (p : Nat) (hp : p < I.m) : PendH I st { s with cur := hospStatus I s } st p := by
  have hacc := hrel.acc p hp
  have hc := hcap p
  have hqp : (daHosp I).qp p = I.cap.getD p 0 := rfl
  unfold PendH
  dsimp only
  rw [hospStatus_getD I s p hp]
  constructor
  · intro h1
    split at h1
    · simp at h1
    · split at h1
      · simp at h1
      · rename_i hne
        have hlt : (matchesOf st.mu p).length < (daHosp I).qp p := by
          rw [hacc] at hne
          simp only [beq_iff_eq] at hne
          have : I.cap.getD p 0 ≠ (matchesOf st.mu p).length := by
            intro he; apply hne; rw [he]
          omega
        refine ⟨hlt, ?_⟩
        by_cases hpt : st.ptr p < ((daHosp I).plist p).length
        · left; simp [active, hlt, hpt]
        · right; exact List.getElem?_eq_none (by omega)
  · intro h1
    split
    · rename_i h2
      refine ⟨Or.inr rfl, ?_⟩
      have := hrel.two p hp (by simpa using h2)
      simp only [active, Bool.and_eq_false_iff, decide_eq_false_iff_not]
      right; omega
    · split
      · rename_i heq
        refine ⟨Or.inl rfl, ?_⟩
        rw [hacc] at heq
        simp only [beq_iff_eq] at heq
        have : I.cap.getD p 0 = (matchesOf st.mu p).length := by exact_mod_cast heq
        simp only [active, Bool.and_eq_false_iff, decide_eq_false_iff_not]
        left; omega
      · rename_i h2 h3
        rw [if_neg h2, if_neg h3] at h1
        exact absurd rfl h1

theorem all_ne_one_iff (l : List Nat) : (l.all (fun x => x != 1)) = true ↔ ∀ i, i < l.length → l.getD i 0 ≠ 1 := by
  rw [List.all_eq_true]
  constructor
  · intro h i hi
    have := h (l.getD i 0) (by rw [List.getD_eq_getElem?_getD, List.getElem?_eq_getElem hi]; exact List.getElem_mem hi)
    simpa using this
  · intro h x hx
    obtain ⟨i, hi, rfl⟩ := List.getElem_of_mem hx
    have := h i hi
    rw [List.getD_eq_getElem?_getD, List.getElem?_eq_getElem hi] at this
    simpa using this

theorem hospHead_exit (I : HR) (s : HospSt) (st : St) (hrel : RelH I s st) (hcap : CapP (daHosp I) st)
    (hall : (hospStatus I s).all (fun x => x != 1) = true) :
    (List.range I.m).any (active (daHosp I) st) = false := by
  rw [List.any_eq_false]
  intro p hp
  have hp' := List.mem_range.mp hp
  have h1 := (all_ne_one_iff _).mp hall p (by rw [hospStatus_length]; exact hp')
  have := ((hospHead_pend I s st hrel hcap p hp').2 h1).2
  simp [this]

/-- **one round**: recomputing the status codes and one pass of the `for` loop is one round of the model;
a round of the model in which nobody is active leaves no status 1 behind -/
theorem hospRound_sim (I : HR) (hwf : I.WF2) (s : HospSt) (st : St) (hrel : RelH I s st)
    (hinv : DAInv (daHosp I) st) (hcap : CapP (daHosp I) st) :
    RelH I ((List.range I.m).foldl (hospBodyG false I) { s with cur := hospStatus I s }) (gsRound (daHosp I) I.m st) ∧
    DAInv (daHosp I) (gsRound (daHosp I) I.m st) ∧ CapP (daHosp I) (gsRound (daHosp I) I.m st) ∧
    ((List.range I.m).any (active (daHosp I) st) = false →
      (hospStatus I ((List.range I.m).foldl (hospBodyG false I) { s with cur := hospStatus I s })).all
        (fun x => x != 1) = true) := by
  have hrel1 := hospHead_rel I s st hrel
  obtain ⟨r1, r2, r3, _, r5, r6⟩ := hospFold_sim I hwf st (List.range I.m) List.nodup_range
    (fun p hp => List.mem_range.mp hp) _ st hrel1 hinv hcap
    (fun p hp => hospHead_pend I s st hrel hcap p (List.mem_range.mp hp))
  refine ⟨r1, r2, r3, ?_⟩
  intro hidle
  have hsame : (List.range I.m).foldl (fun s p => if active (daHosp I) st p then step (daHosp I) s p else s) st = st :=
    gsRound_idle (daHosp I) I.m st hidle
  rw [hsame] at r1
  rw [all_ne_one_iff]
  intro h hh
  rw [hospStatus_length] at hh
  generalize hs' : (List.range I.m).foldl (hospBodyG false I) { s with cur := hospStatus I s } = s' at r1 r5 r6 ⊢
  rw [hospStatus_getD I s' h hh]
  have hacc' := r1.acc h hh
  have hc := hcap h
  have hqp : (daHosp I).qp h = I.cap.getD h 0 := rfl
  by_cases hfull : (matchesOf st.mu h).length = I.cap.getD h 0
  · split
    · decide
    · rw [if_pos (by rw [hacc', hfull]; simp)]; decide
  · -- not full, hence (nobody being active) exhausted: the pass has set status 2
    have hina := List.any_eq_false.mp hidle h (List.mem_range.mpr hh)
    have hex : ((daHosp I).plist h)[st.ptr h]? = none := by
      apply List.getElem?_eq_none
      simp only [active, Bool.and_eq_true, decide_eq_true_eq, not_and] at hina
      have := hina (by omega)
      omega
    have h2 : s'.cur.getD h 0 = 2 := by
      by_cases hc2 : (hospStatus I s).getD h 0 = 2
      · exact r6 h (List.mem_range.mpr hh) hc2
      · apply r5 h (List.mem_range.mpr hh) _ hex
        dsimp only
        rw [hospStatus_getD I s h hh] at hc2 ⊢
        split
        · rename_i h3; rw [if_pos h3] at hc2; exact absurd rfl hc2
        · rw [if_neg]
          rw [hrel.acc h hh]
          simp only [beq_iff_eq]
          intro he
          apply hfull
          have : I.cap.getD h 0 = (matchesOf st.mu h).length := by exact_mod_cast he
          omega
    rw [if_pos (by rw [h2]; rfl)]
    decide

/-! ### the `while` loop -/

theorem hospLoop_sim (I : HR) (hwf : I.WF2) :
    ∀ fuel (s : HospSt) (st : St), RelH I s st → DAInv (daHosp I) st → CapP (daHosp I) st →
      potential (daHosp I) I.m st + 2 ≤ fuel →
      ∃ s' k, hospLoopG false I fuel s = .ok s' ∧ RelH I s' (iterRound (daHosp I) I.m k st) ∧
        (List.range I.m).any (active (daHosp I) (iterRound (daHosp I) I.m k st)) = false := by
  have hwfD := daHosp_wf2 I hwf
  intro fuel
  induction fuel with
  | zero => intro s st _ _ _ h; omega
  | succ f ih =>
    intro s st hrel hinv hcap hfuel
    simp only [hospLoopG]
    by_cases hall : (hospStatus I s).all (fun x => x != 1) = true
    · rw [if_pos hall]
      exact ⟨_, 0, rfl, hospHead_rel I s st hrel, hospHead_exit I s st hrel hcap hall⟩
    · rw [if_neg hall]
      obtain ⟨r1, r2, r3, r4⟩ := hospRound_sim I hwf s st hrel hinv hcap
      by_cases hany : (List.range I.m).any (active (daHosp I) st) = true
      · have hpot := round_potential_lt (daHosp I) hwfD I.m st hinv hany
        obtain ⟨s', k, h1, h2, h3⟩ := ih _ _ r1 r2 r3 (by omega)
        exact ⟨s', k + 1, h1, h2, h3⟩
      · simp only [Bool.not_eq_true] at hany
        have hexit := r4 hany
        cases f with
        | zero => omega
        | succ f' =>
          simp only [hospLoopG]
          rw [if_pos hexit]
          refine ⟨_, 1, rfl, hospHead_rel I _ _ r1, ?_⟩
          simp only [iterRound]
          rw [gsRound_idle (daHosp I) I.m st hany]; exact hany

theorem relH_init (I : HR) : RelH I (HospSt.init I) St.init := by
  refine ⟨by simp [HospSt.init], by simp [HospSt.init], by simp [HospSt.init], by simp [HospSt.init], ?_, ?_, ?_, ?_⟩
  · intro h hh
    simp [St.init, HospSt.init, last1, List.getD_eq_getElem?_getD, hh]
  · intro h r
    simp only [St.init, HospSt.init, List.not_mem_nil, false_iff, List.getD_eq_getElem?_getD,
      List.getElem?_replicate]
    split <;> simp
  · intro h hh
    simp [St.init, HospSt.init, matchesOf, List.getD_eq_getElem?_getD, hh]
  · intro h hh h2
    simp [HospSt.init, List.getD_eq_getElem?_getD, hh] at h2

theorem shapeOk_of_wf2 (I : HR) (hwf : I.WF2) : shapeOk I = true := by
  unfold shapeOk
  simp only [Bool.and_eq_true, beq_iff_eq, List.all_eq_true]
  exact ⟨⟨⟨⟨hwf.lenR, hwf.lenH⟩, hwf.lenC⟩, hwf.rowR⟩, hwf.rowH⟩

theorem mem_hospOutput (I : HR) (s : HospSt) (hlen : s.wl.length = I.n) (r h : Nat) :
    (r, h) ∈ hospOutput I s ↔ s.wl.getD r none = some h := by
  unfold hospOutput
  simp only [List.mem_filterMap, List.mem_range, Option.map_eq_some_iff, Prod.mk.injEq]
  constructor
  · rintro ⟨r', _, h', hw, rfl, rfl⟩; exact hw
  · intro hw
    refine ⟨r, ?_, h, hw, rfl, rfl⟩
    by_contra hge
    rw [List.getD_eq_getElem?_getD, List.getElem?_eq_none (by omega)] at hw
    simp at hw

theorem hospOutput_nodup (I : HR) (s : HospSt) : (hospOutput I s).Nodup := by
  unfold hospOutput
  apply List.Nodup.filterMap _ List.nodup_range
  intro a a' b hb hb'
  simp only [Option.mem_def, Option.map_eq_some_iff] at hb hb'
  obtain ⟨_, _, rfl⟩ := hb
  obtain ⟨_, _, he⟩ := hb'
  simp only [Prod.mk.injEq] at he
  exact he.1.symm

/-- **refinement, hospital-oriented branch.** On a well-formed instance the mirror terminates within its
fuel without error, and returns a permutation of the pairs of the generic model `gsHosp`. -/
theorem gsHospMirror_refines (I : HR) (hwf : I.WF2) :
    ∃ out mu, gsHospMirror I = .ok out ∧ gsHosp I = some mu ∧ out.Perm mu := by
  have hwfD := daHosp_wf2 I hwf
  have hpot : potential (daHosp I) I.m St.init ≤ I.m * I.n :=
    potential_init_le (daHosp I) I.m I.n (fun h => plistM_length_le I.H I.m I.n hwf.rowH h)
  have hcomm : I.m * I.n = I.n * I.m := Nat.mul_comm _ _
  obtain ⟨s', k, h1, h2, h3⟩ := hospLoop_sim I hwf (mirrorFuel I) (HospSt.init I) St.init (relH_init I)
    (init_inv _) (init_good _).cap (by unfold mirrorFuel; omega)
  obtain ⟨mu, hmu⟩ := gsHosp_terminates I hwf
  obtain ⟨st, hst, hstmu⟩ := gsHosp_eq_some I mu hmu
  have hiter := gsLoop_eq_iter (daHosp I) I.m _ St.init st hst k h3
  rw [hiter] at h2
  have hgood := gsLoop_good (daHosp I) hwfD I.m _ St.init st (init_good _) hst
  refine ⟨hospOutput I s', mu, ?_, hmu, ?_⟩
  · unfold gsHospMirror gsHospMirrorG
    rw [shapeOk_of_wf2 I hwf, h1]; rfl
  · rw [List.perm_ext_iff_of_nodup (hospOutput_nodup I s')]
    · rintro ⟨r, h⟩
      rw [mem_hospOutput I s' h2.lenW, ← h2.mu h r, hstmu]
      exact mem_swapL
    · have := swapL_nodup hgood.inv.nodup
      rw [hstmu, swapL_swapL] at this; exact this

end GsMirror
