import Sck.Model.Eat
import Sck.Proofs.Eat1
import Sck.Proofs.Glue
import Mathlib.Algebra.BigOperators.Fin

/-! C05: basic lemmas about the executable eating model (lookups, minima, sums, well-formedness). -/

open Finset

namespace Eat

/-! ### lookups -/

theorem lk_mk {α : Type} (n : Nat) (f : Nat → Option α) (i : Nat) (hi : i < n) :
    lk ((List.range n).map f) i = f i := by
  simp [lk, hi]

theorem lk_mk_ge {α : Type} (n : Nat) (f : Nat → Option α) (i : Nat) (hi : n ≤ i) :
    lk ((List.range n).map f) i = none := by
  simp [lk, hi]

theorem lk_eq_some_lt {α : Type} (l : List (Option α)) (i : Nat) (a : α) (h : lk l i = some a) :
    i < l.length := by
  by_contra hn
  have : l[i]? = none := List.getElem?_eq_none (by omega)
  simp [lk, this] at h

theorem mget_mk (n : Nat) (f : Nat → Nat → Rat) (i j : Nat) (hi : i < n) (hj : j < n) :
    mget ((List.range n).map (fun i => (List.range n).map (fun j => f i j))) i j = f i j := by
  simp [mget, hi, hj]

theorem all_isNone_iff {α : Type} (l : List (Option α)) (n : Nat) (hl : l.length = n) :
    l.all (fun r => r.isNone) = true ↔ ∀ j < n, lk l j = none := by
  subst hl
  rw [List.all_eq_true]
  constructor
  · intro h j hj
    have hm : l[j] ∈ l := List.getElem_mem hj
    have := h _ hm
    simp only [lk, List.getElem?_eq_getElem hj]
    cases hx : l[j] with
    | none => rfl
    | some x => rw [hx] at this; simp at this
  · intro h x hx
    obtain ⟨j, hj, rfl⟩ := List.getElem_of_mem hx
    have := h j hj
    simp only [lk, List.getElem?_eq_getElem hj] at this
    cases hx : l[j] with
    | none => rfl
    | some x => rw [hx] at this; simp at this

/-! ### sums over `List.range` -/

theorem sum_range_map (n : Nat) (f : Nat → ℚ) :
    ((List.range n).map f).sum = ∑ i ∈ Finset.range n, f i := by
  induction n with
  | zero => simp
  | succ k ih =>
    rw [List.range_succ, List.map_append, List.sum_append, ih, Finset.sum_range_succ]
    simp

theorem sum_range_map_fin (n : Nat) (f : Nat → ℚ) :
    ((List.range n).map f).sum = ∑ i : Fin n, f i.val := by
  rw [sum_range_map, Finset.sum_range]

/-! ### `minList` -/

theorem omin_none_right (a : Option Rat) : omin a none = a := by
  cases a <;> rfl

theorem minList_eq_none (l : List (Option Rat)) : minList l = none ↔ ∀ x ∈ l, x = none := by
  induction l with
  | nil => simp [minList]
  | cons a l ih =>
    have hc : minList (a :: l) = omin a (minList l) := rfl
    rw [hc]
    cases a with
    | none =>
      simp only [omin, List.mem_cons, forall_eq_or_imp, true_and]
      exact ih
    | some x =>
      cases hm : minList l with
      | none => simp [omin]
      | some y => simp [omin]

theorem minList_eq_some (l : List (Option Rat)) (m : Rat) (h : minList l = some m) :
    some m ∈ l ∧ ∀ x, some x ∈ l → m ≤ x := by
  induction l generalizing m with
  | nil => simp [minList] at h
  | cons a l ih =>
    have hc : minList (a :: l) = omin a (minList l) := rfl
    rw [hc] at h
    cases a with
    | none =>
      simp only [omin] at h
      obtain ⟨h1, h2⟩ := ih m h
      refine ⟨List.mem_cons_of_mem _ h1, ?_⟩
      intro x hx
      rcases List.mem_cons.mp hx with hx | hx
      · cases hx
      · exact h2 x hx
    | some x =>
      cases hm : minList l with
      | none =>
        rw [hm] at h
        simp only [omin, Option.some.injEq] at h
        subst h
        refine ⟨List.mem_cons_self, ?_⟩
        intro y hy
        rcases List.mem_cons.mp hy with hy | hy
        · cases hy; exact le_refl _
        · have := (minList_eq_none l).mp hm _ hy
          cases this
      | some y =>
        rw [hm] at h
        simp only [omin, Option.some.injEq] at h
        obtain ⟨h1, h2⟩ := ih y hm
        by_cases hxy : x ≤ y
        · rw [if_pos hxy] at h
          subst h
          refine ⟨List.mem_cons_self, ?_⟩
          intro z hz
          rcases List.mem_cons.mp hz with hz | hz
          · cases hz; exact le_refl _
          · exact le_trans hxy (h2 z hz)
        · rw [if_neg hxy] at h
          subst h
          refine ⟨List.mem_cons_of_mem _ h1, ?_⟩
          intro z hz
          rcases List.mem_cons.mp hz with hz | hz
          · cases hz; exact le_of_lt (lt_of_not_ge hxy)
          · exact h2 z hz

end Eat
