import Sck.Proofs.LatticeJ2

/-! # C03, package L8b, part 3: what one `truncStep` / one `elimRot` does to the women's lists and to
`eliminating_rotations_of_pair`

Invariant (`L2Inv`): woman `w`'s current list consists of the men of her initial shortlist whom she likes at least as much
as her current husband, in her order of preference.  Eliminating an exposed rotation keeps it (with the new husbands), and
every pair `(m, w)` it records in `eliminating_rotations_of_pair` is a pair that the rotation deletes: `w` is a woman of
the rotation and likes `m` at least as much as the husband she leaves. -/

namespace IrvingAlgo.J

open Irving SMLattice SMLattice.J

/-! ### dicts -/

/-- a property of all entries of a dict -/
def DictAll {κ β : Type} (Q : κ → β → Prop) (d : List (κ × β)) : Prop := ∀ e ∈ d, Q e.1 e.2

theorem dictAll_dictSet {κ β : Type} [BEq κ] [LawfulBEq κ] {Q : κ → β → Prop} :
    ∀ (d : List (κ × β)) (key : κ) (v : β), DictAll Q d → Q key v → DictAll Q (dictSet d key v) := by
  intro d
  induction d with
  | nil => intro key v _ hv e he; simp only [dictSet, List.mem_singleton] at he; subst he; exact hv
  | cons x xs ih =>
    intro key v hd hv
    obtain ⟨k', v'⟩ := x
    simp only [dictSet]
    split
    · rename_i hk
      have hk' : k' = key := by simpa using hk
      intro e he
      rcases List.mem_cons.mp he with rfl | he
      · rw [hk']; exact hv
      · exact hd e (List.mem_cons_of_mem _ he)
    · intro e he
      rcases List.mem_cons.mp he with rfl | he
      · exact hd _ List.mem_cons_self
      · exact ih key v (fun e he => hd e (List.mem_cons_of_mem _ he)) hv e he

theorem dictAll_get {κ β : Type} [BEq κ] [LawfulBEq κ] {Q : κ → β → Prop} {d : List (κ × β)} (hd : DictAll Q d)
    {key : κ} {v : β} (h : dictGet? d key = some v) : Q key v := by
  unfold dictGet? at h
  rw [Option.map_eq_some_iff] at h
  obtain ⟨e, he, rfl⟩ := h
  have hk : e.1 = key := by simpa using List.find?_some he
  rw [← hk]
  exact hd e (List.mem_of_find?_eq_some he)

theorem dictAll_foldl_dictSet {κ β α : Type} [BEq κ] [LawfulBEq κ] {Q : κ → β → Prop} (f : α → κ) (v : β) :
    ∀ (l : List α) (d : List (κ × β)), DictAll Q d → (∀ x ∈ l, Q (f x) v) →
      DictAll Q (l.foldl (fun e x => dictSet e (f x) v) d) := by
  intro l
  induction l with
  | nil => intro d hd _; exact hd
  | cons x xs ih =>
    intro d hd hl
    rw [List.foldl_cons]
    exact ih _ (dictAll_dictSet d _ v hd (hl x List.mem_cons_self)) (fun y hy => hl y (List.mem_cons_of_mem _ hy))

theorem dictGet?_cons {κ β : Type} [BEq κ] (k0 : κ) (v0 : β) (d : List (κ × β)) (key' : κ) :
    dictGet? ((k0, v0) :: d) key' = if k0 == key' then some v0 else dictGet? d key' := by
  unfold dictGet?
  rw [List.find?_cons]
  cases h : (k0 == key') <;> simp

theorem dictGet?_dictSet {κ β : Type} [BEq κ] [LawfulBEq κ] :
    ∀ (d : List (κ × β)) (key key' : κ) (v : β),
      dictGet? (dictSet d key v) key' = if key == key' then some v else dictGet? d key' := by
  intro d
  induction d with
  | nil =>
    intro key key' v
    simp only [dictSet]
    rw [dictGet?_cons]
  | cons x xs ih =>
    intro key key' v
    obtain ⟨k0, v0⟩ := x
    simp only [dictSet]
    cases hk : (k0 == key)
    · simp only [Bool.false_eq_true, if_false]
      rw [dictGet?_cons, dictGet?_cons, ih]
      cases h : (k0 == key')
      · rfl
      · have h1 : k0 = key' := by simpa using h
        have h2 : ¬ k0 = key := by simpa using hk
        have : (key == key') = false := by
          simp only [beq_eq_false_iff_ne, ne_eq]
          intro h3; exact h2 (h1.trans h3.symm)
        simp [this]
    · have h1 : k0 = key := by simpa using hk
      subst h1
      simp only [if_true]
      rw [dictGet?_cons, dictGet?_cons]
      cases h : (k0 == key') <;> simp

theorem dictGet?_foldl_dictSet {κ β α : Type} [BEq κ] [LawfulBEq κ] (f : α → κ) (v : β) (key : κ) :
    ∀ (l : List α) (d : List (κ × β)),
      ((∃ x ∈ l, f x = key) → dictGet? (l.foldl (fun e x => dictSet e (f x) v) d) key = some v) ∧
      ((dictGet? d key).isSome → (dictGet? (l.foldl (fun e x => dictSet e (f x) v) d) key).isSome) ∧
      ((∀ x ∈ l, f x ≠ key) → dictGet? (l.foldl (fun e x => dictSet e (f x) v) d) key = dictGet? d key) := by
  intro l
  induction l with
  | nil =>
    intro d
    exact ⟨fun ⟨x, hx, _⟩ => by simp at hx, fun h => h, fun _ => rfl⟩
  | cons x xs ih =>
    intro d
    rw [List.foldl_cons]
    obtain ⟨i1, i2, i3⟩ := ih (dictSet d (f x) v)
    refine ⟨?_, ?_, ?_⟩
    · rintro ⟨y, hy, hfy⟩
      by_cases hex : ∃ z ∈ xs, f z = key
      · exact i1 hex
      · have hall : ∀ z ∈ xs, f z ≠ key := fun z hz he => hex ⟨z, hz, he⟩
        rw [i3 hall, dictGet?_dictSet]
        rcases List.mem_cons.mp hy with rfl | hy'
        · rw [if_pos (by simpa using hfy)]
        · exact absurd hfy (hall y hy')
    · intro h
      apply i2
      rw [dictGet?_dictSet]
      split
      · rfl
      · exact h
    · intro hall
      rw [i3 (fun z hz => hall z (List.mem_cons_of_mem _ hz)), dictGet?_dictSet,
        if_neg (by simpa using hall x List.mem_cons_self)]

/-- every entry of `rotation_of_pair` points to a rotation that contains the pair -/
theorem rotOfPair_mem (rots : List (List Pair)) :
    DictAll (fun (p : Pair) (i : Nat) => p ∈ rots.getD i []) (rotOfPair rots) := by
  unfold rotOfPair
  have outer : ∀ (l : List (List Pair × Nat)) (d : List (Pair × Nat)), (∀ ri ∈ l, rots.getD ri.2 [] = ri.1) →
      DictAll (fun (p : Pair) (i : Nat) => p ∈ rots.getD i []) d →
      DictAll (fun (p : Pair) (i : Nat) => p ∈ rots.getD i [])
        (l.foldl (fun d ri => ri.1.foldl (fun d p => dictSet d p ri.2) d) d) := by
    intro l
    induction l with
    | nil => intro d _ hd; exact hd
    | cons ri l ih =>
      intro d hl hd
      rw [List.foldl_cons]
      refine ih _ (fun r hr => hl r (List.mem_cons_of_mem _ hr)) ?_
      refine dictAll_foldl_dictSet (fun p : Pair => p) ri.2 ri.1 d hd ?_
      intro p hp
      show p ∈ rots.getD ri.2 []
      rw [hl ri List.mem_cons_self]; exact hp
  refine outer _ [] ?_ (fun e he => by simp at he)
  intro ri hri
  obtain ⟨r, i⟩ := ri
  have := List.mem_zipIdx hri
  simp only [Nat.zero_add, Nat.sub_zero] at this
  obtain ⟨_, hlt, he⟩ := this
  rw [List.getD_eq_getElem?_getD, List.getElem?_eq_getElem hlt]
  exact he.symm

/-! ### truncating a sorted list from the right -/

theorem trunc_split {l : List Nat} {x : Nat} (hx : x ∈ l) :
    ∃ A B, l = A ++ x :: B ∧ l.reverse.takeWhile (fun m => m != x) = B.reverse ∧
      l.reverse.dropWhile (fun m => m != x) = x :: A.reverse := by
  obtain ⟨as, bs, h, hnot⟩ := List.eq_append_cons_of_mem (List.mem_reverse.mpr hx)
  have hp : ∀ a ∈ as, (fun m => m != x) a = true := by
    intro a ha
    simp only [bne_iff_ne, ne_eq]
    intro he; exact hnot (he ▸ ha)
  refine ⟨bs.reverse, as.reverse, ?_, ?_, ?_⟩
  · have := congrArg List.reverse h
    rw [List.reverse_reverse] at this
    rw [this]; simp
  · rw [h, List.takeWhile_append_of_pos hp, List.takeWhile_cons]
    simp
  · rw [h, List.dropWhile_append_of_pos hp, List.dropWhile_cons]
    simp

theorem getD_set_self {α : Type} (l : List α) (w : Nat) (v d : α) (hw : w < l.length) : (l.set w v).getD w d = v := by
  rw [List.getD_eq_getElem?_getD, List.getElem?_set_self hw]; rfl

theorem getD_set_ne {α : Type} (l : List α) (w w' : Nat) (v d : α) (hw : w ≠ w') : (l.set w v).getD w' d = l.getD w' d := by
  rw [List.getD_eq_getElem?_getD, List.getElem?_set_ne hw, ← List.getD_eq_getElem?_getD]

/-! ### the invariant of the women's lists -/

/-- woman `w`'s list is sorted by her ranks and consists of the men of her initial list `l20[w]` whom she likes at least
as much as `q w` -/
def L2Inv (P2 l20 : List (List Nat)) (q : Nat → Nat) (l2 : List (List Nat)) : Prop :=
  ∀ w, (l2.getD w []).Pairwise (fun a b => rankOf P2 w a < rankOf P2 w b) ∧
    ∀ m, m ∈ l2.getD w [] ↔ m ∈ l20.getD w [] ∧ rankOf P2 w m ≤ rankOf P2 w (q w)

theorem L2Inv.congr {P2 l20 : List (List Nat)} {q q' : Nat → Nat} {l2 : List (List Nat)} (h : L2Inv P2 l20 q l2)
    (hq : ∀ w, q w = q' w) : L2Inv P2 l20 q' l2 := by
  intro w; rw [← hq w]; exact h w

/-- every pair that has left the women's lists has an entry in `eliminating_rotations_of_pair` -/
def EIInv (l20 : List (List Nat)) (st : LvSt) : Prop :=
  ∀ m w, m ∈ l20.getD w [] → m ∉ st.l2.getD w [] → (dictGet? st.elim (m, w)).isSome

/-- `preference_matrix_2[(w, m)]` is true exactly for the men on `w`'s current list -/
def PM2Inv (st : LvSt) : Prop := ∀ w m, ((st.pm2.getD w []).getD m false = true ↔ m ∈ st.l2.getD w [])

theorem getD_getD_set_set (pm : List (List Bool)) (w m w' m' : Nat) :
    ((pm.set w ((pm.getD w []).set m false)).getD w' []).getD m' false =
      if w = w' ∧ m = m' then false else (pm.getD w' []).getD m' false := by
  by_cases hw : w = w'
  · subst hw
    by_cases hlt : w < pm.length
    · rw [getD_set_self _ _ _ _ hlt]
      by_cases hm : m = m'
      · subst hm
        simp only [and_self, if_true]
        by_cases hml : m < (pm.getD w []).length
        · rw [getD_set_self _ _ _ _ hml]
        · rw [List.set_eq_of_length_le (by omega), List.getD_eq_getElem?_getD, List.getElem?_eq_none (by omega)]; rfl
      · rw [getD_set_ne _ _ _ _ _ hm]
        simp [hm]
    · rw [List.set_eq_of_length_le (by omega)]
      have : pm.getD w [] = [] := by
        rw [List.getD_eq_getElem?_getD, List.getElem?_eq_none (by omega)]; rfl
      rw [this]
      simp
  · rw [getD_set_ne _ _ _ _ _ hw]
    simp [hw]

theorem pm2_foldl (w : Nat) : ∀ (dropped : List Nat) (pm : List (List Bool)) (w' m' : Nat),
    ((dropped.foldl (fun pm m => pm.set w ((pm.getD w []).set m false)) pm).getD w' []).getD m' false =
      if w = w' ∧ m' ∈ dropped then false else (pm.getD w' []).getD m' false := by
  intro dropped
  induction dropped with
  | nil => intro pm w' m'; simp
  | cons a l ih =>
    intro pm w' m'
    rw [List.foldl_cons, ih, getD_getD_set_set]
    by_cases h1 : w = w'
    · by_cases h2 : m' ∈ l
      · simp [h1, h2]
      · by_cases h3 : a = m'
        · simp [h1, h3]
        · have : ¬ m' = a := fun h => h3 h.symm
          simp [h1, h2, h3, this]
    · simp [h1]

/-- husbands: `qn` for the women of `S`, `qo` for the others -/
def mixQ (qo qn : Nat → Nat) (S : List Nat) (w : Nat) : Nat := if w ∈ S then qn w else qo w

/-- the women's lists and `eliminating_rotations_of_pair` after `truncStep` -/
theorem truncStep_inv {P2 l20 : List (List Nat)} {Good : Nat → Nat → Nat → Prop} (rho : List Pair) (idx : Nat)
    (st : LvSt) (i : Nat) (qo qn : Nat → Nat) (S : List Nat)
    (hinv : L2Inv P2 l20 (mixQ qo qn S) st.l2) (hel : DictAll (fun (p : Pair) pi => Good p.1 p.2 pi) st.elim)
    (hei : EIInv l20 st)
    (hS : (rotAt rho i).2 ∉ S)
    (hprev : (rotAt rho ((i + rho.length - 1) % rho.length)).1 ∈ l20.getD (rotAt rho i).2 [])
    (hle : rankOf P2 (rotAt rho i).2 (rotAt rho ((i + rho.length - 1) % rho.length)).1
      ≤ rankOf P2 (rotAt rho i).2 (qo (rotAt rho i).2))
    (hqn : qn (rotAt rho i).2 = (rotAt rho ((i + rho.length - 1) % rho.length)).1)
    (hgood : ∀ m, m ∈ l20.getD (rotAt rho i).2 [] →
      rankOf P2 (rotAt rho i).2 m ≤ rankOf P2 (rotAt rho i).2 (qo (rotAt rho i).2) →
      rankOf P2 (rotAt rho i).2 (rotAt rho ((i + rho.length - 1) % rho.length)).1 < rankOf P2 (rotAt rho i).2 m →
      Good m (rotAt rho i).2 idx) :
    L2Inv P2 l20 (mixQ qo qn ((rotAt rho i).2 :: S)) (truncStep rho idx st i).l2 ∧
      DictAll (fun (p : Pair) pi => Good p.1 p.2 pi) (truncStep rho idx st i).elim ∧
      EIInv l20 (truncStep rho idx st i) ∧ (PM2Inv st → PM2Inv (truncStep rho idx st i)) := by
  generalize hw : (rotAt rho i).2 = w at *
  generalize hx : (rotAt rho ((i + rho.length - 1) % rho.length)).1 = x at *
  have hqw : mixQ qo qn S w = qo w := by unfold mixQ; rw [if_neg hS]
  obtain ⟨hpw, hmem⟩ := hinv w
  rw [hqw] at hmem
  have hxl : x ∈ st.l2.getD w [] := (hmem x).mpr ⟨hprev, hle⟩
  have hwlen : w < st.l2.length := by
    by_contra hge
    rw [List.getD_eq_getElem?_getD, List.getElem?_eq_none (by omega)] at hxl
    simp at hxl
  obtain ⟨A, B, hAB, htake, hdrop⟩ := trunc_split hxl
  rw [hAB, List.pairwise_append] at hpw
  obtain ⟨_, hpw2, hpw3⟩ := hpw
  have hBx : ∀ b ∈ B, rankOf P2 w x < rankOf P2 w b := (List.pairwise_cons.mp hpw2).1
  have hAx : ∀ a ∈ A, rankOf P2 w a < rankOf P2 w x := fun a ha => hpw3 a ha x List.mem_cons_self
  have hl2 : (truncStep rho idx st i).l2 = st.l2.set w (A ++ [x]) := by
    simp only [truncStep, hw, hx, hdrop]
    simp
  have hel' : (truncStep rho idx st i).elim = B.reverse.foldl (fun e m => dictSet e (m, w) idx) st.elim := by
    simp only [truncStep, hw, hx, htake]
  have hpm' : (truncStep rho idx st i).pm2 =
      B.reverse.foldl (fun pm m => pm.set w ((pm.getD w []).set m false)) st.pm2 := by
    simp only [truncStep, hw, hx, htake]
  refine ⟨?_, ?_, ?_, ?_⟩
  · rw [hl2]
    intro w'
    by_cases hww : w = w'
    · subst hww
      rw [getD_set_self _ _ _ _ hwlen]
      refine ⟨?_, ?_⟩
      · have hsub : (A ++ [x]).Sublist (st.l2.getD w []) := by
          rw [hAB]
          exact List.Sublist.append (List.Sublist.refl A) (by simp)
        exact List.Pairwise.sublist hsub (hinv w).1
      · intro m
        have hq' : mixQ qo qn (w :: S) w = x := by unfold mixQ; rw [if_pos List.mem_cons_self, hqn]
        rw [hq']
        constructor
        · intro hm
          have hml : m ∈ st.l2.getD w [] := by
            rw [hAB]
            rcases List.mem_append.mp hm with h | h
            · exact List.mem_append_left _ h
            · simp only [List.mem_singleton] at h
              subst h; exact List.mem_append_right _ List.mem_cons_self
          refine ⟨((hmem m).mp hml).1, ?_⟩
          rcases List.mem_append.mp hm with h | h
          · exact Nat.le_of_lt (hAx m h)
          · simp only [List.mem_singleton] at h
            subst h; exact Nat.le_refl _
        · rintro ⟨hm0, hmr⟩
          have hml : m ∈ st.l2.getD w [] := (hmem m).mpr ⟨hm0, Nat.le_trans hmr hle⟩
          rw [hAB] at hml
          rcases List.mem_append.mp hml with h | h
          · exact List.mem_append_left _ h
          · rcases List.mem_cons.mp h with h | h
            · subst h; simp
            · have := hBx m h; omega
    · rw [getD_set_ne _ _ _ _ _ hww]
      have : mixQ qo qn (w :: S) w' = mixQ qo qn S w' := by
        unfold mixQ
        simp only [List.mem_cons]
        have : ¬ w' = w := fun h => hww h.symm
        simp [this]
      rw [this]
      exact hinv w'
  · rw [hel']
    refine dictAll_foldl_dictSet (fun m => ((m, w) : Pair)) idx _ _ hel ?_
    intro m hm
    have hml : m ∈ st.l2.getD w [] := by
      rw [hAB]
      exact List.mem_append_right _ (List.mem_cons_of_mem _ (List.mem_reverse.mp hm))
    obtain ⟨hm0, hmr⟩ := (hmem m).mp hml
    exact hgood m hm0 hmr (hBx m (List.mem_reverse.mp hm))
  · intro m w0 hm0 hnot
    rw [hel']
    obtain ⟨g1, g2, _⟩ := dictGet?_foldl_dictSet (β := Nat) (fun m' => ((m', w) : Pair)) idx (m, w0) B.reverse st.elim
    rw [hl2] at hnot
    by_cases hww : w = w0
    · subst hww
      rw [getD_set_self _ _ _ _ hwlen] at hnot
      by_cases hold : m ∈ st.l2.getD w []
      · rw [hAB] at hold
        have hmB : m ∈ B := by
          rcases List.mem_append.mp hold with h | h
          · exact absurd (List.mem_append_left _ h) hnot
          · rcases List.mem_cons.mp h with h | h
            · subst h; exact absurd (by simp) hnot
            · exact h
        rw [g1 ⟨m, List.mem_reverse.mpr hmB, rfl⟩]; rfl
      · exact g2 (hei m w hm0 hold)
    · rw [getD_set_ne _ _ _ _ _ hww] at hnot
      exact g2 (hei m w0 hm0 hnot)
  · intro hpm w0 m0
    rw [hpm', pm2_foldl, hl2]
    by_cases hww : w = w0
    · subst hww
      rw [getD_set_self _ _ _ _ hwlen]
      by_cases hmB : m0 ∈ B
      · have : m0 ∈ B.reverse := List.mem_reverse.mpr hmB
        simp only [this, and_self, if_true, Bool.false_eq_true, false_iff]
        intro hmem
        rcases List.mem_append.mp hmem with h | h
        · have := hAx m0 h; have := hBx m0 hmB; omega
        · simp only [List.mem_singleton] at h
          subst h; have := hBx m0 hmB; omega
      · have : ¬ m0 ∈ B.reverse := fun h => hmB (List.mem_reverse.mp h)
        simp only [this, and_false, if_false]
        rw [hpm w m0, hAB]
        simp only [List.mem_append, List.mem_cons, List.not_mem_nil, or_false]
        constructor
        · rintro (h | h | h)
          · exact Or.inl h
          · exact Or.inr h
          · exact absurd h hmB
        · rintro (h | h)
          · exact Or.inl h
          · exact Or.inr (Or.inl h)
    · rw [getD_set_ne _ _ _ _ _ hww]
      simp only [hww, false_and, if_false]
      exact hpm w0 m0

/-- the same, folded over a list of indices whose women are distinct and not yet treated -/
theorem truncFold_inv {P2 l20 : List (List Nat)} {Good : Nat → Nat → Nat → Prop} (rho : List Pair) (idx : Nat)
    (qo qn : Nat → Nat) :
    ∀ (is : List Nat) (S : List Nat) (st : LvSt),
      L2Inv P2 l20 (mixQ qo qn S) st.l2 → DictAll (fun (p : Pair) pi => Good p.1 p.2 pi) st.elim → EIInv l20 st →
      (is.map (fun i => (rotAt rho i).2)).Nodup → (∀ i ∈ is, (rotAt rho i).2 ∉ S) →
      (∀ i ∈ is,
        (rotAt rho ((i + rho.length - 1) % rho.length)).1 ∈ l20.getD (rotAt rho i).2 [] ∧
        rankOf P2 (rotAt rho i).2 (rotAt rho ((i + rho.length - 1) % rho.length)).1
          ≤ rankOf P2 (rotAt rho i).2 (qo (rotAt rho i).2) ∧
        qn (rotAt rho i).2 = (rotAt rho ((i + rho.length - 1) % rho.length)).1 ∧
        ∀ m, m ∈ l20.getD (rotAt rho i).2 [] →
          rankOf P2 (rotAt rho i).2 m ≤ rankOf P2 (rotAt rho i).2 (qo (rotAt rho i).2) →
          rankOf P2 (rotAt rho i).2 (rotAt rho ((i + rho.length - 1) % rho.length)).1 < rankOf P2 (rotAt rho i).2 m →
          Good m (rotAt rho i).2 idx) →
      ∃ S', (∀ w, w ∈ S' ↔ w ∈ is.map (fun i => (rotAt rho i).2) ∨ w ∈ S) ∧
        L2Inv P2 l20 (mixQ qo qn S') (is.foldl (truncStep rho idx) st).l2 ∧
        DictAll (fun (p : Pair) pi => Good p.1 p.2 pi) (is.foldl (truncStep rho idx) st).elim ∧
        EIInv l20 (is.foldl (truncStep rho idx) st) ∧
        (PM2Inv st → PM2Inv (is.foldl (truncStep rho idx) st)) := by
  intro is
  induction is with
  | nil => intro S st hinv hel hei _ _ _; exact ⟨S, by simp, hinv, hel, hei, fun h => h⟩
  | cons i is ih =>
    intro S st hinv hel hei hnd hS hfacts
    rw [List.map_cons, List.nodup_cons] at hnd
    obtain ⟨f1, f2, f3, f4⟩ := hfacts i List.mem_cons_self
    obtain ⟨hinv', hel', hei', hpm'⟩ := truncStep_inv rho idx st i qo qn S hinv hel hei (hS i List.mem_cons_self) f1 f2 f3 f4
    obtain ⟨S', hS', r1, r2, r3, r4⟩ := ih ((rotAt rho i).2 :: S) (truncStep rho idx st i) hinv' hel' hei' hnd.2
      (fun j hj => by
        intro hmem
        rcases List.mem_cons.mp hmem with h | h
        · exact hnd.1 (h ▸ List.mem_map.mpr ⟨j, hj, rfl⟩)
        · exact hS j (List.mem_cons_of_mem _ hj) h)
      (fun j hj => hfacts j (List.mem_cons_of_mem _ hj))
    refine ⟨S', ?_, by rw [List.foldl_cons]; exact r1, by rw [List.foldl_cons]; exact r2,
      by rw [List.foldl_cons]; exact r3, fun h => by rw [List.foldl_cons]; exact r4 (hpm' h)⟩
    intro w
    rw [hS' w, List.map_cons, List.mem_cons, List.mem_cons]
    tauto

end IrvingAlgo.J

#print axioms IrvingAlgo.J.truncFold_inv
