import Sck.Proofs.GsMirrorRes
import Sck.Proofs.GsOpt

/-! L5: the C01 / C02 theorems of the generic model transferred to the mirrors through the refinement
theorems (`gsResMirror_refines`, `gsHospMirror_refines`); concrete witnesses. -/

deriving instance DecidableEq for Except

namespace GsMirror

theorem heldBy_perm {mu nu : List (Nat × Nat)} (hp : mu.Perm nu) (h : Nat) : (heldBy mu h).Perm (heldBy nu h) := by
  unfold heldBy; exact (hp.filter _).map _

theorem blockingHR_of_perm (I : HR) {mu nu : List (Nat × Nat)} (hp : mu.Perm nu) (r h : Nat)
    (hb : BlockingHR I mu r h) : BlockingHR I nu r h := by
  obtain ⟨hr, x, a, hx, ha, hnm, hres, hhosp⟩ := hb
  refine ⟨hr, x, a, hx, ha, fun hm => hnm (hp.symm.subset hm), ?_, ?_⟩
  · rcases hres with h1 | ⟨h', x', hm, hx', hlt⟩
    · exact Or.inl (fun h' hm => h1 h' (hp.symm.subset hm))
    · exact Or.inr ⟨h', x', hp.subset hm, hx', hlt⟩
  · rcases hhosp with h1 | ⟨r', b, hm, hb, hlt⟩
    · left; rw [← (heldBy_perm hp h).length_eq]; exact h1
    · exact Or.inr ⟨r', b, hp.subset hm, hb, hlt⟩

/-- stability is a property of the SET of pairs -/
theorem stableHR_of_perm (I : HR) {mu nu : List (Nat × Nat)} (hp : mu.Perm nu) (hs : StableHR I mu) :
    StableHR I nu := by
  refine ⟨⟨hp.nodup_iff.mp hs.1.nodup, ?_, ?_, ?_⟩, ?_⟩
  · intro r h h' h1 h2; exact hs.1.resOnce r h h' (hp.symm.subset h1) (hp.symm.subset h2)
  · intro h; rw [← (heldBy_perm hp h).length_eq]; exact hs.1.cap h
  · intro r h hm; exact hs.1.acc r h (hp.symm.subset hm)
  · intro r h hb; exact hs.2 r h (blockingHR_of_perm I hp.symm r h hb)

/-- the hypothesis under which the orientation `ro` of the mirror is covered: hospital rows with ranks
`1..k` are needed by the resident-oriented branch only -/
def MirrorOk (ro : Bool) (I : HR) : Prop := I.WF2 ∧ (ro = true → I.H.all compactRowB = true)

theorem gsMirror_refines (ro : Bool) (I : HR) (hok : MirrorOk ro I) :
    ∃ out mu, gsMirror ro I = .ok out ∧ (if ro then gsRes I else gsHosp I) = some mu ∧ out.Perm mu := by
  cases ro with
  | true => exact gsResMirror_refines I hok.1 (hok.2 rfl)
  | false => exact gsHospMirror_refines I hok.1

/-- against the public rule `galeShapley` with either index convention -/
theorem gsMirror_refines_public (ro : Bool) (fixer : Nat) (I : HR) (hok : MirrorOk ro I) :
    ∃ out res, gsMirror ro I = .ok out ∧ galeShapley ro fixer I = some res ∧
      (out.map (fun e => (e.1 + fixer, e.2 + fixer))).Perm res := by
  obtain ⟨out, mu, h1, h2, h3⟩ := gsMirror_refines ro I hok
  refine ⟨out, shiftL fixer mu, h1, ?_, h3.map _⟩
  rw [galeShapley_eq, h2]; rfl

theorem gsMirror_stable (ro : Bool) (I : HR) (hok : MirrorOk ro I) :
    ∃ out, gsMirror ro I = .ok out ∧ StableHR I out := by
  obtain ⟨out, mu, h1, h2, h3⟩ := gsMirror_refines ro I hok
  refine ⟨out, h1, stableHR_of_perm I h3.symm ?_⟩
  cases ro with
  | true => exact gsRes_stable I hok.1 mu h2
  | false => exact gsHosp_stable I hok.1 mu h2

theorem gsMirror_stable_spelled (ro : Bool) (I : HR) (hok : MirrorOk ro I) :
    ∃ out, gsMirror ro I = .ok out ∧
      out.Nodup ∧
      (∀ r h, (r, h) ∈ out → r < I.n ∧ h < I.m) ∧
      (∀ r h h', (r, h) ∈ out → (r, h') ∈ out → h = h') ∧
      (∀ h, (heldBy out h).length ≤ I.cap.getD h 0) ∧
      (∀ r h, (r, h) ∈ out → rankAt I.R r h ≠ none ∧ rankAt I.H h r ≠ none) ∧
      (∀ r h, ¬ BlockingHR I out r h) := by
  obtain ⟨out, h1, hs⟩ := gsMirror_stable ro I hok
  exact ⟨out, h1, hs.1.nodup, fun r h hm => hs.1.bounds hok.1 hm, hs.1.resOnce, hs.1.cap, hs.1.acc, hs.2⟩

theorem gsResMirror_optimal (I : HR) (hok : MirrorOk true I) :
    ∃ out, gsResMirror I = .ok out ∧ ∀ nu, StableHR I nu → ∀ r h', (r, h') ∈ nu →
      ∃ h, (r, h) ∈ out ∧ ∃ x x', rankAt I.R r h = some x ∧ rankAt I.R r h' = some x' ∧ x ≤ x' := by
  obtain ⟨out, mu, h1, h2, h3⟩ := gsResMirror_refines I hok.1 (hok.2 rfl)
  refine ⟨out, h1, fun nu hst r h' hm => ?_⟩
  obtain ⟨h, hh, hp⟩ := gsRes_resident_optimal I hok.1 mu h2 nu hst r h' hm
  exact ⟨h, h3.symm.subset hh, hp⟩

theorem gsHospMirror_pessimal (I : HR) (hwf : I.WF2) :
    ∃ out, gsHospMirror I = .ok out ∧ ∀ nu, StableHR I nu → ∀ r h, (r, h) ∈ out →
      ∃ h', (r, h') ∈ nu ∧ ∃ x' x, rankAt I.R r h' = some x' ∧ rankAt I.R r h = some x ∧ x' ≤ x := by
  obtain ⟨out, mu, h1, h2, h3⟩ := gsHospMirror_refines I hwf
  exact ⟨out, h1, fun nu hst r h hm => gsHosp_resident_pessimal I hwf mu h2 nu hst r h (h3.subset hm)⟩

/-- both orientations at once, in the vocabulary of C02 -/
theorem gsMirror_optimal (I : HR) (hok : MirrorOk true I) :
    (∃ out, gsMirror true I = .ok out ∧ StableHR I out ∧ ResidentOptimal I out) ∧
    (∃ out, gsMirror false I = .ok out ∧ StableHR I out ∧ ResidentPessimal I out) := by
  constructor
  · obtain ⟨out, h1, hs⟩ := gsMirror_stable true I hok
    obtain ⟨out', h1', ho⟩ := gsResMirror_optimal I hok
    have : out' = out := by
      have h := h1'.symm.trans h1
      simpa [gsMirror] using h
    subst this
    exact ⟨out', h1, hs, ho⟩
  · obtain ⟨out, h1, hs⟩ := gsMirror_stable false I ⟨hok.1, fun h => by cases h⟩
    obtain ⟨out', h1', ho⟩ := gsHospMirror_pessimal I hok.1
    have : out' = out := by
      have h := h1'.symm.trans h1
      simpa [gsMirror] using h
    subst this
    exact ⟨out', h1, hs, ho⟩

instance (ro : Bool) (I : HR) : Decidable (MirrorOk ro I) := by unfold MirrorOk; infer_instance

theorem gsMirror_pairset (ro : Bool) (I : HR) (hok : MirrorOk ro I) :
    ∃ out mu, gsMirror ro I = .ok out ∧ (if ro then gsRes I else gsHosp I) = some mu ∧
      out.length = mu.length ∧ ∀ e, e ∈ out ↔ e ∈ mu := by
  obtain ⟨out, mu, h1, h2, h3⟩ := gsMirror_refines ro I hok
  exact ⟨out, mu, h1, h2, h3.length_eq, fun e => h3.mem_iff⟩

/-- the fuel `n * m + 2` of the mirrors' `while` loop suffices, and no `IndexError` is raised -/
theorem gsMirror_no_error (ro : Bool) (I : HR) (hok : MirrorOk ro I) (e : String) : gsMirror ro I ≠ .error e := by
  obtain ⟨out, _, h1, _⟩ := gsMirror_refines ro I hok
  rw [h1]; intro h; cases h

/-! ### the F1 defect of the pinned code -/

/-- `R = [[1],[1]]`, `H = [[2,1]]`, `c = [1]` -/
def f1 : HR := { n := 2, m := 1, R := [[some 1], [some 1]], H := [[some 2, some 1]], cap := [1] }

theorem f1_wf : f1.WF2 := by decide

theorem f1_ok (ro : Bool) : MirrorOk ro f1 := ⟨f1_wf, fun _ => by decide⟩

/-- the pinned hospital-oriented code gives the only place of hospital 0 to BOTH residents; the repaired
code gives it to resident 1, whom the hospital ranks first -/
theorem f1_witness :
    gsHospMirrorPinned f1 = .ok [(0, 0), (1, 0)] ∧
    ¬ (heldBy [(0, 0), (1, 0)] 0).length ≤ f1.cap.getD 0 0 ∧
    gsHospMirror f1 = .ok [(1, 0)] ∧
    (heldBy [(1, 0)] 0).length ≤ f1.cap.getD 0 0 := by decide

/-- the first slip alone (an offer to a resident the hospital ranks NaN): `R = [[1]]`, `H = [[NaN]]` -/
def f1b : HR := { n := 1, m := 1, R := [[some 1]], H := [[none]], cap := [1] }

theorem f1b_witness :
    f1b.WF2 ∧ gsHospMirrorPinned f1b = .ok [(0, 0)] ∧ rankAt f1b.H 0 0 = none ∧ gsHospMirror f1b = .ok [] := by
  decide

/-! ### why the resident-oriented branch needs ranks `1..k` -/

/-- `R = [[1,2],[NaN,1],[1,2]]`, `H = [[3,NaN,1],[1,2,3]]`, `c = [1,1]`: a strict but not compact instance -/
def exGap : HR :=
  { n := 3, m := 2, R := [[some 1, some 2], [none, some 1], [some 1, some 2]],
    H := [[some 3, none, some 1], [some 1, some 2, some 3]], cap := [1, 1] }

theorem exGap_witness :
    exGap.WF2 ∧ exGap.H.all compactRowB = false ∧ gsResMirror exGap = .ok [(2, 0), (1, 1)] ∧
    BlockingHR exGap [(2, 0), (1, 1)] 0 1 := by
  refine ⟨by decide, by decide, by decide, ?_⟩
  refine ⟨by decide, 2, 1, by decide, by decide, by decide, Or.inl ?_, Or.inr ⟨1, 2, by decide, by decide, by decide⟩⟩
  intro h' hm
  simp at hm

/-- ... and with a rank beyond the number of residents the code raises `IndexError` -/
def exBig : HR :=
  { n := 2, m := 1, R := [[some 1], [some 1]], H := [[some 1, some 5]], cap := [1] }

theorem exBig_witness : exBig.WF2 ∧ gsResMirror exBig = .error "index" := by decide

end GsMirror
