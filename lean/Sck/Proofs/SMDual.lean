import Mathlib.Algebra.BigOperators.Group.Finset.Basic
import Mathlib.Algebra.Order.BigOperators.Group.Finset
import Mathlib.Data.Fintype.BigOperators
import Mathlib.Algebra.Order.Ring.Rat
import Mathlib.Tactic.Linarith
import Mathlib.Algebra.BigOperators.Ring.Finset

open Finset

variable {n : ℕ}

/-- `P1 a b` = rank man `a` gives woman `b` (smaller is better); `P2 b a` = rank woman `b` gives man `a`. -/
def StableSM (P1 P2 : Fin n → Fin n → ℕ) (μ : Equiv.Perm (Fin n)) : Prop :=
  ∀ a b, ¬ (P1 a b < P1 a (μ a) ∧ P2 b a < P2 b (μ.symm b))

/-- does the variable x_{a b} occur in the stability constraint of the pair (i, j)? -/
def occurs (P1 P2 : Fin n → Fin n → ℕ) (a b i j : Fin n) : Prop :=
  (a = i ∧ P1 a b ≤ P1 a j) ∨ (b = j ∧ a ≠ i ∧ P2 b a < P2 b i)

instance (P1 P2 : Fin n → Fin n → ℕ) (a b i j : Fin n) : Decidable (occurs P1 P2 a b i j) := by
  unfold occurs; infer_instance

theorem stable_covers (P1 P2 : Fin n → Fin n → ℕ) (hinj : ∀ b, Function.Injective (P2 b))
    (μ : Equiv.Perm (Fin n)) (hμ : StableSM P1 P2 μ) (i j : Fin n) :
    ∃ a, occurs P1 P2 a (μ a) i j := by
  by_cases h1 : P1 i (μ i) ≤ P1 i j
  · exact ⟨i, Or.inl ⟨rfl, h1⟩⟩
  · have h2 : ¬ (P2 j i < P2 j (μ.symm j)) := fun h => hμ i j ⟨by omega, h⟩
    refine ⟨μ.symm j, Or.inr ⟨by simp, ?_, ?_⟩⟩
    · intro h; apply h1; rw [← h]; simp
    · simp only [Equiv.apply_symm_apply]
      have hne : μ.symm j ≠ i := by intro h; apply h1; rw [← h]; simp
      have : P2 j (μ.symm j) ≠ P2 j i := fun h => hne (hinj j h)
      omega

theorem sm_weak_duality (P1 P2 : Fin n → Fin n → ℕ) (hinj : ∀ b, Function.Injective (P2 b))
    (c : Fin n → Fin n → ℚ) (α β : Fin n → ℚ) (y : Fin n → Fin n → ℚ)
    (hy : ∀ i j, 0 ≤ y i j)
    (hfeas : ∀ a b, c a b ≤ α a + β b - ∑ i, ∑ j, if occurs P1 P2 a b i j then y i j else 0)
    (μ : Equiv.Perm (Fin n)) (hμ : StableSM P1 P2 μ) :
    ∑ a, c a (μ a) ≤ ∑ a, α a + ∑ b, β b - ∑ i, ∑ j, y i j := by
  have h1 : ∑ a, c a (μ a) ≤ ∑ a, (α a + β (μ a) - ∑ i, ∑ j, if occurs P1 P2 a (μ a) i j then y i j else 0) :=
    Finset.sum_le_sum (fun a _ => hfeas a (μ a))
  have h2 : ∑ a, (α a + β (μ a) - ∑ i, ∑ j, if occurs P1 P2 a (μ a) i j then y i j else 0)
      = ∑ a, α a + ∑ b, β b - ∑ a, ∑ i, ∑ j, if occurs P1 P2 a (μ a) i j then y i j else 0 := by
    rw [Finset.sum_sub_distrib, Finset.sum_add_distrib, Equiv.sum_comp μ β]
  have h3 : ∑ i, ∑ j, y i j ≤ ∑ a, ∑ i, ∑ j, if occurs P1 P2 a (μ a) i j then y i j else 0 := by
    have hswap : (∑ a, ∑ i, ∑ j, if occurs P1 P2 a (μ a) i j then y i j else 0)
        = ∑ i, ∑ j, ∑ a, if occurs P1 P2 a (μ a) i j then y i j else 0 := by
      rw [Finset.sum_comm]
      refine Finset.sum_congr rfl (fun i _ => ?_)
      rw [Finset.sum_comm]
    rw [hswap]
    refine Finset.sum_le_sum (fun i _ => Finset.sum_le_sum (fun j _ => ?_))
    obtain ⟨a, ha⟩ := stable_covers P1 P2 hinj μ hμ i j
    calc y i j = if occurs P1 P2 a (μ a) i j then y i j else 0 := by simp [ha]
      _ ≤ ∑ a', if occurs P1 P2 a' (μ a') i j then y i j else 0 :=
        Finset.single_le_sum (f := fun a' => if occurs P1 P2 a' (μ a') i j then y i j else 0)
          (fun a' _ => by split <;> simp [hy]) (Finset.mem_univ a)
  linarith

#print axioms sm_weak_duality
