import Sck.Model.IrvingAlgo

/-! Concrete instances for the non-vacuity `example`s of `Sck/Props/C03Algo.lean`.  `List.mergeSort` (inside
`plistOfRow`, used by `gsRes`) is defined by well-founded recursion and does not reduce in the kernel, so the
proposers' lists are computed once by `simp`; everything else is evaluated by `decide +kernel`. -/

namespace IrvingAlgo

/-- 3×3 Latin-square instance: `P1[i][(i+k)%3] = k+1`, `P2[i][(i+1+k)%3] = k+1` -/
def exL1 : List (List Nat) := [[1,2,3],[3,1,2],[2,3,1]]
def exL2 : List (List Nat) := [[3,1,2],[2,3,1],[1,2,3]]

def exLatinDA : DA :=
  { plist := fun r => match r with | 0 => [0, 1, 2] | 1 => [1, 2, 0] | 2 => [2, 0, 1] | _ => []
    rrank := fun h r => rankAt (hrOf 3 exL1 exL2).H h r
    qp := fun _ => 1
    qr := fun h => (hrOf 3 exL1 exL2).cap.getD h 0 }

theorem exLatinDA_eq : daRes (hrOf 3 exL1 exL2) = exLatinDA := by
  unfold daRes exLatinDA
  congr 1
  funext r
  match r with
  | 0 => simp [hrOf, exL1, plistOfRow, List.mergeSort, leKey, keyOf, List.range, List.range.loop]
  | 1 => simp [hrOf, exL1, plistOfRow, List.mergeSort, leKey, keyOf, List.range, List.range.loop]
  | 2 => simp [hrOf, exL1, plistOfRow, List.mergeSort, leKey, keyOf, List.range, List.range.loop]
  | r + 3 => simp [hrOf]; omega

/-- the male-optimal matching of the Latin-square instance, in the order of `GaleShapley.scf`'s answer -/
theorem exLatin_maleOptimal : maleOptimal 3 exL1 exL2 = some [(0, 0), (1, 1), (2, 2)] := by
  unfold maleOptimal gsRes; rw [exLatinDA_eq]; decide +kernel

/-- 2×2 "opposite preferences" instance -/
def exO1 : List (List Nat) := [[1,2],[2,1]]
def exO2 : List (List Nat) := [[2,1],[1,2]]

def exOppDA : DA :=
  { plist := fun r => match r with | 0 => [0, 1] | 1 => [1, 0] | _ => []
    rrank := fun h r => rankAt (hrOf 2 exO1 exO2).H h r
    qp := fun _ => 1
    qr := fun h => (hrOf 2 exO1 exO2).cap.getD h 0 }

theorem exOppDA_eq : daRes (hrOf 2 exO1 exO2) = exOppDA := by
  unfold daRes exOppDA
  congr 1
  funext r
  match r with
  | 0 => simp [hrOf, exO1, plistOfRow, List.mergeSort, leKey, keyOf, List.range, List.range.loop]
  | 1 => simp [hrOf, exO1, plistOfRow, List.mergeSort, leKey, keyOf, List.range, List.range.loop]
  | r + 2 => simp [hrOf]; omega

theorem exOpp_maleOptimal : maleOptimal 2 exO1 exO2 = some [(0, 0), (1, 1)] := by
  unfold maleOptimal gsRes; rw [exOppDA_eq]; decide +kernel

end IrvingAlgo
