import Sck.Model.IrvingAlgo
import Sck.Proofs.Hall

/-! Directly provable facts about `IrvingAlgo.shortlists` (`find_initial_preference_lists`): every man's list starts
with his partner, every woman's list ends with hers, and membership is mutual. -/

namespace IrvingAlgo

theorem getD_map_range {α : Type} (n i : Nat) (f : Nat → α) (d : α) (h : i < n) :
    ((List.range n).map f).getD i d = f i := by
  rw [List.getD_eq_getElem?_getD, List.getElem?_map, List.getElem?_range h]; rfl

theorem getD_map_range_ge {α : Type} (n i : Nat) (f : Nat → α) (d : α) (h : n ≤ i) :
    ((List.range n).map f).getD i d = d := by
  rw [List.getD_eq_getElem?_getD, List.getElem?_eq_none (by simpa using h)]; rfl

theorem permRowB_iff (n : Nat) (row : List Nat) :
    permRowB n row = true ↔ row.length = n ∧ (∀ r ∈ row, 1 ≤ r ∧ r ≤ n) ∧ row.Nodup := by
  simp [permRowB, nodupB_iff, and_assoc]

/-- men's list before the filters -/
def pl1 (n : Nat) (P1 : List (List Nat)) (mu : List Nat) (i : Nat) : List Nat :=
  (rankedRow n (P1.getD i [])).drop (rk0 P1 i (mu.getD i n))

/-- women's list before the filters -/
def pl2 (n : Nat) (P2 : List (List Nat)) (mu : List Nat) (j : Nat) : List Nat :=
  (rankedRow n (P2.getD j [])).take (rk0 P2 j (mu.idxOf j) + 1)

theorem shortlists_fst (n : Nat) (P1 P2 : List (List Nat)) (mu : List Nat) (i : Nat) :
    (shortlists n P1 P2 mu).1.getD i [] =
      if i < n then (pl1 n P1 mu i).filter (fun j => decide (j < n) && (pl2 n P2 mu j).contains i) else [] := by
  unfold shortlists
  dsimp only
  split
  · rename_i h
    rw [getD_map_range _ _ _ _ h, getD_map_range _ _ _ _ h]
    apply List.filter_congr
    intro j _
    by_cases hj : j < n
    · rw [getD_map_range _ _ _ _ hj]; simp [hj, pl2]
    · rw [getD_map_range_ge _ _ _ _ (by omega)]; simp [hj]
  · rename_i h
    rw [getD_map_range_ge _ _ _ _ (by omega)]

theorem shortlists_snd (n : Nat) (P1 P2 : List (List Nat)) (mu : List Nat) (j : Nat) :
    (shortlists n P1 P2 mu).2.getD j [] =
      if j < n then (pl2 n P2 mu j).filter (fun i => ((shortlists n P1 P2 mu).1.getD i []).contains j) else [] := by
  unfold shortlists
  dsimp only
  split
  · rename_i h
    rw [getD_map_range _ _ _ _ h, getD_map_range _ _ _ _ h]; rfl
  · rename_i h
    rw [getD_map_range_ge _ _ _ _ (by omega)]

/-- **mutual membership** (no hypothesis needed): `w` is on `m`'s shortlist iff `m` is on `w`'s -/
theorem shortlists_mutual (n : Nat) (P1 P2 : List (List Nat)) (mu : List Nat) (m w : Nat) :
    w ∈ (shortlists n P1 P2 mu).1.getD m [] ↔ m ∈ (shortlists n P1 P2 mu).2.getD w [] := by
  rw [shortlists_snd]
  split
  · rename_i hw
    rw [List.mem_filter, List.contains_iff_mem, shortlists_fst]
    split
    · rename_i hm
      simp only [List.mem_filter, Bool.and_eq_true, decide_eq_true_eq, List.contains_iff_mem]
      constructor
      · rintro ⟨h1, _, h2⟩; exact ⟨h2, h1, hw, h2⟩
      · rintro ⟨_, h1, _, h2⟩; exact ⟨h1, hw, h2⟩
    · simp
  · rename_i hw
    rw [shortlists_fst]
    split
    · simp only [List.mem_filter, Bool.and_eq_true, decide_eq_true_eq, List.not_mem_nil, iff_false]
      rintro ⟨_, h, _⟩; exact hw h
    · simp

/-- entry `r - 1` of the argsort of a permutation row is the position holding rank `r` -/
theorem rankedRow_getElem? (n : Nat) (row : List Nat) (h : permRowB n row = true) (w : Nat) (hw : w < n) :
    (rankedRow n row)[row.getD w 0 - 1]? = some w ∧ row.getD w 0 - 1 < (rankedRow n row).length := by
  obtain ⟨hlen, hrng, hnd⟩ := (permRowB_iff n row).mp h
  have hw' : w < row.length := by omega
  have hget : row.getD w 0 = row[w] := by
    rw [List.getD_eq_getElem?_getD, List.getElem?_eq_getElem hw']; rfl
  have hr := hrng row[w] (List.getElem_mem hw')
  rw [hget]
  unfold rankedRow
  refine ⟨?_, by simp; omega⟩
  rw [List.getElem?_map, List.getElem?_range (by omega)]
  have e : row[w] - 1 + 1 = row[w] := by omega
  simp only [Option.map_some, e, Option.some.injEq]
  exact hnd.idxOf_getElem w hw'

/-- facts about a matching given as a permutation list -/
theorem mu_facts (n : Nat) (mu : List Nat) (hmu : mu.Perm (List.range n)) :
    (∀ i, i < n → mu.getD i n < n ∧ mu.idxOf (mu.getD i n) = i) ∧
    (∀ j, j < n → mu.idxOf j < n ∧ mu.getD (mu.idxOf j) n = j) := by
  have hlen : mu.length = n := by simpa using hmu.length_eq
  have hnd : mu.Nodup := hmu.nodup_iff.mpr List.nodup_range
  constructor
  · intro i hi
    have hi' : i < mu.length := by omega
    have hget : mu.getD i n = mu[i] := by
      rw [List.getD_eq_getElem?_getD, List.getElem?_eq_getElem hi']; rfl
    rw [hget]
    exact ⟨List.mem_range.mp (hmu.subset (List.getElem_mem hi')), hnd.idxOf_getElem i hi'⟩
  · intro j hj
    have hmem : j ∈ mu := hmu.symm.subset (List.mem_range.mpr hj)
    have hidx := List.idxOf_lt_length_of_mem hmem
    refine ⟨by omega, ?_⟩
    rw [List.getD_eq_getElem?_getD, List.getElem?_eq_getElem hidx]
    exact List.getElem_idxOf hidx

theorem pl1_eq_cons (n : Nat) (P1 : List (List Nat)) (mu : List Nat)
    (hP1 : ∀ i, i < n → permRowB n (P1.getD i []) = true) (hmu : mu.Perm (List.range n)) (i : Nat) (hi : i < n) :
    ∃ tl, pl1 n P1 mu i = mu.getD i n :: tl := by
  obtain ⟨h1, h2⟩ := rankedRow_getElem? n (P1.getD i []) (hP1 i hi) (mu.getD i n) ((mu_facts n mu hmu).1 i hi).1
  refine ⟨(rankedRow n (P1.getD i [])).drop (rk0 P1 i (mu.getD i n) + 1), ?_⟩
  unfold pl1
  have e : rk0 P1 i (mu.getD i n) = (P1.getD i []).getD (mu.getD i n) 0 - 1 := rfl
  rw [e, List.drop_eq_getElem_cons h2]
  rw [List.getElem?_eq_getElem h2] at h1
  rw [Option.some.inj h1]

theorem pl2_eq_concat (n : Nat) (P2 : List (List Nat)) (mu : List Nat)
    (hP2 : ∀ j, j < n → permRowB n (P2.getD j []) = true) (hmu : mu.Perm (List.range n)) (j : Nat) (hj : j < n) :
    ∃ ini, pl2 n P2 mu j = ini ++ [mu.idxOf j] := by
  obtain ⟨h1, h2⟩ := rankedRow_getElem? n (P2.getD j []) (hP2 j hj) (mu.idxOf j) ((mu_facts n mu hmu).2 j hj).1
  refine ⟨(rankedRow n (P2.getD j [])).take (rk0 P2 j (mu.idxOf j)), ?_⟩
  unfold pl2
  have e : rk0 P2 j (mu.idxOf j) = (P2.getD j []).getD (mu.idxOf j) 0 - 1 := rfl
  rw [e, List.take_succ_eq_append_getElem h2]
  rw [List.getElem?_eq_getElem h2] at h1
  rw [Option.some.inj h1]

/-- **every man's shortlist starts with his partner** in the matching `mu` -/
theorem shortlists_head (n : Nat) (P1 P2 : List (List Nat)) (mu : List Nat)
    (hP1 : ∀ i, i < n → permRowB n (P1.getD i []) = true)
    (hP2 : ∀ j, j < n → permRowB n (P2.getD j []) = true) (hmu : mu.Perm (List.range n)) (i : Nat) (hi : i < n) :
    ((shortlists n P1 P2 mu).1.getD i []).head? = some (mu.getD i n) := by
  obtain ⟨tl, htl⟩ := pl1_eq_cons n P1 mu hP1 hmu i hi
  obtain ⟨hw, hidx⟩ := (mu_facts n mu hmu).1 i hi
  obtain ⟨ini, hini⟩ := pl2_eq_concat n P2 mu hP2 hmu (mu.getD i n) hw
  rw [shortlists_fst, if_pos hi, htl, List.filter_cons, if_pos]
  · rfl
  · rw [hini, hidx, Bool.and_eq_true]
    exact ⟨decide_eq_true hw, by simp⟩

/-- **every woman's shortlist ends with her partner** in the matching `mu` -/
theorem shortlists_last (n : Nat) (P1 P2 : List (List Nat)) (mu : List Nat)
    (hP1 : ∀ i, i < n → permRowB n (P1.getD i []) = true)
    (hP2 : ∀ j, j < n → permRowB n (P2.getD j []) = true) (hmu : mu.Perm (List.range n)) (j : Nat) (hj : j < n) :
    ((shortlists n P1 P2 mu).2.getD j []).getLast? = some (mu.idxOf j) := by
  obtain ⟨ini, hini⟩ := pl2_eq_concat n P2 mu hP2 hmu j hj
  obtain ⟨hm, hback⟩ := (mu_facts n mu hmu).2 j hj
  have hhead := shortlists_head n P1 P2 mu hP1 hP2 hmu (mu.idxOf j) hm
  rw [hback] at hhead
  have hmem : j ∈ (shortlists n P1 P2 mu).1.getD (mu.idxOf j) [] := List.mem_of_mem_head? hhead
  rw [shortlists_snd, if_pos hj, hini, List.filter_append, List.filter_cons, if_pos
    (List.contains_iff_mem.mpr hmem)]
  simp

end IrvingAlgo

#print axioms IrvingAlgo.shortlists_mutual
#print axioms IrvingAlgo.shortlists_head
#print axioms IrvingAlgo.shortlists_last
