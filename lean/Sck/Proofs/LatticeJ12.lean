import Sck.Proofs.LatticeJ11

/-! # C03, package L8b, part 12: completeness of the sparse rotation poset — every index set that is closed in `posetGraph`
can be eliminated from the male-optimal matching in index order; hence `Remaining_j_task` -/

namespace IrvingAlgo.J

open Irving SMLattice SMLattice.J

section
variable {n : Nat} {P1 P2 : List (List Nat)} {M0 : List Pair} {μ0 : Equiv.Perm (Fin n)}
  {C : JCtx n P1 P2 M0 μ0} {all : List (List Pair)} {rotsA : List (List (Fin n))} {νz : Equiv.Perm (Fin n)}

/-- **exposure transfer**: let `T` be a path from the male-optimal matching to `κ` that consists of rotations of the run
with index `< i` and contains every rotation `j < i` that has an edge `j → i` in `posetGraph`; then rotation number `i` is
exposed in `κ`, with the same pairs -/
theorem RunCtx.exposed_transfer (R : RunCtx C all rotsA νz) (el : List (Pair × Nat))
    (hel : DictAll (fun (p : Pair) pi => ElimOK P2 all p.1 p.2 pi) el)
    (hex : ∀ m w, m ∈ (shortlists n P1 P2 (muOf n M0)).2.getD w [] → rankOf P2 w (husb νz w) < rankOf P2 w m →
      (dictGet? el (m, w)).isSome)
    (i : Nat) (hi : i < rotsA.length) (T : List (List (Fin n))) (κ : Equiv.Perm (Fin n))
    (hT : ElimPath (rk n P1) (rk n P2) μ0 T κ)
    (hsub : ∀ r ∈ pathPairs μ0 T, ∃ j, j < i ∧ r = all.getD j [])
    (hcl : ∀ j, j < i → i ∈ (posetGraph all (shortlists n P1 P2 (muOf n M0)).1 el).getD j [] →
      all.getD j [] ∈ pathPairs μ0 T) :
    ExposedRot (rk n P1) (rk n P2) κ rotsA[i] ∧ rotPairs κ rotsA[i] = all.getD i [] := by
  obtain ⟨hN, hσ, hall_i, hNz⟩ := R.stage i hi
  obtain ⟨pN, _, _, _, _, _, _, s7⟩ := path_stage C.h1 C.st0 R.path i hi
  set N := endOf μ0 (rotsA.take i) with hNdef
  set σ := rotsA[i] with hσdef
  have hκ := (elimPath_stable C.h1 _ _ _ C.st0 hT).1
  -- (E1) `κ` is above `N`
  have hle : MLe (rk n P1) κ N := by
    refine le_of_rotations_subset C.h1 C.h2 hN T μ0 κ (rotsA.take i) C.st0 hT pN ?_
    intro r hr
    obtain ⟨j, hji, rfl⟩ := hsub r hr
    refine ⟨_, ?_, List.IsRotated.refl _⟩
    have hlen : (pathPairs μ0 (rotsA.take i)).length = i := by
      rw [pathPairs_length, List.length_take]; omega
    have hjall : j < all.length := by rw [R.length]; omega
    have : all.getD j [] = (pathPairs μ0 (rotsA.take i))[j]'(by omega) := by
      rw [List.getD_eq_getElem?_getD, List.getElem?_eq_getElem hjall]
      have hpp := R.pp
      subst hpp
      simp only [s7]
      rw [List.getElem_append_left (by omega)]
      rfl
    rw [this]; exact List.getElem_mem _
  -- a rotation of the run with an edge to `i` and index `< i` lies on `T`: its men are strictly worse off in `κ`
  have honT : ∀ j (hjl : j < rotsA.length), j < i →
      i ∈ (posetGraph all (shortlists n P1 P2 (muOf n M0)).1 el).getD j [] → ∀ a ∈ rotsA[j],
      rk n P1 a (endOf μ0 (rotsA.take j) a) < rk n P1 a (κ a) := by
    intro j hjl hji hedge a ha
    obtain ⟨hNj, hσj, hall_j, _⟩ := R.stage j hjl
    have hmem := hcl j hji hedge
    rw [hall_j] at hmem
    exact ((mem_path_iff C.h1 C.h2 hNj hσj ha T μ0 κ C.st0 hT).mp ⟨_, hmem, List.IsRotated.refl _⟩).2
  -- (E2) `κ` agrees with `N` on the men of the rotation
  have hag : ∀ c ∈ σ, κ c = N c := by
    intro c hc
    apply C.h1 c
    apply Nat.le_antisymm (hle c)
    by_cases h0 : N c = μ0 c
    · rw [h0]; exact C.opt κ hκ c
    · obtain ⟨j, hjl, hji, hedge, hcj, hnext⟩ := R.rule1_complete el i hi c hc h0
      obtain ⟨hNj, hσj, _, _⟩ := R.stage j hjl
      have h1 := honT j hjl hji hedge c hcj
      by_contra hlt
      rw [← hnext] at hlt
      exact no_jump C.h1 C.h2 hNj hκ hσj hcj h1 (by omega)
  refine ⟨⟨hσ.1, hσ.2.1, ?_⟩, ?_⟩
  · intro c hc
    have hc' : σ.formPerm c ∈ σ := List.formPerm_apply_mem_of_mem hc
    obtain ⟨⟨c1, c2⟩, hmin⟩ := hσ.2.2 c hc
    have e1 : κ.symm (N (σ.formPerm c)) = σ.formPerm c := by rw [← hag _ hc']; simp
    rw [hag _ hc']
    refine ⟨⟨by rw [hag c hc]; exact c1, by rw [e1]; simpa using c2⟩, ?_⟩
    -- (E3) no candidate of `c` in `κ` before the woman the rotation gives him
    intro b ⟨d1, d2⟩
    rw [hag c hc] at d1
    by_contra hlt
    have hlt : rk n P1 c b < rk n P1 c (N (σ.formPerm c)) := by omega
    -- in `N` she is not a candidate: she prefers her husband to `c`
    have hnc : ¬ rk n P2 b c < rk n P2 b (N.symm b) := fun h => by
      have := hmin b ⟨d1, h⟩; omega
    have hneb : N.symm b ≠ c := by
      intro h
      have : N c = b := by rw [← h]; simp
      rw [this] at d1; exact Nat.lt_irrefl _ d1
    have hb3 : rk n P2 b (N.symm b) < rk n P2 b c :=
      lt_of_le_of_ne (Nat.le_of_not_lt hnc) (fun h => hneb (C.h2 b h))
    by_cases hsl : (c : Nat) ∈ (shortlists n P1 P2 (muOf n M0)).2.getD b []
    · obtain ⟨j, hjl, hji, hedge, a, haj, hab, hnew⟩ := R.rule2_complete el hel hex i hi c hc b hsl d1 hlt hb3
      obtain ⟨hNj, hσj, _, _⟩ := R.stage j hjl
      have h1 := honT j hjl hji hedge a haj
      have := woman_after_rotation C.h1 C.h2 hNj hκ hσj haj h1
      rw [hab] at this
      omega
    · rw [mem_l20_iff C c b] at hsl
      have h1 : rk n P1 c (μ0 c) ≤ rk n P1 c b := Nat.le_trans (C.opt N hN c) (Nat.le_of_lt d1)
      have h2 : rk n P2 b (μ0.symm b) < rk n P2 b c := by
        by_contra hh; exact hsl ⟨h1, Nat.le_of_not_lt hh⟩
      have := women_le C.h1 hκ (C.opt κ hκ) b
      omega
  · rw [hall_i]
    unfold rotPairs
    apply List.map_congr_left
    intro a ha
    unfold pr; rw [hag a ha]

/-- **every closed index set can be eliminated in index order** (spec-level form) -/
theorem RunCtx.closed_run (R : RunCtx C all rotsA νz) (el : List (Pair × Nat))
    (hel : DictAll (fun (p : Pair) pi => ElimOK P2 all p.1 p.2 pi) el)
    (hex : ∀ m w, m ∈ (shortlists n P1 P2 (muOf n M0)).2.getD w [] → rankOf P2 w (husb νz w) < rankOf P2 w m →
      (dictGet? el (m, w)).isSome)
    (S : Nat → Bool)
    (hcl : ClosedUnder (posetGraph all (shortlists n P1 P2 (muOf n M0)).1 el) ((List.range all.length).filter S)) :
    ∀ i, i ≤ rotsA.length → ∃ T κ, ElimPath (rk n P1) (rk n P2) μ0 T κ ∧
      pathPairs μ0 T = ((List.range i).filter S).map (fun j => all.getD j []) := by
  intro i
  induction i with
  | zero => intro _; exact ⟨[], μ0, rfl, rfl⟩
  | succ i ih =>
    intro hi
    obtain ⟨T, κ, hT, hpp⟩ := ih (by omega)
    rw [List.range_succ, List.filter_append, List.map_append]
    cases hS : S i with
    | false =>
      refine ⟨T, κ, hT, ?_⟩
      simp [hpp, hS]
    | true =>
      have hil : i < rotsA.length := by omega
      obtain ⟨hexp, hpairs⟩ := R.exposed_transfer el hel hex i hil T κ hT
        (by
          intro r hr
          rw [hpp] at hr
          obtain ⟨j, hj, rfl⟩ := List.mem_map.mp hr
          exact ⟨j, List.mem_range.mp (List.mem_filter.mp hj).1, rfl⟩)
        (by
          intro j hji hedge
          have hjS : j ∈ (List.range all.length).filter S := by
            apply hcl j
            refine ⟨i, hedge, List.mem_filter.mpr ⟨List.mem_range.mpr (by rw [R.length]; exact hil), hS⟩⟩
          rw [hpp]
          exact List.mem_map.mpr ⟨j, List.mem_filter.mpr ⟨List.mem_range.mpr hji, (List.mem_filter.mp hjS).2⟩, rfl⟩)
      refine ⟨T ++ [rotsA[i]], elim κ rotsA[i], ?_, ?_⟩
      · rw [elimPath_append_iff, ← elimPath_end T μ0 κ hT]
        exact ⟨hT, hexp, rfl⟩
      · rw [pathPairs_append, ← elimPath_end T μ0 κ hT, hpp]
        simp [pathPairs, hpairs, hS]

end

/-- **`Remaining_j_task_at` from the run half of obligation (i)**: on a strict complete instance whose list of rotations
is a run from the male-optimal matching, a set of rotation numbers can be eliminated in index order iff it is closed in
the mirror's sparse poset graph -/
theorem remaining_j_task_at_of_run {n : Nat} {P1 P2 : List (List Nat)} {V1 V2 : List (List Int)}
    (hwf : wfB n P1 P2 V1 V2 = true) (hr : AllRun_at n P1 P2) : Remaining_j_task_at n P1 P2 := by
  intro M0 all el hmo hall S
  obtain ⟨μ0, C⟩ := jctx_of_wf hwf hmo
  obtain ⟨hAexp, hAne⟩ := hr M0 all el hmo hall
  obtain ⟨rotsA, νz, Mz, hpA, hppA, hMz, hrepz⟩ := path_unbridge C.h1 all M0 μ0 C.rep C.st0 hAne hAexp
  have R : RunCtx C all rotsA νz := ⟨hpA, hppA⟩
  constructor
  · -- soundness
    intro hS
    have hj := remaining_j_at_of_run hwf hr M0 all el hmo hall (idxSub all S) hS
      (by
        intro r hr
        obtain ⟨j, hj, rfl⟩ := List.mem_map.mp hr
        have hjl := List.mem_range.mp (List.mem_filter.mp hj).1
        rw [List.getD_eq_getElem?_getD, List.getElem?_eq_getElem hjl]
        exact hAne _ (List.getElem_mem hjl))
    rintro rho ⟨x, hx, hxS⟩
    obtain ⟨hxl, hxS'⟩ := List.mem_filter.mp hxS
    obtain ⟨r, hr, hrot⟩ := hj rho x hx ⟨_, List.mem_map.mpr ⟨x, hxS, rfl⟩, List.IsRotated.refl _⟩
    obtain ⟨y, hy, rfl⟩ := List.mem_map.mp hr
    obtain ⟨hyl, hyS⟩ := List.mem_filter.mp hy
    have hyl' := List.mem_range.mp hyl
    have hrl : rho < all.length := by
      by_contra hge
      rw [List.getD_eq_getElem?_getD (i := rho), List.getElem?_eq_none (by omega)] at hrot
      have : all.getD y [] = [] := List.isRotated_nil_iff.mp hrot
      rw [List.getD_eq_getElem?_getD, List.getElem?_eq_getElem hyl'] at this
      exact hAne _ (List.getElem_mem hyl') this
    have hpw := pathPairs_pairwise C.h1 C.h2 rotsA μ0 νz C.st0 hpA
    rw [hppA] at hpw
    rw [List.getD_eq_getElem?_getD, List.getElem?_eq_getElem hyl', List.getD_eq_getElem?_getD,
      List.getElem?_eq_getElem hrl] at hrot
    have := pairwise_not_inj (fun _ _ h => List.IsRotated.symm h) hpw y rho hyl' hrl hrot
    subst this
    exact hy
  · -- completeness
    intro hcl
    obtain ⟨Mz', μz, hMz', hrepz', _, hel, hex⟩ := allRotations_elim_facts C hall hAexp hAne
    rw [hMz] at hMz'
    obtain rfl := Option.some.inj hMz'
    obtain rfl := Rep.unique hrepz hrepz'
    obtain ⟨T, κ, hT, hpp⟩ := R.closed_run el hel hex S hcl rotsA.length (Nat.le_refl _)
    obtain ⟨hexp, _⟩ := path_bridge (P2 := P2) C.h1 T μ0 κ M0 C.rep C.st0 hT
    rw [hpp, ← R.length] at hexp
    exact hexp

theorem elim_facts_wf {n : Nat} {P1 P2 : List (List Nat)} {V1 V2 : List (List Int)} (hwf : wfB n P1 P2 V1 V2 = true)
    {M0 : List Pair} (hmo : maleOptimal n P1 P2 = some M0) {all : List (List Pair)} {elim : List (Pair × Nat)}
    (hall : allRotations (shortlists n P1 P2 (muOf n M0)).1 (shortlists n P1 P2 (muOf n M0)).2 = some (all, elim))
    (hexp : exposedAllB P1 P2 M0 all = true) (hne : ∀ r ∈ all, r ≠ []) :
    ∃ Mz μz, eliminateAll M0 all = some Mz ∧ Rep Mz μz ∧ StableSM (rk n P1) (rk n P2) μz ∧
      (∀ e ∈ elim, ElimOK P2 all e.1.1 e.1.2 e.2) ∧
      ∀ m w, m ∈ (shortlists n P1 P2 (muOf n M0)).2.getD w [] → rankOf P2 w (husb μz w) < rankOf P2 w m →
        (dictGet? elim (m, w)).isSome := by
  obtain ⟨μ0, C⟩ := jctx_of_wf hwf hmo
  exact allRotations_elim_facts C hall hexp hne

end IrvingAlgo.J

/-- **obligation (j) in the task form follows from obligation (i)** -/
theorem L8b.remaining_j_task_of_i (hi : Remaining_i) : Remaining_j_task :=
  fun n P1 P2 V1 V2 hwf => IrvingAlgo.J.remaining_j_task_at_of_run hwf
    (IrvingAlgo.J.allRun_of_remaining_i (hi n P1 P2 V1 V2 hwf))

#print axioms L8b.remaining_j_task_of_i
