import Sck.Proofs.EatIncomplete4

/-! C07 (incomplete profiles), part 5: the statements in the form used by `Sck/Props/C07Incomplete.lean`
(hypothesis `eatIncWfB … = true`), and the concrete witnesses. -/

open Finset

namespace Eat

variable {n : Nat} {P : List (List (Option Nat))} {speeds : List Rat}

theorem eatIncWfB_sound (h : eatIncWfB n P speeds = true) : EatIncWf n P speeds :=
  (eatIncWfB_iff n P speeds).mp h

/-- readable form of the precondition -/
theorem eatIncWfB_spec (n : Nat) (P : List (List (Option Nat))) (speeds : List Rat) :
    eatIncWfB n P speeds = true ↔
      P.length = n ∧
      (∀ row ∈ P, row.length = n ∧
        ∀ a b, a < row.length → b < row.length → a ≠ b → (row.getD a none).isSome = true →
          row.getD a none ≠ row.getD b none) ∧
      speeds.length = n ∧ ∀ s ∈ speeds, 0 < s := by
  rw [eatIncWfB_iff]
  constructor
  · rintro ⟨h1, h2, h3, h4⟩; exact ⟨h1, h2, h3, h4⟩
  · rintro ⟨h1, h2, h3, h4⟩; exact ⟨h1, h2, h3, h4⟩

theorem completeFirst_wfB (h : eatIncWfB n P speeds = true) : eatWfB n (completeFirst P) speeds = true :=
  (eatWfB_iff n _ speeds).mpr (eatWf_completeFirst (eatIncWfB_sound h))

/-- the completed profile extends every agent's order: acceptable items keep their relative order and come
before the unacceptable ones, which are ordered by index -/
theorem completeFirst_order (h : eatIncWfB n P speeds = true) (i j1 j2 : Nat) (hi : i < n) (hj1 : j1 < n)
    (hj2 : j2 < n) :
    (∀ r1 r2, prefRank P i j1 = some r1 → prefRank P i j2 = some r2 →
      (rk (completeFirst P) i j1 < rk (completeFirst P) i j2 ↔ r1 < r2)) ∧
    (∀ r1, prefRank P i j1 = some r1 → prefRank P i j2 = none →
      rk (completeFirst P) i j1 < rk (completeFirst P) i j2) ∧
    (prefRank P i j1 = none → prefRank P i j2 = none →
      (rk (completeFirst P) i j1 < rk (completeFirst P) i j2 ↔ j1 < j2)) := by
  have hw := eatIncWfB_sound h
  refine ⟨fun r1 r2 h1 h2 => rk_acc_lt_iff hw hi hj1 hj2 h1 h2, ?_,
    fun h1 h2 => rk_unacc_lt_iff hw hi hj1 hj2 h1 h2⟩
  intro r1 h1 h2
  exact rk_acc_lt_unacc hw hi hj1 hj2 (by unfold unacc; rw [h1]; rfl) (by unfold unacc; rw [h2]; rfl)

theorem eatInc_eq_complete (h : eatIncWfB n P speeds = true) :
    eatInc n P speeds = eat n (completeFirst P) speeds ∧
    eatIncLog n P speeds = eatLog n (completeFirst P) speeds ∧
    P.map rankedInc = (completeFirst P).map rankedOf :=
  ⟨eatInc_eq (eatIncWfB_sound h), eatIncLog_eq (eatIncWfB_sound h), ranked_completeFirst (eatIncWfB_sound h)⟩

theorem eatInc_of_complete (n : Nat) (P : List (List Nat)) (speeds : List Rat) :
    eatInc n (P.map (fun row => row.map some)) speeds = eat n P speeds := by
  unfold eatInc eat
  rw [eatIncLog_map_some]

theorem eatInc_bistochastic (h : eatIncWfB n P speeds = true) :
    ∃ X, eatInc n P speeds = some X ∧
      (X.length = n ∧ ∀ row ∈ X, row.length = n) ∧
      (∀ i < n, ∀ j < n, 0 ≤ mget X i j) ∧
      (∀ i < n, ∑ j ∈ range n, mget X i j = 1) ∧
      (∀ j < n, ∑ i ∈ range n, mget X i j = 1) := by
  obtain ⟨X, log, _, hX, hd, hnn, hrow, hcol, _, _⟩ := eatIncLog_spec (eatIncWfB_sound h)
  refine ⟨X, hX, ⟨?_, ?_⟩, hnn, hrow, hcol⟩
  · rw [hd]; simp
  · intro row hrow'
    rw [hd] at hrow'
    obtain ⟨i, _, rfl⟩ := List.mem_map.mp hrow'
    simp

theorem eatInc_is_process (h : eatIncWfB n P speeds = true) {X : List (List Rat)} {log : List Event}
    (hlog : eatIncLog n P speeds = some (X, log)) :
    (∀ i < n, ∀ j < n, mget X i j = amt speeds log i j) ∧
    (∀ k (hk : k < log.length),
      EventOK n (completeFirst P) speeds (amt speeds (log.take k)) log[k]) ∧
    (∀ i < n, ∑ j ∈ range n, amt speeds log i j = 1) := by
  obtain ⟨X', log', h', _, _, _, _, _, hamt, htr⟩ := eatIncLog_spec (eatIncWfB_sound h)
  rw [hlog] at h'
  cases h'
  refine ⟨hamt, ?_, ?_⟩
  · intro k hk
    have := htr.take log k hk
    simpa only [zero_add] using this
  · intro i hi
    have := htr.rows log i hi
    simpa only [zero_add] using this

theorem eatInc_log_exists (h : eatIncWfB n P speeds = true) :
    ∃ X log, eatIncLog n P speeds = some (X, log) ∧ eatInc n P speeds = some X := by
  obtain ⟨X, log, h1, h2, _⟩ := eatIncLog_spec (eatIncWfB_sound h)
  exact ⟨X, log, h1, h2⟩

/-- an agent without any acceptable item (all-NaN row) eats only unacceptable items — special case
`S = {i}`, `T = ∅` of the counting argument -/
theorem eatInc_unavoidable_empty (hwf : EatIncWf n P speeds) {X : List (List Rat)}
    (h : eatInc n P speeds = some X) {i : Nat} (hi : i < n) (hrow : ∀ j < n, unacc P i j = true) :
    ∃ j < n, unacc P i j = true ∧ 0 < mget X i j := by
  obtain ⟨i', hi', j, hj, hu, hp⟩ := eatInc_unavoidable_hall hwf h {i} ∅
    (by intro a ha; rw [Finset.mem_singleton.mp ha]; exact Finset.mem_range.mpr hi)
    (Finset.empty_subset _) (by simp)
    (by intro a ha j hj hu
        rw [Finset.mem_singleton.mp ha, hrow j hj] at hu
        cases hu)
  rw [Finset.mem_singleton.mp hi'] at hu hp
  exact ⟨j, hj, hu, hp⟩

/-- on a profile without NaN nothing is unacceptable -/
theorem unacc_map_some (P : List (List Nat)) (i j : Nat) (hi : i < P.length)
    (hj : j < (P.getD i []).length) : unacc (P.map (fun row => row.map some)) i j = false := by
  have hPi : P.getD i [] = P[i] := by simp [hi]
  rw [hPi] at hj
  simp [unacc, prefRank, hi, hj]

/-! ### concrete witnesses -/

/-- agent 0 accepts only item 0, which is also the first choice of agent 1 -/
def cex3 : List (List (Option Nat)) :=
  [[some 1, none, none], [some 1, some 2, some 3], [some 2, some 1, some 3]]

theorem cex3_ranked : cex3.map rankedInc = [[0, 1, 2], [0, 1, 2], [1, 0, 2]] := by
  simp [cex3, rankedInc, plistOfRow, List.mergeSort, List.range, List.range.loop, leKey, keyOf,
    List.MergeSort.Internal.splitInTwo]

theorem cex3_value : eatInc 3 cex3 [1, 1, 1] =
    some [[1/2, 1/6, 1/3], [1/2, 1/6, 1/3], [0, 2/3, 1/3]] := by
  unfold eatInc eatIncLog
  rw [cex3_ranked]
  decide +kernel

theorem cex3_log : (eatIncLog 3 cex3 [1, 1, 1]).map (fun r => r.2.map (fun e => (e.t, e.cur))) =
    some [(1/2, [some 0, some 0, some 1]), (1/6, [some 1, some 1, some 1]),
          (1/3, [some 2, some 2, some 2])] := by
  unfold eatIncLog
  rw [cex3_ranked]
  decide +kernel

theorem cex3_wf : eatIncWfB 3 cex3 [1, 1, 1] = true := by decide +kernel

theorem cex3_complete : completeFirst cex3 = [[1, 2, 3], [1, 2, 3], [2, 1, 3]] := by decide +kernel

/-- two agents that both accept only item 0 -/
def cex2 : List (List (Option Nat)) := [[some 1, none], [some 1, none]]

theorem cex2_ranked : cex2.map rankedInc = [[0, 1], [0, 1]] := by
  simp [cex2, rankedInc, plistOfRow, List.range, List.range.loop]

theorem cex2_value : eatInc 2 cex2 [1, 1] = some [[1/2, 1/2], [1/2, 1/2]] := by
  unfold eatInc eatIncLog
  rw [cex2_ranked]
  decide +kernel

deriving instance DecidableEq for Event

/-- an incomplete profile on which no agent touches an unacceptable item: agents 0 and 1 share items 0 and 1
and are full exactly when these run out, agent 2 eats item 2 alone (two events) -/
def ok3 : List (List (Option Nat)) :=
  [[some 1, some 2, none], [some 1, some 2, none], [none, none, some 1]]

/-- the event log of `ok3` -/
def ok3Log : List Event :=
  [{ t := 1/2, cur := [some 0, some 0, some 2] }, { t := 1/2, cur := [some 1, some 1, some 2] }]

theorem ok3_ranked : ok3.map rankedInc = [[0, 1, 2], [0, 1, 2], [2, 0, 1]] := by
  simp [ok3, rankedInc, plistOfRow, List.mergeSort, List.range, List.range.loop, leKey, keyOf,
    List.MergeSort.Internal.splitInTwo]

theorem ok3_log : eatIncLog 3 ok3 [1, 1, 1] =
    some ([[1/2, 1/2, 0], [1/2, 1/2, 0], [0, 0, 1]], ok3Log) := by
  unfold eatIncLog
  rw [ok3_ranked]
  decide +kernel

theorem ok3_wf : eatIncWfB 3 ok3 [1, 1, 1] = true := by decide +kernel

/-- agent 0 of `ok3` satisfies the hypothesis of the positive result: at the beginning of both events its
acceptable item 1 is not exhausted -/
theorem ok3_cond : ∀ k < ok3Log.length,
    ∑ j' ∈ range 3, amt [1, 1, 1] (ok3Log.take k) 0 j' = 1 ∨
    ∃ j1 < 3, unacc ok3 0 j1 = false ∧ ∑ i' ∈ range 3, amt [1, 1, 1] (ok3Log.take k) i' j1 < 1 := by
  intro k hk
  refine Or.inr ⟨1, by omega, by decide, ?_⟩
  have hk' : k = 0 ∨ k = 1 := by simp [ok3Log] at hk; omega
  rcases hk' with rfl | rfl
  · simp [amt]
  · simp [ok3Log, amt, evAmt, lk, Finset.sum_range_succ]

end Eat
