import Sck.Proofs.LatticeJ8

/-! # C03, package L8b, part 9: stages of an elimination path, and three lattice lemmas for completeness of the sparse
poset (a path whose rotations all lie on another path ends above it; the husband a woman gets from a rotation is a lower
bound for her husbands in every stable matching below that rotation; the first rotation that moves a man) -/

namespace SMLattice.J

open Irving

variable {n : ℕ}

/-- the end point of an elimination sequence -/
def endOf (μ : Equiv.Perm (Fin n)) (A : List (List (Fin n))) : Equiv.Perm (Fin n) := A.foldl elim μ

@[simp] theorem endOf_nil (μ : Equiv.Perm (Fin n)) : endOf μ [] = μ := rfl
@[simp] theorem endOf_cons (μ : Equiv.Perm (Fin n)) (ρ : List (Fin n)) (A : List (List (Fin n))) :
    endOf μ (ρ :: A) = endOf (elim μ ρ) A := rfl

theorem endOf_append (μ : Equiv.Perm (Fin n)) (A B : List (List (Fin n))) :
    endOf μ (A ++ B) = endOf (endOf μ A) B := List.foldl_append

theorem elimPath_end {P1 P2 : Fin n → Fin n → ℕ} :
    ∀ (A : List (List (Fin n))) (μ ν : Equiv.Perm (Fin n)), ElimPath P1 P2 μ A ν → ν = endOf μ A := by
  intro A
  induction A with
  | nil => intro μ ν h; exact h.symm
  | cons ρ A ih => intro μ ν h; exact ih _ _ h.2

theorem elimPath_append_iff {P1 P2 : Fin n → Fin n → ℕ} :
    ∀ (A B : List (List (Fin n))) (μ ν : Equiv.Perm (Fin n)),
      ElimPath P1 P2 μ (A ++ B) ν ↔ ElimPath P1 P2 μ A (endOf μ A) ∧ ElimPath P1 P2 (endOf μ A) B ν := by
  intro A
  induction A with
  | nil => intro B μ ν; simp [ElimPath]
  | cons ρ A ih =>
    intro B μ ν
    simp only [List.cons_append, ElimPath, endOf_cons, ih, and_assoc]

theorem pathPairs_append (μ : Equiv.Perm (Fin n)) (A B : List (List (Fin n))) :
    pathPairs μ (A ++ B) = pathPairs μ A ++ pathPairs (endOf μ A) B := by
  induction A generalizing μ with
  | nil => rfl
  | cons ρ A ih => simp only [List.cons_append, pathPairs, endOf_cons, ih]

theorem pathPairs_length (μ : Equiv.Perm (Fin n)) (A : List (List (Fin n))) : (pathPairs μ A).length = A.length := by
  induction A generalizing μ with
  | nil => rfl
  | cons ρ A ih => simp only [pathPairs, List.length_cons, ih]

theorem take_append_getElem_drop {α : Type} (A : List α) (i : Nat) (hi : i < A.length) :
    A = A.take i ++ A[i] :: A.drop (i + 1) := by
  rw [List.getElem_cons_drop, List.take_append_drop]

/-- everything about stage `i` of a path: the matching `stg i` reached after `i` eliminations -/
theorem path_stage {P1 P2 : Fin n → Fin n → ℕ} (h1 : ∀ a, Function.Injective (P1 a)) {μ ν : Equiv.Perm (Fin n)}
    (hμ : StableSM P1 P2 μ) {A : List (List (Fin n))} (hp : ElimPath P1 P2 μ A ν) (i : Nat) (hi : i < A.length) :
    ElimPath P1 P2 μ (A.take i) (endOf μ (A.take i)) ∧ StableSM P1 P2 (endOf μ (A.take i)) ∧
      MLe P1 μ (endOf μ (A.take i)) ∧ ExposedRot P1 P2 (endOf μ (A.take i)) A[i] ∧
      ElimPath P1 P2 (elim (endOf μ (A.take i)) A[i]) (A.drop (i + 1)) ν ∧
      MLe P1 (elim (endOf μ (A.take i)) A[i]) ν ∧
      (pathPairs μ A)[i]'(by rw [pathPairs_length]; exact hi) = rotPairs (endOf μ (A.take i)) A[i] ∧
      pathPairs μ A = pathPairs μ (A.take i) ++ rotPairs (endOf μ (A.take i)) A[i] ::
        pathPairs (elim (endOf μ (A.take i)) A[i]) (A.drop (i + 1)) := by
  have hA := take_append_getElem_drop A i hi
  have hp' := hp
  rw [hA, elimPath_append_iff] at hp'
  obtain ⟨p1, p2⟩ := hp'
  obtain ⟨s1, l1⟩ := elimPath_stable h1 _ _ _ hμ p1
  have s2 := (exposed_elim_stable h1 s1 p2.1).1
  have hpp : pathPairs μ A = pathPairs μ (A.take i) ++ rotPairs (endOf μ (A.take i)) A[i] ::
      pathPairs (elim (endOf μ (A.take i)) A[i]) (A.drop (i + 1)) := by
    conv_lhs => rw [hA, pathPairs_append]
    rfl
  refine ⟨p1, s1, l1, p2.1, p2.2, (elimPath_stable h1 _ _ _ s2 p2.2).2, ?_, hpp⟩
  have hlen : (pathPairs μ (A.take i)).length = i := by
    rw [pathPairs_length, List.length_take]; omega
  simp only [hpp]
  rw [List.getElem_append_right (by omega)]
  simp [hlen]

/-- later stages are below earlier ones -/
theorem stage_mono {P1 P2 : Fin n → Fin n → ℕ} (h1 : ∀ a, Function.Injective (P1 a)) {μ ν : Equiv.Perm (Fin n)}
    (hμ : StableSM P1 P2 μ) {A : List (List (Fin n))} (hp : ElimPath P1 P2 μ A ν) (j i : Nat) (hji : j ≤ i) :
    MLe P1 (endOf μ (A.take j)) (endOf μ (A.take i)) := by
  have e2 : (A.take i).take j = A.take j := by rw [List.take_take]; congr 1; omega
  have hpi : ElimPath P1 P2 μ (A.take i) (endOf μ (A.take i)) := by
    have : A = A.take i ++ A.drop i := (List.take_append_drop i A).symm
    rw [this, elimPath_append_iff] at hp
    exact hp.1
  have hpi' : ElimPath P1 P2 μ ((A.take i).take j ++ (A.take i).drop j) (endOf μ (A.take i)) := by
    rw [List.take_append_drop]; exact hpi
  rw [elimPath_append_iff, e2] at hpi'
  have hs := (elimPath_stable h1 _ _ _ hμ hpi'.1).1
  exact (elimPath_stable h1 _ _ _ hs hpi'.2).2

/-- **a path all of whose rotations lie on another path from the same matching ends above it** -/
theorem le_of_rotations_subset {P1 P2 : Fin n → Fin n → ℕ} (h1 : ∀ a, Function.Injective (P1 a))
    (h2 : ∀ b, Function.Injective (P2 b)) {μ : Equiv.Perm (Fin n)} (hμst : StableSM P1 P2 μ) :
    ∀ (T : List (List (Fin n))) (μs κ : Equiv.Perm (Fin n)) (A : List (List (Fin n))), StableSM P1 P2 μs →
      ElimPath P1 P2 μs T κ → ElimPath P1 P2 μs A μ →
      (∀ r ∈ pathPairs μs T, ∃ r' ∈ pathPairs μs A, r' ~r r) → MLe P1 κ μ := by
  intro T
  induction T with
  | nil =>
    intro μs κ A hs hT hA _
    cases hT
    exact (elimPath_stable h1 _ _ _ hs hA).2
  | cons σ T ih =>
    intro μs κ A hs hT hA hsub
    obtain ⟨hex, hT'⟩ := hT
    obtain ⟨hst', _, _⟩ := exposed_elim_stable h1 hs hex
    have hle := (elimPath_stable h1 _ _ _ hs hA).2
    obtain ⟨c, hc⟩ := List.exists_mem_of_ne_nil _ hex.2.1
    have hon := (mem_path_iff h1 h2 hs hex hc A μs μ hs hA).mp (hsub _ (by simp [pathPairs]))
    have hle' : MLe P1 (elim μs σ) μ := by
      rcases exposed_dichotomy h1 h2 hμst hle hex with hag | h
      · have := hag c hc; rw [this] at hon; omega
      · exact h
    obtain ⟨A', hA'⟩ := reachable_of_le h1 h2 hμst _ (elim μs σ) hst' hle' (Nat.le_refl _)
    refine ih (elim μs σ) κ A' hst' hT' hA' ?_
    intro r hr
    obtain ⟨N, τ, hN, hτ, rfl⟩ := mem_pathPairs h1 T _ κ hst' hT' r hr
    obtain ⟨d, hd⟩ := List.exists_mem_of_ne_nil _ hτ.2.1
    have o1 := (mem_path_iff h1 h2 hN hτ hd A μs μ hs hA).mp (hsub _ (by simp [pathPairs, hr]))
    have o2 := (mem_path_iff h1 h2 hN hτ hd T _ κ hst' hT').mp ⟨_, hr, List.IsRotated.refl _⟩
    exact (mem_path_iff h1 h2 hN hτ hd A' _ μ hst' hA').mpr ⟨o2.1, o1.2⟩

/-- **the husband a rotation gives to a woman bounds her husbands below the rotation**: `σ` exposed in stable `N`, `a ∈ σ`,
and `κ` a stable matching in which `a` is strictly worse off than in `N`; then `N a` likes her `κ`-husband at least as
much as her husband in `N/σ` -/
theorem woman_after_rotation {P1 P2 : Fin n → Fin n → ℕ} (h1 : ∀ a, Function.Injective (P1 a))
    (h2 : ∀ b, Function.Injective (P2 b)) {N κ : Equiv.Perm (Fin n)} (hN : StableSM P1 P2 N)
    (hκ : StableSM P1 P2 κ) {σ : List (Fin n)} (hσ : ExposedRot P1 P2 N σ) {a : Fin n} (ha : a ∈ σ)
    (hlt : P1 a (N a) < P1 a (κ a)) :
    P2 (N a) (κ.symm (N a)) ≤ P2 (N a) ((elim N σ).symm (N a)) := by
  obtain ⟨lam, hlam, hl1, hl2⟩ := stable_join h1 h2 hN hκ
  have hle : MLe P1 N lam := fun c => by rw [hl1]; exact (worse_ge P1 N κ c).1
  have hla : lam a = κ a := by rw [hl1]; unfold worse; rw [if_pos (by omega)]
  rcases exposed_dichotomy h1 h2 hlam hle hσ with hag | hle'
  · have := hag a ha
    rw [hla] at this
    rw [this] at hlt; exact absurd hlt (Nat.lt_irrefl _)
  · have hw := women_le h1 hlam hle' (N a)
    have hb := hl2 (N a)
    unfold better at hb
    simp only [Equiv.symm_apply_apply] at hb
    split at hb
    · -- `λ` would give `N a` the husband `a`, but `N/σ` gives her a strictly better one
      exfalso
      rw [hb] at hw
      have hne : (elim N σ).symm (N a) ≠ a := by
        rw [elim_symm_apply, Equiv.symm_apply_apply]
        intro he
        rw [Equiv.symm_apply_eq] at he
        exact exposedRot_move hσ a ha he.symm
      have hle2 := elim_women_le hσ (N a)
      simp only [Equiv.symm_apply_apply] at hle2
      have : P2 (N a) ((elim N σ).symm (N a)) ≠ P2 (N a) a := fun he => hne (h2 _ he)
      omega
    · rw [hb] at hw; exact hw

/-- **the first rotation that moves a man**: on a path from stable `μ` to `ν` with `μ c ≠ ν c` some rotation of the path
contains `c` with his `μ`-wife -/
theorem first_mover {P1 P2 : Fin n → Fin n → ℕ} (h1 : ∀ a, Function.Injective (P1 a)) (c : Fin n) :
    ∀ (A : List (List (Fin n))) (μ ν : Equiv.Perm (Fin n)), StableSM P1 P2 μ → ElimPath P1 P2 μ A ν → μ c ≠ ν c →
      ∃ N σ, rotPairs N σ ∈ pathPairs μ A ∧ c ∈ σ ∧ N c = μ c := by
  intro A
  induction A with
  | nil => intro μ ν _ hp hne; cases hp; exact absurd rfl hne
  | cons ρ A ih =>
    intro μ ν hμ hp hne
    by_cases hc : c ∈ ρ
    · exact ⟨μ, ρ, by simp [pathPairs], hc, rfl⟩
    · have he : elim μ ρ c = μ c := elim_apply_of_notMem μ hc
      obtain ⟨N, σ, hmem, hcσ, hNc⟩ := ih (elim μ ρ) ν (exposed_elim_stable h1 hμ hp.1).1 hp.2 (by rw [he]; exact hne)
      exact ⟨N, σ, by simp [pathPairs, hmem], hcσ, by rw [hNc, he]⟩

end SMLattice.J

#print axioms SMLattice.J.le_of_rotations_subset
#print axioms SMLattice.J.woman_after_rotation
