import Sck.Model.Voting
import Mathlib.Tactic.Linarith
import Mathlib.Algebra.Order.Ring.Rat
import Mathlib.Algebra.Order.Field.Basic
import Mathlib.Algebra.BigOperators.Group.List.Basic

/-! Voting model, basic facts: sums, maxima, winners, tie-breaking, index shift (C10 / C13). -/

namespace Vote

/-! ## sums -/

theorem foldl_add_init {α : Type} [AddCommMonoid α] (l : List α) (a : α) :
    l.foldl (· + ·) a = a + l.sum := by
  induction l generalizing a with
  | nil => simp
  | cons x xs ih => simp [List.foldl_cons, ih, add_assoc]

theorem sumI_eq_sum (l : List Int) : sumI l = l.sum := by
  unfold sumI; rw [foldl_add_init]; simp

theorem sumQ_eq_sum (l : List Rat) : sumQ l = l.sum := by
  unfold sumQ; rw [foldl_add_init]; simp

/-! ## maxima -/

theorem maxI_cons_cons (a b : Int) (l : List Int) : maxI (a :: b :: l) = max a (maxI (b :: l)) := rfl
theorem maxQ_cons_cons (a b : Rat) (l : List Rat) : maxQ (a :: b :: l) = max a (maxQ (b :: l)) := rfl

theorem le_maxI {s : List Int} {x : Int} (h : x ∈ s) : x ≤ maxI s := by
  induction s with
  | nil => simp at h
  | cons a as ih =>
    cases as with
    | nil => simp at h; simp [maxI, h]
    | cons b bs =>
      rw [maxI_cons_cons]
      rcases List.mem_cons.1 h with h | h
      · subst h; exact le_max_left _ _
      · exact le_trans (ih h) (le_max_right _ _)

theorem maxI_mem {s : List Int} (h : s ≠ []) : maxI s ∈ s := by
  induction s with
  | nil => exact absurd rfl h
  | cons a as ih =>
    cases as with
    | nil => simp [maxI]
    | cons b bs =>
      rw [maxI_cons_cons]
      rcases max_choice a (maxI (b :: bs)) with h1 | h1
      · rw [h1]; exact List.mem_cons_self
      · rw [h1]; exact List.mem_cons_of_mem _ (ih (by simp))

theorem le_maxQ {s : List Rat} {x : Rat} (h : x ∈ s) : x ≤ maxQ s := by
  induction s with
  | nil => simp at h
  | cons a as ih =>
    cases as with
    | nil => simp at h; simp [maxQ, h]
    | cons b bs =>
      rw [maxQ_cons_cons]
      rcases List.mem_cons.1 h with h | h
      · subst h; exact le_max_left _ _
      · exact le_trans (ih h) (le_max_right _ _)

theorem maxQ_mem {s : List Rat} (h : s ≠ []) : maxQ s ∈ s := by
  induction s with
  | nil => exact absurd rfl h
  | cons a as ih =>
    cases as with
    | nil => simp [maxQ]
    | cons b bs =>
      rw [maxQ_cons_cons]
      rcases max_choice a (maxQ (b :: bs)) with h1 | h1
      · rw [h1]; exact List.mem_cons_self
      · rw [h1]; exact List.mem_cons_of_mem _ (ih (by simp))

/-! ## winners -/

theorem getD_eq_getElem {α : Type} (s : List α) (j : Nat) (d : α) (h : j < s.length) :
    s.getD j d = s[j] := by
  simp [List.getD_eq_getElem?_getD, h]

/-- `j` is returned as a winner iff it is a valid position whose score is maximal. -/
theorem winnersI_iff {s : List Int} {j : Nat} :
    j ∈ winnersI s ↔ ∃ hj : j < s.length, ∀ k (hk : k < s.length), s[k] ≤ s[j] := by
  unfold winnersI
  rw [List.mem_filter, List.mem_range]
  constructor
  · rintro ⟨hj, he⟩
    refine ⟨hj, fun k hk => ?_⟩
    rw [getD_eq_getElem s j 0 hj] at he
    have he' : s[j] = maxI s := by simpa using he
    rw [he']
    exact le_maxI (List.getElem_mem hk)
  · rintro ⟨hj, hmax⟩
    refine ⟨hj, ?_⟩
    rw [getD_eq_getElem s j 0 hj]
    have hne : s ≠ [] := by intro h; subst h; simp at hj
    obtain ⟨k, hk, hkm⟩ := List.mem_iff_getElem.1 (maxI_mem hne)
    have h1 : maxI s ≤ s[j] := hkm ▸ hmax k hk
    have h2 : s[j] ≤ maxI s := le_maxI (List.getElem_mem hj)
    simpa using le_antisymm h2 h1

theorem winnersQ_iff {s : List Rat} {j : Nat} :
    j ∈ winnersQ s ↔ ∃ hj : j < s.length, ∀ k (hk : k < s.length), s[k] ≤ s[j] := by
  unfold winnersQ
  rw [List.mem_filter, List.mem_range]
  constructor
  · rintro ⟨hj, he⟩
    refine ⟨hj, fun k hk => ?_⟩
    rw [getD_eq_getElem s j 0 hj] at he
    have he' : s[j] = maxQ s := by simpa using he
    rw [he']
    exact le_maxQ (List.getElem_mem hk)
  · rintro ⟨hj, hmax⟩
    refine ⟨hj, ?_⟩
    rw [getD_eq_getElem s j 0 hj]
    have hne : s ≠ [] := by intro h; subst h; simp at hj
    obtain ⟨k, hk, hkm⟩ := List.mem_iff_getElem.1 (maxQ_mem hne)
    have h1 : maxQ s ≤ s[j] := hkm ▸ hmax k hk
    have h2 : s[j] ≤ maxQ s := le_maxQ (List.getElem_mem hj)
    simpa using le_antisymm h2 h1

/-- the same with the totalised accessor used by the model (bounds are explicit, so no default is ever used) -/
theorem winnersI_iff_getD {s : List Int} {j : Nat} :
    j ∈ winnersI s ↔ j < s.length ∧ ∀ k < s.length, s.getD k 0 ≤ s.getD j 0 := by
  rw [winnersI_iff]
  constructor
  · rintro ⟨hj, h⟩
    refine ⟨hj, fun k hk => ?_⟩
    rw [getD_eq_getElem s k 0 hk, getD_eq_getElem s j 0 hj]; exact h k hk
  · rintro ⟨hj, h⟩
    refine ⟨hj, fun k hk => ?_⟩
    have := h k hk
    rwa [getD_eq_getElem s k 0 hk, getD_eq_getElem s j 0 hj] at this

theorem winnersQ_iff_getD {s : List Rat} {j : Nat} :
    j ∈ winnersQ s ↔ j < s.length ∧ ∀ k < s.length, s.getD k 0 ≤ s.getD j 0 := by
  rw [winnersQ_iff]
  constructor
  · rintro ⟨hj, h⟩
    refine ⟨hj, fun k hk => ?_⟩
    rw [getD_eq_getElem s k 0 hk, getD_eq_getElem s j 0 hj]; exact h k hk
  · rintro ⟨hj, h⟩
    refine ⟨hj, fun k hk => ?_⟩
    have := h k hk
    rwa [getD_eq_getElem s k 0 hk, getD_eq_getElem s j 0 hj] at this

theorem winnersI_sorted (s : List Int) : (winnersI s).Pairwise (· < ·) :=
  List.Pairwise.filter _ List.pairwise_lt_range

theorem winnersQ_sorted (s : List Rat) : (winnersQ s).Pairwise (· < ·) :=
  List.Pairwise.filter _ List.pairwise_lt_range

theorem winnersI_nonempty {s : List Int} (h : s ≠ []) : winnersI s ≠ [] := by
  obtain ⟨k, hk, hkm⟩ := List.mem_iff_getElem.1 (maxI_mem h)
  have : k ∈ winnersI s :=
    winnersI_iff.2 ⟨hk, fun j hj => hkm ▸ le_maxI (List.getElem_mem hj)⟩
  intro h0; rw [h0] at this; simp at this

theorem winnersQ_nonempty {s : List Rat} (h : s ≠ []) : winnersQ s ≠ [] := by
  obtain ⟨k, hk, hkm⟩ := List.mem_iff_getElem.1 (maxQ_mem h)
  have : k ∈ winnersQ s :=
    winnersQ_iff.2 ⟨hk, fun j hj => hkm ▸ le_maxQ (List.getElem_mem hj)⟩
  intro h0; rw [h0] at this; simp at this

/-- every winner has the same (maximal) score -/
theorem winnersI_score {s : List Int} {j : Nat} (h : j ∈ winnersI s) : s.getD j 0 = maxI s := by
  unfold winnersI at h
  simpa using (List.mem_filter.1 h).2

theorem winnersQ_score {s : List Rat} {j : Nat} (h : j ∈ winnersQ s) : s.getD j 0 = maxQ s := by
  unfold winnersQ at h
  simpa using (List.mem_filter.1 h).2

/-! ## tie-breaking and index shift -/

theorem breakTie_accept (ws : List Nat) : breakTie .accept ws = some ws := rfl

theorem breakTie_first_nil : breakTie .first [] = none := rfl

/-- on an increasing list of tied alternatives, `first` returns the least of them -/
theorem breakTie_first {ws : List Nat} (hs : ws.Pairwise (· < ·)) (hne : ws ≠ []) :
    ∃ a ∈ ws, breakTie .first ws = some [a] ∧ ∀ b ∈ ws, a ≤ b := by
  cases ws with
  | nil => exact absurd rfl hne
  | cons a as =>
    refine ⟨a, List.mem_cons_self, rfl, fun b hb => ?_⟩
    rcases List.mem_cons.1 hb with hb | hb
    · exact le_of_eq hb.symm
    · exact le_of_lt ((List.pairwise_cons.1 hs).1 b hb)

theorem breakTie_random {ws : List Nat} {k : Nat} (hk : k < ws.length) :
    ∃ a ∈ ws, breakTie (.random k) ws = some [a] :=
  ⟨ws[k], List.getElem_mem hk, by simp [breakTie, hk]⟩

theorem breakTie_random_none {ws : List Nat} {k : Nat} (hk : ws.length ≤ k) :
    breakTie (.random k) ws = none := by
  simp [breakTie, hk]

theorem breakTie_random_iff {ws : List Nat} {k : Nat} :
    (breakTie (.random k) ws).isSome ↔ k < ws.length := by
  simp [breakTie]

/-- whatever the tie-breaker returns is a sub-selection of the tied alternatives -/
theorem breakTie_subset {tb : TieBreaker} {ws out : List Nat} (h : breakTie tb ws = some out) :
    ∀ a ∈ out, a ∈ ws := by
  cases tb with
  | accept => simp [breakTie] at h; subst h; exact fun a ha => ha
  | first =>
    cases ws with
    | nil => simp [breakTie] at h
    | cons x xs => simp [breakTie] at h; subst h; simp
  | random k =>
    simp only [breakTie, Option.map_eq_some_iff] at h
    obtain ⟨a, ha, rfl⟩ := h
    intro b hb
    simp at hb; subst hb
    exact List.mem_of_getElem? ha

theorem breakTie_map (f : Nat → Nat) (tb : TieBreaker) (ws : List Nat) :
    breakTie tb (ws.map f) = (breakTie tb ws).map (List.map f) := by
  cases tb with
  | accept => rfl
  | first => cases ws <;> simp [breakTie]
  | random k => simp [breakTie, List.getElem?_map, Option.map_map, Function.comp_def]

theorem shift_zero (l : List Nat) : shift 0 l = l := by simp [shift]

theorem shift_shift (a b : Nat) (l : List Nat) : shift a (shift b l) = shift (b + a) l := by
  simp [shift]

theorem scfI_eq_map (fixer : Nat) (tb : TieBreaker) (s : List Int) :
    scfI fixer tb s = (scfI 0 tb s).map (shift fixer) := by
  unfold scfI
  rw [shift_zero]
  exact breakTie_map (· + fixer) tb (winnersI s)

theorem scfQ_eq_map (fixer : Nat) (tb : TieBreaker) (s : List Rat) :
    scfQ fixer tb s = (scfQ 0 tb s).map (shift fixer) := by
  unfold scfQ
  rw [shift_zero]
  exact breakTie_map (· + fixer) tb (winnersQ s)

/-- switching from zero- to one-indexed output adds exactly one to every reported alternative -/
theorem scfI_index_shift (tb : TieBreaker) (s : List Int) :
    scfI 1 tb s = (scfI 0 tb s).map (shift 1) := scfI_eq_map 1 tb s

theorem scfQ_index_shift (tb : TieBreaker) (s : List Rat) :
    scfQ 1 tb s = (scfQ 0 tb s).map (shift 1) := scfQ_eq_map 1 tb s

theorem swfI_eq_map (fixer : Nat) (s : List Int) :
    swfI fixer s = (swfI 0 s).map (fun e => (e.1 + fixer, e.2)) := by
  simp [swfI, List.map_map, Function.comp_def]

theorem swfI_index_shift (s : List Int) :
    swfI 1 s = (swfI 0 s).map (fun e => (e.1 + 1, e.2)) := swfI_eq_map 1 s

/-! ## the social choice function under each tie-breaker -/

theorem shift_sorted {ws : List Nat} (h : ws.Pairwise (· < ·)) (fixer : Nat) :
    (shift fixer ws).Pairwise (· < ·) := by
  unfold shift
  rw [List.pairwise_map]
  exact h.imp (by intro a b h; omega)

theorem mem_shift {ws : List Nat} {fixer x : Nat} : x ∈ shift fixer ws ↔ ∃ a ∈ ws, x = a + fixer := by
  unfold shift
  simp only [List.mem_map]
  constructor
  · rintro ⟨a, ha, rfl⟩; exact ⟨a, ha, rfl⟩
  · rintro ⟨a, ha, rfl⟩; exact ⟨a, ha, rfl⟩

theorem scfI_zero (tb : TieBreaker) (s : List Int) : scfI 0 tb s = breakTie tb (winnersI s) := by
  unfold scfI; rw [shift_zero]

theorem scfQ_zero (tb : TieBreaker) (s : List Rat) : scfQ 0 tb s = breakTie tb (winnersQ s) := by
  unfold scfQ; rw [shift_zero]

theorem scfI_accept (fixer : Nat) (s : List Int) : scfI fixer .accept s = some (shift fixer (winnersI s)) := rfl
theorem scfQ_accept (fixer : Nat) (s : List Rat) : scfQ fixer .accept s = some (shift fixer (winnersQ s)) := rfl

theorem scfI_first (fixer : Nat) {s : List Int} (hs : s ≠ []) :
    ∃ a ∈ winnersI s, scfI fixer .first s = some [a + fixer] ∧ ∀ b ∈ winnersI s, a ≤ b := by
  obtain ⟨a, ha, h1, h2⟩ := breakTie_first (winnersI_sorted s) (winnersI_nonempty hs)
  refine ⟨a, ha, ?_, h2⟩
  rw [scfI_eq_map, scfI_zero, h1]; rfl

theorem scfQ_first (fixer : Nat) {s : List Rat} (hs : s ≠ []) :
    ∃ a ∈ winnersQ s, scfQ fixer .first s = some [a + fixer] ∧ ∀ b ∈ winnersQ s, a ≤ b := by
  obtain ⟨a, ha, h1, h2⟩ := breakTie_first (winnersQ_sorted s) (winnersQ_nonempty hs)
  refine ⟨a, ha, ?_, h2⟩
  rw [scfQ_eq_map, scfQ_zero, h1]; rfl

theorem scfI_random (fixer : Nat) {s : List Int} {k : Nat} (hk : k < (winnersI s).length) :
    ∃ a ∈ winnersI s, scfI fixer (.random k) s = some [a + fixer] := by
  obtain ⟨a, ha, h1⟩ := breakTie_random hk
  refine ⟨a, ha, ?_⟩
  rw [scfI_eq_map, scfI_zero, h1]; rfl

theorem scfQ_random (fixer : Nat) {s : List Rat} {k : Nat} (hk : k < (winnersQ s).length) :
    ∃ a ∈ winnersQ s, scfQ fixer (.random k) s = some [a + fixer] := by
  obtain ⟨a, ha, h1⟩ := breakTie_random hk
  refine ⟨a, ha, ?_⟩
  rw [scfQ_eq_map, scfQ_zero, h1]; rfl

theorem scfI_random_none (fixer : Nat) {s : List Int} {k : Nat} (hk : (winnersI s).length ≤ k) :
    scfI fixer (.random k) s = none := by
  rw [scfI_eq_map, scfI_zero, breakTie_random_none hk]; rfl

theorem scfQ_random_none (fixer : Nat) {s : List Rat} {k : Nat} (hk : (winnersQ s).length ≤ k) :
    scfQ fixer (.random k) s = none := by
  rw [scfQ_eq_map, scfQ_zero, breakTie_random_none hk]; rfl

end Vote
