import Sck.Model.ElicitRules
import Sck.Proofs.Glue

/-! Rule-level elicitation models: the ranking `np.argsort(row)` of a row that is a permutation of `1..m`
is the inverse permutation; `posVals` / `scatter` in closed form on such rows. -/

namespace ElicitRules

theorem keyOf_map_some (row : List Nat) (j : Nat) : keyOf (row.map some) j = row.getD j 0 := by
  unfold keyOf
  rw [List.getD_eq_getElem?_getD, List.getD_eq_getElem?_getD, List.getElem?_map]
  cases row[j]? <;> rfl

theorem mem_rankedRow (row : List Nat) (j : Nat) : j ∈ rankedRow row ↔ j < row.length := by
  unfold rankedRow Elicit.rankedOf
  rw [mem_plistOfRow]
  simp only [List.length_map]
  constructor
  · exact fun h => h.1
  · intro h
    exact ⟨h, by simp [h]⟩

theorem rankedRow_nodup (row : List Nat) : (rankedRow row).Nodup := plistOfRow_nodup _

theorem rankedRow_perm (row : List Nat) : (rankedRow row).Perm (List.range row.length) := by
  rw [List.perm_ext_iff_of_nodup (rankedRow_nodup row) List.nodup_range]
  intro j
  rw [mem_rankedRow, List.mem_range]

theorem rankedRow_length (row : List Nat) : (rankedRow row).length = row.length := by
  simpa using (rankedRow_perm row).length_eq

theorem range_map_getD0 (row : List Nat) : (List.range row.length).map (fun j => row.getD j 0) = row := by
  apply List.ext_getElem
  · simp
  · intro i h1 h2
    simp at h1
    simp [h1]

/-- the ranks read along the ranking are `1, 2, …, m` -/
theorem rankedRow_keys (row : List Nat) (m : Nat) (h : row.Perm (List.range' 1 m)) :
    (rankedRow row).map (fun j => row.getD j 0) = List.range' 1 m := by
  have hp : ((rankedRow row).map (fun j => row.getD j 0)).Perm (List.range' 1 m) := by
    have := (rankedRow_perm row).map (fun j => row.getD j 0)
    rw [range_map_getD0] at this
    exact this.trans h
  have hs : ((rankedRow row).map (fun j => row.getD j 0)).Pairwise (· ≤ ·) := by
    rw [List.pairwise_map]
    have := plistOfRow_sorted (row.map some)
    exact this.imp (fun {a b} hab => by simpa [keyOf_map_some] using hab)
  have hs' : (List.range' 1 m).Pairwise (· ≤ ·) :=
    (List.pairwise_lt_range' (s := 1) (n := m)).imp (fun h => Nat.le_of_lt h)
  exact hp.eq_of_pairwise (fun a b _ _ hab hba => Nat.le_antisymm hab hba) hs hs'

theorem perm_length {row : List Nat} {m : Nat} (h : row.Perm (List.range' 1 m)) : row.length = m := by
  simpa using h.length_eq

/-- the alternative at ranking position `q` has rank `q + 1` -/
theorem rank_at_pos {row : List Nat} {m : Nat} (h : row.Perm (List.range' 1 m)) {q : Nat} (hq : q < m) :
    (rankedRow row).getD q 0 < m ∧ row.getD ((rankedRow row).getD q 0) 0 = q + 1 := by
  have hl : (rankedRow row).length = m := by rw [rankedRow_length, perm_length h]
  have hq' : q < (rankedRow row).length := hl ▸ hq
  have hget : (rankedRow row).getD q 0 = (rankedRow row)[q] := by
    rw [List.getD_eq_getElem?_getD, List.getElem?_eq_getElem hq']; rfl
  constructor
  · rw [hget, ← perm_length h, ← mem_rankedRow]
    exact List.getElem_mem hq'
  · have hk := rankedRow_keys row m h
    have : ((rankedRow row).map (fun j => row.getD j 0))[q]? = (List.range' 1 m)[q]? := by rw [hk]
    rw [List.getElem?_map, List.getElem?_eq_getElem hq', List.getElem?_range' hq] at this
    rw [hget]
    simpa [Nat.add_comm] using this

theorem row_nodup {row : List Nat} {m : Nat} (h : row.Perm (List.range' 1 m)) : row.Nodup :=
  h.nodup_iff.2 (List.nodup_range' (s := 1) (n := m))

/-- on a strict row, equal ranks mean equal alternatives -/
theorem row_inj {row : List Nat} {m : Nat} (h : row.Perm (List.range' 1 m)) {a b : Nat} (ha : a < m) (hb : b < m)
    (hab : row.getD a 0 = row.getD b 0) : a = b := by
  have hl := perm_length h
  have ha' : a < row.length := hl ▸ ha
  have hb' : b < row.length := hl ▸ hb
  rw [List.getD_eq_getElem?_getD, List.getD_eq_getElem?_getD, List.getElem?_eq_getElem ha',
    List.getElem?_eq_getElem hb'] at hab
  exact (List.Nodup.getElem_inj_iff (row_nodup h)).1 (by simpa using hab)

/-- the ranking position of alternative `j` is its rank minus one -/
theorem pos_of_alt {row : List Nat} {m : Nat} (h : row.Perm (List.range' 1 m)) {j : Nat} (hj : j < m) :
    (rankedRow row).idxOf j + 1 = row.getD j 0 ∧ (rankedRow row).idxOf j < m ∧
      (rankedRow row).getD ((rankedRow row).idxOf j) 0 = j := by
  have hl : (rankedRow row).length = m := by rw [rankedRow_length, perm_length h]
  have hmem : j ∈ rankedRow row := by rw [mem_rankedRow, perm_length h]; exact hj
  have hi : (rankedRow row).idxOf j < (rankedRow row).length := List.idxOf_lt_length_of_mem hmem
  have hget : (rankedRow row).getD ((rankedRow row).idxOf j) 0 = j := by
    rw [List.getD_eq_getElem?_getD, List.getElem?_eq_getElem hi]
    simp
  have := (rank_at_pos h (hl ▸ hi)).2
  rw [hget] at this
  exact ⟨this.symm, hl ▸ hi, hget⟩

theorem rank_pos {row : List Nat} {m : Nat} (h : row.Perm (List.range' 1 m)) {j : Nat} (hj : j < m) :
    1 ≤ row.getD j 0 ∧ row.getD j 0 ≤ m := by
  have := pos_of_alt h hj
  omega

/-- `scatter` on a strict complete row: alternative `j` gets the value of position `rank - 1` -/
theorem scatter_eq {row : List Nat} {m : Nat} (h : row.Perm (List.range' 1 m)) (f : Nat → Rat) :
    scatter row f = (List.range m).map (fun j => f (row.getD j 0 - 1)) := by
  unfold scatter
  rw [perm_length h]
  apply List.map_congr_left
  intro j hj
  have := (pos_of_alt h (List.mem_range.1 hj)).1
  congr 1
  omega

theorem scatter_length (row : List Nat) (f : Nat → Rat) : (scatter row f).length = row.length := by
  simp [scatter]

theorem scatter_getD {row : List Nat} {m : Nat} (h : row.Perm (List.range' 1 m)) (f : Nat → Rat) {j : Nat}
    (hj : j < m) : (scatter row f).getD j 0 = f (row.getD j 0 - 1) := by
  rw [scatter_eq h, List.getD_eq_getElem?_getD, List.getElem?_map, List.getElem?_range hj]
  rfl

/-- the true value at the ranking position of alternative `j` is `vrow[j]` -/
theorem posVals_at_alt {row : List Nat} {m : Nat} (h : row.Perm (List.range' 1 m)) (vrow : List Rat) {j : Nat}
    (hj : j < m) : posVals row vrow (row.getD j 0 - 1) = vrow.getD j 0 := by
  have hp := pos_of_alt h hj
  have : row.getD j 0 - 1 = (rankedRow row).idxOf j := by omega
  unfold posVals
  rw [this, hp.2.2]

/-- unfolding lemmas for evaluating concrete instances (`rankedRow` does not reduce in the kernel) -/
theorem posVals_fun (row : List Nat) (vrow : List Rat) :
    posVals row vrow = fun q => vrow.getD ((rankedRow row).getD q 0) 0 := rfl

theorem scatter_fun (row : List Nat) :
    scatter row = fun f => (List.range row.length).map (fun j => f ((rankedRow row).idxOf j)) := rfl

end ElicitRules
