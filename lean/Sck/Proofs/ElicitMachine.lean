import Sck.Model.Elicit

/-! C15: the elicitor state machine (`Elicitor.elicit` with/without memoisation), for EVERY sequence of
questions and EVERY backing function (the `k`-th answer to a question may differ from the first). -/

namespace Elicit

/-- the code's `agent += index_fixer; alternative += index_fixer` -/
def shift (fixer : Nat) (q : Nat × Nat) : Nat × Nat := (q.1 + fixer, q.2 + fixer)

theorem lookup_nil (q : Nat × Nat) : lookup [] q = none := rfl

theorem lookup_cons (k : Nat × Nat) (v : Rat) (memo : List ((Nat × Nat) × Rat)) (q : Nat × Nat) :
    lookup ((k, v) :: memo) q = if k = q then some v else lookup memo q := by
  unfold lookup
  rw [List.find?_cons]
  by_cases h : k = q
  · subst h; simp
  · have : (k == q) = false := by simpa using h
    simp [this, h]

theorem elicit_hit (fixer : Nat) (backing : Nat × Nat → Nat → Rat) (st : ElSt) (q0 : Nat × Nat) (v : Rat)
    (h : lookup st.memo (shift fixer q0) = some v) :
    elicit true fixer backing st q0 = (st, v) := by
  unfold elicit
  simp only [if_true]
  unfold shift at h
  rw [h]

theorem elicit_miss (fixer : Nat) (backing : Nat × Nat → Nat → Rat) (st : ElSt) (q0 : Nat × Nat)
    (h : lookup st.memo (shift fixer q0) = none) :
    elicit true fixer backing st q0 =
      ({ memo := (shift fixer q0, backing (shift fixer q0) (occ st.forwarded (shift fixer q0))) :: st.memo,
         count := st.count + 1,
         forwarded := st.forwarded ++ [shift fixer q0] },
       backing (shift fixer q0) (occ st.forwarded (shift fixer q0))) := by
  unfold elicit
  simp only [if_true]
  unfold shift at h ⊢
  rw [h]

theorem elicit_nomemo (fixer : Nat) (backing : Nat × Nat → Nat → Rat) (st : ElSt) (q0 : Nat × Nat) :
    elicit false fixer backing st q0 =
      ({ memo := st.memo,
         count := st.count + 1,
         forwarded := st.forwarded ++ [shift fixer q0] },
       backing (shift fixer q0) (occ st.forwarded (shift fixer q0))) := by
  unfold elicit shift
  simp

theorem runOps_nil (mz : Bool) (fixer : Nat) (backing : Nat × Nat → Nat → Rat) (st : ElSt) :
    runOps mz fixer backing st [] = (st, []) := rfl

theorem runOps_cons (mz : Bool) (fixer : Nat) (backing : Nat × Nat → Nat → Rat) (st : ElSt)
    (q : Nat × Nat) (qs : List (Nat × Nat)) :
    runOps mz fixer backing st (q :: qs) =
      ((runOps mz fixer backing (elicit mz fixer backing st q).1 qs).1,
       (elicit mz fixer backing st q).2 :: (runOps mz fixer backing (elicit mz fixer backing st q).1 qs).2) := by
  rw [runOps]

theorem runOps_answers_length (mz : Bool) (fixer : Nat) (backing : Nat × Nat → Nat → Rat) :
    ∀ (qs : List (Nat × Nat)) (st : ElSt), (runOps mz fixer backing st qs).2.length = qs.length := by
  intro qs
  induction qs with
  | nil => intro st; rfl
  | cons q qs ih => intro st; rw [runOps_cons]; simp [ih]

/-! ### the counter -/

theorem elicit_count (mz : Bool) (fixer : Nat) (backing : Nat × Nat → Nat → Rat) (st : ElSt) (q0 : Nat × Nat)
    (h : st.count = st.forwarded.length) :
    (elicit mz fixer backing st q0).1.count = (elicit mz fixer backing st q0).1.forwarded.length := by
  cases mz with
  | false => rw [elicit_nomemo]; simp [h]
  | true =>
    cases hl : lookup st.memo (shift fixer q0) with
    | some v => rw [elicit_hit _ _ _ _ v hl]; exact h
    | none => rw [elicit_miss _ _ _ _ hl]; simp [h]

theorem runOps_count (mz : Bool) (fixer : Nat) (backing : Nat × Nat → Nat → Rat) :
    ∀ (qs : List (Nat × Nat)) (st : ElSt), st.count = st.forwarded.length →
      (runOps mz fixer backing st qs).1.count = (runOps mz fixer backing st qs).1.forwarded.length := by
  intro qs
  induction qs with
  | nil => intro st h; exact h
  | cons q qs ih =>
    intro st h
    rw [runOps_cons]
    exact ih _ (elicit_count mz fixer backing st q h)

/-- `elicitation_count` equals the number of questions forwarded to the backing function (both modes). -/
theorem count_eq_forwarded (mz : Bool) (fixer : Nat) (backing : Nat × Nat → Nat → Rat) (qs : List (Nat × Nat)) :
    (runOps mz fixer backing ElSt.init qs).1.count =
      (runOps mz fixer backing ElSt.init qs).1.forwarded.length :=
  runOps_count mz fixer backing qs ElSt.init rfl

/-! ### non-memoising elicitor -/

theorem runOps_nomemo_forwarded (fixer : Nat) (backing : Nat × Nat → Nat → Rat) :
    ∀ (qs : List (Nat × Nat)) (st : ElSt),
      (runOps false fixer backing st qs).1.forwarded = st.forwarded ++ qs.map (shift fixer) := by
  intro qs
  induction qs with
  | nil => intro st; simp [runOps_nil]
  | cons q qs ih =>
    intro st
    rw [runOps_cons, ih, elicit_nomemo]
    simp

/-- a non-memoising elicitor forwards every question (shifted by `index_fixer`), in order -/
theorem nomemo_forwards_all (fixer : Nat) (backing : Nat × Nat → Nat → Rat) (qs : List (Nat × Nat)) :
    (runOps false fixer backing ElSt.init qs).1.forwarded = qs.map (shift fixer) := by
  rw [runOps_nomemo_forwarded]; rfl

/-! ### memoising elicitor -/

/-- invariant of the memoising machine -/
structure MemoInv (backing : Nat × Nat → Nat → Rat) (st : ElSt) : Prop where
  nodup : st.forwarded.Nodup
  memo_iff : ∀ q, (lookup st.memo q).isSome = true ↔ q ∈ st.forwarded
  memo_val : ∀ q v, lookup st.memo q = some v → v = backing q 0

theorem MemoInv.init (backing : Nat × Nat → Nat → Rat) : MemoInv backing ElSt.init :=
  ⟨List.nodup_nil, by intro q; simp [ElSt.init, lookup_nil], by intro q v h; simp [ElSt.init, lookup_nil] at h⟩

theorem occ_eq_zero_of_not_mem (fwd : List (Nat × Nat)) (q : Nat × Nat) (h : q ∉ fwd) : occ fwd q = 0 := by
  unfold occ
  rw [List.length_eq_zero_iff, List.filter_eq_nil_iff]
  intro a ha hc
  have : a = q := by simpa using hc
  exact h (this ▸ ha)

theorem elicit_memoInv (fixer : Nat) (backing : Nat × Nat → Nat → Rat) (st : ElSt) (q0 : Nat × Nat)
    (h : MemoInv backing st) : MemoInv backing (elicit true fixer backing st q0).1 := by
  cases hl : lookup st.memo (shift fixer q0) with
  | some v => rw [elicit_hit _ _ _ _ v hl]; exact h
  | none =>
    rw [elicit_miss _ _ _ _ hl]
    have hnot : shift fixer q0 ∉ st.forwarded := by
      intro hc
      have := (h.memo_iff _).mpr hc
      rw [hl] at this; simp at this
    refine ⟨?_, ?_, ?_⟩
    · dsimp only
      rw [List.nodup_append]
      refine ⟨h.nodup, by simp, ?_⟩
      intro a ha b hb
      simp only [List.mem_singleton] at hb
      subst hb
      intro hab; subst hab; exact hnot ha
    · intro q
      dsimp only
      rw [lookup_cons]
      by_cases hq : shift fixer q0 = q
      · subst hq; simp
      · rw [if_neg hq, h.memo_iff]
        simp only [List.mem_append, List.mem_singleton]
        constructor
        · intro hm; exact Or.inl hm
        · rintro (hm | hm)
          · exact hm
          · exact absurd hm.symm hq
    · intro q v
      dsimp only
      rw [lookup_cons]
      by_cases hq : shift fixer q0 = q
      · rw [if_pos hq]
        intro hv
        have hv' := Option.some.inj hv
        rw [← hv', occ_eq_zero_of_not_mem _ _ hnot, hq]
      · rw [if_neg hq]; exact h.memo_val q v

theorem runOps_memoInv (fixer : Nat) (backing : Nat × Nat → Nat → Rat) :
    ∀ (qs : List (Nat × Nat)) (st : ElSt), MemoInv backing st →
      MemoInv backing (runOps true fixer backing st qs).1 := by
  intro qs
  induction qs with
  | nil => intro st h; exact h
  | cons q qs ih =>
    intro st h
    rw [runOps_cons]
    exact ih _ (elicit_memoInv fixer backing st q h)

/-- a memoising elicitor never forwards the same question twice -/
theorem memo_no_duplicate_forward (fixer : Nat) (backing : Nat × Nat → Nat → Rat) (qs : List (Nat × Nat)) :
    (runOps true fixer backing ElSt.init qs).1.forwarded.Nodup :=
  (runOps_memoInv fixer backing qs ElSt.init (MemoInv.init backing)).nodup

/-- under the invariant, the answer to any question is the backing function's FIRST answer to it -/
theorem elicit_answer (fixer : Nat) (backing : Nat × Nat → Nat → Rat) (st : ElSt) (q0 : Nat × Nat)
    (h : MemoInv backing st) : (elicit true fixer backing st q0).2 = backing (shift fixer q0) 0 := by
  cases hl : lookup st.memo (shift fixer q0) with
  | some v => rw [elicit_hit _ _ _ _ v hl]; exact h.memo_val _ _ hl
  | none =>
    rw [elicit_miss _ _ _ _ hl]
    have hnot : shift fixer q0 ∉ st.forwarded := by
      intro hc
      have := (h.memo_iff _).mpr hc
      rw [hl] at this; simp at this
    dsimp only
    rw [occ_eq_zero_of_not_mem _ _ hnot]

theorem runOps_answers (fixer : Nat) (backing : Nat × Nat → Nat → Rat) :
    ∀ (qs : List (Nat × Nat)) (st : ElSt), MemoInv backing st →
      (runOps true fixer backing st qs).2 = qs.map (fun q => backing (shift fixer q) 0) := by
  intro qs
  induction qs with
  | nil => intro st _; rfl
  | cons q qs ih =>
    intro st h
    rw [runOps_cons]
    dsimp only
    rw [ih _ (elicit_memoInv fixer backing st q h), elicit_answer fixer backing st q h]
    rfl

/-- with memoisation every answer is the first answer the backing function gave to that question -/
theorem memo_answers_first (fixer : Nat) (backing : Nat × Nat → Nat → Rat) (qs : List (Nat × Nat)) :
    (runOps true fixer backing ElSt.init qs).2 = qs.map (fun q => backing (shift fixer q) 0) :=
  runOps_answers fixer backing qs ElSt.init (MemoInv.init backing)

/-- a repeated question gets the answer given the first time (no side condition on the value: also 0) -/
theorem memo_repeat_same_answer (fixer : Nat) (backing : Nat × Nat → Nat → Rat) (qs : List (Nat × Nat))
    (i j : Nat) (hi : i < qs.length) (hj : j < qs.length) (heq : qs[i] = qs[j]) :
    (runOps true fixer backing ElSt.init qs).2[i]? = (runOps true fixer backing ElSt.init qs).2[j]? ∧
    (runOps true fixer backing ElSt.init qs).2[i]? = some (backing (shift fixer qs[i]) 0) := by
  rw [memo_answers_first]
  simp [List.getElem?_map, List.getElem?_eq_getElem hi, List.getElem?_eq_getElem hj, heq]

/-! ### forwarded = questions in first-occurrence order -/

theorem filter_ne_filter_notMem (fwd : List (Nat × Nat)) (a : Nat × Nat) (l : List (Nat × Nat)) :
    (l.filter (fun q => decide (q ∉ fwd))).filter (fun b => !b == a) =
      l.filter (fun q => decide (q ∉ fwd ++ [a])) := by
  rw [List.filter_filter]
  apply List.filter_congr
  intro x _
  by_cases hx : x = a
  · subst hx; simp
  · have : (x == a) = false := by simpa using hx
    simp [this, hx]

theorem runOps_memo_forwarded (fixer : Nat) (backing : Nat × Nat → Nat → Rat) :
    ∀ (qs : List (Nat × Nat)) (st : ElSt), MemoInv backing st →
      (runOps true fixer backing st qs).1.forwarded =
        st.forwarded ++ ((qs.map (shift fixer)).filter (fun q => decide (q ∉ st.forwarded))).eraseDups := by
  intro qs
  induction qs with
  | nil => intro st _; simp [runOps_nil]
  | cons q qs ih =>
    intro st h
    rw [runOps_cons]
    dsimp only
    rw [ih _ (elicit_memoInv fixer backing st q h)]
    cases hl : lookup st.memo (shift fixer q) with
    | some v =>
      rw [elicit_hit _ _ _ _ v hl]
      have hmem : shift fixer q ∈ st.forwarded := by
        apply (h.memo_iff _).mp; rw [hl]; rfl
      rw [List.map_cons, List.filter_cons_of_neg (by simpa using hmem)]
    | none =>
      rw [elicit_miss _ _ _ _ hl]
      have hnot : shift fixer q ∉ st.forwarded := by
        intro hc
        have := (h.memo_iff _).mpr hc
        rw [hl] at this; simp at this
      dsimp only
      rw [List.map_cons, List.filter_cons_of_pos (by simpa using hnot), List.eraseDups_cons,
        filter_ne_filter_notMem, List.append_assoc]
      rfl

/-- a memoising elicitor forwards exactly the distinct questions, in first-occurrence order -/
theorem memo_forwarded_eq_dedup (fixer : Nat) (backing : Nat × Nat → Nat → Rat) (qs : List (Nat × Nat)) :
    (runOps true fixer backing ElSt.init qs).1.forwarded = (qs.map (shift fixer)).eraseDups := by
  rw [runOps_memo_forwarded fixer backing qs ElSt.init (MemoInv.init backing)]
  simp only [ElSt.init, List.nil_append, List.not_mem_nil, not_false_eq_true, decide_true]
  rw [List.filter_eq_self.mpr (fun _ _ => rfl)]

end Elicit

#print axioms Elicit.count_eq_forwarded
#print axioms Elicit.nomemo_forwards_all
#print axioms Elicit.memo_no_duplicate_forward
#print axioms Elicit.memo_repeat_same_answer
#print axioms Elicit.memo_forwarded_eq_dedup
