import Sck.Proofs.ElicitRules1
import Sck.Proofs.ElicitSim
import Sck.Proofs.VotingSym2

/-! Rule-level elicitation models: anonymity and neutrality of the k-ARV and lambda-PRV scores (C11). -/

namespace ElicitRules

open Vote

/-! ### generic list facts -/

theorem optAll_eq {α : Type} (l : List (Option α)) :
    optAll l = if l.all (·.isSome) then some (l.filterMap id) else none := by
  induction l with
  | nil => rfl
  | cons x rest ih =>
    cases x with
    | none => simp [optAll]
    | some a =>
      simp only [optAll, ih, List.all_cons, Option.isSome_some, Bool.true_and, List.filterMap_cons, id]
      split <;> rfl

theorem optAll_perm_map {α β : Type} {l l' : List (Option (List α))} (h : l.Perm l') (g : List (List α) → β)
    (hg : ∀ M M' : List (List α), M.Perm M' → g M = g M') : (optAll l).map g = (optAll l').map g := by
  rw [optAll_eq, optAll_eq, h.all_eq]
  split
  · simp only [Option.map_some]
    rw [hg _ _ (h.filterMap id)]
  · rfl

theorem optAll_map_map {α β : Type} (f : α → β) (l : List (Option α)) :
    optAll (l.map (Option.map f)) = (optAll l).map (List.map f) := by
  induction l with
  | nil => rfl
  | cons x rest ih =>
    cases x with
    | none => rfl
    | some a =>
      simp only [List.map_cons, Option.map_some, optAll, ih]
      cases optAll rest <;> rfl

theorem optAll_length {α : Type} {l : List (Option α)} {M : List α} (h : optAll l = some M) :
    M.length = l.length := by
  induction l generalizing M with
  | nil => simp [optAll] at h; subst h; rfl
  | cons x rest ih =>
    cases x with
    | none => simp [optAll] at h
    | some a =>
      simp only [optAll, Option.map_eq_some_iff] at h
      obtain ⟨M0, h0, rfl⟩ := h
      simp [ih h0]

theorem optAll_mem {α : Type} {l : List (Option α)} {M : List α} (h : optAll l = some M) {x : α} (hx : x ∈ M) :
    some x ∈ l := by
  induction l generalizing M with
  | nil => simp [optAll] at h; subst h; simp at hx
  | cons y rest ih =>
    cases y with
    | none => simp [optAll] at h
    | some a =>
      simp only [optAll, Option.map_eq_some_iff] at h
      obtain ⟨M0, h0, rfl⟩ := h
      rcases List.mem_cons.1 hx with rfl | hx'
      · simp
      · exact List.mem_cons_of_mem _ (ih h0 hx')

theorem colSums_perm {M M' : List (List Rat)} (h : M.Perm M') (m : Nat) : colSums M m = colSums M' m := by
  unfold colSums
  apply List.map_congr_left
  intro j _
  rw [sumQ_eq_sum, sumQ_eq_sum]
  exact (h.map _).sum_eq

theorem colSums_length (M : List (List Rat)) (m : Nat) : (colSums M m).length = m := by simp [colSums]

theorem zip_fst_snd {α β : Type} (l : List (α × β)) : (l.map Prod.fst).zip (l.map Prod.snd) = l := by
  have := List.zip_unzip l
  rwa [List.unzip_eq_map] at this

/-! ### reordering the voters -/

theorem thrMatrixPV_perm_colSums (floor : Rat) {PV PV' : List (List Nat × List Rat)} (h : PV.Perm PV')
    (m : Nat) (lams : List Rat) :
    (thrMatrixPV floor PV m lams).map (fun M => colSums M m) =
      (thrMatrixPV floor PV' m lams).map (fun M => colSums M m) := by
  unfold thrMatrixPV
  split
  · rfl
  · exact optAll_perm_map (h.map _) _ (fun M M' hM => colSums_perm hM m)

theorem karvScoresPV_perm {PV PV' : List (List Nat × List Rat)} (h : PV.Perm PV') (m : Nat) (lams : List Rat) :
    karvScoresPV PV m lams = karvScoresPV PV' m lams :=
  thrMatrixPV_perm_colSums 0 h m lams

theorem prvScoresPV_perm {PV PV' : List (List Nat × List Rat)} (h : PV.Perm PV') (m lam : Nat) :
    prvScoresPV PV m lam = prvScoresPV PV' m lam := by
  unfold prvScoresPV
  split
  · rfl
  · rw [colSums_perm (h.map _) m]

/-! ### the simulation only looks at positions `0 … m-1` -/

theorem cut_congr {vals vals' : Nat → ℚ} {m : Nat} (h0 : vals 0 = vals' 0) (h : ∀ q, q < m → vals q = vals' q)
    (lam : ℚ) : Elicit.cut vals m lam = Elicit.cut vals' m lam := by
  unfold Elicit.cut
  rw [← h0]
  have := bsearchQ_congr (geThr vals (vals 0 / lam)) (geThr vals' (vals 0 / lam)) (m - 0) 0 m rfl
    (fun q hq => by
      have := bsearchQ_queries_range _ (m - 0) 0 m rfl q hq
      unfold geThr
      rw [h q this.2])
  rw [this]

theorem simulate_congr (floor : ℚ) {vals vals' : Nat → ℚ} {m : Nat} (h0 : vals 0 = vals' 0)
    (h : ∀ q, q < m → vals q = vals' q) (lams : List ℚ) :
    simulate floor vals m lams = simulate floor vals' m lams := by
  unfold simulate
  rw [Elicit.simLoop_eq_G, Elicit.simLoop_eq_G]
  have hc : Elicit.cut vals m = Elicit.cut vals' m := funext (cut_congr h0 h)
  rw [hc, h0]

/-! ### renaming the alternatives, one row -/

theorem renameValRow_getD {sig : List Nat} {a b : Nat} (h : sig[a]? = some b) (vrow : List Rat) :
    (renameValRow sig vrow).getD a 0 = vrow.getD b 0 := by
  unfold renameValRow
  rw [List.getD_eq_getElem?_getD, List.getElem?_map, h]
  rfl

theorem renameValRow_length (sig : List Nat) (vrow : List Rat) : (renameValRow sig vrow).length = sig.length := by
  simp [renameValRow]

section Row

variable {sig row : List Nat} {m : Nat} (hsig : sig.Perm (List.range m)) (h : row.Perm (List.range' 1 m))
include hsig h

theorem rename_row_perm : (renameBallot sig row).Perm (List.range' 1 m) :=
  (renameBallot_perm hsig (perm_length h)).trans h

theorem posVals_rename (vrow : List Rat) {q : Nat} (hq : q < m) :
    posVals (renameBallot sig row) (renameValRow sig vrow) q = posVals row vrow q := by
  have h' := rename_row_perm hsig h
  obtain ⟨ha, hra⟩ := rank_at_pos h' hq
  obtain ⟨hb, hrb⟩ := rank_at_pos h hq
  obtain ⟨c, hc⟩ := sig_total hsig ha
  have hcm := (sig_lt hsig hc).2
  rw [renameBallot_getD hc] at hra
  have hcb : c = (rankedRow row).getD q 0 := row_inj h hcm hb (hra.trans hrb.symm)
  unfold posVals
  rw [renameValRow_getD hc, hcb]

theorem posVals_rename_zero (vrow : List Rat) (hv : vrow.length = m) :
    posVals (renameBallot sig row) (renameValRow sig vrow) 0 = posVals row vrow 0 := by
  rcases Nat.eq_zero_or_pos m with hm | hm
  · subst hm
    have hv0 : vrow = [] := List.length_eq_zero_iff.1 hv
    have hs0 : sig = [] := List.length_eq_zero_iff.1 (by simpa using hsig.length_eq)
    subst hv0 hs0
    simp [posVals, renameValRow]
  · exact posVals_rename hsig h vrow hm

theorem scatter_rename (f : Nat → Rat) :
    scatter (renameBallot sig row) f = renameValRow sig (scatter row f) := by
  have h' := rename_row_perm hsig h
  have hlen : sig.length = m := by simpa using hsig.length_eq
  rw [scatter_eq h']
  apply List.ext_getElem
  · simp [renameValRow, hlen]
  · intro a h1 h2
    have ham : a < m := by simpa using h1
    obtain ⟨c, hc⟩ := sig_total hsig ham
    have hcm := (sig_lt hsig hc).2
    have e1 : (renameValRow sig (scatter row f))[a] = (renameValRow sig (scatter row f)).getD a 0 := by
      rw [List.getD_eq_getElem?_getD, List.getElem?_eq_getElem h2]; rfl
    rw [e1, renameValRow_getD hc, scatter_getD h f hcm]
    simp only [List.getElem_map, List.getElem_range]
    rw [renameBallot_getD hc]

theorem scatter_congr {f g : Nat → Rat} (hfg : ∀ q, q < m → f q = g q) : scatter row f = scatter row g := by
  have _ := hsig
  rw [scatter_eq h, scatter_eq h]
  apply List.map_congr_left
  intro j hj
  have := rank_pos h (List.mem_range.1 hj)
  exact hfg _ (by omega)

theorem simRow_rename (floor : Rat) (vrow : List Rat) (hv : vrow.length = m) (lams : List Rat) :
    simRow floor (renameBallot sig row) (renameValRow sig vrow) m lams =
      (simRow floor row vrow m lams).map (renameValRow sig) := by
  unfold simRow
  rw [simulate_congr floor (posVals_rename_zero hsig h vrow hv) (fun q hq => posVals_rename hsig h vrow hq)]
  cases simulate floor (posVals row vrow) m lams with
  | none => rfl
  | some sim => simp only [Option.map_some]; rw [scatter_rename hsig h]

theorem prvRow_rename (vrow : List Rat) (lam : Nat) :
    prvRow (renameBallot sig row) (renameValRow sig vrow) lam = renameValRow sig (prvRow row vrow lam) := by
  unfold prvRow
  rw [← scatter_rename hsig h]
  apply scatter_congr hsig (rename_row_perm hsig h)
  intro q hq
  unfold Elicit.prvAgent
  rw [posVals_rename hsig h vrow hq]

end Row

/-! ### renaming the alternatives, whole rule -/

/-- the renamed list of (ballot, valuation row) pairs -/
def renamePV (sig : List Nat) (PV : List (List Nat × List Rat)) : List (List Nat × List Rat) :=
  PV.map (fun pv => (renameBallot sig pv.1, renameValRow sig pv.2))

theorem zip_rename (sig : List Nat) (P : List (List Nat)) (V : List (List Rat)) :
    (renameProfile sig P).zip (renameValsQ sig V) = renamePV sig (P.zip V) := by
  unfold renameProfile renameValsQ renamePV
  rw [List.zip_map]
  rfl

theorem colSums_rename {sig : List Nat} {m : Nat} (hsig : sig.Perm (List.range m)) (M : List (List Rat)) :
    colSums (M.map (renameValRow sig)) m = renameValRow sig (colSums M m) := by
  have hlen : sig.length = m := by simpa using hsig.length_eq
  apply List.ext_getElem
  · simp [colSums, renameValRow, hlen]
  · intro a h1 h2
    have ham : a < m := by simpa [colSums] using h1
    obtain ⟨c, hc⟩ := sig_total hsig ham
    have hcm := (sig_lt hsig hc).2
    have e1 : (renameValRow sig (colSums M m))[a] = (renameValRow sig (colSums M m)).getD a 0 := by
      rw [List.getD_eq_getElem?_getD, List.getElem?_eq_getElem h2]; rfl
    rw [e1, renameValRow_getD hc]
    unfold colSums
    rw [List.getD_eq_getElem?_getD, List.getElem?_map, List.getElem?_range hcm]
    simp only [List.getElem_map, List.getElem_range, List.map_map, Option.map_some, Option.getD_some]
    congr 1
    apply List.map_congr_left
    intro r _
    exact renameValRow_getD hc r

theorem thrMatrixPV_rename (floor : Rat) {sig : List Nat} {m : Nat} (hsig : sig.Perm (List.range m))
    {PV : List (List Nat × List Rat)} (hPV : ∀ pv ∈ PV, pv.1.Perm (List.range' 1 m) ∧ pv.2.length = m)
    (lams : List Rat) :
    thrMatrixPV floor (renamePV sig PV) m lams =
      (thrMatrixPV floor PV m lams).map (fun M => M.map (renameValRow sig)) := by
  unfold thrMatrixPV
  split
  · rfl
  · rw [← optAll_map_map]
    congr 1
    unfold renamePV
    rw [List.map_map, List.map_map]
    apply List.map_congr_left
    intro pv hpv
    obtain ⟨h1, h2⟩ := hPV pv hpv
    exact simRow_rename hsig h1 floor pv.2 h2 lams

theorem karvScoresPV_rename {sig : List Nat} {m : Nat} (hsig : sig.Perm (List.range m))
    {PV : List (List Nat × List Rat)} (hPV : ∀ pv ∈ PV, pv.1.Perm (List.range' 1 m) ∧ pv.2.length = m)
    (lams : List Rat) :
    karvScoresPV (renamePV sig PV) m lams = (karvScoresPV PV m lams).map (renameValRow sig) := by
  unfold karvScoresPV karvMatrixPV
  rw [thrMatrixPV_rename 0 hsig hPV]
  cases thrMatrixPV 0 PV m lams with
  | none => rfl
  | some M => simp only [Option.map_some]; rw [colSums_rename hsig]

theorem prvScoresPV_rename {sig : List Nat} {m : Nat} (hsig : sig.Perm (List.range m))
    {PV : List (List Nat × List Rat)} (hPV : ∀ pv ∈ PV, pv.1.Perm (List.range' 1 m) ∧ pv.2.length = m)
    (lam : Nat) :
    prvScoresPV (renamePV sig PV) m lam = (prvScoresPV PV m lam).map (renameValRow sig) := by
  unfold prvScoresPV
  split
  · rfl
  · simp only [Option.map_some]
    rw [← colSums_rename hsig]
    congr 2
    unfold renamePV
    rw [List.map_map, List.map_map]
    apply List.map_congr_left
    intro pv hpv
    exact prvRow_rename hsig (hPV pv hpv).1 pv.2 lam

theorem hPV_of_zip {P : List (List Nat)} {V : List (List Rat)} {m : Nat} (hP : wfB P m = true)
    (hV : ∀ r ∈ V, r.length = m) : ∀ pv ∈ P.zip V, pv.1.Perm (List.range' 1 m) ∧ pv.2.length = m := by
  intro pv hpv
  obtain ⟨h1, h2⟩ := List.of_mem_zip (a := pv.1) (b := pv.2) hpv
  exact ⟨wfB_iff.1 hP _ h1, hV _ h2⟩

/-- entrywise form of "the scores are renamed" plus the winner sets -/
theorem renamed_scores_spec {sig : List Nat} {m : Nat} (hsig : sig.Perm (List.range m)) {s : List Rat}
    (hs : s.length = m) :
    (renameValRow sig s).length = m ∧
    (∀ a b : Nat, sig[a]? = some b → (renameValRow sig s)[a]? = s[b]?) ∧
    (∀ a b : Nat, sig[a]? = some b → (a ∈ winnersQ (renameValRow sig s) ↔ b ∈ winnersQ s)) := by
  have hlen : sig.length = m := by simpa using hsig.length_eq
  have hl : (renameValRow sig s).length = m := by rw [renameValRow_length, hlen]
  have hrel : ∀ a b : Nat, sig[a]? = some b → (renameValRow sig s)[a]? = s[b]? := by
    intro a b hab
    have hbm := (sig_lt hsig hab).2
    unfold renameValRow
    rw [List.getElem?_map, hab, Option.map_some, List.getD_eq_getElem?_getD,
      List.getElem?_eq_getElem (hs ▸ hbm)]
    rfl
  exact ⟨hl, hrel, fun a b hab => winnersQ_rename hsig hs hl hrel hab⟩

end ElicitRules
