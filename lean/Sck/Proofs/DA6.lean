import Sck.Proofs.DA5

structure FeasibleDA (I : DA) (nu : List (Nat × Nat)) : Prop where
  nodup : nu.Nodup
  acc : ∀ p r, (p, r) ∈ nu → (∃ i : Nat, (I.plist p)[i]? = some r) ∧ ∃ a, I.rrank r p = some a
  capR : ∀ r, (heldBy nu r).length ≤ I.qr r
  capP : ∀ p, (matchesOf nu p).length ≤ I.qp p

def StableDA (I : DA) (nu : List (Nat × Nat)) : Prop :=
  FeasibleDA I nu ∧ ∀ p r, ¬ BlockingDA I nu p r

/-- every proposal already made and not currently held is absent from every stable matching -/
def Opt (I : DA) (st : St) : Prop :=
  ∀ nu, StableDA I nu → ∀ p (i : Nat) r, i < st.ptr p → (I.plist p)[i]? = some r →
    (p, r) ∉ st.mu → (p, r) ∉ nu

theorem init_opt (I : DA) : Opt I St.init := by
  intro nu _ p i r hi; simp [St.init] at hi

theorem step_opt (I : DA) (hwf : WF I) (st : St) (p : Nat) (hinv : DAInv I st) (hcap : CapP I st)
    (hact : (matchesOf st.mu p).length < I.qp p) (hopt : Opt I st) : Opt I (step I st p) := by
  have hinv' := step_inv I hwf st p hinv
  have hcap' := step_capP I st p hcap hact
  intro nu hst q0 i r0 hi hir hnm hin
  -- old rejections are handled by the hypothesis
  by_cases hold : i < st.ptr q0 ∧ (q0, r0) ∉ st.mu
  · exact hopt nu hst q0 i r0 hold.1 hir hold.2 hin
  -- otherwise this is the rejection performed by this very step, at the step's receiver
  have hr : (I.plist p)[st.ptr p]? = some r0 := by
    by_cases hlt : i < st.ptr q0
    · have hmem : (q0, r0) ∈ st.mu := by
        by_contra hc; exact hold ⟨hlt, hc⟩
      obtain ⟨r, hr, he⟩ := step_mu_lost I st p _ hmem hnm
      simp at he; rw [he]; exact hr
    · have hq : q0 = p := by
        by_contra hne
        rw [step_ptr_other I st p q0 hne] at hi; exact hlt hi
      subst hq
      rcases step_ptr_self I st q0 with h | ⟨h, r, hr⟩
      · rw [h] at hi; exact absurd hi hlt
      · rw [h] at hi
        have : i = st.ptr q0 := by omega
        subst this; exact hir
  obtain ⟨_, a, ha⟩ := hst.1.acc q0 r0 hin
  obtain ⟨hfull, hbetter⟩ := hinv'.rej q0 i r0 a hi hir ha hnm
  -- pigeonhole: someone held by r0 now is not matched to r0 in nu
  have hpig : ∃ p', p' ∈ heldBy (step I st p).mu r0 ∧ (p', r0) ∉ nu := by
    by_contra hno
    have hall : ∀ p' ∈ heldBy (step I st p).mu r0, (p', r0) ∈ nu := by
      intro p' hp'; by_contra hc; exact hno ⟨p', hp', hc⟩
    have hq0 : q0 ∉ heldBy (step I st p).mu r0 := fun h => hnm (mem_heldBy.mp h)
    have hnd : (q0 :: heldBy (step I st p).mu r0).Nodup :=
      List.nodup_cons.mpr ⟨hq0, heldBy_nodup hinv'.nodup r0⟩
    have hsub : (q0 :: heldBy (step I st p).mu r0) ⊆ heldBy nu r0 := by
      intro x hx; simp at hx
      rcases hx with rfl | hx
      · exact mem_heldBy.mpr hin
      · exact mem_heldBy.mpr (hall x hx)
    have := List.Nodup.length_le_of_subset hnd hsub
    have := hst.1.capR r0
    simp at *; omega
  obtain ⟨p', hp', hp'nu⟩ := hpig
  have hp'mem : (p', r0) ∈ (step I st p).mu := mem_heldBy.mp hp'
  obtain ⟨k, hk, hkr⟩ := hinv'.before p' r0 hp'mem
  obtain ⟨b, hb, hba⟩ := hbetter p' hp'
  -- (p', r0) blocks nu
  apply hst.2 p' r0
  refine ⟨⟨k, hkr⟩, hp'nu, ?_, b, hb, Or.inr ⟨q0, mem_heldBy.mpr hin, a, ha, hba⟩⟩
  by_contra hneg
  have hge : I.qp p' ≤ (matchesOf nu p').length := by
    by_contra hc; exact hneg (Or.inl (by omega))
  have hnopref : ∀ r' ∈ matchesOf nu p', ¬ prefersP I p' r0 r' := by
    intro r' hr' hpref; exact hneg (Or.inr ⟨r', hr', hpref⟩)
  have hkptr : k ≤ st.ptr p' := by
    by_cases hpp : p' = p
    · subst hpp
      rcases step_ptr_self I st p' with h | ⟨h, _⟩ <;> rw [h] at hk <;> omega
    · rw [step_ptr_other I st p p' hpp] at hk; omega
  have hkeep : ∀ r' ∈ matchesOf nu p', r' ∈ matchesOf (step I st p).mu p' ∧ r' ≠ r0 := by
    intro r' hr'
    have hr'nu : (p', r') ∈ nu := mem_matchesOf.mp hr'
    have hne : r' ≠ r0 := by intro h; subst h; exact hp'nu hr'nu
    obtain ⟨⟨j, hj⟩, _⟩ := hst.1.acc p' r' hr'nu
    have hjk : j < k := by
      have h1 : ¬ (k < j) := fun hlt => hnopref r' hr' ⟨k, j, hlt, hkr, hj⟩
      have h2 : j ≠ k := by
        intro h; subst h; rw [hkr] at hj; simp at hj; exact hne hj.symm
      omega
    have hold' : (p', r') ∈ st.mu := by
      by_contra hc
      exact hopt nu hst p' j r' (by omega) hj hc hr'nu
    refine ⟨mem_matchesOf.mpr ?_, hne⟩
    by_contra hc
    obtain ⟨r, hr2, he⟩ := step_mu_lost I st p _ hold' hc
    rw [hr] at hr2; simp at hr2 he; exact hne (he.trans hr2.symm)
  have hnd : (r0 :: matchesOf nu p').Nodup :=
    List.nodup_cons.mpr ⟨fun h => (hkeep r0 h).2 rfl, matchesOf_nodup hst.1.nodup p'⟩
  have hsub : (r0 :: matchesOf nu p') ⊆ matchesOf (step I st p).mu p' := by
    intro x hx; simp at hx
    rcases hx with rfl | hx
    · exact mem_matchesOf.mpr hp'mem
    · exact (hkeep x hx).1
  have h1 := List.Nodup.length_le_of_subset hnd hsub
  have h2 := hcap' p'
  simp at h1; omega

#print axioms step_opt
