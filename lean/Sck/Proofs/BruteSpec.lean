import Sck.Model.BruteSpec
import Sck.Proofs.CertProof
import Mathlib.Data.List.Perm.Basic
import Mathlib.Data.List.Perm.Subperm
import Mathlib.Data.List.Nodup
import Mathlib.Data.List.OfFn
import Mathlib.Data.Nat.Factorial.Basic
import Mathlib.Algebra.BigOperators.Fin
import Mathlib.Order.Defs.LinearOrder

/-! Brute-force reference (C04, C03/C17), part 1: `perms n` is exactly the set of permutations of `0..n-1` (complete, duplicate-free,
`n!` long), the correspondence between such lists and `Equiv.Perm (Fin n)`, the specification of `maxOf`, and the list
values `assignValueFrom` / `matchValueFrom` as `Fin n` sums. -/

open Finset

namespace Brute

/-! ### `perms` -/

theorem mem_inserts (a : Nat) (l t : List Nat) :
    t ∈ inserts a l ↔ ∃ s r, l = s ++ r ∧ t = s ++ a :: r := by
  induction l generalizing t with
  | nil =>
    simp only [inserts, List.mem_singleton]
    constructor
    · rintro rfl; exact ⟨[], [], rfl, rfl⟩
    · rintro ⟨s, r, h, rfl⟩
      have := List.append_eq_nil_iff.mp h.symm
      simp [this.1, this.2]
  | cons b l ih =>
    simp only [inserts, List.mem_cons, List.mem_map]
    constructor
    · rintro (rfl | ⟨t', ht', rfl⟩)
      · exact ⟨[], b :: l, rfl, rfl⟩
      · obtain ⟨s, r, rfl, rfl⟩ := (ih t').mp ht'
        exact ⟨b :: s, r, rfl, rfl⟩
    · rintro ⟨s, r, h, rfl⟩
      cases s with
      | nil => left; simp at h; simp [h]
      | cons c s =>
        simp only [List.cons_append, List.cons.injEq] at h
        obtain ⟨rfl, rfl⟩ := h
        right
        exact ⟨s ++ a :: r, (ih _).mpr ⟨s, r, rfl, rfl⟩, rfl⟩

theorem mem_permsOf (l t : List Nat) : t ∈ permsOf l ↔ t.Perm l := by
  induction l generalizing t with
  | nil => simp [permsOf]
  | cons a l ih =>
    simp only [permsOf, List.mem_flatMap, mem_inserts]
    constructor
    · rintro ⟨p, hp, s, r, rfl, rfl⟩
      exact List.perm_middle.trans (((ih _).mp hp).cons a)
    · intro h
      have ha : a ∈ t := h.symm.subset (List.mem_cons_self)
      obtain ⟨s, r, rfl⟩ := List.append_of_mem ha
      refine ⟨s ++ r, (ih _).mpr ?_, s, r, rfl, rfl⟩
      exact (List.perm_cons a).mp (List.perm_middle.symm.trans h)

theorem perms_complete (n : Nat) (σ : List Nat) : σ ∈ perms n ↔ σ.Perm (List.range n) := mem_permsOf _ _

theorem perm_range_iff (n : Nat) (σ : List Nat) :
    σ.Perm (List.range n) ↔ σ.length = n ∧ σ.Nodup ∧ ∀ x ∈ σ, x < n := by
  constructor
  · intro h
    refine ⟨by simpa using h.length_eq, h.nodup_iff.mpr List.nodup_range, fun x hx => ?_⟩
    simpa using h.subset hx
  · rintro ⟨hl, hnd, hlt⟩
    have hsub : σ ⊆ List.range n := fun x hx => by simpa using hlt x hx
    exact (List.subperm_of_subset hnd hsub).perm_of_length_le (by simp [hl])

theorem length_inserts (a : Nat) (l : List Nat) : (inserts a l).length = l.length + 1 := by
  induction l with
  | nil => rfl
  | cons b l ih => simp [inserts, ih]

theorem length_of_mem_permsOf {l t : List Nat} (h : t ∈ permsOf l) : t.length = l.length :=
  ((mem_permsOf l t).mp h).length_eq

theorem length_flatMap_const {α β : Type} (L : List α) (f : α → List β) (c : Nat)
    (h : ∀ x ∈ L, (f x).length = c) : (L.flatMap f).length = L.length * c := by
  induction L with
  | nil => simp
  | cons x L ih =>
    rw [List.flatMap_cons, List.length_append, h x List.mem_cons_self,
      ih (fun y hy => h y (List.mem_cons_of_mem _ hy)), List.length_cons]
    rw [Nat.succ_mul, Nat.add_comm]

theorem length_permsOf (l : List Nat) : (permsOf l).length = l.length.factorial := by
  induction l with
  | nil => rfl
  | cons a l ih =>
    rw [permsOf, length_flatMap_const _ _ (l.length + 1), ih, List.length_cons, Nat.factorial_succ, Nat.mul_comm]
    intro p hp
    rw [length_inserts, length_of_mem_permsOf hp]

theorem perms_length (n : Nat) : (perms n).length = n.factorial := by
  simp [perms, length_permsOf]

theorem erase_of_mem_inserts {a : Nat} {p t : List Nat} (ha : a ∉ p) (h : t ∈ inserts a p) : t.erase a = p := by
  obtain ⟨s, r, rfl, rfl⟩ := (mem_inserts a p t).mp h
  have hs : a ∉ s := fun h => ha (List.mem_append_left _ h)
  rw [List.erase_append_right _ hs, List.erase_cons_head]

theorem nodup_inserts {a : Nat} {p : List Nat} (ha : a ∉ p) : (inserts a p).Nodup := by
  induction p with
  | nil => simp [inserts]
  | cons b l ih =>
    have hab : a ≠ b := fun h => ha (h ▸ List.mem_cons_self)
    have hal : a ∉ l := fun h => ha (List.mem_cons_of_mem _ h)
    rw [inserts, List.nodup_cons]
    constructor
    · simp only [List.mem_map, not_exists, not_and]
      intro t _ h
      simp only [List.cons.injEq] at h
      exact hab h.1.symm
    · exact (ih hal).map (fun x y h => by simpa using h)

theorem nodup_permsOf {l : List Nat} (h : l.Nodup) : (permsOf l).Nodup := by
  induction l with
  | nil => simp [permsOf]
  | cons a l ih =>
    rw [List.nodup_cons] at h
    have hmem : ∀ p ∈ permsOf l, a ∉ p := fun p hp hap => h.1 (((mem_permsOf l p).mp hp).subset hap)
    rw [permsOf, List.nodup_flatMap]
    refine ⟨fun p hp => nodup_inserts (hmem p hp), ?_⟩
    refine (ih h.2).pairwise_of_forall_ne (fun p hp q hq hpq => ?_)
    intro t htp htq
    exact hpq ((erase_of_mem_inserts (hmem p hp) htp).symm.trans (erase_of_mem_inserts (hmem q hq) htq))

theorem perms_nodup (n : Nat) : (perms n).Nodup := nodup_permsOf List.nodup_range

/-! ### lists that are permutations of `0..n-1` and `Equiv.Perm (Fin n)` -/

theorem isPermWith_invPerm {n : Nat} {σ : List Nat} (h : σ.Perm (List.range n)) :
    isPermWith n σ (invPerm n σ) = true := by
  obtain ⟨hl, hnd, hlt⟩ := (perm_range_iff n σ).mp h
  have hmem : ∀ j, j < n → j ∈ σ := fun j hj => h.symm.subset (by simpa using hj)
  simp only [isPermWith, Bool.and_eq_true, beq_iff_eq, allLt_iff, decide_eq_true_eq]
  refine ⟨⟨⟨hl, by simp [invPerm]⟩, ?_⟩, ?_⟩
  · intro i hi
    have hi' : i < σ.length := hl ▸ hi
    have h1 : σ.getD i n = σ[i] := by simp [List.getD_eq_getElem?_getD, hi']
    have h2 : σ[i] < n := hlt _ (List.getElem_mem hi')
    refine ⟨by rw [h1]; exact h2, ?_⟩
    rw [h1]
    simp [invPerm, List.getD_eq_getElem?_getD, h2, hnd.idxOf_getElem]
  · intro j hj
    have h1 : (invPerm n σ).getD j n = σ.idxOf j := by
      simp [invPerm, List.getD_eq_getElem?_getD, hj]
    have h2 : σ.idxOf j < σ.length := List.idxOf_lt_length_iff.mpr (hmem j hj)
    rw [h1]
    refine ⟨hl ▸ h2, ?_⟩
    simp [List.getD_eq_getElem?_getD, h2]

/-- the permutation of `Fin n` denoted by a list that is a permutation of `0..n-1` -/
def permOfList (n : Nat) (σ : List Nat) (h : σ.Perm (List.range n)) : Equiv.Perm (Fin n) :=
  permOfLists n σ (invPerm n σ) (isPermWith_invPerm h)

theorem permOfList_apply (n : Nat) (σ : List Nat) (h : σ.Perm (List.range n)) (i : Fin n) :
    ((permOfList n σ h i : Fin n) : Nat) = σ.getD i n := rfl

theorem permOfList_symm_apply (n : Nat) (σ : List Nat) (h : σ.Perm (List.range n)) (j : Fin n) :
    (((permOfList n σ h).symm j : Fin n) : Nat) = (invPerm n σ).getD j n := rfl

/-- the list denoting a permutation of `Fin n` -/
def listOfPerm {n : Nat} (ν : Equiv.Perm (Fin n)) : List Nat := List.ofFn (fun i => ((ν i : Fin n) : Nat))

theorem listOfPerm_perm {n : Nat} (ν : Equiv.Perm (Fin n)) : (listOfPerm ν).Perm (List.range n) := by
  rw [perm_range_iff]
  refine ⟨by simp [listOfPerm], ?_, ?_⟩
  · exact List.nodup_ofFn.mpr (fun a b hab => ν.injective (Fin.ext hab))
  · intro x hx
    obtain ⟨i, rfl⟩ := (List.mem_ofFn' _ _).mp hx
    exact (ν i).2

theorem listOfPerm_getD {n : Nat} (ν : Equiv.Perm (Fin n)) (i : Fin n) :
    (listOfPerm ν).getD i n = ν i := by
  simp [listOfPerm, List.getD_eq_getElem?_getD]

theorem permOfList_listOfPerm {n : Nat} (ν : Equiv.Perm (Fin n)) :
    permOfList n (listOfPerm ν) (listOfPerm_perm ν) = ν := by
  ext i
  rw [permOfList_apply, listOfPerm_getD]

theorem listOfPerm_permOfList (n : Nat) (σ : List Nat) (h : σ.Perm (List.range n)) :
    listOfPerm (permOfList n σ h) = σ := by
  have hl : σ.length = n := ((perm_range_iff n σ).mp h).1
  apply List.ext_getElem
  · simp [listOfPerm, hl]
  · intro i h1 h2
    simp only [listOfPerm, List.getElem_ofFn]
    have hi : i < n := by simpa [listOfPerm] using h1
    have := permOfList_apply n σ h ⟨i, hi⟩
    rw [this]
    simp [List.getD_eq_getElem?_getD, h2]

/-! ### `maxOf` and the value functions -/

theorem maxOf_eq_none {α : Type} (le : α → α → Bool) (l : List α) : maxOf le l = none ↔ l = [] := by
  cases l with
  | nil => simp [maxOf]
  | cons a l =>
    simp only [maxOf, reduceCtorEq, iff_false]
    split <;> simp

theorem maxOf_eq_some {α : Type} [LinearOrder α] (le : α → α → Bool) (hle : ∀ a b, le a b = true ↔ a ≤ b)
    (l : List α) (v : α) : maxOf le l = some v ↔ v ∈ l ∧ ∀ x ∈ l, x ≤ v := by
  induction l generalizing v with
  | nil => simp [maxOf]
  | cons a l ih =>
    simp only [maxOf]
    split
    · rename_i hn
      have : l = [] := (maxOf_eq_none le l).mp hn
      subst this
      simp only [Option.some.injEq, List.mem_singleton, forall_eq]
      constructor
      · rintro rfl; exact ⟨rfl, le_refl _⟩
      · rintro ⟨rfl, _⟩; rfl
    · rename_i b hb
      obtain ⟨hbl, hbmax⟩ := (ih b).mp hb
      simp only [Option.some.injEq, List.mem_cons, forall_eq_or_imp]
      by_cases hab : le a b = true
      · have hab' := (hle a b).mp hab
        simp only [hab, if_true]
        constructor
        · rintro rfl; exact ⟨Or.inr hbl, hab', hbmax⟩
        · rintro ⟨hv | hv, hav, hmax⟩
          · subst hv; exact le_antisymm (hmax b hbl) hab'
          · exact le_antisymm (hmax b hbl) (hbmax v hv)
      · have hab' : b < a := not_le.mp (fun h => hab ((hle a b).mpr h))
        simp only [hab]
        constructor
        · rintro rfl; exact ⟨Or.inl rfl, le_refl _, fun x hx => (hbmax x hx).trans hab'.le⟩
        · rintro ⟨hv | hv, hav, hmax⟩
          · exact hv.symm
          · exact le_antisymm hav ((hbmax v hv).trans hab'.le)

/-- value of a list assignment as a `Fin n` sum -/
theorem assignValueFrom_eq_some (W : List (List (Option Rat))) (n : Nat) (d : Nat) (σ : List Nat) (k : Nat) (v : Rat)
    (hl : σ.length = n) :
    assignValueFrom W k σ = some v ↔
      (∀ i : Fin n, (entry W (k + i) (σ.getD i d)).isSome) ∧
      v = ∑ i : Fin n, (entry W (k + i) (σ.getD i d)).getD 0 := by
  induction σ generalizing n k v with
  | nil =>
    subst hl
    constructor
    · intro h
      simp only [assignValueFrom, Option.some.injEq] at h
      subst h; simp
    · rintro ⟨_, h⟩
      simp only [List.length_nil, Finset.univ_eq_empty, Finset.sum_empty] at h
      simp [assignValueFrom, h]
  | cons j rest ih =>
    subst hl
    simp only [List.length_cons, Fin.forall_fin_succ, Fin.sum_univ_succ, Fin.val_zero, Fin.val_succ,
      Nat.add_zero, List.getD_cons_zero, List.getD_cons_succ]
    simp only [← Nat.add_assoc]
    have ih' := fun v => ih rest.length (k + 1) v rfl
    simp only [Nat.add_right_comm k 1] at ih'
    rw [assignValueFrom]
    cases hx : entry W k j with
    | none => simp
    | some x =>
      cases hs : assignValueFrom W (k + 1) rest with
      | none =>
        simp only [reduceCtorEq, Option.isSome_some, true_and, Option.getD_some, false_iff, not_and]
        intro hall hv
        have := (ih' _).mpr ⟨hall, rfl⟩
        rw [hs] at this; cases this
      | some s =>
        obtain ⟨hall, hsv⟩ := (ih' s).mp hs
        simp only [Option.some.injEq, Option.isSome_some, true_and, Option.getD_some, hall, implies_true, ← hsv]
        exact eq_comm

/-- value of a list matching as a `Fin n` sum -/
theorem matchValueFrom_eq (V1 V2 : List (List Int)) (n : Nat) (d : Nat) (σ : List Nat) (k : Nat)
    (hl : σ.length = n) :
    matchValueFrom V1 V2 k σ =
      ∑ i : Fin n, (intOf V1 (k + i) (σ.getD i d) + intOf V2 (σ.getD i d) (k + i)) := by
  induction σ generalizing n k with
  | nil => subst hl; simp [matchValueFrom]
  | cons j rest ih =>
    subst hl
    simp only [List.length_cons, Fin.sum_univ_succ, Fin.val_zero, Fin.val_succ,
      Nat.add_zero, List.getD_cons_zero, List.getD_cons_succ]
    simp only [← Nat.add_assoc]
    have ih' := ih rest.length (k + 1) rfl
    simp only [Nat.add_right_comm k 1] at ih'
    rw [matchValueFrom, ih']

end Brute
