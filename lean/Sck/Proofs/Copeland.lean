import Sck.Model.C12Spec
import Mathlib.Data.List.Nodup
import Mathlib.Tactic.Linarith

/-! C12, Copeland half: the model's Copeland score is (#alternatives beaten) − (#alternatives that beat it),
and a Condorcet winner is the unique Copeland winner. -/

namespace C12
open Vote

/-! ### sums -/

theorem foldl_add_init (l : List Int) (z : Int) : l.foldl (· + ·) z = z + l.foldl (· + ·) 0 := by
  induction l generalizing z with
  | nil => simp
  | cons a l ih => rw [List.foldl_cons, List.foldl_cons, ih (z + a), ih (0 + a)]; omega

theorem sumI_nil : sumI [] = 0 := rfl

theorem sumI_cons (a : Int) (l : List Int) : sumI (a :: l) = a + sumI l := by
  unfold sumI
  rw [List.foldl_cons, foldl_add_init]; omega

theorem sumI_append (l₁ l₂ : List Int) : sumI (l₁ ++ l₂) = sumI l₁ + sumI l₂ := by
  induction l₁ with
  | nil => simp [sumI_nil]
  | cons a l ih => rw [List.cons_append, sumI_cons, sumI_cons, ih]; omega

/-- a sum of `+1 / −1 / 0` contributions counts the `+1`s minus the `−1`s -/
theorem sumI_pm {α : Type} (l : List α) (p q : α → Bool) (hpq : ∀ x ∈ l, ¬ (p x = true ∧ q x = true)) :
    sumI (l.map (fun x => if p x then (1 : Int) else if q x then -1 else 0)) =
      ((l.filter p).length : Int) - ((l.filter q).length : Int) := by
  induction l with
  | nil => simp [sumI_nil]
  | cons a l ih =>
    have ih' := ih (fun x hx => hpq x (by simp [hx]))
    have ha := hpq a (by simp)
    rw [List.map_cons, sumI_cons, ih']
    by_cases h1 : p a = true <;> by_cases h2 : q a = true
    · exact absurd ⟨h1, h2⟩ ha
    · rw [List.filter_cons_of_pos h1, List.filter_cons_of_neg h2, if_pos h1, List.length_cons]; omega
    · rw [List.filter_cons_of_neg h1, List.filter_cons_of_pos h2, if_neg h1, if_pos h2, List.length_cons]; omega
    · rw [List.filter_cons_of_neg h1, List.filter_cons_of_neg h2, if_neg h1, if_neg h2]; omega

/-! ### pairwise majorities -/

/-- number of voters ranking `a` strictly above `b` (smaller rank number) -/
def prefCount (P : Profile) (a b : Nat) : Nat :=
  (P.filter (fun row => decide (row.getD a 0 < row.getD b 0))).length

/-- strictly more voters rank `a` above `b` than `b` above `a` -/
def beats (P : Profile) (a b : Nat) : Prop := prefCount P b a < prefCount P a b

instance (P : Profile) (a b : Nat) : Decidable (beats P a b) := by unfold beats; infer_instance

theorem sgn_sub (x y : Nat) :
    sgn ((y : Int) - (x : Int)) = if decide (x < y) then 1 else if decide (y < x) then -1 else 0 := by
  unfold sgn
  by_cases h1 : x < y
  · have : (0 : Int) < (y : Int) - (x : Int) := by omega
    simp [h1]
  · by_cases h2 : y < x
    · have h3 : ¬ (0 : Int) < (y : Int) - (x : Int) := by omega
      have h4 : (y : Int) - (x : Int) < 0 := by omega
      simp [h1, h2, h4]
    · have h3 : ¬ (0 : Int) < (y : Int) - (x : Int) := by omega
      have h4 : ¬ (y : Int) - (x : Int) < 0 := by omega
      simp [h1, h2, h4]

/-- the model's pairwise net preference is the difference of the two head-to-head counts -/
theorem copelandNet_eq (P : Profile) (a b : Nat) :
    copelandNet P a b = (prefCount P a b : Int) - (prefCount P b a : Int) := by
  unfold copelandNet prefCount
  have := sumI_pm P (fun row => decide (row.getD a 0 < row.getD b 0))
    (fun row => decide (row.getD b 0 < row.getD a 0))
    (fun row _ h => by simp only [decide_eq_true_eq] at h; omega)
  rw [← this]
  congr 1
  apply List.map_congr_left
  intro row _
  exact sgn_sub _ _

/-- each voter with a strict ballot contributes `+1` or `−1` to the net preference between two different
alternatives (and `0` between an alternative and itself) -/
theorem ballot_contrib (row : List Nat) (a b : Nat) (hnd : row.Nodup) (ha : a < row.length)
    (hb : b < row.length) (hab : a ≠ b) :
    sgn ((row.getD b 0 : Int) - (row.getD a 0 : Int)) = 1 ∨
      sgn ((row.getD b 0 : Int) - (row.getD a 0 : Int)) = -1 := by
  have hne : row.getD a 0 ≠ row.getD b 0 := by
    simp only [List.getD_eq_getElem?_getD, List.getElem?_eq_getElem ha, List.getElem?_eq_getElem hb,
      Option.getD_some]
    intro h
    exact hab ((List.Nodup.getElem_inj_iff hnd).mp h)
  generalize row.getD a 0 = x at hne ⊢
  generalize row.getD b 0 = y at hne ⊢
  rw [sgn_sub]
  by_cases h1 : x < y
  · left; simp [h1]
  · right
    have h2 : y < x := by omega
    simp [h1, h2]

theorem ballot_contrib_self (row : List Nat) (a : Nat) :
    sgn ((row.getD a 0 : Int) - (row.getD a 0 : Int)) = 0 := by
  rw [sgn_sub]; simp

theorem copelandNet_pos_iff (P : Profile) (a b : Nat) : 0 < copelandNet P a b ↔ beats P a b := by
  rw [copelandNet_eq]; unfold beats; omega

theorem copelandNet_neg_iff (P : Profile) (a b : Nat) : copelandNet P a b < 0 ↔ beats P b a := by
  rw [copelandNet_eq]; unfold beats; omega

theorem beats_irrefl (P : Profile) (a : Nat) : ¬ beats P a a := by unfold beats; omega

theorem beats_asymm (P : Profile) (a b : Nat) : beats P a b → ¬ beats P b a := by unfold beats; omega

/-! ### the score -/

theorem copeland_length (P : Profile) (m : Nat) : (copeland P m).length = m := by simp [copeland]

theorem sgn_net (P : Profile) (a b : Nat) :
    sgn (copelandNet P a b) =
      if decide (beats P a b) then 1 else if decide (beats P b a) then -1 else 0 := by
  unfold sgn
  simp only [decide_eq_true_eq, copelandNet_pos_iff, copelandNet_neg_iff]

/-- **Copeland's score = number of alternatives beaten − number of alternatives that beat it.** -/
theorem copeland_def (P : Profile) (m a : Nat) (ha : a < m) :
    (copeland P m)[a]'(by rw [copeland_length]; exact ha) =
      (((List.range m).filter (fun b => decide (beats P a b))).length : Int) -
        (((List.range m).filter (fun b => decide (beats P b a))).length : Int) := by
  have := sumI_pm (List.range m) (fun b => decide (beats P a b)) (fun b => decide (beats P b a))
    (fun b _ h => by
      simp only [decide_eq_true_eq] at h
      exact beats_asymm P a b h.1 h.2)
  rw [← this]
  simp only [copeland, List.getElem_map, List.getElem_range]
  congr 1
  apply List.map_congr_left
  intro b _
  exact sgn_net P a b

theorem copeland_getD (P : Profile) (m a : Nat) (ha : a < m) :
    (copeland P m).getD a 0 =
      (((List.range m).filter (fun b => decide (beats P a b))).length : Int) -
        (((List.range m).filter (fun b => decide (beats P b a))).length : Int) := by
  rw [← copeland_def P m a ha]
  simp [List.getD_eq_getElem?_getD, copeland_length, ha]

/-! ### maxima and winners -/

theorem maxI_ge (s : List Int) : ∀ x ∈ s, x ≤ maxI s := by
  induction s with
  | nil => simp
  | cons a as ih =>
    intro x hx
    cases as with
    | nil => simp at hx; subst hx; simp [maxI]
    | cons b bs =>
      simp only [maxI]
      simp only [List.mem_cons] at hx
      rcases hx with rfl | hx
      · exact Int.le_max_left _ _
      · exact Int.le_trans (ih x (by simpa using hx)) (Int.le_max_right _ _)

theorem maxI_mem (s : List Int) (hs : s ≠ []) : maxI s ∈ s := by
  induction s with
  | nil => exact absurd rfl hs
  | cons a as ih =>
    cases as with
    | nil => simp [maxI]
    | cons b bs =>
      have ih' := ih (by simp)
      simp only [maxI] at ih' ⊢
      by_cases h : a ≤ maxI (b :: bs)
      · rw [Int.max_eq_right h]; exact List.mem_cons_of_mem _ ih'
      · rw [Int.max_eq_left (by omega)]; simp

theorem filter_range_eq_singleton (n a : Nat) (p : Nat → Bool) (ha : a < n)
    (hp : ∀ j, j < n → (p j = true ↔ j = a)) : (List.range n).filter p = [a] := by
  induction n with
  | zero => omega
  | succ n ih =>
    rw [List.range_succ, List.filter_append]
    by_cases han : a = n
    · subst han
      have h1 : (List.range a).filter p = [] := by
        rw [List.filter_eq_nil_iff]
        intro j hj
        rw [List.mem_range] at hj
        rw [hp j (by omega)]; omega
      have h2 : p a = true := (hp a (by omega)).mpr rfl
      rw [h1, List.filter_cons_of_pos h2]; rfl
    · have h1 := ih (by omega) (fun j hj => hp j (by omega))
      have h2 : ¬ p n = true := by rw [hp n (by omega)]; omega
      rw [h1, List.filter_cons_of_neg h2]; rfl

/-- a strict maximum is the only winner -/
theorem winnersI_unique (s : List Int) (a : Nat) (ha : a < s.length)
    (hlt : ∀ j, j < s.length → j ≠ a → s.getD j 0 < s.getD a 0) : winnersI s = [a] := by
  have hne : s ≠ [] := by intro h; rw [h] at ha; simp at ha
  have hmax : maxI s = s.getD a 0 := by
    obtain ⟨j, hj, hjv⟩ := List.getElem_of_mem (maxI_mem s hne)
    have hge : s.getD a 0 ≤ maxI s := by
      apply maxI_ge
      simp only [List.getD_eq_getElem?_getD, List.getElem?_eq_getElem ha, Option.getD_some]
      exact List.getElem_mem ha
    by_cases hja : j = a
    · subst hja
      simp only [List.getD_eq_getElem?_getD, List.getElem?_eq_getElem hj, Option.getD_some]
      exact hjv.symm
    · have := hlt j hj hja
      have h3 : s.getD j 0 = maxI s := by
        simp only [List.getD_eq_getElem?_getD, List.getElem?_eq_getElem hj, Option.getD_some]
        exact hjv
      omega
  unfold winnersI
  apply filter_range_eq_singleton _ _ _ ha
  intro j hj
  rw [beq_iff_eq, hmax]
  constructor
  · intro h
    by_contra hja
    have := hlt j hj hja
    omega
  · rintro rfl; rfl

/-! ### Condorcet winners -/

theorem filter_length_le_range (m : Nat) (p : Nat → Bool) : ((List.range m).filter p).length ≤ m := by
  have := List.length_filter_le p (List.range m)
  simpa using this

/-- if `p` fails at two different points below `m`, at most `m − 2` points satisfy it -/
theorem filter_length_two_out (m x y : Nat) (p : Nat → Bool) (hx : x < m) (hy : y < m) (hxy : x ≠ y)
    (hpx : p x = false) (hpy : p y = false) : ((List.range m).filter p).length + 2 ≤ m := by
  have hsub : (List.range m).filter p ⊆ ((List.range m).erase x).erase y := by
    intro j hj
    rw [List.mem_filter, List.mem_range] at hj
    have hjx : j ≠ x := by rintro rfl; rw [hpx] at hj; exact absurd hj.2 (by simp)
    have hjy : j ≠ y := by rintro rfl; rw [hpy] at hj; exact absurd hj.2 (by simp)
    rw [List.mem_erase_of_ne hjy, List.mem_erase_of_ne hjx, List.mem_range]
    exact hj.1
  have hnd : ((List.range m).filter p).Nodup := List.Nodup.filter _ List.nodup_range
  have hle := List.Nodup.length_le_of_subset hnd hsub
  have hy' : y ∈ (List.range m).erase x := by
    rw [List.mem_erase_of_ne (Ne.symm hxy), List.mem_range]; exact hy
  rw [List.length_erase_of_mem hy', List.length_erase_of_mem (List.mem_range.mpr hx),
    List.length_range] at hle
  omega

theorem filter_length_pos (m x : Nat) (p : Nat → Bool) (hx : x < m) (hpx : p x = true) :
    1 ≤ ((List.range m).filter p).length := by
  have : x ∈ (List.range m).filter p := by rw [List.mem_filter, List.mem_range]; exact ⟨hx, hpx⟩
  exact List.length_pos_of_mem this

theorem filter_length_all_but (m a : Nat) (p : Nat → Bool) (ha : a < m) (hpa : p a = false)
    (hp : ∀ j, j < m → j ≠ a → p j = true) : ((List.range m).filter p).length + 1 = m := by
  have : (List.range m).filter p = (List.range m).erase a := by
    rw [List.Nodup.erase_eq_filter List.nodup_range]
    apply List.filter_congr
    intro j hj
    rw [List.mem_range] at hj
    by_cases hja : j = a
    · subst hja; simp [hpa]
    · simp [hp j hj hja, hja]
  rw [this, List.length_erase_of_mem (List.mem_range.mpr ha), List.length_range]; omega

/-- the Condorcet winner's Copeland score is `m − 1` -/
theorem condorcet_score (P : Profile) (m a : Nat) (ha : a < m)
    (hc : ∀ b, b < m → b ≠ a → beats P a b) : (copeland P m).getD a 0 = (m : Int) - 1 := by
  rw [copeland_getD P m a ha]
  have h1 := filter_length_all_but m a (fun b => decide (beats P a b)) ha
    (by simpa using beats_irrefl P a) (fun j hj hja => by simpa using hc j hj hja)
  have h2 : (List.range m).filter (fun b => decide (beats P b a)) = [] := by
    rw [List.filter_eq_nil_iff]
    intro b hb
    rw [List.mem_range] at hb
    simp only [decide_eq_true_eq]
    by_cases hba : b = a
    · subst hba; exact beats_irrefl P b
    · exact fun h => beats_asymm P a b (hc b hb hba) h
  rw [h2]; simp only [List.length_nil]; omega

/-- every other alternative scores at most `m − 3` -/
theorem non_condorcet_score (P : Profile) (m a b : Nat) (ha : a < m) (hb : b < m) (hba : b ≠ a)
    (hc : ∀ b, b < m → b ≠ a → beats P a b) : (copeland P m).getD b 0 ≤ (m : Int) - 3 := by
  rw [copeland_getD P m b hb]
  have hab := hc b hb hba
  have h1 := filter_length_two_out m a b (fun x => decide (beats P b x)) ha hb (Ne.symm hba)
    (by simpa using beats_asymm P a b hab) (by simpa using beats_irrefl P b)
  have h2 := filter_length_pos m a (fun x => decide (beats P x b)) ha (by simpa using hab)
  omega

/-- **A Condorcet winner is the unique Copeland winner.** -/
theorem condorcet_unique_copeland_winner (P : Profile) (m a : Nat) (ha : a < m)
    (hc : ∀ b, b < m → b ≠ a → beats P a b) : winnersI (copeland P m) = [a] := by
  apply winnersI_unique _ _ (by rw [copeland_length]; exact ha)
  intro j hj hja
  rw [copeland_length] at hj
  have h1 := condorcet_score P m a ha hc
  have h2 := non_condorcet_score P m a j ha hj hja hc
  omega

end C12
