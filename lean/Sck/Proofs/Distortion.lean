import Mathlib.Algebra.BigOperators.Group.Finset.Basic
import Mathlib.Algebra.Order.BigOperators.Group.Finset
import Mathlib.Algebra.BigOperators.Ring.Finset
import Mathlib.Algebra.Order.Field.Basic
import Mathlib.Algebra.Order.Ring.Rat
import Mathlib.Data.Fintype.BigOperators
import Mathlib.Tactic.Linarith
import Mathlib.Tactic.Ring
import Mathlib.Tactic.FieldSimp
import Mathlib.Tactic.Positivity

/-! C16 prototype: the distortion inequalities, abstract in the threshold ratio ρ. -/

open Finset

variable {n m : ℕ}

/-- k-ARV: the winner of the simulated scores is within `2ρ` of the optimum. -/
theorem karv_distortion (hm : 0 < m) (v vt : Fin n → Fin m → ℚ) (fav : Fin n → Fin m)
    (ρ : ℚ) (hρ : 0 ≤ ρ)
    (hvt0 : ∀ i j, 0 ≤ vt i j)
    (hle : ∀ i j, vt i j ≤ v i j)
    (hfav : ∀ i, vt i (fav i) = v i (fav i))
    (hbound : ∀ i j, v i j ≤ ρ * vt i j + ρ / m * v i (fav i))
    (a : Fin m) (ha : ∀ j, ∑ i, vt i j ≤ ∑ i, vt i a) (o : Fin m) :
    ∑ i, v i o ≤ 2 * ρ * ∑ i, v i a := by
  have hmq : (0 : ℚ) < m := by exact_mod_cast hm
  -- simulated welfare of the winner
  set S := ∑ i, vt i a with hS
  have hS_le : S ≤ ∑ i, v i a := sum_le_sum (fun i _ => hle i a)
  -- favourites are bounded by m times the winner's simulated welfare
  have hfavsum : ∑ i, v i (fav i) ≤ m * S := by
    calc ∑ i, v i (fav i) = ∑ i, vt i (fav i) := sum_congr rfl (fun i _ => (hfav i).symm)
      _ ≤ ∑ i, ∑ j, vt i j := sum_le_sum (fun i _ =>
          single_le_sum (f := fun j => vt i j) (fun j _ => hvt0 i j) (mem_univ (fav i)))
      _ = ∑ j, ∑ i, vt i j := sum_comm
      _ ≤ ∑ _j : Fin m, S := sum_le_sum (fun j _ => ha j)
      _ = m * S := by simp
  have h1 : ∑ i, v i o ≤ ρ * ∑ i, vt i o + ρ / m * ∑ i, v i (fav i) := by
    calc ∑ i, v i o ≤ ∑ i, (ρ * vt i o + ρ / m * v i (fav i)) := sum_le_sum (fun i _ => hbound i o)
      _ = ρ * ∑ i, vt i o + ρ / m * ∑ i, v i (fav i) := by
          rw [sum_add_distrib, mul_sum, mul_sum]
  have h2 : ρ * ∑ i, vt i o ≤ ρ * S := mul_le_mul_of_nonneg_left (ha o) hρ
  have h3 : ρ / m * ∑ i, v i (fav i) ≤ ρ / m * (m * S) :=
    mul_le_mul_of_nonneg_left hfavsum (div_nonneg hρ (le_of_lt hmq))
  have h4 : ρ / m * (m * S) = ρ * S := by field_simp
  have h5 : 2 * ρ * S ≤ 2 * ρ * ∑ i, v i a :=
    mul_le_mul_of_nonneg_left hS_le (by positivity)
  linarith

/-- lambda-TSF: a maximum-weight assignment of the simulated matrix is within `2ρ` of the optimum,
up to the `n·ε` floor. -/
theorem tsf_distortion (hn : 0 < n) (v vt : Fin n → Fin n → ℚ) (fav : Fin n → Fin n)
    (ρ ε : ℚ) (hρ : 0 ≤ ρ) (hε : 0 ≤ ε)
    (hvt0 : ∀ i j, 0 ≤ vt i j)
    (hle : ∀ i j, vt i j ≤ v i j + ε)
    (hfav : ∀ i, vt i (fav i) = v i (fav i))
    (hbound : ∀ i j, v i j ≤ ρ * vt i j + ρ / n * v i (fav i))
    (A : Equiv.Perm (Fin n)) (hA : ∀ B : Equiv.Perm (Fin n), ∑ i, vt i (B i) ≤ ∑ i, vt i (A i))
    (O : Equiv.Perm (Fin n)) :
    ∑ i, v i (O i) ≤ 2 * ρ * (∑ i, v i (A i) + n * ε) := by
  have hnq : (0 : ℚ) < n := by exact_mod_cast hn
  set S := ∑ i, vt i (A i) with hS
  have hS_le : S ≤ ∑ i, v i (A i) + n * ε := by
    calc S ≤ ∑ i, (v i (A i) + ε) := sum_le_sum (fun i _ => hle i (A i))
      _ = ∑ i, v i (A i) + n * ε := by rw [sum_add_distrib]; simp
  -- each favourite value is at most the best simulated assignment
  have hfav_le : ∀ i0, v i0 (fav i0) ≤ S := by
    intro i0
    -- the assignment that swaps so that i0 gets its favourite
    let B : Equiv.Perm (Fin n) := (Equiv.swap (A.symm (fav i0)) i0).trans A
    have hB : B i0 = fav i0 := by simp [B]
    calc v i0 (fav i0) = vt i0 (B i0) := by rw [hB, hfav]
      _ ≤ ∑ i, vt i (B i) := single_le_sum (f := fun i => vt i (B i)) (fun i _ => hvt0 i (B i)) (mem_univ i0)
      _ ≤ S := hA B
  have hfavsum : ∑ i, v i (fav i) ≤ n * S := by
    calc ∑ i, v i (fav i) ≤ ∑ _i : Fin n, S := sum_le_sum (fun i _ => hfav_le i)
      _ = n * S := by simp
  have h1 : ∑ i, v i (O i) ≤ ρ * ∑ i, vt i (O i) + ρ / n * ∑ i, v i (fav i) := by
    calc ∑ i, v i (O i) ≤ ∑ i, (ρ * vt i (O i) + ρ / n * v i (fav i)) :=
          sum_le_sum (fun i _ => hbound i (O i))
      _ = ρ * ∑ i, vt i (O i) + ρ / n * ∑ i, v i (fav i) := by
          rw [sum_add_distrib, mul_sum, mul_sum]
  have h2 : ρ * ∑ i, vt i (O i) ≤ ρ * S := mul_le_mul_of_nonneg_left (hA O) hρ
  have h3 : ρ / n * ∑ i, v i (fav i) ≤ ρ / n * (n * S) :=
    mul_le_mul_of_nonneg_left hfavsum (div_nonneg hρ (le_of_lt hnq))
  have h4 : ρ / n * (n * S) = ρ * S := by field_simp
  have h5 : 2 * ρ * S ≤ 2 * ρ * (∑ i, v i (A i) + n * ε) :=
    mul_le_mul_of_nonneg_left hS_le (by positivity)
  linarith

/-- the per-entry bound used above, from the threshold structure of one agent -/
theorem entry_bound (vstar vij lamPrev lam ρ : ℚ) (m : ℕ) (hlamPrev : 0 < lamPrev) (hlam : 0 < lam)
    (hratio : lam ≤ ρ * lamPrev) (hv : 0 ≤ vstar) (hρ : 0 ≤ ρ)
    (hupper : vij ≤ vstar / lamPrev) :
    vij ≤ ρ * (vstar / lam) + ρ / m * vstar := by
  have h1 : vstar / lamPrev ≤ ρ * (vstar / lam) := by
    rw [div_le_iff₀ hlamPrev]
    have : ρ * (vstar / lam) * lamPrev = vstar * (ρ * lamPrev) / lam := by field_simp
    rw [this, le_div_iff₀ hlam]
    exact mul_le_mul_of_nonneg_left hratio hv
  have h2 : 0 ≤ ρ / m * vstar := by positivity
  linarith

theorem entry_bound_outside (vstar vij lamK ρ : ℚ) (m : ℕ) (hm : 0 < m) (hlamK : 0 < lamK)
    (hratio : (m : ℚ) ≤ ρ * lamK) (hv : 0 ≤ vstar) (hρ : 0 ≤ ρ)
    (hupper : vij ≤ vstar / lamK) :
    vij ≤ ρ * 0 + ρ / m * vstar := by
  have hmq : (0 : ℚ) < m := by exact_mod_cast hm
  have h1 : vstar / lamK ≤ ρ / m * vstar := by
    rw [div_le_iff₀ hlamK]
    have : ρ / m * vstar * lamK = vstar * (ρ * lamK) / m := by field_simp
    rw [this, le_div_iff₀ hmq]
    exact mul_le_mul_of_nonneg_left hratio hv
  linarith

#print axioms karv_distortion
#print axioms tsf_distortion
#print axioms entry_bound
