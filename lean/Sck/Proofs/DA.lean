import Sck.Model.DA

theorem worst_mem (I : DA) (r : Nat) (ps : List Nat) (w : Nat) (h : worst I r ps = some w) : w ∈ ps := by
  induction ps generalizing w with
  | nil => simp [worst] at h
  | cons p ps ih =>
    simp only [worst] at h
    split at h
    · simp at h; simp [h]
    · rename_i w' hw'
      split at h
      · simp at h; simp [h]
      · simp at h; subst h; simp [ih w' hw']

theorem worst_ge (I : DA) (r : Nat) (ps : List Nat) (w : Nat) (h : worst I r ps = some w) :
    ∀ q ∈ ps, rk I r q ≤ rk I r w := by
  induction ps generalizing w with
  | nil => simp [worst] at h
  | cons p ps ih =>
    simp only [worst] at h
    intro q hq
    split at h
    · rename_i hn
      simp at h; subst h
      cases ps with
      | nil => simp at hq; simp [hq]
      | cons a as => simp [worst] at hn; split at hn <;> (try split at hn) <;> simp at hn
    · rename_i w' hw'
      have := ih w' hw'
      simp at hq
      split at h
      · simp at h; subst h
        rcases hq with rfl | hq
        · exact Nat.le_refl _
        · have := this q hq; omega
      · simp at h; subst h
        rcases hq with rfl | hq
        · omega
        · exact this q hq

theorem worst_some (I : DA) (r : Nat) (ps : List Nat) (h : ps ≠ []) : ∃ w, worst I r ps = some w := by
  cases ps with
  | nil => exact absurd rfl h
  | cons p ps =>
    simp only [worst]
    split
    · exact ⟨_, rfl⟩
    · split <;> exact ⟨_, rfl⟩
