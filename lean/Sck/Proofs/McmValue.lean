import Sck.Proofs.McmFlow

/-! C09 (a): integrality — the read-out of a flow on `bipNet` has as many pairs as the value of the flow. -/

open Finset

theorem argmaxFirst_spec : ∀ l : List Int, l ≠ [] →
    ∃ h : argmaxFirst l < l.length, ∀ b ∈ l, b ≤ l[argmaxFirst l] := by
  intro l
  induction l with
  | nil => intro h; exact absurd rfl h
  | cons a l ih =>
    intro _
    unfold argmaxFirst
    split
    · rename_i hall
      refine ⟨by simp, ?_⟩
      intro b hb
      simp only [List.all_eq_true, decide_eq_true_eq] at hall
      rcases List.mem_cons.mp hb with rfl | hb
      · simp
      · simpa using hall b hb
    · rename_i hall
      have hl : l ≠ [] := by rintro rfl; simp at hall
      obtain ⟨hlt, hmax⟩ := ih hl
      refine ⟨by simp only [List.length_cons]; omega, ?_⟩
      intro b hb
      simp only [List.getElem_cons_succ]
      rcases List.mem_cons.mp hb with rfl | hb
      · simp only [List.all_eq_true, decide_eq_true_eq, not_forall] at hall
        obtain ⟨c, hc, hlt'⟩ := hall
        have := hmax c hc
        omega
      · exact hmax b hb

section
variable {X Y : List Int} {adj : Int → List Int} {f : Flow}

/-- the read-out step picks a neighbour with maximal flow -/
theorem mcmEmit_eq {x : Int} (hne : adj x ≠ []) :
    ∃ y ∈ adj x, (∀ y' ∈ adj x, f x y' ≤ f x y) ∧
      mcmEmit adj f x = if f x y = 1 then some (x, y) else none := by
  unfold mcmEmit
  split
  · rename_i h; exact absurd h hne
  · rename_i y0 ys hadj
    obtain ⟨hlt, hmax⟩ := argmaxFirst_spec ((y0 :: ys).map (fun y => f x y)) (by simp)
    have hlt' : argmaxFirst ((y0 :: ys).map (fun y => f x y)) < (y0 :: ys).length := by
      simpa using hlt
    refine ⟨(y0 :: ys)[argmaxFirst ((y0 :: ys).map (fun y => f x y))], ?_, ?_, ?_⟩
    · rw [hadj]; exact List.getElem_mem hlt'
    · intro y' hy'
      rw [hadj] at hy'
      have := hmax (f x y') (List.mem_map.mpr ⟨y', hy', rfl⟩)
      rw [List.getElem_map] at this
      exact this
    · rw [List.getElem?_eq_getElem hlt']

theorem mcmEmit_nil {x : Int} (h : adj x = []) : mcmEmit adj f x = none := by
  unfold mcmEmit; rw [h]

/-- conservation at a left vertex: what it sends to its neighbours is what it gets from the source -/
theorem bf_left_sum (w : BipWF X Y adj) (hf : BipFlow X Y adj f) {x : Int} (hx : x ∈ X) :
    ∑ y ∈ (adj x).toFinset, f x y = f (-1) x := by
  have hxV : x ∈ (bipNet X Y adj).verts.toFinset :=
    List.mem_toFinset.mpr ((mem_bipNet_verts X Y adj x).mpr (Or.inl hx))
  have hcons := hf.conserve x hxV (fun e => w.sX (e ▸ hx)) (fun e => w.tX (e ▸ hx))
  have hsub : insert (-1) (adj x).toFinset ⊆ (bipNet X Y adj).verts.toFinset := by
    intro v hv
    rw [List.mem_toFinset, mem_bipNet_verts]
    rcases mem_insert.mp hv with rfl | hv
    · exact Or.inr (Or.inl rfl)
    · exact Or.inr (Or.inr (Or.inr (w.adjY x hx v (List.mem_toFinset.mp hv))))
  have hzero : ∀ v ∈ (bipNet X Y adj).verts.toFinset, v ∉ insert (-1) (adj x).toFinset → f x v = 0 := by
    intro v _ hv
    rw [mem_insert, not_or, List.mem_toFinset] at hv
    have h1 := bf_le_zero hf x v (fun h => hv.2 ((bipEdge_left w hx).mp h))
    have h2 := bf_nonneg hf x v (fun h => hv.1 ((bipEdge_into_left w hx).mp h))
    omega
  rw [← sum_subset hsub hzero, sum_insert (by
    rw [List.mem_toFinset]; exact fun h => w.sY (w.adjY x hx _ h))] at hcons
  have := hf.skew x (-1)
  omega

theorem bf_left_unit (w : BipWF X Y adj) (hf : BipFlow X Y adj f) {x y : Int} (hx : x ∈ X)
    (hy : y ∈ adj x) : 0 ≤ f x y ∧ f x y ≤ 1 :=
  ⟨bf_nonneg hf x y (fun h => w.sY (((bipEdge_into_left w hx).mp h) ▸ w.adjY x hx y hy)), bf_le_one hf x y⟩

theorem bf_source_unit (w : BipWF X Y adj) (hf : BipFlow X Y adj f) (x : Int) :
    0 ≤ f (-1) x ∧ f (-1) x ≤ 1 :=
  ⟨bf_nonneg hf (-1) x (not_bipEdge_into_source w), bf_le_one hf (-1) x⟩

/-- the read-out step emits a pair for `x` exactly when the source sends a unit to `x` -/
theorem mcmEmit_length (w : BipWF X Y adj) (hf : BipFlow X Y adj f) {x : Int} (hx : x ∈ X) :
    ((mcmEmit adj f x).toList.length : Int) = f (-1) x := by
  have hsum := bf_left_sum w hf hx
  have hunit := bf_source_unit w hf x
  by_cases hne : adj x = []
  · rw [mcmEmit_nil hne]
    rw [hne] at hsum
    simpa using hsum
  · obtain ⟨y, hy, hmax, he⟩ := mcmEmit_eq (f := f) hne
    rw [he]
    have hy01 := bf_left_unit w hf hx hy
    by_cases h1 : f (-1) x = 1
    · -- some neighbour carries a unit, hence so does the maximal one
      have : ∃ y' ∈ (adj x).toFinset, f x y' ≠ 0 := by
        by_contra hcon
        rw [not_exists] at hcon
        have : ∑ y ∈ (adj x).toFinset, f x y = 0 :=
          sum_eq_zero (fun y' hy' => by
            have := hcon y'; rw [not_and, not_not] at this; exact this hy')
        omega
      obtain ⟨y', hy', hpos⟩ := this
      have hy'01 := bf_left_unit w hf hx (List.mem_toFinset.mp hy')
      have := hmax y' (List.mem_toFinset.mp hy')
      have hfy : f x y = 1 := by omega
      rw [if_pos hfy, h1]; rfl
    · have h0 : f (-1) x = 0 := by omega
      rw [h0] at hsum
      have hall := (sum_eq_zero_iff_of_nonneg (fun y' hy' =>
        (bf_left_unit w hf hx (List.mem_toFinset.mp hy')).1)).mp hsum
      have hfy : f x y = 0 := hall y (List.mem_toFinset.mpr hy)
      rw [if_neg (by omega), h0]; rfl

theorem mcmOfFlow_length_aux (w : BipWF X Y adj) (hf : BipFlow X Y adj f) :
    ∀ L : List Int, L.Nodup → (∀ x ∈ L, x ∈ X) →
      ((mcmOfFlow L adj f).length : Int) = ∑ x ∈ L.toFinset, f (-1) x := by
  intro L
  induction L with
  | nil => intro _ _; simp [mcmOfFlow]
  | cons x L ih =>
    intro hnd hsub
    have hx := mcmEmit_length w hf (hsub x (by simp))
    have ih' := ih (List.nodup_cons.mp hnd).2 (fun z hz => hsub z (by simp [hz]))
    rw [List.toFinset_cons, sum_insert (by rw [List.mem_toFinset]; exact (List.nodup_cons.mp hnd).1),
      ← hx, ← ih']
    unfold mcmOfFlow
    cases hem : mcmEmit adj f x with
    | none => rw [List.filterMap_cons_none hem]; simp
    | some p => rw [List.filterMap_cons_some hem]; simp; omega

/-- (a) integrality: the read-out of a flow has exactly `flowValue f` pairs -/
theorem mcmOfFlow_length (w : BipWF X Y adj) (hf : BipFlow X Y adj f) :
    ((mcmOfFlow X adj f).length : Int) = flowValue (bipNet X Y adj).verts.toFinset (-1) f := by
  rw [mcmOfFlow_length_aux w hf X w.ndX (fun _ h => h)]
  unfold flowValue
  apply sum_subset
  · intro v hv
    rw [List.mem_toFinset] at hv ⊢
    exact (mem_bipNet_verts X Y adj v).mpr (Or.inl hv)
  · intro v _ hv
    rw [List.mem_toFinset] at hv
    have h1 := bf_le_zero hf (-1) v (fun h => hv ((bipEdge_source w).mp h))
    have h2 := (bf_source_unit w hf v).1
    omega

end

#print axioms mcmOfFlow_length
