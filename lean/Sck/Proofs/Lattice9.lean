import Sck.Proofs.Lattice8

/-! # C03, package L7, part 9: the flow network built from the mirror's poset graph is always well formed

`posetGraph` keeps its adjacency lists duplicate-free (`addEdge` tests membership) and inside `0..k-1` (heads of edges
are values of `rotation_of_pair`), so `netWfB (closedNet (posetGraph …) ws)` holds for every input: the first half of
the side condition `FlowSide` is automatic, only "total negative weight `< sys.maxsize`" remains. -/

namespace IrvingAlgo

open Irving

/-- adjacency lists duplicate-free and inside `0..k-1` -/
def GoodGraph (k : Nat) (G : List (List Nat)) : Prop :=
  ∀ pi, (G.getD pi []).Nodup ∧ ∀ x ∈ G.getD pi [], x < k

theorem goodGraph_replicate (k : Nat) : GoodGraph k (List.replicate k []) := by
  intro pi
  have : (List.replicate k ([] : List Nat)).getD pi [] = [] := by
    rw [List.getD_eq_getElem?_getD]
    by_cases h : pi < k
    · simp [h]
    · rw [List.getElem?_eq_none (by simpa using h)]; rfl
  rw [this]; exact ⟨List.nodup_nil, by simp⟩

theorem goodGraph_addEdge {k : Nat} {G : List (List Nat)} (h : GoodGraph k G) (pi rho : Nat) (hrho : rho < k) :
    GoodGraph k (addEdge G pi rho) := by
  unfold addEdge
  split
  · exact h
  · rename_i hc
    have hnot : rho ∉ G.getD pi [] := fun hm => hc (List.contains_iff_mem.mpr hm)
    intro q
    by_cases hq : q = pi
    · subst hq
      by_cases hlt : q < G.length
      · have : (G.set q (G.getD q [] ++ [rho])).getD q [] = G.getD q [] ++ [rho] := by
          rw [List.getD_eq_getElem?_getD, List.getElem?_set_self hlt]; rfl
        rw [this]
        refine ⟨?_, ?_⟩
        · rw [List.nodup_append]
          exact ⟨(h q).1, List.nodup_singleton _, fun a ha b hb => by
            simp only [List.mem_singleton] at hb; subst hb; exact fun he => hnot (he ▸ ha)⟩
        · intro x hx
          rcases List.mem_append.mp hx with hx | hx
          · exact (h q).2 x hx
          · simp only [List.mem_singleton] at hx; subst hx; exact hrho
      · rw [List.set_eq_of_length_le (by omega)]; exact h q
    · have : (G.set pi (G.getD pi [] ++ [rho])).getD q [] = G.getD q [] := by
        rw [List.getD_eq_getElem?_getD, List.getElem?_set_ne (Ne.symm hq), ← List.getD_eq_getElem?_getD]
      rw [this]; exact h q

/-- all values stored in a dict -/
def DictVals {κ : Type} (k : Nat) (d : List (κ × Nat)) : Prop := ∀ e ∈ d, e.2 < k

theorem dictVals_dictSet {κ : Type} [BEq κ] {k : Nat} :
    ∀ (d : List (κ × Nat)) (key : κ) (v : Nat), DictVals k d → v < k → DictVals k (dictSet d key v) := by
  intro d
  induction d with
  | nil => intro key v _ hv e he; simp only [dictSet, List.mem_singleton] at he; subst he; exact hv
  | cons x xs ih =>
    intro key v hd hv
    obtain ⟨k', v'⟩ := x
    simp only [dictSet]
    split
    · intro e he
      rcases List.mem_cons.mp he with rfl | he
      · exact hv
      · exact hd e (List.mem_cons_of_mem _ he)
    · intro e he
      rcases List.mem_cons.mp he with rfl | he
      · exact hd _ List.mem_cons_self
      · exact ih key v (fun e he => hd e (List.mem_cons_of_mem _ he)) hv e he

theorem dictGet?_lt {κ : Type} [BEq κ] {k : Nat} {d : List (κ × Nat)} (hd : DictVals k d) {key : κ} {v : Nat}
    (h : dictGet? d key = some v) : v < k := by
  unfold dictGet? at h
  rw [Option.map_eq_some_iff] at h
  obtain ⟨e, he, rfl⟩ := h
  exact hd e (List.mem_of_find?_eq_some he)

theorem rotOfPair_vals (rots : List (List Pair)) : DictVals rots.length (rotOfPair rots) := by
  unfold rotOfPair
  have inner : ∀ (ps : List Pair) (i : Nat) (d : List (Pair × Nat)), DictVals rots.length d → i < rots.length →
      DictVals rots.length (ps.foldl (fun d p => dictSet d p i) d) := by
    intro ps
    induction ps with
    | nil => intro i d hd _; exact hd
    | cons p ps ih => intro i d hd hi; exact ih i _ (dictVals_dictSet d p i hd hi) hi
  have outer : ∀ (l : List (List Pair × Nat)) (d : List (Pair × Nat)), (∀ ri ∈ l, ri.2 < rots.length) →
      DictVals rots.length d →
      DictVals rots.length (l.foldl (fun d ri => ri.1.foldl (fun d p => dictSet d p ri.2) d) d) := by
    intro l
    induction l with
    | nil => intro d _ hd; exact hd
    | cons ri l ih =>
      intro d hl hd
      exact ih _ (fun r hr => hl r (List.mem_cons_of_mem _ hr)) (inner ri.1 ri.2 d hd (hl ri List.mem_cons_self))
  refine outer _ [] ?_ (fun e he => by simp at he)
  intro ri hri
  have := List.mem_zipIdx hri
  omega

theorem goodGraph_scanMan (rots : List (List Pair)) (elim : List (Pair × Nat)) (m : Nat) (L : List Nat) :
    ∀ (rest : List Nat) (cur : Option (Nat × Nat)) (G : List (List Nat)),
      (∀ c, cur = some c → c.2 < rots.length) → GoodGraph rots.length G →
      GoodGraph rots.length (scanMan rots (rotOfPair rots) elim m L cur rest G) := by
  have hv := rotOfPair_vals rots
  intro rest
  induction rest with
  | nil => intro cur G _ hG; cases cur <;> simpa [scanMan] using hG
  | cons w rest ih =>
    intro cur G hcur hG
    cases cur with
    | none =>
      simp only [scanMan]
      split
      · exact ih _ _ (fun c hc => by cases hc) hG
      · rename_i rho hrho
        exact ih _ _ (fun c hc => by cases hc; exact dictGet?_lt hv hrho) hG
    | some c =>
      obtain ⟨w0, rho⟩ := c
      have hrho : rho < rots.length := hcur (w0, rho) rfl
      simp only [scanMan]
      split
      · rename_i rho' hrho'
        exact ih _ _ (fun c hc => by cases hc; exact dictGet?_lt hv hrho')
          (goodGraph_addEdge hG rho rho' (dictGet?_lt hv hrho'))
      · split
        · split
          · exact ih _ _ (fun c hc => by cases hc; exact hrho) (goodGraph_addEdge hG _ rho hrho)
          · exact ih _ _ (fun c hc => by cases hc; exact hrho) hG
        · exact ih _ _ (fun c hc => by cases hc; exact hrho) hG

theorem goodGraph_posetGraph (rots : List (List Pair)) (l1 : List (List Nat)) (elim : List (Pair × Nat)) :
    GoodGraph rots.length (posetGraph rots l1 elim) := by
  unfold posetGraph
  have : ∀ (ms : List Nat) (G : List (List Nat)), GoodGraph rots.length G →
      GoodGraph rots.length
        (ms.foldl (fun G m => scanMan rots (rotOfPair rots) elim m (l1.getD m []) none (l1.getD m []) G) G) := by
    intro ms
    induction ms with
    | nil => intro G hG; exact hG
    | cons m ms ih =>
      intro G hG
      rw [List.foldl_cons]
      exact ih _ (goodGraph_scanMan rots elim m _ _ none G (fun c hc => by cases hc) hG)
  exact this _ _ (goodGraph_replicate _)

/-- shape of an edge of `closedNet` -/
theorem closedNet_edge_cases (succs : List (List Nat)) (ws : List Int) (e : Int × Int × Nat)
    (he : e ∈ (closedNet succs ws).edges) :
    (∃ pi, pi < succs.length ∧ e = (-1, Int.ofNat pi, (-(ws.getD pi 0)).toNat)) ∨
    (∃ pi rho, pi < succs.length ∧ rho ∈ succs.getD pi [] ∧ e = (Int.ofNat pi, Int.ofNat rho, maxsize)) ∨
    (∃ pi, pi < succs.length ∧ e = (Int.ofNat pi, -2, (ws.getD pi 0).toNat)) := by
  rcases (mem_closedNet_edges succs ws e).mp he with ⟨pi, h1, _, rfl⟩ | ⟨pi, h1, (⟨rho, hr, rfl⟩ | ⟨_, rfl⟩)⟩
  · exact Or.inl ⟨pi, h1, rfl⟩
  · exact Or.inr (Or.inl ⟨pi, rho, h1, hr, rfl⟩)
  · exact Or.inr (Or.inr ⟨pi, h1, rfl⟩)

theorem closedNet_edges_nodup {succs : List (List Nat)} (ws : List Int) (h : GoodGraph succs.length succs) :
    (closedNet succs ws).edges.Nodup := by
  simp only [closedNet]
  rw [List.nodup_append]
  refine ⟨?_, ?_, ?_⟩
  · refine (List.nodup_range.filter _).map ?_
    intro a b hab
    simpa using congrArg (fun e : Int × Int × Nat => e.2.1) hab
  · rw [List.nodup_flatMap]
    refine ⟨?_, ?_⟩
    · intro pi _
      rw [List.nodup_append]
      refine ⟨?_, ?_, ?_⟩
      · refine (h pi).1.map ?_
        intro a b hab
        simpa using congrArg (fun e : Int × Int × Nat => e.2.1) hab
      · split
        · exact List.nodup_singleton _
        · exact List.nodup_nil
      · intro a ha b hb
        obtain ⟨rho, _, rfl⟩ := List.mem_map.mp ha
        split at hb
        · simp only [List.mem_singleton] at hb
          subst hb
          intro he
          have := congrArg (fun e : Int × Int × Nat => e.2.1) he
          simp only at this
          have h0 : (0 : Int) ≤ Int.ofNat rho := Int.natCast_nonneg _
          omega
        · simp at hb
    · refine List.Pairwise.imp ?_ List.nodup_range
      intro a b hab e he he'
      have ha : e.1 = Int.ofNat a := by
        rcases List.mem_append.mp he with he | he
        · obtain ⟨rho, _, rfl⟩ := List.mem_map.mp he; rfl
        · split at he
          · simp only [List.mem_singleton] at he; rw [he]
          · simp at he
      have hb : e.1 = Int.ofNat b := by
        rcases List.mem_append.mp he' with he' | he'
        · obtain ⟨rho, _, rfl⟩ := List.mem_map.mp he'; rfl
        · split at he'
          · simp only [List.mem_singleton] at he'; rw [he']
          · simp at he'
      rw [ha] at hb
      exact hab (Int.ofNat.inj hb)
  · intro a ha b hb
    obtain ⟨pi, _, rfl⟩ := List.mem_map.mp ha
    obtain ⟨pj, _, hbj⟩ := List.mem_flatMap.mp hb
    intro he
    have hb1 : b.1 = Int.ofNat pj := by
      rcases List.mem_append.mp hbj with hbj | hbj
      · obtain ⟨rho, _, rfl⟩ := List.mem_map.mp hbj; rfl
      · split at hbj
        · simp only [List.mem_singleton] at hbj; rw [hbj]
        · simp at hbj
    rw [← he] at hb1
    simp only at hb1
    have h0 : (0 : Int) ≤ Int.ofNat pj := Int.natCast_nonneg _
    omega

/-- **the flow network of the mirror is well formed whenever the graph is** -/
theorem netWfB_closedNet {succs : List (List Nat)} (ws : List Int) (h : GoodGraph succs.length succs) :
    netWfB (closedNet succs ws) = true := by
  have hverts : (closedNet succs ws).verts = (-1 : Int) :: (-2 : Int) :: (List.range succs.length).map Int.ofNat := rfl
  have hmemv : ∀ i, i < succs.length → Int.ofNat i ∈ (closedNet succs ws).verts := by
    intro i hi
    rw [hverts]
    exact List.mem_cons_of_mem _ (List.mem_cons_of_mem _ (List.mem_map.mpr ⟨i, List.mem_range.mpr hi, rfl⟩))
  have hs : (-1 : Int) ∈ (closedNet succs ws).verts := by rw [hverts]; exact List.mem_cons_self
  have ht : (-2 : Int) ∈ (closedNet succs ws).verts := by
    rw [hverts]; exact List.mem_cons_of_mem _ List.mem_cons_self
  unfold netWfB
  simp only [Bool.and_eq_true, decide_eq_true_eq, List.contains_iff_mem, List.all_eq_true, Bool.not_eq_true',
    beq_eq_false_iff_ne, ne_eq]
  refine ⟨⟨⟨⟨⟨?_, hs⟩, ht⟩, (by show ¬ ((-1 : Int) = -2); decide)⟩, ?_⟩, ?_⟩
  · rw [hverts, List.nodup_cons, List.nodup_cons]
    refine ⟨?_, ?_, ?_⟩
    · intro hm
      rcases List.mem_cons.mp hm with hm | hm
      · exact absurd hm (by decide)
      · obtain ⟨i, _, hi⟩ := List.mem_map.mp hm
        have h0 : (0 : Int) ≤ Int.ofNat i := Int.natCast_nonneg _
        omega
    · intro hm
      obtain ⟨i, _, hi⟩ := List.mem_map.mp hm
      have h0 : (0 : Int) ≤ Int.ofNat i := Int.natCast_nonneg _
      omega
    · exact List.nodup_range.map (fun a b hab => Int.ofNat.inj hab)
  · intro e he
    rcases closedNet_edge_cases succs ws e he with ⟨pi, h1, rfl⟩ | ⟨pi, rho, h1, hr, rfl⟩ | ⟨pi, h1, rfl⟩
    · exact ⟨hs, hmemv pi h1⟩
    · exact ⟨hmemv pi h1, hmemv rho ((h pi).2 rho hr)⟩
    · exact ⟨hmemv pi h1, ht⟩
  · refine List.Nodup.map_on ?_ (closedNet_edges_nodup ws h)
    intro x hx y hy hxy
    have k1 : x.1 = y.1 := (Prod.mk.inj hxy).1
    have k2 : x.2.1 = y.2.1 := (Prod.mk.inj hxy).2
    rcases closedNet_edge_cases succs ws x hx with ⟨pi, _, rfl⟩ | ⟨pi, rho, _, _, rfl⟩ | ⟨pi, _, rfl⟩ <;>
    rcases closedNet_edge_cases succs ws y hy with ⟨pj, _, rfl⟩ | ⟨pj, rhoj, _, _, rfl⟩ | ⟨pj, _, rfl⟩ <;>
    simp only at k1 k2
    · have := Int.ofNat.inj k2; subst this; rfl
    · have h0 : (0 : Int) ≤ Int.ofNat pj := Int.natCast_nonneg _
      omega
    · have h0 : (0 : Int) ≤ Int.ofNat pj := Int.natCast_nonneg _
      omega
    · have h0 : (0 : Int) ≤ Int.ofNat pi := Int.natCast_nonneg _
      omega
    · have := Int.ofNat.inj k1; subst this
      have := Int.ofNat.inj k2; subst this; rfl
    · have h0 : (0 : Int) ≤ Int.ofNat rho := Int.natCast_nonneg _
      omega
    · have h0 : (0 : Int) ≤ Int.ofNat pi := Int.natCast_nonneg _
      omega
    · have h0 : (0 : Int) ≤ Int.ofNat rhoj := Int.natCast_nonneg _
      omega
    · have := Int.ofNat.inj k1; subst this; rfl

/-- the network the mirror hands to the max-flow stage is well formed, for every input -/
theorem netWfB_posetGraph (rots : List (List Pair)) (l1 : List (List Nat)) (elim : List (Pair × Nat)) (ws : List Int) :
    netWfB (closedNet (posetGraph rots l1 elim) ws) = true := by
  apply netWfB_closedNet
  rw [posetGraph_length]
  exact goodGraph_posetGraph rots l1 elim

end IrvingAlgo

#print axioms IrvingAlgo.netWfB_posetGraph

namespace IrvingAlgo

open Irving

/-- the only side condition of the max-flow stage that depends on the input: the total negative weight of the
mirror's rotations is below `sys.maxsize` (the "infinite" capacity of the poset edges) -/
def WeightBound (n : Nat) (P1 P2 : List (List Nat)) (V1 V2 : List (List Int)) : Prop :=
  ∀ M0 all elim, maleOptimal n P1 P2 = some M0 →
    allRotations (shortlists n P1 P2 (muOf n M0)).1 (shortlists n P1 P2 (muOf n M0)).2 = some (all, elim) →
    ∑ i ∈ Finset.range all.length, max (-(rotationWeight V1 V2 (all.getD i []))) 0 < maxsize

theorem flowSide_of_weightBound {n : Nat} {P1 P2 : List (List Nat)} {V1 V2 : List (List Int)}
    (h : WeightBound n P1 P2 V1 V2) : FlowSide n P1 P2 V1 V2 := by
  intro M0 all elim hmo hall
  refine ⟨netWfB_posetGraph _ _ _ _, ?_⟩
  rw [posetGraph_length]
  have := h M0 all elim hmo hall
  simpa only [getD_map_weight] using this

/-- the reduction with the automatic half of the side conditions discharged -/
theorem irving_optimal_of_remaining' (hi : Remaining_i) (hj : Remaining_j)
    {n : Nat} {P1 P2 : List (List Nat)} {V1 V2 : List (List Int)} (hbig : WeightBound n P1 P2 V1 V2)
    {M : List Irving.Pair} (h : irving n P1 P2 V1 V2 = .ok M) :
    Brute.optStable n P1 P2 V1 V2 = some (Irving.matchingValue V1 V2 M) :=
  irving_optimal_of_remaining hi hj (flowSide_of_weightBound hbig) h

theorem exLatin_weightBound : WeightBound 3 exL1 exL2 [[0,0,0],[0,0,0],[0,0,0]] [[0,1,5],[5,0,1],[1,5,0]] := by
  refine exLatin_cases (motive := fun _ all _ => ∑ i ∈ Finset.range all.length,
    max (-(rotationWeight [[0,0,0],[0,0,0],[0,0,0]] [[0,1,5],[5,0,1],[1,5,0]] (all.getD i []))) 0 < maxsize) ?_
  decide +kernel

end IrvingAlgo
