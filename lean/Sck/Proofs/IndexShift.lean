import Sck.Model.IndexShift

/-! C13: switching the index convention shifts every reported item / agent by exactly one and changes
nothing else — for the non-voting rule families (`rsdPublic`, `allocPublic`, `pairsPublic`, `galeShapley`). -/

/-! ### serial dictatorship -/

theorem rsdPublic_zero (P : List (List (Option Nat))) (order : List Nat) : rsdPublic 0 P order = rsd P order := by
  unfold rsdPublic
  have : (Option.map (fun x : Nat => x + 0)) = id := by funext o; cases o <;> rfl
  rw [this, List.map_id]

theorem rsdPublic_index_shift (P : List (List (Option Nat))) (order : List Nat) :
    rsdPublic 1 P order = (rsdPublic 0 P order).map (Option.map (· + 1)) := by
  rw [rsdPublic_zero]; rfl

theorem rsdPublic_unshift (fixer : Nat) (P : List (List (Option Nat))) (order : List Nat) :
    (rsdPublic fixer P order).map (Option.map (· - fixer)) = rsd P order := by
  unfold rsdPublic
  rw [List.map_map]
  have : (Option.map (fun x : Nat => x - fixer) ∘ Option.map (fun x : Nat => x + fixer)) = id := by
    funext o; cases o <;> simp
  rw [this, List.map_id]

theorem rsdPublic_index_shift_injective (P : List (List (Option Nat))) (order : List Nat) :
    (rsdPublic 1 P order).map (Option.map (· - 1)) = rsdPublic 0 P order := by
  rw [rsdPublic_unshift, rsdPublic_zero]

theorem rsdPublic_getElem? (fixer : Nat) (P : List (List (Option Nat))) (order : List Nat) (a : Nat) :
    (rsdPublic fixer P order)[a]? = ((rsd P order)[a]?).map (Option.map (· + fixer)) := by
  simp [rsdPublic]

/-! ### allocations -/

theorem allocPublic_zero (sigma : List Nat) : allocPublic 0 sigma = sigma := by
  simp [allocPublic]

theorem allocPublic_index_shift (sigma : List Nat) :
    allocPublic 1 sigma = (allocPublic 0 sigma).map (· + 1) := by
  rw [allocPublic_zero]; rfl

theorem allocPublic_unshift (fixer : Nat) (sigma : List Nat) :
    (allocPublic fixer sigma).map (· - fixer) = sigma := by
  unfold allocPublic
  rw [List.map_map]
  have : ((fun x : Nat => x - fixer) ∘ fun x : Nat => x + fixer) = id := by funext x; simp
  rw [this, List.map_id]

theorem allocPublic_index_shift_injective (sigma : List Nat) :
    (allocPublic 1 sigma).map (· - 1) = allocPublic 0 sigma := by
  rw [allocPublic_unshift, allocPublic_zero]

theorem allocPublic_getElem? (fixer : Nat) (sigma : List Nat) (i : Nat) :
    (allocPublic fixer sigma)[i]? = (sigma[i]?).map (· + fixer) := by
  simp [allocPublic]

/-! ### matchings as pairs -/

theorem pairsPublic_zero (M : List (Nat × Nat)) : pairsPublic 0 M = M := by
  simp [pairsPublic]

theorem pairsPublic_index_shift (M : List (Nat × Nat)) :
    pairsPublic 1 M = (pairsPublic 0 M).map (fun e => (e.1 + 1, e.2 + 1)) := by
  rw [pairsPublic_zero]; rfl

theorem pairsPublic_unshift (fixer : Nat) (M : List (Nat × Nat)) :
    (pairsPublic fixer M).map (fun e => (e.1 - fixer, e.2 - fixer)) = M := by
  unfold pairsPublic
  rw [List.map_map]
  have : ((fun e : Nat × Nat => (e.1 - fixer, e.2 - fixer)) ∘ fun e : Nat × Nat => (e.1 + fixer, e.2 + fixer)) = id := by
    funext e; simp
  rw [this, List.map_id]

theorem pairsPublic_index_shift_injective (M : List (Nat × Nat)) :
    (pairsPublic 1 M).map (fun e => (e.1 - 1, e.2 - 1)) = pairsPublic 0 M := by
  rw [pairsPublic_unshift, pairsPublic_zero]

theorem mem_pairsPublic (fixer : Nat) (M : List (Nat × Nat)) (p : Nat × Nat) :
    p ∈ pairsPublic fixer M ↔ ∃ e ∈ M, p = (e.1 + fixer, e.2 + fixer) := by
  simp only [pairsPublic, List.mem_map]
  constructor
  · rintro ⟨e, he, rfl⟩; exact ⟨e, he, rfl⟩
  · rintro ⟨e, he, rfl⟩; exact ⟨e, he, rfl⟩

/-- `galeShapley` reports its matching through `pairsPublic` -/
theorem galeShapley_eq_pairsPublic (ro : Bool) (fixer : Nat) (I : HR) :
    galeShapley ro fixer I = (if ro then gsRes I else gsHosp I).map (pairsPublic fixer) := rfl

theorem galeShapley_index_shift (ro : Bool) (I : HR) :
    galeShapley ro 1 I = (galeShapley ro 0 I).map (fun mu => mu.map (fun e => (e.1 + 1, e.2 + 1))) := by
  rw [galeShapley_eq_pairsPublic, galeShapley_eq_pairsPublic, Option.map_map]
  congr 1
  funext mu
  simp [pairsPublic_index_shift]

theorem galeShapley_index_shift_injective (ro : Bool) (I : HR) :
    (galeShapley ro 1 I).map (fun mu => mu.map (fun e => (e.1 - 1, e.2 - 1))) = galeShapley ro 0 I := by
  rw [galeShapley_eq_pairsPublic, galeShapley_eq_pairsPublic, Option.map_map]
  congr 1
  funext mu
  simp [pairsPublic_unshift, pairsPublic_zero]
