import Sck.Proofs.Dfs3

/-! C08, mirror of the implementation's `ford_fulkerson` (B3, part 2): the initialisation loop (residual graph
with the added reverse edges of capacity 0, all-zero `flow` dict) establishes the representation invariant
for the zero flow. -/

namespace Dfs

/-- invariant of the initialisation loop after the pairs `P` have been processed (`G` is the input graph) -/
structure InitInv (G : Graph) (P : List (Int × Int)) (Gf : Graph) (fl : FlowDict) : Prop where
  keys : keys Gf = keys G
  nodup : ∀ u, ((adj Gf u).map (·.1)).Nodup
  sup : ∀ u e, e ∈ adj G u → e ∈ adj Gf u
  sub : ∀ u v c, (v, c) ∈ adj Gf u → (v, c) ∈ adj G u ∨ (c = 0 ∧ (v, u) ∈ P ∧ ∀ d, (v, d) ∉ adj G u)
  rev : ∀ i j, (i, j) ∈ P → ∃ d, (i, d) ∈ adj Gf j
  flNodup : (fl.map (·.1)).Nodup
  flZero : ∀ e ∈ fl, e.2 = 0
  flP : ∀ i j, (i, j) ∈ P → (i, j) ∈ fl.map (·.1) ∧ (j, i) ∈ fl.map (·.1)
  flSub : ∀ k ∈ fl.map (·.1), k ∈ P ∨ (k.2, k.1) ∈ P

theorem initStep_ok (G : Graph) (P : List (Int × Int)) (Gf : Graph) (fl : FlowDict)
    (h : InitInv G P Gf fl) (i j : Int) (hj : j ∈ keys G) :
    ∃ g fl', initStep (Gf, fl) i j = .ok (g, fl') ∧ InitInv G (P ++ [(i, j)]) g fl' := by
  have hjf : j ∈ keys Gf := by rw [h.keys]; exact hj
  have hl := adj?_of_mem_keys hjf
  -- the dict part
  have hflN : ((dset (dset fl (i, j) 0) (j, i) 0).map (·.1)).Nodup :=
    nodup_keys_dset _ _ _ (nodup_keys_dset _ _ _ h.flNodup)
  have hflZ : ∀ e ∈ dset (dset fl (i, j) 0) (j, i) 0, e.2 = 0 := by
    intro e he
    rcases mem_dset he with he | rfl
    · rcases mem_dset he with he | rfl
      · exact h.flZero e he
      · rfl
    · rfl
  have hflP : ∀ a b, (a, b) ∈ P ++ [(i, j)] → (a, b) ∈ (dset (dset fl (i, j) 0) (j, i) 0).map (·.1) ∧
      (b, a) ∈ (dset (dset fl (i, j) 0) (j, i) 0).map (·.1) := by
    intro a b hab
    rcases List.mem_append.mp hab with hab | hab
    · obtain ⟨h1, h2⟩ := h.flP a b hab
      exact ⟨keys_subset_dset _ _ _ _ (keys_subset_dset _ _ _ _ h1),
        keys_subset_dset _ _ _ _ (keys_subset_dset _ _ _ _ h2)⟩
    · simp only [List.mem_singleton, Prod.mk.injEq] at hab
      obtain ⟨rfl, rfl⟩ := hab
      exact ⟨keys_subset_dset _ _ _ _ (mem_keys_dset _ _ _), mem_keys_dset _ _ _⟩
  have hflS : ∀ k ∈ (dset (dset fl (i, j) 0) (j, i) 0).map (·.1), k ∈ P ++ [(i, j)] ∨ (k.2, k.1) ∈ P ++ [(i, j)] := by
    intro k hk
    obtain ⟨e, he, rfl⟩ := List.mem_map.mp hk
    rcases mem_dset he with he | rfl
    · rcases mem_dset he with he | rfl
      · rcases h.flSub e.1 (List.mem_map.mpr ⟨e, he, rfl⟩) with h1 | h1
        · exact Or.inl (List.mem_append_left _ h1)
        · exact Or.inr (List.mem_append_left _ h1)
      · left; simp
    · right; simp
  by_cases hall : ((adj Gf j).all (fun e => e.1 != i)) = true
  · -- the reverse edge is appended
    have hno : ∀ d, (i, d) ∉ adj Gf j := by
      intro d hd
      have := List.all_eq_true.mp hall (i, d) hd
      simp at this
    refine ⟨setKey Gf j (adj Gf j ++ [(i, 0)]), dset (dset fl (i, j) 0) (j, i) 0,
      by simp only [initStep, hl, if_pos hall], ?_⟩
    have hadj : ∀ a, adj (setKey Gf j (adj Gf j ++ [(i, 0)])) a =
        if a = j then adj Gf j ++ [(i, 0)] else adj Gf a := by
      intro a
      by_cases ha : a = j
      · rw [if_pos ha, ha]; exact adj_of_adj? (adj?_setKey_self Gf j _ hjf)
      · rw [if_neg ha]; unfold adj; rw [adj?_setKey_ne Gf j a _ ha]
    refine ⟨by rw [keys_setKey]; exact h.keys, ?_, ?_, ?_, ?_, hflN, hflZ, hflP, hflS⟩
    · intro a
      rw [hadj a]
      split
      · rename_i ha
        rw [List.map_append, List.nodup_append]
        refine ⟨h.nodup j, by simp, ?_⟩
        intro x hx y hy
        simp only [List.map_cons, List.map_nil, List.mem_singleton] at hy
        subst hy
        obtain ⟨e, he, rfl⟩ := List.mem_map.mp hx
        intro heq
        exact hno e.2 (by rw [← heq]; exact he)
      · exact h.nodup a
    · intro a e he
      rw [hadj a]
      split
      · rename_i ha; subst ha; exact List.mem_append_left _ (h.sup _ e he)
      · exact h.sup a e he
    · intro a v c hm
      rw [hadj a] at hm
      split at hm
      · rename_i ha
        subst ha
        rcases List.mem_append.mp hm with hm | hm
        · rcases h.sub _ v c hm with h1 | ⟨h1, h2, h3⟩
          · exact Or.inl h1
          · exact Or.inr ⟨h1, List.mem_append_left _ h2, h3⟩
        · simp only [List.mem_singleton, Prod.mk.injEq] at hm
          obtain ⟨rfl, rfl⟩ := hm
          exact Or.inr ⟨rfl, by simp, fun d hd => hno d (h.sup _ _ hd)⟩
      · rcases h.sub _ v c hm with h1 | ⟨h1, h2, h3⟩
        · exact Or.inl h1
        · exact Or.inr ⟨h1, List.mem_append_left _ h2, h3⟩
    · intro a b hab
      rcases List.mem_append.mp hab with hab | hab
      · obtain ⟨d, hd⟩ := h.rev a b hab
        refine ⟨d, ?_⟩
        rw [hadj b]
        split
        · rename_i hb; subst hb; exact List.mem_append_left _ hd
        · exact hd
      · simp only [List.mem_singleton, Prod.mk.injEq] at hab
        obtain ⟨rfl, rfl⟩ := hab
        exact ⟨0, by rw [hadj b, if_pos rfl]; simp⟩
  · -- an entry for `i` exists already
    have hex : ∃ d, (i, d) ∈ adj Gf j := by
      rw [List.all_eq_true] at hall
      simp only [not_forall] at hall
      obtain ⟨e, he, hne⟩ := hall
      have : e.1 = i := by simpa using hne
      exact ⟨e.2, by rw [← this]; exact he⟩
    refine ⟨Gf, dset (dset fl (i, j) 0) (j, i) 0, by simp only [initStep, hl, if_neg hall], ?_⟩
    refine ⟨h.keys, h.nodup, h.sup, ?_, ?_, hflN, hflZ, hflP, hflS⟩
    · intro a v c hm
      rcases h.sub _ v c hm with h1 | ⟨h1, h2, h3⟩
      · exact Or.inl h1
      · exact Or.inr ⟨h1, List.mem_append_left _ h2, h3⟩
    · intro a b hab
      rcases List.mem_append.mp hab with hab | hab
      · exact h.rev a b hab
      · simp only [List.mem_singleton, Prod.mk.injEq] at hab
        obtain ⟨rfl, rfl⟩ := hab
        exact hex

theorem initLoop_ok (G : Graph) :
    ∀ (es P : List (Int × Int)) (Gf : Graph) (fl : FlowDict), InitInv G P Gf fl →
      (∀ e ∈ es, e.2 ∈ keys G) →
      ∃ g fl', initLoop es (Gf, fl) = .ok (g, fl') ∧ InitInv G (P ++ es) g fl' := by
  intro es
  induction es with
  | nil => intro P Gf fl h _; exact ⟨Gf, fl, rfl, by rw [List.append_nil]; exact h⟩
  | cons e es ih =>
    intro P Gf fl h hk
    obtain ⟨g, fl', hstep, hinv⟩ := initStep_ok G P Gf fl h e.1 e.2 (hk e List.mem_cons_self)
    obtain ⟨g', fl'', hloop, hinv'⟩ := ih (P ++ [e]) g fl' hinv (fun e' he' => hk e' (List.mem_cons_of_mem _ he'))
    refine ⟨g', fl'', ?_, ?_⟩
    · simp only [initLoop, hstep]; exact hloop
    · rw [List.append_assoc] at hinv'; exact hinv'

/-! ### the dict of a network -/

theorem keys_netToG (N : Net) : keys (netToG N) = N.verts := by
  simp [keys, netToG, List.map_map, Function.comp_def]

theorem adj?_map (L : List Int) (g : Int → List (Int × Int)) (u : Int) :
    adj? (L.map (fun u => (u, g u))) u = if u ∈ L then some (g u) else none := by
  induction L with
  | nil => simp [adj?]
  | cons a L ih =>
    rw [List.map_cons, adj?_cons]
    by_cases h : a = u
    · simp [h]
    · simp only [h, if_false, ih, List.mem_cons]
      have : ¬ u = a := fun h' => h h'.symm
      simp [this]

theorem adj_netToG (N : Net) (u : Int) :
    adj (netToG N) u = if u ∈ N.verts then
      (N.edges.filter (fun e => e.1 == u)).map (fun e => (e.2.1, (e.2.2 : Int))) else [] := by
  unfold adj netToG
  rw [adj?_map]
  by_cases h : u ∈ N.verts
  · rw [if_pos h, if_pos h]
  · rw [if_neg h, if_neg h]

theorem mem_adj_netToG (N : Net) (u v c : Int) :
    (v, c) ∈ adj (netToG N) u ↔ u ∈ N.verts ∧ ∃ k : Nat, (u, v, k) ∈ N.edges ∧ c = (k : Int) := by
  unfold adj netToG
  rw [adj?_map]
  by_cases hu : u ∈ N.verts
  · simp only [hu, if_true, true_and, List.mem_map, List.mem_filter, beq_iff_eq, Prod.mk.injEq]
    constructor
    · rintro ⟨e, ⟨he, rfl⟩, rfl, rfl⟩
      exact ⟨e.2.2, he, rfl⟩
    · rintro ⟨k, he, rfl⟩
      exact ⟨(u, v, k), ⟨he, rfl⟩, rfl, rfl⟩
  · simp [hu]

theorem mem_edgePairs (G : Graph) (hnd : (keys G).Nodup) (i j : Int) :
    (i, j) ∈ edgePairs G ↔ ∃ c, (j, c) ∈ adj G i := by
  induction G with
  | nil => simp [edgePairs, adj, adj?]
  | cons e G ih =>
    simp only [keys, List.map_cons, List.nodup_cons] at hnd
    have ih' := ih hnd.2
    simp only [edgePairs, List.flatMap_cons, List.mem_append, List.mem_map, Prod.mk.injEq] at ih' ⊢
    unfold adj
    rw [adj?_cons]
    by_cases he : e.1 = i
    · rw [if_pos he]
      constructor
      · rintro (⟨a, ha, _, rfl⟩ | h)
        · exact ⟨a.2, ha⟩
        · exfalso
          obtain ⟨c, hc⟩ := ih'.mp h
          apply hnd.1
          rw [he]
          exact mem_keys_of_mem_adj hc
      · rintro ⟨c, hc⟩
        exact Or.inl ⟨(j, c), hc, he, rfl⟩
    · rw [if_neg he]
      constructor
      · rintro (⟨a, _, h1, _⟩ | h)
        · exact absurd h1 he
        · exact ih'.mp h
      · intro h
        exact Or.inr (ih'.mpr h)

theorem nodup_adj_netToG (N : Net) (hwf : N.WF') : ∀ u, ((adj (netToG N) u).map (·.1)).Nodup := by
    intro u
    rw [adj_netToG]
    split
    · rw [List.map_map]
      have h1 : ((N.edges.filter (fun e => e.1 == u)).map (fun e => (e.1, e.2.1))).Nodup :=
        (hwf.edge_nodup.sublist (List.Sublist.map _ List.filter_sublist))
      have h2 : (N.edges.filter (fun e => e.1 == u)).map ((fun e : Int × Int => e.1) ∘ fun e => (e.2.1, (e.2.2 : Int)))
          = ((N.edges.filter (fun e => e.1 == u)).map (fun e => (e.1, e.2.1))).map (·.2) := by
        rw [List.map_map]; rfl
      rw [h2]
      refine List.Nodup.map_on ?_ h1
      intro x hx y hy hxy
      obtain ⟨e1, he1, rfl⟩ := List.mem_map.mp hx
      obtain ⟨e2, he2, rfl⟩ := List.mem_map.mp hy
      have q1 := (List.mem_filter.mp he1).2
      have q2 := (List.mem_filter.mp he2).2
      simp only [beq_iff_eq] at q1 q2
      simp only at hxy
      simp [q1, q2, hxy]
    · simp

/-- **The initial state represents the zero flow.**  On a well-formed network the initialisation of
`ford_fulkerson` raises no `KeyError`, and the residual graph with the added reverse edges together with the
all-zero `flow` dict represents the zero flow. -/
theorem mkResidual_ok (N : Net) (hwf : N.WF') :
    ∃ Gf fl, mkResidual (netToG N) = .ok (Gf, fl) ∧ Gf.length = N.verts.length ∧
      Repr N Gf fl (fun _ _ => 0) := by
  have hkN : (keys (netToG N)).Nodup := by rw [keys_netToG]; exact hwf.nodup
  have hE : ∀ i j, (i, j) ∈ edgePairs (netToG N) ↔ i ∈ N.verts ∧ ∃ k : Nat, (i, j, k) ∈ N.edges := by
    intro i j
    rw [mem_edgePairs _ hkN]
    constructor
    · rintro ⟨c, hc⟩
      obtain ⟨h1, k, h2, _⟩ := (mem_adj_netToG N i j c).mp hc
      exact ⟨h1, k, h2⟩
    · rintro ⟨h1, k, h2⟩
      exact ⟨k, (mem_adj_netToG N i j k).mpr ⟨h1, k, h2, rfl⟩⟩
  have hnd0 := nodup_adj_netToG N hwf
  have h0 : InitInv (netToG N) [] (netToG N) [] :=
    ⟨rfl, hnd0, fun _ _ h => h, fun _ _ _ h => Or.inl h, fun _ _ h => by simp at h, by simp,
      fun _ h => by simp at h, fun _ _ h => by simp at h, fun _ h => by simp at h⟩
  obtain ⟨Gf, fl, hloop, hinv⟩ := initLoop_ok (netToG N) (edgePairs (netToG N)) [] (netToG N) [] h0 (by
    intro e he
    obtain ⟨_, k, hk⟩ := (hE e.1 e.2).mp he
    rw [keys_netToG]
    exact (hwf.edge_mem _ hk).2)
  rw [List.nil_append] at hinv
  have hlen : Gf.length = N.verts.length := by
    have := congrArg List.length hinv.keys
    simpa [keys, netToG] using this
  refine ⟨Gf, fl, hloop, hlen, ?_⟩
  have hcap0 : ∀ u v, (∀ d, (v, d) ∉ adj (netToG N) u) → N.cap u v = 0 := by
    intro u v hno
    by_contra hne
    have hpos : 0 < N.cap u v := by
      have := cap_nonneg N u v
      omega
    obtain ⟨k, hk⟩ := cap_pos_edge hpos
    exact hno k ((mem_adj_netToG N u v k).mpr ⟨(hwf.edge_mem _ hk).1, k, hk, rfl⟩)
  refine ⟨by rw [hinv.keys, keys_netToG], hinv.nodup, ?_, ?_, ?_, ?_, hinv.flNodup, ?_, ?_, ?_⟩
  · intro u v c hm
    rcases hinv.sub u v c hm with h1 | ⟨rfl, h2, h3⟩
    · obtain ⟨_, k, hk, rfl⟩ := (mem_adj_netToG N u v c).mp h1
      exact ⟨(hwf.edge_mem _ hk).2, by rw [cap_of_edge hwf hk]; simp⟩
    · obtain ⟨hv, _⟩ := (hE v u).mp h2
      exact ⟨hv, by rw [hcap0 u v h3]; simp⟩
  · intro u v c hm
    rcases hinv.sub u v c hm with h1 | ⟨_, h2, _⟩
    · obtain ⟨_, k, hk, _⟩ := (mem_adj_netToG N u v c).mp h1
      exact Or.inl ⟨k, hk⟩
    · obtain ⟨_, k, hk⟩ := (hE v u).mp h2
      exact Or.inr ⟨k, hk⟩
  · intro u v hno
    exact ⟨hcap0 u v (fun d hd => hno d (hinv.sup u _ hd)), rfl⟩
  · intro u v c hm
    rcases hinv.sub u v c hm with h1 | ⟨_, h2, _⟩
    · obtain ⟨hu, k, hk, _⟩ := (mem_adj_netToG N u v c).mp h1
      exact hinv.rev u v ((hE u v).mpr ⟨hu, k, hk⟩)
    · obtain ⟨hv, k, hk⟩ := (hE v u).mp h2
      exact ⟨k, hinv.sup v _ ((mem_adj_netToG N v u k).mpr ⟨hv, k, hk, rfl⟩)⟩
  · intro u v c hm
    rcases hinv.sub u v c hm with h1 | ⟨_, h2, _⟩
    · obtain ⟨hu, k, hk, _⟩ := (mem_adj_netToG N u v c).mp h1
      exact (hinv.flP u v ((hE u v).mpr ⟨hu, k, hk⟩)).1
    · exact (hinv.flP v u h2).2
  · intro u v x hm
    exact hinv.flZero _ hm
  · intro e he
    exact (hinv.flP e.1 e.2.1 ((hE e.1 e.2.1).mpr ⟨(hwf.edge_mem _ he).1, e.2.2, he⟩)).1

end Dfs
