import Sck.Proofs.BSearch
import Mathlib.Algebra.Order.Field.Basic
import Mathlib.Algebra.Order.Ring.Rat
import Mathlib.Tactic.Positivity

/-! C14 prototype: the threshold-step simulated valuation of one agent, in ranking-position space.
`vals q` is the agent's true value of the alternative at position `q` of its ranking (0 = favourite). -/

/-- what is known about position `q` after the thresholds in `done` (in order) were processed -/
def PosSpec (vals : Nat → ℚ) (vstar floor : ℚ) (done : List ℚ) (prev : Nat) (acc : Nat → ℚ) (q : Nat) : Prop :=
  if q ≤ prev then
    ∃ pre lam post, done = pre ++ lam :: post ∧ acc q = vstar / lam ∧ vstar / lam ≤ vals q ∧
      ∀ lam' ∈ pre, vals q < vstar / lam'
  else acc q = floor ∧ ∀ lam' ∈ done, vals q < vstar / lam'

structure SimWF (vals : Nat → ℚ) (m : Nat) (lams : List ℚ) : Prop where
  mpos : 0 < m
  anti : ∀ i j, i ≤ j → j < m → vals j ≤ vals i
  nonneg : 0 ≤ vals 0
  ge_one : ∀ lam ∈ lams, 1 ≤ lam
  sorted : lams.Pairwise (· ≤ ·)

theorem div_le_div_lam (v lam lam' : ℚ) (hv : 0 ≤ v) (h1 : 1 ≤ lam) (hle : lam ≤ lam') :
    v / lam' ≤ v / lam := by
  have hl : 0 < lam := by linarith
  exact div_le_div_of_nonneg_left hv hl hle

theorem simLoop_spec (vals : Nat → ℚ) (m : Nat) (floor : ℚ) (hm : 0 < m)
    (anti : ∀ i j, i ≤ j → j < m → vals j ≤ vals i) (nonneg : 0 ≤ vals 0) :
    ∀ (rest done : List ℚ) (prev : Nat) (acc : Nat → ℚ),
      (∀ lam ∈ rest, 1 ≤ lam) → rest.Pairwise (· ≤ ·) →
      prev < m →
      (∀ q, q ≤ prev → ∀ lam ∈ rest, vals 0 / lam ≤ vals q) →
      (∀ q, 0 < q → q < m → PosSpec vals (vals 0) floor done prev acc q) →
      acc 0 = vals 0 →
      ∃ sim, simLoop vals m (vals 0) rest prev acc = some sim ∧ sim 0 = vals 0 ∧
        ∃ prev', ∀ q, 0 < q → q < m → PosSpec vals (vals 0) floor (done ++ rest) prev' sim q := by
  intro rest
  induction rest with
  | nil =>
    intro done prev acc _ _ _ _ hspec h0
    exact ⟨acc, rfl, h0, prev, by simpa using hspec⟩
  | cons lam rest ih =>
    intro done prev acc hge hsorted hprev hlow hspec h0
    have hlam1 : 1 ≤ lam := hge lam (by simp)
    have hlampos : (0 : ℚ) < lam := by linarith
    have hmono : ∀ i j, i ≤ j → j < m → geThr vals (vals 0 / lam) j = true →
        geThr vals (vals 0 / lam) i = true := by
      intro i j hij hj h
      simp only [geThr, decide_eq_true_eq] at h ⊢
      exact le_trans h (anti i j hij hj)
    have hlo : geThr vals (vals 0 / lam) 0 = true := by
      simp only [geThr, decide_eq_true_eq]
      exact div_le_self nonneg hlam1
    have hb := bsearchQ_spec (geThr vals (vals 0 / lam)) m hmono m 0 m rfl hm (Nat.le_refl _) hlo (Or.inl rfl)
    dsimp only at hb
    obtain ⟨_, hpm, hle_p, hgt_p⟩ := hb
    set p := (bsearchQ (geThr vals (vals 0 / lam)) 0 m).1 with hp
    have hle_p' : ∀ q, q ≤ p → vals 0 / lam ≤ vals q := by
      intro q hq; have := hle_p q hq; simpa [geThr] using this
    have hgt_p' : ∀ q, p < q → q < m → vals q < vals 0 / lam := by
      intro q hq hqm; have := hgt_p q hq hqm; simpa [geThr] using this
    have hprev_le : prev ≤ p := by
      by_contra hc
      have := hgt_p' prev (by omega) hprev
      have := hlow prev (Nat.le_refl _) lam (by simp)
      linarith
    simp only [simLoop]
    rw [← hp]
    have hnot : ¬ p < prev := by omega
    simp only [hnot, if_false]
    have hsorted' := List.pairwise_cons.mp hsorted
    obtain ⟨sim, hsim, hsim0, prev', hfinal⟩ :=
      ih (done ++ [lam]) p (fun q => if prev < q ∧ q ≤ p then vals 0 / lam else acc q)
        (fun l hl => hge l (by simp [hl])) hsorted'.2 hpm
        (by
          intro q hq l hl
          have h1 := hle_p' q hq
          have hlle : lam ≤ l := hsorted'.1 l hl
          exact le_trans (div_le_div_lam (vals 0) lam l nonneg hlam1 hlle) h1)
        (by
          intro q hq0 hqm
          unfold PosSpec
          by_cases hqp : q ≤ p
          · rw [if_pos hqp]
            by_cases hqprev : q ≤ prev
            · -- untouched, already specified
              have hs := hspec q hq0 hqm
              simp only [PosSpec, hqprev, if_true] at hs
              obtain ⟨pre, l, post, hd, hacc, hlow', hup⟩ := hs
              refine ⟨pre, l, post ++ [lam], by simp [hd], ?_, hlow', hup⟩
              have : ¬ (prev < q ∧ q ≤ p) := by omega
              dsimp only; rw [if_neg this]; exact hacc
            · -- newly filled
              have hs := hspec q hq0 hqm
              simp only [PosSpec, hqprev, if_false] at hs
              refine ⟨done, lam, [], rfl, ?_, hle_p' q hqp, hs.2⟩
              have : prev < q ∧ q ≤ p := ⟨by omega, hqp⟩
              dsimp only; rw [if_pos this]
          · rw [if_neg hqp]
            have hqprev : ¬ q ≤ prev := by omega
            have hs := hspec q hq0 hqm
            simp only [PosSpec, hqprev, if_false] at hs
            have : ¬ (prev < q ∧ q ≤ p) := by omega
            dsimp only; rw [if_neg this]
            refine ⟨hs.1, ?_⟩
            intro l hl
            simp only [List.mem_append, List.mem_singleton] at hl
            rcases hl with hl | rfl
            · exact hs.2 l hl
            · exact hgt_p' q (by omega) hqm)
        (by
          have : ¬ (prev < 0 ∧ 0 ≤ p) := by omega
          rw [if_neg this]; exact h0)
    refine ⟨sim, hsim, hsim0, prev', ?_⟩
    simpa [List.append_assoc] using hfinal

/-- Headline: under well-formedness the simulation succeeds, keeps the favourite, and every other
position either sits in the set of some threshold `lam` (simulated value exactly `v*/lam`, true value
at least that, and strictly below `v*/lam'` for every earlier threshold) or in no set (floor value,
true value strictly below every threshold). -/
theorem simulate_spec (floor : ℚ) (vals : Nat → ℚ) (m : Nat) (lams : List ℚ) (h : SimWF vals m lams) :
    ∃ sim, simulate floor vals m lams = some sim ∧ sim 0 = vals 0 ∧
      ∀ q, 0 < q → q < m →
        (∃ pre lam post, lams = pre ++ lam :: post ∧ sim q = vals 0 / lam ∧ vals 0 / lam ≤ vals q ∧
            ∀ lam' ∈ pre, vals q < vals 0 / lam') ∨
        (sim q = floor ∧ ∀ lam' ∈ lams, vals q < vals 0 / lam') := by
  obtain ⟨sim, hsim, h0, prev', hspec⟩ :=
    simLoop_spec vals m floor h.mpos h.anti h.nonneg lams [] 0 (fun q => if q = 0 then vals 0 else floor)
      h.ge_one h.sorted h.mpos
      (by
        intro q hq lam hlam
        have : q = 0 := by omega
        subst this
        exact div_le_self h.nonneg (h.ge_one lam hlam))
      (by
        intro q hq0 hqm
        have hq : ¬ q ≤ 0 := by omega
        have hq' : q ≠ 0 := by omega
        simp [PosSpec, hq, hq'])
      (by simp)
  refine ⟨sim, hsim, h0, ?_⟩
  intro q hq0 hqm
  have := hspec q hq0 hqm
  simp only [List.nil_append, PosSpec] at this
  split at this
  · exact Or.inl this
  · exact Or.inr this

#print axioms simulate_spec
