import Sck.Model.McmMirror
import Sck.Proofs.FlowHelpers
import Sck.Proofs.McmTotal

/-! C09, the faithful mirror `Mirror.mcmMirror` of `maximum_cardinality_matching_bipartite`: reduction to the mirror of
`ford_fulkerson` (`Dfs.ffDfs_final`, `Dfs.ffDfs_terminates`) and to the read-out lemmas of the abstract model
(`mcmOfFlow_isMatching`, `mcmOfFlow_maximum`, `mcmOfFlow_length`). -/

namespace Mirror

open Dfs (FlowDict dget? toTriples edgePairs netToG)
open FH (BGraph keysB)

/-! ### the dict lookups of the read-out loop -/

theorem lookup?_eq_adjOf (G : BGraph) (x : Int) (hx : x ∈ keysB G) : lookup? G x = some (adjOf G x) := by
  unfold lookup? adjOf
  cases hf : G.find? (fun e => e.1 == x) with
  | some e => rfl
  | none =>
    exfalso
    obtain ⟨e, he, rfl⟩ := List.mem_map.mp hx
    have := List.find?_eq_none.mp hf e he
    simp at this

theorem lookup?_none (G : BGraph) (x : Int) (hx : x ∉ keysB G) : lookup? G x = none := by
  unfold lookup?
  cases hf : G.find? (fun e => e.1 == x) with
  | none => rfl
  | some e =>
    exfalso
    have hm := List.mem_of_find?_eq_some hf
    have hp := List.find?_some hf
    simp only [beq_iff_eq] at hp
    exact hx (List.mem_map.mpr ⟨e, hm, hp⟩)

/-- when `flow[(x, y)]` is `f x y` for all `y` of the list, the comprehension is the mapped list -/
theorem flowVals_eq (fl : FlowDict) (f : Flow) (x : Int) :
    ∀ l : List Int, (∀ y ∈ l, dget? fl (x, y) = some (f x y)) → flowVals fl x l = some (l.map (fun y => f x y)) := by
  intro l
  induction l with
  | nil => intro _; rfl
  | cons y ys ih =>
    intro h
    have h1 := h y (by simp)
    have h2 := ih (fun y' hy' => h y' (by simp [hy']))
    simp only [flowVals, h1, h2, List.map_cons]

/-- the body of the mirrored read-out loop is the `mcmEmit` of the abstract model -/
theorem emit_eq (G : BGraph) (fl : FlowDict) (f : Flow) (x : Int) (hx : x ∈ keysB G)
    (hfl : ∀ y ∈ adjOf G x, dget? fl (x, y) = some (f x y)) :
    emit G fl x = .ok (mcmEmit (adjOf G) f x) := by
  unfold emit mcmEmit
  rw [lookup?_eq_adjOf G x hx]
  cases hadj : adjOf G x with
  | nil => rfl
  | cons y0 ys =>
    simp only
    rw [hadj] at hfl
    rw [flowVals_eq fl f x (y0 :: ys) hfl]
    simp only
    obtain ⟨hlt, _⟩ := argmaxFirst_spec ((y0 :: ys).map (fun y => f x y)) (by simp)
    have hlt' : argmaxFirst ((y0 :: ys).map (fun y => f x y)) < (y0 :: ys).length := by simpa using hlt
    rw [List.getElem?_eq_getElem hlt']
    simp only
    rw [hfl _ (List.getElem_mem hlt')]
    simp only
    split <;> rfl

/-- the mirrored read-out loop is the `mcmOfFlow` of the abstract model -/
theorem extract_eq (G : BGraph) (fl : FlowDict) (f : Flow) :
    ∀ X : List Int, (∀ x ∈ X, x ∈ keysB G) → (∀ x ∈ X, ∀ y ∈ adjOf G x, dget? fl (x, y) = some (f x y)) →
      extract G fl X = .ok (mcmOfFlow X (adjOf G) f) := by
  intro X
  induction X with
  | nil => intro _ _; rfl
  | cons x xs ih =>
    intro hk hfl
    have h1 := emit_eq G fl f x (hk x (by simp)) (hfl x (by simp))
    have h2 := ih (fun x' hx' => hk x' (by simp [hx'])) (fun x' hx' => hfl x' (by simp [hx']))
    unfold extract
    rw [h1, h2]
    simp only [mcmOfFlow, List.filterMap_cons]
    cases mcmEmit (adjOf G) f x <;> rfl

/-! ### the flow dict returned by the mirrored `ford_fulkerson` -/

/-- `flow[(u, v)]` for an edge `(u, v)` of the network is the net flow denoted by the dict -/
theorem dget?_of_final {N : Net} {fl : FlowDict} {S : List Int} {paths : List (List Int × Int)} {f : Flow}
    (hfin : Dfs.Final N fl S paths f) (hwf : N.WF') (u v : Int) (k : Nat) (he : (u, v, k) ∈ N.edges) :
    dget? fl (u, v) = some (f u v) := by
  rw [← FH.entryVal_toTriples, hfin.dict, Dfs.entryVal_map,
    if_pos ((Dfs.mem_edgePairs_netToG N hwf u v).mpr ⟨k, he⟩)]

/-! ### the main reduction -/

/-- what `mcmMirror` computes on a valid instance: the abstract read-out `mcmOfFlow` of a flow `f` on the unit network
`bipNet X Y (adjOf G)` that is certified maximum by a cut -/
theorem mcmMirror_run (G : BGraph) (X Y : List Int) (hwf : bipWfB X Y (adjOf G) = true)
    (hkeys : ∀ x ∈ X, x ∈ keysB G) :
    ∃ (f : Flow) (S : List Int), mcmMirror G X Y = .ok (mcmOfFlow X (adjOf G) f) ∧
      BipFlow X Y (adjOf G) f ∧ (-1 : Int) ∈ S ∧ (-2 : Int) ∉ S ∧
      flowValue (bipNet X Y (adjOf G)).verts.toFinset (-1) f =
        cutCap (bipNet X Y (adjOf G)).verts.toFinset (bipNet X Y (adjOf G)).cap S.toFinset := by
  have w := (bipWfB_iff X Y (adjOf G)).mp hwf
  have hnet := bipNet_wf X Y (adjOf G) hwf
  have hwf' := (netWfB_iff _).mp hnet
  have hconv := FH.convert_eq_netToG G X Y (FH.SidesOK.of_bipWF w)
  have hfuel : ffFuel (bipNet X Y (adjOf G)) ≤ X.length + 1 := by
    rw [ffFuel_bipNet X Y (adjOf G) hwf]; exact Nat.le_refl _
  obtain ⟨⟨fl, S, paths⟩, hrun⟩ := Dfs.ffDfs_terminates (bipNet X Y (adjOf G)) hwf' (X.length + 1) hfuel
  have hfin := Dfs.ffDfs_final (bipNet X Y (adjOf G)) hwf' (X.length + 1) fl S paths hrun
  have hrun' : Dfs.ffDfs (FH.convert G X Y) (-1) (-2) (X.length + 1) = .ok (fl, S, paths) := by
    rw [hconv]; exact hrun
  refine ⟨flowOf (toTriples fl), S, ?_, hfin.isFlow, hfin.s_mem, hfin.t_not, hfin.tight⟩
  unfold mcmMirror
  rw [hrun']
  simp only
  refine extract_eq G fl _ X hkeys (fun x hx y hy => ?_)
  exact dget?_of_final hfin hwf' x y 1
    ((mem_bipNet_edges X Y (adjOf G) (x, y, 1)).mpr ⟨rfl, Or.inl ⟨hx, hy⟩⟩)

end Mirror
