import Sck.Proofs.DA2

/-- rank facts: acceptable proposers have distinct ranks -/
theorem rk_lt_of_ne (I : DA) (hwf : WF I) {r p q a b : Nat} (hp : I.rrank r p = some a) (hq : I.rrank r q = some b)
    (hne : p ≠ q) (hle : rk I r p ≤ rk I r q) : a < b := by
  have h1 : rk I r p = a := by simp [rk, hp]
  have h2 : rk I r q = b := by simp [rk, hq]
  have : a ≠ b := fun h => hne (hwf.2 r p q a hp (h ▸ hq))
  omega

theorem step_inv (I : DA) (hwf : WF I) (st : St) (p : Nat) (h : DAInv I st) : DAInv I (step I st p) := by
  unfold step
  split
  · exact h
  · rename_i r hr
    have hfresh := fresh I hwf st h p r hr
    have hlen : st.ptr p < (I.plist p).length := (List.getElem?_eq_some_iff.mp hr).1
    -- facts shared by all branches about the advanced pointer
    have hptr_le : ∀ q, setPtr st.ptr p (st.ptr p + 1) q ≤ (I.plist q).length := by
      intro q; unfold setPtr; split
      · next hq => subst hq; omega
      · exact h.ptr_le q
    have hold : ∀ q i r', i < setPtr st.ptr p (st.ptr p + 1) q → (I.plist q)[i]? = some r' →
        (q, r') ≠ (p, r) → i < st.ptr q := by
      intro q i r' hi hir hne
      unfold setPtr at hi; split at hi
      · next hq =>
        subst hq
        by_cases hip : i = st.ptr q
        · subst hip; rw [hr] at hir; simp at hir; subst hir; exact absurd rfl hne
        · omega
      · exact hi
    split
    · -- receiver finds proposer unacceptable
      rename_i hnone
      refine ⟨h.nodup, ?_, h.acc, h.capR, ?_, hptr_le⟩
      · intro q r' hm
        obtain ⟨i, hi, hir⟩ := h.before q r' hm
        exact ⟨i, Nat.lt_of_lt_of_le hi (setPtr_ge st.ptr p q), hir⟩
      · intro q i r' a' hi hir ha' hnm
        by_cases hqr : (q, r') = (p, r)
        · simp at hqr; obtain ⟨rfl, rfl⟩ := hqr; rw [hnone] at ha'; simp at ha'
        · exact h.rej q i r' a' (hold q i r' hi hir hqr) hir ha' hnm
    · rename_i a ha
      have hbefore1 : ∀ q r', (q, r') ∈ (p, r) :: st.mu →
          ∃ i, i < setPtr st.ptr p (st.ptr p + 1) q ∧ (I.plist q)[i]? = some r' := by
        intro q r' hm
        simp at hm
        rcases hm with ⟨rfl, rfl⟩ | hm
        · exact ⟨st.ptr q, by simp [setPtr], hr⟩
        · obtain ⟨i, hi, hir⟩ := h.before q r' hm
          exact ⟨i, Nat.lt_of_lt_of_le hi (setPtr_ge st.ptr p q), hir⟩
      have hacc1 : ∀ q r', (q, r') ∈ (p, r) :: st.mu → ∃ a, I.rrank r' q = some a := by
        intro q r' hm
        simp at hm
        rcases hm with ⟨rfl, rfl⟩ | hm
        · exact ⟨a, ha⟩
        · exact h.acc q r' hm
      have hnd1 : ((p, r) :: st.mu).Nodup := List.nodup_cons.mpr ⟨hfresh, h.nodup⟩
      dsimp only
      split
      · -- room
        rename_i hroom
        refine ⟨hnd1, hbefore1, hacc1, ?_, ?_, hptr_le⟩
        · intro r'
          by_cases hrr : r = r'
          · subst hrr; exact hroom
          · rw [heldBy_cons_ne _ _ _ _ hrr]; exact h.capR r'
        · intro q i r' a' hi hir ha' hnm
          have hne : (q, r') ≠ (p, r) := by intro he; apply hnm; simp [he]
          have hnm0 : (q, r') ∉ st.mu := by intro hm; apply hnm; simp [hm]
          obtain ⟨hfull, hbetter⟩ := h.rej q i r' a' (hold q i r' hi hir hne) hir ha' hnm0
          by_cases hrr : r = r'
          · subst hrr
            rw [heldBy_cons_same] at hroom
            simp at hroom; omega
          · rw [heldBy_cons_ne _ _ _ _ hrr]; exact ⟨hfull, hbetter⟩
      · rename_i hover
        have hover' : I.qr r < (heldBy ((p, r) :: st.mu) r).length := by omega
        have hlen1 : (heldBy ((p, r) :: st.mu) r).length = (heldBy st.mu r).length + 1 := by
          rw [heldBy_cons_same]; simp
        have hcap := h.capR r
        split
        · rename_i hw
          have := worst_some I r (heldBy ((p, r) :: st.mu) r) (by rw [heldBy_cons_same]; simp)
          obtain ⟨w, hw'⟩ := this; rw [hw] at hw'; simp at hw'
        · rename_i w hw
          have hwmem : (w, r) ∈ (p, r) :: st.mu := mem_heldBy.mp (worst_mem I r _ w hw)
          have hge := worst_ge I r _ w hw
          have hmem2 : ∀ q r', (q, r') ∈ ((p, r) :: st.mu).erase (w, r) ↔ (q, r') ≠ (w, r) ∧ (q, r') ∈ (p, r) :: st.mu :=
            fun q r' => List.Nodup.mem_erase_iff hnd1
          refine ⟨List.Nodup.erase _ hnd1, ?_, ?_, ?_, ?_, hptr_le⟩
          · intro q r' hm; exact hbefore1 q r' ((hmem2 q r').mp hm).2
          · intro q r' hm; exact hacc1 q r' ((hmem2 q r').mp hm).2
          · intro r'
            dsimp only
            by_cases hrr : r = r'
            · subst hrr
              have := heldBy_erase_len _ w r hwmem
              omega
            · rw [heldBy_erase_ne _ _ _ _ hrr, heldBy_cons_ne _ _ _ _ hrr]; exact h.capR r'
          · intro q i r' a' hi hir ha' hnm
            dsimp only at hi hnm ⊢
            by_cases hrr : r = r'
            · subst hrr
              have hl := heldBy_erase_len _ w r hwmem
              refine ⟨by omega, ?_⟩
              intro p' hp'
              have hp'2 := (hmem2 p' r).mp (mem_heldBy.mp hp')
              have hp'ne : p' ≠ w := by intro he; apply hp'2.1; simp [he]
              obtain ⟨b, hb⟩ := hacc1 p' r hp'2.2
              obtain ⟨c, hc⟩ := hacc1 w r hwmem
              have hp'w : b < c := rk_lt_of_ne I hwf hb hc hp'ne (hge p' (mem_heldBy.mpr hp'2.2))
              by_cases hqw : q = w
              · subst hqw
                rw [hc] at ha'; simp at ha'; subst ha'
                exact ⟨b, hb, hp'w⟩
              · have hq1 : (q, r) ∉ (p, r) :: st.mu := by
                  intro hm; apply hnm; exact (hmem2 q r).mpr ⟨by simp [hqw], hm⟩
                have hne : (q, r) ≠ (p, r) := by intro he; apply hq1; simp [he]
                have hnm0 : (q, r) ∉ st.mu := by intro hm; apply hq1; simp [hm]
                obtain ⟨hfull, hbetter⟩ := h.rej q i r a' (hold q i r hi hir hne) hir ha' hnm0
                -- w is in the old held set or is p
                have hwold : w = p ∨ w ∈ heldBy st.mu r := by
                  have := worst_mem I r _ w hw
                  rw [heldBy_cons_same] at this; simpa using this
                have hp'old : p' = p ∨ p' ∈ heldBy st.mu r := by
                  have := mem_heldBy.mpr hp'2.2
                  rw [heldBy_cons_same] at this; simpa using this
                rcases hp'old with rfl | hp'old
                · -- p' = p, so w is old and better than q
                  rcases hwold with rfl | hwold
                  · exact absurd rfl hp'ne
                  · obtain ⟨c', hc', hlt⟩ := hbetter w hwold
                    rw [hc] at hc'; simp at hc'; subst hc'
                    exact ⟨b, hb, by omega⟩
                · exact hbetter p' hp'old
            · have hne : (q, r') ≠ (p, r) := by intro he; simp at he; exact hrr he.2.symm
              have hnew : (q, r') ≠ (w, r) := by intro he; simp at he; exact hrr he.2.symm
              have hq1 : (q, r') ∉ (p, r) :: st.mu := by
                intro hm; apply hnm; exact (hmem2 q r').mpr ⟨hnew, hm⟩
              have hnm0 : (q, r') ∉ st.mu := by intro hm; apply hq1; simp [hm]
              rw [heldBy_erase_ne _ _ _ _ hrr, heldBy_cons_ne _ _ _ _ hrr]
              exact h.rej q i r' a' (hold q i r' hi hir hne) hir ha' hnm0

#print axioms step_inv
