import Sck.Proofs.GsHosp

/-! L5: facts about the generic deferred-acceptance model used by the refinement proofs of the mirrors:
the four cases of `step` as equations, rounds iterated without fuel, `matchesOf` under `erase`. -/

/-! ### `step`, case by case -/

theorem step_exhausted (I : DA) (st : St) (p : Nat) (h : (I.plist p)[st.ptr p]? = none) : step I st p = st := by
  unfold step; rw [h]

theorem step_rejected (I : DA) (st : St) (p r : Nat) (h : (I.plist p)[st.ptr p]? = some r)
    (hr : I.rrank r p = none) :
    step I st p = { ptr := setPtr st.ptr p (st.ptr p + 1), mu := st.mu } := by
  unfold step; rw [h]; simp only [hr]

theorem step_room (I : DA) (st : St) (p r a : Nat) (h : (I.plist p)[st.ptr p]? = some r)
    (hr : I.rrank r p = some a) (hroom : (heldBy ((p, r) :: st.mu) r).length ≤ I.qr r) :
    step I st p = { ptr := setPtr st.ptr p (st.ptr p + 1), mu := (p, r) :: st.mu } := by
  unfold step; rw [h]; simp only [hr, hroom, if_true]

theorem step_full (I : DA) (st : St) (p r a w : Nat) (h : (I.plist p)[st.ptr p]? = some r)
    (hr : I.rrank r p = some a) (hfull : ¬ (heldBy ((p, r) :: st.mu) r).length ≤ I.qr r)
    (hw : worst I r (heldBy ((p, r) :: st.mu) r) = some w) :
    step I st p = { ptr := setPtr st.ptr p (st.ptr p + 1), mu := ((p, r) :: st.mu).erase (w, r) } := by
  unfold step; rw [h]; simp only [hr, hfull, if_false, hw]

/-! ### rounds without fuel -/

def iterRound (I : DA) (np : Nat) : Nat → St → St
  | 0, st => st
  | k + 1, st => iterRound I np k (gsRound I np st)

theorem foldl_inactive (I : DA) (st : St) (ps : List Nat) (s : St) (h : ∀ p ∈ ps, active I st p = false) :
    ps.foldl (fun s p => if active I st p then step I s p else s) s = s := by
  induction ps generalizing s with
  | nil => rfl
  | cons p ps ih =>
    simp only [List.foldl_cons, h p (by simp)]
    exact ih s (fun q hq => h q (by simp [hq]))

theorem gsRound_idle (I : DA) (np : Nat) (st : St) (h : (List.range np).any (active I st) = false) :
    gsRound I np st = st := by
  unfold gsRound
  apply foldl_inactive
  intro p hp
  have := List.any_eq_false.mp h p hp
  simpa using this

theorem iterRound_idle (I : DA) (np : Nat) (st : St) (h : (List.range np).any (active I st) = false) (k : Nat) :
    iterRound I np k st = st := by
  induction k with
  | zero => rfl
  | succ k ih => simp only [iterRound, gsRound_idle I np st h]; exact ih

/-- whatever the fuelled loop returns is the first idle state of the un-fuelled iteration -/
theorem gsLoop_eq_iter (I : DA) (np : Nat) (fuel : Nat) (st st' : St) (h : gsLoop I np fuel st = some st')
    (k : Nat) (hk : (List.range np).any (active I (iterRound I np k st)) = false) :
    iterRound I np k st = st' := by
  induction fuel generalizing st k with
  | zero => simp [gsLoop] at h
  | succ fuel ih =>
    simp only [gsLoop] at h
    split at h
    · rename_i hany
      cases k with
      | zero => simp only [iterRound] at hk; rw [hk] at hany; exact absurd hany (by simp)
      | succ k => exact ih _ h k hk
    · rename_i hany
      simp only [Bool.not_eq_true] at hany
      simp only [Option.some.injEq] at h
      rw [iterRound_idle I np st hany k]; exact h

theorem iterRound_good (I : DA) (hwf : WF I) (np : Nat) (k : Nat) (st : St) (h : Good I st) :
    Good I (iterRound I np k st) := by
  induction k generalizing st with
  | zero => exact h
  | succ k ih => exact ih _ (round_good I hwf np st h)

/-! ### `matchesOf` under `erase` -/

theorem matchesOf_erase_ne (mu : List (Nat × Nat)) (p r q : Nat) (h : p ≠ q) :
    matchesOf (mu.erase (p, r)) q = matchesOf mu q := by
  unfold matchesOf
  rw [← List.erase_filter]
  have : (p, r) ∉ mu.filter (fun e => e.1 == q) := by
    simp [List.mem_filter]; intro _; exact h
  rw [List.erase_of_not_mem this]

theorem matchesOf_erase_len (mu : List (Nat × Nat)) (p r : Nat) (h : (p, r) ∈ mu) :
    (matchesOf (mu.erase (p, r)) p).length + 1 = (matchesOf mu p).length := by
  unfold matchesOf
  simp only [List.length_map]
  rw [← List.erase_filter]
  have hm : (p, r) ∈ mu.filter (fun e => e.1 == p) := by simp [List.mem_filter, h]
  rw [List.length_erase_of_mem hm]
  have : 0 < (mu.filter (fun e => e.1 == p)).length := List.length_pos_of_mem hm
  omega

theorem matchesOf_eq_nil_iff (mu : List (Nat × Nat)) (p : Nat) : matchesOf mu p = [] ↔ ∀ r, (p, r) ∉ mu := by
  constructor
  · intro h r hm
    have := mem_matchesOf.mpr hm
    rw [h] at this; simp at this
  · intro h
    apply List.eq_nil_iff_forall_not_mem.mpr
    intro r hr
    exact h r (mem_matchesOf.mp hr)

theorem heldBy_eq_nil_iff (mu : List (Nat × Nat)) (r : Nat) : heldBy mu r = [] ↔ ∀ p, (p, r) ∉ mu := by
  constructor
  · intro h p hm
    have := mem_heldBy.mpr hm
    rw [h] at this; simp at this
  · intro h
    apply List.eq_nil_iff_forall_not_mem.mpr
    intro p hp
    exact h p (mem_heldBy.mp hp)

/-- the worst of a non-empty list of acceptable proposers, under strict ranks: the unique maximiser -/
theorem worst_unique (I : DA) (hwf : WF I) (r : Nat) (ps : List Nat) (w v : Nat)
    (hacc : ∀ p ∈ ps, ∃ a, I.rrank r p = some a)
    (hw : worst I r ps = some w) (hv : v ∈ ps) (hmax : ∀ q ∈ ps, rk I r q ≤ rk I r v) : w = v := by
  have hwm := worst_mem I r ps w hw
  have h1 := worst_ge I r ps w hw v hv
  have h2 := hmax w hwm
  obtain ⟨a, ha⟩ := hacc w hwm
  obtain ⟨b, hb⟩ := hacc v hv
  have : a = b := by
    unfold rk at h1 h2; rw [ha] at h1 h2; rw [hb] at h1 h2
    simp only [Option.getD_some] at h1 h2; omega
  subst this
  exact hwf.2 r w v a ha hb
