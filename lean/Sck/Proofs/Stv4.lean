import Sck.Proofs.Stv3

/-! C12, STV half, part 3: the profile-level invariant, the per-round scores as first places among the
remaining alternatives on the ORIGINAL ballots, and the equivalence of the model's runs with the textbook
procedure `StvSpec` stated on the original profile. -/

namespace C12

/-! ### the profile-level invariant -/

/-- `P` is the original profile `P0` (ballots = permutations of `1..m`) restricted to the alternatives
`alive` (ascending original column numbers), ballot by ballot -/
structure RedInv (P0 : List (List Nat)) (m : Nat) (alive : List Nat) (P : List (List Nat)) : Prop where
  sorted : alive.Pairwise (· < ·)
  lt : ∀ x ∈ alive, x < m
  rows : List.Forall₂ (fun row0 row => row0.Perm (List.range' 1 m) ∧ Reduced row0 alive row) P0 P

theorem RedInv.nodup {P0 m alive P} (inv : RedInv P0 m alive P) : alive.Nodup :=
  inv.sorted.imp (fun h => Nat.ne_of_lt h)

theorem redInv_init (P0 : List (List Nat)) (m : Nat) (h : wfB P0 m = true) :
    RedInv P0 m (List.range m) P0 := by
  refine ⟨List.pairwise_lt_range, fun x hx => List.mem_range.mp hx, ?_⟩
  rw [List.forall₂_same]
  intro row hr
  have := (wfB_iff P0 m).mp h row hr
  exact ⟨this, reduced_init row m this⟩

theorem redInv_step {P0 m alive P} (inv : RedInv P0 m alive P) (d : Nat) (hd : d < alive.length) :
    RedInv P0 m (alive.eraseIdx d) (P.map (fun row => dropRow row d)) := by
  refine ⟨List.Pairwise.eraseIdx d inv.sorted,
    fun x hx => inv.lt x (List.mem_of_mem_eraseIdx hx), ?_⟩
  rw [List.forall₂_map_right_iff]
  exact inv.rows.imp (fun row0 row h => ⟨h.1, reduced_step row0 alive row d h.2 hd⟩)

/-! ### per-round scores = first places among the remaining alternatives -/

theorem count_forall₂ (f g : List Nat → Bool) (P0 P : List (List Nat))
    (h : List.Forall₂ (fun a b => f a = true ↔ g b = true) P0 P) :
    (P0.filter f).length = (P.filter g).length := by
  induction h with
  | nil => rfl
  | @cons a b l₁ l₂ hab _ ih =>
    by_cases hf : f a = true
    · rw [List.filter_cons_of_pos hf, List.filter_cons_of_pos (hab.mp hf), List.length_cons,
        List.length_cons, ih]
    · rw [List.filter_cons_of_neg hf, List.filter_cons_of_neg (fun hg => hf (hab.mpr hg)), ih]

/-- **The plurality score of position `p` in the reduced profile = the number of voters whose best
remaining alternative, on their ORIGINAL ballot, is `alive[p]`.** -/
theorem colCount1_eq_firstCount {P0 m alive P} (inv : RedInv P0 m alive P) (p : Nat)
    (hp : p < alive.length) : colCount1 P p = firstCount P0 alive (alive.getD p 0) := by
  unfold colCount1 firstCount
  symm
  apply count_forall₂
  apply inv.rows.imp
  intro row0 row h
  rw [beq_iff_eq, beq_iff_eq]
  exact (one_iff_firstAmong row0 m alive row p h.1 inv.lt h.2 hp).symm

theorem scores_eq_firstCount {P0 m alive P} (inv : RedInv P0 m alive P) (p : Nat)
    (hp : p < alive.length) :
    (pluralityScores P alive.length).getD p 0 = firstCount P0 alive (alive.getD p 0) := by
  rw [pluralityScores_getD _ _ _ hp, colCount1_eq_firstCount inv p hp]

/-- the columns the model may drop are exactly the positions of the alternatives with the fewest first
places among the remaining ones -/
theorem mem_argmins_red {P0 m alive P} (inv : RedInv P0 m alive P) (d : Nat) :
    d ∈ argmins (pluralityScores P alive.length) ↔
      d < alive.length ∧
        ∀ y ∈ alive, firstCount P0 alive (alive.getD d 0) ≤ firstCount P0 alive y := by
  rw [mem_argmins_iff, pluralityScores_length]
  constructor
  · rintro ⟨hd, hmin⟩
    refine ⟨hd, fun y hy => ?_⟩
    obtain ⟨j, hj, rfl⟩ := List.getElem_of_mem hy
    have := hmin j hj
    rw [scores_eq_firstCount inv d hd, scores_eq_firstCount inv j hj, getD_lt _ _ _ hj] at this
    exact this
  · rintro ⟨hd, hmin⟩
    refine ⟨hd, fun j hj => ?_⟩
    rw [scores_eq_firstCount inv d hd, scores_eq_firstCount inv j hj]
    apply hmin
    rw [getD_lt _ _ _ hj]; exact List.getElem_mem hj

/-! ### the state after a sequence of drops -/

/-- every recorded drop is a position of the then-current label list -/
def legalDrops : List Nat → Nat → Prop
  | [], _ => True
  | d :: ds, n => d < n ∧ legalDrops ds (n - 1)

theorem redInv_drops {P0 m} : ∀ (ds : List Nat) (alive : List Nat) (P : List (List Nat)),
    RedInv P0 m alive P → legalDrops ds alive.length → RedInv P0 m (dropsL ds alive) (dropsP ds P) := by
  intro ds
  induction ds with
  | nil => intro alive P inv _; exact inv
  | cons d ds ih =>
    intro alive P inv hl
    obtain ⟨hd, hl'⟩ := hl
    simp only [dropsL, dropsP, List.foldl_cons]
    apply ih _ _ (redInv_step inv d hd)
    rw [List.length_eraseIdx_of_lt hd]; exact hl'

/-- **`stv_def`**: after ANY sequence of eliminations, the scores the model computes for the next round
are, position by position, the numbers of voters ranking that remaining alternative first among the
remaining ones in the ORIGINAL profile. -/
theorem stv_def (P0 : List (List Nat)) (m : Nat) (hwf : wfB P0 m = true) (ds : List Nat)
    (hl : legalDrops ds m) (p : Nat) (hp : p < (dropsL ds (List.range m)).length) :
    (pluralityScores (dropsP ds P0) (dropsL ds (List.range m)).length).getD p 0 =
      firstCount P0 (dropsL ds (List.range m)) ((dropsL ds (List.range m)).getD p 0) :=
  scores_eq_firstCount
    (redInv_drops ds _ _ (redInv_init P0 m hwf) (by rw [List.length_range]; exact hl)) p hp

theorem dropsL_map (f : Nat → Nat) : ∀ (ds : List Nat) (l : List Nat),
    dropsL ds (l.map f) = (dropsL ds l).map f := by
  intro ds
  induction ds with
  | nil => intro l; rfl
  | cons d ds ih =>
    intro l
    simp only [dropsL, List.foldl_cons] at ih ⊢
    rw [List.eraseIdx_map, ih]

/-! ### the textbook procedure on the original profile -/

/-- `StvSpec P0 alive w`: starting with the alternatives `alive`, `w` is what remains when, repeatedly,
an alternative with the fewest first places among the remaining ones — counted on the ORIGINAL ballots
`P0` — is eliminated -/
inductive StvSpec (P0 : List (List Nat)) : List Nat → Nat → Prop
  | done (a : Nat) : StvSpec P0 [a] a
  | step (alive : List Nat) (x w : Nat) : 2 ≤ alive.length → x ∈ alive →
      (∀ y ∈ alive, firstCount P0 alive x ≤ firstCount P0 alive y) →
      StvSpec P0 (alive.erase x) w → StvSpec P0 alive w

/-- the same with the `first` tie-breaker: the eliminated alternative is the lowest-numbered one among
those with the fewest first places -/
inductive StvSpecFirst (P0 : List (List Nat)) : List Nat → Nat → Prop
  | done (a : Nat) : StvSpecFirst P0 [a] a
  | step (alive : List Nat) (x w : Nat) : 2 ≤ alive.length → x ∈ alive →
      (∀ y ∈ alive, firstCount P0 alive x ≤ firstCount P0 alive y) →
      (∀ y ∈ alive, (∀ z ∈ alive, firstCount P0 alive y ≤ firstCount P0 alive z) → x ≤ y) →
      StvSpecFirst P0 (alive.erase x) w → StvSpecFirst P0 alive w

theorem StvSpecFirst.toSpec {P0 alive w} (h : StvSpecFirst P0 alive w) : StvSpec P0 alive w := by
  induction h with
  | done a => exact StvSpec.done a
  | step alive x w h2 hx hmin _ _ ih => exact StvSpec.step alive x w h2 hx hmin ih

/-- the `first` procedure determines its result -/
theorem StvSpecFirst.unique {P0 alive w} (h : StvSpecFirst P0 alive w) :
    ∀ w', StvSpecFirst P0 alive w' → w' = w := by
  induction h with
  | done a =>
    intro w' h'
    cases h' with
    | done => rfl
    | step _ x _ h2 => simp at h2
  | step alive x w h2 hx hmin hlow _ ih =>
    intro w' h'
    cases h' with
    | done => simp at h2
    | step _ x' _ _ hx' hmin' hlow' hrest =>
      have h1 := hlow x' hx' hmin'
      have h2 := hlow' x hx hmin
      have : x' = x := by omega
      subst this
      exact ih w' hrest

/-- every legal run of the model is a run of the textbook procedure on the original profile -/
theorem stvRun_to_spec {P0 : List (List Nat)} {m : Nat} (fixer : Nat) {P : List (List Nat)}
    {labels : List Nat} {w : Nat} (h : StvRun P labels w) :
    ∀ alive, RedInv P0 m alive P → labels = alive.map (· + fixer) →
      ∃ w0, w = w0 + fixer ∧ StvSpec P0 alive w0 := by
  induction h with
  | done P a =>
    intro alive _ hl
    match alive, hl with
    | [a0], hl =>
      simp only [List.map_cons, List.map_nil, List.cons.injEq, and_true] at hl
      exact ⟨a0, hl, StvSpec.done a0⟩
  | step P labels d w h2 hd _ ih =>
    intro alive inv hl
    subst hl
    rw [List.length_map] at h2 hd
    obtain ⟨hdl, hmin⟩ := (mem_argmins_red inv d).mp hd
    obtain ⟨w0, hw, hs⟩ := ih (alive.eraseIdx d) (redInv_step inv d hdl) (List.eraseIdx_map _ _ _)
    refine ⟨w0, hw, StvSpec.step alive alive[d] w0 h2 (List.getElem_mem hdl) ?_ ?_⟩
    · rw [getD_lt _ _ _ hdl] at hmin; exact hmin
    · rw [List.Nodup.erase_getElem inv.nodup d hdl]; exact hs

/-- every run of the textbook procedure is a legal run of the model -/
theorem spec_to_stvRun {P0 : List (List Nat)} {m : Nat} (fixer : Nat) {alive : List Nat} {w0 : Nat}
    (h : StvSpec P0 alive w0) :
    ∀ P, RedInv P0 m alive P → StvRun P (alive.map (· + fixer)) (w0 + fixer) := by
  induction h with
  | done a => intro P _; exact StvRun.done P (a + fixer)
  | step alive x w h2 hx hmin _ ih =>
    intro P inv
    obtain ⟨d, hdl, rfl⟩ := List.getElem_of_mem hx
    have hd : d ∈ argmins (pluralityScores P (alive.map (· + fixer)).length) := by
      rw [List.length_map, mem_argmins_red inv d, getD_lt _ _ _ hdl]
      exact ⟨hdl, hmin⟩
    refine StvRun.step P _ d _ (by rw [List.length_map]; exact h2) hd ?_
    rw [List.eraseIdx_map, ← List.Nodup.erase_getElem inv.nodup d hdl]
    exact ih _ (by rw [List.Nodup.erase_getElem inv.nodup d hdl]; exact redInv_step inv d hdl)

/-- **the model's legal runs are exactly the textbook STV runs on the original ballots** -/
theorem stvRun_iff_spec (P0 : List (List Nat)) (m fixer w : Nat) (hwf : wfB P0 m = true) :
    StvRun P0 ((List.range m).map (· + fixer)) w ↔
      ∃ w0, w = w0 + fixer ∧ StvSpec P0 (List.range m) w0 := by
  constructor
  · intro h; exact stvRun_to_spec fixer h _ (redInv_init P0 m hwf) rfl
  · rintro ⟨w0, rfl, hs⟩; exact spec_to_stvRun fixer hs _ (redInv_init P0 m hwf)

/-! ### the `first` loop is the `first` textbook procedure -/

theorem sorted_getD_le (l : List Nat) (hs : l.Pairwise (· < ·)) (i j : Nat) (hij : i ≤ j)
    (hj : j < l.length) : l.getD i 0 ≤ l.getD j 0 := by
  rw [getD_lt _ _ _ hj, getD_lt _ _ _ (by omega)]
  rcases Nat.lt_or_eq_of_le hij with hlt | rfl
  · exact Nat.le_of_lt (List.pairwise_iff_getElem.mp hs i j (by omega) hj hlt)
  · exact Nat.le_refl _

theorem stvLoop_first_spec {P0 : List (List Nat)} {m : Nat} (fixer : Nat) :
    ∀ fuel P alive w, RedInv P0 m alive P →
      stvLoop (fun c => c.headD 0) fuel P (alive.map (· + fixer)) = some w →
      ∃ w0, w = w0 + fixer ∧ StvSpecFirst P0 alive w0 := by
  intro fuel
  induction fuel with
  | zero => intro P alive w _ h; simp [stvLoop] at h
  | succ fuel ih =>
    intro P alive w inv h
    match alive, inv, h with
    | [], _, h => simp [stvLoop] at h
    | [a], _, h =>
      simp only [List.map_cons, List.map_nil, stvLoop, Option.some.injEq] at h
      exact ⟨a, h.symm, StvSpecFirst.done a⟩
    | a :: b :: rest, inv, h =>
      simp only [List.map_cons, stvLoop, List.length_cons, List.length_map] at h
      have hlen : (a :: b :: rest).length = rest.length + 1 + 1 := by simp
      have hne := argmins_scores_ne_nil P (rest.length + 1 + 1) (by omega)
      rw [headD_eq_head _ hne] at h
      obtain ⟨hmem, hlow⟩ := stv_first_lowest P (rest.length + 1 + 1) (by omega)
      generalize (argmins (pluralityScores P (rest.length + 1 + 1))).head hne = d at h hmem hlow
      rw [← hlen] at hmem hlow
      obtain ⟨hdl, hmin⟩ := (mem_argmins_red inv d).mp hmem
      have h' : stvLoop (fun c => c.headD 0) fuel (P.map (fun row => dropRow row d))
          (((a :: b :: rest).eraseIdx d).map (· + fixer)) = some w := by
        rw [← List.eraseIdx_map]; exact h
      obtain ⟨w0, hw, hs⟩ := ih _ _ w (redInv_step inv d hdl) h'
      refine ⟨w0, hw, StvSpecFirst.step _ ((a :: b :: rest)[d]) w0 (by simp) (List.getElem_mem hdl) ?_ ?_ ?_⟩
      · rw [getD_lt _ _ _ hdl] at hmin; exact hmin
      · intro y hy hymin
        obtain ⟨j, hj, rfl⟩ := List.getElem_of_mem hy
        have hjm : j ∈ argmins (pluralityScores P (a :: b :: rest).length) := by
          rw [mem_argmins_red inv j, getD_lt _ _ _ hj]; exact ⟨hj, hymin⟩
        have := sorted_getD_le _ inv.sorted d j (hlow j hjm) hj
        rw [getD_lt _ _ _ hj, getD_lt _ _ _ hdl] at this
        exact this
      · rw [List.Nodup.erase_getElem inv.nodup d hdl]; exact hs

/-! ### the majority hypothesis gives the invariant of `StvProof` -/

theorem majority_inv (P : List (List Nat)) (m a fixer : Nat) (hwf : wfB P m = true) (ha : a < m)
    (hmaj : P.length < 2 * colCount1 P a) :
    StvInv P ((List.range m).map (· + fixer)) (a + fixer) a := by
  refine ⟨fun row hr => ?_, ?_, hmaj⟩
  · obtain ⟨hl, hnd, hb⟩ := wfB_sound P m hwf row hr
    exact ⟨hnd, by simpa using hl, fun r hr => (hb r hr).1⟩
  · simp [List.getElem?_range ha]

end C12
