import Sck.Proofs.DA10

/-! C01/C02 prototype: from a rank row (with `none` = NaN) to the proposer's preference list. -/

theorem mem_plistOfRow (row : List (Option Nat)) (j : Nat) :
    j ∈ plistOfRow row ↔ j < row.length ∧ (row.getD j none).isSome = true := by
  simp [plistOfRow, List.mem_filter]

theorem plistOfRow_nodup (row : List (Option Nat)) : (plistOfRow row).Nodup := by
  unfold plistOfRow
  have h : ((List.range row.length).filter (fun j => (row.getD j none).isSome)).Nodup :=
    List.Nodup.sublist List.filter_sublist List.nodup_range
  exact (List.Perm.nodup_iff (List.mergeSort_perm _ _)).mpr h

theorem plistOfRow_sorted (row : List (Option Nat)) :
    (plistOfRow row).Pairwise (fun a b => keyOf row a ≤ keyOf row b) := by
  unfold plistOfRow
  have := List.pairwise_mergeSort (le := leKey row)
    (fun a b c hab hbc => by
      simp only [leKey, decide_eq_true_eq] at hab hbc ⊢; omega)
    (fun a b => by
      simp only [leKey, Bool.or_eq_true, decide_eq_true_eq]; omega)
    ((List.range row.length).filter (fun j => (row.getD j none).isSome))
  exact this.imp (fun h => by simpa [leKey] using h)

/-- a row is strict when distinct acceptable positions have distinct ranks -/
def StrictRow (row : List (Option Nat)) : Prop :=
  ∀ a b, a ∈ plistOfRow row → b ∈ plistOfRow row → keyOf row a = keyOf row b → a = b

/-- **earlier in the list ⇔ strictly smaller rank** -/
theorem plistOfRow_index_lt_iff (row : List (Option Nat)) (hs : StrictRow row) (i j a b : Nat)
    (hi : (plistOfRow row)[i]? = some a) (hj : (plistOfRow row)[j]? = some b) :
    i < j ↔ keyOf row a < keyOf row b := by
  obtain ⟨hil, hia⟩ := List.getElem?_eq_some_iff.mp hi
  obtain ⟨hjl, hjb⟩ := List.getElem?_eq_some_iff.mp hj
  have hsorted := List.pairwise_iff_getElem.mp (plistOfRow_sorted row)
  have hnd := plistOfRow_nodup row
  have ha : a ∈ plistOfRow row := hia ▸ List.getElem_mem hil
  have hb : b ∈ plistOfRow row := hjb ▸ List.getElem_mem hjl
  constructor
  · intro hij
    have hle := hsorted i j hil hjl hij
    rw [hia, hjb] at hle
    have hne : keyOf row a ≠ keyOf row b := by
      intro heq
      have hab := hs a b ha hb heq
      subst hab
      have := (List.getElem?_inj hil hnd).mp (hi.trans hj.symm)
      omega
    omega
  · intro hlt
    by_contra hnot
    have hji : j ≤ i := by omega
    rcases Nat.lt_or_eq_of_le hji with hji' | hji'
    · have hle := hsorted j i hjl hil hji'
      rw [hia, hjb] at hle
      omega
    · subst hji'
      rw [hi] at hj; simp at hj; subst hj; omega

#print axioms plistOfRow_index_lt_iff
