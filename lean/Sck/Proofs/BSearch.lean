import Sck.Model.Simulate
import Mathlib.Data.Nat.Log
import Mathlib.Tactic.Linarith

/-! C14/C15 prototype: the binary search of k-ARV / lambda-TSF, its specification and query budget. -/

theorem bsearchQ_spec (ge : Nat → Bool) (m : Nat)
    (hmono : ∀ i j, i ≤ j → j < m → ge j = true → ge i = true) :
    ∀ (d lo hi : Nat), hi - lo = d → lo < hi → hi ≤ m → ge lo = true → (hi = m ∨ ge hi = false) →
      let p := (bsearchQ ge lo hi).1
      lo ≤ p ∧ p < hi ∧ (∀ q, q ≤ p → ge q = true) ∧ (∀ q, p < q → q < m → ge q = false) := by
  intro d
  induction d using Nat.strong_induction_on with
  | _ d ih =>
    intro lo hi hd hlt hm hlo hhi
    unfold bsearchQ
    split
    · -- hi = lo + 1
      rename_i h1
      have : hi = lo + 1 := by omega
      subst this
      refine ⟨Nat.le_refl _, by omega, ?_, ?_⟩
      · intro q hq; exact hmono q lo hq (by omega) hlo
      · intro q hq hqm
        rcases hhi with hh | hh
        · omega
        · by_contra hc
          have hq' : ge q = true := by simpa using hc
          have := hmono (lo + 1) q (by omega) hqm hq'
          rw [hh] at this; exact absurd this (by simp)
    · rename_i h1
      dsimp only
      have hmid1 : lo < (lo + hi) / 2 := by omega
      have hmid2 : (lo + hi) / 2 < hi := by omega
      split
      · rename_i hge
        have := ih (hi - (lo + hi) / 2) (by omega) ((lo + hi) / 2) hi rfl hmid2 hm hge hhi
        dsimp only at this ⊢
        exact ⟨by omega, this.2.1, this.2.2.1, this.2.2.2⟩
      · rename_i hge
        have hge' : ge ((lo + hi) / 2) = false := by simpa using hge
        have := ih ((lo + hi) / 2 - lo) (by omega) lo ((lo + hi) / 2) rfl hmid1 (by omega) hlo (Or.inr hge')
        dsimp only at this ⊢
        exact ⟨this.1, by omega, this.2.2.1, this.2.2.2⟩

/-- query budget: at most ⌈log₂ (hi − lo)⌉ elicitations -/
theorem bsearchQ_budget (ge : Nat → Bool) :
    ∀ (d lo hi : Nat), hi - lo = d → ((bsearchQ ge lo hi).2).length ≤ Nat.clog 2 d := by
  intro d
  induction d using Nat.strong_induction_on with
  | _ d ih =>
    intro lo hi hd
    unfold bsearchQ
    split
    · simp
    · rename_i h1
      dsimp only
      have hd2 : 2 ≤ d := by omega
      have hclog : Nat.clog 2 d = Nat.clog 2 ((d + 1) / 2) + 1 := by
        rw [Nat.clog_of_two_le (by omega) hd2]
        have : d + 2 - 1 = d + 1 := by omega
        rw [this]
      split
      · have := ih (hi - (lo + hi) / 2) (by omega) ((lo + hi) / 2) hi rfl
        simp only [List.length_cons]
        have hmono : Nat.clog 2 (hi - (lo + hi) / 2) ≤ Nat.clog 2 ((d + 1) / 2) :=
          Nat.clog_mono_right 2 (by omega)
        omega
      · have := ih ((lo + hi) / 2 - lo) (by omega) lo ((lo + hi) / 2) rfl
        simp only [List.length_cons]
        have hmono : Nat.clog 2 ((lo + hi) / 2 - lo) ≤ Nat.clog 2 ((d + 1) / 2) :=
          Nat.clog_mono_right 2 (by omega)
        omega

/-- every queried position lies strictly between the bounds (so it is a valid, non-favourite position) -/
theorem bsearchQ_queries_range (ge : Nat → Bool) :
    ∀ (d lo hi : Nat), hi - lo = d → ∀ q ∈ (bsearchQ ge lo hi).2, lo < q ∧ q < hi := by
  intro d
  induction d using Nat.strong_induction_on with
  | _ d ih =>
    intro lo hi hd q hq
    unfold bsearchQ at hq
    split at hq
    · simp at hq
    · dsimp only at hq
      split at hq
      · simp only [List.mem_cons] at hq
        rcases hq with rfl | hq
        · omega
        · have := ih (hi - (lo + hi) / 2) (by omega) ((lo + hi) / 2) hi rfl q hq; omega
      · simp only [List.mem_cons] at hq
        rcases hq with rfl | hq
        · omega
        · have := ih ((lo + hi) / 2 - lo) (by omega) lo ((lo + hi) / 2) rfl q hq; omega

/-- the answer only depends on the answers actually obtained -/
theorem bsearchQ_congr (ge ge' : Nat → Bool) :
    ∀ (d lo hi : Nat), hi - lo = d → (∀ q ∈ (bsearchQ ge lo hi).2, ge q = ge' q) →
      bsearchQ ge' lo hi = bsearchQ ge lo hi := by
  intro d
  induction d using Nat.strong_induction_on with
  | _ d ih =>
    intro lo hi hd hag
    unfold bsearchQ at hag ⊢
    split
    · rfl
    · rename_i h1
      simp only [h1, dite_false] at hag
      dsimp only at hag ⊢
      by_cases hge : ge ((lo + hi) / 2) = true
      · have h0 : ge' ((lo + hi) / 2) = true := by rw [← hag _ (by simp [hge])]; exact hge
        have := ih (hi - (lo + hi) / 2) (by omega) ((lo + hi) / 2) hi rfl
          (fun q hq => hag q (by simp [hge, hq]))
        simp only [hge, h0, if_true]
        rw [this]
      · have hge0 : ge ((lo + hi) / 2) = false := by simpa using hge
        have h0 : ge' ((lo + hi) / 2) = false := by rw [← hag _ (by simp [hge0])]; exact hge0
        have := ih ((lo + hi) / 2 - lo) (by omega) lo ((lo + hi) / 2) rfl
          (fun q hq => hag q (by simp [hge0, hq]))
        simp only [hge0, h0, Bool.false_eq_true, if_false]
        rw [this]

#print axioms bsearchQ_spec
#print axioms bsearchQ_budget
#print axioms bsearchQ_congr
