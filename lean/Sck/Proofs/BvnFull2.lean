import Sck.Proofs.BvnFull1

/-! C06 with the real oracle, part 2: for every matching routine that returns a MAXIMUM matching of the
positivity graph of every balanced non-zero matrix — in particular the model's `mcm` — the loop
`bvnWith` is the run `bvnRunL` of `bvn_any_choice_terminates`, and satisfies the full specification. -/

/-- the matching routine returns a maximum matching of the positivity graph of every balanced non-zero matrix -/
def OracleOK (n : ℕ) (pairsOf : List (List Rat) → Except FFErr (List (Int × Int))) : Prop :=
  ∀ Y t, isBalancedB n Y = some t → isZeroB Y = false →
    ∃ M, pairsOf Y = .ok M ∧ IsMatching (rowVerts n) (positivityAdj n Y) M ∧
      ∀ M', IsMatching (rowVerts n) (positivityAdj n Y) M' → M'.length ≤ M.length

/-- the permutation chosen by the loop for the matrix `Y` -/
def chooseOf (n : ℕ) (pairsOf : List (List Rat) → Except FFErr (List (Int × Int)))
    (Y : List (List Rat)) : List ℕ :=
  match pairsOf Y with
  | .ok M => sigmaOfPairs n M
  | .error _ => []

theorem matchingOracle_eq (n : ℕ) : matchingOracle n = chooseOf n (matchingPairs n) := rfl

/-- the model's `mcm` is such a routine -/
theorem matchingPairs_ok (n : ℕ) : OracleOK n (matchingPairs n) := by
  intro Y t _ _
  exact mcm_correct (rowVerts n) (colVerts n) (positivityAdj n Y) (mcmFuel (rowVerts n))
    (posGraph_wfB n Y) (Nat.le_refl _)

/-- **One call of the oracle** on a balanced non-zero matrix: the maximum matching is perfect, hence a
permutation inside the support; the dict of the positivity graph has all `2n` keys. -/
theorem oracle_step (n : ℕ) (pairsOf : List (List Rat) → Except FFErr (List (Int × Int)))
    (hor : OracleOK n pairsOf) (Y : List (List Rat)) (t : Rat) (hbal : isBalancedB n Y = some t)
    (hnz : isZeroB Y = false) :
    ∃ M, pairsOf Y = .ok M ∧ M.length = n ∧ isPermB n (sigmaOfPairs n M) = true ∧
      (diagVals Y (sigmaOfPairs n M)).all (fun v => decide (0 < v)) = true ∧
      minList (pairVals n Y M) = minList (diagVals Y (sigmaOfPairs n M)) ∧ posKeysOkB n Y = true := by
  have hsq := isBalancedB_square Y t hbal
  obtain ⟨M, hM, hmat, hmax⟩ := hor Y t hbal hnz
  obtain ⟨sigma, hp, hs⟩ := bvn_progress_aux Y t hbal hnz
  have hge : n ≤ M.length := by
    have := hmax _ (supportPerm_isMatching n Y sigma hsq hp hs)
    rwa [pairsOfSigma_length] at this
  obtain ⟨h1, h2, h3⟩ := perfect_matching_perm n Y M hsq hmat hge
  exact ⟨M, hM, Nat.le_antisymm (matching_length_le hmat) hge, h1, h2, h3,
    posKeysOkB_of_support n Y _ hsq h1 h2⟩

theorem chooseOf_ok (n : ℕ) (pairsOf : List (List Rat) → Except FFErr (List (Int × Int)))
    (hor : OracleOK n pairsOf) :
    ∀ Y t, isBalancedB n Y = some t → isZeroB Y = false →
      isPermB n (chooseOf n pairsOf Y) = true ∧
      (diagVals Y (chooseOf n pairsOf Y)).all (fun v => decide (0 < v)) = true := by
  intro Y t hbal hnz
  obtain ⟨M, hM, _, h1, h2, _⟩ := oracle_step n pairsOf hor Y t hbal hnz
  unfold chooseOf
  rw [hM]
  exact ⟨h1, h2⟩

/-- the executable loop follows `bvnRunL` and emits the coefficients of the replay -/
theorem bvnWithAux_eq (n : ℕ) (pairsOf : List (List Rat) → Except FFErr (List (Int × Int)))
    (hor : OracleOK n pairsOf) :
    ∀ (k : ℕ) (X : List (List Rat)) (s : Rat) (zs : List Rat) (R : List (List Rat)),
      isBalancedB n X = some s →
      bvnReplayAux n X (bvnRunL (chooseOf n pairsOf) k X) = .ok (zs, R) → isZeroB R = true →
      bvnWithAux pairsOf n (k + 1) X = .ok (zs.zip (bvnRunL (chooseOf n pairsOf) k X)) := by
  intro k
  induction k with
  | zero =>
    intro X s zs R _ hrep hR
    simp only [bvnRunL, bvnReplayAux, Except.ok.injEq, Prod.mk.injEq] at hrep
    obtain ⟨rfl, rfl⟩ := hrep
    simp [bvnWithAux, hR, bvnRunL]
  | succ k ih =>
    intro X s zs R hbal hrep hR
    by_cases hz : isZeroB X = true
    · simp only [bvnRunL, hz, if_true] at hrep ⊢
      simp only [bvnReplayAux, Except.ok.injEq, Prod.mk.injEq] at hrep
      obtain ⟨rfl, _⟩ := hrep
      simp [bvnWithAux, hz]
    · have hnz : isZeroB X = false := by simpa using hz
      obtain ⟨M, hM, _, hp, hsupp, hmin, hkeys⟩ := oracle_step n pairsOf hor X s hbal hnz
      have hch : chooseOf n pairsOf X = sigmaOfPairs n M := by unfold chooseOf; rw [hM]
      have hrun : bvnRunL (chooseOf n pairsOf) (k + 1) X =
          match minList (diagVals X (sigmaOfPairs n M)) with
          | none => []
          | some z => sigmaOfPairs n M :: bvnRunL (chooseOf n pairsOf) k (subPerm X (sigmaOfPairs n M) z) := by
        rw [bvnRunL, if_neg hz, hch]
        cases minList (diagVals X (sigmaOfPairs n M)) <;> rfl
      rw [hrun] at hrep ⊢
      cases hzm : minList (diagVals X (sigmaOfPairs n M)) with
      | none =>
        rw [hzm] at hrep
        simp only [bvnReplayAux, Except.ok.injEq, Prod.mk.injEq] at hrep
        obtain ⟨_, rfl⟩ := hrep
        rw [hR] at hnz; cases hnz
      | some z =>
        rw [hzm] at hrep
        simp only
        simp only [bvnReplayAux] at hrep
        rw [if_pos hp, if_pos hsupp, hzm] at hrep
        simp only at hrep
        cases hrec : bvnReplayAux n (subPerm X (sigmaOfPairs n M) z)
            (bvnRunL (chooseOf n pairsOf) k (subPerm X (sigmaOfPairs n M) z)) with
        | error e => rw [hrec] at hrep; simp at hrep
        | ok res =>
          obtain ⟨zs', R'⟩ := res
          rw [hrec] at hrep
          simp only [Except.ok.injEq, Prod.mk.injEq] at hrep
          obtain ⟨rfl, rfl⟩ := hrep
          obtain ⟨_, hbal', _⟩ := bvn_step_aux X s (sigmaOfPairs n M) z hbal hp hsupp hzm
          have hih := ih _ _ zs' R' hbal' hrec hR
          rw [bvnWithAux, if_neg hz, hkeys]
          simp only [Bool.not_true, Bool.false_eq_true, if_false]
          rw [hM]
          simp only
          rw [hmin, hzm]
          simp only
          rw [hih]
          simp

/-- **Specification of the loop for every maximum-matching routine.** -/
theorem bvnWith_spec (n : ℕ) (pairsOf : List (List Rat) → Except FFErr (List (Int × Int)))
    (hor : OracleOK n pairsOf) (X : List (List Rat)) (s : Rat) (hbal : isBalancedB n X = some s) :
    ∃ out, bvnWith pairsOf n X = .ok out ∧ out.length ≤ n * n ∧ (∀ e ∈ out, 0 < e.1) ∧
      (∀ e ∈ out, isPermB n e.2 = true ∧ ∀ i, i < n → 0 < matGet X i (e.2.getD i n)) ∧
      sumList (out.map (·.1)) = s ∧
      ∀ i j, i < n → j < n → reconEntry n (out.map (·.1)) (out.map (·.2)) i j = matGet X i j := by
  have hsq := isBalancedB_square X s hbal
  obtain ⟨zs, R, hrep, hR⟩ := bvnRunL_terminates' (chooseOf n pairsOf) (chooseOf_ok n pairsOf hor) X s hbal
  obtain ⟨hlen, hle, hpos, hsum, _, hrecon⟩ := bvnReplay_spec X _ s zs R hbal hrep hR
  have hsupp := bvnReplay_in_support X _ zs R hrep
  have haux : bvnReplayAux n X (bvnRunL (chooseOf n pairsOf) (n * n) X) = .ok (zs, R) := by
    unfold bvnReplay at hrep
    rwa [if_pos hsq] at hrep
  have hrun := bvnWithAux_eq n pairsOf hor (n * n) X s zs R hbal haux hR
  have hfst : (zs.zip (bvnRunL (chooseOf n pairsOf) (n * n) X)).map (·.1) = zs :=
    List.map_fst_zip (by omega)
  have hsnd : (zs.zip (bvnRunL (chooseOf n pairsOf) (n * n) X)).map (·.2) =
      bvnRunL (chooseOf n pairsOf) (n * n) X := List.map_snd_zip (by omega)
  refine ⟨zs.zip (bvnRunL (chooseOf n pairsOf) (n * n) X), ?_, ?_, ?_, ?_, ?_, ?_⟩
  · unfold bvnWith
    rw [if_pos hsq]
    exact hrun
  · rw [List.length_zip]; omega
  · intro e he
    exact hpos _ (List.of_mem_zip he).1
  · intro e he
    exact hsupp _ (List.of_mem_zip he).2
  · rw [hfst]; exact hsum
  · rw [hfst, hsnd]; exact hrecon

#print axioms bvnWith_spec
