import Sck.Proofs.VotingLaws

/-! Voting model: winner-set consequences of anonymity / neutrality, renaming stays well-formed (C11). -/

namespace Vote

theorem renameBallot_perm {sig row : List Nat} {m : Nat} (hsig : sig.Perm (List.range m))
    (hrow : row.length = m) : (renameBallot sig row).Perm row := by
  unfold renameBallot
  have h1 := hsig.map (fun j => row.getD j 0)
  have h2 : (List.range m).map (fun j => row.getD j 0) = row := by
    have := range_map_getD row 0 id hrow
    simpa using this
  rwa [h2] at h1

theorem wfB_rename {sig : List Nat} {P : Profile} {m : Nat} (hsig : sig.Perm (List.range m))
    (hP : wfB P m = true) : wfB (renameProfile sig P) m = true := by
  rw [wfB_iff] at hP ⊢
  intro row hrow
  obtain ⟨row0, h0, rfl⟩ := List.mem_map.1 hrow
  have := hP row0 h0
  exact (renameBallot_perm hsig (by simpa using this.length_eq)).trans this

theorem rankedB_rename {sig : List Nat} {P : Profile} {m : Nat} (hsig : sig.Perm (List.range m))
    (hP : rankedB P m = true) : rankedB (renameProfile sig P) m = true := by
  rw [rankedB_iff] at hP ⊢
  intro row hrow
  obtain ⟨row0, h0, rfl⟩ := List.mem_map.1 hrow
  obtain ⟨hl, hr⟩ := hP row0 h0
  have hp := renameBallot_perm hsig hl
  exact ⟨hp.length_eq.trans hl, fun r hr' => hr r (hp.mem_iff.1 hr')⟩

theorem wfB_perm_voters {P P' : Profile} {m : Nat} (h : P.Perm P') (hP : wfB P m = true) :
    wfB P' m = true := by
  rw [wfB_iff] at hP ⊢
  exact fun row hrow => hP row (h.mem_iff.2 hrow)

/-- renaming with the identity permutation changes nothing on a complete profile -/
theorem renameBallot_id {row : List Nat} {m : Nat} (hrow : row.length = m) :
    renameBallot (List.range m) row = row := by
  unfold renameBallot
  simpa using range_map_getD row 0 id hrow

/-! ## winner sets under renaming -/

theorem positional_winners_rename (w : Nat → Int) {sig : List Nat} {m a b : Nat}
    (hsig : sig.Perm (List.range m)) (h : sig[a]? = some b) (P : Profile) :
    a ∈ winnersI (positional w (renameProfile sig P) m) ↔ b ∈ winnersI (positional w P m) :=
  winnersI_rename hsig (positional_length w P m) (positional_length w _ m)
    (fun _ _ hab => positional_rename w hsig hab P) h

theorem harmonic_winners_rename {sig : List Nat} {m a b : Nat}
    (hsig : sig.Perm (List.range m)) (h : sig[a]? = some b) (P : Profile) :
    a ∈ winnersQ (harmonic (renameProfile sig P) m) ↔ b ∈ winnersQ (harmonic P m) :=
  winnersQ_rename hsig (harmonic_length P m) (harmonic_length _ m)
    (fun _ _ hab => harmonic_rename hsig hab P) h

theorem copeland_winners_rename {sig : List Nat} {m a b : Nat}
    (hsig : sig.Perm (List.range m)) (h : sig[a]? = some b) (P : Profile) :
    a ∈ winnersI (copeland (renameProfile sig P) m) ↔ b ∈ winnersI (copeland P m) :=
  winnersI_rename hsig (copeland_length P m) (copeland_length _ m)
    (fun _ _ hab => copeland_rename hsig hab P) h

/-! ## ties -/

theorem positional_same_multiset (w : Nat → Int) {P : Profile} {m a b : Nat} (ha : a < m) (hb : b < m)
    (h : (col P a).Perm (col P b)) :
    (positional w P m)[a]? = (positional w P m)[b]? ∧
      (a ∈ winnersI (positional w P m) ↔ b ∈ winnersI (positional w P m)) := by
  have e : (positional w P m)[a]? = (positional w P m)[b]? := by
    rw [positional_get_score w P ha, positional_get_score w P hb, scoreI_same_multiset w h]
  have la : a < (positional w P m).length := by rw [positional_length]; exact ha
  have lb : b < (positional w P m).length := by rw [positional_length]; exact hb
  refine ⟨e, winnersI_of_eq la lb ?_⟩
  rw [List.getElem?_eq_getElem la, List.getElem?_eq_getElem lb] at e
  exact Option.some.inj e

theorem harmonic_same_multiset {P : Profile} {m a b : Nat} (ha : a < m) (hb : b < m)
    (h : (col P a).Perm (col P b)) :
    (harmonic P m)[a]? = (harmonic P m)[b]? ∧
      (a ∈ winnersQ (harmonic P m) ↔ b ∈ winnersQ (harmonic P m)) := by
  have e : (harmonic P m)[a]? = (harmonic P m)[b]? := by
    rw [harmonic_get_score P ha, harmonic_get_score P hb, scoreH_same_multiset h]
  have la : a < (harmonic P m).length := by rw [harmonic_length]; exact ha
  have lb : b < (harmonic P m).length := by rw [harmonic_length]; exact hb
  refine ⟨e, winnersQ_of_eq la lb ?_⟩
  rw [List.getElem?_eq_getElem la, List.getElem?_eq_getElem lb] at e
  exact Option.some.inj e

/-- on ranked profiles, equal histograms are the same thing as equal multisets of ranks -/
theorem col_perm_of_hist_eq {P : Profile} {m a b : Nat} (hP : rankedB P m = true) (ha : a < m) (hb : b < m)
    (h : hist P m a = hist P m b) : (col P a).Perm (col P b) := by
  rw [List.perm_iff_count]
  intro x
  rw [List.count_eq_length_filter, List.count_eq_length_filter]
  by_cases hx : 1 ≤ x ∧ x ≤ m
  · have h1 := hist_getD P a (by omega : x - 1 < m)
    have h2 := hist_getD P b (by omega : x - 1 < m)
    rw [show x - 1 + 1 = x by omega] at h1 h2
    rw [← h1, ← h2, h]
  · have e1 : (col P a).filter (· == x) = [] := by
      rw [List.filter_eq_nil_iff]
      intro r hr hrx
      have := col_ranked hP ha r hr
      simp at hrx; omega
    have e2 : (col P b).filter (· == x) = [] := by
      rw [List.filter_eq_nil_iff]
      intro r hr hrx
      have := col_ranked hP hb r hr
      simp at hrx; omega
    rw [e1, e2]

theorem utilitarian_winners_rename {V : List (List (Option Rat))} {sig : List Nat} {m : Nat} {sh : List Rat}
    (hsig : sig.Perm (List.range m)) (hV : valsB V m = true) (h : utilitarian V m = some sh) :
    ∃ sh', utilitarian (renameVals sig V) m = some sh' ∧
      (∀ a b : Nat, sig[a]? = some b → sh'[a]? = sh[b]?) ∧
      (∀ a b : Nat, sig[a]? = some b → (a ∈ winnersQ sh' ↔ b ∈ winnersQ sh)) := by
  obtain ⟨sh', h1, h2, h3⟩ := utilitarian_rename hsig hV h
  exact ⟨sh', h1, h3, fun a b hab => winnersQ_rename hsig (utilitarian_spec hV h).1 h2 h3 hab⟩

end Vote
