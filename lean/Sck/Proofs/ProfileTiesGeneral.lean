import Sck.Proofs.ProfileTies

/-! C18 part B': tie breaking on ANY row with ties (no `wfTiesB` hypothesis) — the behaviour after `fix:` F14. -/

theorem length_breakTiesPos (row : List (Option Nat)) (o : List Nat) :
    (breakTiesPos row o).length = row.length := by
  simp [breakTiesPos]

theorem getElem?_breakTiesPos (row : List (Option Nat)) (o : List Nat) (a : Nat) (ha : a < row.length) :
    (breakTiesPos row o)[a]? =
      some (if (valAt row a).isSome = true then some (o.idxOf a + 1) else none) := by
  unfold breakTiesPos
  rw [List.getElem?_map, List.getElem?_range ha]
  rfl

/-- on a competition-numbered row the pinned model and the repaired one coincide -/
theorem breakTiesWith_eq_pos (row : List (Option Nat)) (o : List Nat) (first : Bool)
    (h : validAscOrder row o first = true) (hwf : wfTiesB row = true) :
    breakTiesWith row o = breakTiesPos row o :=
  breakTiesWith_eq row o first h hwf

theorem breakTiesPos_nodup (row : List (Option Nat)) (o : List Nat) (first : Bool)
    (h : validAscOrder row o first = true) :
    ((breakTiesPos row o).filterMap id).Nodup := by
  have hso := sortedOrder_of_asc row o first h
  unfold breakTiesPos
  rw [List.filterMap_map]
  have := filterMap_ite_eq_map_filter (fun j => (valAt row j).isSome) (fun j => o.idxOf j + 1)
    (List.range row.length)
  rw [show (id ∘ fun j => if (valAt row j).isSome = true then some (o.idxOf j + 1) else none) =
    (fun j => if (valAt row j).isSome = true then some (o.idxOf j + 1) else none) from rfl, this]
  apply List.Nodup.map_on
  · intro a ha b hb hab
    simp only [List.mem_filter, List.mem_range] at ha hb
    exact hso.idx_inj ha.1 hb.1 (by omega)
  · exact List.nodup_range.filter _

/-- the repaired model's output is accepted by the general checker, for EVERY row with ties -/
theorem breakTiesPos_ok (row : List (Option Nat)) (order : List Nat) (first : Bool)
    (h : validAscOrder row order first = true) :
    strictOkB row (breakTiesPos row order) first = true := by
  have hso := sortedOrder_of_asc row order first h
  have key : ∀ p ∈ row.zip (breakTiesPos row order), ∃ j, j < row.length ∧ row[j]? = some p.1 ∧
      valAt row j = p.1 ∧
      p.2 = (if (valAt row j).isSome = true then some (order.idxOf j + 1) else none) := by
    intro p hp
    obtain ⟨j, h1, h2⟩ := getElem?_of_mem_zip _ _ p hp
    have hj : j < row.length := (List.getElem?_eq_some_iff.1 h1).1
    rw [getElem?_breakTiesPos row order j hj] at h2
    exact ⟨j, hj, h1, valAt_of_getElem? _ _ _ h1, (Option.some.inj h2).symm⟩
  unfold strictOkB
  simp only [Bool.and_eq_true, beq_iff_eq, List.all_eq_true, allPairsB_ne_iff, Bool.or_eq_true,
    Bool.not_eq_true']
  refine ⟨⟨⟨⟨length_breakTiesPos _ _, ?_⟩, breakTiesPos_nodup row order first h⟩, ?_⟩, ?_⟩
  · intro p hp
    obtain ⟨j, _, _, h1, h2⟩ := key p hp
    rw [h2, h1]
    cases p.1 <;> simp
  · intro p hp q hq
    obtain ⟨a, ha, _, ha1, ha2⟩ := key p hp
    obtain ⟨b, hb, _, hb1, hb2⟩ := key q hq
    cases hp1 : p.1 with
    | none => simp [ltR]
    | some x =>
      cases hq1 : q.1 with
      | none => simp [ltR]
      | some y =>
        by_cases hxy : x < y
        · right
          have hne : a ≠ b := by
            rintro rfl
            rw [ha1, hp1, hq1] at hb1
            have := Option.some.inj hb1
            omega
          have hidx : order.idxOf a < order.idxOf b := by
            apply hso.idx_lt_of_not_rel ha hb hne
            rw [ha1, hb1, hp1, hq1]
            simp only [ascLe, decide_eq_true_eq]
            omega
          rw [ha2, hb2, ha1, hb1, hp1, hq1]
          simp [ltR, hidx]
        · left; simp [ltR, hxy]
  · cases first with
    | false => left; rfl
    | true =>
      right
      have hso1 := sortedOrder_of_asc_first row order h
      rw [allPairsB_iff, List.pairwise_iff_getElem]
      intro i j hi hj hij
      have hi' : i < row.length := by
        rw [List.length_zip, length_breakTiesPos] at hi; omega
      have hj' : j < row.length := by
        rw [List.length_zip, length_breakTiesPos] at hj; omega
      simp only [List.getElem_zip, Bool.or_eq_true, Bool.not_eq_true', Bool.and_eq_false_iff]
      have e1 : (breakTiesPos row order)[i]'(by rw [length_breakTiesPos]; exact hi') =
          (if (valAt row i).isSome = true then some (order.idxOf i + 1) else none) := by
        have := getElem?_breakTiesPos row order i hi'
        rw [List.getElem?_eq_getElem (by rw [length_breakTiesPos]; exact hi')] at this
        exact Option.some.inj this
      have e2 : (breakTiesPos row order)[j]'(by rw [length_breakTiesPos]; exact hj') =
          (if (valAt row j).isSome = true then some (order.idxOf j + 1) else none) := by
        have := getElem?_breakTiesPos row order j hj'
        rw [List.getElem?_eq_getElem (by rw [length_breakTiesPos]; exact hj')] at this
        exact Option.some.inj this
      rw [e1, e2, valAt_of_lt row i hi', valAt_of_lt row j hj']
      by_cases hs : (row[i]).isSome = true
      · by_cases he : row[i] = row[j]
        · right
          have hidx : order.idxOf i < order.idxOf j := by
            apply hso1.idx_lt_of_not_rel hi' hj' (Nat.ne_of_lt hij)
            rintro ⟨_, hlt⟩
            have := hlt (by rw [valAt_of_lt row j hj', ← he]; exact hs)
              (by rw [valAt_of_lt row j hj', valAt_of_lt row i hi', he])
            omega
          rw [← he]
          simp [hs, ltR, hidx]
        · left; right
          simpa using he
      · left; left
        simpa using hs

/-- the competition-style checker is the general checker plus the block clause -/
theorem strictOkB_of_strictifyOkB (row out : List (Option Nat)) (first : Bool)
    (h : strictifyOkB row out first = true) : strictOkB row out first = true := by
  unfold strictifyOkB at h
  unfold strictOkB
  simp only [Bool.and_eq_true] at h ⊢
  obtain ⟨⟨⟨⟨⟨h1, h2⟩, h3⟩, h4⟩, _⟩, h6⟩ := h
  exact ⟨⟨⟨⟨h1, h2⟩, h3⟩, h4⟩, h6⟩

/-- what acceptance by `strictOkB` means (the three clauses of the property, plus `first`) -/
theorem strictOkB_spec (row out : List (Option Nat)) (first : Bool)
    (h : strictOkB row out first = true) :
    out.length = row.length ∧
    (∀ j : Nat, out[j]? = some none ↔ row[j]? = some none) ∧
    (∀ (i j r : Nat), out[i]? = some (some r) → out[j]? = some (some r) → i = j) ∧
    (∀ (a b ra rb : Nat), row[a]? = some (some ra) → row[b]? = some (some rb) → ra < rb →
      ∃ sa sb, out[a]? = some (some sa) ∧ out[b]? = some (some sb) ∧ sa < sb) ∧
    (first = true → ∀ (a b r : Nat), a < b → row[a]? = some (some r) → row[b]? = some (some r) →
      ∃ sa sb, out[a]? = some (some sa) ∧ out[b]? = some (some sb) ∧ sa < sb) := by
  unfold strictOkB at h
  simp only [Bool.and_eq_true, beq_iff_eq, List.all_eq_true, allPairsB_ne_iff] at h
  obtain ⟨⟨⟨⟨hlen, hnan⟩, hnodup⟩, hpairs⟩, hfirst⟩ := h
  have hsome : ∀ (j : Nat) (x : Option Nat), row[j]? = some x →
      ∃ r : Option Nat, out[j]? = some r ∧ x.isSome = r.isSome := by
    intro j x hx
    have hj : j < out.length := by rw [hlen]; exact (List.getElem?_eq_some_iff.1 hx).1
    refine ⟨out[j], List.getElem?_eq_getElem hj, ?_⟩
    exact hnan (x, out[j]) (mem_zip_of_getElem? _ _ j _ _ hx (List.getElem?_eq_getElem hj))
  refine ⟨hlen, ?_, ?_, ?_, ?_⟩
  · intro j
    constructor
    · intro ho
      have hj : j < row.length := by rw [← hlen]; exact (List.getElem?_eq_some_iff.1 ho).1
      obtain ⟨r, hr, hiso⟩ := hsome j row[j] (List.getElem?_eq_getElem hj)
      rw [ho] at hr
      have : r = none := (Option.some.inj hr).symm
      subst this
      rw [List.getElem?_eq_getElem hj]
      cases hv : row[j] with
      | none => rfl
      | some x => rw [hv] at hiso; simp at hiso
    · intro hv
      obtain ⟨r, hr, hiso⟩ := hsome j none hv
      rw [hr]
      cases r with
      | none => rfl
      | some x => simp at hiso
  · intro i j r hi hj
    exact eq_of_nodup_filterMap out hnodup i j r hi hj
  · intro a b ra rb ha hb hlt
    obtain ⟨sa, hsa, hisa⟩ := hsome a _ ha
    obtain ⟨sb, hsb, hisb⟩ := hsome b _ hb
    have := hpairs _ (mem_zip_of_getElem? _ _ a _ _ ha hsa) _ (mem_zip_of_getElem? _ _ b _ _ hb hsb)
    simp only [ltR, hlt, decide_true, Bool.not_true, Bool.false_or] at this
    cases sa with
    | none => simp at this
    | some sa =>
      cases sb with
      | none => simp at this
      | some sb =>
        simp only [decide_eq_true_eq] at this
        exact ⟨sa, sb, hsa, hsb, this⟩
  · intro hf a b r hab ha hb
    subst hf
    simp only [Bool.not_true, Bool.false_or, allPairsB_iff, List.pairwise_iff_getElem] at hfirst
    have ha' : a < row.length := (List.getElem?_eq_some_iff.1 ha).1
    have hb' : b < row.length := (List.getElem?_eq_some_iff.1 hb).1
    have hza : a < (row.zip out).length := by rw [List.length_zip]; omega
    have hzb : b < (row.zip out).length := by rw [List.length_zip]; omega
    have := hfirst a b hza hzb hab
    simp only [List.getElem_zip] at this
    have ea : row[a] = some r := by
      rw [List.getElem?_eq_getElem ha'] at ha; exact Option.some.inj ha
    have eb : row[b] = some r := by
      rw [List.getElem?_eq_getElem hb'] at hb; exact Option.some.inj hb
    rw [ea, eb] at this
    simp only [Option.isSome_some, beq_self_eq_true, Bool.and_self, Bool.not_true,
      Bool.false_or] at this
    cases hoa : out[a]'(by omega) with
    | none => rw [hoa] at this; simp [ltR] at this
    | some sa =>
      cases hob : out[b]'(by omega) with
      | none => rw [hoa, hob] at this; simp [ltR] at this
      | some sb =>
        rw [hoa, hob] at this
        simp only [ltR, decide_eq_true_eq] at this
        refine ⟨sa, sb, ?_, ?_, this⟩
        · rw [List.getElem?_eq_getElem (by omega), hoa]
        · rw [List.getElem?_eq_getElem (by omega), hob]


/-! `incomplete_valuation_profile_to_complete_valuation_profile` -/

theorem fillZero_spec (vals : List (Option Rat)) :
    (fillZero vals).length = vals.length ∧
    (∀ (j : Nat) (v : Rat), vals[j]? = some (some v) → (fillZero vals)[j]? = some v) ∧
    (∀ j : Nat, vals[j]? = some none → (fillZero vals)[j]? = some 0) := by
  refine ⟨by simp [fillZero], ?_, ?_⟩
  · intro j v h
    simp [fillZero, List.getElem?_map, h]
  · intro j h
    simp [fillZero, List.getElem?_map, h]
