import Sck.Proofs.FlowProof
import Sck.Proofs.Mcm

/-! C09: the unit-capacity network of a bipartite graph — well-formedness and its capacity function. -/

/-- the edges of `bipNet`, as a relation -/
def BipEdge (X Y : List Int) (adj : Int → List Int) (u v : Int) : Prop :=
  (u ∈ X ∧ v ∈ adj u) ∨ (u = -1 ∧ v ∈ X) ∨ (u ∈ Y ∧ v = -2)

theorem mem_bipNet_edges (X Y : List Int) (adj : Int → List Int) (e : Int × Int × Nat) :
    e ∈ (bipNet X Y adj).edges ↔ e.2.2 = 1 ∧ BipEdge X Y adj e.1 e.2.1 := by
  obtain ⟨u, v, c⟩ := e
  simp only [bipNet, BipEdge, List.mem_append, List.mem_flatMap, List.mem_map, Prod.mk.injEq]
  constructor
  · rintro ((⟨x, hx, y, hy, rfl, rfl, rfl⟩ | ⟨x, hx, rfl, rfl, rfl⟩) | ⟨y, hy, rfl, rfl, rfl⟩)
    · exact ⟨rfl, Or.inl ⟨hx, hy⟩⟩
    · exact ⟨rfl, Or.inr (Or.inl ⟨rfl, hx⟩)⟩
    · exact ⟨rfl, Or.inr (Or.inr ⟨hy, rfl⟩)⟩
  · rintro ⟨rfl, (⟨hx, hy⟩ | ⟨rfl, hx⟩ | ⟨hy, rfl⟩)⟩
    · exact Or.inl (Or.inl ⟨u, hx, v, hy, rfl, rfl, rfl⟩)
    · exact Or.inl (Or.inr ⟨v, hx, rfl, rfl, rfl⟩)
    · exact Or.inr ⟨u, hy, rfl, rfl, rfl⟩

theorem bipNet_cap_eq_one (X Y : List Int) (adj : Int → List Int) (u v : Int)
    (h : BipEdge X Y adj u v) : (bipNet X Y adj).cap u v = 1 := by
  unfold Net.cap
  split
  · rename_i e he
    have hm := List.mem_of_find?_eq_some he
    rw [mem_bipNet_edges] at hm
    simp [hm.1]
  · rename_i hnone
    rw [List.find?_eq_none] at hnone
    have := hnone (u, v, 1) ((mem_bipNet_edges X Y adj (u, v, 1)).mpr ⟨rfl, h⟩)
    simp at this

theorem bipNet_cap_eq_zero (X Y : List Int) (adj : Int → List Int) (u v : Int)
    (h : ¬ BipEdge X Y adj u v) : (bipNet X Y adj).cap u v = 0 := by
  unfold Net.cap
  split
  · rename_i e he
    have hm := List.mem_of_find?_eq_some he
    have hp := List.find?_some he
    simp only [Bool.and_eq_true, beq_iff_eq] at hp
    rw [mem_bipNet_edges, hp.1, hp.2] at hm
    exact absurd hm.2 h
  · rfl

theorem bipNet_cap_le_one (X Y : List Int) (adj : Int → List Int) (u v : Int) :
    (bipNet X Y adj).cap u v ≤ 1 := by
  by_cases h : BipEdge X Y adj u v
  · rw [bipNet_cap_eq_one X Y adj u v h]
  · rw [bipNet_cap_eq_zero X Y adj u v h]; decide

/-- `bipWfB`, unpacked -/
structure BipWF (X Y : List Int) (adj : Int → List Int) : Prop where
  ndX : X.Nodup
  ndY : Y.Nodup
  disj : ∀ x ∈ X, x ∉ Y
  sX : (-1 : Int) ∉ X
  sY : (-1 : Int) ∉ Y
  tX : (-2 : Int) ∉ X
  tY : (-2 : Int) ∉ Y
  ndAdj : ∀ x ∈ X, (adj x).Nodup
  adjY : ∀ x ∈ X, ∀ y ∈ adj x, y ∈ Y

theorem bipWfB_iff (X Y : List Int) (adj : Int → List Int) : bipWfB X Y adj = true ↔ BipWF X Y adj := by
  simp only [bipWfB, Bool.and_eq_true, decide_eq_true_eq, Bool.not_eq_true', List.all_eq_true,
    List.contains_iff_mem, List.nodup_append]
  constructor
  · rintro ⟨⟨⟨⟨h1, h2, h3⟩, hs⟩, ht⟩, hadj⟩
    have hs' : (-1 : Int) ∉ X ++ Y := by
      intro hm; have := List.contains_iff_mem.mpr hm; rw [hs] at this; exact absurd this (by decide)
    have ht' : (-2 : Int) ∉ X ++ Y := by
      intro hm; have := List.contains_iff_mem.mpr hm; rw [ht] at this; exact absurd this (by decide)
    rw [List.mem_append, not_or] at hs' ht'
    exact ⟨h1, h2, fun x hx hy => h3 x hx x hy rfl, hs'.1, hs'.2, ht'.1, ht'.2,
      fun x hx => (hadj x hx).1, fun x hx => (hadj x hx).2⟩
  · intro h
    refine ⟨⟨⟨⟨h.ndX, h.ndY, fun a ha b hb e => h.disj a ha (e ▸ hb)⟩, ?_⟩, ?_⟩,
      fun x hx => ⟨h.ndAdj x hx, h.adjY x hx⟩⟩
    · cases hc : (X ++ Y).contains (-1)
      · rfl
      · have := List.mem_append.mp (List.contains_iff_mem.mp hc); exact absurd this (by simp [h.sX, h.sY])
    · cases hc : (X ++ Y).contains (-2)
      · rfl
      · have := List.mem_append.mp (List.contains_iff_mem.mp hc); exact absurd this (by simp [h.tX, h.tY])

theorem bipNet_WF (X Y : List Int) (adj : Int → List Int) : (bipNet X Y adj).WF := by
  refine ⟨?_, ?_, ?_⟩ <;> simp [bipNet]

theorem mem_bipNet_verts (X Y : List Int) (adj : Int → List Int) (v : Int) :
    v ∈ (bipNet X Y adj).verts ↔ v ∈ X ∨ v = -1 ∨ v = -2 ∨ v ∈ Y := by
  simp [bipNet]

theorem bipNet_verts_nodup (X Y : List Int) (adj : Int → List Int) (w : BipWF X Y adj) :
    (bipNet X Y adj).verts.Nodup := by
  simp only [bipNet, List.nodup_append, List.mem_append, List.mem_cons, List.nodup_cons,
    List.not_mem_nil, or_false, List.nodup_nil, not_false_eq_true, and_true]
  refine ⟨⟨w.ndX, ⟨by decide, ?_⟩⟩, w.ndY, ?_⟩
  · rintro a ha b (rfl | rfl) rfl
    · exact w.sX ha
    · exact w.tX ha
  · rintro a (ha | rfl | rfl) b hb rfl
    · exact w.disj a ha hb
    · exact w.sY hb
    · exact w.tY hb

theorem bipNet_keys_nodup (X Y : List Int) (adj : Int → List Int) (w : BipWF X Y adj) :
    ((bipNet X Y adj).edges.map (fun e => (e.1, e.2.1))).Nodup := by
  unfold List.Nodup
  rw [List.pairwise_map]
  simp only [bipNet, List.pairwise_append, List.pairwise_flatMap, List.pairwise_map, List.mem_append,
    List.mem_flatMap, List.mem_map]
  refine ⟨⟨⟨fun x hx => ?_, ?_⟩, ?_, ?_⟩, ?_, ?_⟩
  · exact (w.ndAdj x hx).imp (fun hne => by simpa using hne)
  · exact w.ndX.imp (fun hne => by
      rintro _ ⟨y, _, rfl⟩ _ ⟨y', _, rfl⟩; simp [hne])
  · exact w.ndX.imp (fun hne => by simpa using hne)
  · rintro _ ⟨x, hx, y, hy, rfl⟩ _ ⟨x', hx', rfl⟩
    simp only [ne_eq, Prod.mk.injEq, not_and]
    intro e; exact absurd (e ▸ hx) w.sX
  · exact w.ndY.imp (fun hne => by simpa using hne)
  · rintro _ (⟨x, hx, y, hy, rfl⟩ | ⟨x, hx, rfl⟩) _ ⟨y', hy', rfl⟩
    · simp only [ne_eq, Prod.mk.injEq, not_and]
      intro e; exact absurd (e ▸ hy') (w.disj x hx)
    · simp only [ne_eq, Prod.mk.injEq, not_and]
      intro e; exact absurd (e ▸ hy') w.sY

/-- the network built from a well-formed bipartite instance passes the C08 network check -/
theorem bipNet_wf (X Y : List Int) (adj : Int → List Int) (h : bipWfB X Y adj = true) :
    netWfB (bipNet X Y adj) = true := by
  have w := (bipWfB_iff X Y adj).mp h
  simp only [netWfB, Bool.and_eq_true, decide_eq_true_eq, List.contains_iff_mem, Bool.not_eq_true',
    List.all_eq_true]
  refine ⟨⟨⟨⟨⟨bipNet_verts_nodup X Y adj w, (bipNet_WF X Y adj).1⟩, (bipNet_WF X Y adj).2.1⟩, by simp [bipNet]⟩,
    ?_⟩, bipNet_keys_nodup X Y adj w⟩
  intro e he
  rw [mem_bipNet_edges] at he
  rw [mem_bipNet_verts, mem_bipNet_verts]
  rcases he.2 with ⟨hx, hy⟩ | ⟨hs, hx⟩ | ⟨hy, ht⟩
  · exact ⟨Or.inl hx, Or.inr (Or.inr (Or.inr (w.adjY _ hx _ hy)))⟩
  · exact ⟨Or.inr (Or.inl hs), Or.inl hx⟩
  · exact ⟨Or.inr (Or.inr (Or.inr hy)), Or.inr (Or.inr (Or.inl ht))⟩

#print axioms bipNet_wf
#print axioms bipNet_cap_eq_one
#print axioms bipNet_cap_eq_zero
