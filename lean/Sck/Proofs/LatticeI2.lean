import Sck.Proofs.Lattice5
import Sck.Proofs.LatticeI1

/-! # C03, package L8a, part 2: the loop invariant of `find_all_rotations_and_eliminations` and what it says about
`find_rotations`

`WInv` (women's side): woman `w`'s list is her preference order cut after her current partner, and
`preference_matrix_2` is its indicator.  `MInv` (men's side, valid at the start of each level): man `m`'s list is in his
preference order, contains every woman who has him on her list, and its first two entries are such women.
Consequences for a STABLE current matching `μ`: the first entry of `m`'s list is `μ m`, the second one (if any) is his
successor woman `s_μ(m)` of `Lattice2`, so `outEdge` is the "next man" function, the cycles found by `find_rotations`
are exactly rotations exposed in `μ` (`found_exposed`), and when nothing is found no rotation is exposed (`none_exposed`). -/

namespace SMLattice

open Irving IrvingAlgo

variable {n : ℕ}

/-- women's side of the loop invariant; `hus w` is the current partner of woman `w` -/
structure WInv (n : ℕ) (P2 : List (List Nat)) (l2 : List (List Nat)) (pm2 : List (List Bool))
    (hus : Fin n → Fin n) : Prop where
  len : l2.length = n
  sorted : ∀ w : Fin n, (l2.getD w []).Pairwise (fun a b => rankOf P2 w a < rankOf P2 w b)
  mem : ∀ (w : Fin n) (m : Nat), m ∈ l2.getD w [] ↔ m < n ∧ rankOf P2 w m ≤ rankOf P2 w (hus w)
  pm : ∀ w m : Nat, (pm2.getD w []).getD m false = (l2.getD w []).contains m

/-- men's side of the loop invariant (start of a level) -/
structure MInv (n : ℕ) (P1 : List (List Nat)) (l1 l2 : List (List Nat)) : Prop where
  len : l1.length = n
  sorted : ∀ m : Fin n, (l1.getD m []).Pairwise (fun a b => rankOf P1 m a < rankOf P1 m b)
  lt : ∀ m : Fin n, ∀ w ∈ l1.getD m [], w < n
  sup : ∀ (m : Fin n) (w : Nat), (m : Nat) ∈ l2.getD w [] → w ∈ l1.getD m []
  valid1 : ∀ (m : Fin n) (a : Nat) (t : List Nat), l1.getD m [] = a :: t → (m : Nat) ∈ l2.getD a []
  valid2 : ∀ (m : Fin n) (a b : Nat) (t : List Nat), l1.getD m [] = a :: b :: t → (m : Nat) ∈ l2.getD b []

theorem sorted_getLast {f : Nat → Nat} {l : List Nat} (hs : l.Pairwise (fun a b => f a < f b)) {x : Nat}
    (hx : x ∈ l) (hmax : ∀ y ∈ l, f y ≤ f x) : l.getLast? = some x := by
  obtain ⟨i, hi, rfl⟩ := List.getElem_of_mem hx
  rw [List.getLast?_eq_getElem?]
  have : i = l.length - 1 := by
    by_contra hne
    have hlt : i < l.length - 1 := by omega
    have h1 := (List.pairwise_iff_getElem.mp hs) i (l.length - 1) hi (by omega) hlt
    have h2 := hmax _ (List.getElem_mem (show l.length - 1 < l.length by omega))
    omega
  rw [← this, List.getElem?_eq_getElem hi]

theorem WInv.mem_fin {P2 : List (List Nat)} {l2 : List (List Nat)} {pm2 : List (List Bool)} {hus : Fin n → Fin n}
    (hW : WInv n P2 l2 pm2 hus) (w m : Fin n) :
    (m : Nat) ∈ l2.getD w [] ↔ rk n P2 w m ≤ rk n P2 w (hus w) := by
  rw [hW.mem]
  exact ⟨fun h => h.2, fun h => ⟨m.2, h⟩⟩

theorem WInv.lt {P2 : List (List Nat)} {l2 : List (List Nat)} {pm2 : List (List Bool)} {hus : Fin n → Fin n}
    (hW : WInv n P2 l2 pm2 hus) (w m : Nat) (h : m ∈ l2.getD w []) : w < n ∧ m < n := by
  by_cases hw : w < n
  · exact ⟨hw, ((hW.mem ⟨w, hw⟩ m).mp h).1⟩
  · rw [List.getD_eq_getElem?_getD, List.getElem?_eq_none (by rw [hW.len]; omega)] at h
    simp at h

theorem WInv.last {P2 : List (List Nat)} {l2 : List (List Nat)} {pm2 : List (List Bool)} {hus : Fin n → Fin n}
    (hW : WInv n P2 l2 pm2 hus) (w : Fin n) : (l2.getD w []).getLast? = some ((hus w : Fin n) : Nat) := by
  refine sorted_getLast (hW.sorted w) ((hW.mem_fin w (hus w)).mpr (Nat.le_refl _)) ?_
  intro y hy
  exact ((hW.mem w y).mp hy).2

section consequences

variable {P1 P2 : List (List Nat)} {l1 l2 : List (List Nat)} {pm2 : List (List Bool)} {μ : Equiv.Perm (Fin n)}

/-- the first entry of `m`'s list is his partner -/
theorem l1_head (hW : WInv n P2 l2 pm2 μ.symm) (hM : MInv n P1 l1 l2) (h2 : ∀ b, Function.Injective (rk n P2 b))
    (hμ : StableSM (rk n P1) (rk n P2) μ) (m : Fin n) : ∃ t, l1.getD m [] = ((μ m : Fin n) : Nat) :: t := by
  have hmem : ((μ m : Fin n) : Nat) ∈ l1.getD m [] :=
    hM.sup m _ ((hW.mem_fin (μ m) m).mpr (by simp))
  match hl : l1.getD m [] with
  | [] => rw [hl] at hmem; simp at hmem
  | a :: t =>
    by_cases hae : a = ((μ m : Fin n) : Nat)
    · exact ⟨t, by rw [hae]⟩
    · exfalso
      have ha : a < n := hM.lt m a (hl ▸ List.mem_cons_self)
      have hv := hM.valid1 m a t hl
      rw [hl] at hmem
      have hmt : ((μ m : Fin n) : Nat) ∈ t := by
        rcases List.mem_cons.mp hmem with h | h
        · exact absurd h.symm hae
        · exact h
      have hs := hM.sorted m
      rw [hl] at hs
      have hlt := (List.pairwise_cons.mp hs).1 _ hmt
      have hle := (hW.mem_fin ⟨a, ha⟩ m).mp hv
      have hne : m ≠ μ.symm ⟨a, ha⟩ := by
        intro he
        apply hae
        have : μ m = ⟨a, ha⟩ := by rw [he]; simp
        rw [this]
      have hlt2 : rk n P2 ⟨a, ha⟩ m < rk n P2 ⟨a, ha⟩ (μ.symm ⟨a, ha⟩) :=
        lt_of_le_of_ne hle (fun h => hne (h2 _ h))
      exact hμ m ⟨a, ha⟩ ⟨hlt, hlt2⟩

theorem pairOf_eq (hW : WInv n P2 l2 pm2 μ.symm) (hM : MInv n P1 l1 l2) (h2 : ∀ b, Function.Injective (rk n P2 b))
    (hμ : StableSM (rk n P1) (rk n P2) μ) (m : Fin n) : pairOf l1 m = pr μ m := by
  obtain ⟨t, ht⟩ := l1_head hW hM h2 hμ m
  unfold pairOf pr
  rw [ht]; rfl

/-- the second entry of `m`'s list is his successor woman -/
theorem l1_second (hW : WInv n P2 l2 pm2 μ.symm) (hM : MInv n P1 l1 l2) (h2 : ∀ b, Function.Injective (rk n P2 b))
    (hμ : StableSM (rk n P1) (rk n P2) μ) (m : Fin n) {a b : Nat} {t : List Nat} (hl : l1.getD m [] = a :: b :: t) :
    ∃ hb : b < n, IsSucc (rk n P1) (rk n P2) μ m ⟨b, hb⟩ := by
  obtain ⟨t', ht'⟩ := l1_head hW hM h2 hμ m
  have ha : a = ((μ m : Fin n) : Nat) := by
    rw [hl] at ht'
    exact (List.cons.inj ht').1
  have hb : b < n := hM.lt m b (by rw [hl]; simp)
  have hs := hM.sorted m
  rw [hl] at hs
  obtain ⟨hs1, hs2⟩ := List.pairwise_cons.mp hs
  have hab : rankOf P1 m a < rankOf P1 m b := hs1 b List.mem_cons_self
  refine ⟨hb, ⟨?_, ?_⟩, ?_⟩
  · show rankOf P1 m (μ m) < rankOf P1 m b
    rw [← ha]; exact hab
  · have hle := (hW.mem_fin ⟨b, hb⟩ m).mp (hM.valid2 m a b t hl)
    refine lt_of_le_of_ne hle (fun h => ?_)
    have : m = μ.symm ⟨b, hb⟩ := h2 _ h
    have hb' : μ m = ⟨b, hb⟩ := by rw [this]; simp
    rw [hb'] at ha
    have hab' : a = b := ha
    rw [hab'] at hab
    exact Nat.lt_irrefl _ hab
  · intro b' ⟨c1, c2⟩
    have hm : (m : Nat) ∈ l2.getD b' [] := (hW.mem_fin b' m).mpr (Nat.le_of_lt c2)
    have := hM.sup m b' hm
    rw [hl] at this
    rcases List.mem_cons.mp this with h | h
    · exfalso
      have : b' = μ m := Fin.ext (h.trans ha)
      rw [this] at c1
      exact Nat.lt_irrefl _ c1
    · rcases List.mem_cons.mp h with h | h
      · have : b' = ⟨b, hb⟩ := Fin.ext h
        rw [this]
      · exact Nat.le_of_lt ((List.pairwise_cons.mp hs2).1 _ h)

/-- a list of length one: no candidate -/
theorem l1_single (hW : WInv n P2 l2 pm2 μ.symm) (hM : MInv n P1 l1 l2) (h2 : ∀ b, Function.Injective (rk n P2 b))
    (hμ : StableSM (rk n P1) (rk n P2) μ) (m : Fin n) {a : Nat} (hl : l1.getD m [] = [a]) (b : Fin n) :
    ¬ Cand (rk n P1) (rk n P2) μ m b := by
  rintro ⟨c1, c2⟩
  obtain ⟨t', ht'⟩ := l1_head hW hM h2 hμ m
  have hm : (m : Nat) ∈ l2.getD b [] := (hW.mem_fin b m).mpr (Nat.le_of_lt c2)
  have := hM.sup m b hm
  rw [ht'] at this hl
  obtain ⟨_, rfl⟩ := List.cons.inj hl
  simp only [List.mem_singleton] at this
  have : b = μ m := Fin.ext this
  rw [this] at c1
  exact Nat.lt_irrefl _ c1

/-- `G(S)`: the out-edge of `m` goes to the partner of his successor woman -/
theorem outEdge_cases (hW : WInv n P2 l2 pm2 μ.symm) (hM : MInv n P1 l1 l2) (h2 : ∀ b, Function.Injective (rk n P2 b))
    (hμ : StableSM (rk n P1) (rk n P2) μ) (m : Fin n) :
    (outEdge l1 l2 m = none ∧ ∀ b, ¬ Cand (rk n P1) (rk n P2) μ m b) ∨
    ∃ b : Fin n, IsSucc (rk n P1) (rk n P2) μ m b ∧ outEdge l1 l2 m = some ((μ.symm b : Fin n) : Nat) := by
  obtain ⟨t, ht⟩ := l1_head hW hM h2 hμ m
  cases t with
  | nil =>
    left
    refine ⟨?_, l1_single hW hM h2 hμ m ht⟩
    unfold outEdge; rw [ht]
  | cons b t =>
    right
    obtain ⟨hb, hsucc⟩ := l1_second hW hM h2 hμ m ht
    refine ⟨⟨b, hb⟩, hsucc, ?_⟩
    unfold outEdge
    rw [ht]
    have hlast := hW.last ⟨b, hb⟩
    simp only at hlast
    simp only [hlast, Option.getD_some]
    have hne : (m : Nat) ≠ ((μ.symm ⟨b, hb⟩ : Fin n) : Nat) := by
      intro he
      have he' : m = μ.symm ⟨b, hb⟩ := Fin.ext he
      have : μ m = ⟨b, hb⟩ := by rw [he']; simp
      have := hsucc.1.1
      rw [‹μ m = ⟨b, hb⟩›] at this
      exact Nat.lt_irrefl _ this
    simp [hne]

theorem exists_fin_list : ∀ c : List Nat, (∀ x ∈ c, x < n) → ∃ ρ : List (Fin n), ρ.map Fin.val = c := by
  intro c
  induction c with
  | nil => intro _; exact ⟨[], rfl⟩
  | cons x c ih =>
    intro h
    obtain ⟨ρ, hρ⟩ := ih (fun y hy => h y (List.mem_cons_of_mem _ hy))
    exact ⟨⟨x, h x List.mem_cons_self⟩ :: ρ, by simp [hρ]⟩

/-- a cycle of `G(S)` is a rotation exposed in `μ`, and the walk lists it with the right women -/
theorem cycle_exposed (hW : WInv n P2 l2 pm2 μ.symm) (hM : MInv n P1 l1 l2)
    (h2 : ∀ b, Function.Injective (rk n P2 b))
    (hμ : StableSM (rk n P1) (rk n P2) μ) {c : List Nat} (hc : IsCycle (outEdge l1 l2) c) :
    ∃ ρ : List (Fin n), ExposedRot (rk n P1) (rk n P2) μ ρ ∧ c.map (pairOf l1) = rotPairs μ ρ := by
  obtain ⟨hne, hnd, hstep⟩ := hc
  have hlt : ∀ x ∈ c, x < n := by
    intro x hx
    obtain ⟨i, hi, rfl⟩ := List.getElem_of_mem hx
    by_contra hge
    have := hstep i hi
    rw [outEdge_nil (by rw [List.getD_eq_getElem?_getD, List.getElem?_eq_none (by rw [hM.len]; omega)]; rfl)] at this
    simp at this
  obtain ⟨ρ, hρ⟩ := exists_fin_list c hlt
  have hlen : ρ.length = c.length := by rw [← hρ]; simp
  have hget : ∀ i (hi : i < ρ.length), ((ρ[i] : Fin n) : Nat) = c[i]'(hlen ▸ hi) := by
    intro i hi
    simp only [← hρ, List.getElem_map]
  have hndρ : ρ.Nodup := List.Nodup.of_map Fin.val (hρ ▸ hnd)
  refine ⟨ρ, ⟨hndρ, fun h0 => hne (by rw [← hρ, h0]; rfl), ?_⟩, ?_⟩
  · intro a ha
    obtain ⟨i, hi, rfl⟩ := List.getElem_of_mem ha
    rw [List.formPerm_apply_getElem ρ hndρ i hi]
    have hs := hstep i (hlen ▸ hi)
    rw [← hget i hi] at hs
    rcases outEdge_cases hW hM h2 hμ ρ[i] with ⟨hnone, _⟩ | ⟨b, hb, hsome⟩
    · rw [hnone] at hs; simp at hs
    · rw [hsome, Option.some.injEq] at hs
      have hi' : (i + 1) % ρ.length < ρ.length := Nat.mod_lt _ (by omega)
      have e : μ.symm b = ρ[(i + 1) % ρ.length] := by
        apply Fin.ext
        rw [hs, hget _ hi']
        simp only [hlen]
      have : b = μ ρ[(i + 1) % ρ.length] := by rw [← e]; simp
      rw [← this]; exact hb
  · rw [← hρ, List.map_map]
    unfold rotPairs
    apply List.map_congr_left
    intro a _
    exact pairOf_eq hW hM h2 hμ a

/-- **what `find_rotations` finds**: pairs forms of pairwise disjoint rotations exposed in `μ` -/
theorem found_exposed (hW : WInv n P2 l2 pm2 μ.symm) (hM : MInv n P1 l1 l2)
    (h2 : ∀ b, Function.Injective (rk n P2 b))
    (hμ : StableSM (rk n P1) (rk n P2) μ) :
    ∃ ρs : List (List (Fin n)), findRotations l1 l2 = ρs.map (rotPairs μ) ∧
      (∀ ρ ∈ ρs, ExposedRot (rk n P1) (rk n P2) μ ρ) ∧ ρs.Pairwise List.Disjoint := by
  have hall : ∀ r ∈ findRotations l1 l2, ∃ ρ, ExposedRot (rk n P1) (rk n P2) μ ρ ∧ r = rotPairs μ ρ := by
    intro r hr
    obtain ⟨c, hc, rfl⟩ := findRotations_cycles l1 l2 r hr
    exact cycle_exposed hW hM h2 hμ hc
  have hdis := findRotations_disjoint l1 l2
  generalize findRotations l1 l2 = L at hall hdis
  induction L with
  | nil => exact ⟨[], rfl, by simp, List.Pairwise.nil⟩
  | cons r L ih =>
    obtain ⟨hd1, hd2⟩ := List.pairwise_cons.mp hdis
    obtain ⟨ρs, hL, hex, hpw⟩ := ih (fun r hr => hall r (List.mem_cons_of_mem _ hr)) hd2
    obtain ⟨ρ, hρ, rfl⟩ := hall r List.mem_cons_self
    refine ⟨ρ :: ρs, by rw [hL]; rfl, ?_, List.pairwise_cons.mpr ⟨?_, hpw⟩⟩
    · intro σ hσ
      rcases List.mem_cons.mp hσ with rfl | hσ
      · exact hρ
      · exact hex σ hσ
    · intro σ hσ a ha ha'
      have := hd1 (rotPairs μ σ) (by rw [hL]; exact List.mem_map_of_mem hσ) (pr μ a)
        (List.mem_map_of_mem ha) (pr μ a) (List.mem_map_of_mem ha')
      exact this rfl

/-- **when `find_rotations` finds nothing, no rotation is exposed** -/
theorem none_exposed (hW : WInv n P2 l2 pm2 μ.symm) (hM : MInv n P1 l1 l2)
    (h1 : ∀ a, Function.Injective (rk n P1 a)) (h2 : ∀ b, Function.Injective (rk n P2 b))
    (hμ : StableSM (rk n P1) (rk n P2) μ) (hnil : findRotations l1 l2 = []) (ρ : List (Fin n)) :
    ¬ ExposedRot (rk n P1) (rk n P2) μ ρ := by
  intro hex
  obtain ⟨a, ha⟩ := List.exists_mem_of_ne_nil _ hex.2.1
  obtain ⟨y, hreach, hnone⟩ := findRotations_nil_dead l1 l2 hnil a
  have hstay : ∀ x y, Relation.ReflTransGen (fun a b => outEdge l1 l2 a = some b) x y →
      (∃ a ∈ ρ, x = ((a : Fin n) : Nat)) → ∃ a ∈ ρ, y = ((a : Fin n) : Nat) := by
    intro x y hxy
    induction hxy with
    | refl => exact fun h => h
    | tail _ hstep ih =>
      intro hx
      obtain ⟨a, ha, rfl⟩ := ih hx
      rcases outEdge_cases hW hM h2 hμ a with ⟨hn, _⟩ | ⟨b, hb, hsome⟩
      · rw [hn] at hstep; simp at hstep
      · rw [hsome, Option.some.injEq] at hstep
        have := isSucc_unique h1 (hex.2.2 a ha) hb
        refine ⟨ρ.formPerm a, List.formPerm_apply_mem_of_mem ha, ?_⟩
        rw [← hstep, ← this]; simp
  obtain ⟨a', ha', rfl⟩ := hstay a y hreach ⟨a, ha, rfl⟩
  rcases outEdge_cases hW hM h2 hμ a' with ⟨_, hno⟩ | ⟨b, _, hsome⟩
  · exact hno _ (hex.2.2 a' ha').1
  · rw [hsome] at hnone; simp at hnone

end consequences

end SMLattice
