import Sck.Proofs.McmTotal
import Sck.Proofs.FlowCut

/-! C09: the König cover read off the cut that the model's max-flow run returns always passes the certificate
check against the model's matching (so the certificate route never raises a false alarm on the model). -/

open Finset

/-- the set returned by `ff` is closed under positive-residual edges -/
theorem ff_closed (N : Net) (fuel : Nat) (f : Flow) (S : List Int) (h : ff N fuel = .ok (f, S)) :
    ∀ u ∈ S, ∀ v ∈ N.verts, v ∈ S ∨ resid N f u v ≤ 0 := by
  simp only [ff] at h
  split at h
  · simp at h
  · split at h
    · rename_i hchk
      simp only [Except.ok.injEq, Prod.mk.injEq] at h
      obtain ⟨rfl, rfl⟩ := h
      simp only [Bool.and_eq_true] at hchk
      have hclosed := hchk.1.1.1
      simp only [closedB, List.all_eq_true, Bool.or_eq_true, List.contains_iff_mem,
        decide_eq_true_eq] at hclosed
      exact hclosed
    · simp at h

section
variable {X Y : List Int} {adj : Int → List Int} {f : Flow}

/-- a left vertex sends a unit to at most one neighbour -/
theorem bf_left_unique (w : BipWF X Y adj) (hf : BipFlow X Y adj f) {x y u : Int} (hx : x ∈ X)
    (hy : y ∈ adj x) (hu : u ∈ adj x) (h1 : f x y = 1) (h2 : 1 ≤ f x u) : u = y := by
  by_contra hne
  have hsum := bf_left_sum w hf hx
  have hunit := bf_source_unit w hf x
  have hsub : ({y, u} : Finset Int) ⊆ (adj x).toFinset := by
    intro v hv
    rcases mem_insert.mp hv with rfl | hv
    · exact List.mem_toFinset.mpr hy
    · rw [mem_singleton.mp hv]; exact List.mem_toFinset.mpr hu
  have hle := sum_le_sum_of_subset_of_nonneg (f := fun v => f x v) hsub
    (fun v hv _ => (bf_left_unit w hf hx (List.mem_toFinset.mp hv)).1)
  rw [sum_pair (fun e => hne e.symm)] at hle
  omega

theorem koenigCover_nodup (w : BipWF X Y adj) (S : List Int) : (koenigCover X Y S).Nodup := by
  unfold koenigCover
  rw [List.nodup_append]
  refine ⟨w.ndX.filter _, w.ndY.filter _, ?_⟩
  intro a ha b hb e
  exact w.disj a (List.mem_filter.mp ha).1 (e ▸ (List.mem_filter.mp hb).1)

/-- the König cover of ANY s–t cut is no larger than the capacity of the cut -/
theorem koenigCover_le_cutCap (w : BipWF X Y adj) (S : List Int) (hs : (-1 : Int) ∈ S)
    (ht : (-2 : Int) ∉ S) :
    ((koenigCover X Y S).length : Int) ≤
      cutCap (bipNet X Y adj).verts.toFinset (bipNet X Y adj).cap S.toFinset := by
  have hV : ∀ v, v ∈ (bipNet X Y adj).verts.toFinset ↔ v ∈ X ∨ v = -1 ∨ v = -2 ∨ v ∈ Y := fun v => by
    rw [List.mem_toFinset, mem_bipNet_verts]
  let g : Int → Int × Int := fun c => if c ∈ X then (-1, c) else (c, -2)
  have hC : ∀ c ∈ koenigCover X Y S, (c ∈ X ∧ c ∉ S) ∨ (c ∉ X ∧ c ∈ Y ∧ c ∈ S) := by
    intro c hc
    unfold koenigCover at hc
    rcases List.mem_append.mp hc with h | h
    · have := List.mem_filter.mp h
      exact Or.inl ⟨this.1, by simpa using this.2⟩
    · have := List.mem_filter.mp h
      exact Or.inr ⟨fun hx => w.disj c hx this.1, this.1, by simpa using this.2⟩
  have hmem : ∀ c ∈ koenigCover X Y S,
      g c ∈ S.toFinset ×ˢ ((bipNet X Y adj).verts.toFinset \ S.toFinset) := by
    intro c hc
    rcases hC c hc with ⟨hx, hns⟩ | ⟨hnx, hy, hcs⟩
    · simp only [g, if_pos hx]
      exact mem_product.mpr ⟨List.mem_toFinset.mpr hs,
        mem_sdiff.mpr ⟨(hV _).mpr (Or.inl hx), fun h => hns (List.mem_toFinset.mp h)⟩⟩
    · simp only [g, if_neg hnx]
      exact mem_product.mpr ⟨List.mem_toFinset.mpr hcs,
        mem_sdiff.mpr ⟨(hV _).mpr (Or.inr (Or.inr (Or.inl rfl))), fun h => ht (List.mem_toFinset.mp h)⟩⟩
  have hcap : ∀ c ∈ koenigCover X Y S, (bipNet X Y adj).cap (g c).1 (g c).2 = 1 := by
    intro c hc
    apply bipNet_cap_eq_one
    rcases hC c hc with ⟨hx, _⟩ | ⟨hnx, hy, _⟩
    · simp only [g, if_pos hx]; exact Or.inr (Or.inl ⟨rfl, hx⟩)
    · simp only [g, if_neg hnx]; exact Or.inr (Or.inr ⟨hy, rfl⟩)
  have hinj : Set.InjOn g ((koenigCover X Y S).toFinset : Set Int) := by
    intro c hc c' hc' e
    have hc : c ∈ koenigCover X Y S := List.mem_toFinset.mp (by simpa using hc)
    have hc' : c' ∈ koenigCover X Y S := List.mem_toFinset.mp (by simpa using hc')
    rcases hC c hc with ⟨hx, _⟩ | ⟨hnx, hy, _⟩ <;> rcases hC c' hc' with ⟨hx', _⟩ | ⟨hnx', hy', _⟩
    · simp only [g, if_pos hx, if_pos hx'] at e; exact (Prod.mk.inj e).2
    · simp only [g, if_pos hx, if_neg hnx'] at e; exact absurd ((Prod.mk.inj e).2 ▸ hx) w.tX
    · simp only [g, if_neg hnx, if_pos hx'] at e; exact absurd ((Prod.mk.inj e).2 ▸ hx') w.tX
    · simp only [g, if_neg hnx, if_neg hnx'] at e; exact (Prod.mk.inj e).1
  have hcard : ((koenigCover X Y S).toFinset.image g).card = (koenigCover X Y S).length := by
    rw [card_image_of_injOn hinj, List.toFinset_card_of_nodup (koenigCover_nodup w S)]
  have hsubset : (koenigCover X Y S).toFinset.image g ⊆
      S.toFinset ×ˢ ((bipNet X Y adj).verts.toFinset \ S.toFinset) := by
    intro e he
    obtain ⟨c, hc, rfl⟩ := mem_image.mp he
    exact hmem c (List.mem_toFinset.mp hc)
  calc ((koenigCover X Y S).length : Int)
      = ∑ _e ∈ (koenigCover X Y S).toFinset.image g, (1 : Int) := by rw [← hcard]; simp
    _ = ∑ e ∈ (koenigCover X Y S).toFinset.image g, (bipNet X Y adj).cap e.1 e.2 := by
        refine sum_congr rfl (fun e he => ?_)
        obtain ⟨c, hc, rfl⟩ := mem_image.mp he
        exact (hcap c (List.mem_toFinset.mp hc)).symm
    _ ≤ ∑ e ∈ S.toFinset ×ˢ ((bipNet X Y adj).verts.toFinset \ S.toFinset),
          (bipNet X Y adj).cap e.1 e.2 :=
        sum_le_sum_of_subset_of_nonneg hsubset (fun e _ _ => cap_nonneg _ _ _)
    _ = cutCap (bipNet X Y adj).verts.toFinset (bipNet X Y adj).cap S.toFinset := by
        rw [sum_product']; rfl

/-- no graph edge leaves the set found by the final search of the max-flow run -/
theorem ff_cut_no_cross (w : BipWF X Y adj) (fuel : Nat) (S : List Int)
    (h : ff (bipNet X Y adj) fuel = .ok (f, S)) :
    ∀ x ∈ X, ∀ y ∈ adj x, x ∈ S → y ∈ S := by
  have hf : BipFlow X Y adj f := (ff_correct _ (bipNet_WF X Y adj) fuel f S h).1
  have hs : (-1 : Int) ∈ S := (ff_correct _ (bipNet_WF X Y adj) fuel f S h).2.1
  have hclosed := ff_closed _ fuel f S h
  have hSr := ff_cut_eq_reach _ fuel f S h
  -- invariant along the search: a reached left vertex that sends a unit to `y` was reached through `y`
  have hinv : ∀ v ∈ reach (bipNet X Y adj) f,
      v ∈ S ∧ (v ∈ X → ∀ y ∈ adj v, f v y = 1 → y ∈ S) := by
    apply reach_induction (bipNet X Y adj) f
      (fun v => v ∈ S ∧ (v ∈ X → ∀ y ∈ adj v, f v y = 1 → y ∈ S))
    · exact ⟨hs, fun hx => absurd hx w.sX⟩
    · intro u v hu hv hpos
      have hvS : v ∈ S := by
        rcases hclosed u hu.1 v hv with h1 | h1
        · exact h1
        · omega
      refine ⟨hvS, fun hx y hy hfy => ?_⟩
      unfold resid at hpos
      by_cases hus : u = -1
      · subst hus
        -- then the source still has room towards `v`, so `v` sends nothing
        rw [bipNet_cap_eq_one X Y adj _ _ ((bipEdge_source w).mpr hx)] at hpos
        have hsum := bf_left_sum w hf hx
        have h0 : f (-1) v = 0 := by have := (bf_source_unit w hf v).1; omega
        rw [h0] at hsum
        have hall := (sum_eq_zero_iff_of_nonneg (fun y' hy' =>
          (bf_left_unit w hf hx (List.mem_toFinset.mp hy')).1)).mp hsum
        have := hall y (List.mem_toFinset.mpr hy)
        omega
      · rw [bipNet_cap_eq_zero X Y adj _ _ (fun hE => hus ((bipEdge_into_left w hx).mp hE))] at hpos
        have hsk := hf.skew v u
        have hvu : 1 ≤ f v u := by omega
        have huadj : u ∈ adj v := by
          by_contra hn
          have := bf_le_zero hf v u (fun hE => hn ((bipEdge_left w hx).mp hE))
          omega
        rw [← bf_left_unique w hf hx hy huadj hfy hvu]
        exact hu.1
  intro x hx y hy hxS
  have hyV : y ∈ (bipNet X Y adj).verts :=
    (mem_bipNet_verts X Y adj y).mpr (Or.inr (Or.inr (Or.inr (w.adjY x hx y hy))))
  rcases hclosed x hxS y hyV with h1 | h1
  · exact h1
  · unfold resid at h1
    rw [bipNet_cap_eq_one X Y adj _ _ ((bipEdge_left w hx).mpr hy)] at h1
    have := bf_le_one hf x y
    exact (hinv x (hSr ▸ hxS)).2 hx y hy (by omega)

end

/-- the König cover of the cut returned by the model's max-flow run certifies the model's matching -/
theorem mcmWithCover_cert (X Y : List Int) (adj : Int → List Int) (fuel : Nat) (M : List (Int × Int))
    (C : List Int) (hwf : bipWfB X Y adj = true) (h : mcmWithCover X Y adj fuel = .ok (M, C)) :
    mcm X Y adj fuel = .ok M ∧ isMatchingB X adj M = true ∧ koenigCertOk X adj M C = true := by
  have w := (bipWfB_iff X Y adj).mp hwf
  unfold mcmWithCover at h
  split at h
  · rename_i f S hff
    simp only [Except.ok.injEq, Prod.mk.injEq] at h
    obtain ⟨rfl, rfl⟩ := h
    have hmcm : mcm X Y adj fuel = .ok (mcmOfFlow X adj f) := by unfold mcm; rw [hff]
    obtain ⟨hf, hs, ht, _, hval⟩ := ff_correct _ (bipNet_WF X Y adj) fuel f S hff
    have hM := mcmOfFlow_isMatching w hf
    have hcover : IsVertexCover X adj (koenigCover X Y S) := by
      intro x hx y hy
      unfold koenigCover
      by_cases hxS : x ∈ S
      · right
        exact List.mem_append.mpr (Or.inr (List.mem_filter.mpr
          ⟨w.adjY x hx y hy, List.contains_iff_mem.mpr (ff_cut_no_cross w fuel S hff x hx y hy hxS)⟩))
      · left
        refine List.mem_append.mpr (Or.inl (List.mem_filter.mpr ⟨hx, ?_⟩))
        cases hc : S.contains x
        · rfl
        · exact absurd (List.contains_iff_mem.mp hc) hxS
    refine ⟨hmcm, (isMatchingB_iff X adj _).mpr hM, (koenigCertOk_iff X adj _ _).mpr ⟨hcover, ?_⟩⟩
    have h1 := matching_le_cover X adj _ _ hM hcover
    have h2 := koenigCover_le_cutCap (adj := adj) w S hs ht
    have h3 := mcmOfFlow_length w hf
    have h4 : flowValue (bipNet X Y adj).verts.toFinset (-1) f =
        cutCap (bipNet X Y adj).verts.toFinset (bipNet X Y adj).cap S.toFinset := hval
    omega
  · simp at h

#print axioms koenigCover_le_cutCap
#print axioms ff_cut_no_cross
#print axioms mcmWithCover_cert
