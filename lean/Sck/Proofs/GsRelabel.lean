import Sck.Proofs.GsOpt

/-! C02, last sentence: renumbering residents and hospitals renumbers the result and changes
nothing else. `Relabel σ τ σ' τ' I J` says that `J` is `I` with resident `r` renamed `σ r` and
hospital `h` renamed `τ h` (`σ'`, `τ'` are the inverse renamings). -/

structure Relabel (σ τ σ' τ' : Nat → Nat) (I J : HR) : Prop where
  n_eq : J.n = I.n
  m_eq : J.m = I.m
  σ_lt : ∀ r, r < I.n → σ r < I.n
  σ'_lt : ∀ r, r < I.n → σ' r < I.n
  σ_left : ∀ r, r < I.n → σ' (σ r) = r
  σ_right : ∀ r, r < I.n → σ (σ' r) = r
  τ_lt : ∀ h, h < I.m → τ h < I.m
  τ'_lt : ∀ h, h < I.m → τ' h < I.m
  τ_left : ∀ h, h < I.m → τ' (τ h) = h
  τ_right : ∀ h, h < I.m → τ (τ' h) = h
  R_eq : ∀ r, r < I.n → ∀ h, h < I.m → rankAt J.R (σ r) (τ h) = rankAt I.R r h
  H_eq : ∀ h, h < I.m → ∀ r, r < I.n → rankAt J.H (τ h) (σ r) = rankAt I.H h r
  cap_eq : ∀ h, h < I.m → J.cap.getD (τ h) 0 = I.cap.getD h 0

/-- rename every pair of a matching -/
def relL (σ τ : Nat → Nat) (mu : List (Nat × Nat)) : List (Nat × Nat) := mu.map (fun e => (σ e.1, τ e.2))

theorem mem_relL {σ τ : Nat → Nat} {mu : List (Nat × Nat)} {a b : Nat} :
    (a, b) ∈ relL σ τ mu ↔ ∃ r h, (r, h) ∈ mu ∧ σ r = a ∧ τ h = b := by
  simp only [relL, List.mem_map, Prod.mk.injEq]
  constructor
  · rintro ⟨⟨r, h⟩, hm, h1, h2⟩; exact ⟨r, h, hm, h1, h2⟩
  · rintro ⟨r, h, hm, h1, h2⟩; exact ⟨(r, h), hm, h1, h2⟩

variable {σ τ σ' τ' : Nat → Nat} {I J : HR}

theorem Relabel.symm (hrel : Relabel σ τ σ' τ' I J) : Relabel σ' τ' σ τ J I := by
  have hn := hrel.n_eq; have hm := hrel.m_eq
  refine ⟨hn.symm, hm.symm, ?_, ?_, ?_, ?_, ?_, ?_, ?_, ?_, ?_, ?_, ?_⟩
  · intro r hr; rw [hn] at hr ⊢; exact hrel.σ'_lt r hr
  · intro r hr; rw [hn] at hr ⊢; exact hrel.σ_lt r hr
  · intro r hr; rw [hn] at hr; exact hrel.σ_right r hr
  · intro r hr; rw [hn] at hr; exact hrel.σ_left r hr
  · intro h hh; rw [hm] at hh ⊢; exact hrel.τ'_lt h hh
  · intro h hh; rw [hm] at hh ⊢; exact hrel.τ_lt h hh
  · intro h hh; rw [hm] at hh; exact hrel.τ_right h hh
  · intro h hh; rw [hm] at hh; exact hrel.τ_left h hh
  · intro r hr h hh; rw [hn] at hr; rw [hm] at hh
    have := hrel.R_eq (σ' r) (hrel.σ'_lt r hr) (τ' h) (hrel.τ'_lt h hh)
    rw [hrel.σ_right r hr, hrel.τ_right h hh] at this; exact this.symm
  · intro h hh r hr; rw [hn] at hr; rw [hm] at hh
    have := hrel.H_eq (τ' h) (hrel.τ'_lt h hh) (σ' r) (hrel.σ'_lt r hr)
    rw [hrel.σ_right r hr, hrel.τ_right h hh] at this; exact this.symm
  · intro h hh; rw [hm] at hh
    have := hrel.cap_eq (τ' h) (hrel.τ'_lt h hh)
    rw [hrel.τ_right h hh] at this; exact this.symm

theorem Relabel.σ_inj (hrel : Relabel σ τ σ' τ' I J) {a b : Nat} (ha : a < I.n) (hb : b < I.n)
    (h : σ a = σ b) : a = b := by
  rw [← hrel.σ_left a ha, ← hrel.σ_left b hb, h]

theorem Relabel.τ_inj (hrel : Relabel σ τ σ' τ' I J) {a b : Nat} (ha : a < I.m) (hb : b < I.m)
    (h : τ a = τ b) : a = b := by
  rw [← hrel.τ_left a ha, ← hrel.τ_left b hb, h]

/-- the residents held by a renamed hospital are as many as before -/
theorem heldBy_relL_length (hrel : Relabel σ τ σ' τ' I J) (hwf : I.WF2) (nu : List (Nat × Nat))
    (hf : FeasibleHR I nu) (h : Nat) (hh : h < I.m) :
    (heldBy (relL σ τ nu) (τ h)).length = (heldBy nu h).length := by
  rw [heldBy_len, heldBy_len]
  unfold relL
  rw [List.filter_map, List.length_map]
  congr 1
  apply List.filter_congr
  intro ⟨r, h2⟩ hm
  have hb := (hf.bounds hwf hm).2
  simp only [Function.comp]
  by_cases he : h2 = h
  · subst he; simp
  · have : τ h2 ≠ τ h := fun hc => he (hrel.τ_inj hb hh hc)
    simp [he, this]

theorem feasibleHR_relabel (hrel : Relabel σ τ σ' τ' I J) (hwf : I.WF2) (nu : List (Nat × Nat))
    (hf : FeasibleHR I nu) : FeasibleHR J (relL σ τ nu) := by
  refine ⟨?_, ?_, ?_, ?_⟩
  · unfold relL
    apply List.Nodup.map_on _ hf.nodup
    intro ⟨r1, h1⟩ hm1 ⟨r2, h2⟩ hm2 he
    simp only [Prod.mk.injEq] at he
    have b1 := hf.bounds hwf hm1; have b2 := hf.bounds hwf hm2
    rw [hrel.σ_inj b1.1 b2.1 he.1, hrel.τ_inj b1.2 b2.2 he.2]
  · intro r' h1' h2' hm1 hm2
    obtain ⟨r1, h1, hn1, hr1, rfl⟩ := mem_relL.mp hm1
    obtain ⟨r2, h2, hn2, hr2, rfl⟩ := mem_relL.mp hm2
    have b1 := hf.bounds hwf hn1; have b2 := hf.bounds hwf hn2
    have : r1 = r2 := hrel.σ_inj b1.1 b2.1 (hr1.trans hr2.symm)
    subst this
    rw [hf.resOnce r1 h1 h2 hn1 hn2]
  · intro h'
    by_cases hh' : h' < I.m
    · have h1 := heldBy_relL_length hrel hwf nu hf (τ' h') (hrel.τ'_lt h' hh')
      have h2 := hrel.cap_eq (τ' h') (hrel.τ'_lt h' hh')
      rw [hrel.τ_right h' hh'] at h1 h2
      rw [h1, h2]; exact hf.cap _
    · have : heldBy (relL σ τ nu) h' = [] := by
        apply List.eq_nil_iff_forall_not_mem.mpr
        intro p hp
        obtain ⟨r, h, hn, _, hτ⟩ := mem_relL.mp (mem_heldBy.mp hp)
        have := hrel.τ_lt h (hf.bounds hwf hn).2
        omega
      rw [this]; exact Nat.zero_le _
  · intro r' h' hm
    obtain ⟨r, h, hn, rfl, rfl⟩ := mem_relL.mp hm
    have b := hf.bounds hwf hn
    rw [hrel.R_eq r b.1 h b.2, hrel.H_eq h b.2 r b.1]
    exact hf.acc r h hn

/-- **stability is invariant under renaming** -/
theorem stableHR_relabel (hrel : Relabel σ τ σ' τ' I J) (hI : I.WF2) (hJ : J.WF2)
    (nu : List (Nat × Nat)) (hst : StableHR I nu) : StableHR J (relL σ τ nu) := by
  refine ⟨feasibleHR_relabel hrel hI nu hst.1, ?_⟩
  intro r' h' hb
  obtain ⟨x, a, hx, ha, hnm, hres, hhosp⟩ := (blockingHR_iff J hJ _ r' h').mp hb
  have hb' := rankAt_some_lt J.R J.m hJ.rowR r' h' x hx
  rw [hJ.lenR, hrel.n_eq, hrel.m_eq] at hb'
  obtain ⟨hr', hh'⟩ := hb'
  have hr := hrel.σ'_lt r' hr'
  have hh := hrel.τ'_lt h' hh'
  have hσ := hrel.σ_right r' hr'
  have hτ := hrel.τ_right h' hh'
  apply hst.2 (σ' r') (τ' h')
  rw [blockingHR_iff I hI]
  refine ⟨x, a, ?_, ?_, ?_, ?_, ?_⟩
  · rw [← hrel.R_eq _ hr _ hh, hσ, hτ]; exact hx
  · rw [← hrel.H_eq _ hh _ hr, hσ, hτ]; exact ha
  · intro hm; exact hnm (mem_relL.mpr ⟨_, _, hm, hσ, hτ⟩)
  · rcases hres with hnone | ⟨h2', x2, hm2, hx2, hlt⟩
    · left; intro h2 hm; exact hnone (τ h2) (mem_relL.mpr ⟨_, _, hm, hσ, rfl⟩)
    · right
      obtain ⟨r1, h1, hn1, hr1, rfl⟩ := mem_relL.mp hm2
      have b := hst.1.bounds hI hn1
      have : r1 = σ' r' := by rw [← hr1, hrel.σ_left r1 b.1]
      subst this
      refine ⟨h1, x2, hn1, ?_, hlt⟩
      rw [← hrel.R_eq _ hr _ b.2, hσ]; exact hx2
  · rcases hhosp with hroom | ⟨r2', b2, hm2, hb2, hlt⟩
    · left
      have h1 := heldBy_relL_length hrel hI nu hst.1 (τ' h') hh
      have h2 := hrel.cap_eq (τ' h') hh
      rw [hτ] at h1 h2
      rw [← h1, ← h2]; exact hroom
    · right
      obtain ⟨r1, h1, hn1, rfl, hh1⟩ := mem_relL.mp hm2
      have b := hst.1.bounds hI hn1
      have : h1 = τ' h' := by rw [← hh1, hrel.τ_left h1 b.2]
      subst this
      refine ⟨r1, b2, hn1, ?_, hlt⟩
      rw [← hrel.H_eq _ hh _ b.1, hτ]; exact hb2

theorem resWeaklyPrefers_relabel (hrel : Relabel σ τ σ' τ' I J) (r h h' : Nat) (hr : r < I.n)
    (hh : h < I.m) (hh' : h' < I.m) (hp : ResWeaklyPrefers I r h h') :
    ResWeaklyPrefers J (σ r) (τ h) (τ h') := by
  obtain ⟨x, x', hx, hx', hle⟩ := hp
  exact ⟨x, x', by rw [hrel.R_eq r hr h hh]; exact hx, by rw [hrel.R_eq r hr h' hh']; exact hx', hle⟩

theorem rwp_bounds (I : HR) (hwf : I.WF2) (r h h' : Nat) (hp : ResWeaklyPrefers I r h h') :
    r < I.n ∧ h < I.m ∧ h' < I.m := by
  obtain ⟨x, x', hx, hx', _⟩ := hp
  have h1 := rankAt_some_lt I.R I.m hwf.rowR r h x hx
  have h2 := rankAt_some_lt I.R I.m hwf.rowR r h' x' hx'
  rw [hwf.lenR] at h1
  exact ⟨h1.1, h1.2, h2.2⟩

theorem residentOptimal_relabel (hrel : Relabel σ τ σ' τ' I J) (hI : I.WF2) (hJ : J.WF2)
    (mu : List (Nat × Nat)) (ho : ResidentOptimal I mu) : ResidentOptimal J (relL σ τ mu) := by
  intro nuJ hstJ r' h' hm
  have hsym := hrel.symm
  have hstI := stableHR_relabel hsym hJ hI nuJ hstJ
  have b := hstJ.1.bounds hJ hm
  rw [hrel.n_eq, hrel.m_eq] at b
  obtain ⟨h, hmu, hp⟩ := ho _ hstI (σ' r') (τ' h') (mem_relL.mpr ⟨r', h', hm, rfl, rfl⟩)
  obtain ⟨b1, b2, b3⟩ := rwp_bounds I hI _ _ _ hp
  refine ⟨τ h, mem_relL.mpr ⟨_, _, hmu, hrel.σ_right r' b.1, rfl⟩, ?_⟩
  have := resWeaklyPrefers_relabel hrel _ _ _ b1 b2 b3 hp
  rw [hrel.σ_right r' b.1, hrel.τ_right h' b.2] at this
  exact this

theorem residentPessimal_relabel (hrel : Relabel σ τ σ' τ' I J) (hI : I.WF2) (hJ : J.WF2)
    (mu : List (Nat × Nat)) (ho : ResidentPessimal I mu) :
    ResidentPessimal J (relL σ τ mu) := by
  intro nuJ hstJ r' h' hm
  obtain ⟨r, h, hmu, rfl, rfl⟩ := mem_relL.mp hm
  have hsym := hrel.symm
  have hstI := stableHR_relabel hsym hJ hI nuJ hstJ
  obtain ⟨h2, hm2, hp⟩ := ho _ hstI r h hmu
  obtain ⟨r1, h1, hn1, hr1, rfl⟩ := mem_relL.mp hm2
  have bJ := hstJ.1.bounds hJ hn1
  rw [hrel.n_eq, hrel.m_eq] at bJ
  obtain ⟨b1, b2, b3⟩ := rwp_bounds I hI _ _ _ hp
  have hr1' : r1 = σ r := by rw [← hr1, hrel.σ_right r1 bJ.1]
  subst hr1'
  refine ⟨h1, hn1, ?_⟩
  have := resWeaklyPrefers_relabel hrel _ _ _ b1 b2 b3 hp
  rw [hrel.τ_right h1 bJ.2] at this
  exact this

/-- **C02, renaming, resident-oriented**: the result on the renamed instance is the renamed result. -/
theorem gsRes_relabel (hrel : Relabel σ τ σ' τ' I J) (hI : I.WF2) (hJ : J.WF2)
    (mu muJ : List (Nat × Nat)) (h1 : gsRes I = some mu) (h2 : gsRes J = some muJ) :
    ∀ e, e ∈ muJ ↔ e ∈ relL σ τ mu :=
  residentOptimal_unique J hJ muJ (relL σ τ mu) (gsRes_stable J hJ muJ h2)
    (stableHR_relabel hrel hI hJ mu (gsRes_stable I hI mu h1))
    (gsRes_residentOptimal J hJ muJ h2)
    (residentOptimal_relabel hrel hI hJ mu (gsRes_residentOptimal I hI mu h1))

/-- **C02, renaming, hospital-oriented**. -/
theorem gsHosp_relabel (hrel : Relabel σ τ σ' τ' I J) (hI : I.WF2) (hJ : J.WF2)
    (mu muJ : List (Nat × Nat)) (h1 : gsHosp I = some mu) (h2 : gsHosp J = some muJ) :
    ∀ e, e ∈ muJ ↔ e ∈ relL σ τ mu :=
  residentPessimal_unique J hJ muJ (relL σ τ mu) (gsHosp_stable J hJ muJ h2)
    (stableHR_relabel hrel hI hJ mu (gsHosp_stable I hI mu h1))
    (gsHosp_residentPessimal J hJ muJ h2)
    (residentPessimal_relabel hrel hI hJ mu (gsHosp_residentPessimal I hI mu h1))

#print axioms gsRes_relabel
#print axioms gsHosp_relabel

/-! ### the renamed instance, constructed -/

/-- `σ` is a permutation of `{0, …, k-1}` with inverse `σ'` -/
structure PermOn (k : Nat) (σ σ' : Nat → Nat) : Prop where
  lt : ∀ i, i < k → σ i < k
  lt' : ∀ i, i < k → σ' i < k
  left : ∀ i, i < k → σ' (σ i) = i
  right : ∀ i, i < k → σ (σ' i) = i

/-- the instance in which resident `r` is called `σ r` and hospital `h` is called `τ h`
(built from the inverse renamings) -/
def HR.relabel (σ' τ' : Nat → Nat) (I : HR) : HR :=
  { n := I.n, m := I.m,
    R := (List.range I.n).map fun r => (List.range I.m).map fun h => rankAt I.R (σ' r) (τ' h),
    H := (List.range I.m).map fun h => (List.range I.n).map fun r => rankAt I.H (τ' h) (σ' r),
    cap := (List.range I.m).map fun h => I.cap.getD (τ' h) 0 }

theorem getD_map_range {α : Type} (k : Nat) (g : Nat → α) (d : α) (i : Nat) (hi : i < k) :
    ((List.range k).map g).getD i d = g i := by
  rw [List.getD_eq_getElem?_getD, List.getElem?_map, List.getElem?_range hi]; rfl

theorem rankAt_tabulate (a b : Nat) (f : Nat → Nat → Option Nat) (i j : Nat) (hi : i < a) (hj : j < b) :
    rankAt ((List.range a).map fun i => (List.range b).map fun j => f i j) i j = f i j := by
  unfold rankAt
  rw [getD_map_range a _ [] i hi, getD_map_range b _ none j hj]

theorem strictRow_map_range (k : Nat) (g : Nat → Option Nat)
    (hinj : ∀ a b x, a < k → b < k → g a = some x → g b = some x → a = b) :
    StrictRow ((List.range k).map g) := by
  intro a b ha hb hk
  obtain ⟨hal, has⟩ := (mem_plistOfRow _ a).mp ha
  obtain ⟨hbl, hbs⟩ := (mem_plistOfRow _ b).mp hb
  simp only [List.length_map, List.length_range] at hal hbl
  unfold keyOf at hk
  rw [getD_map_range k g none a hal] at has hk
  rw [getD_map_range k g none b hbl] at hbs hk
  obtain ⟨x, hx⟩ := Option.isSome_iff_exists.mp has
  obtain ⟨y, hy⟩ := Option.isSome_iff_exists.mp hbs
  rw [hx, hy] at hk
  simp only [Option.getD_some] at hk
  subst hk
  exact hinj a b x hal hbl hx hy

theorem relabel_wf2 (I : HR) (hI : I.WF2) (σ τ σ' τ' : Nat → Nat) (hσ : PermOn I.n σ σ') (hτ : PermOn I.m τ τ') :
    (I.relabel σ' τ').WF2 := by
  refine ⟨by simp [HR.relabel], by simp [HR.relabel], by simp [HR.relabel], ?_, ?_, ?_, ?_⟩
  · intro row hrow
    simp only [HR.relabel, List.mem_map] at hrow
    obtain ⟨r, _, rfl⟩ := hrow; simp; rfl
  · intro row hrow
    simp only [HR.relabel, List.mem_map] at hrow
    obtain ⟨h, _, rfl⟩ := hrow; simp; rfl
  · intro row hrow
    simp only [HR.relabel, List.mem_map] at hrow
    obtain ⟨r, _, rfl⟩ := hrow
    apply strictRow_map_range
    intro a b x ha hb h1 h2
    have := rankAt_inj I.R hI.strictR _ _ _ x h1 h2
    rw [← hτ.right a ha, ← hτ.right b hb, this]
  · intro row hrow
    simp only [HR.relabel, List.mem_map] at hrow
    obtain ⟨h, _, rfl⟩ := hrow
    apply strictRow_map_range
    intro a b x ha hb h1 h2
    have := rankAt_inj I.H hI.strictH _ _ _ x h1 h2
    rw [← hσ.right a ha, ← hσ.right b hb, this]

theorem relabel_spec (I : HR) (σ τ σ' τ' : Nat → Nat) (hσ : PermOn I.n σ σ') (hτ : PermOn I.m τ τ') :
    Relabel σ τ σ' τ' I (I.relabel σ' τ') := by
  refine ⟨rfl, rfl, hσ.lt, hσ.lt', hσ.left, hσ.right, hτ.lt, hτ.lt', hτ.left, hτ.right, ?_, ?_, ?_⟩
  · intro r hr h hh
    show rankAt ((List.range I.n).map fun r => (List.range I.m).map fun h => rankAt I.R (σ' r) (τ' h)) _ _ = _
    rw [rankAt_tabulate I.n I.m (fun r h => rankAt I.R (σ' r) (τ' h)) _ _ (hσ.lt r hr) (hτ.lt h hh),
      hσ.left r hr, hτ.left h hh]
  · intro h hh r hr
    show rankAt ((List.range I.m).map fun h => (List.range I.n).map fun r => rankAt I.H (τ' h) (σ' r)) _ _ = _
    rw [rankAt_tabulate I.m I.n (fun h r => rankAt I.H (τ' h) (σ' r)) _ _ (hτ.lt h hh) (hσ.lt r hr),
      hσ.left r hr, hτ.left h hh]
  · intro h hh
    show ((List.range I.m).map fun h => I.cap.getD (τ' h) 0).getD (τ h) 0 = _
    rw [getD_map_range I.m _ 0 _ (hτ.lt h hh), hτ.left h hh]

#print axioms relabel_wf2
#print axioms relabel_spec

/-- **C02, last sentence, for the public rule**: for every well-formed instance, either orientation,
either index convention, and every renaming of residents (`σ`) and hospitals (`τ`), the rule applied
to the renamed instance returns exactly the renamed pairs. -/
theorem galeShapley_relabel (ro : Bool) (fixer : Nat) (I : HR) (hI : I.WF2) (σ τ σ' τ' : Nat → Nat)
    (hσ : PermOn I.n σ σ') (hτ : PermOn I.m τ τ') :
    ∃ mu muJ, galeShapley ro fixer I = some (shiftL fixer mu) ∧
      galeShapley ro fixer (I.relabel σ' τ') = some (shiftL fixer muJ) ∧
      ∀ e, e ∈ muJ ↔ e ∈ relL σ τ mu := by
  have hJ := relabel_wf2 I hI σ τ σ' τ' hσ hτ
  have hrel := relabel_spec I σ τ σ' τ' hσ hτ
  rw [galeShapley_eq, galeShapley_eq]
  cases ro
  · obtain ⟨mu, hmu⟩ := gsHosp_terminates I hI
    obtain ⟨muJ, hmuJ⟩ := gsHosp_terminates _ hJ
    exact ⟨mu, muJ, by simp [hmu], by simp [hmuJ], gsHosp_relabel hrel hI hJ mu muJ hmu hmuJ⟩
  · obtain ⟨mu, hmu⟩ := gsRes_terminates I hI
    obtain ⟨muJ, hmuJ⟩ := gsRes_terminates _ hJ
    exact ⟨mu, muJ, by simp [hmu], by simp [hmuJ], gsRes_relabel hrel hI hJ mu muJ hmu hmuJ⟩

#print axioms galeShapley_relabel
