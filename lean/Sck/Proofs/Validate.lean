import Sck.Model.Validate
import Mathlib.Algebra.Order.Ring.Rat

/-! Input validation (C20): what `check_profile`, `check_valuation_profile`, `check_square_matrix` and the `of`
constructors accept, in plain terms.  (Graphs, tie breakers and rule parameters: `Sck/Proofs/Validate2.lean`;
bridge to the well-formedness hypotheses of the rule theorems: `Sck/Proofs/Validate3.lean`.) -/

namespace Validate

/-! ## numpy reductions -/

theorem foldl_addE_none (l : List Entry) : l.foldl addE none = none := by
  induction l with
  | nil => rfl
  | cons x xs ih => simp [List.foldl_cons, addE, ih]

theorem foldl_addE_eq_none (l : List Entry) (a : Rat) : l.foldl addE (some a) = none ↔ none ∈ l := by
  induction l generalizing a with
  | nil => simp
  | cons x xs ih =>
    cases x with
    | none => simp [List.foldl_cons, addE, foldl_addE_none]
    | some b => simp [List.foldl_cons, addE, ih]

/-- `np.isnan(np.sum(a))` ⇔ some entry is NaN -/
theorem sumE_isNone_iff (l : List Entry) : (sumE l).isNone = true ↔ none ∈ l := by
  unfold sumE
  rw [Option.isNone_iff_eq_none, foldl_addE_eq_none]

theorem sumE_eq_none_iff (l : List Entry) : sumE l = none ↔ none ∈ l := by
  unfold sumE
  rw [foldl_addE_eq_none]

theorem mem_nonNaN (l : List Entry) (r : Rat) : r ∈ nonNaN l ↔ some r ∈ l := by
  simp [nonNaN, List.mem_filterMap]

theorem nonNaN_eq_nil_iff (l : List Entry) : nonNaN l = [] ↔ ∀ x ∈ l, x = none := by
  induction l with
  | nil => simp [nonNaN]
  | cons x xs ih =>
    cases x with
    | none => simp [nonNaN]
    | some b => simp [nonNaN]

theorem minR_eq_none_iff (l : List Rat) : minR l = none ↔ l = [] := by
  cases l with
  | nil => simp [minR]
  | cons x xs => cases h : minR xs <;> simp [minR, h]

theorem maxR_eq_none_iff (l : List Rat) : maxR l = none ↔ l = [] := by
  cases l with
  | nil => simp [maxR]
  | cons x xs => cases h : maxR xs <;> simp [maxR, h]

theorem minR_spec (l : List Rat) (m : Rat) (h : minR l = some m) : m ∈ l ∧ ∀ x ∈ l, m ≤ x := by
  induction l generalizing m with
  | nil => simp [minR] at h
  | cons x xs ih =>
    cases hx : minR xs with
    | none =>
      have : xs = [] := (minR_eq_none_iff xs).mp hx
      subst this
      simp [minR] at h
      subst h
      simp
    | some y =>
      obtain ⟨hy1, hy2⟩ := ih y hx
      simp only [minR, hx, Option.some.injEq] at h
      by_cases hxy : x ≤ y
      · rw [if_pos hxy] at h; subst h
        refine ⟨List.mem_cons_self, fun z hz => ?_⟩
        rcases List.mem_cons.mp hz with rfl | hz
        · exact le_refl _
        · exact le_trans hxy (hy2 z hz)
      · rw [if_neg hxy] at h; subst h
        refine ⟨List.mem_cons_of_mem _ hy1, fun z hz => ?_⟩
        rcases List.mem_cons.mp hz with rfl | hz
        · exact le_of_lt (not_le.mp hxy)
        · exact hy2 z hz

theorem maxR_spec (l : List Rat) (m : Rat) (h : maxR l = some m) : m ∈ l ∧ ∀ x ∈ l, x ≤ m := by
  induction l generalizing m with
  | nil => simp [maxR] at h
  | cons x xs ih =>
    cases hx : maxR xs with
    | none =>
      have : xs = [] := (maxR_eq_none_iff xs).mp hx
      subst this
      simp [maxR] at h
      subst h
      simp
    | some y =>
      obtain ⟨hy1, hy2⟩ := ih y hx
      simp only [maxR, hx, Option.some.injEq] at h
      by_cases hxy : y ≤ x
      · rw [if_pos hxy] at h; subst h
        refine ⟨List.mem_cons_self, fun z hz => ?_⟩
        rcases List.mem_cons.mp hz with rfl | hz
        · exact le_refl _
        · exact le_trans (hy2 z hz) hxy
      · rw [if_neg hxy] at h; subst h
        refine ⟨List.mem_cons_of_mem _ hy1, fun z hz => ?_⟩
        rcases List.mem_cons.mp hz with rfl | hz
        · exact le_of_lt (not_le.mp hxy)
        · exact hy2 z hz

/-- the smallest element is unique -/
theorem minR_eq_some_iff (l : List Rat) (m : Rat) : minR l = some m ↔ m ∈ l ∧ ∀ x ∈ l, m ≤ x := by
  refine ⟨minR_spec l m, fun ⟨h1, h2⟩ => ?_⟩
  cases h : minR l with
  | none => rw [(minR_eq_none_iff l).mp h] at h1; simp at h1
  | some m' =>
    obtain ⟨h1', h2'⟩ := minR_spec l m' h
    exact congrArg some (le_antisymm (h2' m h1) (h2 m' h1'))

theorem maxR_eq_some_iff (l : List Rat) (m : Rat) : maxR l = some m ↔ m ∈ l ∧ ∀ x ∈ l, x ≤ m := by
  refine ⟨maxR_spec l m, fun ⟨h1, h2⟩ => ?_⟩
  cases h : maxR l with
  | none => rw [(maxR_eq_none_iff l).mp h] at h1; simp at h1
  | some m' =>
    obtain ⟨h1', h2'⟩ := maxR_spec l m' h
    exact congrArg some (le_antisymm (h2 m' h1') (h2' m h1))

theorem eqE_iff (e : Entry) (r : Rat) : eqE e r = true ↔ e = some r := by
  cases e <;> simp [eqE]

/-- `np.nanmin(a) == v` on a non-empty array: `v` is an entry and no non-NaN entry is smaller -/
theorem nanMin_eq_iff (l : List Entry) (hl : l ≠ []) (v : Rat) :
    (∃ mn, nanMin l = .ok mn ∧ eqE mn v = true) ↔ some v ∈ l ∧ ∀ r : Rat, some r ∈ l → v ≤ r := by
  have he : l.isEmpty = false := by cases l <;> simp_all
  simp only [nanMin, he, Bool.false_eq_true, if_false, Except.ok.injEq, eqE_iff, exists_eq_left']
  rw [minR_eq_some_iff]
  simp [mem_nonNaN]

theorem nanMax_eq_iff (l : List Entry) (hl : l ≠ []) (v : Rat) :
    (∃ mx, nanMax l = .ok mx ∧ eqE mx v = true) ↔ some v ∈ l ∧ ∀ r : Rat, some r ∈ l → r ≤ v := by
  have he : l.isEmpty = false := by cases l <;> simp_all
  simp only [nanMax, he, Bool.false_eq_true, if_false, Except.ok.injEq, eqE_iff, exists_eq_left']
  rw [maxR_eq_some_iff]
  simp [mem_nonNaN]

/-! ## `check_profile` -/

/-- what `check_profile` really demands of a 2-D array, in plain terms:
* complete ⇒ no NaN entry;
* `1` is an entry and no (non-NaN) entry is smaller — so at least one non-NaN entry exists;
* complete ∧ strict ⇒ the number of columns is an entry and no entry is larger.
Nothing else: entries need not be integers, rows need not be duplicate-free. -/
structure ProfileOk (M : Mat) (isComplete isStrict : Bool) : Prop where
  noNaN : isComplete = true → none ∉ M.entries
  hasOne : some (1 : Rat) ∈ M.entries
  geOne : ∀ r : Rat, some r ∈ M.entries → 1 ≤ r
  hasMax : isComplete = true → isStrict = true → some (M.cols : Rat) ∈ M.entries
  leMax : isComplete = true → isStrict = true → ∀ r : Rat, some r ∈ M.entries → r ≤ (M.cols : Rat)

theorem checkProfile_notArray (c s : Bool) : checkProfile .notArray c s = .error .format := rfl

theorem checkProfile_dim (nd : Nat) (M : Mat) (c s : Bool) (h : nd ≠ 2) :
    checkProfile (.array nd M) c s = .error .dim := by
  simp [checkProfile, h]

theorem checkProfile_nan (M : Mat) (s : Bool) (h : none ∈ M.entries) :
    checkProfile (.array 2 M) true s = .error .nan := by
  simp [checkProfile, sumE_eq_none_iff, h]

theorem checkProfile_empty (M : Mat) (c s : Bool) (h : M.entries = []) :
    checkProfile (.array 2 M) c s = .error .empty := by
  have hs : sumE ([] : List Entry) ≠ none := by simp [sumE]
  simp [checkProfile, hs, nanMin, h]

/-- past the NaN test and on a non-empty array the verdict is `ok` or `range` -/
theorem checkProfile_main (M : Mat) (c s : Bool) (hnan : c = true → none ∉ M.entries) (hne : M.entries ≠ []) :
    (checkProfile (.array 2 M) c s = .ok () ∧ ProfileOk M c s) ∨
    (checkProfile (.array 2 M) c s = .error .range ∧ ¬ ProfileOk M c s) := by
  have hs : (c && (sumE M.entries).isNone) = false := by
    cases c with
    | false => rfl
    | true =>
      have := hnan rfl
      rw [Bool.true_and, Bool.eq_false_iff, Ne, sumE_isNone_iff]
      exact this
  have he : M.entries.isEmpty = false := by cases h : M.entries <;> simp_all
  have hmin := nanMin_eq_iff M.entries hne 1
  have hmax := nanMax_eq_iff M.entries hne (M.cols : Rat)
  simp only [nanMin, he, Bool.false_eq_true, if_false, Except.ok.injEq, exists_eq_left'] at hmin
  simp only [nanMax, he, Bool.false_eq_true, if_false, Except.ok.injEq, exists_eq_left'] at hmax
  unfold checkProfile
  simp only [bne_self_eq_false, Bool.false_eq_true, if_false, hs, nanMin, nanMax, he]
  by_cases h1 : eqE (minR (nonNaN M.entries)) 1 = true
  · obtain ⟨m1, m2⟩ := hmin.mp h1
    rw [if_pos h1]
    by_cases hcs : (!c || !s) = true
    · rw [if_pos hcs]
      left
      refine ⟨rfl, hnan, m1, m2, ?_, ?_⟩ <;> intro hc hs' <;> simp [hc, hs'] at hcs
    · rw [if_neg hcs]
      by_cases h2 : eqE (maxR (nonNaN M.entries)) (M.cols : Rat) = true
      · obtain ⟨x1, x2⟩ := hmax.mp h2
        left
        simp only [h2, if_true]
        exact ⟨trivial, hnan, m1, m2, fun _ _ => x1, fun _ _ => x2⟩
      · right
        simp only [h2, Bool.false_eq_true, if_false]
        refine ⟨trivial, fun hok => h2 (hmax.mpr ⟨hok.hasMax ?_ ?_, hok.leMax ?_ ?_⟩)⟩ <;>
          · cases c <;> cases s <;> simp_all
  · right
    rw [if_neg h1]
    exact ⟨rfl, fun hok => h1 (hmin.mpr ⟨hok.hasOne, hok.geOne⟩)⟩

theorem ProfileOk.entries_ne_nil {M : Mat} {c s : Bool} (h : ProfileOk M c s) : M.entries ≠ [] := by
  intro he
  have := h.hasOne
  rw [he] at this
  simp at this

/-- **acceptance**: `check_profile` returns normally iff the argument is a 2-D array satisfying `ProfileOk` -/
theorem checkProfile_iff (arg : Arg) (c s : Bool) :
    checkProfile arg c s = .ok () ↔ ∃ M, arg = .array 2 M ∧ ProfileOk M c s := by
  constructor
  · intro h
    match arg, h with
    | .notArray, h => simp [checkProfile] at h
    | .array nd M, h =>
      by_cases hnd : nd = 2
      · subst hnd
        refine ⟨M, rfl, ?_⟩
        have hnan : c = true → none ∉ M.entries := by
          intro hc hn
          subst hc
          rw [checkProfile_nan M s hn] at h
          simp at h
        have hne : M.entries ≠ [] := by
          intro he
          rw [checkProfile_empty M c s he] at h
          simp at h
        rcases checkProfile_main M c s hnan hne with ⟨_, hok⟩ | ⟨hr, _⟩
        · exact hok
        · rw [hr] at h; simp at h
      · rw [checkProfile_dim nd M c s hnd] at h
        simp at h
  · rintro ⟨M, rfl, hok⟩
    rcases checkProfile_main M c s hok.noNaN hok.entries_ne_nil with ⟨h, _⟩ | ⟨_, hn⟩
    · exact h
    · exact absurd hok hn

theorem exists_array2 (M : Mat) (Q : Mat → Prop) : (∃ M', Arg.array 2 M = .array 2 M' ∧ Q M') ↔ Q M := by
  constructor
  · rintro ⟨M', h, hq⟩
    cases h
    exact hq
  · exact fun h => ⟨M, rfl, h⟩

theorem checkProfile2_error_iff (M : Mat) (c s : Bool) :
    (checkProfile (.array 2 M) c s ≠ .error .format) ∧
    (checkProfile (.array 2 M) c s ≠ .error .dim) ∧
    (checkProfile (.array 2 M) c s = .error .nan ↔ c = true ∧ none ∈ M.entries) ∧
    (checkProfile (.array 2 M) c s = .error .empty ↔ M.entries = []) ∧
    (checkProfile (.array 2 M) c s = .error .range ↔
      (c = true → none ∉ M.entries) ∧ M.entries ≠ [] ∧ ¬ ProfileOk M c s) := by
  by_cases hn : c = true ∧ none ∈ M.entries
  · obtain ⟨rfl, hn⟩ := hn
    rw [checkProfile_nan M s hn]
    have hne : M.entries ≠ [] := by intro he; rw [he] at hn; simp at hn
    simp [hn, hne]
  · have hnan : c = true → none ∉ M.entries := fun hc hn' => hn ⟨hc, hn'⟩
    by_cases he : M.entries = []
    · rw [checkProfile_empty M c s he]
      simp [he]
    · rcases checkProfile_main M c s hnan he with ⟨h, hok⟩ | ⟨h, hok⟩
      · rw [h]
        refine ⟨by simp, by simp, ?_, ?_, ?_⟩
        · simpa using fun hc => hnan hc
        · simpa using he
        · simp only [reduceCtorEq, false_iff, not_and, not_not]
          exact fun _ _ => hok
      · rw [h]
        refine ⟨by simp, by simp, ?_, ?_, ?_⟩
        · simpa using fun hc => hnan hc
        · simpa using he
        · simp only [true_iff]
          exact ⟨hnan, he, hok⟩

/-- **which error**: the complete decision table of `check_profile` -/
theorem checkProfile_error_iff (arg : Arg) (c s : Bool) :
    (checkProfile arg c s = .error .format ↔ arg = .notArray) ∧
    (checkProfile arg c s = .error .dim ↔ ∃ nd M, arg = .array nd M ∧ nd ≠ 2) ∧
    (checkProfile arg c s = .error .nan ↔ ∃ M, arg = .array 2 M ∧ c = true ∧ none ∈ M.entries) ∧
    (checkProfile arg c s = .error .empty ↔ ∃ M, arg = .array 2 M ∧ M.entries = []) ∧
    (checkProfile arg c s = .error .range ↔
      ∃ M, arg = .array 2 M ∧ (c = true → none ∉ M.entries) ∧ M.entries ≠ [] ∧ ¬ ProfileOk M c s) := by
  match arg with
  | .notArray => simp [checkProfile]
  | .array nd M =>
    by_cases hnd : nd = 2
    · subst hnd
      obtain ⟨h1, h2, h3, h4, h5⟩ := checkProfile2_error_iff M c s
      rw [exists_array2, exists_array2, exists_array2]
      refine ⟨by simp [h1], ?_, h3, h4, h5⟩
      simp only [h2, false_iff, not_exists, not_and, not_not]
      rintro nd M' h
      cases h
      rfl
    · rw [checkProfile_dim nd M c s hnd]
      simp [hnd]

/-- no other exception -/
theorem checkProfile_errors (arg : Arg) (c s : Bool) (e : VErr) (h : checkProfile arg c s = .error e) :
    e = .format ∨ e = .dim ∨ e = .nan ∨ e = .empty ∨ e = .range := by
  match arg with
  | .notArray => simp [checkProfile] at h; simp [← h]
  | .array nd M =>
    by_cases hnd : nd = 2
    · subst hnd
      by_cases hn : c = true ∧ none ∈ M.entries
      · obtain ⟨rfl, hn⟩ := hn
        rw [checkProfile_nan M s hn] at h
        simp at h; simp [← h]
      · by_cases he : M.entries = []
        · rw [checkProfile_empty M c s he] at h
          simp at h; simp [← h]
        · rcases checkProfile_main M c s (fun hc hn' => hn ⟨hc, hn'⟩) he with ⟨h', _⟩ | ⟨h', _⟩
          · rw [h'] at h; simp at h
          · rw [h'] at h; simp at h; simp [← h]
    · rw [checkProfile_dim nd M c s hnd] at h
      simp at h; simp [← h]

/-- `is_strict` is only consulted when `is_complete` holds -/
theorem checkProfile_incomplete_strict_irrelevant (arg : Arg) (s s' : Bool) :
    checkProfile arg false s = checkProfile arg false s' := by
  unfold checkProfile
  simp

theorem ProfileOk.mono {M : Mat} {c s c' s' : Bool} (h : ProfileOk M c s) (hc : c' = true → c = true)
    (hs : c' = true → s' = true → s = true) : ProfileOk M c' s' :=
  ⟨fun h' => h.noNaN (hc h'), h.hasOne, h.geOne, fun h1 h2 => h.hasMax (hc h1) (hs h1 h2),
    fun h1 h2 => h.leMax (hc h1) (hs h1 h2)⟩

/-- weakening the flags keeps acceptance: whatever `check_profile(…, True, True)` accepts, every other flag
combination accepts -/
theorem checkProfile_mono (arg : Arg) (c s c' s' : Bool) (h : checkProfile arg c s = .ok ())
    (hc : c' = true → c = true) (hs : c' = true → s' = true → s = true) : checkProfile arg c' s' = .ok () := by
  obtain ⟨M, rfl, hok⟩ := (checkProfile_iff arg c s).mp h
  exact (checkProfile_iff _ c' s').mpr ⟨M, rfl, hok.mono hc hs⟩

/-! ## `check_valuation_profile`, `check_square_matrix` -/

theorem checkValuation_iff (arg : Arg) (c : Bool) :
    checkValuation arg c = .ok () ↔ ∃ M, arg = .array 2 M ∧ (c = true → none ∉ M.entries) := by
  match arg with
  | .notArray => simp [checkValuation]
  | .array nd M =>
    by_cases hnd : nd = 2
    · subst hnd
      cases c with
      | false => simp [checkValuation]
      | true =>
        by_cases hn : none ∈ M.entries
        · simp [checkValuation, sumE_eq_none_iff, hn]
        · simp [checkValuation, sumE_eq_none_iff, hn]
    · simp [checkValuation, hnd]

theorem checkValuation_error_iff (arg : Arg) (c : Bool) :
    (checkValuation arg c = .error .format ↔ arg = .notArray) ∧
    (checkValuation arg c = .error .dim ↔ ∃ nd M, arg = .array nd M ∧ nd ≠ 2) ∧
    (checkValuation arg c = .error .vnan ↔ ∃ M, arg = .array 2 M ∧ c = true ∧ none ∈ M.entries) := by
  match arg with
  | .notArray => simp [checkValuation]
  | .array nd M =>
    by_cases hnd : nd = 2
    · subst hnd
      cases c with
      | false => simp [checkValuation]
      | true =>
        by_cases hn : none ∈ M.entries
        · simp [checkValuation, sumE_eq_none_iff, hn]
        · simp [checkValuation, sumE_eq_none_iff, hn]
    · simp [checkValuation, hnd]

theorem checkSquare_iff (arg : Arg) :
    checkSquareMatrix arg = .ok () ↔ ∃ M, arg = .array 2 M ∧ M.rows = M.cols := by
  match arg with
  | .notArray => simp [checkSquareMatrix]
  | .array nd M =>
    by_cases hnd : nd = 2
    · subst hnd
      by_cases h : M.rows = M.cols <;> simp [checkSquareMatrix, h]
    · simp [checkSquareMatrix, hnd]

theorem checkSquare_error_iff (arg : Arg) :
    (checkSquareMatrix arg = .error .mformat ↔ arg = .notArray) ∧
    (checkSquareMatrix arg = .error .mdim ↔ ∃ nd M, arg = .array nd M ∧ nd ≠ 2) ∧
    (checkSquareMatrix arg = .error .notsquare ↔ ∃ M, arg = .array 2 M ∧ M.rows ≠ M.cols) := by
  match arg with
  | .notArray => simp [checkSquareMatrix]
  | .array nd M =>
    by_cases hnd : nd = 2
    · subst hnd
      by_cases h : M.rows = M.cols <;> simp [checkSquareMatrix, h]
    · simp [checkSquareMatrix, hnd]

/-! ## the `of` constructors -/

/-- the verdict of every ordinal constructor is `check_profile` with the flags of the class hierarchy -/
theorem profileOf_flags (cls : Cls) (isInt : Bool) (arg : Arg) (h : cls.isOrdinal = true) :
    profileOf cls isInt arg = checkProfile arg cls.isComplete cls.isStrict := by
  cases cls <;> first | rfl | simp [Cls.isOrdinal] at h

/-- the three float-capable valuation constructors are `check_valuation_profile` with the flag of the hierarchy -/
theorem valuationOf_flags (cls : Cls) (isInt : Bool) (arg : Arg) (h : cls.isOrdinal = false)
    (h' : cls ≠ .integerValuationProfile) :
    profileOf cls isInt arg = checkValuation arg cls.isComplete := by
  cases cls <;> first | rfl | exact absurd rfl h' | simp [Cls.isOrdinal] at h

/-- `IntegerValuationProfile.of`: a 2-D array of an integer dtype (it calls the check with `is_complete=False`; an
integer array cannot hold NaN) -/
theorem integerValuationOf_iff (isInt : Bool) (arg : Arg) :
    profileOf .integerValuationProfile isInt arg = .ok () ↔ (∃ M, arg = .array 2 M) ∧ isInt = true := by
  match arg with
  | .notArray => simp [profileOf, checkValuation]
  | .array nd M =>
    by_cases hnd : nd = 2
    · subst hnd
      cases isInt <;> simp [profileOf, checkValuation]
    · simp [profileOf, checkValuation, hnd]

/-- the storage type is invisible to every constructor except `IntegerValuationProfile.of` -/
theorem profileOf_dtype_free (cls : Cls) (i i' : Bool) (arg : Arg) (h : cls ≠ .integerValuationProfile) :
    profileOf cls i arg = profileOf cls i' arg := by
  cases cls <;> first | rfl | exact absurd rfl h

/-- … so only three different validators exist among the nine ordinal classes -/
theorem profileOf_collapse (cls : Cls) (isInt : Bool) (arg : Arg) (h : cls.isOrdinal = true) :
    profileOf cls isInt arg =
      if cls = .strictCompleteProfile then checkProfile arg true true
      else if cls.isComplete then checkProfile arg true false
      else checkProfile arg false false := by
  cases cls <;> first | rfl | simp [Cls.isOrdinal] at h

end Validate
