import Sck.Proofs.BSearch
import Sck.Model.Elicit
import Sck.Proofs.ElicitMachine

/-! C15: per-agent query budgets and "the result only depends on the asked values". -/

namespace Elicit

/-! ### `eraseDups` = the distinct questions -/

theorem eraseDups_nodup_aux {α : Type} [BEq α] [LawfulBEq α] :
    ∀ (n : Nat) (l : List α), l.length ≤ n → l.eraseDups.Nodup
  | 0, l, h => by
    have : l = [] := List.length_eq_zero_iff.mp (by omega)
    subst this; simp
  | _ + 1, [], _ => by simp
  | n + 1, a :: as, h => by
    rw [List.eraseDups_cons, List.nodup_cons]
    refine ⟨?_, eraseDups_nodup_aux n _ (Nat.le_trans (List.length_filter_le _ _) (by simpa using h))⟩
    simp

theorem eraseDups_nodup {α : Type} [BEq α] [LawfulBEq α] (l : List α) : l.eraseDups.Nodup :=
  eraseDups_nodup_aux l.length l (Nat.le_refl _)

/-- the number of distinct elements of `l₁` is at most the length of any list containing them all -/
theorem eraseDups_length_le_of_subset {α : Type} [BEq α] [LawfulBEq α] (l₁ l₂ : List α) (h : l₁ ⊆ l₂) :
    l₁.eraseDups.length ≤ l₂.length :=
  List.Nodup.length_le_of_subset (eraseDups_nodup l₁) (fun _ ha => h (List.mem_eraseDups.mp ha))

theorem eraseDups_length_le {α : Type} [BEq α] [LawfulBEq α] (l : List α) : l.eraseDups.length ≤ l.length :=
  eraseDups_length_le_of_subset l l (fun _ h => h)

/-! ### budgets -/

theorem length_flatMap_le {α β : Type} (f : α → List β) (c : Nat) :
    ∀ (l : List α), (∀ x ∈ l, (f x).length ≤ c) → (l.flatMap f).length ≤ l.length * c := by
  intro l
  induction l with
  | nil => intro _; simp
  | cons a l ih =>
    intro h
    rw [List.flatMap_cons, List.length_append, List.length_cons, Nat.succ_mul]
    have h1 := h a (by simp)
    have h2 := ih (fun x hx => h x (by simp [hx]))
    omega

/-- k-ARV / lambda-TSF put at most `1 + k·⌈log₂ m⌉` questions to one agent (even without memoisation) -/
theorem simQueries_length_le (vals : Nat → Rat) (m : Nat) (lams : List Rat) :
    (simQueries vals m lams).length ≤ 1 + lams.length * Nat.clog 2 m := by
  unfold simQueries
  rw [List.length_cons]
  have := length_flatMap_le (fun lam => (bsearchQ (geThr vals (vals 0 / lam)) 0 m).2) (Nat.clog 2 m) lams
    (fun lam _ => bsearchQ_budget _ m 0 m rfl)
  omega

theorem simQueries_distinct_le (vals : Nat → Rat) (m : Nat) (lams : List Rat) :
    (simQueries vals m lams).eraseDups.length ≤ 1 + lams.length * Nat.clog 2 m :=
  Nat.le_trans (eraseDups_length_le _) (simQueries_length_le vals m lams)

/-- the position returned by the binary search is its lower bound or one of the probed positions -/
theorem bsearchQ_result_probed (ge : Nat → Bool) :
    ∀ (d lo hi : Nat), hi - lo = d →
      (bsearchQ ge lo hi).1 = lo ∨ (bsearchQ ge lo hi).1 ∈ (bsearchQ ge lo hi).2 := by
  intro d
  induction d using Nat.strong_induction_on with
  | _ d ih =>
    intro lo hi hd
    unfold bsearchQ
    split
    · exact Or.inl rfl
    · dsimp only
      split
      · rcases ih (hi - (lo + hi) / 2) (by omega) ((lo + hi) / 2) hi rfl with h | h
        · right; rw [h]; simp
        · right; exact List.mem_cons_of_mem _ h
      · rcases ih ((lo + hi) / 2 - lo) (by omega) lo ((lo + hi) / 2) rfl with h | h
        · left; exact h
        · right; exact List.mem_cons_of_mem _ h

/-- the extra look-up of the two-sided rule at `p*` repeats the favourite or an earlier probe -/
theorem bsearchQ_result_zero_or_probed (ge : Nat → Bool) (m : Nat) :
    (bsearchQ ge 0 m).1 = 0 ∨ (bsearchQ ge 0 m).1 ∈ (bsearchQ ge 0 m).2 :=
  bsearchQ_result_probed ge m 0 m rfl

theorem simQueries2_subset (vals : Nat → Rat) (m : Nat) (lams : List Rat) :
    simQueries2 vals m lams ⊆ simQueries vals m lams := by
  intro q hq
  unfold simQueries2 at hq
  unfold simQueries
  rcases List.mem_cons.mp hq with rfl | hq
  · simp
  · obtain ⟨lam, hlam, hq⟩ := List.mem_flatMap.mp hq
    dsimp only at hq
    rcases List.mem_append.mp hq with hq | hq
    · exact List.mem_cons_of_mem _ (List.mem_flatMap.mpr ⟨lam, hlam, hq⟩)
    · rw [List.mem_singleton] at hq
      rcases bsearchQ_result_zero_or_probed (geThr vals (vals 0 / lam)) m with h0 | hp
      · rw [hq, h0]; simp
      · exact List.mem_cons_of_mem _ (List.mem_flatMap.mpr ⟨lam, hlam, hq ▸ hp⟩)

theorem simQueries_subset2 (vals : Nat → Rat) (m : Nat) (lams : List Rat) :
    simQueries vals m lams ⊆ simQueries2 vals m lams := by
  intro q hq
  unfold simQueries at hq
  unfold simQueries2
  rcases List.mem_cons.mp hq with rfl | hq
  · simp
  · obtain ⟨lam, hlam, hq⟩ := List.mem_flatMap.mp hq
    exact List.mem_cons_of_mem _ (List.mem_flatMap.mpr ⟨lam, hlam, List.mem_append_left _ hq⟩)

/-- two-sided rule: the same budget of DISTINCT questions per agent and side (memoising elicitor) -/
theorem simQueries2_distinct_le (vals : Nat → Rat) (m : Nat) (lams : List Rat) :
    (simQueries2 vals m lams).eraseDups.length ≤ 1 + lams.length * Nat.clog 2 m :=
  Nat.le_trans (eraseDups_length_le_of_subset _ _ (simQueries2_subset vals m lams))
    (simQueries_length_le vals m lams)

/-- … while a non-memoising elicitor is asked up to one more question per threshold -/
theorem simQueries2_length_le (vals : Nat → Rat) (m : Nat) (lams : List Rat) :
    (simQueries2 vals m lams).length ≤ 1 + lams.length * (Nat.clog 2 m + 1) := by
  unfold simQueries2
  rw [List.length_cons]
  have := length_flatMap_le
    (fun lam => (bsearchQ (geThr vals (vals 0 / lam)) 0 m).2 ++ [(bsearchQ (geThr vals (vals 0 / lam)) 0 m).1])
    (Nat.clog 2 m + 1) lams
    (fun lam _ => by
      rw [List.length_append, List.length_singleton]
      have := bsearchQ_budget (geThr vals (vals 0 / lam)) m 0 m rfl
      omega)
  dsimp only
  omega

/-- every asked position is a valid position of the ranking -/
theorem simQueries_lt (vals : Nat → Rat) (m : Nat) (hm : 0 < m) (lams : List Rat) :
    ∀ q ∈ simQueries vals m lams, q < m := by
  intro q hq
  unfold simQueries at hq
  rcases List.mem_cons.mp hq with rfl | hq
  · exact hm
  · obtain ⟨lam, _, hq⟩ := List.mem_flatMap.mp hq
    exact (bsearchQ_queries_range _ m 0 m rfl q hq).2

theorem m2qQueries_length (p : Nat) : (m2qQueries p).length = 2 := rfl

/-- Match-TwoQueries: at most two distinct questions per agent -/
theorem m2qQueries_distinct_le (p : Nat) : (m2qQueries p).eraseDups.length ≤ 2 :=
  eraseDups_length_le (m2qQueries p)

/-- lambda-PRV: exactly `lam` distinct questions per voter, the `lam` best-ranked positions -/
theorem prvQueries_spec (lam : Nat) :
    (prvQueries lam).length = lam ∧ (prvQueries lam).Nodup ∧ ∀ q, q ∈ prvQueries lam ↔ q < lam := by
  unfold prvQueries
  exact ⟨List.length_range, List.nodup_range, fun q => List.mem_range⟩

theorem eraseDups_eq_self_of_nodup_aux {α : Type} [BEq α] [LawfulBEq α] :
    ∀ (l : List α), l.Nodup → l.eraseDups = l := by
  intro l
  induction l with
  | nil => intro _; rfl
  | cons a as ih =>
    intro h
    have h' := List.nodup_cons.mp h
    rw [List.eraseDups_cons]
    have : as.filter (fun b => !b == a) = as := by
      rw [List.filter_eq_self]
      intro b hb
      have : b ≠ a := fun hba => h'.1 (hba ▸ hb)
      simpa using this
    rw [this, ih h'.2]

theorem prvQueries_distinct (lam : Nat) : (prvQueries lam).eraseDups.length = lam := by
  rw [eraseDups_eq_self_of_nodup_aux _ (prvQueries_spec lam).2.1]
  exact (prvQueries_spec lam).1

/-! ### the simulated valuations depend only on the asked values -/

theorem flatMap_congr' {α β : Type} (f g : α → List β) :
    ∀ (l : List α), (∀ x ∈ l, f x = g x) → l.flatMap f = l.flatMap g := by
  intro l
  induction l with
  | nil => intro _; rfl
  | cons a l ih =>
    intro h
    rw [List.flatMap_cons, List.flatMap_cons, h a (by simp), ih (fun x hx => h x (by simp [hx]))]

/-- if `vals'` agrees with `vals` on the asked positions, every binary search runs identically -/
theorem bsearch_congr_of_queries (vals vals' : Nat → Rat) (m : Nat) (lams : List Rat)
    (hag : ∀ q ∈ simQueries vals m lams, vals' q = vals q) :
    vals' 0 = vals 0 ∧ ∀ lam ∈ lams,
      bsearchQ (geThr vals' (vals' 0 / lam)) 0 m = bsearchQ (geThr vals (vals 0 / lam)) 0 m := by
  have h0 : vals' 0 = vals 0 := hag 0 (by simp [simQueries])
  refine ⟨h0, ?_⟩
  intro lam hlam
  rw [h0]
  apply bsearchQ_congr _ _ m 0 m rfl
  intro q hq
  have : q ∈ simQueries vals m lams :=
    List.mem_cons_of_mem _ (List.mem_flatMap.mpr ⟨lam, hlam, hq⟩)
  unfold geThr
  rw [hag q this]

theorem simLoop_congr (vals vals' : Nat → Rat) (m : Nat) (v : Rat) :
    ∀ (lams : List Rat) (prev : Nat) (acc : Nat → Rat),
      (∀ lam ∈ lams, bsearchQ (geThr vals' (v / lam)) 0 m = bsearchQ (geThr vals (v / lam)) 0 m) →
      simLoop vals' m v lams prev acc = simLoop vals m v lams prev acc := by
  intro lams
  induction lams with
  | nil => intro prev acc _; rfl
  | cons lam rest ih =>
    intro prev acc h
    simp only [simLoop]
    rw [h lam (by simp)]
    split
    · rfl
    · exact ih _ _ (fun l hl => h l (by simp [hl]))

/-- C15: replacing the never-asked values by arbitrary numbers changes neither the simulated valuation of
the agent nor the questions asked -/
theorem simulate_congr (floor : Rat) (vals vals' : Nat → Rat) (m : Nat) (lams : List Rat)
    (hag : ∀ q ∈ simQueries vals m lams, vals' q = vals q) :
    simulate floor vals' m lams = simulate floor vals m lams ∧
      simQueries vals' m lams = simQueries vals m lams := by
  obtain ⟨h0, hb⟩ := bsearch_congr_of_queries vals vals' m lams hag
  constructor
  · unfold simulate
    rw [h0]
    exact simLoop_congr vals vals' m (vals 0) lams 0 _ (fun lam hl => by have := hb lam hl; rwa [h0] at this)
  · unfold simQueries
    congr 1
    apply flatMap_congr'
    intro lam hl
    rw [hb lam hl]

theorem simLoop2_congr (vals vals' : Nat → Rat) (m : Nat) (v : Rat) :
    ∀ (lams : List Rat) (prev : Nat) (acc : Nat → Rat),
      (∀ lam ∈ lams, bsearchQ (geThr vals' (v / lam)) 0 m = bsearchQ (geThr vals (v / lam)) 0 m ∧
        vals' (bsearchQ (geThr vals (v / lam)) 0 m).1 = vals (bsearchQ (geThr vals (v / lam)) 0 m).1) →
      simLoop2 vals' m v lams prev acc = simLoop2 vals m v lams prev acc := by
  intro lams
  induction lams with
  | nil => intro prev acc _; rfl
  | cons lam rest ih =>
    intro prev acc h
    simp only [simLoop2]
    rw [(h lam (by simp)).1, (h lam (by simp)).2]
    split
    · rfl
    · exact ih _ _ (fun l hl => h l (by simp [hl]))

theorem simulate2_congr (vals vals' : Nat → Rat) (m : Nat) (lams : List Rat)
    (hag : ∀ q ∈ simQueries2 vals m lams, vals' q = vals q) :
    simulate2 vals' m lams = simulate2 vals m lams ∧
      simQueries2 vals' m lams = simQueries2 vals m lams := by
  obtain ⟨h0, hb⟩ := bsearch_congr_of_queries vals vals' m lams
    (fun q hq => hag q (simQueries_subset2 vals m lams hq))
  have hp : ∀ lam ∈ lams, vals' (bsearchQ (geThr vals (vals 0 / lam)) 0 m).1 =
      vals (bsearchQ (geThr vals (vals 0 / lam)) 0 m).1 := by
    intro lam hl
    apply hag
    unfold simQueries2
    exact List.mem_cons_of_mem _ (List.mem_flatMap.mpr ⟨lam, hl, by simp⟩)
  constructor
  · unfold simulate2
    rw [h0]
    exact simLoop2_congr vals vals' m (vals 0) lams 0 _
      (fun lam hl => ⟨by have := hb lam hl; rwa [h0] at this, hp lam hl⟩)
  · unfold simQueries2
    congr 1
    apply flatMap_congr'
    intro lam hl
    dsimp only
    rw [hb lam hl]

theorem m2q_congr (floor : Rat) (vals vals' : Nat → Rat) (p : Nat)
    (hag : ∀ q ∈ m2qQueries p, vals' q = vals q) :
    m2qAgent floor vals' p = m2qAgent floor vals p := by
  funext q
  unfold m2qAgent
  rw [hag 0 (by simp [m2qQueries]), hag p (by simp [m2qQueries])]

theorem prv_congr (vals vals' : Nat → Rat) (lam : Nat)
    (hag : ∀ q ∈ prvQueries lam, vals' q = vals q) : prvAgent vals' lam = prvAgent vals lam := by
  funext q
  unfold prvAgent
  by_cases hq : q < lam
  · rw [if_pos hq, if_pos hq]; exact hag q ((prvQueries_spec lam).2.2 q |>.mpr hq)
  · rw [if_neg hq, if_neg hq]

/-! ### the counter of a memoising elicitor that is asked one agent's questions

`ask q` is the question `(agent, alternative at position q of the agent's ranking)`. -/

/-- a memoising elicitor's counter is at most the length of any list containing all its questions -/
theorem memo_count_le_of_subset (fixer : Nat) (backing : Nat × Nat → Nat → Rat)
    (qs qs' : List (Nat × Nat)) (h : qs ⊆ qs') :
    (runOps true fixer backing ElSt.init qs).1.count ≤ qs'.length := by
  rw [count_eq_forwarded, memo_forwarded_eq_dedup]
  have := eraseDups_length_le_of_subset (qs.map (shift fixer)) (qs'.map (shift fixer))
    (fun a ha => by
      obtain ⟨b, hb, rfl⟩ := List.mem_map.mp ha
      exact List.mem_map.mpr ⟨b, h hb, rfl⟩)
  simpa using this

theorem memo_count_simQueries_le (fixer : Nat) (backing : Nat × Nat → Nat → Rat) (ask : Nat → Nat × Nat)
    (vals : Nat → Rat) (m : Nat) (lams : List Rat) :
    (runOps true fixer backing ElSt.init ((simQueries vals m lams).map ask)).1.count ≤
      1 + lams.length * Nat.clog 2 m := by
  have := memo_count_le_of_subset fixer backing _ _ (fun a (ha : a ∈ (simQueries vals m lams).map ask) => ha)
  rw [List.length_map] at this
  exact Nat.le_trans this (simQueries_length_le vals m lams)

theorem memo_count_simQueries2_le (fixer : Nat) (backing : Nat × Nat → Nat → Rat) (ask : Nat → Nat × Nat)
    (vals : Nat → Rat) (m : Nat) (lams : List Rat) :
    (runOps true fixer backing ElSt.init ((simQueries2 vals m lams).map ask)).1.count ≤
      1 + lams.length * Nat.clog 2 m := by
  have := memo_count_le_of_subset fixer backing ((simQueries2 vals m lams).map ask)
    ((simQueries vals m lams).map ask)
    (fun a ha => by
      obtain ⟨b, hb, rfl⟩ := List.mem_map.mp ha
      exact List.mem_map.mpr ⟨b, simQueries2_subset vals m lams hb, rfl⟩)
  rw [List.length_map] at this
  exact Nat.le_trans this (simQueries_length_le vals m lams)

theorem memo_count_m2q_le (fixer : Nat) (backing : Nat × Nat → Nat → Rat) (ask : Nat → Nat × Nat) (p : Nat) :
    (runOps true fixer backing ElSt.init ((m2qQueries p).map ask)).1.count ≤ 2 := by
  have := memo_count_le_of_subset fixer backing _ _ (fun a (ha : a ∈ (m2qQueries p).map ask) => ha)
  simpa [m2qQueries] using this

theorem nodup_map_of_injOn {α β : Type} (f : α → β) :
    ∀ (l : List α), l.Nodup → (∀ a ∈ l, ∀ b ∈ l, f a = f b → a = b) → (l.map f).Nodup := by
  intro l
  induction l with
  | nil => intro _ _; simp
  | cons a l ih =>
    intro hn hinj
    have hn' := List.nodup_cons.mp hn
    rw [List.map_cons, List.nodup_cons]
    refine ⟨?_, ih hn'.2 (fun x hx y hy => hinj x (by simp [hx]) y (by simp [hy]))⟩
    intro hmem
    obtain ⟨b, hb, hfb⟩ := List.mem_map.mp hmem
    have : b = a := hinj b (by simp [hb]) a (by simp) hfb
    exact hn'.1 (this ▸ hb)

/-- lambda-PRV: exactly `lam` questions are forwarded for one voter (distinct positions are distinct
alternatives) -/
theorem memo_count_prv_eq (mz : Bool) (fixer : Nat) (backing : Nat × Nat → Nat → Rat) (ask : Nat → Nat × Nat)
    (hinj : ∀ a b, ask a = ask b → a = b) (lam : Nat) :
    (runOps mz fixer backing ElSt.init ((prvQueries lam).map ask)).1.count = lam := by
  rw [count_eq_forwarded]
  cases mz with
  | false => rw [nomemo_forwards_all]; simp [prvQueries]
  | true =>
    rw [memo_forwarded_eq_dedup, eraseDups_eq_self_of_nodup_aux]
    · simp [prvQueries]
    · rw [List.map_map]
      apply nodup_map_of_injOn _ _ (prvQueries_spec lam).2.1
      intro a _ b _ hab
      apply hinj
      simp only [Function.comp, shift, Prod.mk.injEq] at hab
      exact Prod.ext (by omega) (by omega)

end Elicit

#print axioms Elicit.simQueries_distinct_le
#print axioms Elicit.simQueries2_distinct_le
#print axioms Elicit.simulate_congr
#print axioms Elicit.simulate2_congr
#print axioms Elicit.m2q_congr
