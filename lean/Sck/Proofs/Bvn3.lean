import Sck.Model.Bvn
import Sck.Proofs.Bvn2
import Sck.Proofs.CertProof
import Mathlib.Algebra.BigOperators.Fin

/-! C06: the executable list-level replay (`Sck/Model/Bvn.lean`) is tied to the `Fin`-level `replay`
of `Bvn2.lean`. -/

open Finset

/-- the `Fin`-indexed view of a list matrix -/
def toFun (n : ℕ) (X : List (List Rat)) : Fin n → Fin n → ℚ := fun i j => matGet X i j

theorem isSquareB_iff (n : ℕ) (X : List (List Rat)) :
    isSquareB n X = true ↔ X.length = n ∧ ∀ r ∈ X, r.length = n := by
  simp [isSquareB, List.all_eq_true]

theorem matGet_eq (X : List (List Rat)) (i j : ℕ) (row : List Rat) (x : Rat)
    (hi : X[i]? = some row) (hj : row[j]? = some x) : matGet X i j = x := by
  simp [matGet, List.getD_eq_getElem?_getD, hi, hj]

/-- in a square matrix every in-range entry exists -/
theorem square_get (n : ℕ) (X : List (List Rat)) (h : isSquareB n X = true) (i : ℕ) (hi : i < n) :
    ∃ row, X[i]? = some row ∧ row.length = n := by
  rw [isSquareB_iff] at h
  have hi' : i < X.length := by omega
  exact ⟨X[i], by simp, h.2 _ (List.getElem_mem hi')⟩

theorem sigma_get (n : ℕ) (sigma : List ℕ) (hs : sigma.length = n) (i : ℕ) (hi : i < n) :
    ∃ c, sigma[i]? = some c ∧ sigma.getD i n = c := by
  have : i < sigma.length := by omega
  exact ⟨sigma[i], by simp, by simp [List.getD_eq_getElem?_getD, this]⟩

theorem subPerm_square (n : ℕ) (X : List (List Rat)) (sigma : List ℕ) (z : Rat)
    (h : isSquareB n X = true) (hs : sigma.length = n) : isSquareB n (subPerm X sigma z) = true := by
  rw [isSquareB_iff] at h ⊢
  refine ⟨by simp [subPerm, h.1, hs], ?_⟩
  intro r hr
  simp only [subPerm, List.mem_iff_getElem?, List.getElem?_zipWith] at hr
  obtain ⟨k, hk⟩ := hr
  split at hk
  · rename_i a b ha hb
    simp only [Option.some.injEq] at hk
    rw [← hk, List.length_modify]
    exact h.2 a (List.mem_of_getElem? ha)
  · simp at hk

theorem matGet_subPerm (n : ℕ) (X : List (List Rat)) (sigma : List ℕ) (z : Rat)
    (h : isSquareB n X = true) (hs : sigma.length = n) (i j : ℕ) (hi : i < n) (hj : j < n) :
    matGet (subPerm X sigma z) i j = matGet X i j - if sigma.getD i n = j then z else 0 := by
  obtain ⟨row, hrow, hlen⟩ := square_get n X h i hi
  have hj' : j < row.length := by omega
  obtain ⟨c, hsi, hc⟩ := sigma_get n sigma hs i hi
  rw [hc]
  have h1 : (subPerm X sigma z)[i]? = some (row.modify c (fun x => x - z)) := by
    simp [subPerm, List.getElem?_zipWith, hrow, hsi]
  have h2 : (row.modify c (fun x => x - z))[j]? =
      some (if c = j then row[j] - z else row[j]) := by
    rw [List.getElem?_modify]
    simp [hj']
  rw [matGet_eq _ i j _ _ h1 h2, matGet_eq X i j row row[j] hrow (by simp)]
  split <;> simp

theorem diagVals_length (n : ℕ) (X : List (List Rat)) (sigma : List ℕ)
    (h : isSquareB n X = true) (hs : sigma.length = n) : (diagVals X sigma).length = n := by
  rw [isSquareB_iff] at h
  simp [diagVals, h.1, hs]

theorem diagVals_get (n : ℕ) (X : List (List Rat)) (sigma : List ℕ)
    (h : isSquareB n X = true) (hs : sigma.length = n) (i : ℕ) (hi : i < n) :
    (diagVals X sigma)[i]? = some (matGet X i (sigma.getD i n)) := by
  obtain ⟨row, hrow, _⟩ := square_get n X h i hi
  obtain ⟨c, hsi, hc⟩ := sigma_get n sigma hs i hi
  rw [hc]
  simp [diagVals, List.getElem?_zipWith, hrow, hsi, matGet, List.getD_eq_getElem?_getD]

theorem mem_diagVals (n : ℕ) (X : List (List Rat)) (sigma : List ℕ)
    (h : isSquareB n X = true) (hs : sigma.length = n) (v : Rat) :
    v ∈ diagVals X sigma ↔ ∃ i, i < n ∧ v = matGet X i (sigma.getD i n) := by
  rw [List.mem_iff_getElem?]
  constructor
  · rintro ⟨i, hi⟩
    have hlt : i < n := by
      have := (List.getElem?_eq_some_iff.mp hi).1
      rwa [diagVals_length n X sigma h hs] at this
    rw [diagVals_get n X sigma h hs i hlt] at hi
    exact ⟨i, hlt, by simpa using hi.symm⟩
  · rintro ⟨i, hi, rfl⟩
    exact ⟨i, diagVals_get n X sigma h hs i hi⟩

theorem foldl_min_spec (vs : List Rat) (v : Rat) :
    let m := vs.foldl (fun a b => if b < a then b else a) v
    (m = v ∨ m ∈ vs) ∧ m ≤ v ∧ ∀ w ∈ vs, m ≤ w := by
  induction vs generalizing v with
  | nil => simp
  | cons b vs ih =>
    simp only [List.foldl_cons, List.mem_cons, forall_eq_or_imp]
    obtain ⟨h1, h2, h3⟩ := ih (if b < v then b else v)
    refine ⟨?_, ?_, ?_, h3⟩
    · rcases h1 with h1 | h1
      · rw [h1]; split <;> simp
      · exact Or.inr (Or.inr h1)
    · refine le_trans h2 ?_
      split
      · exact le_of_lt ‹_›
      · exact le_refl _
    · refine le_trans h2 ?_
      split
      · exact le_refl _
      · exact not_lt.mp ‹_›

theorem minList_spec (l : List Rat) (z : Rat) (h : minList l = some z) : z ∈ l ∧ ∀ w ∈ l, z ≤ w := by
  cases l with
  | nil => simp [minList] at h
  | cons v vs =>
    simp only [minList, Option.some.injEq] at h
    obtain ⟨h1, h2, h3⟩ := foldl_min_spec vs v
    simp only [h] at h1 h2 h3
    refine ⟨?_, ?_⟩
    · rcases h1 with h1 | h1
      · simp [h1]
      · exact List.mem_cons_of_mem _ h1
    · intro w hw
      rcases List.mem_cons.mp hw with rfl | hw
      · exact h2
      · exact h3 w hw

theorem minList_isSome (l : List Rat) (h : l ≠ []) : ∃ z, minList l = some z := by
  cases l with
  | nil => exact absurd rfl h
  | cons v vs => exact ⟨_, rfl⟩

theorem isPermB_length (n : ℕ) (sigma : List ℕ) (h : isPermB n sigma = true) : sigma.length = n := by
  simp only [isPermB, isPermWith, Bool.and_eq_true, beq_iff_eq] at h
  exact h.1.1.1

/-- the `Equiv.Perm (Fin n)` denoted by a checked permutation list -/
def permOfList (n : ℕ) (sigma : List ℕ) (h : isPermB n sigma = true) : Equiv.Perm (Fin n) :=
  permOfLists n sigma (invOfList n sigma) h

theorem permOfList_val (n : ℕ) (sigma : List ℕ) (h : isPermB n sigma = true) (i : Fin n) :
    ((permOfList n sigma h i : Fin n) : ℕ) = sigma.getD i n := rfl

variable {n : ℕ}

theorem toFun_subPerm (X : List (List Rat)) (sigma : List ℕ) (z : Rat)
    (h : isSquareB n X = true) (hp : isPermB n sigma = true) :
    toFun n (subPerm X sigma z) = bvnStep (toFun n X) (permOfList n sigma hp) z := by
  funext i j
  unfold toFun bvnStep
  rw [matGet_subPerm n X sigma z h (isPermB_length n sigma hp) i j i.2 j.2]
  congr 1
  simp only [Fin.ext_iff, permOfList_val]

theorem stepZ_eq (hn : 0 < n) (X : List (List Rat)) (sigma : List ℕ) (z : Rat)
    (h : isSquareB n X = true) (hp : isPermB n sigma = true) (hz : minList (diagVals X sigma) = some z) :
    stepZ hn (toFun n X) (permOfList n sigma hp) = z := by
  have hs := isPermB_length n sigma hp
  obtain ⟨hmem, hle⟩ := minList_spec _ _ hz
  apply le_antisymm
  · obtain ⟨i, hi, rfl⟩ := (mem_diagVals n X sigma h hs z).mp hmem
    exact stepZ_le hn (toFun n X) (permOfList n sigma hp) ⟨i, hi⟩
  · unfold stepZ
    apply Finset.le_inf'
    intro i _
    exact hle _ ((mem_diagVals n X sigma h hs _).mpr ⟨i, i.2, rfl⟩)

theorem support_iff (X : List (List Rat)) (sigma : List ℕ)
    (h : isSquareB n X = true) (hp : isPermB n sigma = true) :
    (diagVals X sigma).all (fun v => decide (0 < v)) = true ↔
      ∀ i, 0 < toFun n X i (permOfList n sigma hp i) := by
  have hs := isPermB_length n sigma hp
  simp only [List.all_eq_true, decide_eq_true_eq]
  constructor
  · intro hall i
    exact hall _ ((mem_diagVals n X sigma h hs _).mpr ⟨i, i.2, rfl⟩)
  · intro hall v hv
    obtain ⟨i, hi, rfl⟩ := (mem_diagVals n X sigma h hs v).mp hv
    exact hall ⟨i, hi⟩

/-- relation between a `Fin`-level output term and a permutation list -/
def PermRel (n : ℕ) (e : ℚ × Equiv.Perm (Fin n)) (sigma : List ℕ) : Prop :=
  ∀ i : Fin n, ((e.2 i : Fin n) : ℕ) = sigma.getD i n

/-- **Bridge.** A successful list-level replay is a successful `Fin`-level `replay` of the denoted
permutations, with the same coefficients and the same residual. -/
theorem bvnReplayAux_replay (hn : 0 < n) :
    ∀ (perms : List (List ℕ)) (X : List (List Rat)) (zs : List Rat) (R : List (List Rat)),
      isSquareB n X = true → bvnReplayAux n X perms = .ok (zs, R) →
      isSquareB n R = true ∧ (∀ sigma ∈ perms, isPermB n sigma = true) ∧
      ∃ out : List (ℚ × Equiv.Perm (Fin n)),
        replay hn (toFun n X) (out.map (·.2)) = some (out, toFun n R) ∧
        out.map (·.1) = zs ∧ List.Forall₂ (PermRel n) out perms := by
  intro perms
  induction perms with
  | nil =>
    intro X zs R hsq h
    simp only [bvnReplayAux, Except.ok.injEq, Prod.mk.injEq] at h
    obtain ⟨rfl, rfl⟩ := h
    exact ⟨hsq, by simp, [], by simp [replay], rfl, List.Forall₂.nil⟩
  | cons sigma rest ih =>
    intro X zs R hsq h
    simp only [bvnReplayAux] at h
    split at h
    · rename_i hp
      split at h
      · rename_i hsupp
        split at h
        · simp at h
        · rename_i z hz
          split at h
          · rename_i zs' R' hrec
            simp only [Except.ok.injEq, Prod.mk.injEq] at h
            obtain ⟨rfl, rfl⟩ := h
            have hsq' := subPerm_square n X sigma z hsq (isPermB_length n sigma hp)
            obtain ⟨hR, hperms, out, hrep, hzs, hrel⟩ := ih _ _ _ hsq' hrec
            refine ⟨hR, ?_, (z, permOfList n sigma hp) :: out, ?_, ?_, ?_⟩
            · intro s hs
              rcases List.mem_cons.mp hs with rfl | hs
              · exact hp
              · exact hperms s hs
            · have hsupp' := (support_iff X sigma hsq hp).mp hsupp
              have hz' := stepZ_eq hn X sigma z hsq hp hz
              simp only [List.map_cons, replay]
              rw [if_pos hsupp', hz', ← toFun_subPerm X sigma z hsq hp, hrep]
            · simp [hzs]
            · exact List.Forall₂.cons (fun i => permOfList_val n sigma hp i) hrel
          · simp at h
      · simp at h
    · simp at h

/-- With `n = 0` only the empty replay succeeds. -/
theorem bvnReplayAux_zero (perms : List (List ℕ)) (X : List (List Rat)) (zs : List Rat)
    (R : List (List Rat)) (hsq : isSquareB 0 X = true) (h : bvnReplayAux 0 X perms = .ok (zs, R)) :
    perms = [] ∧ zs = [] := by
  cases perms with
  | nil =>
    simp only [bvnReplayAux, Except.ok.injEq, Prod.mk.injEq] at h
    exact ⟨rfl, h.1.symm⟩
  | cons sigma rest =>
    exfalso
    simp only [bvnReplayAux] at h
    split at h
    · rename_i hp
      have hlen := diagVals_length 0 X sigma hsq (isPermB_length 0 sigma hp)
      have : diagVals X sigma = [] := List.eq_nil_of_length_eq_zero hlen
      rw [this] at h
      simp [minList] at h
    · simp at h

/-! ### Fin-level facts used for the lottery (C07): every replayed permutation lies in the support of the
ORIGINAL matrix, because residual entries never increase. -/

theorem replay_support (hn : 0 < n) :
    ∀ (perms : List (Equiv.Perm (Fin n))) (X : Fin n → Fin n → ℚ) (out) (Xf),
      replay hn X perms = some (out, Xf) →
      (∀ i j, Xf i j ≤ X i j) ∧ ∀ e ∈ out, ∀ i, 0 < X i (e.2 i) := by
  intro perms
  induction perms with
  | nil =>
    intro X out Xf h
    simp [replay] at h
    obtain ⟨rfl, rfl⟩ := h
    simp
  | cons σ rest ih =>
    intro X out Xf h
    simp only [replay] at h
    split at h
    · rename_i hsupp
      split at h
      · rename_i out' Xf' hrec
        simp at h
        obtain ⟨rfl, rfl⟩ := h
        obtain ⟨h1, h2⟩ := ih _ _ _ hrec
        have hzpos : 0 < stepZ hn X σ := by
          obtain ⟨i, hi⟩ := stepZ_attained hn X σ
          rw [hi]; exact hsupp i
        have hstep : ∀ i j, bvnStep X σ (stepZ hn X σ) i j ≤ X i j := by
          intro i j
          unfold bvnStep
          split
          · linarith
          · simp
        refine ⟨fun i j => le_trans (h1 i j) (hstep i j), ?_⟩
        intro e he i
        rcases List.mem_cons.mp he with rfl | he
        · exact hsupp i
        · exact lt_of_lt_of_le (h2 e he i) (hstep i _)
      · simp at h
    · simp at h

/-! ### Balancedness and zero test -/

theorem sum_fin_getD (r : List Rat) (h : r.length = n) : ∑ j : Fin n, r.getD j 0 = sumList r := by
  subst h
  unfold sumList
  conv_rhs => rw [← List.ofFn_getElem (xs := r)]
  rw [List.sum_ofFn]
  apply Finset.sum_congr rfl
  intro j _
  simp [List.getD_eq_getElem?_getD]

theorem row_sum_eq (X : List (List Rat)) (hsq : isSquareB n X = true) (i : Fin n) (row : List Rat)
    (hrow : X[(i : ℕ)]? = some row) : ∑ j, toFun n X i j = sumList row := by
  have hlen : row.length = n := ((isSquareB_iff n X).mp hsq).2 row (List.mem_of_getElem? hrow)
  rw [← sum_fin_getD row hlen]
  apply Finset.sum_congr rfl
  intro j _
  simp [toFun, matGet, List.getD_eq_getElem?_getD, hrow]

theorem col_sum_eq (X : List (List Rat)) (hsq : isSquareB n X = true) (j : ℕ) (hj : j < n) :
    ∑ i, toFun n X i ⟨j, hj⟩ = sumList (X.map (fun r => r.getD j 0)) := by
  have hlen : (X.map (fun r => r.getD j 0)).length = n := by
    simp [((isSquareB_iff n X).mp hsq).1]
  rw [← sum_fin_getD _ hlen]
  apply Finset.sum_congr rfl
  intro i _
  obtain ⟨row, hrow, _⟩ := square_get n X hsq i i.2
  simp [toFun, matGet, List.getD_eq_getElem?_getD, hrow]

theorem isBalancedB_square (X : List (List Rat)) (s : Rat) (h : isBalancedB n X = some s) :
    isSquareB n X = true := by
  unfold isBalancedB at h
  split at h
  · rename_i h0
    simp only [Bool.and_eq_true] at h0
    exact h0.1
  · simp at h

/-- the Bool check implies the `Fin`-level `Balanced` structure of `Bvn1.lean` -/
theorem isBalancedB_balanced (X : List (List Rat)) (s : Rat) (h : isBalancedB n X = some s) :
    Balanced (toFun n X) s := by
  have hsq := isBalancedB_square X s h
  unfold isBalancedB at h
  split at h
  · rename_i h0
    simp only [Bool.and_eq_true, List.all_eq_true, decide_eq_true_eq] at h0
    split at h
    · rename_i h1
      simp only [Option.some.injEq] at h
      simp only [Bool.and_eq_true, List.all_eq_true, beq_iff_eq, allLt_iff] at h1
      rw [h] at h1
      refine ⟨?_, ?_, ?_⟩
      · intro i j
        obtain ⟨row, hrow, hlen⟩ := square_get n X hsq i i.2
        have hj : (j : ℕ) < row.length := by omega
        have : toFun n X i j = row[(j : ℕ)] := matGet_eq X i j row _ hrow (by simp)
        rw [this]
        exact h0.2 row (List.mem_of_getElem? hrow) _ (List.getElem_mem hj)
      · intro i
        obtain ⟨row, hrow, _⟩ := square_get n X hsq i i.2
        rw [row_sum_eq X hsq i row hrow]
        exact h1.1 row (List.mem_of_getElem? hrow)
      · intro j
        have := col_sum_eq X hsq j j.2
        rw [this]
        exact h1.2 j j.2
    · simp at h
  · simp at h

theorem isZeroB_toFun (X : List (List Rat)) (hsq : isSquareB n X = true) (h : isZeroB X = true) :
    toFun n X = fun _ _ => 0 := by
  funext i j
  simp only [isZeroB, List.all_eq_true, beq_iff_eq] at h
  obtain ⟨row, hrow, hlen⟩ := square_get n X hsq i i.2
  have hj : (j : ℕ) < row.length := by omega
  have : toFun n X i j = row[(j : ℕ)] := matGet_eq X i j row _ hrow (by simp)
  rw [this]
  exact h row (List.mem_of_getElem? hrow) _ (List.getElem_mem hj)

/-- the reconstruction sum at list level equals the `Fin`-level one -/
theorem reconEntry_eq (out : List (ℚ × Equiv.Perm (Fin n))) (perms : List (List ℕ))
    (hrel : List.Forall₂ (PermRel n) out perms) (i j : Fin n) :
    reconEntry n (out.map (·.1)) perms i j =
      (out.map (fun e => e.1 * (if e.2 i = j then (1 : ℚ) else 0))).sum := by
  unfold reconEntry sumList
  induction hrel with
  | nil => simp
  | cons hab _ ih =>
    simp only [List.map_cons, List.zipWith_cons_cons, List.sum_cons, ih]
    congr 2
    rw [← hab i]
    simp only [Fin.ext_iff]

theorem bvnReplay_ok (X : List (List Rat)) (perms : List (List ℕ)) (zs : List Rat) (R : List (List Rat))
    (h : bvnReplay n X perms = .ok (zs, R)) :
    isSquareB n X = true ∧ bvnReplayAux n X perms = .ok (zs, R) := by
  unfold bvnReplay at h
  split at h
  · exact ⟨‹_›, h⟩
  · simp at h

theorem isBalancedB_zero_sum (X : List (List Rat)) (s : Rat) (h : isBalancedB 0 X = some s) : s = 0 := by
  have hsq := isBalancedB_square X s h
  have hX : X = [] := List.eq_nil_of_length_eq_zero ((isSquareB_iff 0 X).mp hsq).1
  subst hX
  simp [isBalancedB, headSum] at h
  exact h.2.2.symm

/-- list-level specification of a successful replay ending at the zero matrix -/
theorem bvnReplay_spec (X : List (List Rat)) (perms : List (List ℕ)) (s : Rat) (zs : List Rat)
    (R : List (List Rat)) (hbal : isBalancedB n X = some s) (hrep : bvnReplay n X perms = .ok (zs, R))
    (hzero : isZeroB R = true) :
    zs.length = perms.length ∧ perms.length ≤ n * n ∧ (∀ z ∈ zs, 0 < z) ∧ sumList zs = s ∧
    (∀ sigma ∈ perms, isPermB n sigma = true) ∧
    ∀ i j, i < n → j < n → reconEntry n zs perms i j = matGet X i j := by
  obtain ⟨hsq, haux⟩ := bvnReplay_ok X perms zs R hrep
  rcases Nat.eq_zero_or_pos n with rfl | hn
  · obtain ⟨rfl, rfl⟩ := bvnReplayAux_zero perms X zs R hsq haux
    have := isBalancedB_zero_sum X s hbal
    simp [sumList, this]
  · obtain ⟨hR, hperms, out, hreplay, hzs, hrel⟩ := bvnReplayAux_replay hn perms X zs R hsq haux
    rw [isZeroB_toFun R hR hzero] at hreplay
    obtain ⟨h1, h2, h3, h4⟩ := replay_zero hn _ (toFun n X) s out (isBalancedB_balanced X s hbal) hreplay
    have hlen : out.length = perms.length := hrel.length_eq
    refine ⟨?_, ?_, ?_, ?_, hperms, ?_⟩
    · rw [← hzs, List.length_map, hlen]
    · rw [← hlen]; exact h2
    · intro z hz
      rw [← hzs] at hz
      obtain ⟨e, he, rfl⟩ := List.mem_map.mp hz
      exact h3 e he
    · rw [← hzs]; exact h1
    · intro i j hi hj
      rw [← hzs, reconEntry_eq out perms hrel ⟨i, hi⟩ ⟨j, hj⟩]
      exact (h4 ⟨i, hi⟩ ⟨j, hj⟩).symm

theorem bvnReplay_reconB (X : List (List Rat)) (perms : List (List ℕ)) (s : Rat) (zs : List Rat)
    (R : List (List Rat)) (hbal : isBalancedB n X = some s) (hrep : bvnReplay n X perms = .ok (zs, R))
    (hzero : isZeroB R = true) : reconB n X zs perms = true := by
  obtain ⟨h1, _, _, _, _, h6⟩ := bvnReplay_spec X perms s zs R hbal hrep hzero
  simp only [reconB, Bool.and_eq_true, beq_iff_eq, allLt_iff]
  exact ⟨h1, fun i hi j hj => h6 i j hi hj⟩

#print axioms bvnReplay_spec

/-! ### what the permutation check means, and support in the ORIGINAL matrix (lottery, C07) -/

theorem isPermB_bij (sigma : List ℕ) (h : isPermB n sigma = true) :
    sigma.length = n ∧ (∀ i, i < n → sigma.getD i n < n) ∧
    (∀ i i', i < n → i' < n → sigma.getD i n = sigma.getD i' n → i = i') ∧
    ∀ j, j < n → ∃ i, i < n ∧ sigma.getD i n = j := by
  refine ⟨isPermB_length n sigma h, ?_, ?_, ?_⟩
  · intro i hi
    have := (permOfList n sigma h ⟨i, hi⟩).2
    rwa [permOfList_val] at this
  · intro i i' hi hi' heq
    have : permOfList n sigma h ⟨i, hi⟩ = permOfList n sigma h ⟨i', hi'⟩ := by
      apply Fin.ext
      rw [permOfList_val, permOfList_val]; exact heq
    have := (permOfList n sigma h).injective this
    simpa using this
  · intro j hj
    obtain ⟨i, hi⟩ := (permOfList n sigma h).surjective ⟨j, hj⟩
    refine ⟨i, i.2, ?_⟩
    rw [← permOfList_val n sigma h i, hi]

theorem forall₂_exists_left {α β : Type} {R : α → β → Prop} {l₁ : List α} {l₂ : List β}
    (h : List.Forall₂ R l₁ l₂) (b : β) (hb : b ∈ l₂) : ∃ a ∈ l₁, R a b := by
  induction h with
  | nil => simp at hb
  | cons hab _ ih =>
    rcases List.mem_cons.mp hb with rfl | hb
    · exact ⟨_, List.mem_cons_self, hab⟩
    · obtain ⟨a, ha, hr⟩ := ih hb
      exact ⟨a, List.mem_cons_of_mem _ ha, hr⟩

/-- every permutation of a successful replay is a checked permutation whose entries are strictly positive
in the matrix the replay STARTED from -/
theorem bvnReplay_in_support (X : List (List Rat)) (perms : List (List ℕ)) (zs : List Rat)
    (R : List (List Rat)) (hrep : bvnReplay n X perms = .ok (zs, R)) :
    ∀ sigma ∈ perms, isPermB n sigma = true ∧ ∀ i, i < n → 0 < matGet X i (sigma.getD i n) := by
  obtain ⟨hsq, haux⟩ := bvnReplay_ok X perms zs R hrep
  rcases Nat.eq_zero_or_pos n with rfl | hn
  · obtain ⟨rfl, rfl⟩ := bvnReplayAux_zero perms X zs R hsq haux
    simp
  · obtain ⟨_, hperms, out, hreplay, _, hrel⟩ := bvnReplayAux_replay hn perms X zs R hsq haux
    obtain ⟨_, hsupp⟩ := replay_support hn _ _ _ _ hreplay
    intro sigma hs
    refine ⟨hperms sigma hs, ?_⟩
    intro i hi
    obtain ⟨e, he, hr⟩ := forall₂_exists_left hrel sigma hs
    have := hsupp e he ⟨i, hi⟩
    rw [← hr ⟨i, hi⟩]
    exact this

/-- the residual of a successful replay is entrywise below the starting matrix -/
theorem bvnReplay_residual_le (X : List (List Rat)) (perms : List (List ℕ)) (zs : List Rat)
    (R : List (List Rat)) (hrep : bvnReplay n X perms = .ok (zs, R)) :
    ∀ i j, i < n → j < n → matGet R i j ≤ matGet X i j := by
  obtain ⟨hsq, haux⟩ := bvnReplay_ok X perms zs R hrep
  intro i j hi hj
  have hn : 0 < n := by omega
  obtain ⟨_, _, out, hreplay, _, _⟩ := bvnReplayAux_replay hn perms X zs R hsq haux
  exact (replay_support hn _ _ _ _ hreplay).1 ⟨i, hi⟩ ⟨j, hj⟩
