import Sck.Proofs.Validate2
import Sck.Model.Profile
import Sck.Proofs.VotingLaws
import Sck.Proofs.IrvingAlgoLists
import Sck.Proofs.Stv3
import Sck.Proofs.GsWF

/-! Input validation (C20), part 3: how the validators of the library relate to the well-formedness hypotheses of the
rule theorems (`Vote.wfB`, `C12.wfB`, `IrvingAlgo.permRowB`, `strictIncRowB`, `wfTiesB`, `HR.WF2`).

Summary: every well-formed profile with at least one non-NaN entry is accepted; the converse fails badly (ties,
fractions, out-of-range ranks are accepted), and a well-formed incomplete profile WITHOUT any ranked entry is rejected. -/

namespace Validate

/-! ## entries of the embedded rank matrices -/

theorem mem_entries_matOfOptNat (m : Nat) (P : List (List (Option Nat))) (e : Entry) :
    e ∈ (matOfOptNat m P).entries ↔ ∃ row ∈ P, ∃ x ∈ row, e = x.map (fun (r : Nat) => (r : Rat)) := by
  simp only [Mat.entries, matOfOptNat, List.mem_flatten, List.mem_map]
  constructor
  · rintro ⟨l, ⟨row, hrow, rfl⟩, he⟩
    obtain ⟨x, hx, rfl⟩ := List.mem_map.mp he
    exact ⟨row, hrow, x, hx, rfl⟩
  · rintro ⟨row, hrow, x, hx, rfl⟩
    exact ⟨_, ⟨row, hrow, rfl⟩, List.mem_map.mpr ⟨x, hx, rfl⟩⟩

theorem none_mem_entries_matOfOptNat (m : Nat) (P : List (List (Option Nat))) :
    none ∈ (matOfOptNat m P).entries ↔ ∃ row ∈ P, none ∈ row := by
  rw [mem_entries_matOfOptNat]
  constructor
  · rintro ⟨row, hrow, x, hx, h⟩
    cases x with
    | none => exact ⟨row, hrow, hx⟩
    | some r => simp at h
  · rintro ⟨row, hrow, hx⟩
    exact ⟨row, hrow, none, hx, rfl⟩

theorem some_mem_entries_matOfOptNat (m : Nat) (P : List (List (Option Nat))) (q : Rat) :
    some q ∈ (matOfOptNat m P).entries ↔ ∃ row ∈ P, ∃ r : Nat, some r ∈ row ∧ (r : Rat) = q := by
  rw [mem_entries_matOfOptNat]
  constructor
  · rintro ⟨row, hrow, x, hx, h⟩
    cases x with
    | none => simp at h
    | some r =>
      simp only [Option.map_some, Option.some.injEq] at h
      exact ⟨row, hrow, r, hx, h.symm⟩
  · rintro ⟨row, hrow, r, hx, rfl⟩
    exact ⟨row, hrow, some r, hx, rfl⟩

theorem entries_matOfOptNat_eq_nil (m : Nat) (P : List (List (Option Nat))) :
    (matOfOptNat m P).entries = [] ↔ ∀ row ∈ P, row = [] := by
  simp [Mat.entries, matOfOptNat, List.flatten_eq_nil_iff]

/-- `check_profile` on an embedded rank matrix, in terms of the natural-number ranks -/
theorem profileOk_matOfOptNat_iff (m : Nat) (P : List (List (Option Nat))) (c s : Bool) :
    ProfileOk (matOfOptNat m P) c s ↔
      (c = true → ∀ row ∈ P, none ∉ row) ∧
      (∃ row ∈ P, some 1 ∈ row) ∧
      (∀ row ∈ P, ∀ r : Nat, some r ∈ row → 1 ≤ r) ∧
      (c = true → s = true → (∃ row ∈ P, some m ∈ row) ∧ ∀ row ∈ P, ∀ r : Nat, some r ∈ row → r ≤ m) := by
  have hcols : (matOfOptNat m P).cols = m := rfl
  constructor
  · intro h
    refine ⟨fun hc row hrow hn => h.noNaN hc ((none_mem_entries_matOfOptNat m P).mpr ⟨row, hrow, hn⟩), ?_, ?_, ?_⟩
    · obtain ⟨row, hrow, r, hr, h1⟩ := (some_mem_entries_matOfOptNat m P 1).mp h.hasOne
      have : r = 1 := by exact_mod_cast h1
      exact ⟨row, hrow, this ▸ hr⟩
    · intro row hrow r hr
      have := h.geOne (r : Rat) ((some_mem_entries_matOfOptNat m P _).mpr ⟨row, hrow, r, hr, rfl⟩)
      exact_mod_cast this
    · intro hc hs
      refine ⟨?_, fun row hrow r hr => ?_⟩
      · obtain ⟨row, hrow, r, hr, h1⟩ := (some_mem_entries_matOfOptNat m P _).mp (h.hasMax hc hs)
        rw [hcols] at h1
        have : r = m := by exact_mod_cast h1
        exact ⟨row, hrow, this ▸ hr⟩
      · have := h.leMax hc hs (r : Rat) ((some_mem_entries_matOfOptNat m P _).mpr ⟨row, hrow, r, hr, rfl⟩)
        rw [hcols] at this
        exact_mod_cast this
  · rintro ⟨h1, ⟨row1, hrow1, hone⟩, h3, h4⟩
    refine ⟨fun hc hn => ?_, ?_, ?_, fun hc hs => ?_, fun hc hs q hq => ?_⟩
    · obtain ⟨row, hrow, hn'⟩ := (none_mem_entries_matOfOptNat m P).mp hn
      exact h1 hc row hrow hn'
    · exact (some_mem_entries_matOfOptNat m P 1).mpr ⟨row1, hrow1, 1, hone, by norm_num⟩
    · intro q hq
      obtain ⟨row, hrow, r, hr, rfl⟩ := (some_mem_entries_matOfOptNat m P q).mp hq
      exact_mod_cast h3 row hrow r hr
    · obtain ⟨⟨row, hrow, hm⟩, _⟩ := h4 hc hs
      exact (some_mem_entries_matOfOptNat m P _).mpr ⟨row, hrow, m, hm, rfl⟩
    · obtain ⟨row, hrow, r, hr, rfl⟩ := (some_mem_entries_matOfOptNat m P q).mp hq
      rw [hcols]
      exact_mod_cast (h4 hc hs).2 row hrow r hr

theorem matOfNat_eq (m : Nat) (P : List (List Nat)) : matOfNat m P = matOfOptNat m (P.map (fun row => row.map some)) := by
  simp [matOfNat, matOfOptNat, List.map_map, Function.comp_def]

/-- the same for a complete rank matrix (`List (List Nat)`) -/
theorem profileOk_matOfNat_iff (m : Nat) (P : List (List Nat)) (c s : Bool) :
    ProfileOk (matOfNat m P) c s ↔
      (∃ row ∈ P, 1 ∈ row) ∧ (∀ row ∈ P, ∀ r ∈ row, 1 ≤ r) ∧
      (c = true → s = true → (∃ row ∈ P, m ∈ row) ∧ ∀ row ∈ P, ∀ r ∈ row, r ≤ m) := by
  rw [matOfNat_eq, profileOk_matOfOptNat_iff]
  simp only [List.mem_map, forall_exists_index, and_imp, forall_apply_eq_imp_iff₂, Option.some.injEq,
    exists_eq_right, reduceCtorEq, and_false, exists_false, not_false_eq_true, implies_true, true_and,
    exists_exists_and_eq_and]

theorem checkProfile_argOfNat_iff (m : Nat) (P : List (List Nat)) (c s : Bool) :
    checkProfile (argOfNat m P) c s = .ok () ↔
      (∃ row ∈ P, 1 ∈ row) ∧ (∀ row ∈ P, ∀ r ∈ row, 1 ≤ r) ∧
      (c = true → s = true → (∃ row ∈ P, m ∈ row) ∧ ∀ row ∈ P, ∀ r ∈ row, r ≤ m) := by
  rw [checkProfile_iff, argOfNat, exists_array2, profileOk_matOfNat_iff]

theorem checkProfile_argOfOptNat_iff (m : Nat) (P : List (List (Option Nat))) (c s : Bool) :
    checkProfile (argOfOptNat m P) c s = .ok () ↔
      (c = true → ∀ row ∈ P, none ∉ row) ∧
      (∃ row ∈ P, some 1 ∈ row) ∧
      (∀ row ∈ P, ∀ r : Nat, some r ∈ row → 1 ≤ r) ∧
      (c = true → s = true → (∃ row ∈ P, some m ∈ row) ∧ ∀ row ∈ P, ∀ r : Nat, some r ∈ row → r ≤ m) := by
  rw [checkProfile_iff, argOfOptNat, exists_array2, profileOk_matOfOptNat_iff]

/-! ## strict complete profiles: every row a permutation of `1..m` -/

/-- **the domain of the voting / matching theorems is accepted** — by `StrictCompleteProfile.of` (`c = s = true`) and
hence by every flag combination -/
theorem wf_accepted (m : Nat) (P : List (List Nat)) (c s : Bool) (hP : P ≠ []) (hm : 1 ≤ m)
    (h : ∀ row ∈ P, row.Perm (List.range' 1 m)) : checkProfile (argOfNat m P) c s = .ok () := by
  rw [checkProfile_argOfNat_iff]
  obtain ⟨row0, hrow0⟩ := List.exists_mem_of_ne_nil P hP
  have hmem : ∀ row ∈ P, ∀ r, r ∈ row ↔ 1 ≤ r ∧ r ≤ m := by
    intro row hrow r
    rw [(h row hrow).mem_iff, List.mem_range'_1]
    omega
  refine ⟨⟨row0, hrow0, (hmem row0 hrow0 1).mpr ⟨le_refl _, hm⟩⟩, fun row hrow r hr => ((hmem row hrow r).mp hr).1,
    fun _ _ => ⟨⟨row0, hrow0, (hmem row0 hrow0 m).mpr ⟨hm, le_refl _⟩⟩, fun row hrow r hr => ((hmem row hrow r).mp hr).2⟩⟩

theorem voteWf_accepted (m : Nat) (P : List (List Nat)) (c s : Bool) (hP : P ≠ []) (hm : 1 ≤ m)
    (h : Vote.wfB P m = true) : checkProfile (argOfNat m P) c s = .ok () :=
  wf_accepted m P c s hP hm (Vote.wfB_iff.mp h)

theorem c12Wf_accepted (m : Nat) (P : List (List Nat)) (c s : Bool) (hP : P ≠ []) (hm : 1 ≤ m)
    (h : C12.wfB P m = true) : checkProfile (argOfNat m P) c s = .ok () :=
  wf_accepted m P c s hP hm ((C12.wfB_iff P m).mp h)

theorem permRows_accepted (n : Nat) (P : List (List Nat)) (c s : Bool) (hn : 1 ≤ n) (hlen : P.length = n)
    (h : ∀ row ∈ P, IrvingAlgo.permRowB n row = true) : checkProfile (argOfNat n P) c s = .ok () := by
  refine wf_accepted n P c s (by intro hp; rw [hp] at hlen; simp at hlen; omega) hn (fun row hrow => ?_)
  obtain ⟨hl, hb, hnd⟩ := (IrvingAlgo.permRowB_iff n row).mp (h row hrow)
  exact C12.perm_range'_of hl hnd hb

/-! ## strict incomplete profiles -/

theorem strictIncRow_mem (row : List (Option Nat)) (h : strictIncRowB row = true) (r : Nat) :
    some r ∈ row ↔ 1 ≤ r ∧ r ≤ (row.filterMap id).length := by
  unfold strictIncRowB at h
  rw [List.isPerm_iff] at h
  have : some r ∈ row ↔ r ∈ row.filterMap id := by simp [List.mem_filterMap]
  rw [this, h.mem_iff, List.mem_range'_1]
  omega

theorem strictIncRow_one (row : List (Option Nat)) (h : strictIncRowB row = true) (r : Nat) (hr : some r ∈ row) :
    some 1 ∈ row := by
  have h1 := (strictIncRow_mem row h r).mp hr
  exact (strictIncRow_mem row h 1).mpr ⟨le_refl _, by omega⟩

/-- a well-formed strict incomplete profile (each row's non-NaN entries are exactly `1..k`) is accepted by the
incomplete constructors **iff some entry is not NaN** -/
theorem strictInc_accepted_iff (m : Nat) (P : List (List (Option Nat))) (s : Bool)
    (h : ∀ row ∈ P, strictIncRowB row = true) :
    checkProfile (argOfOptNat m P) false s = .ok () ↔ ∃ row ∈ P, ∃ r : Nat, some r ∈ row := by
  rw [checkProfile_argOfOptNat_iff]
  constructor
  · rintro ⟨_, ⟨row, hrow, h1⟩, _⟩
    exact ⟨row, hrow, 1, h1⟩
  · rintro ⟨row, hrow, r, hr⟩
    refine ⟨by simp, ⟨row, hrow, strictIncRow_one row (h row hrow) r hr⟩, fun row' hrow' r' hr' => ?_, by simp⟩
    exact ((strictIncRow_mem row' (h row' hrow') r').mp hr').1

/-- … and an all-NaN array of positive size (every agent finds everything unacceptable) is REJECTED with the
"must contain exactly integers from 1 to M" error; a zero-size array with numpy's own error -/
theorem allNaN_rejected (m : Nat) (P : List (List (Option Nat))) (s : Bool)
    (hall : ∀ row ∈ P, ∀ x ∈ row, x = none) :
    checkProfile (argOfOptNat m P) false s =
      if (matOfOptNat m P).entries = [] then .error .empty else .error .range := by
  by_cases he : (matOfOptNat m P).entries = []
  · rw [if_pos he]
    exact checkProfile_empty _ _ _ he
  · rw [if_neg he]
    rcases checkProfile_main (matOfOptNat m P) false s (by simp) he with ⟨_, hok⟩ | ⟨hr, _⟩
    · exfalso
      obtain ⟨row, hrow, r, hr, _⟩ := (some_mem_entries_matOfOptNat m P 1).mp hok.hasOne
      have := hall row hrow _ hr
      simp at this
    · exact hr

/-! ## profiles with ties (`wfTiesB`, the hypothesis of the C18 conversion theorems) -/

theorem wfTies_ge_one (row : List (Option Nat)) (h : wfTiesB row = true) (r : Nat) (hr : some r ∈ row) : 1 ≤ r := by
  unfold wfTiesB at h
  have := List.all_eq_true.mp h (some r) hr
  simp only [beq_iff_eq] at this
  omega

/-- the smallest rank of a well-formed row with ties is `1` -/
theorem wfTies_one (row : List (Option Nat)) (h : wfTiesB row = true) (r : Nat) (hr : some r ∈ row) :
    some 1 ∈ row := by
  induction r using Nat.strong_induction_on with
  | _ r ih =>
    unfold wfTiesB at h
    have hrr := List.all_eq_true.mp h (some r) hr
    simp only [beq_iff_eq] at hrr
    by_cases hc : row.countP (fun y => ltR y (some r)) = 0
    · rw [hc] at hrr
      have h1 : r = 1 := by omega
      exact h1 ▸ hr
    · obtain ⟨y, hy, hlt⟩ := List.countP_pos_iff.mp (Nat.pos_of_ne_zero hc)
      cases y with
      | none => simp [ltR] at hlt
      | some q =>
        simp only [ltR, decide_eq_true_eq] at hlt
        exact ih q hlt hy

/-- a profile whose rows are well formed with ties is accepted by the incomplete constructors iff some entry is
not NaN; by the complete-with-ties constructors iff moreover no entry is NaN -/
theorem wfTies_accepted_iff (m : Nat) (P : List (List (Option Nat))) (c : Bool)
    (h : ∀ row ∈ P, wfTiesB row = true) :
    checkProfile (argOfOptNat m P) c false = .ok () ↔
      (c = true → ∀ row ∈ P, none ∉ row) ∧ ∃ row ∈ P, ∃ r : Nat, some r ∈ row := by
  rw [checkProfile_argOfOptNat_iff]
  constructor
  · rintro ⟨h1, ⟨row, hrow, h2⟩, _⟩
    exact ⟨h1, row, hrow, 1, h2⟩
  · rintro ⟨h1, row, hrow, r, hr⟩
    exact ⟨h1, ⟨row, hrow, wfTies_one row (h row hrow) r hr⟩,
      fun row' hrow' r' hr' => wfTies_ge_one row' (h row' hrow') r' hr', by simp⟩

/-! ## the converse fails: concrete witnesses (all values as the Python would see them) -/

/-- `[[1, 2], [2, 2]]`: accepted by `StrictCompleteProfile.of`, second row is not a permutation -/
theorem accepts_non_strict :
    checkProfile (argOfNat 2 [[1, 2], [2, 2]]) true true = .ok () ∧ Vote.wfB [[1, 2], [2, 2]] 2 = false := by
  refine ⟨?_, by decide⟩
  rw [checkProfile_argOfNat_iff]
  simp

/-- `[[1, 1.5], [2, 2]]`: a fractional "rank" is accepted by `StrictCompleteProfile.of` -/
def fractionalArg : Arg := .array 2 { rows := 2, cols := 2, data := [[some 1, some (3 / 2)], [some 2, some 2]] }

theorem accepts_fractional : checkProfile fractionalArg true true = .ok () := by
  rw [checkProfile_iff]
  refine ⟨_, rfl, ?_⟩
  refine ⟨fun _ => ?_, ?_, ?_, fun _ _ => ?_, fun _ _ => ?_⟩ <;>
    simp [Mat.entries] <;> norm_num

/-- `[[1, 99]]`: out-of-range ranks are accepted by every constructor except `StrictCompleteProfile.of` -/
theorem accepts_out_of_range :
    checkProfile (argOfNat 2 [[1, 99]]) true false = .ok () ∧ checkProfile (argOfNat 2 [[1, 99]]) false true = .ok () ∧
    checkProfile (argOfNat 2 [[1, 99]]) true true = .error .range := by
  refine ⟨by rw [checkProfile_argOfNat_iff]; simp, by rw [checkProfile_argOfNat_iff]; simp, ?_⟩
  rw [argOfNat, (checkProfile2_error_iff _ true true).2.2.2.2, profileOk_matOfNat_iff]
  refine ⟨by simp [matOfNat, Mat.entries], by simp [matOfNat, Mat.entries], ?_⟩
  simp

/-- `[[1, 1], [3, 3]]` in the incomplete-strict class: ties pass `StrictProfile.of` / `StrictIncompleteProfile.of` -/
theorem accepts_ties_as_strict :
    profileOf .strictIncompleteProfile false (argOfNat 2 [[1, 1], [3, 3]]) = .ok () := by
  simp only [profileOf]
  rw [checkProfile_argOfNat_iff]
  simp

/-- the Gale–Shapley hypothesis `HR.WF2` (rows strict, NaN allowed) is incomparable with what `StrictProfile.of`
accepts: the strict row `[2]` satisfies it and is rejected … -/
theorem gs_wf_rejected :
    (HR.mk 1 1 [[some 2]] [[some 2]] [1]).WF2 ∧
    profileOf .strictProfile false (argOfOptNat 1 [[some 2]]) = .error .range := by
  refine ⟨(HR.wfB_iff _).mp (by decide), ?_⟩
  simp only [profileOf]
  rw [argOfOptNat, (checkProfile2_error_iff _ false true).2.2.2.2, profileOk_matOfOptNat_iff]
  refine ⟨by simp, by simp [matOfOptNat, Mat.entries], ?_⟩
  simp

/-- … and the non-strict `[[1, 1]]` is accepted and violates it -/
theorem gs_accepted_not_wf :
    profileOf .strictProfile false (argOfOptNat 2 [[some 1, some 1]]) = .ok () ∧
    ¬ (HR.mk 1 2 [[some 1, some 1]] [[some 1], [some 1]] [1, 1]).WF2 := by
  refine ⟨?_, fun h => ?_⟩
  · simp only [profileOf]
    rw [checkProfile_argOfOptNat_iff]
    simp
  · have := (HR.wfB_iff _).mpr h
    revert this
    decide

end Validate

namespace Validate

/-- `ProfileOk` is decidable (by running the validator) -/
instance (M : Mat) (c s : Bool) : Decidable (ProfileOk M c s) :=
  decidable_of_iff ((checkProfile (.array 2 M) c s).isOk = true)
    (by rw [isOk_iff, checkProfile_iff, exists_array2])

instance (items : List (Option Int × Option (List Int))) : Decidable (GraphOk items) :=
  decidable_of_iff ((checkGraph (.dict items)).isOk = true)
    (by
      rw [isOk_iff, checkGraph_iff]
      constructor
      · rintro ⟨items', h, hok⟩; cases h; exact hok
      · exact fun h => ⟨items, rfl, h⟩)

end Validate
