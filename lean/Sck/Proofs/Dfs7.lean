import Sck.Proofs.Dfs6

/-! C08, mirror of the implementation's search: glue for the property file (decidable hypothesis checkers,
max-flow / min-cut reading of the final state). -/

open Finset

namespace Dfs

theorem mem_adj_graph {G : Graph} {u : Int} {e : Int × Int} (h : e ∈ adj G u) :
    ∃ g ∈ G, g.1 = u ∧ e ∈ g.2 := by
  induction G with
  | nil => simp [adj, adj?] at h
  | cons a G ih =>
    unfold adj at h ih
    rw [adj?_cons] at h
    by_cases ha : a.1 = u
    · rw [if_pos ha] at h
      exact ⟨a, List.mem_cons_self, ha, h⟩
    · rw [if_neg ha] at h
      obtain ⟨g, hg, h1, h2⟩ := ih h
      exact ⟨g, List.mem_cons_of_mem _ hg, h1, h2⟩

theorem nbrsKeys_of_B (Gf : Graph) (h : nbrsKeysB Gf = true) : NbrsKeys Gf := by
  intro u v c hm
  obtain ⟨g, hg, _, he⟩ := mem_adj_graph hm
  simp only [nbrsKeysB, List.all_eq_true, List.contains_iff_mem] at h
  exact h g hg (v, c) he

/-- the max-flow / min-cut reading of `Final` -/
theorem Final.maxflow_mincut {N : Net} {ff : FlowDict} {S : List Int} {paths : List (List Int × Int)}
    {f : Flow} (h : Final N ff S paths f) :
    (∀ g, IsFlow N.verts.toFinset N.cap N.s N.t g →
      flowValue N.verts.toFinset N.s g ≤ flowValue N.verts.toFinset N.s f) ∧
    (∀ T : Finset Int, T ⊆ N.verts.toFinset → N.s ∈ T → N.t ∉ T →
      cutCap N.verts.toFinset N.cap S.toFinset ≤ cutCap N.verts.toFinset N.cap T) :=
  maxflow_cert N.verts.toFinset N.cap N.s N.t f h.isFlow S.toFinset
    (fun v hv => List.mem_toFinset.mpr (h.sub v (List.mem_toFinset.mp hv)))
    (List.mem_toFinset.mpr h.s_mem) (fun hm => h.t_not (List.mem_toFinset.mp hm)) h.tight

end Dfs
