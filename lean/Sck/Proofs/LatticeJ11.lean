import Sck.Proofs.LatticeJ10

/-! # C03, package L8b, part 11: the edges that Rule 1 and Rule 2 MUST put

Rule 1: if the rotation number `i` of the run contains the man `c` with a wife other than his first one, the previous
rotation of `c` (the one that gave him this wife) has an edge to `i`.
Rule 2: if rotation number `i` moves `c` past a woman `b` of his shortlist who already prefers her husband to `c`, the
rotation recorded in `eliminating_rotations_of_pair[(c, b)]` is an earlier rotation of the run, it gave `b` a husband she
prefers to `c`, and it has an edge to `i`. -/

namespace IrvingAlgo.J

open Irving SMLattice SMLattice.J

theorem endOf_take_succ {n : ℕ} (μ : Equiv.Perm (Fin n)) (A : List (List (Fin n))) (j : Nat) (hj : j < A.length) :
    endOf μ (A.take (j + 1)) = elim (endOf μ (A.take j)) A[j] := by
  rw [List.take_succ_eq_append_getElem hj, endOf_append]; rfl

section
variable {n : Nat} {P1 P2 : List (List Nat)} {M0 : List Pair} {μ0 : Equiv.Perm (Fin n)}
  {C : JCtx n P1 P2 M0 μ0} {all : List (List Pair)} {rotsA : List (List (Fin n))} {νz : Equiv.Perm (Fin n)}

/-- members of a prefix of the run are members of `all` -/
theorem RunCtx.mem_of_take (R : RunCtx C all rotsA νz) (i : Nat) (hi : i < rotsA.length) {r : List Pair}
    (hr : r ∈ pathPairs μ0 (rotsA.take i)) : ∃ j', r = all.getD j' [] ∧ j' < rotsA.length := by
  obtain ⟨_, _, _, _, _, _, _, s7⟩ := path_stage C.h1 C.st0 R.path i hi
  have hmem : r ∈ all := by
    rw [← R.pp, s7]
    exact List.mem_append_left _ hr
  obtain ⟨j', hj', rfl⟩ := List.getElem_of_mem hmem
  refine ⟨j', ?_, by rw [← R.length]; exact hj'⟩
  rw [List.getD_eq_getElem?_getD, List.getElem?_eq_getElem hj']; rfl

/-- **Rule 1 puts the edge from the previous rotation of a man** -/
theorem RunCtx.rule1_complete (R : RunCtx C all rotsA νz) (el : List (Pair × Nat)) (i : Nat) (hi : i < rotsA.length)
    (c : Fin n) (hc : c ∈ rotsA[i]) (hne : endOf μ0 (rotsA.take i) c ≠ μ0 c) :
    ∃ (j : Nat) (hj : j < rotsA.length), j < i ∧
      i ∈ (posetGraph all (shortlists n P1 P2 (muOf n M0)).1 el).getD j [] ∧ c ∈ rotsA[j] ∧
      elim (endOf μ0 (rotsA.take j)) rotsA[j] c = endOf μ0 (rotsA.take i) c := by
  obtain ⟨hN, hσ, hall_i, hNz⟩ := R.stage i hi
  obtain ⟨pN, _, _, _, _, _, _, _⟩ := path_stage C.h1 C.st0 R.path i hi
  set N := endOf μ0 (rotsA.take i) with hNdef
  have hLp := shortlists_fst_pairwise n P1 P2 (muOf n M0) C.hP1 c
  have hwL := (stable_pair_mem C hN c).1
  obtain ⟨r1, r2, hL⟩ := List.append_of_mem hwL
  rw [hL] at hLp
  -- the first wife of `c` is before `N c` on his list, and she is in a rotation
  have hlt0 : rankOf P1 c (μ0 c) < rankOf P1 c (N c) :=
    lt_of_le_of_ne (C.opt N hN c) (fun h => hne (C.h1 c h).symm)
  have h0L : ((μ0 c : Fin n) : Nat) ∈ r1 ++ (N c : Nat) :: r2 := by rw [← hL]; exact (stable_pair_mem C C.st0 c).1
  have h0r1 : ((μ0 c : Fin n) : Nat) ∈ r1 := mem_left_of_lt (r := fun x => rankOf P1 c x) hLp h0L hlt0
  have h0rop : (dictGet? (rotOfPair all) ((c : Nat), ((μ0 c : Fin n) : Nat))).isSome := by
    obtain ⟨N', σ', hmem, hcσ, hNc⟩ := first_mover C.h1 c (rotsA.take i) μ0 N C.st0 pN (fun h => hne h.symm)
    obtain ⟨j0, hj0, _⟩ := R.mem_of_take i hi hmem
    have : ((c : Nat), ((μ0 c : Fin n) : Nat)) ∈ all.getD j0 [] := by
      rw [← hj0, ← hNc]; exact List.mem_map.mpr ⟨c, hcσ, rfl⟩
    rw [R.rop_eq this]; rfl
  obtain ⟨p1, u, p2, hr1, hu, hp2⟩ := exists_last (fun x => (dictGet? (rotOfPair all) ((c : Nat), x)).isSome) r1
    ⟨_, h0r1, h0rop⟩
  obtain ⟨j, hj⟩ := Option.isSome_iff_exists.mp hu
  have hp2' : ∀ x ∈ p2, dictGet? (rotOfPair all) ((c : Nat), x) = none := fun x hx => by
    have := hp2 x hx
    simpa using this
  have hcur := foldl_stepCur_eq (rotOfPair all) c p1 u j p2 none hj hp2'
  rw [← hr1] at hcur
  have hpi : ((c : Nat), ((N c : Fin n) : Nat)) ∈ all.getD i [] := by
    rw [hall_i]; exact List.mem_map.mpr ⟨c, hc, rfl⟩
  have hpj := dictAll_get (rotOfPair_mem all) hj
  obtain ⟨hjl, c', hcj, hcc, huc⟩ := R.pair hpj
  have : c = c' := Fin.ext hcc
  subst this
  have hjall : j < all.length := by rw [R.length]; exact hjl
  have hedge := (posetGraph_edge all (shortlists n P1 P2 (muOf n M0)).1 el c
    (by rw [shortlists_fst_length]; exact c.2) r1 _ r2 hL u j hcur).1 i (R.rop_eq hpi) hjall
  obtain ⟨hNj, hσj, hall_j, hNjz⟩ := R.stage j hjl
  obtain ⟨_, _, _, _, ptail, _, _, _⟩ := path_stage C.h1 C.st0 R.path j hjl
  set Nj := endOf μ0 (rotsA.take j) with hNjdef
  have hur1 : u ∈ r1 := by rw [hr1]; simp
  have hult : rankOf P1 c u < rankOf P1 c (N c) := (List.pairwise_append.mp hLp).2.2 u hur1 _ List.mem_cons_self
  rw [huc] at hult
  have hji : j < i := by
    by_contra hge
    have := stage_mono C.h1 C.st0 R.path i j (by omega) c
    rw [← hNdef, ← hNjdef] at this
    have : rankOf P1 c (N c) ≤ rankOf P1 c (Nj c) := this
    omega
  refine ⟨j, hjl, hji, hedge, hcj, ?_⟩
  by_contra hne2
  obtain ⟨hst2, _, hlt2⟩ := exposed_elim_stable C.h1 hNj hσj
  have hlt2c : rankOf P1 c (Nj c) < rankOf P1 c (elim Nj rotsA[j] c) := hlt2 c hcj
  have hle2 : rankOf P1 c (elim Nj rotsA[j] c) ≤ rankOf P1 c (N c) := by
    have := stage_mono C.h1 C.st0 R.path (j + 1) i (by omega) c
    rw [endOf_take_succ μ0 rotsA j hjl] at this
    exact this
  have hlt3 : rankOf P1 c (elim Nj rotsA[j] c) < rankOf P1 c (N c) :=
    lt_of_le_of_ne hle2 (fun h => hne2 (C.h1 c h))
  have hnez : elim Nj rotsA[j] c ≠ νz c := by
    intro h
    have := hNz c
    rw [h] at hlt3
    have : rankOf P1 c (N c) ≤ rankOf P1 c (νz c) := this
    omega
  obtain ⟨N', σ', hmem, hcσ, hNc⟩ := first_mover C.h1 c (rotsA.drop (j + 1)) _ νz hst2 ptail hnez
  obtain ⟨j', hj', _⟩ := R.mem_of_tail j hjl hmem
  have hp' : ((c : Nat), ((elim Nj rotsA[j] c : Fin n) : Nat)) ∈ all.getD j' [] := by
    rw [← hj', ← hNc]; exact List.mem_map.mpr ⟨c, hcσ, rfl⟩
  have hrop2 := R.rop_eq hp'
  have h2L : ((elim Nj rotsA[j] c : Fin n) : Nat) ∈ r1 ++ (N c : Nat) :: r2 := by
    rw [← hL]; exact (stable_pair_mem C hst2 c).1
  have h2r1 := mem_left_of_lt (r := fun x => rankOf P1 c x) hLp h2L hlt3
  rw [hr1] at h2r1
  have hpr1 : (p1 ++ u :: p2).Pairwise (fun a b => rankOf P1 c a < rankOf P1 c b) := by
    rw [← hr1]; exact (List.pairwise_append.mp hLp).1
  have h2p2 := mem_right_of_gt (r := fun x => rankOf P1 c x) hpr1 h2r1 (by rw [huc]; exact hlt2c)
  rw [hp2' _ h2p2] at hrop2
  exact absurd hrop2 (by simp)

/-- **Rule 2 puts the edge from the rotation that moved the jumped woman past the man** -/
theorem RunCtx.rule2_complete (R : RunCtx C all rotsA νz) (el : List (Pair × Nat))
    (hel : DictAll (fun (p : Pair) pi => ElimOK P2 all p.1 p.2 pi) el)
    (hex : ∀ m w, m ∈ (shortlists n P1 P2 (muOf n M0)).2.getD w [] → rankOf P2 w (husb νz w) < rankOf P2 w m →
      (dictGet? el (m, w)).isSome)
    (i : Nat) (hi : i < rotsA.length) (c : Fin n) (hc : c ∈ rotsA[i]) (b : Fin n)
    (hsl : (c : Nat) ∈ (shortlists n P1 P2 (muOf n M0)).2.getD b [])
    (hb1 : rk n P1 c (endOf μ0 (rotsA.take i) c) < rk n P1 c b)
    (hb2 : rk n P1 c b < rk n P1 c (elim (endOf μ0 (rotsA.take i)) rotsA[i] c))
    (hb3 : rk n P2 b ((endOf μ0 (rotsA.take i)).symm b) < rk n P2 b c) :
    ∃ (j : Nat) (hj : j < rotsA.length), j < i ∧
      i ∈ (posetGraph all (shortlists n P1 P2 (muOf n M0)).1 el).getD j [] ∧
      ∃ a ∈ rotsA[j], endOf μ0 (rotsA.take j) a = b ∧
        rk n P2 b ((elim (endOf μ0 (rotsA.take j)) rotsA[j]).symm b) < rk n P2 b c := by
  obtain ⟨hN, hσ, hall_i, hNz⟩ := R.stage i hi
  set N := endOf μ0 (rotsA.take i) with hNdef
  have hνz := (elimPath_stable C.h1 _ _ _ C.st0 R.path).1
  -- the pair `(c, b)` has an eliminating rotation
  have hsome : (dictGet? el ((c : Nat), (b : Nat))).isSome := by
    refine hex c b hsl ?_
    rw [husb_fin]
    have := women_le C.h1 hνz hNz b
    exact Nat.lt_of_le_of_lt this hb3
  obtain ⟨j, hget⟩ := Option.isSome_iff_exists.mp hsome
  obtain ⟨⟨a0, pa, hle⟩, ⟨idx, hidx, hwidx, hlt⟩⟩ := dictAll_get hel hget
  obtain ⟨hjl, a, haj, ha0, hba⟩ := R.pair pa
  subst ha0
  obtain ⟨hNj, hσj, hall_j, _⟩ := R.stage j hjl
  set Nj := endOf μ0 (rotsA.take j) with hNjdef
  have hba' : Nj a = b := (Fin.ext hba).symm
  have hab : Nj.symm b = a := by rw [← hba']; simp
  have hji : j < i := by
    by_contra hge
    have hm : MLe (rk n P1) N Nj := by
      have := stage_mono C.h1 C.st0 R.path i j (by omega)
      exact this
    have := women_le C.h1 hNj hm b
    rw [hab] at this
    have h1 : rankOf P2 b a ≤ rankOf P2 b (N.symm b) := this
    have h2 : rankOf P2 b (N.symm b) < rankOf P2 b c := hb3
    have h3 : rankOf P2 b c ≤ rankOf P2 b a := hle
    omega
  have hjall : j < all.length := by rw [R.length]; exact hjl
  -- the husband `b` gets from rotation `j`
  have hnew : rk n P2 b ((elim Nj rotsA[j]).symm b) < rk n P2 b c := by
    rw [hall_j, rotPairs_length] at hidx hlt
    rw [hall_j, rotAt_rotPairs Nj _ idx hidx] at hwidx
    have hprev : (idx + rotsA[j].length - 1) % rotsA[j].length < rotsA[j].length := Nat.mod_lt _ (by omega)
    rw [rotAt_rotPairs Nj _ _ hprev] at hlt
    have hidxa : rotsA[j][idx] = a := by
      have : Nj rotsA[j][idx] = b := Fin.ext hwidx
      rw [← hab, ← this]; simp
    have hform := formPerm_prev hσj.1 idx hidx
    rw [hidxa] at hform
    have : (elim Nj rotsA[j]).symm b = rotsA[j][(idx + rotsA[j].length - 1) % rotsA[j].length] := by
      rw [elim_symm_apply, hab, Equiv.symm_apply_eq, hform]
    rw [this]
    exact hlt
  refine ⟨j, hjl, hji, ?_, a, haj, hba', hnew⟩
  -- the edge
  have hLp := shortlists_fst_pairwise n P1 P2 (muOf n M0) C.hP1 c
  have hbL : (b : Nat) ∈ (shortlists n P1 P2 (muOf n M0)).1.getD c [] := (shortlists_mutual n P1 P2 _ _ _).mpr hsl
  obtain ⟨r1, r2, hL⟩ := List.append_of_mem hbL
  have hLp' := hLp
  rw [hL] at hLp'
  have hwL : ((N c : Fin n) : Nat) ∈ r1 ++ (b : Nat) :: r2 := by rw [← hL]; exact (stable_pair_mem C hN c).1
  have hwr1 := mem_left_of_lt (r := fun x => rankOf P1 c x) hLp' hwL hb1
  obtain ⟨p1, p2, hr1⟩ := List.append_of_mem hwr1
  have hpr1 : (p1 ++ ((N c : Fin n) : Nat) :: p2).Pairwise (fun a b => rankOf P1 c a < rankOf P1 c b) := by
    rw [← hr1]; exact (List.pairwise_append.mp hLp').1
  -- no woman strictly between `N c` and `(N/σ) c` is in a rotation with `c`
  have hnone : ∀ x : Nat, rankOf P1 c (N c) < rankOf P1 c x →
      rankOf P1 c x < rankOf P1 c (elim N rotsA[i] c) → dictGet? (rotOfPair all) ((c : Nat), x) = none := by
    intro x hx1 hx2
    apply rop_none_of
    intro j' hmem
    obtain ⟨hj'l, c', _, hcc, hxc⟩ := R.pair hmem
    have : c = c' := Fin.ext hcc
    subst this
    obtain ⟨hNj', _, _, _⟩ := R.stage j' hj'l
    rw [hxc] at hx1 hx2
    exact no_jump C.h1 C.h2 hN hNj' hσ hc hx1 hx2
  have hp2 : ∀ x ∈ p2, dictGet? (rotOfPair all) ((c : Nat), x) = none := by
    intro x hx
    have hx1 : rankOf P1 c (N c) < rankOf P1 c x :=
      (List.pairwise_cons.mp (List.pairwise_append.mp hpr1).2.1).1 x hx
    have hxr1 : x ∈ r1 := by rw [hr1]; exact List.mem_append_right _ (List.mem_cons_of_mem _ hx)
    have hx2 : rankOf P1 c x < rankOf P1 c b := (List.pairwise_append.mp hLp').2.2 x hxr1 _ List.mem_cons_self
    exact hnone x hx1 (Nat.lt_trans hx2 hb2)
  have hpi : ((c : Nat), ((N c : Fin n) : Nat)) ∈ all.getD i [] := by
    rw [hall_i]; exact List.mem_map.mpr ⟨c, hc, rfl⟩
  have hcur := foldl_stepCur_eq (rotOfPair all) c p1 _ i p2 none (R.rop_eq hpi) hp2
  rw [← hr1] at hcur
  have hst' := (exposed_elim_stable C.h1 hN hσ).1
  have hnextL := (stable_pair_mem C hst' c).1
  have hguard : ((shortlists n P1 P2 (muOf n M0)).1.getD c []).idxOf (b : Nat)
      < ((shortlists n P1 P2 (muOf n M0)).1.getD c []).idxOf (wnextOf all i c (N c)) := by
    rw [wnextOf_rotPairs hall_i hσ.1 hc]
    exact idxOf_lt_of_lt (r := fun x => rankOf P1 c x) hLp hbL hnextL hb2
  exact (posetGraph_edge all (shortlists n P1 P2 (muOf n M0)).1 el c
    (by rw [shortlists_fst_length]; exact c.2) r1 _ r2 hL _ i hcur).2 j (hnone b hb1 hb2) hget hguard hjall

end

end IrvingAlgo.J

#print axioms IrvingAlgo.J.RunCtx.rule1_complete
#print axioms IrvingAlgo.J.RunCtx.rule2_complete
