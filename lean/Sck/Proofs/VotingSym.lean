import Sck.Proofs.VotingBasic
import Sck.Model.VotingExtra

/-! Voting model: anonymity (voter permutation), neutrality (renaming alternatives), histogram factorisation (C11). -/

namespace Vote

/-! ## generic tabulated score -/

/-- score of alternative `j` for a weight function into any commutative monoid -/
def scoreG {α : Type} [AddCommMonoid α] (w : Nat → α) (P : Profile) (j : Nat) : α := ((col P j).map w).sum

theorem scoreI_eq (w : Nat → Int) (P : Profile) (j : Nat) : scoreI w P j = scoreG w P j := by
  unfold scoreI scoreG; rw [sumI_eq_sum]

theorem scoreH_eq (P : Profile) (j : Nat) :
    scoreH P j = scoreG (fun (r : Nat) => (1 : Rat) / (r : Rat)) P j := by
  unfold scoreH scoreG; rw [sumQ_eq_sum]

theorem positional_eq (w : Nat → Int) (P : Profile) (m : Nat) :
    positional w P m = (List.range m).map (scoreI w P) := rfl

theorem harmonic_eq (P : Profile) (m : Nat) : harmonic P m = (List.range m).map (scoreH P) := rfl

theorem positional_length (w : Nat → Int) (P : Profile) (m : Nat) : (positional w P m).length = m := by
  simp [positional]

theorem harmonic_length (P : Profile) (m : Nat) : (harmonic P m).length = m := by
  simp [harmonic]

theorem copeland_length (P : Profile) (m : Nat) : (copeland P m).length = m := by
  simp [copeland]

/-- C10 score formula: entry `j` of a positional score vector is `Σ_voters w (rank of j)` -/
theorem positional_get (w : Nat → Int) (P : Profile) {m j : Nat} (hj : j < m) :
    (positional w P m)[j]? = some ((P.map (fun row => w (row.getD j 0))).sum) := by
  simp [positional, hj, sumI_eq_sum, col, List.map_map, Function.comp_def]

theorem harmonic_get (P : Profile) {m j : Nat} (hj : j < m) :
    (harmonic P m)[j]? = some ((P.map (fun row => (1 : Rat) / ((row.getD j 0 : Nat) : Rat))).sum) := by
  simp [harmonic, hj, sumQ_eq_sum, col, List.map_map, Function.comp_def]

theorem positional_get_score (w : Nat → Int) (P : Profile) {m j : Nat} (hj : j < m) :
    (positional w P m)[j]? = some (scoreI w P j) := by
  simp [positional_eq, hj]

theorem harmonic_get_score (P : Profile) {m j : Nat} (hj : j < m) :
    (harmonic P m)[j]? = some (scoreH P j) := by
  simp [harmonic_eq, hj]

/-! ## voters -/

theorem col_perm {P P' : Profile} (h : P.Perm P') (j : Nat) : (col P j).Perm (col P' j) := h.map _

theorem scoreG_perm_voters {α : Type} [AddCommMonoid α] (w : Nat → α) {P P' : Profile} (h : P.Perm P')
    (j : Nat) : scoreG w P j = scoreG w P' j :=
  ((col_perm h j).map w).sum_eq

theorem positional_perm_voters (w : Nat → Int) {P P' : Profile} (h : P.Perm P') (m : Nat) :
    positional w P m = positional w P' m := by
  rw [positional_eq, positional_eq]
  apply List.map_congr_left
  intro j _
  rw [scoreI_eq, scoreI_eq, scoreG_perm_voters w h]

theorem harmonic_perm_voters {P P' : Profile} (h : P.Perm P') (m : Nat) :
    harmonic P m = harmonic P' m := by
  rw [harmonic_eq, harmonic_eq]
  apply List.map_congr_left
  intro j _
  rw [scoreH_eq, scoreH_eq, scoreG_perm_voters _ h]

theorem hist_perm_voters {P P' : Profile} (h : P.Perm P') (m j : Nat) : hist P m j = hist P' m j := by
  unfold hist
  apply List.map_congr_left
  intro r _
  exact ((col_perm h j).filter _).length_eq

theorem copelandNet_perm_voters {P P' : Profile} (h : P.Perm P') (i j : Nat) :
    copelandNet P i j = copelandNet P' i j := by
  unfold copelandNet
  rw [sumI_eq_sum, sumI_eq_sum]
  exact (h.map _).sum_eq

theorem copeland_perm_voters {P P' : Profile} (h : P.Perm P') (m : Nat) : copeland P m = copeland P' m := by
  unfold copeland
  simp only [copelandNet_perm_voters h]

/-! ## same multiset of ranks -/

theorem scoreG_same_multiset {α : Type} [AddCommMonoid α] (w : Nat → α) {P : Profile} {a b : Nat}
    (h : (col P a).Perm (col P b)) : scoreG w P a = scoreG w P b := (h.map w).sum_eq

theorem scoreI_same_multiset (w : Nat → Int) {P : Profile} {a b : Nat}
    (h : (col P a).Perm (col P b)) : scoreI w P a = scoreI w P b := by
  rw [scoreI_eq, scoreI_eq]; exact scoreG_same_multiset w h

theorem scoreH_same_multiset {P : Profile} {a b : Nat}
    (h : (col P a).Perm (col P b)) : scoreH P a = scoreH P b := by
  rw [scoreH_eq, scoreH_eq]; exact scoreG_same_multiset _ h

theorem hist_same_multiset {P : Profile} {a b : Nat} (m : Nat)
    (h : (col P a).Perm (col P b)) : hist P m a = hist P m b := by
  unfold hist
  apply List.map_congr_left
  intro r _
  exact (h.filter _).length_eq

/-- equal scores: both alternatives win or neither does -/
theorem winnersI_of_eq {s : List Int} {a b : Nat} (ha : a < s.length) (hb : b < s.length)
    (h : s[a] = s[b]) : a ∈ winnersI s ↔ b ∈ winnersI s := by
  rw [winnersI_iff, winnersI_iff]
  constructor
  · rintro ⟨_, hm⟩; exact ⟨hb, fun k hk => h ▸ hm k hk⟩
  · rintro ⟨_, hm⟩; exact ⟨ha, fun k hk => h ▸ hm k hk⟩

theorem winnersQ_of_eq {s : List Rat} {a b : Nat} (ha : a < s.length) (hb : b < s.length)
    (h : s[a] = s[b]) : a ∈ winnersQ s ↔ b ∈ winnersQ s := by
  rw [winnersQ_iff, winnersQ_iff]
  constructor
  · rintro ⟨_, hm⟩; exact ⟨hb, fun k hk => h ▸ hm k hk⟩
  · rintro ⟨_, hm⟩; exact ⟨ha, fun k hk => h ▸ hm k hk⟩

/-! ## renaming alternatives -/

theorem permB_iff {sig : List Nat} {m : Nat} : permB sig m = true ↔ sig.Perm (List.range m) := by
  unfold permB; exact List.isPerm_iff

theorem renameBallot_getD {sig : List Nat} {a b : Nat} (h : sig[a]? = some b) (row : List Nat) :
    (renameBallot sig row).getD a 0 = row.getD b 0 := by
  unfold renameBallot
  rw [List.getD_eq_getElem?_getD, List.getElem?_map, h]
  rfl

theorem col_rename {sig : List Nat} {a b : Nat} (h : sig[a]? = some b) (P : Profile) :
    col (renameProfile sig P) a = col P b := by
  unfold col renameProfile
  rw [List.map_map]
  apply List.map_congr_left
  intro row _
  exact renameBallot_getD h row

theorem sig_lt {sig : List Nat} {m a b : Nat} (hsig : sig.Perm (List.range m)) (h : sig[a]? = some b) :
    a < m ∧ b < m := by
  have hlen : sig.length = m := by simpa using hsig.length_eq
  have ha : a < sig.length := (List.getElem?_eq_some_iff.1 h).1
  refine ⟨hlen ▸ ha, ?_⟩
  exact List.mem_range.1 (hsig.mem_iff.1 (List.mem_of_getElem? h))

/-- every old alternative is the image of some new one -/
theorem sig_surj {sig : List Nat} {m b : Nat} (hsig : sig.Perm (List.range m)) (hb : b < m) :
    ∃ a, a < m ∧ sig[a]? = some b := by
  have hlen : sig.length = m := by simpa using hsig.length_eq
  have : b ∈ sig := hsig.mem_iff.2 (List.mem_range.2 hb)
  obtain ⟨a, ha, rfl⟩ := List.mem_iff_getElem.1 this
  exact ⟨a, hlen ▸ ha, by simp [ha]⟩

theorem sig_total {sig : List Nat} {m a : Nat} (hsig : sig.Perm (List.range m)) (ha : a < m) :
    ∃ b, sig[a]? = some b := by
  have hlen : sig.length = m := by simpa using hsig.length_eq
  exact ⟨sig[a], by simp [hlen, ha]⟩

theorem scoreG_rename {α : Type} [AddCommMonoid α] (w : Nat → α) {sig : List Nat} {a b : Nat}
    (h : sig[a]? = some b) (P : Profile) : scoreG w (renameProfile sig P) a = scoreG w P b := by
  unfold scoreG; rw [col_rename h]

theorem scoreI_rename (w : Nat → Int) {sig : List Nat} {a b : Nat}
    (h : sig[a]? = some b) (P : Profile) : scoreI w (renameProfile sig P) a = scoreI w P b := by
  unfold scoreI; rw [col_rename h]

theorem scoreH_rename {sig : List Nat} {a b : Nat}
    (h : sig[a]? = some b) (P : Profile) : scoreH (renameProfile sig P) a = scoreH P b := by
  unfold scoreH; rw [col_rename h]

theorem hist_rename {sig : List Nat} {a b : Nat} (h : sig[a]? = some b) (P : Profile) (m : Nat) :
    hist (renameProfile sig P) m a = hist P m b := by
  unfold hist; rw [col_rename h]

theorem positional_rename (w : Nat → Int) {sig : List Nat} {m a b : Nat}
    (hsig : sig.Perm (List.range m)) (h : sig[a]? = some b) (P : Profile) :
    (positional w (renameProfile sig P) m)[a]? = (positional w P m)[b]? := by
  obtain ⟨ha, hb⟩ := sig_lt hsig h
  rw [positional_get_score w _ ha, positional_get_score w _ hb, scoreI_rename w h]

theorem harmonic_rename {sig : List Nat} {m a b : Nat}
    (hsig : sig.Perm (List.range m)) (h : sig[a]? = some b) (P : Profile) :
    (harmonic (renameProfile sig P) m)[a]? = (harmonic P m)[b]? := by
  obtain ⟨ha, hb⟩ := sig_lt hsig h
  rw [harmonic_get_score _ ha, harmonic_get_score _ hb, scoreH_rename h]

theorem copelandNet_rename {sig : List Nat} {a b c d : Nat}
    (h : sig[a]? = some b) (h' : sig[c]? = some d) (P : Profile) :
    copelandNet (renameProfile sig P) a c = copelandNet P b d := by
  unfold copelandNet renameProfile
  rw [List.map_map]
  congr 1
  apply List.map_congr_left
  intro row _
  simp only [Function.comp]
  rw [renameBallot_getD h, renameBallot_getD h']

/-- Copeland score of alternative `i`, as a function -/
def scoreC (P : Profile) (m i : Nat) : Int := sumI ((List.range m).map (fun j => sgn (copelandNet P i j)))

theorem copeland_eq (P : Profile) (m : Nat) : copeland P m = (List.range m).map (scoreC P m) := rfl

theorem copeland_get_score (P : Profile) {m j : Nat} (hj : j < m) :
    (copeland P m)[j]? = some (scoreC P m j) := by
  simp [copeland_eq, hj]

theorem scoreC_rename {sig : List Nat} {m a b : Nat}
    (hsig : sig.Perm (List.range m)) (h : sig[a]? = some b) (P : Profile) :
    scoreC (renameProfile sig P) m a = scoreC P m b := by
  have hlen : sig.length = m := by simpa using hsig.length_eq
  unfold scoreC
  rw [sumI_eq_sum, sumI_eq_sum]
  have h1 : (List.range m).map (fun j => sgn (copelandNet (renameProfile sig P) a j))
      = sig.map (fun d => sgn (copelandNet P b d)) := by
    apply List.ext_getElem
    · simp [hlen]
    · intro i h1 h2
      simp at h1
      simp only [List.getElem_map, List.getElem_range]
      rw [copelandNet_rename h (by simp [hlen, h1] : sig[i]? = some sig[i])]
  rw [h1]
  exact (hsig.map _).sum_eq

theorem copeland_rename {sig : List Nat} {m a b : Nat}
    (hsig : sig.Perm (List.range m)) (h : sig[a]? = some b) (P : Profile) :
    (copeland (renameProfile sig P) m)[a]? = (copeland P m)[b]? := by
  obtain ⟨ha, hb⟩ := sig_lt hsig h
  rw [copeland_get_score _ ha, copeland_get_score _ hb, scoreC_rename hsig h]

/-- winner sets are permuted accordingly: generic statement for any two score vectors related by `sig` -/
theorem winnersI_rename {s s' : List Int} {sig : List Nat} {m : Nat}
    (hsig : sig.Perm (List.range m)) (hs : s.length = m) (hs' : s'.length = m)
    (hrel : ∀ a b : Nat, sig[a]? = some b → s'[a]? = s[b]?) {a b : Nat} (h : sig[a]? = some b) :
    a ∈ winnersI s' ↔ b ∈ winnersI s := by
  obtain ⟨ha, hb⟩ := sig_lt hsig h
  have key : ∀ a b : Nat, sig[a]? = some b → ∀ (h1 : a < s'.length) (h2 : b < s.length), s'[a] = s[b] := by
    intro a b hab h1 h2
    have := hrel a b hab
    rw [List.getElem?_eq_getElem h1, List.getElem?_eq_getElem h2] at this
    exact Option.some.inj this
  rw [winnersI_iff, winnersI_iff]
  constructor
  · rintro ⟨h1, hm⟩
    refine ⟨hs ▸ hb, fun k hk => ?_⟩
    obtain ⟨c, hc, hck⟩ := sig_surj hsig (hs ▸ hk)
    rw [← key a b h h1 (hs ▸ hb), ← key c k hck (hs' ▸ hc) hk]
    exact hm c _
  · rintro ⟨h1, hm⟩
    refine ⟨hs' ▸ ha, fun k hk => ?_⟩
    obtain ⟨d, hd⟩ := sig_total hsig (hs' ▸ hk)
    have hdm := (sig_lt hsig hd).2
    rw [key a b h (hs' ▸ ha) h1, key k d hd hk (hs ▸ hdm)]
    exact hm d _

theorem winnersQ_rename {s s' : List Rat} {sig : List Nat} {m : Nat}
    (hsig : sig.Perm (List.range m)) (hs : s.length = m) (hs' : s'.length = m)
    (hrel : ∀ a b : Nat, sig[a]? = some b → s'[a]? = s[b]?) {a b : Nat} (h : sig[a]? = some b) :
    a ∈ winnersQ s' ↔ b ∈ winnersQ s := by
  obtain ⟨ha, hb⟩ := sig_lt hsig h
  have key : ∀ a b : Nat, sig[a]? = some b → ∀ (h1 : a < s'.length) (h2 : b < s.length), s'[a] = s[b] := by
    intro a b hab h1 h2
    have := hrel a b hab
    rw [List.getElem?_eq_getElem h1, List.getElem?_eq_getElem h2] at this
    exact Option.some.inj this
  rw [winnersQ_iff, winnersQ_iff]
  constructor
  · rintro ⟨h1, hm⟩
    refine ⟨hs ▸ hb, fun k hk => ?_⟩
    obtain ⟨c, hc, hck⟩ := sig_surj hsig (hs ▸ hk)
    rw [← key a b h h1 (hs ▸ hb), ← key c k hck (hs' ▸ hc) hk]
    exact hm c _
  · rintro ⟨h1, hm⟩
    refine ⟨hs' ▸ ha, fun k hk => ?_⟩
    obtain ⟨d, hd⟩ := sig_total hsig (hs' ▸ hk)
    have hdm := (sig_lt hsig hd).2
    rw [key a b h (hs' ▸ ha) h1, key k d hd hk (hs ▸ hdm)]
    exact hm d _

end Vote
