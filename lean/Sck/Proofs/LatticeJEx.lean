import Sck.Proofs.LatticeJ7

/-! # C03, package L8b: a 4×4 instance whose poset graph has a RULE-2 edge (non-vacuity of the soundness theorems)

Two rotations `ρ₀ = (0,3),(1,0)` and `ρ₁ = (2,2),(3,1)` without a common man; `ρ₀` moves woman `0` past man `3` (it
deletes the pair `(3, 0)`), and woman `0` lies between `3`'s wife `1` and the woman `2` that `ρ₁` gives him: Rule 2 puts
the edge `0 → 1`. -/

namespace IrvingAlgo.J

open Irving SMLattice SMLattice.J

def ex2P1 : List (List Nat) := [[2,4,3,1],[1,3,4,2],[4,2,1,3],[3,2,4,1]]
def ex2P2 : List (List Nat) := [[1,4,3,2],[4,1,2,3],[2,1,4,3],[3,1,2,4]]

def ex2DA : DA :=
  { plist := fun r => match r with | 0 => [3, 0, 2, 1] | 1 => [0, 3, 1, 2] | 2 => [2, 1, 3, 0] | 3 => [3, 1, 0, 2] | _ => []
    rrank := fun h r => rankAt (hrOf 4 ex2P1 ex2P2).H h r
    qp := fun _ => 1
    qr := fun h => (hrOf 4 ex2P1 ex2P2).cap.getD h 0 }

theorem ex2DA_eq : daRes (hrOf 4 ex2P1 ex2P2) = ex2DA := by
  unfold daRes ex2DA
  congr 1
  funext r
  match r with
  | 0 => simp [hrOf, ex2P1, plistOfRow, List.mergeSort, leKey, keyOf, List.range, List.range.loop]
  | 1 => simp [hrOf, ex2P1, plistOfRow, List.mergeSort, leKey, keyOf, List.range, List.range.loop]
  | 2 => simp [hrOf, ex2P1, plistOfRow, List.mergeSort, leKey, keyOf, List.range, List.range.loop]
  | 3 => simp [hrOf, ex2P1, plistOfRow, List.mergeSort, leKey, keyOf, List.range, List.range.loop]
  | r + 4 => simp [hrOf]

def ex2M0 : List Pair := [(1, 0), (3, 1), (2, 2), (0, 3)]
def ex2All : List (List Pair) := [[(0, 3), (1, 0)], [(2, 2), (3, 1)]]
def ex2Elim : List (Pair × Nat) :=
  [((0, 3), 0), ((2, 3), 0), ((1, 0), 0), ((2, 0), 0), ((3, 0), 0), ((2, 2), 1), ((3, 1), 1)]

theorem ex2_maleOptimal : maleOptimal 4 ex2P1 ex2P2 = some ex2M0 := by
  unfold maleOptimal gsRes; rw [ex2DA_eq]; decide +kernel

theorem ex2_allRotations :
    allRotations (shortlists 4 ex2P1 ex2P2 (muOf 4 ex2M0)).1 (shortlists 4 ex2P1 ex2P2 (muOf 4 ex2M0)).2
      = some (ex2All, ex2Elim) := by decide +kernel

theorem ex2_posetGraph : posetGraph ex2All (shortlists 4 ex2P1 ex2P2 (muOf 4 ex2M0)).1 ex2Elim = [[1], []] := by
  decide +kernel

theorem ex2_wfB : wfB 4 ex2P1 ex2P2 [[0,0,0,0],[0,0,0,0],[0,0,0,0],[0,0,0,0]] [[0,0,0,0],[0,0,0,0],[0,0,0,0],[0,0,0,0]]
    = true := by decide +kernel

/-- the mirror's rotations form a run from the male-optimal matching -/
theorem ex2_allRun : AllRun_at 4 ex2P1 ex2P2 := by
  intro M0 all elim hmo hall
  rw [ex2_maleOptimal] at hmo
  obtain rfl : ex2M0 = M0 := Option.some.inj hmo
  rw [ex2_allRotations] at hall
  obtain ⟨rfl, rfl⟩ := Prod.mk.inj (Option.some.inj hall)
  exact ⟨by decide +kernel, by decide⟩

/-- hence (by the soundness theorem) every edge of its poset graph is a true precedence -/
theorem ex2_remaining_j : Remaining_j_at 4 ex2P1 ex2P2 := remaining_j_at_of_run ex2_wfB ex2_allRun

/-- the edge `0 → 1` comes from Rule 2 (man `3`, his wife `1` in `ρ₁`, the jumped woman `0`) and not from Rule 1 -/
theorem ex2_rule2 :
    dictGet? (rotOfPair ex2All) (3, 1) = some 1 ∧ dictGet? (rotOfPair ex2All) (3, 0) = none ∧
      dictGet? ex2Elim (3, 0) = some 0 ∧ wnextOf ex2All 1 3 1 = 2 ∧
      (shortlists 4 ex2P1 ex2P2 (muOf 4 ex2M0)).1.getD 3 [] = [1, 0, 2] ∧
      posetGraph ex2All (shortlists 4 ex2P1 ex2P2 (muOf 4 ex2M0)).1 [] = [[], []] := by
  decide +kernel

end IrvingAlgo.J
