import Sck.Proofs.Dfs4
import Sck.Proofs.FlowTotal
import Sck.Proofs.FlowCut

/-! C08, mirror of the implementation's `ford_fulkerson` (B3, part 3): one round is an `augPath` step along a
`validPath`; `reachable_vertices`; `flow_final`; partial correctness `ffDfs_correct`. -/

open Finset

namespace Dfs

/-! ### one round of the `while` loop -/

theorem mem_path_cases {p : List Int} {x : Int} (hx : x ∈ p) :
    p.head? = some x ∨ ∃ e ∈ pairs p, e.2 = x := by
  induction p with
  | nil => simp at hx
  | cons a rest ih =>
    rcases List.mem_cons.mp hx with rfl | hx'
    · left; rfl
    · right
      cases rest with
      | nil => simp at hx'
      | cons b rest' =>
        rcases ih hx' with h | ⟨e, he, rfl⟩
        · simp only [List.head?_cons, Option.some.injEq] at h
          exact ⟨(a, b), by simp [pairs], h⟩
        · exact ⟨e, by simp only [pairs, List.mem_cons]; exact Or.inr he, rfl⟩

theorem vis0_eq {Gf : Graph} {s : Int} (h : s ∈ keys Gf) : vis0 Gf s = [s] := by
  unfold vis0
  rw [if_pos (List.contains_iff_mem.mpr h)]

/-- what a successful search gives in a state that represents the flow `f` -/
theorem round_path (N : Net) (hwf : N.WF') (Gf : Graph) (fl : FlowDict) (f : Flow) (h : Repr N Gf fl f)
    (fuel : Nat) (path : List Int) (c : Int)
    (hs : (dfsPath Gf N.t fuel N.s (vis0 Gf N.s)).1 = some (path, c)) :
    validPath N f path = true ∧ 0 < c ∧ c ≤ maxsize ∧ (∀ e ∈ pairs path, c ≤ resid N f e.1 e.2) ∧
      (∀ e ∈ pairs path, ∃ d, (e.2, d) ∈ adj Gf e.1) ∧ ResPath Gf N.t path c := by
  have hsk : N.s ∈ keys Gf := by rw [h.keys]; exact hwf.s_mem
  rw [vis0_eq hsk] at hs
  obtain ⟨hhead, hlast, hnd, _, hres, hpos, hle⟩ :=
    dfsPath_sound Gf N.t fuel N.s [N.s] path c (by simp) hs
  have hpairs := hres.pairs
  have hresid : ∀ e ∈ pairs path, ∃ d, (e.2, d) ∈ adj Gf e.1 ∧ 0 < d ∧ c ≤ d ∧ d = resid N f e.1 e.2 := by
    intro e he
    obtain ⟨d, h1, h2, h3⟩ := hpairs e he
    exact ⟨d, h1, h2, h3, (h.ent e.1 e.2 d h1).2⟩
  refine ⟨?_, hpos, hle, ?_, ?_, hres⟩
  · simp only [validPath, Bool.and_eq_true, decide_eq_true_eq, beq_iff_eq, List.all_eq_true,
      List.contains_iff_mem]
    refine ⟨⟨⟨⟨hnd, hhead⟩, hlast⟩, ?_⟩, ?_⟩
    · intro x hx
      rcases mem_path_cases hx with hx | ⟨e, he, rfl⟩
      · rw [hhead] at hx
        simp only [Option.some.injEq] at hx
        rw [← hx]; exact hwf.s_mem
      · obtain ⟨d, h1, _⟩ := hpairs e he
        exact (h.ent e.1 e.2 d h1).1
    · intro e he
      obtain ⟨d, _, h2, _, h4⟩ := hresid e he
      rw [← h4]; exact h2
  · intro e he
    obtain ⟨d, _, _, h3, h4⟩ := hresid e he
    rw [← h4]; exact h3
  · intro e he
    obtain ⟨d, h1, _⟩ := hpairs e he
    exact ⟨d, h1⟩

/-- **One round of `ffDfs` is an `augPath` step along a `validPath`** of the spec layer: the update of
`G_f` and `flow` along the path found by `dfs_path` succeeds (no `KeyError`), the new state represents
`augPath f path c`, which is again a flow, of value larger by `c ≥ 1`. -/
theorem round_step (N : Net) (hwf : N.WF') (Gf : Graph) (fl : FlowDict) (f : Flow) (h : Repr N Gf fl f)
    (hf : IsFlow N.verts.toFinset N.cap N.s N.t f) (fuel : Nat) (path : List Int) (c : Int)
    (hs : (dfsPath Gf N.t fuel N.s (vis0 Gf N.s)).1 = some (path, c)) :
    validPath N f path = true ∧ 1 ≤ c ∧
    ∃ g fl', augment path c (Gf, fl) = .ok (g, fl') ∧ g.length = Gf.length ∧
      Repr N g fl' (augPath f path c) ∧ IsFlow N.verts.toFinset N.cap N.s N.t (augPath f path c) ∧
      flowValue N.verts.toFinset N.s (augPath f path c) = flowValue N.verts.toFinset N.s f + c := by
  obtain ⟨hvalid, hpos, _, hle, hent, _⟩ := round_path N hwf Gf fl f h fuel path c hs
  obtain ⟨hnd, hhead, hlast, hV, _⟩ := FlowTotal.validPath_spec N f path hvalid
  obtain ⟨g, fl', haug, hlen, hrep⟩ := augment_ok N c path Gf fl f h hnd hent
  have := augPath_isFlow N.verts.toFinset N.cap N.s N.t f hf path hnd
    (fun v hv => List.mem_toFinset.mpr (hV v hv)) hhead hlast hwf.s_ne_t c (Int.le_of_lt hpos)
    (fun e he => hle e he)
  exact ⟨hvalid, hpos, g, fl', haug, hlen, hrep, this.1, this.2⟩

/-! ### `reachable_vertices` -/

theorem reachLoop_spec (Gf : Graph) :
    ∀ (k : Nat) (fr ans S : List Int), reachLoop Gf k fr ans = some S →
      (∀ u ∈ ans, ClosedAt Gf u (ans ++ fr)) →
      (∀ x ∈ ans, x ∈ S) ∧ (∀ x ∈ fr, x ∈ S) ∧ (∀ u ∈ S, ClosedAt Gf u S) ∧
      (∀ x ∈ S, x ∈ ans ∨ ∃ y ∈ fr, Reach Gf y x) := by
  intro k
  induction k with
  | zero => intro fr ans S h; simp [reachLoop] at h
  | succ k ih =>
    intro fr ans S h hcl
    cases fr with
    | nil =>
      simp only [reachLoop, Option.some.injEq] at h
      subst h
      refine ⟨fun x hx => hx, fun x hx => by simp at hx, ?_, fun x hx => Or.inl hx⟩
      intro u hu v c hm hc
      have := hcl u hu v c hm hc
      simpa using this
    | cons x fr =>
      simp only [reachLoop] at h
      by_cases hx : ans.contains x = true
      · rw [if_pos hx] at h
        have hxa : x ∈ ans := List.contains_iff_mem.mp hx
        obtain ⟨h1, h2, h3, h4⟩ := ih fr ans S h (by
          intro u hu v c hm hc
          have := hcl u hu v c hm hc
          simp only [List.mem_append, List.mem_cons] at this ⊢
          rcases this with h | rfl | h
          · exact Or.inl h
          · exact Or.inl hxa
          · exact Or.inr h)
        refine ⟨h1, ?_, h3, ?_⟩
        · intro y hy
          rcases List.mem_cons.mp hy with rfl | hy
          · exact h1 _ hxa
          · exact h2 y hy
        · intro y hy
          rcases h4 y hy with h | ⟨z, hz, hr⟩
          · exact Or.inl h
          · exact Or.inr ⟨z, List.mem_cons_of_mem _ hz, hr⟩
      · rw [if_neg hx] at h
        have hnb : ∀ v c, (v, c) ∈ adj Gf x → 0 < c →
            v ∈ ((adj Gf x).filter (fun e => decide (0 < e.2))).map (·.1) := by
          intro v c hm hc
          exact List.mem_map.mpr ⟨(v, c), List.mem_filter.mpr ⟨hm, by simpa using hc⟩, rfl⟩
        obtain ⟨h1, h2, h3, h4⟩ := ih _ _ S h (by
          intro u hu v c hm hc
          simp only [List.mem_append, List.mem_cons]
          rcases List.mem_cons.mp hu with rfl | hu
          · exact Or.inr (Or.inl (hnb v c hm hc))
          · have := hcl u hu v c hm hc
            simp only [List.mem_append, List.mem_cons] at this
            rcases this with h | rfl | h
            · exact Or.inl (Or.inr h)
            · exact Or.inl (Or.inl rfl)
            · exact Or.inr (Or.inr h))
        refine ⟨fun y hy => h1 y (List.mem_cons_of_mem _ hy), ?_, h3, ?_⟩
        · intro y hy
          rcases List.mem_cons.mp hy with rfl | hy
          · exact h1 _ List.mem_cons_self
          · exact h2 y (List.mem_append_right _ hy)
        · intro y hy
          rcases h4 y hy with h | ⟨z, hz, hr⟩
          · rcases List.mem_cons.mp h with rfl | h
            · exact Or.inr ⟨y, List.mem_cons_self, Reach.refl _⟩
            · exact Or.inl h
          · rcases List.mem_append.mp hz with hz | hz
            · obtain ⟨e, he, rfl⟩ := List.mem_map.mp hz
              obtain ⟨he1, he2⟩ := List.mem_filter.mp he
              have hpos : 0 < e.2 := by simpa using he2
              exact Or.inr ⟨x, List.mem_cons_self, Reach.step (c := e.2) he1 hpos hr⟩
            · exact Or.inr ⟨z, List.mem_cons_of_mem _ hz, hr⟩

/-- the answer of `reachable_vertices(G_f, s)` is exactly the set of vertices reachable from `s` along
entries of positive capacity -/
theorem reachable_spec (Gf : Graph) (s : Int) (S : List Int) (h : reachable Gf s = some S) :
    s ∈ S ∧ (∀ u ∈ S, ClosedAt Gf u S) ∧ (∀ x ∈ S, Reach Gf s x) := by
  obtain ⟨_, h2, h3, h4⟩ := reachLoop_spec Gf _ [s] [] S h (fun u hu => by simp at hu)
  refine ⟨h2 s (by simp), h3, ?_⟩
  intro x hx
  rcases h4 x hx with h | ⟨y, hy, hr⟩
  · simp at h
  · simp only [List.mem_singleton] at hy
    subst hy; exact hr

theorem Reach.closed {Gf : Graph} {S : List Int} (hcl : ∀ u ∈ S, ClosedAt Gf u S) {u w : Int}
    (h : Reach Gf u w) : u ∈ S → w ∈ S := by
  induction h with
  | refl u => exact fun h => h
  | step hm hc _ ih => exact fun hu => ih (hcl _ hu _ _ hm hc)

/-! ### `flow_final` -/

theorem finalFlow_ok (fl : FlowDict) (hnd : (fl.map (·.1)).Nodup) (f : Flow)
    (hval : ∀ u v x, ((u, v), x) ∈ fl → x = f u v) :
    ∀ (ks : List (Int × Int)) (acc : FlowDict), (∀ k ∈ ks, k ∈ fl.map (·.1)) →
      (acc.map (·.1) ++ ks).Nodup →
      finalFlow fl ks acc = .ok (acc ++ ks.map (fun k => (k, f k.1 k.2))) := by
  intro ks
  induction ks with
  | nil => intro acc _ _; simp [finalFlow]
  | cons k ks ih =>
    intro acc hk hn
    obtain ⟨e, he, hek⟩ := List.mem_map.mp (hk k List.mem_cons_self)
    have hx : e.2 = f k.1 k.2 := hval k.1 k.2 e.2 (by rw [← hek]; exact he)
    have hget : dget? fl k = some (f k.1 k.2) := by
      rw [← hx]
      exact dget?_of_mem hnd (by rw [← hek]; exact he)
    have hnk : k ∉ acc.map (·.1) := by
      intro hm
      exact (List.nodup_append.mp hn).2.2 k hm k List.mem_cons_self rfl
    simp only [finalFlow, hget]
    rw [dset_of_not_mem acc k _ hnk]
    rw [ih (acc ++ [(k, f k.1 k.2)]) (fun k' hk' => hk k' (List.mem_cons_of_mem _ hk')) (by
      simp only [List.map_append, List.map_cons, List.map_nil, List.append_assoc, List.singleton_append]
      exact hn)]
    simp

theorem nodup_edgePairs (G : Graph) (hk : (keys G).Nodup) (ha : ∀ e ∈ G, (e.2.map (·.1)).Nodup) :
    (edgePairs G).Nodup := by
  induction G with
  | nil => simp [edgePairs]
  | cons e G ih =>
    simp only [keys, List.map_cons, List.nodup_cons] at hk
    simp only [edgePairs, List.flatMap_cons]
    rw [List.nodup_append]
    refine ⟨?_, ih hk.2 (fun e' he' => ha e' (List.mem_cons_of_mem _ he')), ?_⟩
    · have : e.2.map (fun a => (e.1, a.1)) = (e.2.map (·.1)).map (fun x => (e.1, x)) := by
        rw [List.map_map]; rfl
      rw [this]
      exact (ha e List.mem_cons_self).map (fun x y hxy => by simpa using hxy)
    · intro a ha' b hb hab
      subst hab
      obtain ⟨x, _, rfl⟩ := List.mem_map.mp ha'
      simp only [List.mem_flatMap, List.mem_map] at hb
      obtain ⟨e', he', y, _, heq⟩ := hb
      simp only [Prod.mk.injEq] at heq
      apply hk.1
      rw [← heq.1]
      exact List.mem_map.mpr ⟨e', he', rfl⟩

theorem nodup_edgePairs_netToG (N : Net) (hwf : N.WF') : (edgePairs (netToG N)).Nodup := by
  apply nodup_edgePairs
  · rw [keys_netToG]; exact hwf.nodup
  · intro e he
    have hnd := nodup_adj_netToG N hwf e.1
    simp only [netToG, List.mem_map] at he
    obtain ⟨u, hu, rfl⟩ := he
    rw [adj_netToG, if_pos hu] at hnd
    exact hnd

theorem mem_edgePairs_netToG (N : Net) (hwf : N.WF') (i j : Int) :
    (i, j) ∈ edgePairs (netToG N) ↔ ∃ k : Nat, (i, j, k) ∈ N.edges := by
  rw [mem_edgePairs _ (by rw [keys_netToG]; exact hwf.nodup)]
  constructor
  · rintro ⟨c, hc⟩
    obtain ⟨_, k, h2, _⟩ := (mem_adj_netToG N i j c).mp hc
    exact ⟨k, h2⟩
  · rintro ⟨k, h2⟩
    exact ⟨k, (mem_adj_netToG N i j k).mpr ⟨(hwf.edge_mem _ h2).1, k, h2, rfl⟩⟩

/-! ### the dict denotes the represented flow -/

theorem entryVal_map (f : Flow) (L : List (Int × Int)) (u v : Int) :
    entryVal (L.map (fun k => (k.1, k.2, f k.1 k.2))) u v = if (u, v) ∈ L then some (f u v) else none := by
  induction L with
  | nil => simp [entryVal]
  | cons k L ih =>
    unfold entryVal at ih ⊢
    rw [List.map_cons, List.find?_cons]
    by_cases hk : k = (u, v)
    · subst hk; simp
    · have : ((k.1 == u) && (k.2 == v)) = false := by
        rw [Bool.and_eq_false_iff]
        by_contra hcon
        simp only [not_or, Bool.not_eq_false, beq_iff_eq] at hcon
        exact hk (Prod.ext hcon.1 hcon.2)
      simp only [this]
      rw [ih]
      have hne : ¬ (u, v) = k := fun h => hk h.symm
      simp [hne]

theorem flowOf_repr (N : Net) (hwf : N.WF') (Gf : Graph) (fl : FlowDict) (f : Flow) (h : Repr N Gf fl f)
    (hskew : ∀ u v, f u v = - f v u) :
    flowOf ((edgePairs (netToG N)).map (fun k => (k.1, k.2, f k.1 k.2))) = f := by
  funext u v
  unfold flowOf
  rw [entryVal_map, entryVal_map]
  by_cases h1 : (u, v) ∈ edgePairs (netToG N)
  · rw [if_pos h1]
  · rw [if_neg h1]
    by_cases h2 : (v, u) ∈ edgePairs (netToG N)
    · rw [if_pos h2]; simp only; rw [hskew u v]
    · rw [if_neg h2]
      simp only
      have hno : ∀ c, (v, c) ∉ adj Gf u := by
        intro c hc
        rcases h.entEdge u v c hc with ⟨k, hk⟩ | ⟨k, hk⟩
        · exact h1 ((mem_edgePairs_netToG N hwf u v).mpr ⟨k, hk⟩)
        · exact h2 ((mem_edgePairs_netToG N hwf v u).mpr ⟨k, hk⟩)
      exact (h.noEnt u v hno).2.symm

/-! ### the loop -/

/-- what the result of `ffDfs` satisfies, in terms of the represented flow `f` -/
structure Final (N : Net) (ff : FlowDict) (S : List Int) (paths : List (List Int × Int)) (f : Flow) : Prop where
  isFlow : IsFlow N.verts.toFinset N.cap N.s N.t f
  dict : toTriples ff = (edgePairs (netToG N)).map (fun k => (k.1, k.2, f k.1 k.2))
  denote : flowOf (toTriples ff) = f
  s_mem : N.s ∈ S
  t_not : N.t ∉ S
  sub : ∀ v ∈ S, v ∈ N.verts
  tight : flowValue N.verts.toFinset N.s f = cutCap N.verts.toFinset N.cap S.toFinset
  least : ∀ T : Finset Int, T ⊆ N.verts.toFinset → N.s ∈ T → N.t ∉ T →
    flowValue N.verts.toFinset N.s f = cutCap N.verts.toFinset N.cap T → ∀ v ∈ S, v ∈ T
  value : flowValue N.verts.toFinset N.s f = (paths.map (·.2)).sum
  paths : ∀ p ∈ paths, p.1.Nodup ∧ p.1.head? = some N.s ∧ p.1.getLast? = some N.t ∧
    (∀ v ∈ p.1, v ∈ N.verts) ∧ 1 ≤ p.2 ∧ p.2 ≤ maxsize

theorem ffLoop_correct (N : Net) (hwf : N.WF') :
    ∀ (k : Nat) (Gf : Graph) (fl : FlowDict) (acc : List (List Int × Int)) (f : Flow),
      Repr N Gf fl f → IsFlow N.verts.toFinset N.cap N.s N.t f →
      flowValue N.verts.toFinset N.s f = (acc.map (·.2)).sum →
      (∀ p ∈ acc, p.1.Nodup ∧ p.1.head? = some N.s ∧ p.1.getLast? = some N.t ∧
        (∀ v ∈ p.1, v ∈ N.verts) ∧ 1 ≤ p.2 ∧ p.2 ≤ maxsize) →
      ∀ ff S paths, ffLoop (netToG N) N.s N.t k (Gf, fl) acc = .ok (ff, S, paths) →
      ∃ f', Final N ff S paths f' := by
  intro k
  induction k with
  | zero => intro Gf fl acc f _ _ _ _ ff S paths h; simp [ffLoop] at h
  | succ k ih =>
    intro Gf fl acc f hrep hf hval hacc ff S paths h
    simp only [ffLoop] at h
    split at h
    · simp at h
    · rcases hd : (dfsPath Gf N.t (Gf.length + 1) N.s (vis0 Gf N.s)).1 with _ | ⟨path, c⟩
      · -- the search failed: final state
        rw [hd] at h
        simp only at h
        have hE := finalFlow_ok fl hrep.flNodup f hrep.flVal (edgePairs (netToG N)) []
          (by
            intro k hk
            obtain ⟨c, hc⟩ := (mem_edgePairs_netToG N hwf k.1 k.2).mp hk
            exact hrep.flEdge _ hc)
          (by simpa using nodup_edgePairs_netToG N hwf)
        rw [hE] at h
        simp only [List.nil_append] at h
        cases hreach : reachable Gf N.s with
        | none => rw [hreach] at h; simp at h
        | some S' =>
          rw [hreach] at h
          simp only [Except.ok.injEq, Prod.mk.injEq] at h
          obtain ⟨rfl, rfl, rfl⟩ := h
          obtain ⟨hs, hcl, hr⟩ := reachable_spec Gf N.s S' hreach
          have hsk : N.s ∈ keys Gf := by rw [hrep.keys]; exact hwf.s_mem
          rw [vis0_eq hsk] at hd
          have hnot := dfsPath_complete_top Gf N.s N.t hrep.nbrsKeys hd
          have ht : N.t ∉ S' := fun hm => hnot (hr _ hm)
          have hsub : ∀ v ∈ S', v ∈ N.verts := by
            intro v hv
            have key : ∀ u w, Reach Gf u w → u ∈ N.verts → w ∈ N.verts := by
              intro u w hr
              induction hr with
              | refl u => exact fun h => h
              | step hm _ _ ih => exact fun _ => ih (hrep.ent _ _ _ hm).1
            exact key _ _ (hr v hv) hwf.s_mem
          have hdict : toTriples (List.map (fun k => (k, f k.1 k.2)) (edgePairs (netToG N))) =
              (edgePairs (netToG N)).map (fun k => (k.1, k.2, f k.1 k.2)) := by
            simp [toTriples, List.map_map, Function.comp_def]
          refine ⟨f, hf, hdict, ?_, hs, ht, hsub, ?_, ?_, hval, hacc⟩
          · rw [hdict]; exact flowOf_repr N hwf Gf fl f hrep hf.skew
          rotate_left
          · intro T hTV hsT htT heq v hv
            have hsat := tight_saturated N.verts.toFinset N.cap N.s N.t f hf T hTV hsT htT heq
            have key : ∀ u w, Reach Gf u w → u ∈ T → w ∈ T := by
              intro u w hr
              induction hr with
              | refl u => exact fun h => h
              | @step u v c w hm hc _ ih =>
                intro hu
                apply ih
                by_contra hvT
                obtain ⟨hvV, hceq⟩ := hrep.ent u v c hm
                have := hsat u hu v (List.mem_toFinset.mpr hvV) hvT
                omega
            exact key _ _ (hr v hv) hsT
          · apply closed_cut_tight N.verts.toFinset N.cap N.s N.t f hf S'.toFinset
            · intro v hv; exact List.mem_toFinset.mpr (hsub v (List.mem_toFinset.mp hv))
            · exact List.mem_toFinset.mpr hs
            · intro hm; exact ht (List.mem_toFinset.mp hm)
            · intro u hu v _ hvS
              have hu' := List.mem_toFinset.mp hu
              have hvS' : v ∉ S' := fun hm => hvS (List.mem_toFinset.mpr hm)
              by_cases hex : ∃ c, (v, c) ∈ adj Gf u
              · obtain ⟨c, hc⟩ := hex
                rw [← (hrep.ent u v c hc).2]
                by_contra hpos
                exact hvS' (hcl u hu' v c hc (by omega))
              · have := hrep.noEnt u v (fun c hc => hex ⟨c, hc⟩)
                rw [this.1, this.2]; decide
      · -- an augmenting path was found
        rw [hd] at h
        simp only at h
        obtain ⟨hvalid, hc1, g, fl', haug, _, hrep', hf', hval'⟩ :=
          round_step N hwf Gf fl f hrep hf _ path c hd
        rw [haug] at h
        simp only at h
        obtain ⟨hnd, hhead, hlast, hV, _⟩ := FlowTotal.validPath_spec N f path hvalid
        have hle := (round_path N hwf Gf fl f hrep _ path c hd).2.2.1
        refine ih g fl' (acc ++ [(path, c)]) _ hrep' hf' ?_ ?_ ff S paths h
        · rw [hval', hval]; simp
        · intro p hp
          rcases List.mem_append.mp hp with hp | hp
          · exact hacc p hp
          · simp only [List.mem_singleton] at hp
            subst hp
            exact ⟨hnd, hhead, hlast, hV, hc1, hle⟩

/-- **B3, partial correctness.**  Whatever `ffDfs` returns on a well-formed network: the flow dict lists the
edges in the dict order of the input, denotes (as net flows) a flow `f`, the returned set is an s–t cut
whose capacity equals the value of `f`, and the value is the sum of the capacities reported for the
augmenting paths, each of which is a duplicate-free s–t path. -/
theorem ffDfs_final (N : Net) (hwf : N.WF') (rounds : Nat) (ff : FlowDict) (S : List Int)
    (paths : List (List Int × Int)) (h : ffDfs (netToG N) N.s N.t rounds = .ok (ff, S, paths)) :
    Final N ff S paths (flowOf (toTriples ff)) := by
  obtain ⟨Gf, fl, hres, _, hrep⟩ := mkResidual_ok N hwf
  simp only [ffDfs, hres] at h
  obtain ⟨f', hfin⟩ := ffLoop_correct N hwf rounds Gf fl [] _ hrep (zero_isFlow N)
    (by simp [flowValue]) (by simp) ff S paths h
  rw [hfin.denote]; exact hfin

end Dfs
