import Sck.Proofs.EatIncomplete2

/-! C07 (incomplete profiles), part 3: the positive result (an agent that always still has an acceptable item
never touches an unacceptable one) and the negative ones (Hall-type counting argument, best-item argument). -/

open Finset

namespace Eat

variable {n : Nat} {P : List (List (Option Nat))} {speeds : List Rat}

/-! ### the positive result -/

/-- during one correct event, an agent that is full or still has a non-exhausted acceptable item does not
eat an unacceptable item -/
theorem evAmt_unacc_zero (hwf : EatIncWf n P speeds) {A : Nat → Nat → ℚ} {ev : Event}
    (hev : EventOK n (completeFirst P) speeds A ev) {i j : Nat} (hi : i < n) (hj : j < n)
    (hun : unacc P i j = true)
    (hcond : ∑ j' ∈ range n, A i j' = 1 ∨
      ∃ j1 < n, unacc P i j1 = false ∧ ∑ i' ∈ range n, A i' j1 < 1) :
    evAmt speeds ev i j = 0 := by
  unfold evAmt
  split
  · next hc =>
    exfalso
    by_cases hlt : ∑ j' ∈ range n, A i j' < 1
    · obtain ⟨j0, _, hc0, _, hbest, _⟩ := hev.hungry i hi hlt
      rw [hc] at hc0
      cases hc0
      rcases hcond with hfull | ⟨j1, hj1, hacc, hrem⟩
      · rw [hfull] at hlt; exact lt_irrefl _ hlt
      · have := hbest j1 hj1 (rk_acc_lt_unacc hwf hi hj1 hj hacc hun)
        rw [this] at hrem
        exact lt_irrefl _ hrem
    · have := hev.full i hi hlt
      rw [hc] at this
      cases this
  · rfl

theorem amt_eq_zero_of_forall (evs : List Event) (i j : Nat)
    (h : ∀ k (hk : k < evs.length), evAmt speeds evs[k] i j = 0) : amt speeds evs i j = 0 := by
  induction evs with
  | nil => rfl
  | cons e evs ih =>
    have h0 : evAmt speeds e i j = 0 := h 0 (Nat.zero_lt_succ _)
    rw [amt_cons, h0, zero_add]
    apply ih
    intro k hk
    exact h (k + 1) (Nat.succ_lt_succ hk)

/-- **Positive result.** If at the beginning of every event agent `i` is already full or still has an
acceptable item that is not exhausted, then `i` receives nothing of any item it marked unacceptable. -/
theorem eatInc_acceptable_partial (hwf : EatIncWf n P speeds) {X : List (List Rat)} {log : List Event}
    (h : eatIncLog n P speeds = some (X, log)) {i : Nat} (hi : i < n)
    (hcond : ∀ k < log.length,
      ∑ j' ∈ range n, amt speeds (log.take k) i j' = 1 ∨
      ∃ j1 < n, unacc P i j1 = false ∧ ∑ i' ∈ range n, amt speeds (log.take k) i' j1 < 1) :
    ∀ j < n, unacc P i j = true → mget X i j = 0 := by
  obtain ⟨X', log', h', _, _, _, _, _, hamt, htr⟩ := eatIncLog_spec hwf
  rw [h] at h'
  cases h'
  intro j hj hun
  rw [hamt i hi j hj]
  apply amt_eq_zero_of_forall
  intro k hk
  have hev := htr.take log k hk
  simp only [zero_add] at hev
  exact evAmt_unacc_zero hwf hev hi hj hun (hcond k hk)

/-- trace-level characterisation: agent `i` gets nothing of item `j` iff every event during which `i` eats
`j` has duration `0` -/
theorem eatInc_zero_iff_trace (hwf : EatIncWf n P speeds) {X : List (List Rat)} {log : List Event}
    (h : eatIncLog n P speeds = some (X, log)) {i j : Nat} (hi : i < n) (hj : j < n) :
    mget X i j = 0 ↔ ∀ ev ∈ log, lk ev.cur i = some j → ev.t = 0 := by
  obtain ⟨X', log', h', _, _, _, _, _, hamt, htr⟩ := eatIncLog_spec hwf
  rw [h] at h'
  cases h'
  rw [hamt i hi j hj]
  exact amt_eq_zero_iff log (htr.t_nonneg log) (spd_pos_inc hwf i hi) j

/-! ### the negative results -/

/-- **Counting argument.** In ANY matrix with nonnegative entries and all row and column sums `1`: if the
agents of `S` only accept items of `T` and `|T| < |S|`, some agent of `S` has a positive share of an item
outside `T`. -/
theorem hall_violation_share (X : Nat → Nat → ℚ) (hnn : ∀ i < n, ∀ j < n, 0 ≤ X i j)
    (hrow : ∀ i < n, ∑ j ∈ range n, X i j = 1) (hcol : ∀ j < n, ∑ i ∈ range n, X i j = 1)
    (S T : Finset Nat) (hS : S ⊆ range n) (hT : T ⊆ range n) (hcard : T.card < S.card) :
    ∃ i ∈ S, ∃ j ∈ range n \ T, 0 < X i j := by
  by_contra hcon
  have hzero : ∀ i ∈ S, ∀ j ∈ range n \ T, X i j = 0 := by
    intro i hi j hj
    have hle : X i j ≤ 0 := by
      by_contra hpos
      exact hcon ⟨i, hi, j, hj, lt_of_not_ge hpos⟩
    have hj' := (Finset.mem_sdiff.mp hj).1
    exact le_antisymm hle (hnn i (Finset.mem_range.mp (hS hi)) j (Finset.mem_range.mp hj'))
  -- every row of `S` has its whole unit inside `T`
  have hrowT : ∀ i ∈ S, ∑ j ∈ T, X i j = 1 := by
    intro i hi
    rw [← hrow i (Finset.mem_range.mp (hS hi)), ← Finset.sum_sdiff hT,
      Finset.sum_eq_zero (hzero i hi), zero_add]
  have h1 : ∑ i ∈ S, ∑ j ∈ T, X i j = S.card := by
    rw [Finset.sum_congr rfl hrowT]; simp
  have h2 : ∑ i ∈ S, ∑ j ∈ T, X i j ≤ T.card := by
    rw [Finset.sum_comm]
    have : ∀ j ∈ T, ∑ i ∈ S, X i j ≤ 1 := by
      intro j hj
      have hjn := Finset.mem_range.mp (hT hj)
      rw [← hcol j hjn]
      exact Finset.sum_le_sum_of_subset_of_nonneg hS
        (fun i hi _ => hnn i (Finset.mem_range.mp hi) j hjn)
    calc ∑ j ∈ T, ∑ i ∈ S, X i j ≤ ∑ j ∈ T, (1 : ℚ) := Finset.sum_le_sum this
      _ = T.card := by simp
  have : (S.card : ℚ) ≤ T.card := by rw [← h1]; exact h2
  have : S.card ≤ T.card := by exact_mod_cast this
  omega

/-- **Unavoidable (Hall-type).** If a set `S` of agents accepts only items of a set `T` with fewer elements,
the eating matrix gives some agent of `S` a positive share of an item it marked unacceptable — and so would any
other bistochastic matrix. -/
theorem eatInc_unavoidable_hall (hwf : EatIncWf n P speeds) {X : List (List Rat)}
    (h : eatInc n P speeds = some X) (S T : Finset Nat) (hS : S ⊆ range n) (hT : T ⊆ range n)
    (hcard : T.card < S.card) (hacc : ∀ i ∈ S, ∀ j < n, unacc P i j = false → j ∈ T) :
    ∃ i ∈ S, ∃ j < n, unacc P i j = true ∧ 0 < mget X i j := by
  obtain ⟨X', log', _, h', _, hnn, hrow, hcol, _, _⟩ := eatIncLog_spec hwf
  rw [h] at h'
  cases h'
  obtain ⟨i, hi, j, hj, hpos⟩ :=
    hall_violation_share (fun i j => mget X i j) hnn hrow hcol S T hS hT hcard
  obtain ⟨hjn, hjT⟩ := Finset.mem_sdiff.mp hj
  have hjn' := Finset.mem_range.mp hjn
  refine ⟨i, hi, j, hjn', ?_, hpos⟩
  cases hu : unacc P i j with
  | true => rfl
  | false => exact absurd (hacc i hi j hjn' hu) hjT

/-- in a well-formed complete row different items have different ranks -/
theorem rk_inj {Pc : List (List Nat)} (hw : EatWf n Pc speeds) {i j j' : Nat} (hi : i < n) (hj : j < n) (hj' : j' < n)
    (h : rk Pc i j = rk Pc i j') : j = j' := by
  have hi' : i < Pc.length := by rw [hw.plen]; exact hi
  have hPi : Pc.getD i [] = Pc[i] := by simp [hi']
  obtain ⟨hlen, hcont⟩ := hw.rows _ (List.getElem_mem hi')
  have hnd := nodup_of_wf_row Pc[i] hlen hcont
  unfold rk at h
  rw [hPi] at h
  have hjl : j < Pc[i].length := by rw [hlen]; exact hj
  have hjl' : j' < Pc[i].length := by rw [hlen]; exact hj'
  have : Pc[i][j] = Pc[i][j'] := by simpa [hjl, hjl'] using h
  exact (List.getElem_inj hnd).mp this

/-- along a trace that starts with nothing eaten, every agent gets a positive amount of its best item -/
theorem top_choice_of_trace {Pc : List (List Nat)} (hw : EatWf n Pc speeds) {i j : Nat} (hi : i < n)
    (hj : j < n) (hbest : ∀ j' < n, rk Pc i j ≤ rk Pc i j') (evs : List Event) :
    ∀ X : Nat → Nat → ℚ, (∀ a < n, ∀ b < n, X a b = 0) → TraceFrom n Pc speeds X evs →
      0 < amt speeds evs i j := by
  have hs := spd_pos_of_wf hw
  induction evs with
  | nil =>
    intro X hX h
    have := h i hi
    rw [Finset.sum_eq_zero (fun b hb => hX i hi b (Finset.mem_range.mp hb))] at this
    exact absurd this (by norm_num)
  | cons ev evs ih =>
    intro X hX h
    obtain ⟨hev, htr⟩ := h
    have hrow0 : ∑ b ∈ range n, X i b = 0 :=
      Finset.sum_eq_zero (fun b hb => hX i hi b (Finset.mem_range.mp hb))
    obtain ⟨j0, hj0, hc0, _, hb0, _⟩ := hev.hungry i hi (by rw [hrow0]; norm_num)
    have hjj : j0 = j := by
      have hle : rk Pc i j0 ≤ rk Pc i j := by
        by_contra hgt
        have := hb0 j hj (by omega)
        rw [Finset.sum_eq_zero (fun a ha => hX a (Finset.mem_range.mp ha) j hj)] at this
        exact absurd this (by norm_num)
      exact rk_inj hw hi hj0 hj (Nat.le_antisymm hle (hbest j0 hj0))
    subst hjj
    have hrest : 0 ≤ amt speeds evs i j0 :=
      amt_nonneg evs (htr.t_nonneg evs) (le_of_lt (hs i hi)) j0
    rw [amt_cons]
    rcases lt_or_eq_of_le hev.t_nonneg with hpos | hzero
    · have : evAmt speeds ev i j0 = ev.t * spd speeds i := by unfold evAmt; rw [if_pos hc0]
      rw [this]
      have := mul_pos hpos (hs i hi)
      linarith
    · have hX' : ∀ a < n, ∀ b < n, X a b + evAmt speeds ev a b = 0 := by
        intro a ha b hb
        rw [hX a ha b hb, zero_add]
        unfold evAmt
        split
        · rw [← hzero, zero_mul]
        · rfl
      have := ih _ hX' htr
      have h0 := evAmt_nonneg (speeds := speeds) hev.t_nonneg (le_of_lt (hs i hi)) j0
      linarith

/-- **Best acceptable item.** Every agent that accepts at least one item gets a positive share of its
best-ranked acceptable item. -/
theorem eatInc_best_positive (hwf : EatIncWf n P speeds) {X : List (List Rat)}
    (h : eatInc n P speeds = some X) {k j r : Nat} (hk : k < n) (hj : j < n)
    (hr : prefRank P k j = some r) (hbest : ∀ j' < n, ∀ r', prefRank P k j' = some r' → r ≤ r') :
    0 < mget X k j := by
  obtain ⟨X', log', _, h', _, _, _, _, hamt, htr⟩ := eatIncLog_spec hwf
  rw [h] at h'
  cases h'
  rw [hamt k hk j hj]
  refine top_choice_of_trace (eatWf_completeFirst hwf) hk hj ?_ log' _ (fun _ _ _ _ => rfl) htr
  intro j' hj'
  cases hr' : prefRank P k j' with
  | none =>
    have hu : unacc P k j' = true := by unfold unacc; rw [hr']; rfl
    have ha : unacc P k j = false := by unfold unacc; rw [hr]; rfl
    exact le_of_lt (rk_acc_lt_unacc hwf hk hj hj' ha hu)
  | some r' =>
    have := hbest j' hj' r' hr'
    by_contra hgt
    have := (rk_acc_lt_iff hwf hk hj' hj hr' hr).mp (by omega)
    omega

/-- **Unavoidable (shared single item).** If agent `i` accepts only item `j` and `j` is also the best
acceptable item of another agent `k`, then `i` gets a positive share of an item it marked unacceptable. -/
theorem eatInc_unavoidable_shared (hwf : EatIncWf n P speeds) {X : List (List Rat)}
    (h : eatInc n P speeds = some X) {i k j r : Nat} (hi : i < n) (hk : k < n) (hj : j < n) (hik : i ≠ k)
    (honly : ∀ j' < n, j' ≠ j → unacc P i j' = true)
    (hr : prefRank P k j = some r) (hbest : ∀ j' < n, ∀ r', prefRank P k j' = some r' → r ≤ r') :
    ∃ j' < n, unacc P i j' = true ∧ 0 < mget X i j' := by
  have hkpos := eatInc_best_positive hwf h hk hj hr hbest
  obtain ⟨X', log', _, h', _, hnn, hrow, hcol, _, _⟩ := eatIncLog_spec hwf
  rw [h] at h'
  cases h'
  -- the column of `j`: agent `i` gets less than one unit of it
  have hcolj := hcol j hj
  have hsub : ({i, k} : Finset Nat) ⊆ range n := by
    intro a ha
    rcases Finset.mem_insert.mp ha with rfl | ha'
    · exact Finset.mem_range.mpr hi
    · rw [Finset.mem_singleton.mp ha']; exact Finset.mem_range.mpr hk
  have hle : ∑ a ∈ ({i, k} : Finset Nat), mget X a j ≤ ∑ a ∈ range n, mget X a j :=
    Finset.sum_le_sum_of_subset_of_nonneg hsub (fun a ha _ => hnn a (Finset.mem_range.mp ha) j hj)
  rw [Finset.sum_pair hik, hcolj] at hle
  have hilt : mget X i j < 1 := by linarith
  -- the row of `i`
  have hrowi := hrow i hi
  rw [← Finset.add_sum_erase (range n) _ (Finset.mem_range.mpr hj)] at hrowi
  have hpos : 0 < ∑ j' ∈ (range n).erase j, mget X i j' := by linarith
  obtain ⟨j', hj'm, hj'pos⟩ := Finset.exists_lt_of_sum_lt (f := fun _ => (0 : ℚ))
    (by simpa using hpos)
  obtain ⟨hne, hj'n⟩ := Finset.mem_erase.mp hj'm
  exact ⟨j', Finset.mem_range.mp hj'n, honly j' (Finset.mem_range.mp hj'n) hne, hj'pos⟩

end Eat
