import Sck.Proofs.ProfileBase

/-! C18 part C: `incomplete_profile_to_complete_profile` (one row). -/

theorem mem_nanPositions {α : Type} (row : List (Option α)) (j : Nat) :
    j ∈ nanPositions row ↔ row[j]? = some none := by
  unfold nanPositions
  simp only [List.mem_filter, List.mem_range, Option.isNone_iff_eq_none, valAt_eq_none]
  constructor
  · rintro ⟨h1, h2 | h2⟩
    · exact h2
    · omega
  · intro h
    exact ⟨(List.getElem?_eq_some_iff.1 h).1, Or.inl h⟩

theorem nodup_nanPositions {α : Type} (row : List (Option α)) : (nanPositions row).Nodup :=
  List.nodup_range.filter _

theorem length_nanPositions_le {α : Type} (row : List (Option α)) :
    (nanPositions row).length ≤ row.length := by
  unfold nanPositions
  exact (List.length_filter_le _ _).trans (by simp)

theorem map_idxOf_self (l : List Nat) (hnd : l.Nodup) :
    l.map (fun j => l.idxOf j) = List.range l.length := by
  apply List.ext_getElem
  · simp
  · intro i h1 h2
    simp only [List.getElem_map, List.getElem_range]
    exact hnd.idxOf_getElem i _

theorem map_idx_block (l : List Nat) (hnd : l.Nodup) (base : Nat) :
    l.map (fun j => some (base + l.idxOf j)) = (List.range' base l.length).map some := by
  have : l.map (fun j => some (base + l.idxOf j)) =
      (l.map (fun j => l.idxOf j)).map (fun t => some (base + t)) := by
    rw [List.map_map]; rfl
  rw [this, map_idxOf_self l hnd, List.range'_eq_map_range, List.map_map]
  rfl

theorem length_completeWith (row : List (Option Nat)) (mode : Nat) (no : List Nat) :
    (completeWith row mode no).length = row.length := by
  simp [completeWith]

theorem getElem?_completeWith_some (row : List (Option Nat)) (mode : Nat) (no : List Nat) (j r : Nat)
    (hj : row[j]? = some (some r)) : (completeWith row mode no)[j]? = some (some r) := by
  have hlt : j < row.length := (List.getElem?_eq_some_iff.1 hj).1
  have hv := valAt_of_getElem? row j _ hj
  simp [completeWith, hlt, hv]

theorem getElem?_completeWith_none (row : List (Option Nat)) (mode : Nat) (no : List Nat) (j : Nat)
    (hj : row[j]? = some none) :
    (completeWith row mode no)[j]? = some
      (if mode = 0 then some (row.length - (nanPositions row).length + 1)
       else some (row.length - (nanPositions row).length + 1 +
         (if mode = 1 then nanPositions row else no).idxOf j)) := by
  have hlt : j < row.length := (List.getElem?_eq_some_iff.1 hj).1
  have hv := valAt_of_getElem? row j _ hj
  simp [completeWith, hlt, hv]

/-- the entries of the model output at the NaN positions -/
theorem got_completeWith (row : List (Option Nat)) (mode : Nat) (no : List Nat) :
    (nanPositions row).map (valAt (completeWith row mode no)) =
    (nanPositions row).map (fun j =>
      if mode = 0 then some (row.length - (nanPositions row).length + 1)
      else some (row.length - (nanPositions row).length + 1 +
        (if mode = 1 then nanPositions row else no).idxOf j)) := by
  apply List.map_congr_left
  intro j hj
  have h1 := (mem_nanPositions row j).1 hj
  exact valAt_of_getElem? _ _ _ (getElem?_completeWith_none row mode no j h1)

/-- the model's output is accepted by the checker (`accept`, `first`, and `random` with any
permutation of the NaN positions as shuffle outcome) -/
theorem completeWith_ok (row : List (Option Nat)) (mode : Nat) (nanOrder : List Nat)
    (h : mode = 0 ∨ mode = 1 ∨ validNanOrder row nanOrder = true) :
    completeOkB row (completeWith row mode nanOrder) mode = true := by
  unfold completeOkB
  simp only [Bool.and_eq_true, beq_iff_eq, List.all_eq_true]
  refine ⟨⟨length_completeWith _ _ _, ?_⟩, ?_⟩
  · intro p hp
    obtain ⟨j, h1, h2⟩ := getElem?_of_mem_zip _ _ p hp
    cases hp1 : p.1 with
    | none => trivial
    | some r =>
      rw [hp1] at h1
      rw [getElem?_completeWith_some row mode nanOrder j r h1] at h2
      simpa using (Option.some.inj h2).symm
  · rw [got_completeWith]
    by_cases h0 : mode = 0
    · subst h0
      simp
    · by_cases h1 : mode = 1
      · subst h1
        have := map_idx_block (nanPositions row) (nodup_nanPositions row)
          (row.length - (nanPositions row).length + 1)
        simp only [if_neg h0, if_true]
        rw [this]
        exact beq_self_eq_true _
      · have hv : validNanOrder row nanOrder = true := by
          rcases h with h | h | h
          · exact absurd h h0
          · exact absurd h h1
          · exact h
        unfold validNanOrder at hv
        rw [List.isPerm_iff] at hv
        simp only [if_neg h0, if_neg h1, List.isPerm_iff]
        have hnd : nanOrder.Nodup := (hv.nodup_iff).2 (nodup_nanPositions row)
        have := map_idx_block nanOrder hnd (row.length - (nanPositions row).length + 1)
        rw [hv.length_eq] at this
        rw [← this]
        exact (hv.map _).symm

/-- what acceptance by `completeOkB` means. `m - k + 1 ..  m` is the block of the missing
alternatives (`m` = number of alternatives, `k` = number of NaNs). -/
theorem completeOkB_spec (row out : List (Option Nat)) (mode : Nat)
    (h : completeOkB row out mode = true) :
    out.length = row.length ∧
    (∀ (j r : Nat), row[j]? = some (some r) → out[j]? = some (some r)) ∧
    (∀ j : Nat, row[j]? = some none → ∃ s, out[j]? = some (some s) ∧
      row.length - (nanPositions row).length + 1 ≤ s ∧ s ≤ row.length) ∧
    (mode = 0 → ∀ j : Nat, row[j]? = some none →
      out[j]? = some (some (row.length - (nanPositions row).length + 1))) ∧
    (mode = 1 → ∀ (t : Nat) (ht : t < (nanPositions row).length),
      out[(nanPositions row)[t]]? = some (some (row.length - (nanPositions row).length + 1 + t))) ∧
    (mode ≠ 0 → ((nanPositions row).map (valAt out)).Perm
      ((List.range' (row.length - (nanPositions row).length + 1) (nanPositions row).length).map some)) := by
  unfold completeOkB at h
  simp only [Bool.and_eq_true, beq_iff_eq, List.all_eq_true] at h
  obtain ⟨⟨hlen, hkeep⟩, hmode⟩ := h
  have hk := length_nanPositions_le row
  have hm0' : mode = 0 → ∀ x ∈ (nanPositions row).map (valAt out),
      x = some (row.length - (nanPositions row).length + 1) := by
    intro h0
    rw [if_pos h0] at hmode
    simpa only [List.all_eq_true, beq_iff_eq] using hmode
  have hm1' : mode = 1 → (nanPositions row).map (valAt out) =
      (List.range' (row.length - (nanPositions row).length + 1) (nanPositions row).length).map some := by
    intro h1
    rw [if_neg (by omega), if_pos h1] at hmode
    simpa only [beq_iff_eq] using hmode
  have hm2' : mode ≠ 0 → mode ≠ 1 → ((nanPositions row).map (valAt out)).Perm
      ((List.range' (row.length - (nanPositions row).length + 1) (nanPositions row).length).map some) := by
    intro h0 h1
    rw [if_neg h0, if_neg h1] at hmode
    exact List.isPerm_iff.1 hmode
  have hget : ∀ j : Nat, row[j]? = some none → out[j]? = some (valAt out j) := by
    intro j hj
    have hlt : j < out.length := by rw [hlen]; exact (List.getElem?_eq_some_iff.1 hj).1
    rw [valAt_of_lt out j hlt, List.getElem?_eq_getElem hlt]
  -- every entry at a NaN position lies in the block
  have hblock : ∀ x ∈ (nanPositions row).map (valAt out), ∃ s, x = some s ∧
      row.length - (nanPositions row).length + 1 ≤ s ∧ s ≤ row.length := by
    intro x hx
    have hpos : 0 < (nanPositions row).length := by
      rw [List.mem_map] at hx
      obtain ⟨j, hj, _⟩ := hx
      exact List.length_pos_of_mem hj
    by_cases h0 : mode = 0
    · exact ⟨_, hm0' h0 x hx, Nat.le_refl _, by omega⟩
    · have hmem : x ∈ (List.range' (row.length - (nanPositions row).length + 1)
          (nanPositions row).length).map some := by
        by_cases h1 : mode = 1
        · rw [← hm1' h1]; exact hx
        · exact ((hm2' h0 h1).mem_iff).1 hx
      rw [List.mem_map] at hmem
      obtain ⟨s, hs, rfl⟩ := hmem
      rw [List.mem_range'_1] at hs
      exact ⟨s, rfl, hs.1, by omega⟩
  refine ⟨hlen, ?_, ?_, ?_, ?_, ?_⟩
  · intro j r hj
    have hlt : j < out.length := by rw [hlen]; exact (List.getElem?_eq_some_iff.1 hj).1
    have := hkeep _ (mem_zip_of_getElem? _ _ j _ _ hj (List.getElem?_eq_getElem hlt))
    simp only [beq_iff_eq] at this
    rw [List.getElem?_eq_getElem hlt, this]
  · intro j hj
    obtain ⟨s, hs, hb⟩ := hblock (valAt out j)
      (List.mem_map.2 ⟨j, (mem_nanPositions row j).2 hj, rfl⟩)
    exact ⟨s, by rw [hget j hj, hs], hb⟩
  · intro h0 j hj
    rw [hget j hj, hm0' h0 _ (List.mem_map.2 ⟨j, (mem_nanPositions row j).2 hj, rfl⟩)]
  · intro h1 t ht
    have hj := (mem_nanPositions row _).1 (List.getElem_mem ht)
    rw [hget _ hj]
    have h2 : ((nanPositions row).map (valAt out))[t]? =
        ((List.range' (row.length - (nanPositions row).length + 1)
          (nanPositions row).length).map some)[t]? := by rw [hm1' h1]
    simp only [List.getElem?_map, List.getElem?_eq_getElem ht, Option.map_some] at h2
    rw [List.getElem?_range' (by omega)] at h2
    simp only [Option.map_some] at h2
    rw [Option.some.inj h2]
    congr 2
    omega
  · intro h0
    by_cases h1 : mode = 1
    · rw [hm1' h1]
    · exact hm2' h0 h1

/-- with existing ranks ≤ m - k (well-formed incomplete row), the missing alternatives are ranked
strictly after every existing rank -/
theorem completeOkB_after (row out : List (Option Nat)) (mode : Nat)
    (h : completeOkB row out mode = true) (hwf : wfIncompleteB row = true)
    (i j r : Nat) (hi : row[i]? = some (some r)) (hj : row[j]? = some none) :
    ∃ s, out[j]? = some (some s) ∧ out[i]? = some (some r) ∧ r < s := by
  obtain ⟨_, hkeep, hmiss, _⟩ := completeOkB_spec row out mode h
  obtain ⟨s, hs, hb, _⟩ := hmiss j hj
  unfold wfIncompleteB at hwf
  rw [List.all_eq_true] at hwf
  have := hwf _ (List.mem_of_getElem? hi)
  simp only [decide_eq_true_eq] at this
  exact ⟨s, hs, hkeep i r hi, by omega⟩
