import Sck.Proofs.BruteSpec2
import Sck.Proofs.Irving
import Sck.Proofs.IrvingAlgo
import Mathlib.Algebra.BigOperators.Group.Finset.Basic

/-! Brute-force reference (C03/C17), part 3: matchings given as LISTS OF PAIRS (the form `Irving.scf` and its mirror
`IrvingAlgo.irving` return) versus the brute-force optimum `optStable`. -/

open Finset

namespace Brute

open Irving

/-- the partner function of a list of pairs (`n` if the man is absent) -/
def partner (n : Nat) (M : List Pair) (a : Nat) : Nat := ((M.find? (fun e => e.1 == a)).map (·.2)).getD n

/-- the list form `mu[a]` = woman of man `a` of a list of pairs -/
def muOfPairs (n : Nat) (M : List Pair) : List Nat := (List.range n).map (partner n M)

theorem partner_of_mem {n : Nat} {M : List Pair} (hnd : (M.map Prod.fst).Nodup) {p : Pair} (hp : p ∈ M) :
    partner n M p.1 = p.2 := by
  unfold partner
  cases hf : M.find? (fun e => e.1 == p.1) with
  | none =>
    have := List.find?_eq_none.mp hf p hp
    simp at this
  | some q =>
    have hq : q ∈ M := List.mem_of_find?_eq_some hf
    have hq1 : q.1 = p.1 := by simpa using List.find?_some hf
    have : q = p := List.inj_on_of_nodup_map hnd hq hp hq1
    simp [this]

theorem pairsOf_muOfPairs (n : Nat) (M : List Pair) :
    pairsOf (muOfPairs n M) = (List.range n).map (fun a => (a, partner n M a)) := by
  unfold pairsOf muOfPairs
  simp only [List.length_map, List.length_range]
  apply List.map_congr_left
  intro a ha
  have ha' : a < n := List.mem_range.mp ha
  simp [List.getD_eq_getElem?_getD, ha']

theorem perm_pairsOf_muOfPairs {n : Nat} {M : List Pair} (h1 : (M.map Prod.fst).Perm (List.range n)) :
    M.Perm (pairsOf (muOfPairs n M)) := by
  have hnd1 : (M.map Prod.fst).Nodup := h1.nodup_iff.mpr List.nodup_range
  have hnd : M.Nodup := List.Nodup.of_map _ hnd1
  rw [pairsOf_muOfPairs]
  have hnd' : ((List.range n).map (fun a => (a, partner n M a))).Nodup :=
    List.nodup_range.map (fun a b h => by simpa using congrArg Prod.fst h)
  rw [List.perm_ext_iff_of_nodup hnd hnd']
  intro p
  simp only [List.mem_map, List.mem_range]
  constructor
  · intro hp
    have hlt : p.1 < n := List.mem_range.mp (h1.subset (List.mem_map_of_mem hp))
    exact ⟨p.1, hlt, by rw [partner_of_mem hnd1 hp]⟩
  · rintro ⟨a, ha, rfl⟩
    have : a ∈ M.map Prod.fst := h1.symm.subset (List.mem_range.mpr ha)
    obtain ⟨q, hq, rfl⟩ := List.mem_map.mp this
    rw [partner_of_mem hnd1 hq]
    exact hq

theorem muOfPairs_perm {n : Nat} {M : List Pair} (h1 : (M.map Prod.fst).Perm (List.range n))
    (h2 : (M.map Prod.snd).Perm (List.range n)) : (muOfPairs n M).Perm (List.range n) := by
  have h := (perm_pairsOf_muOfPairs h1).map Prod.snd
  have e : (pairsOf (muOfPairs n M)).map Prod.snd = muOfPairs n M := by
    rw [pairsOf_muOfPairs]; simp [muOfPairs]
  rw [e] at h
  exact h.symm.trans h2

theorem sum_map_range (n : Nat) (f : Nat → Int) : ((List.range n).map f).sum = ∑ a : Fin n, f a := by
  rw [Fin.sum_univ_eq_sum_range (fun i => f i) n]
  induction n with
  | zero => simp
  | succ n ih => rw [List.range_succ, List.map_append, List.sum_append, ih, Finset.sum_range_succ]; simp

theorem matchingValue_pairsOf (n : Nat) (V1 V2 : List (List Int)) (mu : List Nat) (hl : mu.length = n) :
    matchingValue V1 V2 (pairsOf mu) = matchValue V1 V2 mu := by
  rw [matchingValue_eq_sum, matchValue_eq n V1 V2 mu hl,
    ← sum_map_range n (fun a => intOf V1 a (mu.getD a n) + intOf V2 (mu.getD a n) a)]
  unfold pairsOf
  rw [hl, List.map_map]
  rfl

theorem stablePairs_perm {P1 P2 : List (List Nat)} {M M' : List Pair} (h : M.Perm M') (hst : StablePairs P1 P2 M) :
    StablePairs P1 P2 M' :=
  fun p hp q hq => hst p (h.symm.subset hp) q (h.symm.subset hq)

/-- **pairs form**: a perfect matching given as a list of pairs, stable in the pairs sense, is one of the matchings the
brute force maximises over — its list form is an enumerated stable permutation with the same value, so its value is
at most `optStable` -/
theorem pairs_le_opt (n : Nat) (P1 P2 : List (List Nat)) (V1 V2 : List (List Int)) (M : List Pair)
    (h1 : (M.map Prod.fst).Perm (List.range n)) (h2 : (M.map Prod.snd).Perm (List.range n))
    (hst : StablePairs P1 P2 M) :
    muOfPairs n M ∈ stablePerms n P1 P2 ∧ matchValue V1 V2 (muOfPairs n M) = matchingValue V1 V2 M ∧
    ∃ v, optStable n P1 P2 V1 V2 = some v ∧ matchingValue V1 V2 M ≤ v := by
  have hmu := muOfPairs_perm h1 h2
  have hl : (muOfPairs n M).length = n := by simp [muOfPairs]
  have hperm := perm_pairsOf_muOfPairs h1
  have hp := isPermWith_invPerm hmu
  have hs : stableB n P1 P2 (muOfPairs n M) (invPerm n (muOfPairs n M)) = true :=
    (stableB_iff n P1 P2 _ _ hp).mpr
      ((stablePairs_pairsOf_iff n P1 P2 _ _ hp).mp (stablePairs_perm hperm hst))
  have hval : matchValue V1 V2 (muOfPairs n M) = matchingValue V1 V2 M := by
    rw [← matchingValue_pairsOf n V1 V2 _ hl, matchingValue_eq_sum, matchingValue_eq_sum]
    exact (hperm.map _).sum_eq.symm
  refine ⟨(mem_stablePerms n P1 P2 _).mpr ⟨hmu, hs⟩, hval, ?_⟩
  cases hopt : optStable n P1 P2 V1 V2 with
  | none =>
    have := (optStable_eq_none_iff n P1 P2 V1 V2).mp hopt _ hmu
    rw [hs] at this; cases this
  | some v =>
    refine ⟨v, rfl, ?_⟩
    rw [← hval]
    exact ((optStable_eq_some_iff n P1 P2 V1 V2 v).mp hopt).2 _ hmu hs

/-- the answer of the checked mirror of `Irving.scf` is among the matchings the brute force maximises over -/
theorem irving_le_opt (n : Nat) (P1 P2 : List (List Nat)) (V1 V2 : List (List Int)) (M : List Pair)
    (h : IrvingAlgo.irving n P1 P2 V1 V2 = .ok M) :
    ∃ v, optStable n P1 P2 V1 V2 = some v ∧ matchingValue V1 V2 M ≤ v ∧ 0 < countStable n P1 P2 := by
  obtain ⟨h1, h2, hst, _⟩ := IrvingAlgo.irving_sound' n P1 P2 V1 V2 M h
  obtain ⟨hmem, _, v, hv, hle⟩ := pairs_le_opt n P1 P2 V1 V2 M h1 h2 hst
  exact ⟨v, hv, hle, List.length_pos_of_mem hmem⟩

end Brute
