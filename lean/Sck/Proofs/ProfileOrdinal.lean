import Sck.Proofs.ProfileBase
import Mathlib.Algebra.Order.Ring.Rat
import Mathlib.Tactic.Linarith

/-! C18 part A: `compute_ordinal_profile` (one row). -/

theorem length_ordinalWith (vals : List (Option Rat)) (o : List Nat) :
    (ordinalWith vals o).length = vals.length := by
  simp [ordinalWith]

theorem getElem?_ordinalWith (vals : List (Option Rat)) (o : List Nat) (j : Nat)
    (hj : j < vals.length) :
    (ordinalWith vals o)[j]? =
      some (if (valAt vals j).isSome = true then some (o.idxOf j + 1) else none) := by
  simp [ordinalWith, hj]

theorem filterMap_ordinalWith (vals : List (Option Rat)) (o : List Nat) :
    (ordinalWith vals o).filterMap id =
      ((List.range vals.length).filter (fun j => (valAt vals j).isSome)).map
        (fun j => o.idxOf j + 1) := by
  unfold ordinalWith
  rw [List.filterMap_map]
  exact filterMap_ite_eq_map_filter _ _ _

theorem numSome_eq_countP_range {α : Type} (l : List (Option α)) :
    numSome l = (List.range l.length).countP (fun j => (valAt l j).isSome) := by
  unfold numSome
  exact countP_eq_range l Option.isSome

theorem descLe_some_right {a : Option Rat} {y : Rat} (h : descLe a (some y) = true) :
    a.isSome = true := by
  cases a <;> simp_all [descLe]

/-- a non-NaN position sits among the first `k` positions of an admissible order -/
theorem idx_lt_numSome (vals : List (Option Rat)) (o : List Nat)
    (h : validDescOrder vals o = true) (j : Nat) (hj : j < vals.length)
    (hs : (valAt vals j).isSome = true) : o.idxOf j + 1 ≤ numSome vals := by
  have hso := sortedOrder_of_desc vals o h
  rw [numSome_eq_countP_range]
  apply hso.idx_lt_count hj
  intro b _ hb
  rcases hb with rfl | hb
  · exact hs
  · obtain ⟨y, hy⟩ := Option.isSome_iff_exists.1 hs
    rw [hy] at hb
    exact descLe_some_right hb

theorem ordinalWith_perm (vals : List (Option Rat)) (o : List Nat)
    (h : validDescOrder vals o = true) :
    ((ordinalWith vals o).filterMap id).Perm (List.range' 1 (numSome vals)) := by
  have hso := sortedOrder_of_desc vals o h
  rw [filterMap_ordinalWith]
  apply List.Subperm.perm_of_length_le
  · apply List.subperm_of_subset
    · apply List.Nodup.map_on
      · intro a ha b hb hab
        simp only [List.mem_filter, List.mem_range] at ha hb
        exact hso.idx_inj ha.1 hb.1 (by omega)
      · exact List.nodup_range.filter _
    · intro r hr
      simp only [List.mem_map, List.mem_filter, List.mem_range] at hr
      obtain ⟨j, ⟨hj, hs⟩, rfl⟩ := hr
      have := idx_lt_numSome vals o h j hj hs
      simp only [List.mem_range'_1]
      omega
  · simp only [List.length_range', List.length_map]
    rw [numSome_eq_countP_range, List.countP_eq_length_filter]

theorem ordinalWith_ok (vals : List (Option Rat)) (order : List Nat)
    (h : validDescOrder vals order = true) :
    ordinalOkB vals (ordinalWith vals order) = true := by
  have hso := sortedOrder_of_desc vals order h
  have key : ∀ p ∈ vals.zip (ordinalWith vals order), ∃ j, j < vals.length ∧ valAt vals j = p.1 ∧
      p.2 = (if (valAt vals j).isSome = true then some (order.idxOf j + 1) else none) := by
    intro p hp
    obtain ⟨j, h1, h2⟩ := getElem?_of_mem_zip _ _ p hp
    have hj : j < vals.length := (List.getElem?_eq_some_iff.1 h1).1
    rw [getElem?_ordinalWith vals order j hj] at h2
    exact ⟨j, hj, valAt_of_getElem? _ _ _ h1, (Option.some.inj h2).symm⟩
  unfold ordinalOkB
  simp only [Bool.and_eq_true, beq_iff_eq, List.all_eq_true, List.isPerm_iff]
  refine ⟨⟨⟨length_ordinalWith _ _, ?_⟩, ordinalWith_perm vals order h⟩, ?_⟩
  · intro p hp
    obtain ⟨j, _, h1, h2⟩ := key p hp
    rw [h2, h1]
    cases p.1 <;> simp
  · intro p hp q hq
    obtain ⟨a, ha, ha1, ha2⟩ := key p hp
    obtain ⟨b, hb, hb1, hb2⟩ := key q hq
    cases hp1 : p.1 with
    | none => simp [gtV]
    | some x =>
      cases hq1 : q.1 with
      | none => simp [gtV]
      | some y =>
        by_cases hxy : y < x
        · have hne : a ≠ b := by
            rintro rfl
            rw [ha1, hp1] at hb1
            rw [hq1] at hb1
            have : x = y := Option.some.inj hb1
            subst this
            exact lt_irrefl _ hxy
          have hidx : order.idxOf a < order.idxOf b := by
            apply hso.idx_lt_of_not_rel ha hb hne
            rw [ha1, hb1, hp1, hq1]
            simp only [descLe, decide_eq_true_eq, not_le]
            exact hxy
          rw [ha2, hb2, ha1, hb1, hp1, hq1]
          simp [gtV, ltR, hxy, hidx]
        · simp [gtV, hxy]

/-- what acceptance by `ordinalOkB` means -/
theorem ordinalOkB_spec (vals : List (Option Rat)) (out : List (Option Nat))
    (h : ordinalOkB vals out = true) :
    out.length = vals.length ∧
    (∀ j : Nat, out[j]? = some none ↔ vals[j]? = some none) ∧
    (∀ (a b : Nat) (x y : Rat), vals[a]? = some (some x) → vals[b]? = some (some y) → y < x →
      ∃ ra rb, out[a]? = some (some ra) ∧ out[b]? = some (some rb) ∧ ra < rb) ∧
    (∀ (j r : Nat), out[j]? = some (some r) → 1 ≤ r ∧ r ≤ numSome vals) ∧
    (∀ r : Nat, 1 ≤ r → r ≤ numSome vals → ∃ j : Nat, out[j]? = some (some r) ∧
      ∀ j' : Nat, out[j']? = some (some r) → j' = j) := by
  unfold ordinalOkB at h
  simp only [Bool.and_eq_true, beq_iff_eq, List.all_eq_true, List.isPerm_iff] at h
  obtain ⟨⟨⟨hlen, hnan⟩, hperm⟩, hpairs⟩ := h
  have hnodup : (out.filterMap id).Nodup := (hperm.nodup_iff).2 (List.nodup_range' ..)
  have hsome : ∀ (j : Nat) (x : Option Rat), vals[j]? = some x →
      ∃ r : Option Nat, out[j]? = some r ∧ x.isSome = r.isSome := by
    intro j x hx
    have hj : j < out.length := by rw [hlen]; exact (List.getElem?_eq_some_iff.1 hx).1
    refine ⟨out[j], List.getElem?_eq_getElem hj, ?_⟩
    exact hnan (x, out[j]) (mem_zip_of_getElem? _ _ j _ _ hx (List.getElem?_eq_getElem hj))
  refine ⟨hlen, ?_, ?_, ?_, ?_⟩
  · intro j
    constructor
    · intro ho
      have hj : j < vals.length := by rw [← hlen]; exact (List.getElem?_eq_some_iff.1 ho).1
      obtain ⟨r, hr, hiso⟩ := hsome j vals[j] (List.getElem?_eq_getElem hj)
      rw [ho] at hr
      have : r = none := (Option.some.inj hr).symm
      subst this
      rw [List.getElem?_eq_getElem hj]
      cases hv : vals[j] with
      | none => rfl
      | some x => rw [hv] at hiso; simp at hiso
    · intro hv
      obtain ⟨r, hr, hiso⟩ := hsome j none hv
      rw [hr]
      cases r with
      | none => rfl
      | some x => simp at hiso
  · intro a b x y ha hb hxy
    obtain ⟨ra, hra, hisa⟩ := hsome a _ ha
    obtain ⟨rb, hrb, hisb⟩ := hsome b _ hb
    have := hpairs _ (mem_zip_of_getElem? _ _ a _ _ ha hra) _ (mem_zip_of_getElem? _ _ b _ _ hb hrb)
    simp only [gtV, hxy, decide_true, Bool.not_true, Bool.false_or] at this
    cases ra with
    | none => simp [ltR] at this
    | some ra =>
      cases rb with
      | none => simp [ltR] at this
      | some rb =>
        simp only [ltR, decide_eq_true_eq] at this
        exact ⟨ra, rb, hra, hrb, this⟩
  · intro j r hr
    have : r ∈ out.filterMap id := by
      rw [List.mem_filterMap]
      exact ⟨some r, List.mem_of_getElem? hr, rfl⟩
    have := (hperm.mem_iff).1 this
    simp only [List.mem_range'_1] at this
    omega
  · intro r h1 h2
    have : r ∈ out.filterMap id := by
      rw [hperm.mem_iff]
      simp only [List.mem_range'_1]
      omega
    rw [List.mem_filterMap] at this
    obtain ⟨x, hx, hxr⟩ := this
    simp only [id] at hxr
    subst hxr
    obtain ⟨j, hj⟩ := List.mem_iff_getElem?.1 hx
    exact ⟨j, hj, fun j' hj' => eq_of_nodup_filterMap out hnodup j' j r hj' hj⟩
