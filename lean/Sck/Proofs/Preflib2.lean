import Sck.Proofs.Preflib

/-! Proofs for property C19, part 2: the row-level theorems about `prefRowE` and `conv_ok_of_wf`. -/

/-! ## 9. Bookkeeping on orders -/

theorem pf_valAt_of_getElem? {α : Type} (row : List (Option α)) (j : Nat) (v : Option α)
    (h : row[j]? = some v) : valAt row j = v := by
  simp [valAt, h]

theorem listed_flatten (kind : PrefKind) (order : List (List Nat)) :
    (kind.listed order).flatten = order.flatten := by
  unfold PrefKind.listed
  split
  · exact List.flatten_filter_not_isEmpty
  · rfl

theorem orderWFB_listed (kind : PrefKind) (m : Nat) (order : List (List Nat))
    (h : orderWFB m order = true) : orderWFB m (kind.listed order) = true := by
  rw [orderWFB_iff] at h ⊢
  rw [listed_flatten]; exact h

theorem strictOrder_flatten (order : List (List Nat)) :
    (strictOrder order).flatten = flattenStrict order := by
  unfold strictOrder
  induction flattenStrict order with
  | nil => rfl
  | cons a l ih => simp [ih]

theorem flattenStrict_sublist (order : List (List Nat)) :
    (flattenStrict order).Sublist order.flatten := by
  induction order with
  | nil => simp [flattenStrict]
  | cons cls rest ih =>
    cases cls with
    | nil =>
      simp only [flattenStrict, List.filterMap_cons, List.head?_nil, List.flatten_cons,
        List.nil_append] at ih ⊢
      exact ih
    | cons a t =>
      simp only [flattenStrict, List.filterMap_cons, List.head?_cons, List.flatten_cons,
        List.cons_append] at ih ⊢
      exact (ih.trans (List.sublist_append_right t _)).cons_cons a

theorem orderWFB_strictOrder (m : Nat) (order : List (List Nat))
    (h : orderWFB m order = true) : orderWFB m (strictOrder order) = true := by
  rw [orderWFB_iff] at h ⊢
  rw [strictOrder_flatten]
  have hs := flattenStrict_sublist order
  exact ⟨fun a ha => h.1 a (hs.subset ha), h.2.sublist hs⟩

theorem sizeBefore_singletons (l : List Nat) :
    ∀ t, t ≤ l.length → sizeBefore (l.map fun a => [a]) t = t := by
  induction l with
  | nil => intro t ht; simp at ht; subst ht; simp [sizeBefore]
  | cons a l ih =>
    intro t ht
    cases t with
    | zero => simp [sizeBefore]
    | succ t =>
      have := ih t (by simpa using ht)
      simp only [sizeBefore, List.map_cons, List.take_succ_cons, List.sum_cons, List.length_cons,
        List.length_nil] at this ⊢
      omega

/-- in random / first mode the arranged class, read off the row, is the block
`classBase, classBase + 1, …` -/
theorem prefRow_block (init : Option Nat) (m : Nat) (mode : TieMode) (i : Nat) (order : List (List Nat))
    (hwf : orderWFB m order = true) (hp : ModePerm mode i order) (hacc : mode.isAccept = false)
    (k : Nat) (hk : k < order.length) :
    (mode.arr i k order[k]).map (fun a => valAt (prefRow init m mode i order) (a - 1)) =
      (List.range' (classBase order k) order[k].length).map some := by
  apply List.ext_getElem
  · simp [(hp k hk).length_eq]
  · intro t h1 h2
    have ht : t < (mode.arr i k order[k]).length := by simpa using h1
    have := prefRow_get init m mode i order hwf hp k hk t ht
    rw [hacc] at this
    simp only [List.getElem_map, List.getElem_range', Nat.one_mul]
    rw [pf_valAt_of_getElem? _ _ _ this]
    simp

/-! ## 10. Row-level theorems -/

theorem conv_row_length (kind : PrefKind) (mode : TieMode) (m i : Nat) (order : List (List Nat))
    (row : List (Option Nat)) (h : prefRowE kind mode m i order = .ok row) : row.length = m := by
  cases hs : kind.isStrict with
  | true => rw [(prefRowE_strict kind mode m i order row hs h).1]; exact prefRow_length ..
  | false => rw [prefRowE_tied kind mode m i order row hs h]; exact prefRow_length ..

/-- `accept`: all members of an indifference class get the first position of the class -/
theorem conv_rank_accept (kind : PrefKind) (m i : Nat) (order : List (List Nat))
    (row : List (Option Nat)) (hk : kind.isStrict = false)
    (h : prefRowE kind .accept m i order = .ok row) (hwf : orderWFB m order = true)
    (ci : Nat) (hc : ci < (kind.listed order).length) (a : Nat) (ha : a ∈ (kind.listed order)[ci]) :
    row[a - 1]? = some (some (classBase (kind.listed order) ci)) := by
  rw [prefRowE_tied kind _ m i order row hk h]
  obtain ⟨t, ht, rfl⟩ := List.mem_iff_getElem.1 ha
  have := prefRow_get kind.init m .accept i (kind.listed order) (orderWFB_listed kind m order hwf)
    (modePerm_accept _ _) ci hc t ht
  simpa [TieMode.arr, TieMode.isAccept] using this

/-- soc/soi: the `t`-th entry of the flattened order gets rank `t + 1` (whatever the tie-breaker) -/
theorem conv_rank_strict (kind : PrefKind) (mode : TieMode) (m i : Nat) (order : List (List Nat))
    (row : List (Option Nat)) (hk : kind.isStrict = true)
    (h : prefRowE kind mode m i order = .ok row) (hwf : orderWFB m (strictOrder order) = true)
    (t : Nat) (ht : t < (flattenStrict order).length) :
    row[(flattenStrict order)[t] - 1]? = some (some (t + 1)) := by
  rw [(prefRowE_strict kind mode m i order row hk h).1]
  have hk' : t < (strictOrder order).length := by simpa [strictOrder] using ht
  have hcls : (strictOrder order)[t] = [(flattenStrict order)[t]] := by simp [strictOrder]
  have := prefRow_get kind.init m .accept i (strictOrder order) hwf (modePerm_accept _ _) t hk' 0
    (by simp [TieMode.arr, hcls])
  simp only [TieMode.arr, TieMode.isAccept, if_true, Nat.add_zero, hcls, List.getElem_cons_zero,
    classBase_eq] at this
  rw [this, strictOrder, sizeBefore_singletons _ t (Nat.le_of_lt ht), Nat.add_comm]

/-- `first`: inside its class an alternative is ranked by alternative number, from the class base -/
theorem conv_rank_first (kind : PrefKind) (m i : Nat) (order : List (List Nat))
    (row : List (Option Nat)) (hk : kind.isStrict = false)
    (h : prefRowE kind .first m i order = .ok row) (hwf : orderWFB m order = true)
    (ci : Nat) (hc : ci < (kind.listed order).length) (a : Nat) (ha : a ∈ (kind.listed order)[ci]) :
    row[a - 1]? = some (some (classBase (kind.listed order) ci +
      ((kind.listed order)[ci]).countP (· < a))) := by
  rw [prefRowE_tied kind _ m i order row hk h]
  have hwf' := orderWFB_listed kind m order hwf
  have hnd : ((kind.listed order)[ci]).Nodup := by
    have := ((orderWFB_iff _ _).1 hwf').2
    unfold List.Nodup at this ⊢
    rw [List.pairwise_flatten] at this
    exact this.1 _ (List.getElem_mem hc)
  have ha' : a ∈ sortAsc (kind.listed order)[ci] := (sortAsc_perm _).mem_iff.2 ha
  obtain ⟨t, ht, rfl⟩ := List.mem_iff_getElem.1 ha'
  have := prefRow_get kind.init m .first i (kind.listed order) hwf' (modePerm_first _ _) ci hc t ht
  rw [sortAsc_countP _ hnd t ht]
  simpa [TieMode.arr, TieMode.isAccept] using this

/-- `random`: the `t`-th member of the shuffled class gets rank `classBase + t` -/
theorem conv_rank_random (kind : PrefKind) (sh : Nat → Nat → List Nat → List Nat) (m i : Nat)
    (order : List (List Nat)) (row : List (Option Nat)) (hk : kind.isStrict = false)
    (h : prefRowE kind (.random sh) m i order = .ok row) (hwf : orderWFB m order = true)
    (hsh : ∀ ci (hc : ci < (kind.listed order).length),
      (sh i ci (kind.listed order)[ci]).Perm (kind.listed order)[ci])
    (ci : Nat) (hc : ci < (kind.listed order).length)
    (t : Nat) (ht : t < (sh i ci (kind.listed order)[ci]).length) :
    row[(sh i ci (kind.listed order)[ci])[t] - 1]? = some (some (classBase (kind.listed order) ci + t)) := by
  rw [prefRowE_tied kind _ m i order row hk h]
  have := prefRow_get kind.init m (.random sh) i (kind.listed order) (orderWFB_listed kind m order hwf)
    (modePerm_random sh i _ hsh) ci hc t ht
  simpa [TieMode.arr, TieMode.isAccept] using this

/-- `random`: the ranks of a class are exactly the block `classBase, …, classBase + |class| - 1`,
each used once -/
theorem conv_rank_random_perm (kind : PrefKind) (sh : Nat → Nat → List Nat → List Nat) (m i : Nat)
    (order : List (List Nat)) (row : List (Option Nat)) (hk : kind.isStrict = false)
    (h : prefRowE kind (.random sh) m i order = .ok row) (hwf : orderWFB m order = true)
    (hsh : ∀ ci (hc : ci < (kind.listed order).length),
      (sh i ci (kind.listed order)[ci]).Perm (kind.listed order)[ci])
    (ci : Nat) (hc : ci < (kind.listed order).length) :
    (((kind.listed order)[ci]).map (fun a => valAt row (a - 1))).Perm
      ((List.range' (classBase (kind.listed order) ci) ((kind.listed order)[ci]).length).map some) := by
  rw [prefRowE_tied kind _ m i order row hk h]
  have := prefRow_block kind.init m (.random sh) i (kind.listed order) (orderWFB_listed kind m order hwf)
    (modePerm_random sh i _ hsh) rfl ci hc
  rw [← this]
  exact ((hsh ci hc).map _).symm

/-- soc/soi: an alternative that is not the first member of a class is never written -/
theorem conv_unlisted_strict (kind : PrefKind) (mode : TieMode) (m i : Nat) (order : List (List Nat))
    (row : List (Option Nat)) (hk : kind.isStrict = true)
    (h : prefRowE kind mode m i order = .ok row) (hwf : orderWFB m (strictOrder order) = true)
    (a : Nat) (h1 : 1 ≤ a) (hm : a ≤ m) (ha : a ∉ flattenStrict order) :
    row[a - 1]? = some kind.init := by
  rw [(prefRowE_strict kind mode m i order row hk h).1]
  exact prefRow_unlisted _ m .accept i _ hwf (modePerm_accept _ _) a h1 hm
    (by rwa [strictOrder_flatten])

theorem modePerm_of_random (mode : TieMode) (i : Nat) (order : List (List Nat))
    (h : ∀ sh, mode = .random sh → ∀ ci (hc : ci < order.length), (sh i ci order[ci]).Perm order[ci]) :
    ModePerm mode i order := by
  cases mode with
  | accept => exact modePerm_accept _ _
  | first => exact modePerm_first _ _
  | random sh => exact modePerm_random sh i order (h sh rfl)

/-- an alternative the voter did not list keeps the initial value of the row: NaN for soi/toi/categorical,
the integer 0 of `np.zeros(m, dtype=int)` for soc/toc. For `random` the shuffles must be permutations
(the tie-breaker is irrelevant for soc/soi). -/
theorem conv_unlisted_nan (kind : PrefKind) (mode : TieMode) (m i : Nat) (order : List (List Nat))
    (row : List (Option Nat)) (h : prefRowE kind mode m i order = .ok row) (hwf : orderWFB m order = true)
    (hp : ∀ sh, mode = .random sh → ∀ ci (hc : ci < (kind.listed order).length),
      (sh i ci (kind.listed order)[ci]).Perm (kind.listed order)[ci])
    (a : Nat) (h1 : 1 ≤ a) (hm : a ≤ m) (ha : a ∉ order.flatten) :
    row[a - 1]? = some kind.init := by
  cases hs : kind.isStrict with
  | true =>
    exact conv_unlisted_strict kind mode m i order row hs h (orderWFB_strictOrder m order hwf) a h1 hm
      (fun hc => ha ((flattenStrict_sublist order).subset hc))
  | false =>
    rw [prefRowE_tied kind mode m i order row hs h]
    exact prefRow_unlisted _ m mode i _ (orderWFB_listed kind m order hwf)
      (modePerm_of_random mode i _ hp) a h1 hm (by rwa [listed_flatten])

/-- soi/toi/categorical: unlisted alternatives are NaN -/
theorem conv_unlisted_none (kind : PrefKind) (mode : TieMode) (m i : Nat) (order : List (List Nat))
    (row : List (Option Nat)) (hkind : kind = .soi ∨ kind = .toi ∨ kind = .cat)
    (h : prefRowE kind mode m i order = .ok row) (hwf : orderWFB m order = true)
    (hp : ∀ sh, mode = .random sh → ∀ ci (hc : ci < (kind.listed order).length),
      (sh i ci (kind.listed order)[ci]).Perm (kind.listed order)[ci])
    (a : Nat) (h1 : 1 ≤ a) (hm : a ≤ m) (ha : a ∉ order.flatten) :
    row[a - 1]? = some none := by
  have := conv_unlisted_nan kind mode m i order row h hwf hp a h1 hm ha
  rcases hkind with rfl | rfl | rfl <;> exact this

/-! ## 11. Well-formed instances are converted without error -/

/-- well-formed order for the given converter -/
def kindOrderWFB (kind : PrefKind) (m : Nat) (order : List (List Nat)) : Bool :=
  orderWFB m order &&
  match kind with
  | .soc => order.all (fun c => c.length == 1) && order.length == m && !order.isEmpty
  | .soi => order.all (fun c => c.length == 1) && !order.isEmpty
  | .toc | .toi => order.all (fun c => !c.isEmpty)
  | .cat => true

theorem flattenStrict_length (order : List (List Nat)) (h : ∀ c ∈ order, c ≠ []) :
    (flattenStrict order).length = order.length := by
  induction order with
  | nil => rfl
  | cons cls rest ih =>
    cases cls with
    | nil => exact absurd rfl (h [] (by simp))
    | cons a t =>
      have := ih (fun c hc => h c (List.mem_cons_of_mem _ hc))
      simp only [flattenStrict, List.filterMap_cons, List.head?_cons, List.length_cons] at this ⊢
      omega

theorem orderWFB_inRange (m : Nat) (order : List (List Nat)) (h : orderWFB m order = true) :
    ∀ a ∈ order.flatten, altInRange m a = true := by
  intro a ha
  have := ((orderWFB_iff m order).1 h).1 a ha
  simp only [altInRange, Bool.and_eq_true, decide_eq_true_eq]
  omega

theorem orderWFB_all_inRange (m : Nat) (order : List (List Nat)) (h : orderWFB m order = true) :
    (order.all fun cls => cls.all (altInRange m)) = true := by
  rw [List.all_eq_true]
  intro cls hcls
  rw [List.all_eq_true]
  intro a ha
  exact orderWFB_inRange m order h a (List.mem_flatten.2 ⟨cls, hcls, ha⟩)

theorem strict_ok_aux (m : Nat) (order : List (List Nat)) (hwf : orderWFB m order = true)
    (hs : order.all (fun c => c.length == 1) = true) (hne : order.isEmpty = false) :
    order.any List.isEmpty = false ∧ (flattenStrict order).length = order.length ∧
      (flattenStrict order).isEmpty = false ∧ (flattenStrict order).all (altInRange m) = true := by
  have hne' : ∀ c ∈ order, c ≠ [] := by
    intro c hc hce
    have := List.all_eq_true.1 hs c hc
    simp [hce] at this
  have hlen := flattenStrict_length order hne'
  refine ⟨?_, hlen, ?_, ?_⟩
  · rw [Bool.eq_false_iff]
    intro h
    obtain ⟨c, hc, hce⟩ := List.any_eq_true.1 h
    exact hne' c hc (List.isEmpty_iff.1 hce)
  · cases hf : flattenStrict order with
    | nil => rw [hf] at hlen; cases order <;> simp_all
    | cons _ _ => rfl
  · rw [List.all_eq_true]
    intro a ha
    exact orderWFB_inRange m order hwf a ((flattenStrict_sublist order).subset ha)

theorem prefRowE_ok_of_wf (kind : PrefKind) (mode : TieMode) (m i : Nat) (order : List (List Nat))
    (h : kindOrderWFB kind m order = true) : ∃ row, prefRowE kind mode m i order = .ok row := by
  unfold kindOrderWFB at h
  rw [Bool.and_eq_true] at h
  obtain ⟨hwf, h⟩ := h
  cases kind with
  | soc =>
    simp only [Bool.and_eq_true, beq_iff_eq, Bool.not_eq_true'] at h
    obtain ⟨h1, h2, h3, h4⟩ := strict_ok_aux m order hwf h.1.1 h.2
    refine ⟨prefRow (PrefKind.init .soc) m .accept i ((flattenStrict order).map fun a => [a]), ?_⟩
    simp only [prefRowE, h1, h2, h.1.2, h3, h4]
    simp
  | soi =>
    simp only [Bool.and_eq_true, Bool.not_eq_true'] at h
    obtain ⟨h1, h2, h3, h4⟩ := strict_ok_aux m order hwf h.1 h.2
    refine ⟨prefRow (PrefKind.init .soi) m .accept i ((flattenStrict order).map fun a => [a]), ?_⟩
    simp only [prefRowE, h1, h3, h4]
    simp
  | toc =>
    have h1 : order.any List.isEmpty = false := by
      rw [Bool.eq_false_iff]
      intro hh
      obtain ⟨c, hc, hce⟩ := List.any_eq_true.1 hh
      have := List.all_eq_true.1 h c hc
      simp [hce] at this
    refine ⟨prefRow (PrefKind.init .toc) m mode i order, ?_⟩
    simp only [prefRowE, h1, orderWFB_all_inRange m order hwf]
    simp
  | toi =>
    have h1 : order.any List.isEmpty = false := by
      rw [Bool.eq_false_iff]
      intro hh
      obtain ⟨c, hc, hce⟩ := List.any_eq_true.1 hh
      have := List.all_eq_true.1 h c hc
      simp [hce] at this
    refine ⟨prefRow (PrefKind.init .toi) m mode i order, ?_⟩
    simp only [prefRowE, h1, orderWFB_all_inRange m order hwf]
    simp
  | cat =>
    have := orderWFB_all_inRange m _ (orderWFB_listed .cat m order hwf)
    simp only [PrefKind.listed, if_true] at this
    refine ⟨prefRow (PrefKind.init .cat) m mode i (order.filter fun c => !c.isEmpty), ?_⟩
    simp only [prefRowE, this]
    simp

theorem convLoop_ok_of_wf (kind : PrefKind) (mode : TieMode) (m : Nat) :
    ∀ (os : List (List (List Nat) × Nat)) (i : Nat),
      (∀ om ∈ os, kindOrderWFB kind m om.1 = true) → ∃ rows, convLoop kind mode m i os = .ok rows := by
  intro os
  induction os with
  | nil => intro i _; exact ⟨[], rfl⟩
  | cons om rest ih =>
    intro i h
    obtain ⟨row, hrow⟩ := prefRowE_ok_of_wf kind mode m i om.1 (h om (by simp))
    obtain ⟨rows, hrows⟩ := ih (i + 1) (fun o ho => h o (List.mem_cons_of_mem _ ho))
    exact ⟨List.replicate om.2 row ++ rows, by simp only [convLoop, hrow, hrows]⟩

/-- the conversion succeeds when the data type is the expected one and every order is well-formed
for the converter -/
theorem conv_ok_of_wf (kind : PrefKind) (mode : TieMode) (inst : PrefInst)
    (ht : ∀ t, kind.expected = some t → inst.dataType = t)
    (hwf : ∀ om ∈ inst.orders, kindOrderWFB kind inst.m om.1 = true) :
    ∃ rows, convRows kind mode inst = .ok rows := by
  obtain ⟨rows, h⟩ := convLoop_ok_of_wf kind mode inst.m inst.orders 0 hwf
  refine ⟨rows, ?_⟩
  unfold convRows
  split
  · rename_i t hk
    simp [ht t hk, h]
  · exact h
