import Sck.Model.Dfs
import Mathlib.Tactic.Common

/-! C08, mirror of the implementation's `dfs_path`: soundness of a `some` answer (B1). -/

namespace Dfs

/-- `path` is a walk to the sink along entries of positive residual capacity, and `c` is the capacity the
code reports for it: `min` of those capacities and `sys.maxsize`, nested exactly like the code's
`min(capacity, c)`. -/
inductive ResPath (Gf : Graph) (sink : Int) : List Int → Int → Prop
  | sink : ResPath Gf sink [sink] maxsize
  | step {u v c : Int} {p : List Int} {cap : Int} :
      (v, c) ∈ adj Gf u → 0 < c → ResPath Gf sink (v :: p) cap → ResPath Gf sink (u :: v :: p) (min cap c)

theorem maxsize_pos : 0 < maxsize := by decide

theorem ResPath.pos {Gf : Graph} {sink : Int} {p : List Int} {c : Int} (h : ResPath Gf sink p c) : 0 < c := by
  induction h with
  | sink => exact maxsize_pos
  | step _ hc _ ih => exact Int.lt_min.mpr ⟨ih, hc⟩

theorem ResPath.le_maxsize {Gf : Graph} {sink : Int} {p : List Int} {c : Int} (h : ResPath Gf sink p c) :
    c ≤ maxsize := by
  induction h with
  | sink => exact Int.le_refl _
  | step _ _ _ ih => exact Int.le_trans (Int.min_le_left _ _) ih

theorem ResPath.getLast {Gf : Graph} {sink : Int} {p : List Int} {c : Int} (h : ResPath Gf sink p c) :
    p.getLast? = some sink := by
  induction h with
  | sink => rfl
  | step _ _ _ ih => rw [List.getLast?_cons_cons]; exact ih

theorem ResPath.ne_nil {Gf : Graph} {sink : Int} {p : List Int} {c : Int} (h : ResPath Gf sink p c) :
    p ≠ [] := by
  cases h <;> simp

/-- every consecutive pair of the path is an entry of positive capacity at least `c` -/
theorem ResPath.pairs {Gf : Graph} {sink : Int} {p : List Int} {c : Int} (h : ResPath Gf sink p c) :
    ∀ e ∈ _root_.pairs p, ∃ d, (e.2, d) ∈ adj Gf e.1 ∧ 0 < d ∧ c ≤ d := by
  induction h with
  | sink => intro e he; simp [_root_.pairs] at he
  | step hm hc _ ih =>
    intro e he
    simp only [_root_.pairs, List.mem_cons] at he
    rcases he with rfl | he
    · exact ⟨_, hm, hc, Int.min_le_right _ _⟩
    · obtain ⟨d, h1, h2, h3⟩ := ih e he
      exact ⟨d, h1, h2, Int.le_trans (Int.min_le_left _ _) h3⟩

/-- the capacities along the path, explicitly: `c` is their minimum capped by `sys.maxsize` -/
theorem ResPath.caps {Gf : Graph} {sink : Int} {p : List Int} {c : Int} (h : ResPath Gf sink p c) :
    ∃ caps : List Int, caps.length + 1 = p.length ∧
      (∀ i (hi : i < caps.length) (hp : i + 1 < p.length),
        (p[i + 1], caps[i]) ∈ adj Gf (p[i]'(Nat.lt_of_succ_lt hp)) ∧ 0 < caps[i]) ∧
      c = caps.foldr min maxsize := by
  induction h with
  | sink => exact ⟨[], rfl, fun i hi => absurd hi (Nat.not_lt_zero _), rfl⟩
  | @step u v d p cap hm hc _ ih =>
    obtain ⟨caps, hlen, hall, hfold⟩ := ih
    refine ⟨d :: caps, by simp [← hlen], ?_, ?_⟩
    · intro i hi hp
      cases i with
      | zero => exact ⟨hm, hc⟩
      | succ j =>
        have hj : j < caps.length := by simpa using hi
        have hp' : j + 1 < (v :: p).length := by simpa using hp
        exact hall j hj hp'
    · simp only [List.foldr_cons]
      rw [hfold, Int.min_comm]

/-! ### marking -/

theorem mem_mark {v x : Int} {vis : List Int} : x ∈ mark v vis ↔ x = v ∨ x ∈ vis := by
  unfold mark
  split
  · rename_i h
    have hv : v ∈ vis := List.contains_iff_mem.mp h
    constructor
    · exact Or.inr
    · rintro (rfl | h')
      · exact hv
      · exact h'
  · simp

theorem mem_unmark {v x : Int} {vis : List Int} : x ∈ unmark v vis ↔ x ∈ vis ∧ x ≠ v := by
  simp [unmark]

/-! ### the invariant of one call -/

/-- what one call `(ans, vis') = dfs_path(…, current, …, vis)` guarantees -/
structure CallOk (Gf : Graph) (sink : Int) (current : Int) (vis : List Int)
    (r : Option (List Int × Int) × List Int) : Prop where
  /-- marked vertices other than `current` stay marked -/
  keep : ∀ x ∈ vis, x ≠ current → x ∈ r.2
  /-- a `None` answer un-marks nothing -/
  keepNone : r.1 = none → ∀ x ∈ vis, x ∈ r.2
  path : ∀ p c, r.1 = some (p, c) → ResPath Gf sink p c ∧ p.head? = some current ∧
    (current ∈ vis → p.Nodup ∧ ∀ x ∈ p.tail, x ∉ vis)

/-- invariant of the candidate loop: `best_path is None ↔ best_capacity == 0`, and the best path so far is
a good answer for `current` (relative to the `visited` at loop entry, `vis0`) -/
structure BestOk (Gf : Graph) (sink : Int) (current : Int) (vis0 : List Int)
    (bp : Option (List Int)) (bc : Int) : Prop where
  none0 : bp = none → bc = 0
  some_ : ∀ p, bp = some p → ResPath Gf sink p bc ∧ p.head? = some current ∧
    (current ∈ vis0 → p.Nodup ∧ ∀ x ∈ p.tail, x ∉ vis0)

theorem dfsCands_sound (Gf : Graph) (sink : Int)
    (rec : Int → List Int → Option (List Int × Int) × List Int)
    (hrec : ∀ v vis, CallOk Gf sink v vis (rec v vis)) (current : Int) (vis0 : List Int) :
    ∀ (cands : List (Int × Int)) (bp : Option (List Int)) (bc : Int) (vis : List Int),
      (∀ e ∈ cands, e ∈ adj Gf current) → (∀ x ∈ vis0, x ∈ vis) → BestOk Gf sink current vis0 bp bc →
      (∀ x ∈ vis, x ∈ (dfsCands rec current cands bp bc vis).2.2) ∧
      BestOk Gf sink current vis0 (dfsCands rec current cands bp bc vis).1
        (dfsCands rec current cands bp bc vis).2.1 := by
  intro cands
  induction cands with
  | nil => intro bp bc vis _ _ hb; exact ⟨fun x hx => hx, hb⟩
  | cons e rest ih =>
    intro bp bc vis hsub h0 hb
    obtain ⟨v, c⟩ := e
    have hsub' : ∀ e ∈ rest, e ∈ adj Gf current := fun e he => hsub e (List.mem_cons_of_mem _ he)
    simp only [dfsCands]
    by_cases hv : vis.contains v = true
    · rw [if_pos hv]; exact ih bp bc vis hsub' h0 hb
    · rw [if_neg hv]
      have hvn : v ∉ vis := fun h => hv (List.contains_iff_mem.mpr h)
      by_cases hc : 0 < c
      · rw [if_pos hc]
        have hok := hrec v (mark v vis)
        have hmono : ∀ x ∈ vis, x ∈ (rec v (mark v vis)).2 := fun x hx =>
          hok.keep x (mem_mark.mpr (Or.inr hx)) (fun h => hvn (h ▸ hx))
        rcases hr : rec v (mark v vis) with ⟨_ | ⟨path, capacity⟩, vis1⟩
        · rw [hr] at hmono
          simp only
          obtain ⟨h1, h2⟩ := ih bp bc vis1 hsub' (fun x hx => hmono x (h0 x hx)) hb
          exact ⟨fun x hx => h1 x (hmono x hx), h2⟩
        · rw [hr] at hmono
          simp only
          by_cases hlt : bc < min capacity c
          · rw [if_pos hlt]
            have hp := hok.path path capacity (by rw [hr])
            obtain ⟨hres, hhead, hnd⟩ := hp
            obtain ⟨p', rfl⟩ : ∃ p', path = v :: p' := by
              cases path with
              | nil => simp at hhead
              | cons a p' => simp at hhead; exact ⟨p', by rw [hhead]⟩
            have hb' : BestOk Gf sink current vis0 (some (current :: v :: p')) (min capacity c) := by
              refine ⟨fun h => by simp at h, ?_⟩
              intro p hp
              simp only [Option.some.injEq] at hp
              subst hp
              refine ⟨ResPath.step (hsub (v, c) List.mem_cons_self) hc hres, rfl, ?_⟩
              intro hcur
              have hcv : current ∈ vis := h0 _ hcur
              obtain ⟨hnd1, hnd2⟩ := hnd (mem_mark.mpr (Or.inl rfl))
              have hne : current ≠ v := fun h => hvn (h ▸ hcv)
              have hnt : current ∉ p' := fun h => hnd2 current (by simpa using h) (mem_mark.mpr (Or.inr hcv))
              refine ⟨List.nodup_cons.mpr ⟨?_, hnd1⟩, ?_⟩
              · simp only [List.mem_cons, not_or]; exact ⟨hne, hnt⟩
              · intro x hx hx0
                simp only [List.tail_cons, List.mem_cons] at hx
                rcases hx with rfl | hx
                · exact hvn (h0 _ hx0)
                · exact hnd2 x (by simpa using hx) (mem_mark.mpr (Or.inr (h0 _ hx0)))
            obtain ⟨h1, h2⟩ := ih _ _ vis1 hsub' (fun x hx => hmono x (h0 x hx)) hb'
            exact ⟨fun x hx => h1 x (hmono x hx), h2⟩
          · rw [if_neg hlt]
            obtain ⟨h1, h2⟩ := ih bp bc vis1 hsub' (fun x hx => hmono x (h0 x hx)) hb
            exact ⟨fun x hx => h1 x (hmono x hx), h2⟩
      · rw [if_neg hc]; exact ih bp bc vis hsub' h0 hb

theorem dfsPath_callOk (Gf : Graph) (sink : Int) :
    ∀ (fuel : Nat) (current : Int) (vis : List Int),
      CallOk Gf sink current vis (dfsPath Gf sink fuel current vis) := by
  intro fuel
  induction fuel with
  | zero =>
    intro current vis
    exact ⟨fun x hx _ => hx, fun _ x hx => hx, fun p c h => by simp [dfsPath] at h⟩
  | succ fuel ih =>
    intro current vis
    simp only [dfsPath]
    by_cases hcs : (current == sink) = true
    · rw [if_pos hcs]
      have hcs' : current = sink := by simpa using hcs
      refine ⟨fun x hx hne => mem_unmark.mpr ⟨hx, hne⟩, fun h => by simp at h, ?_⟩
      intro p c h
      simp only [Option.some.injEq, Prod.mk.injEq] at h
      obtain ⟨rfl, rfl⟩ := h
      subst hcs'
      exact ⟨ResPath.sink, rfl, fun _ => ⟨by simp, by simp⟩⟩
    · rw [if_neg hcs]
      have hloop := dfsCands_sound Gf sink (dfsPath Gf sink fuel) ih current vis (adj Gf current) none 0 vis
        (fun e he => he) (fun x hx => hx) ⟨fun _ => rfl, fun p h => by simp at h⟩
      rcases hr : dfsCands (dfsPath Gf sink fuel) current (adj Gf current) none 0 vis with ⟨_ | p, bc, vis'⟩
      · rw [hr] at hloop
        simp only
        exact ⟨fun x hx _ => hloop.1 x hx, fun _ x hx => hloop.1 x hx, fun p c h => by simp at h⟩
      · rw [hr] at hloop
        simp only
        refine ⟨fun x hx hne => mem_unmark.mpr ⟨hloop.1 x hx, hne⟩, fun h => by simp at h, ?_⟩
        intro q c h
        simp only [Option.some.injEq, Prod.mk.injEq] at h
        obtain ⟨rfl, rfl⟩ := h
        exact hloop.2.some_ p rfl

/-- **B1.**  A `some (path, c)` answer of `dfsPath` from `current`, when `current` is marked (as every vertex
of the recursion stack is: the caller marks before recursing and the source starts marked): `path` runs from
`current` to the sink along entries of positive residual capacity, `c` is the capped minimum of their
capacities, `0 < c ≤ sys.maxsize`, `path` is duplicate-free and, apart from its head, avoids every vertex that
was marked when the call started. -/
theorem dfsPath_sound (Gf : Graph) (sink : Int) (fuel : Nat) (current : Int) (vis : List Int)
    (path : List Int) (c : Int) (hcur : current ∈ vis)
    (h : (dfsPath Gf sink fuel current vis).1 = some (path, c)) :
    path.head? = some current ∧ path.getLast? = some sink ∧ path.Nodup ∧ (∀ x ∈ path.tail, x ∉ vis) ∧
      ResPath Gf sink path c ∧ 0 < c ∧ c ≤ maxsize := by
  obtain ⟨hres, hhead, hnd⟩ := (dfsPath_callOk Gf sink fuel current vis).path path c h
  obtain ⟨hnd1, hnd2⟩ := hnd hcur
  exact ⟨hhead, hres.getLast, hnd1, hnd2, hres, hres.pos, hres.le_maxsize⟩

end Dfs
