import Sck.Proofs.DA

theorem mem_heldBy {mu : List (Nat × Nat)} {r p : Nat} : p ∈ heldBy mu r ↔ (p, r) ∈ mu := by
  simp only [heldBy, List.mem_map, List.mem_filter, beq_iff_eq]
  constructor
  · rintro ⟨⟨a, b⟩, ⟨h1, h2⟩, h3⟩
    simp at h2 h3; subst h2; subst h3; exact h1
  · intro h; exact ⟨(p, r), ⟨h, rfl⟩, rfl⟩

theorem heldBy_len (mu : List (Nat × Nat)) (r : Nat) :
    (heldBy mu r).length = (mu.filter (fun e => e.2 == r)).length := by simp [heldBy]

theorem heldBy_cons_same (mu : List (Nat × Nat)) (p r : Nat) :
    heldBy ((p, r) :: mu) r = p :: heldBy mu r := by simp [heldBy]

theorem heldBy_cons_ne (mu : List (Nat × Nat)) (p r r' : Nat) (h : r ≠ r') :
    heldBy ((p, r) :: mu) r' = heldBy mu r' := by
  simp [heldBy, List.filter_cons, h]

theorem heldBy_erase_ne (mu : List (Nat × Nat)) (w r r' : Nat) (h : r ≠ r') :
    heldBy (mu.erase (w, r)) r' = heldBy mu r' := by
  unfold heldBy
  rw [← List.erase_filter]
  have : (w, r) ∉ mu.filter (fun e => e.2 == r') := by
    simp [List.mem_filter]; intro _; exact h
  rw [List.erase_of_not_mem this]

theorem heldBy_erase_len (mu : List (Nat × Nat)) (w r : Nat) (h : (w, r) ∈ mu) :
    (heldBy (mu.erase (w, r)) r).length + 1 = (heldBy mu r).length := by
  rw [heldBy_len, heldBy_len, ← List.erase_filter]
  have hm : (w, r) ∈ mu.filter (fun e => e.2 == r) := by simp [List.mem_filter, h]
  rw [List.length_erase_of_mem hm]
  have : 0 < (mu.filter (fun e => e.2 == r)).length := List.length_pos_of_mem hm
  omega

def WF (I : DA) : Prop :=
  (∀ p, (I.plist p).Nodup) ∧
  (∀ r p p' a, I.rrank r p = some a → I.rrank r p' = some a → p = p')

structure DAInv (I : DA) (st : St) : Prop where
  nodup : st.mu.Nodup
  before : ∀ p r, (p, r) ∈ st.mu → ∃ i, i < st.ptr p ∧ (I.plist p)[i]? = some r
  acc : ∀ p r, (p, r) ∈ st.mu → ∃ a, I.rrank r p = some a
  capR : ∀ r, (heldBy st.mu r).length ≤ I.qr r
  rej : ∀ p i r a, i < st.ptr p → (I.plist p)[i]? = some r → I.rrank r p = some a → (p, r) ∉ st.mu →
        (heldBy st.mu r).length = I.qr r ∧ ∀ p' ∈ heldBy st.mu r, ∃ b, I.rrank r p' = some b ∧ b < a
  ptr_le : ∀ p, st.ptr p ≤ (I.plist p).length

theorem nodup_getElem?_inj {l : List Nat} (hn : l.Nodup) {i j x : Nat}
    (hi : l[i]? = some x) (hj : l[j]? = some x) : i = j := by
  have hil : i < l.length := (List.getElem?_eq_some_iff.mp hi).1
  exact (List.getElem?_inj hil hn).mp (hi.trans hj.symm)

theorem setPtr_same (f : Nat → Nat) (p v : Nat) : setPtr f p v p = v := by simp [setPtr]
theorem setPtr_ne (f : Nat → Nat) (p v q : Nat) (h : q ≠ p) : setPtr f p v q = f q := by simp [setPtr, h]
theorem setPtr_ge (f : Nat → Nat) (p q : Nat) : f q ≤ setPtr f p (f p + 1) q := by
  unfold setPtr; split
  · next h => subst h; omega
  · omega

/-- the pair about to be proposed is not already in the matching -/
theorem fresh (I : DA) (hwf : WF I) (st : St) (h : DAInv I st) (p r : Nat)
    (hr : (I.plist p)[st.ptr p]? = some r) : (p, r) ∉ st.mu := by
  intro hm
  obtain ⟨i, hi, hir⟩ := h.before p r hm
  have := nodup_getElem?_inj (hwf.1 p) hir hr
  omega
