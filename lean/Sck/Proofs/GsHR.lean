import Sck.Proofs.Glue

/-! C01 prototype: the property-shaped statement for the resident-oriented branch, on rank matrices. -/

structure HR.WF (I : HR) : Prop where
  strictR : ∀ r, StrictRow (I.R.getD r [])
  strictH : ∀ h r r' a, rankAt I.H h r = some a → rankAt I.H h r' = some a → r = r'

/-- the property's blocking pair, literally -/
def BlockingHR (I : HR) (mu : List (Nat × Nat)) (r h : Nat) : Prop :=
  r < I.n ∧ ∃ x a, rankAt I.R r h = some x ∧ rankAt I.H h r = some a ∧ (r, h) ∉ mu ∧
    ((∀ h', (r, h') ∉ mu) ∨ ∃ h' x', (r, h') ∈ mu ∧ rankAt I.R r h' = some x' ∧ x < x') ∧
    ((heldBy mu h).length < I.cap.getD h 0 ∨ ∃ r' b, (r', h) ∈ mu ∧ rankAt I.H h r' = some b ∧ a < b)

theorem daRes_wf (I : HR) (hwf : I.WF) : WF (daRes I) := by
  refine ⟨?_, ?_⟩
  · intro p
    simp only [daRes]
    split
    · exact plistOfRow_nodup _
    · simp
  · intro h r r' a h1 h2
    exact hwf.strictH h r r' a h1 h2

theorem getD_none_of_le (l : List (Option Nat)) (h : Nat) (hl : l.length ≤ h) : l.getD h none = none := by
  rw [List.getD_eq_getElem?_getD, List.getElem?_eq_none hl]; rfl

theorem rank_some_mem_plist (I : HR) (r h x : Nat) (hr : r < I.n) (hx : rankAt I.R r h = some x) :
    h ∈ (daRes I).plist r ∧ keyOf (I.R.getD r []) h = x := by
  simp only [daRes, hr, if_true]
  unfold rankAt at hx
  have hlen : h < (I.R.getD r []).length := by
    by_contra hlen
    rw [getD_none_of_le _ _ (by omega)] at hx
    exact absurd hx (by simp)
  refine ⟨(mem_plistOfRow _ _).mpr ⟨hlen, by rw [hx]; rfl⟩, ?_⟩
  unfold keyOf; rw [hx]; rfl

theorem blockingHR_imp_blockingDA (I : HR) (hwf : I.WF) (mu : List (Nat × Nat)) (r h : Nat)
    (hb : BlockingHR I mu r h) : BlockingDA (daRes I) mu r h := by
  obtain ⟨hr, x, a, hx, ha, hnm, hres, hhosp⟩ := hb
  obtain ⟨hmem, hkey⟩ := rank_some_mem_plist I r h x hr hx
  obtain ⟨i, hi⟩ := List.getElem?_of_mem hmem
  refine ⟨⟨i, hi⟩, hnm, ?_, a, ha, ?_⟩
  · rcases hres with hnone | ⟨h', x', hm', hx', hlt⟩
    · left
      have : matchesOf mu r = [] := by
        apply List.eq_nil_iff_forall_not_mem.mpr
        intro h' hh'; exact hnone h' (mem_matchesOf.mp hh')
      simp [this, daRes]
    · right
      obtain ⟨hmem', hkey'⟩ := rank_some_mem_plist I r h' x' hr hx'
      obtain ⟨j, hj⟩ := List.getElem?_of_mem hmem'
      refine ⟨h', mem_matchesOf.mpr hm', i, j, ?_, hi, hj⟩
      have hi' := hi; have hj' := hj
      simp only [daRes, hr, if_true] at hi' hj'
      exact (plistOfRow_index_lt_iff _ (hwf.strictR r) i j h h' hi' hj').mpr (by omega)
  · rcases hhosp with hroom | ⟨r', b, hm', hb', hlt⟩
    · exact Or.inl hroom
    · exact Or.inr ⟨r', mem_heldBy.mpr hm', b, hb', hlt⟩

/-- **C01, resident-oriented: the returned matching has no blocking pair.** -/
theorem gsRes_no_blocking (I : HR) (hwf : I.WF) (mu : List (Nat × Nat)) (h : gsRes I = some mu) :
    ∀ r hh, ¬ BlockingHR I mu r hh := by
  intro r hh hb
  simp only [gsRes, Option.map_eq_some_iff] at h
  obtain ⟨st, hst, rfl⟩ := h
  have hout : ∀ p, I.n ≤ p → (daRes I).plist p = [] := by
    intro p hp; simp only [daRes]; split
    · omega
    · rfl
  exact gsLoop_stable (daRes I) (daRes_wf I hwf) I.n hout _ st hst r hh
    (blockingHR_imp_blockingDA I hwf st.mu r hh hb)

/-- non-vacuity: a concrete well-formed instance on which the model runs (3 residents, 2 hospitals) -/
def exHR : HR :=
  { n := 3, m := 2,
    R := [[some 1, some 2], [some 1, none], [some 2, some 1]],
    H := [[some 2, some 1, some 3], [some 1, none, some 2]],
    cap := [1, 1] }
#eval gsRes exHR

#print axioms gsRes_no_blocking
