import Sck.Proofs.VotingStv
import Sck.Proofs.VotingSym
import Mathlib.Data.List.Nodup
import Mathlib.Data.List.InsertIdx
import Mathlib.Data.List.Perm.Subperm

/-! STV is neutral whenever no elimination tie occurs (C11). -/

namespace Vote

/-! ## minima -/

theorem listMin_mem' {s : List Nat} (h : s ≠ []) : listMin s ∈ s := by
  induction s with
  | nil => exact absurd rfl h
  | cons a as ih =>
    cases as with
    | nil => simp [listMin]
    | cons b bs =>
      simp only [listMin]
      rcases Nat.le_total a (listMin (b :: bs)) with h1 | h1
      · rw [Nat.min_eq_left h1]; exact List.mem_cons_self
      · rw [Nat.min_eq_right h1]; exact List.mem_cons_of_mem _ (ih (by simp))

theorem listMin_le' (s : List Nat) : ∀ x ∈ s, listMin s ≤ x := by
  induction s with
  | nil => simp
  | cons a as ih =>
    intro x hx
    cases as with
    | nil => simp at hx; subst hx; simp [listMin]
    | cons b bs =>
      simp only [listMin]
      simp only [List.mem_cons] at hx
      rcases hx with rfl | hx
      · exact Nat.min_le_left _ _
      · exact Nat.le_trans (Nat.min_le_right _ _) (ih x (by simpa using hx))

theorem mem_argmins_iff {s : List Nat} {d : Nat} :
    d ∈ argmins s ↔ ∃ hd : d < s.length, ∀ j (hj : j < s.length), s[d] ≤ s[j] := by
  unfold argmins
  rw [List.mem_filter, List.mem_range]
  constructor
  · rintro ⟨hd, he⟩
    refine ⟨hd, fun j hj => ?_⟩
    rw [getD_eq_getElem s d 0 hd] at he
    have he' : s[d] = listMin s := by simpa using he
    rw [he']
    exact listMin_le' s _ (List.getElem_mem hj)
  · rintro ⟨hd, hm⟩
    refine ⟨hd, ?_⟩
    rw [getD_eq_getElem s d 0 hd]
    have hne : s ≠ [] := by intro h; subst h; simp at hd
    obtain ⟨k, hk, hkm⟩ := List.mem_iff_getElem.1 (listMin_mem' hne)
    have h1 : s[d] ≤ listMin s := hkm ▸ hm k hk
    have h2 : listMin s ≤ s[d] := listMin_le' s _ (List.getElem_mem hd)
    simpa using Nat.le_antisymm h1 h2

theorem argmins_nodup (s : List Nat) : (argmins s).Nodup :=
  List.Nodup.filter _ List.nodup_range

/-- minimal positions are permuted accordingly -/
theorem argmins_rename {s s' : List Nat} {sig : List Nat} {m : Nat}
    (hsig : sig.Perm (List.range m)) (hs : s.length = m) (hs' : s'.length = m)
    (hrel : ∀ a b : Nat, sig[a]? = some b → s'[a]? = s[b]?) {a b : Nat} (h : sig[a]? = some b) :
    a ∈ argmins s' ↔ b ∈ argmins s := by
  obtain ⟨ha, hb⟩ := sig_lt hsig h
  have key : ∀ a b : Nat, sig[a]? = some b → ∀ (h1 : a < s'.length) (h2 : b < s.length), s'[a] = s[b] := by
    intro a b hab h1 h2
    have := hrel a b hab
    rw [List.getElem?_eq_getElem h1, List.getElem?_eq_getElem h2] at this
    exact Option.some.inj this
  rw [mem_argmins_iff, mem_argmins_iff]
  constructor
  · rintro ⟨h1, hm⟩
    refine ⟨hs ▸ hb, fun k hk => ?_⟩
    obtain ⟨c, hc, hck⟩ := sig_surj hsig (hs ▸ hk)
    rw [← key a b h h1 (hs ▸ hb), ← key c k hck (hs' ▸ hc) hk]
    exact hm c _
  · rintro ⟨h1, hm⟩
    refine ⟨hs' ▸ ha, fun k hk => ?_⟩
    obtain ⟨d, hd⟩ := sig_total hsig (hs' ▸ hk)
    have hdm := (sig_lt hsig hd).2
    rw [key a b h (hs' ▸ ha) h1, key k d hd hk (hs ▸ hdm)]
    exact hm d _

theorem sig_inj {sig : List Nat} {m a a' b : Nat} (hsig : sig.Perm (List.range m))
    (h : sig[a]? = some b) (h' : sig[a']? = some b) : a = a' := by
  have hnd : sig.Nodup := hsig.nodup_iff.2 List.nodup_range
  obtain ⟨ha, e⟩ := List.getElem?_eq_some_iff.1 h
  obtain ⟨ha', e'⟩ := List.getElem?_eq_some_iff.1 h'
  exact (hnd.getElem_inj_iff (hi := ha) (hj := ha')).1 (e.trans e'.symm)

theorem argmins_rename_single {s s' : List Nat} {sig : List Nat} {m : Nat}
    (hsig : sig.Perm (List.range m)) (hs : s.length = m) (hs' : s'.length = m)
    (hrel : ∀ a b : Nat, sig[a]? = some b → s'[a]? = s[b]?) {d' d : Nat} (h : sig[d']? = some d)
    (hd : argmins s = [d]) : argmins s' = [d'] := by
  rw [← List.perm_singleton, List.perm_ext_iff_of_nodup (argmins_nodup s') (List.nodup_singleton d')]
  intro a
  rw [List.mem_singleton]
  constructor
  · intro ha
    have ham : a < m := by
      have := (mem_argmins_iff.1 ha).1; omega
    obtain ⟨b, hb⟩ := sig_total hsig ham
    have : b ∈ argmins s := (argmins_rename hsig hs hs' hrel hb).1 ha
    rw [hd, List.mem_singleton] at this
    subst this
    exact sig_inj hsig hb h
  · rintro rfl
    exact (argmins_rename hsig hs hs' hrel h).2 (by rw [hd]; exact List.mem_singleton_self d)

/-! ## plurality scores of a renamed profile -/

theorem colCount1_rename {sig : List Nat} {a b : Nat} (h : sig[a]? = some b) (P : Profile) :
    colCount1 (renameProfile sig P) a = colCount1 P b := by
  unfold colCount1 renameProfile
  rw [List.filter_map, List.length_map]
  congr 1
  apply List.filter_congr
  intro row _
  simp only [Function.comp]
  rw [renameBallot_getD h]

theorem pluralityScores_rename {sig : List Nat} {w : Nat} (hsig : sig.Perm (List.range w)) (P : Profile)
    (a b : Nat) (h : sig[a]? = some b) :
    (pluralityScores (renameProfile sig P) w)[a]? = (pluralityScores P w)[b]? := by
  obtain ⟨ha, hb⟩ := sig_lt hsig h
  unfold pluralityScores
  simp only [List.getElem?_map, List.getElem?_range ha, List.getElem?_range hb, Option.map_some]
  rw [colCount1_rename h]

/-! ## dropping a column commutes with renaming -/

/-- position of old alternative `x ≠ d` after column `d` has been deleted -/
def adj (d x : Nat) : Nat := if d < x then x - 1 else x

/-- the renaming that relates the two profiles after the renamed run dropped `d'` and the original run `d` -/
def sigDrop (sig : List Nat) (d' d : Nat) : List Nat := (sig.eraseIdx d').map (adj d)

theorem getElem?_eraseIdx_adj {α : Type} (l : List α) {d x : Nat} (hx : x ≠ d) :
    (l.eraseIdx d)[adj d x]? = l[x]? := by
  rw [List.getElem?_eraseIdx]
  unfold adj
  by_cases h : d < x
  · rw [if_pos h, if_neg (by omega)]
    congr 1; omega
  · rw [if_neg h, if_pos (by omega)]

theorem mem_eraseIdx_ne {sig : List Nat} {m d' d x : Nat} (hsig : sig.Perm (List.range m))
    (h : sig[d']? = some d) (hx : x ∈ sig.eraseIdx d') : x ≠ d ∧ x < m := by
  obtain ⟨i, hi, hix⟩ := List.mem_eraseIdx_iff_getElem?.1 hx
  refine ⟨?_, (sig_lt hsig hix).2⟩
  rintro rfl
  exact hi (sig_inj hsig hix h)

theorem dropRow_rename {sig row : List Nat} {m d' d : Nat} (hsig : sig.Perm (List.range m))
    (h : sig[d']? = some d) :
    dropRow (renameBallot sig row) d' = renameBallot (sigDrop sig d' d) (dropRow row d) := by
  unfold dropRow
  rw [renameBallot_getD h]
  unfold renameBallot sigDrop
  rw [List.eraseIdx_map, List.map_map, List.map_map]
  apply List.map_congr_left
  intro x hx
  obtain ⟨hxd, _⟩ := mem_eraseIdx_ne hsig h hx
  simp only [Function.comp]
  have e : ∀ hh : Nat → Nat, (List.map hh (row.eraseIdx d)).getD (adj d x) 0 = (row[x]?.map hh).getD 0 := by
    intro hh
    rw [List.getD_eq_getElem?_getD, List.getElem?_map, getElem?_eraseIdx_adj _ hxd]
  rw [e, List.getD_eq_getElem?_getD (l := row) (i := x)]
  cases hr : row[x]? with
  | none =>
    simp only [Option.map_none, Option.getD_none]
    rw [if_neg (by omega)]
  | some r => simp

theorem sigDrop_perm {sig : List Nat} {m d' d : Nat} (hsig : sig.Perm (List.range m))
    (h : sig[d']? = some d) : (sigDrop sig d' d).Perm (List.range (m - 1)) := by
  have hnd : sig.Nodup := hsig.nodup_iff.2 List.nodup_range
  have hlen : sig.length = m := by simpa using hsig.length_eq
  obtain ⟨hd', hd⟩ := sig_lt hsig h
  have hnd2 : (sigDrop sig d' d).Nodup := by
    unfold sigDrop
    apply List.Nodup.map_on _ (hnd.eraseIdx d')
    intro x hx y hy hxy
    have h1 := (mem_eraseIdx_ne hsig h hx).1
    have h2 := (mem_eraseIdx_ne hsig h hy).1
    unfold adj at hxy
    split at hxy <;> split at hxy <;> omega
  have hsub : sigDrop sig d' d ⊆ List.range (m - 1) := by
    intro y hy
    unfold sigDrop at hy
    obtain ⟨x, hx, rfl⟩ := List.mem_map.1 hy
    obtain ⟨h1, h2⟩ := mem_eraseIdx_ne hsig h hx
    rw [List.mem_range]
    unfold adj
    split <;> omega
  apply (hnd2.subperm hsub).perm_of_length_le
  unfold sigDrop
  rw [List.length_map, List.length_eraseIdx, List.length_range, hlen, if_pos hd']

theorem sigDrop_get {sig : List Nat} {m d' d a b : Nat} (hsig : sig.Perm (List.range m))
    (h : sig[d']? = some d) (hab : (sigDrop sig d' d)[a]? = some b) :
    ∃ a0 x, a0 ≠ d' ∧ x ≠ d ∧ sig[a0]? = some x ∧ b = adj d x ∧
      ∀ {α : Type} (l : List α), (l.eraseIdx d')[a]? = l[a0]? := by
  unfold sigDrop at hab
  rw [List.getElem?_map, List.getElem?_eraseIdx] at hab
  by_cases ha : a < d'
  · rw [if_pos ha] at hab
    obtain ⟨x, hx, rfl⟩ := Option.map_eq_some_iff.1 hab
    refine ⟨a, x, by omega, ?_, hx, rfl, fun l => by rw [List.getElem?_eraseIdx, if_pos ha]⟩
    rintro rfl
    exact absurd (sig_inj hsig hx h) (by omega)
  · rw [if_neg ha] at hab
    obtain ⟨x, hx, rfl⟩ := Option.map_eq_some_iff.1 hab
    refine ⟨a + 1, x, by omega, ?_, hx, rfl, fun l => by rw [List.getElem?_eraseIdx, if_neg ha]⟩
    rintro rfl
    exact absurd (sig_inj hsig hx h) (by omega)

/-! ## the run -/

theorem dropRow_length' (row : List Nat) (d : Nat) (hd : d < row.length) :
    (dropRow row d).length = row.length - 1 := by
  unfold dropRow
  rw [List.length_map, List.length_eraseIdx, if_pos hd]

/-- STV on the renamed profile follows the run on the original profile step by step, as long as the
original run never meets an elimination tie; `φ` translates the labels of the renamed run into the labels
of the original run. -/
theorem stvLoop_rename (choose : List Nat → Nat) (hch : ∀ x, choose [x] = x) (φ : Nat → Nat) :
    ∀ (fuel : Nat) (P : Profile) (w : Nat) (sig L L' : List Nat),
      sig.Perm (List.range w) → (∀ row ∈ P, row.length = w) → L.length = w → L'.length = w →
      (∀ a b : Nat, sig[a]? = some b → (L'[a]?).map φ = L[b]?) →
      stvNoTie fuel P w = true →
      (stvLoop choose fuel (renameProfile sig P) L').map φ = stvLoop choose fuel P L := by
  intro fuel
  induction fuel with
  | zero => intros; rfl
  | succ n ih =>
    intro P w sig L L' hsig hP hL hL' hrel hnt
    match L, L', hL, hL', hrel with
    | [], [], _, _, _ => rfl
    | [], _ :: _, h1, h2, _ => simp at h1 h2; omega
    | _ :: _, [], h1, h2, _ => simp at h1 h2; omega
    | [x], [x'], h1, _, hrel =>
      have hw : w = 1 := by simpa using h1.symm
      subst hw
      have hs : sig = [0] := by
        have := hsig; simpa using this
      subst hs
      have := hrel 0 0 (by simp)
      simpa [stvLoop] using this
    | [_], _ :: _ :: _, h1, h2, _ => simp at h1 h2; omega
    | _ :: _ :: _, [_], h1, h2, _ => simp at h1 h2; omega
    | x :: y :: rest, x' :: y' :: rest', h1, h2, hrel =>
      have hw : ¬ w ≤ 1 := by simp at h1; omega
      simp only [stvNoTie, if_neg hw] at hnt
      split at hnt
      · rename_i d hd
        have hdm : d < w := by
          have : d ∈ argmins (pluralityScores P w) := by rw [hd]; exact List.mem_singleton_self d
          have := (mem_argmins_iff.1 this).1
          simpa [pluralityScores] using this
        obtain ⟨d', hd'w, hd'⟩ := sig_surj hsig hdm
        have hd2 : argmins (pluralityScores (renameProfile sig P) w) = [d'] :=
          argmins_rename_single hsig (by simp [pluralityScores]) (by simp [pluralityScores])
            (pluralityScores_rename hsig P) hd' hd
        simp only [stvLoop]
        rw [h1, h2, hd, hd2, hch, hch]
        have hmap : (renameProfile sig P).map (fun row => dropRow row d')
            = renameProfile (sigDrop sig d' d) (P.map (fun row => dropRow row d)) := by
          unfold renameProfile
          rw [List.map_map, List.map_map]
          apply List.map_congr_left
          intro row _
          exact dropRow_rename hsig hd'
        rw [hmap]
        apply ih _ (w - 1) _ _ _ (sigDrop_perm hsig hd')
        · intro row hrow
          obtain ⟨r0, hr0, rfl⟩ := List.mem_map.1 hrow
          rw [dropRow_length' r0 d (by rw [hP r0 hr0]; exact hdm), hP r0 hr0]
        · rw [List.length_eraseIdx, h1, if_pos hdm]
        · rw [List.length_eraseIdx, h2, if_pos hd'w]
        · intro a b hab
          obtain ⟨a0, x0, ha0, hx0, hs0, rfl, herase⟩ := sigDrop_get hsig hd' hab
          rw [herase, getElem?_eraseIdx_adj _ hx0]
          exact hrel a0 x0 hs0
        · exact hnt
      · exact absurd hnt (by simp)

theorem stvLoop_mem (choose : List Nat → Nat) :
    ∀ (fuel : Nat) (P : Profile) (L : List Nat) (x : Nat), stvLoop choose fuel P L = some x → x ∈ L := by
  intro fuel
  induction fuel with
  | zero => intro P L x h; simp [stvLoop] at h
  | succ n ih =>
    intro P L x h
    match L, h with
    | [], h => simp [stvLoop] at h
    | [a], h => simp [stvLoop] at h; simp [h]
    | a :: b :: rest, h =>
      simp only [stvLoop] at h
      exact (List.eraseIdx_sublist _ _).subset (ih _ _ _ h)

/-- STV is neutral whenever no elimination tie occurs (in the run on the original profile): the run on the
renamed profile fails iff the original one does, and if it returns `x'` then `x'` is the label `a + fixer` of a
new alternative `a`, and the original run returns the label of the old alternative `sig[a]`. -/
theorem stv_rename (choose : List Nat → Nat) (hch : ∀ x, choose [x] = x) {sig : List Nat} {m : Nat}
    (hsig : sig.Perm (List.range m)) {P : Profile} (hP : ∀ row ∈ P, row.length = m) (fixer : Nat)
    (hnt : stvNoTie m P m = true) :
    (stv choose (renameProfile sig P) m fixer = none ↔ stv choose P m fixer = none) ∧
    ∀ x', stv choose (renameProfile sig P) m fixer = some x' →
      ∃ a b : Nat, sig[a]? = some b ∧ x' = a + fixer ∧ stv choose P m fixer = some (b + fixer) := by
  unfold stv
  have key := stvLoop_rename choose hch (fun x => sig.getD (x - fixer) 0 + fixer) m P m sig
    ((List.range m).map (· + fixer)) ((List.range m).map (· + fixer)) hsig hP (by simp) (by simp)
    (by
      intro a b hab
      obtain ⟨ha, hb⟩ := sig_lt hsig hab
      simp only [List.getElem?_map, List.getElem?_range ha, List.getElem?_range hb, Option.map_some]
      rw [Nat.add_sub_cancel, List.getD_eq_getElem?_getD, hab]
      rfl) hnt
  constructor
  · rw [← key]; simp
  · intro x' hx'
    have hmem := stvLoop_mem choose _ _ _ _ hx'
    obtain ⟨a, ha, rfl⟩ := List.mem_map.1 hmem
    obtain ⟨b, hb⟩ := sig_total hsig (List.mem_range.1 ha)
    refine ⟨a, b, hb, rfl, ?_⟩
    rw [← key, hx']
    simp only [Option.map_some, Nat.add_sub_cancel]
    rw [List.getD_eq_getElem?_getD, hb]
    rfl

end Vote
