import Sck.Proofs.LatticeI7

/-! # C03, package L8a, part 8: what `eliminating_rotations_of_pair` (`elim`) records

`dictGet? elim (m, w) = some k` iff the `k`-th rotation of the mirror's list moves `w` past `m`: before it `w` likes `m`
at least as much as her partner (`m` is on her list), after it she strictly prefers her partner to `m` (`m` has left her
list). -/

namespace SMLattice

open Irving IrvingAlgo

theorem dget_nil {κ β : Type} [BEq κ] (k : κ) : dictGet? ([] : List (κ × β)) k = none := rfl

theorem dget_cons {κ β : Type} [BEq κ] (k0 : κ) (v0 : β) (d : List (κ × β)) (k : κ) :
    dictGet? ((k0, v0) :: d) k = if k0 == k then some v0 else dictGet? d k := by
  unfold dictGet?
  rw [List.find?_cons]
  by_cases h : (k0 == k) = true
  · simp [h]
  · simp [h]

theorem dget_dictSet {κ β : Type} [BEq κ] [LawfulBEq κ] [DecidableEq κ] (d : List (κ × β)) (k : κ) (v : β)
    (k' : κ) : dictGet? (dictSet d k v) k' = if k' = k then some v else dictGet? d k' := by
  induction d with
  | nil =>
    rw [dictSet, dget_cons, dget_nil]
    by_cases h : k' = k
    · subst h; simp
    · have : (k == k') = false := by simpa using fun e : k = k' => h e.symm
      simp [h, this]
  | cons e d ih =>
    obtain ⟨k0, v0⟩ := e
    rw [dictSet]
    by_cases h0 : (k0 == k) = true
    · have hk0 : k0 = k := by simpa using h0
      rw [if_pos h0, dget_cons, dget_cons]
      subst hk0
      by_cases h : k' = k0
      · subst h; simp
      · have : (k0 == k') = false := by simpa using fun e : k0 = k' => h e.symm
        simp [h, this]
    · rw [if_neg h0, dget_cons, dget_cons, ih]
      have hk0 : k0 ≠ k := by simpa using h0
      by_cases h : k' = k
      · subst h
        have : (k0 == k') = false := by simpa using hk0
        simp [this]
      · simp [h]

theorem dget_foldl_dictSet (w idx : Nat) : ∀ (xs : List Nat) (d : List (Pair × Nat)) (m' w' : Nat),
    dictGet? (xs.foldl (fun e m => dictSet e (m, w) idx) d) (m', w')
      = if w' = w ∧ m' ∈ xs then some idx else dictGet? d (m', w') := by
  intro xs
  induction xs with
  | nil => intro d m' w'; simp
  | cons x xs ih =>
    intro d m' w'
    rw [List.foldl_cons, ih, dget_dictSet]
    by_cases hw : w' = w
    · by_cases hx : m' = x
      · simp [hw, hx]
      · by_cases hin : m' ∈ xs
        · simp [hw, hin]
        · simp [hw, hx, hin]
    · simp [hw]

variable {n : ℕ}

/-- `m` is on `w`'s list in the matching `N`: she likes him at least as much as her `N`-partner -/
def OnList (n : ℕ) (P2 : List (List Nat)) (N : Equiv.Perm (Fin n)) (m w : Nat) : Prop :=
  ∃ (hm : m < n) (hw : w < n), rk n P2 ⟨w, hw⟩ ⟨m, hm⟩ ≤ rk n P2 ⟨w, hw⟩ (N.symm ⟨w, hw⟩)

theorem WInv.onList {P2 : List (List Nat)} {l2 : List (List Nat)} {pm2 : List (List Bool)} {N : Equiv.Perm (Fin n)}
    (hW : WInv n P2 l2 pm2 N.symm) (m w : Nat) : m ∈ l2.getD w [] ↔ OnList n P2 N m w := by
  constructor
  · intro h
    obtain ⟨hw, hm⟩ := hW.lt w m h
    exact ⟨hm, hw, ((hW.mem ⟨w, hw⟩ m).mp h).2⟩
  · rintro ⟨hm, hw, h⟩
    exact (hW.mem ⟨w, hw⟩ m).mpr ⟨hm, h⟩

theorem onList_elim {P1 P2 : List (List Nat)} {μ : Equiv.Perm (Fin n)} {ρ : List (Fin n)}
    (hex : ExposedRot (rk n P1) (rk n P2) μ ρ) {m w : Nat} (h : OnList n P2 (elim μ ρ) m w) : OnList n P2 μ m w := by
  obtain ⟨hm, hw, h⟩ := h
  exact ⟨hm, hw, Nat.le_trans h (elim_women_le hex ⟨w, hw⟩)⟩

/-- the entries `truncStep` adds to `eliminating_rotations_of_pair` are the pairs that leave the women's lists -/
theorem truncStep_elim {P2 : List (List Nat)} {st : LvSt} {hus : Fin n → Fin n}
    (hW : WInv n P2 st.l2 st.pm2 hus) (rho : List Pair) (idx i : Nat) (w m' : Fin n)
    (hw : (rotAt rho i).2 = w) (hm' : (rotAt rho ((i + rho.length - 1) % rho.length)).1 = m')
    (hmem : (m' : Nat) ∈ st.l2.getD w []) :
    (∀ m w1 : Nat, dictGet? (truncStep rho idx st i).elim (m, w1)
      = if m ∈ st.l2.getD w1 [] ∧ m ∉ (truncStep rho idx st i).l2.getD w1 [] then some idx
        else dictGet? st.elim (m, w1)) ∧
    (truncStep rho idx st i).cnt = st.cnt := by
  have hsorted := hW.sorted w
  have hnd := nodup_of_sorted hsorted
  obtain ⟨A, B, hL, htake, hdrop⟩ := trunc_lists hmem hnd
  have hwl : (w : Nat) < st.l2.length := by rw [hW.len]; exact w.2
  have hl2 : (truncStep rho idx st i).l2 = st.l2.set w (A ++ [(m' : Nat)]) := by
    simp only [truncStep, hw, hm', hdrop]
    simp
  have hel : (truncStep rho idx st i).elim
      = B.reverse.foldl (fun e m => dictSet e (m, (w : Nat)) idx) st.elim := by
    simp only [truncStep, hw, hm', htake]
  have hget : ∀ w' : Nat, (truncStep rho idx st i).l2.getD w' []
      = if w' = w then A ++ [(m' : Nat)] else st.l2.getD w' [] := by
    intro w'; rw [hl2]; exact getD_set_list _ _ hwl _ _
  rw [hL] at hnd
  obtain ⟨hndA, hndB, hdAB⟩ := List.nodup_append.mp hnd
  refine ⟨?_, rfl⟩
  intro m w1
  rw [hel, dget_foldl_dictSet, hget]
  apply if_congr _ rfl rfl
  by_cases hww : w1 = (w : Nat)
  · subst hww
    rw [if_pos rfl, hL]
    simp only [true_and, List.mem_reverse, List.mem_append, List.mem_cons, List.not_mem_nil, or_false]
    constructor
    · intro hB
      refine ⟨Or.inr (Or.inr hB), ?_⟩
      rintro (h | h)
      · exact hdAB m h m (List.mem_cons_of_mem _ hB) rfl
      · rw [h] at hB; exact (List.nodup_cons.mp hndB).1 hB
    · rintro ⟨h | h | h, hnot⟩
      · exact absurd (Or.inl h) hnot
      · exact absurd (Or.inr h) hnot
      · exact h
  · rw [if_neg hww]
    constructor
    · intro h; exact absurd h.1 hww
    · intro h; exact absurd h.1 h.2

/-- the entries `elimRot` adds, in terms of the lists -/
theorem elimRot_elim_lists {P1 P2 : List (List Nat)} {st : LvSt} {μ : Equiv.Perm (Fin n)}
    (hW : WInv n P2 st.l2 st.pm2 μ.symm) {ρ : List (Fin n)} (hex : ExposedRot (rk n P1) (rk n P2) μ ρ) :
    ∀ k, k ≤ ρ.length →
      (∀ m w1 : Nat, dictGet? ((List.range k).foldl (truncStep (rotPairs μ ρ) st.cnt) st).elim (m, w1)
        = if m ∈ st.l2.getD w1 [] ∧
              m ∉ ((List.range k).foldl (truncStep (rotPairs μ ρ) st.cnt) st).l2.getD w1 [] then some st.cnt
          else dictGet? st.elim (m, w1)) ∧
      ((List.range k).foldl (truncStep (rotPairs μ ρ) st.cnt) st).cnt = st.cnt := by
  intro k
  induction k with
  | zero => intro _; exact ⟨fun m w1 => by simp, rfl⟩
  | succ k ih =>
    intro hk
    have hk' : k < ρ.length := by omega
    obtain ⟨ihE, ihc⟩ := ih (by omega)
    obtain ⟨ihW, _, ihsh⟩ := foldl_truncStep_winv hW hex st.cnt k (by omega)
    obtain ⟨_, _, ihsh'⟩ := foldl_truncStep_winv hW hex st.cnt (k + 1) hk
    rw [List.range_succ, List.foldl_append] at ihsh' ⊢
    simp only [List.foldl_cons, List.foldl_nil] at ihsh' ⊢
    set stk := (List.range k).foldl (truncStep (rotPairs μ ρ) st.cnt) st with hstk
    have hkm : (k + ρ.length - 1) % ρ.length < ρ.length := Nat.mod_lt _ (by omega)
    have hprev := prev_formPerm hex.1 k hk'
    have hw : (rotAt (rotPairs μ ρ) k).2 = ((μ ρ[k] : Fin n) : Nat) := by
      rw [rotAt_rotPairs μ ρ k hk']; rfl
    have hm' : (rotAt (rotPairs μ ρ) ((k + (rotPairs μ ρ).length - 1) % (rotPairs μ ρ).length)).1
        = ((ρ[(k + ρ.length - 1) % ρ.length] : Fin n) : Nat) := by
      rw [rotPairs_length, rotAt_rotPairs μ ρ _ hkm]; rfl
    have hidx : ρ.idxOf (μ.symm (μ ρ[k])) = k := by
      rw [Equiv.symm_apply_apply]; exact hex.1.idxOf_getElem k hk'
    have hmem : ((ρ[(k + ρ.length - 1) % ρ.length] : Fin n) : Nat) ∈ stk.l2.getD (μ ρ[k]) [] := by
      rw [ihW.mem_fin]
      have hh : husK μ ρ k (μ ρ[k]) = ρ[k] := by
        unfold husK
        rw [hidx, if_neg (Nat.lt_irrefl _)]; simp
      rw [hh]
      have := (hex.2.2 _ (List.getElem_mem hkm)).1.2
      rw [hprev] at this
      simp only [Equiv.symm_apply_apply] at this
      exact Nat.le_of_lt this
    obtain ⟨hE, hc⟩ := truncStep_elim ihW (rotPairs μ ρ) st.cnt k (μ ρ[k])
      ρ[(k + ρ.length - 1) % ρ.length] hw hm' hmem
    obtain ⟨_, _, hsh1⟩ := truncStep_winv ihW (rotPairs μ ρ) st.cnt k (μ ρ[k])
      ρ[(k + ρ.length - 1) % ρ.length] hw hm' hmem
    refine ⟨?_, hc.trans ihc⟩
    intro m w1
    rw [hE, ihE]
    have hba : m ∈ stk.l2.getD w1 [] → m ∈ st.l2.getD w1 [] := ihsh w1 m
    have hcb := hsh1 w1 m
    by_cases a : m ∈ st.l2.getD w1 []
    · by_cases b : m ∈ stk.l2.getD w1 []
      · by_cases c : m ∈ (truncStep (rotPairs μ ρ) st.cnt stk k).l2.getD w1 []
        · simp only [a, b, c, not_true_eq_false, and_false, if_false]
        · simp only [a, b, c, not_false_eq_true, and_self, if_true]
      · have c : m ∉ (truncStep (rotPairs μ ρ) st.cnt stk k).l2.getD w1 [] := fun h => b (hcb h)
        simp only [a, b, c, not_false_eq_true, and_self, and_true, if_true, if_false]
    · have b : m ∉ stk.l2.getD w1 [] := fun h => a (hba h)
      have c : m ∉ (truncStep (rotPairs μ ρ) st.cnt stk k).l2.getD w1 [] := fun h => b (hcb h)
      simp only [a, b, c, not_false_eq_true, and_true, if_false]

/-- old entries of `eliminating_rotations_of_pair` belong to pairs that have left the lists -/
def EOld (n : ℕ) (P2 : List (List Nat)) (st : LvSt) (μ : Equiv.Perm (Fin n)) : Prop :=
  ∀ m w k, dictGet? st.elim (m, w) = some k → ¬ OnList n P2 μ m w

/-- **the entries `elimRot` adds**: exactly the pairs `(m, w)` such that the rotation moves `w` past `m`, with the
current rotation number -/
theorem elimRot_elim {P1 P2 : List (List Nat)} {st : LvSt} {μ : Equiv.Perm (Fin n)}
    (hW : WInv n P2 st.l2 st.pm2 μ.symm) {ρ : List (Fin n)} (hex : ExposedRot (rk n P1) (rk n P2) μ ρ)
    (hold : EOld n P2 st μ) :
    (∀ m w k, dictGet? (elimRot st (rotPairs μ ρ)).elim (m, w) = some k ↔
      dictGet? st.elim (m, w) = some k ∨ (k = st.cnt ∧ OnList n P2 μ m w ∧ ¬ OnList n P2 (elim μ ρ) m w)) ∧
    (elimRot st (rotPairs μ ρ)).cnt = st.cnt + 1 ∧ EOld n P2 (elimRot st (rotPairs μ ρ)) (elim μ ρ) := by
  obtain ⟨hE, _⟩ := elimRot_elim_lists hW hex ρ.length (Nat.le_refl _)
  obtain ⟨hW', _, _⟩ := elimRot_winv hW hex
  have hE' : ∀ m w1 : Nat, dictGet? (elimRot st (rotPairs μ ρ)).elim (m, w1)
      = if m ∈ st.l2.getD w1 [] ∧ m ∉ (elimRot st (rotPairs μ ρ)).l2.getD w1 [] then some st.cnt
        else dictGet? st.elim (m, w1) := by
    intro m w1
    have := hE m w1
    unfold elimRot
    rw [rotPairs_length]
    exact this
  have hiff : ∀ m w k, dictGet? (elimRot st (rotPairs μ ρ)).elim (m, w) = some k ↔
      dictGet? st.elim (m, w) = some k ∨ (k = st.cnt ∧ OnList n P2 μ m w ∧ ¬ OnList n P2 (elim μ ρ) m w) := by
    intro m w k
    rw [hE']
    have e1 := hW.onList m w
    have e2 := hW'.onList m w
    split
    · rename_i hc
      have hc' : OnList n P2 μ m w ∧ ¬ OnList n P2 (elim μ ρ) m w := ⟨e1.mp hc.1, fun h => hc.2 (e2.mpr h)⟩
      constructor
      · intro h; exact Or.inr ⟨(Option.some.inj h).symm, hc'⟩
      · rintro (h | ⟨h, _⟩)
        · exact absurd hc'.1 (hold m w k h)
        · rw [h]
    · rename_i hc
      constructor
      · exact fun h => Or.inl h
      · rintro (h | ⟨_, h1, h2⟩)
        · exact h
        · exact absurd ⟨e1.mpr h1, fun h => h2 (e2.mp h)⟩ hc
  refine ⟨hiff, by unfold elimRot; rfl, ?_⟩
  intro m w k h
  rcases (hiff m w k).mp h with h | ⟨_, _, h⟩
  · exact fun hc => hold m w k h (onList_elim hex hc)
  · exact h

/-! ### along an elimination path -/

/-- the matching after the first `j` eliminations of the path `ρs` from `μ` -/
def pathAt (μ : Equiv.Perm (Fin n)) (ρs : List (List (Fin n))) (j : Nat) : Equiv.Perm (Fin n) :=
  (ρs.take j).foldl elim μ

@[simp] theorem pathAt_zero (μ : Equiv.Perm (Fin n)) (ρs : List (List (Fin n))) : pathAt μ ρs 0 = μ := by
  simp [pathAt]

@[simp] theorem pathAt_nil (μ : Equiv.Perm (Fin n)) (j : Nat) : pathAt μ [] j = μ := by simp [pathAt]

theorem pathAt_cons_succ (μ : Equiv.Perm (Fin n)) (ρ : List (Fin n)) (ρs : List (List (Fin n))) (j : Nat) :
    pathAt μ (ρ :: ρs) (j + 1) = pathAt (elim μ ρ) ρs j := by simp [pathAt]

theorem elimPath_eq_pathAt {P1 P2 : Fin n → Fin n → ℕ} : ∀ (ρs : List (List (Fin n))) (μ ν : Equiv.Perm (Fin n)),
    ElimPath P1 P2 μ ρs ν → ν = pathAt μ ρs ρs.length := by
  intro ρs
  induction ρs with
  | nil => intro μ ν h; cases h; simp
  | cons ρ ρs ih =>
    intro μ ν h
    rw [List.length_cons, pathAt_cons_succ]
    exact ih _ _ h.2

theorem pathAt_append_le (μ : Equiv.Perm (Fin n)) (A B : List (List (Fin n))) {j : Nat} (hj : j ≤ A.length) :
    pathAt μ (A ++ B) j = pathAt μ A j := by
  unfold pathAt
  rw [List.take_append_of_le_length hj]

theorem pathAt_append_ge (μ : Equiv.Perm (Fin n)) (A B : List (List (Fin n))) (j : Nat) :
    pathAt μ (A ++ B) (A.length + j) = pathAt (pathAt μ A A.length) B j := by
  unfold pathAt
  rw [List.take_append, List.foldl_append, List.take_length]
  simp [List.take_of_length_le]

/-- rotation number `j` of the path `ρs` from `μ` MOVES `w` PAST `m`: before it `m` is on `w`'s list (she likes him at
least as much as her partner), after it he is not (she strictly prefers her new partner) -/
def MovesPast (n : ℕ) (P2 : List (List Nat)) (μ : Equiv.Perm (Fin n)) (ρs : List (List (Fin n))) (j m w : Nat) : Prop :=
  j < ρs.length ∧ OnList n P2 (pathAt μ ρs j) m w ∧ ¬ OnList n P2 (pathAt μ ρs (j + 1)) m w

/-- **`elimRot` folded along an elimination path**: the women's side of the invariant at the end, and the new entries of
`eliminating_rotations_of_pair` are exactly `(m, w) ↦ cnt + j` with rotation `j` of the path moving `w` past `m` -/
theorem path_fold_elim {P1 P2 : List (List Nat)} (h1 : ∀ a, Function.Injective (rk n P1 a)) :
    ∀ (ρs : List (List (Fin n))) (st : LvSt) (μ ν : Equiv.Perm (Fin n)),
      WInv n P2 st.l2 st.pm2 μ.symm → StableSM (rk n P1) (rk n P2) μ → ElimPath (rk n P1) (rk n P2) μ ρs ν →
      EOld n P2 st μ →
      WInv n P2 ((pathPairs μ ρs).foldl elimRot st).l2 ((pathPairs μ ρs).foldl elimRot st).pm2 ν.symm ∧
      (∀ m w k, dictGet? ((pathPairs μ ρs).foldl elimRot st).elim (m, w) = some k ↔
        dictGet? st.elim (m, w) = some k ∨ ∃ j, k = st.cnt + j ∧ MovesPast n P2 μ ρs j m w) ∧
      ((pathPairs μ ρs).foldl elimRot st).cnt = st.cnt + ρs.length ∧
      EOld n P2 ((pathPairs μ ρs).foldl elimRot st) ν := by
  intro ρs
  induction ρs with
  | nil =>
    intro st μ ν hW _ hp hold
    cases hp
    refine ⟨hW, ?_, rfl, hold⟩
    intro m w k
    simp only [pathPairs, List.foldl_nil]
    constructor
    · exact fun h => Or.inl h
    · rintro (h | ⟨j, _, hj, _⟩)
      · exact h
      · simp at hj
  | cons ρ rest ih =>
    intro st μ ν hW hμ hp hold
    obtain ⟨hex, hp'⟩ := hp
    obtain ⟨hW1, _, _⟩ := elimRot_winv hW hex
    obtain ⟨hE1, hc1, hold1⟩ := elimRot_elim hW hex hold
    obtain ⟨hW2, hE2, hc2, hold2⟩ := ih (elimRot st (rotPairs μ ρ)) (elim μ ρ) ν hW1
      (exposed_elim_stable h1 hμ hex).1 hp' hold1
    simp only [pathPairs, List.foldl_cons]
    refine ⟨hW2, ?_, by rw [hc2, hc1, List.length_cons]; omega, hold2⟩
    intro m w k
    rw [hE2, hE1, hc1]
    constructor
    · rintro ((h | ⟨hk, hon, hoff⟩) | ⟨j, hk, hj, hon, hoff⟩)
      · exact Or.inl h
      · refine Or.inr ⟨0, by omega, by simp, ?_, ?_⟩
        · simpa using hon
        · rw [pathAt_cons_succ]; simpa using hoff
      · refine Or.inr ⟨j + 1, by omega, by simpa using hj, ?_, ?_⟩
        · rw [pathAt_cons_succ]; exact hon
        · rw [pathAt_cons_succ]; exact hoff
    · rintro (h | ⟨j, hk, hj, hon, hoff⟩)
      · exact Or.inl (Or.inl h)
      · cases j with
        | zero =>
          refine Or.inl (Or.inr ⟨by omega, by simpa using hon, ?_⟩)
          rw [pathAt_cons_succ] at hoff; simpa using hoff
        | succ j =>
          rw [pathAt_cons_succ] at hon hoff
          exact Or.inr ⟨j, by omega, by simpa using hj, hon, hoff⟩

theorem movesPast_append_left {P2 : List (List Nat)} (μ : Equiv.Perm (Fin n)) (A B : List (List (Fin n)))
    {j m w : Nat} (h : MovesPast n P2 μ A j m w) : MovesPast n P2 μ (A ++ B) j m w := by
  obtain ⟨hj, hon, hoff⟩ := h
  refine ⟨by rw [List.length_append]; omega, ?_, ?_⟩
  · rw [pathAt_append_le μ A B (by omega)]; exact hon
  · rw [pathAt_append_le μ A B (by omega)]; exact hoff

theorem movesPast_append_right {P2 : List (List Nat)} (μ : Equiv.Perm (Fin n)) (A B : List (List (Fin n)))
    {j m w : Nat} (h : MovesPast n P2 (pathAt μ A A.length) B j m w) :
    MovesPast n P2 μ (A ++ B) (A.length + j) m w := by
  obtain ⟨hj, hon, hoff⟩ := h
  refine ⟨by rw [List.length_append]; omega, ?_, ?_⟩
  · rw [pathAt_append_ge]; exact hon
  · rw [Nat.add_assoc, pathAt_append_ge]; exact hoff

theorem movesPast_append_cases {P2 : List (List Nat)} (μ : Equiv.Perm (Fin n)) (A B : List (List (Fin n)))
    {j m w : Nat} (h : MovesPast n P2 μ (A ++ B) j m w) :
    MovesPast n P2 μ A j m w ∨ ∃ j', j = A.length + j' ∧ MovesPast n P2 (pathAt μ A A.length) B j' m w := by
  obtain ⟨hj, hon, hoff⟩ := h
  rw [List.length_append] at hj
  by_cases hlt : j < A.length
  · left
    rw [pathAt_append_le μ A B (by omega)] at hon hoff
    exact ⟨hlt, hon, hoff⟩
  · right
    obtain ⟨j', rfl⟩ : ∃ j', j = A.length + j' := ⟨j - A.length, by omega⟩
    rw [pathAt_append_ge] at hon
    rw [Nat.add_assoc, pathAt_append_ge] at hoff
    exact ⟨j', rfl, by omega, hon, hoff⟩

/-- **the level loop, with `eliminating_rotations_of_pair`** -/
theorem levelLoop_elim_spec {P1 P2 : List (List Nat)} (h1 : ∀ a, Function.Injective (rk n P1 a))
    (h2 : ∀ b, Function.Injective (rk n P2 b)) :
    ∀ (fuel : Nat) (st : LvSt) (ans : List (List Pair)) (μ : Equiv.Perm (Fin n)) (all : List (List Pair))
      (elm : List (Pair × Nat)), LevelInv n P1 P2 st μ → EOld n P2 st μ →
      levelLoop fuel st ans = some (all, elm) →
      ∃ (ρs : List (List (Fin n))) (νz : Equiv.Perm (Fin n)), ElimPath (rk n P1) (rk n P2) μ ρs νz ∧
        all = ans ++ pathPairs μ ρs ∧ (∀ ρ, ¬ ExposedRot (rk n P1) (rk n P2) νz ρ) ∧
        ∀ m w k, dictGet? elm (m, w) = some k ↔
          dictGet? st.elim (m, w) = some k ∨ ∃ j, k = st.cnt + j ∧ MovesPast n P2 μ ρs j m w := by
  intro fuel
  induction fuel with
  | zero => intro st ans μ all elm _ _ h; simp [levelLoop] at h
  | succ fuel ih =>
    intro st ans μ all elm inv hold h
    rw [levelLoop_succ] at h
    split at h
    · rename_i hemp
      have hnil : findRotations st.l1 st.l2 = [] := List.isEmpty_iff.mp hemp
      obtain ⟨rfl, rfl⟩ := Prod.mk.inj (Option.some.inj h)
      refine ⟨[], μ, rfl, by simp [pathPairs], levelInv_final h1 h2 inv hnil, ?_⟩
      intro m w k
      constructor
      · exact fun h => Or.inl h
      · rintro (h | ⟨j, _, hj, _⟩)
        · exact h
        · simp at hj
    · obtain ⟨ρs0, μ', _, _, _, hp0, hpp0, inv'⟩ := levelInv_step h1 h2 inv
      obtain ⟨_, hE0, hc0, hold0⟩ := path_fold_elim h1 ρs0 st μ μ' inv.women inv.stable hp0 hold
      rw [hpp0] at hE0 hc0 hold0
      have hμ' := elimPath_eq_pathAt ρs0 μ μ' hp0
      obtain ⟨ρs1, νz, hp1, hall, hterm, hE1⟩ := ih (nextLevel st) _ μ' all elm inv' hold0 h
      obtain ⟨hp, hpp⟩ := elimPath_append ρs0 ρs1 μ μ' νz hp0 hp1
      refine ⟨ρs0 ++ ρs1, νz, hp, by rw [hall, hpp, hpp0, List.append_assoc], hterm, ?_⟩
      intro m w k
      rw [hE1]
      have hcnt : (nextLevel st).cnt = st.cnt + ρs0.length := hc0
      have hel : ∀ k, dictGet? (nextLevel st).elim (m, w) = some k ↔
          dictGet? st.elim (m, w) = some k ∨ ∃ j, k = st.cnt + j ∧ MovesPast n P2 μ ρs0 j m w := hE0 m w
      rw [hel, hcnt]
      constructor
      · rintro ((h | ⟨j, hk, hmv⟩) | ⟨j, hk, hmv⟩)
        · exact Or.inl h
        · exact Or.inr ⟨j, hk, movesPast_append_left μ ρs0 ρs1 hmv⟩
        · rw [hμ'] at hmv
          exact Or.inr ⟨ρs0.length + j, by omega, movesPast_append_right μ ρs0 ρs1 hmv⟩
      · rintro (h | ⟨j, hk, hmv⟩)
        · exact Or.inl (Or.inl h)
        · rcases movesPast_append_cases μ ρs0 ρs1 hmv with h | ⟨j', rfl, h⟩
          · exact Or.inl (Or.inr ⟨j, hk, h⟩)
          · rw [← hμ'] at h
            exact Or.inr ⟨j', by omega, h⟩

/-- **what `find_all_rotations_and_eliminations` returns**: `all` is the pairs form of a maximal elimination path `ρs` from
the man-optimal matching `μ0`, and `elim` maps `(m, w)` to `k` iff rotation number `k` moves `w` past `m` -/
theorem allRotations_elim_spec {P1 P2 : List (List Nat)} {V1 V2 : List (List Int)} (hwf : wfB n P1 P2 V1 V2 = true)
    {M0 : List Pair} {all : List (List Pair)} {elm : List (Pair × Nat)} (hmo : maleOptimal n P1 P2 = some M0)
    (hall : allRotations (shortlists n P1 P2 (muOf n M0)).1 (shortlists n P1 P2 (muOf n M0)).2 = some (all, elm)) :
    ∃ (μ0 : Equiv.Perm (Fin n)) (ρs : List (List (Fin n))), Rep M0 μ0 ∧
      ElimPath (rk n P1) (rk n P2) μ0 ρs (pathAt μ0 ρs ρs.length) ∧ all = pathPairs μ0 ρs ∧
      (∀ ρ, ¬ ExposedRot (rk n P1) (rk n P2) (pathAt μ0 ρs ρs.length) ρ) ∧
      ∀ m w k, dictGet? elm (m, w) = some k ↔ MovesPast n P2 μ0 ρs k m w := by
  obtain ⟨h1, h2⟩ := rk_injective hwf
  obtain ⟨μ0, hrep0, _, inv⟩ := levelInv_init hwf hmo
  rw [allRotations_eq] at hall
  have hold : EOld n P2 (initLevel (shortlists n P1 P2 (muOf n M0)).1 (shortlists n P1 P2 (muOf n M0)).2) μ0 := by
    intro m w k h
    simp [initLevel, dget_nil] at h
  obtain ⟨ρs, νz, hp, hall', hterm, hE⟩ := levelLoop_elim_spec h1 h2 _ _ [] μ0 all elm inv hold hall
  have hνz := elimPath_eq_pathAt ρs μ0 νz hp
  subst hνz
  refine ⟨μ0, ρs, hrep0, hp, by simpa using hall', hterm, ?_⟩
  intro m w k
  rw [hE]
  constructor
  · rintro (h | ⟨j, hk, hmv⟩)
    · simp [initLevel, dget_nil] at h
    · have : k = j := by simpa [initLevel] using hk
      rw [this]; exact hmv
  · intro h
    exact Or.inr ⟨k, by simp [initLevel], h⟩

theorem pathPairs_length : ∀ (ρs : List (List (Fin n))) (μ : Equiv.Perm (Fin n)),
    (pathPairs μ ρs).length = ρs.length := by
  intro ρs
  induction ρs with
  | nil => intro _; rfl
  | cons ρ rest ih => intro μ; simp [pathPairs, ih]

theorem onList_fin (P2 : List (List Nat)) (N : Equiv.Perm (Fin n)) (m w : Fin n) :
    OnList n P2 N m w ↔ rk n P2 w m ≤ rk n P2 w (N.symm w) :=
  ⟨fun ⟨_, _, h⟩ => h, fun h => ⟨m.2, w.2, h⟩⟩

/-- along an elimination path from a stable matching: rotation number `k` is exposed in the `k`-th matching, which is
stable; the next matching is obtained by eliminating it; and entry `k` of the pairs form is its pairs form -/
theorem elimPath_at {P1 P2 : Fin n → Fin n → ℕ} (h1 : ∀ a, Function.Injective (P1 a)) :
    ∀ (ρs : List (List (Fin n))) (μ ν : Equiv.Perm (Fin n)), StableSM P1 P2 μ → ElimPath P1 P2 μ ρs ν →
      ∀ k (hk : k < ρs.length), StableSM P1 P2 (pathAt μ ρs k) ∧ ExposedRot P1 P2 (pathAt μ ρs k) ρs[k] ∧
        pathAt μ ρs (k + 1) = elim (pathAt μ ρs k) ρs[k] ∧
        (pathPairs μ ρs).getD k [] = rotPairs (pathAt μ ρs k) ρs[k] := by
  intro ρs
  induction ρs with
  | nil => intro μ ν _ _ k hk; simp at hk
  | cons ρ rest ih =>
    intro μ ν hμ hp k hk
    cases k with
    | zero =>
      refine ⟨by simpa using hμ, by simpa using hp.1, ?_, ?_⟩
      · rw [pathAt_cons_succ]; simp
      · simp [pathPairs]
    | succ k =>
      have hk' : k < rest.length := by simpa using hk
      obtain ⟨a, b, c, d⟩ := ih (elim μ ρ) ν (exposed_elim_stable h1 hμ hp.1).1 hp.2 k hk'
      simp only [pathAt_cons_succ, List.getElem_cons_succ]
      refine ⟨a, b, c, ?_⟩
      simp only [pathPairs, List.getD_cons_succ]
      exact d

/-- `allRotations_elim_spec` for men and women given as `Fin n`, with the ranks spelled out, and the bounds on the keys
and values of `eliminating_rotations_of_pair` -/
theorem allRotations_elim_fin {P1 P2 : List (List Nat)} {V1 V2 : List (List Int)} (hwf : wfB n P1 P2 V1 V2 = true)
    {M0 : List Pair} {all : List (List Pair)} {elm : List (Pair × Nat)} (hmo : maleOptimal n P1 P2 = some M0)
    (hall : allRotations (shortlists n P1 P2 (muOf n M0)).1 (shortlists n P1 P2 (muOf n M0)).2 = some (all, elm)) :
    ∃ (μ0 : Equiv.Perm (Fin n)) (ρs : List (List (Fin n))), Rep M0 μ0 ∧
      ElimPath (rk n P1) (rk n P2) μ0 ρs (pathAt μ0 ρs ρs.length) ∧ all = pathPairs μ0 ρs ∧
      (∀ (m w : Fin n) (k : Nat), dictGet? elm ((m : Nat), (w : Nat)) = some k ↔
        k < ρs.length ∧ rk n P2 w m ≤ rk n P2 w ((pathAt μ0 ρs k).symm w) ∧
          rk n P2 w ((pathAt μ0 ρs (k + 1)).symm w) < rk n P2 w m) ∧
      (∀ (m w k : Nat), dictGet? elm (m, w) = some k → m < n ∧ w < n ∧ k < all.length) := by
  obtain ⟨μ0, ρs, hrep, hp, hall', _, hE⟩ := allRotations_elim_spec hwf hmo hall
  refine ⟨μ0, ρs, hrep, hp, hall', ?_, ?_⟩
  · intro m w k
    rw [hE]
    unfold MovesPast
    rw [onList_fin, onList_fin, Nat.not_le]
  · intro m w k h
    obtain ⟨hk, ⟨hm, hw, _⟩, _⟩ := (hE m w k).mp h
    refine ⟨hm, hw, ?_⟩
    rw [hall']
    have := pathPairs_length ρs μ0
    omega

end SMLattice

#print axioms SMLattice.allRotations_elim_spec
#print axioms SMLattice.allRotations_elim_fin
