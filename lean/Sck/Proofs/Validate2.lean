import Sck.Proofs.Validate
import Mathlib.Data.List.Nodup

/-! Input validation (C20), part 2: `check_graph`, `check_bipartite_graph`, `check_tie_breaker` and the parameter checks
of the rules. -/

namespace Validate

/-! ## `check_graph` -/

theorem mem_keys (items : List (Option Int × Option (List Int))) (i : Int) :
    i ∈ GArg.keys items ↔ ∃ v, (some i, v) ∈ items := by
  simp only [GArg.keys, List.mem_filterMap]
  constructor
  · rintro ⟨⟨k, v⟩, hm, hk⟩
    simp only at hk
    subst hk
    exact ⟨v, hm⟩
  · rintro ⟨v, hm⟩
    exact ⟨(some i, v), hm, rfl⟩

/-- what `check_graph` really checks: a NON-EMPTY `dict`, every key an `int`, every value a `list`, and every vertex in
the FIRST value is a key.  The other adjacency lists are never looked at. -/
structure GraphOk (items : List (Option Int × Option (List Int))) : Prop where
  keysInt : ∀ it ∈ items, it.1.isSome = true
  valuesList : ∀ it ∈ items, it.2.isSome = true
  firstLinked : ∃ k l rest, items = (k, some l) :: rest ∧ ∀ i ∈ l, i ∈ GArg.keys items

theorem checkGraph_iff (G : GArg) : checkGraph G = .ok () ↔ ∃ items, G = .dict items ∧ GraphOk items := by
  match G with
  | .notDict => simp [checkGraph]
  | .dict items =>
    simp only [checkGraph, GArg.dict.injEq, exists_eq_left']
    by_cases hk : items.all (fun e => e.1.isSome) = true
    · by_cases hv : items.all (fun e => e.2.isSome) = true
      · rw [if_pos hk, if_pos hv]
        rw [List.all_eq_true] at hk hv
        match items, hk, hv with
        | [], _, _ =>
          simp only [reduceCtorEq, false_iff]
          rintro ⟨_, _, k, l, rest, h, _⟩
          simp at h
        | (k, none) :: rest, _, hv => simpa using hv (k, none) List.mem_cons_self
        | (k, some l) :: rest, hk, hv =>
          simp only
          by_cases hl : l.all (fun i => (GArg.keys ((k, some l) :: rest)).contains i) = true
          · rw [if_pos hl]
            simp only [true_iff]
            refine ⟨hk, hv, k, l, rest, rfl, ?_⟩
            simpa [List.all_eq_true] using hl
          · rw [if_neg hl]
            simp only [reduceCtorEq, false_iff]
            rintro ⟨_, _, k', l', rest', h, hl'⟩
            simp only [List.cons.injEq, Prod.mk.injEq, Option.some.injEq] at h
            obtain ⟨⟨rfl, rfl⟩, rfl⟩ := h
            apply hl
            simpa [List.all_eq_true] using hl'
      · rw [if_pos hk, if_neg hv]
        simp only [reduceCtorEq, false_iff]
        rintro ⟨_, h, _⟩
        exact hv (List.all_eq_true.mpr h)
    · rw [if_neg hk]
      simp only [reduceCtorEq, false_iff]
      rintro ⟨h, _, _⟩
      exact hk (List.all_eq_true.mpr h)

theorem checkGraph_error_iff (G : GArg) :
    (checkGraph G = .error .gformat ↔ G = .notDict) ∧
    (checkGraph G = .error .keys ↔ ∃ items, G = .dict items ∧ ∃ it ∈ items, it.1 = none) ∧
    (checkGraph G = .error .values ↔ ∃ items, G = .dict items ∧ (∀ it ∈ items, it.1.isSome = true) ∧
      (items = [] ∨ ∃ it ∈ items, it.2 = none)) ∧
    (checkGraph G = .error .link ↔ ∃ items, G = .dict items ∧ (∀ it ∈ items, it.1.isSome = true) ∧
      (∀ it ∈ items, it.2.isSome = true) ∧
      ∃ k l rest, items = (k, some l) :: rest ∧ ∃ i ∈ l, i ∉ GArg.keys items) := by
  match G with
  | .notDict => simp [checkGraph]
  | .dict items =>
    simp only [checkGraph, GArg.dict.injEq, exists_eq_left', reduceCtorEq, iff_false]
    by_cases hk : items.all (fun e => e.1.isSome) = true
    · rw [if_pos hk]
      have hk' := List.all_eq_true.mp hk
      have hkn : ¬ ∃ it ∈ items, it.1 = none := by
        rintro ⟨it, hm, hn⟩
        have := hk' it hm
        rw [hn] at this
        simp at this
      by_cases hv : items.all (fun e => e.2.isSome) = true
      · rw [if_pos hv]
        have hv' := List.all_eq_true.mp hv
        have hvn : ¬ ∃ it ∈ items, it.2 = none := by
          rintro ⟨it, hm, hn⟩
          have := hv' it hm
          rw [hn] at this
          simp at this
        match items, hk', hv', hkn, hvn with
        | [], _, _, _, _ => simp
        | (k, none) :: rest, _, hv', _, _ => simpa using hv' (k, none) List.mem_cons_self
        | (k, some l) :: rest, hk', hv', hkn, hvn =>
          simp only
          by_cases hl : l.all (fun i => (GArg.keys ((k, some l) :: rest)).contains i) = true
          · rw [if_pos hl]
            refine ⟨by simp, by simpa using hkn, ?_, ?_⟩
            · simp only [reduceCtorEq, false_iff, not_and, not_or]
              exact fun _ => ⟨by simp, hvn⟩
            · simp only [reduceCtorEq, false_iff, not_and, not_exists]
              rintro _ _ k' l' rest' h i hi
              simp only [List.cons.injEq, Prod.mk.injEq, Option.some.injEq] at h
              obtain ⟨⟨rfl, rfl⟩, rfl⟩ := h
              have := List.all_eq_true.mp hl i hi
              simpa using this
          · rw [if_neg hl]
            refine ⟨by simp, by simpa using hkn, ?_, ?_⟩
            · simp only [Except.error.injEq, reduceCtorEq, false_iff, not_and, not_or]
              exact fun _ => ⟨by simp, hvn⟩
            · simp only [true_iff]
              refine ⟨hk', hv', k, l, rest, rfl, ?_⟩
              simpa [List.all_eq_true] using hl
      · rw [if_neg hv]
        refine ⟨by simp, by simpa using hkn, ?_, ?_⟩
        · simp only [true_iff]
          refine ⟨hk', Or.inr ?_⟩
          simp only [List.all_eq_true, not_forall] at hv
          obtain ⟨it, hm, hn⟩ := hv
          exact ⟨it, hm, by simpa using hn⟩
        · simp only [Except.error.injEq, reduceCtorEq, false_iff, not_and]
          intro _ h
          exact absurd (List.all_eq_true.mpr h) hv
    · rw [if_neg hk]
      refine ⟨by simp, ?_, ?_, ?_⟩
      · simp only [true_iff]
        simp only [List.all_eq_true, not_forall] at hk
        obtain ⟨it, hm, hn⟩ := hk
        exact ⟨it, hm, by simpa using hn⟩
      · simp only [Except.error.injEq, reduceCtorEq, false_iff, not_and]
        intro h
        exact absurd (List.all_eq_true.mpr h) hk
      · simp only [Except.error.injEq, reduceCtorEq, false_iff, not_and]
        intro h
        exact absurd (List.all_eq_true.mpr h) hk

theorem checkGraph_errors (G : GArg) (e : VErr) (h : checkGraph G = .error e) :
    e = .gformat ∨ e = .keys ∨ e = .values ∨ e = .link := by
  match G with
  | .notDict => simp [checkGraph] at h; simp [← h]
  | .dict [] => simp [checkGraph] at h; simp [← h]
  | .dict ((k, none) :: rest) =>
    simp only [checkGraph] at h
    split_ifs at h <;> simp at h <;> simp [← h]
  | .dict ((k, some l) :: rest) =>
    simp only [checkGraph] at h
    split_ifs at h <;> simp at h <;> simp [← h]

/-! ## `check_bipartite_graph` -/

theorem sameSet_iff (A B : List Int) : sameSet A B = true ↔ ∀ v, v ∈ A ↔ v ∈ B := by
  simp only [sameSet, Bool.and_eq_true, List.all_eq_true, List.contains_iff_mem]
  exact ⟨fun ⟨h1, h2⟩ v => ⟨h1 v, h2 v⟩, fun h => ⟨fun v => (h v).mp, fun v => (h v).mpr⟩⟩

theorem lookup_isSome (items : List (Option Int × Option (List Int))) (e : Int)
    (hv : ∀ it ∈ items, it.2.isSome = true) (he : e ∈ GArg.keys items) :
    ∃ l, GArg.lookup items e = some l ∧ (some e, some l) ∈ items := by
  obtain ⟨v, hm⟩ := (mem_keys items e).mp he
  unfold GArg.lookup
  cases hf : items.find? (fun it => it.1 == some e) with
  | none =>
    have := List.find?_eq_none.mp hf (some e, v) hm
    simp at this
  | some it =>
    obtain ⟨k, w⟩ := it
    have hmem := List.mem_of_find?_eq_some hf
    have hkey := List.find?_some hf
    simp only [beq_iff_eq] at hkey
    subst hkey
    have := hv _ hmem
    cases w with
    | none => simp at this
    | some l => exact ⟨l, rfl, hmem⟩

/-- what `check_bipartite_graph` really checks beyond `check_graph` and `set(X + Y) == set(G.keys())`:
* `X` non-empty: its FIRST vertex `e` is not in `Y` and all neighbours of `e` are in `Y`;
* `X` empty: all neighbours of the first vertex of `Y` are in `X`, i.e. it has none.
No other vertex is examined. -/
def BipartiteOk (items : List (Option Int × Option (List Int))) (X Y : List Int) : Prop :=
  (∀ v, v ∈ X ++ Y ↔ v ∈ GArg.keys items) ∧
  ((∃ e X', X = e :: X' ∧ e ∉ Y ∧ ∃ l, GArg.lookup items e = some l ∧ ∀ y ∈ l, y ∈ Y) ∨
   (X = [] ∧ ∃ e Y', Y = e :: Y' ∧ GArg.lookup items e = some []))

theorem checkBipartite_iff (G : GArg) (X Y : List Int) :
    checkBipartite G X Y = .ok () ↔ ∃ items, G = .dict items ∧ GraphOk items ∧ BipartiteOk items X Y := by
  unfold checkBipartite
  cases hg : checkGraph G with
  | error e =>
    simp only [reduceCtorEq, false_iff]
    rintro ⟨items, rfl, hok, _⟩
    rw [(checkGraph_iff _).mpr ⟨items, rfl, hok⟩] at hg
    simp at hg
  | ok u =>
    obtain ⟨items, rfl, hok⟩ := (checkGraph_iff G).mp hg
    simp only [GArg.dict.injEq, exists_eq_left', hok, true_and, BipartiteOk]
    by_cases hs : sameSet (X ++ Y) (GArg.keys items) = true
    · rw [if_pos hs]
      have hs' := (sameSet_iff _ _).mp hs
      match X with
      | e :: X' =>
        simp only
        by_cases hy : Y.contains e = true
        · rw [if_pos hy]
          simp only [reduceCtorEq, List.cons.injEq, reduceCtorEq, false_iff, not_and]
          rintro _ (⟨e', X'', ⟨rfl, rfl⟩, hne, _⟩ | ⟨h, _⟩)
          · exact hne (by simpa using hy)
          · simp at h
        · rw [if_neg hy]
          have hek : e ∈ GArg.keys items := (hs' e).mp (by simp)
          obtain ⟨l, hl, _⟩ := lookup_isSome items e hok.valuesList hek
          rw [hl]
          simp only
          by_cases hall : l.all (fun y => Y.contains y) = true
          · rw [if_pos hall]
            simp only [true_iff]
            refine ⟨hs', Or.inl ⟨e, X', rfl, by simpa using hy, l, hl, ?_⟩⟩
            simpa [List.all_eq_true] using hall
          · rw [if_neg hall]
            simp only [reduceCtorEq, false_iff, not_and]
            rintro _ (⟨e', X'', h, _, l', hl', hall'⟩ | ⟨h, _⟩)
            · simp only [List.cons.injEq] at h
              obtain ⟨rfl, rfl⟩ := h
              rw [hl] at hl'
              cases hl'
              apply hall
              simpa [List.all_eq_true] using hall'
            · simp at h
      | [] =>
        match Y with
        | e :: Y' =>
          simp only
          have hek : e ∈ GArg.keys items := (hs' e).mp (by simp)
          obtain ⟨l, hl, _⟩ := lookup_isSome items e hok.valuesList hek
          rw [hl]
          simp only
          cases l with
          | nil =>
            simp only [List.all_nil, if_true, true_iff]
            exact ⟨hs', Or.inr ⟨by simp, e, Y', by simp, hl⟩⟩
          | cons a l' =>
            simp only [List.all_cons, List.contains_nil, Bool.false_and, Bool.false_eq_true, if_false,
              reduceCtorEq, false_iff, not_and]
            rintro _ (⟨_, _, h, _⟩ | ⟨_, e', Y'', h, hl'⟩)
            · simp at h
            · simp only [List.cons.injEq] at h
              obtain ⟨rfl, rfl⟩ := h
              rw [hl] at hl'
              simp at hl'
        | [] =>
          simp only [reduceCtorEq, false_iff, not_and]
          rintro _ (⟨_, _, h, _⟩ | ⟨_, _, _, h, _⟩) <;> simp at h
    · rw [if_neg hs]
      simp only [reduceCtorEq, false_iff, not_and]
      intro h
      exact absurd ((sameSet_iff _ _).mpr h) hs

/-- the `KeyError` branch of the model is dead code -/
theorem checkBipartite_ne_keyerror (G : GArg) (X Y : List Int) : checkBipartite G X Y ≠ .error .keyerror := by
  unfold checkBipartite
  cases hg : checkGraph G with
  | error e =>
    simp only [ne_eq, Except.error.injEq]
    rintro rfl
    rcases checkGraph_errors G _ hg with h | h | h | h <;> cases h
  | ok u =>
    obtain ⟨items, rfl, hok⟩ := (checkGraph_iff G).mp hg
    simp only
    by_cases hs : sameSet (X ++ Y) (GArg.keys items) = true
    · rw [if_pos hs]
      have hs' := (sameSet_iff _ _).mp hs
      match X with
      | e :: X' =>
        simp only
        have hek : e ∈ GArg.keys items := (hs' e).mp (by simp)
        obtain ⟨l, hl, _⟩ := lookup_isSome items e hok.valuesList hek
        rw [hl]
        simp only
        split
        · simp
        · split <;> simp
      | [] =>
        match Y with
        | e :: Y' =>
          simp only
          have hek : e ∈ GArg.keys items := (hs' e).mp (by simp)
          obtain ⟨l, hl, _⟩ := lookup_isSome items e hok.valuesList hek
          rw [hl]
          simp only
          split <;> simp
        | [] => simp
    · rw [if_neg hs]
      simp

/-- a colouring of the vertices with no monochromatic edge -/
def IsBipartite (items : List (Option Int × Option (List Int))) : Prop :=
  ∃ col : Int → Bool, ∀ u l, (some u, some l) ∈ items → ∀ v ∈ l, col u ≠ col v

/-- the triangle `{1: [2, 3], 2: [1, 3], 3: [1, 2]}` -/
def triangle : List (Option Int × Option (List Int)) :=
  [(some 1, some [2, 3]), (some 2, some [1, 3]), (some 3, some [1, 2])]

theorem triangle_accepted : checkBipartite (.dict triangle) [1] [2, 3] = .ok () := by decide

theorem triangle_not_bipartite : ¬ IsBipartite triangle := by
  rintro ⟨col, h⟩
  have h12 := h 1 [2, 3] (by simp [triangle]) 2 (by simp)
  have h13 := h 1 [2, 3] (by simp [triangle]) 3 (by simp)
  have h23 := h 2 [1, 3] (by simp [triangle]) 3 (by simp)
  cases h1 : col 1 <;> cases h2 : col 2 <;> cases h3 : col 3 <;> simp_all

/-- `{1: [], 2: [99]}`: an edge to a vertex that does not exist passes `check_graph` (only the first list is read) -/
theorem dangling_accepted : checkGraph (.dict [(some 1, some []), (some 2, some [99])]) = .ok () := by decide

theorem empty_graph_rejected : checkGraph (.dict []) = .error .values := by decide

/-! ## error tokens -/

theorem mem_VErr_all (e : VErr) : e ∈ VErr.all := by cases e <;> decide

theorem tokens_nodup : (VErr.all.map VErr.token).Nodup := by decide

/-- the driver's error token determines the exception message -/
theorem token_injective (e e' : VErr) (h : e.token = e'.token) : e = e' := by
  exact List.inj_on_of_nodup_map tokens_nodup (mem_VErr_all e) (mem_VErr_all e') h

/-! ## `check_tie_breaker` -/

theorem checkTieBreaker_iff (tb : String) (ia : Bool) :
    checkTieBreaker tb ia = .ok () ↔ tb = "random" ∨ tb = "first" ∨ (ia = true ∧ tb = "accept") := by
  unfold checkTieBreaker
  by_cases h1 : tb = "random"
  · simp [h1]
  · by_cases h2 : tb = "first"
    · simp [h2]
    · by_cases h3 : ia = true ∧ tb = "accept"
      · simp [h3.1, h3.2]
      · have : (ia && tb == "accept") = false := by
          cases ia <;> simp_all
        simp [h1, h2, this, h3]

theorem checkTieBreaker_error (tb : String) (ia : Bool) (e : VErr) (h : checkTieBreaker tb ia = .error e) :
    e = .tiebreaker := by
  unfold checkTieBreaker at h
  split at h
  · simp at h
  · split at h
    · simp at h
    · simp at h; exact h.symm

/-- the tie breakers every rule constructor accepts (`include_accept` defaults to `True`) -/
def validTb (tb : String) : Prop := tb = "random" ∨ tb = "first" ∨ tb = "accept"

theorem checkTieBreaker_true_iff (tb : String) : checkTieBreaker tb true = .ok () ↔ validTb tb := by
  rw [checkTieBreaker_iff]; simp [validTb]

theorem checkTieBreaker_cases (tb : String) :
    (validTb tb ∧ checkTieBreaker tb true = .ok ()) ∨ (¬ validTb tb ∧ checkTieBreaker tb true = .error .tiebreaker) := by
  cases h : checkTieBreaker tb true with
  | ok u => exact Or.inl ⟨(checkTieBreaker_true_iff tb).mp h, rfl⟩
  | error e =>
    have := checkTieBreaker_error tb true e h
    subst this
    refine Or.inr ⟨fun hv => ?_, rfl⟩
    rw [(checkTieBreaker_true_iff tb).mpr hv] at h
    simp at h

/-! ## parameters -/

theorem prvCtor_iff (tb : String) (lam : Int) :
    (prvCtor tb lam = .ok () ↔ validTb tb ∧ 1 ≤ lam) ∧
    (prvCtor tb lam = .error .tiebreaker ↔ ¬ validTb tb) ∧
    (prvCtor tb lam = .error .lambda ↔ validTb tb ∧ lam < 1) := by
  unfold prvCtor
  rcases checkTieBreaker_cases tb with ⟨hv, h⟩ | ⟨hv, h⟩ <;> rw [h] <;> simp only
  · by_cases hl : lam < 1 <;> (simp [hl, hv]; try omega)
  · simp [hv]

theorem prvCall_iff (lam : Int) (m : Nat) :
    (prvCall lam m = .ok () ↔ lam ≤ m) ∧ (prvCall lam m = .error .lambda ↔ (m : Int) < lam) := by
  unfold prvCall
  by_cases h : lam > (m : Int) <;> (simp [h]; try omega)

theorem karvCtor_iff (tb : String) (k : Int) :
    (karvCtor tb k = .ok () ↔ validTb tb ∧ 1 ≤ k) ∧
    (karvCtor tb k = .error .tiebreaker ↔ ¬ validTb tb) ∧
    (karvCtor tb k = .error .k ↔ validTb tb ∧ k < 1) := by
  unfold karvCtor
  rcases checkTieBreaker_cases tb with ⟨hv, h⟩ | ⟨hv, h⟩ <;> rw [h] <;> simp only
  · by_cases hl : k < 1 <;> (simp [hl, hv]; try omega)
  · simp [hv]

theorem karvCall_iff (k : Int) (m : Nat) :
    (karvCall k m = .ok () ↔ k ≤ m) ∧ (karvCall k m = .error .k ↔ (m : Int) < k) := by
  unfold karvCall
  by_cases h : k > (m : Int) <;> (simp [h]; try omega)

theorem validTb_first : validTb "first" := Or.inr (Or.inl rfl)

theorem isOk_iff (v : Verdict) : v.isOk = true ↔ v = .ok () := by
  cases v <;> simp [Verdict.isOk]

theorem prvParam_iff (lam : Int) (m : Nat) : prvParamOk lam m = true ↔ 1 ≤ lam ∧ lam ≤ m := by
  simp [prvParamOk, isOk_iff, (prvCtor_iff "first" lam).1, (prvCall_iff lam m).1, validTb_first]

theorem karvParam_iff (k : Int) (m : Nat) : karvParamOk k m = true ↔ 1 ≤ k ∧ k ≤ m := by
  simp [karvParamOk, isOk_iff, (karvCtor_iff "first" k).1, (karvCall_iff k m).1, validTb_first]

theorem tsfCtor_iff (lam : Int) :
    (tsfCtor lam = .ok () ↔ 1 ≤ lam) ∧ (tsfCtor lam = .error .lambda ↔ lam < 1) := by
  unfold tsfCtor
  by_cases h : lam < 1 <;> (simp [h]; try omega)

theorem tsfCall_iff (lam : Int) (m : Nat) (st : Bool) :
    (tsfCall lam m st = .ok () ↔ lam ≤ m ∧ st = true) ∧
    (tsfCall lam m st = .error .lambda ↔ (m : Int) < lam) ∧
    (tsfCall lam m st = .error .notstrict ↔ lam ≤ m ∧ st = false) := by
  unfold tsfCall
  by_cases h : lam > (m : Int)
  · simp [h]
  · cases st <;> simp [h] <;> omega

theorem tsfParam_iff (lam : Int) (m : Nat) : tsfParamOk lam m = true ↔ 1 ≤ lam ∧ lam ≤ m := by
  simp [tsfParamOk, isOk_iff, (tsfCtor_iff lam).1, (tsfCall_iff lam m true).1]

theorem dtsfCtor_iff (l1 l2 : Int) :
    (dtsfCtor l1 l2 = .ok () ↔ 1 ≤ l1 ∧ 1 ≤ l2) ∧ (dtsfCtor l1 l2 = .error .lambda ↔ l1 < 1 ∨ l2 < 1) := by
  unfold dtsfCtor
  by_cases h : (decide (l1 < 1) || decide (l2 < 1)) = true
  · rw [if_pos h]
    simp only [Bool.or_eq_true, decide_eq_true_eq] at h
    simp only [reduceCtorEq, false_iff, true_iff]
    exact ⟨by omega, h⟩
  · rw [if_neg h]
    simp only [Bool.or_eq_true, decide_eq_true_eq] at h
    simp only [reduceCtorEq, false_iff, true_iff]
    exact ⟨by omega, h⟩

theorem dtsfCall_iff (l1 l2 : Int) (r1 c1 r2 c2 : Nat) :
    (dtsfCall l1 l2 r1 c1 r2 c2 = .ok () ↔ c1 = r1 ∧ r2 = r1 ∧ c2 = r1 ∧ l1 ≤ r1 ∧ l2 ≤ r1) ∧
    (dtsfCall l1 l2 r1 c1 r2 c2 = .error .assert ↔ ¬ (c1 = r1 ∧ r2 = r1 ∧ c2 = r1)) ∧
    (dtsfCall l1 l2 r1 c1 r2 c2 = .error .lambda ↔ c1 = r1 ∧ r2 = r1 ∧ c2 = r1 ∧ ((r1 : Int) < l1 ∨ (r1 : Int) < l2)) := by
  unfold dtsfCall
  simp only
  split_ifs <;> simp_all <;> omega

theorem dtsfParam_iff (l1 l2 : Int) (n : Nat) :
    dtsfParamOk l1 l2 n = true ↔ (1 ≤ l1 ∧ l1 ≤ n) ∧ (1 ≤ l2 ∧ l2 ≤ n) := by
  simp only [dtsfParamOk, Bool.and_eq_true, isOk_iff, (dtsfCtor_iff l1 l2).1, (dtsfCall_iff l1 l2 n n n n).1]
  constructor
  · rintro ⟨⟨a, b⟩, -, -, -, c, d⟩; exact ⟨⟨a, c⟩, b, d⟩
  · rintro ⟨⟨a, c⟩, b, d⟩; exact ⟨⟨a, b⟩, trivial, trivial, trivial, c, d⟩

/-- `KApproval(k, tb)`: `k < 1` is reported even when the tie breaker is invalid as well; there is NO upper bound -/
theorem kApprovalCtor_iff (k : Int) (tb : String) :
    (kApprovalCtor k tb = .ok () ↔ 1 ≤ k ∧ validTb tb) ∧
    (kApprovalCtor k tb = .error .kpos ↔ k < 1) ∧
    (kApprovalCtor k tb = .error .tiebreaker ↔ 1 ≤ k ∧ ¬ validTb tb) := by
  unfold kApprovalCtor
  by_cases h : k < 1
  · simp [h]
  · rw [if_neg h]
    rcases checkTieBreaker_cases tb with ⟨hv, h'⟩ | ⟨hv, h'⟩ <;> rw [h'] <;> simp [hv] <;> try omega

theorem kApprovalParam_iff (k : Int) : kApprovalParamOk k = true ↔ 1 ≤ k := by
  simp [kApprovalParamOk, isOk_iff, (kApprovalCtor_iff k "first").1, validTb_first]

theorem gsCall_iff (n m hr hc : Nat) :
    (gsCall n m hr hc = .ok () ↔ n = hc ∧ m = hr) ∧ (gsCall n m hr hc = .error .dims ↔ ¬ (n = hc ∧ m = hr)) := by
  unfold gsCall
  by_cases h1 : n = hc <;> by_cases h2 : m = hr <;> simp [h1, h2]

theorem gsDims_iff (n m hr hc : Nat) : gsDimsOk n m hr hc = true ↔ n = hc ∧ m = hr := by
  simp [gsDimsOk, isOk_iff, (gsCall_iff n m hr hc).1]

theorem ltE_iff (a b : Entry) : ltE a b = true ↔ ∃ x y : Rat, a = some x ∧ b = some y ∧ x < y := by
  cases a <;> cases b <;> simp [ltE]

/-- `UniformValuationProfileGenerator(high, low)` with two numbers: accepted iff `0 ≤ low ≤ high` (so `low = 0` and
`high = low` pass although the docstring says "must be positive") -/
theorem uniformCtor_num_iff (h l : Rat) : uniformCtor (some h) (some l) = .ok () ↔ 0 ≤ l ∧ l ≤ h := by
  unfold uniformCtor
  by_cases h1 : h < l
  · simp [ltE, h1]
  · by_cases h2 : l < 0
    · simp [ltE, h1, h2]
    · simp [ltE, h1, h2]
      exact ⟨not_lt.mp h2, not_lt.mp h1⟩

/-- in general (NaN bounds compare `False`, so they pass) -/
theorem uniformCtor_iff (high low : Entry) :
    uniformCtor high low = .ok () ↔ ∀ l : Rat, low = some l → 0 ≤ l ∧ ∀ h : Rat, high = some h → l ≤ h := by
  cases low with
  | none => cases high <;> simp [uniformCtor, ltE]
  | some l =>
    cases high with
    | none =>
      by_cases h2 : l < 0
      · simp [uniformCtor, ltE, h2]
      · simp [uniformCtor, ltE, h2]; exact not_lt.mp h2
    | some h =>
      rw [uniformCtor_num_iff]
      simp

theorem uniformCtor_error (high low : Entry) (e : VErr) (h : uniformCtor high low = .error e) : e = .highlow := by
  unfold uniformCtor at h
  split at h
  · simp at h; exact h.symm
  · simp at h

theorem uniformParam_iff (high low : Entry) :
    uniformParamOk high low = true ↔ ∀ l : Rat, low = some l → 0 ≤ l ∧ ∀ h : Rat, high = some h → l ≤ h := by
  rw [uniformParamOk, isOk_iff, uniformCtor_iff]

end Validate
