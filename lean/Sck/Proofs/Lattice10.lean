import Sck.Proofs.Lattice9

/-! # C03, package L7, part 10: eliminating "in index order"

If `A` is an elimination path from `μ` and `ν` is any stable matching, the rotations of `A` that are "on the way to
`ν`" (every man of the rotation still prefers his current wife to his `ν`-wife), taken in the order of `A`, form an
elimination path from `μ ∧ ν` to `(end of A) ∧ ν`.  Consequence: the rotation set of ANY run from the male-optimal
matching can be eliminated in the index order of the mirror's list `all` (if `all` is a maximal chain), so obligation
(j) can be stated for index-order runs only — the form "a set of rotations can be eliminated in index order iff it is
closed". -/

namespace SMLattice

open Irving

variable {n : ℕ}

/-- all-or-nothing: for a rotation `ρ` exposed in stable `μ` and any stable `ν`, either every man of `ρ` strictly
prefers his `μ`-wife to his `ν`-wife, or none does -/
theorem onway_dichotomy {P1 P2 : Fin n → Fin n → ℕ} (h1 : ∀ a, Function.Injective (P1 a))
    (h2 : ∀ b, Function.Injective (P2 b)) {μ ν : Equiv.Perm (Fin n)} (hμ : StableSM P1 P2 μ)
    (hν : StableSM P1 P2 ν) {ρ : List (Fin n)} (hex : ExposedRot P1 P2 μ ρ) :
    (∀ c ∈ ρ, P1 c (μ c) < P1 c (ν c)) ∨ (∀ c ∈ ρ, P1 c (ν c) ≤ P1 c (μ c)) := by
  obtain ⟨κ, hκ, hκ1, _⟩ := stable_join h1 h2 hμ hν
  have hle : MLe P1 μ κ := fun c => by rw [hκ1]; exact (worse_ge P1 μ ν c).1
  rcases exposed_dichotomy h1 h2 hκ hle hex with h | h
  · right
    intro c hc
    have := h c hc
    rw [hκ1] at this
    unfold worse at this
    split at this
    · rw [this]
    · omega
  · left
    intro c hc
    have e1 := h c
    have e2 := (hex.2.2 c hc).1.1
    rw [elim_apply] at e1
    rw [hκ1] at e1
    unfold worse at e1
    split at e1
    · omega
    · omega

/-- **downward exposure**: if `ρ` is exposed in stable `μ` and on the way to stable `ν`, it is exposed in the meet
`κ = μ ∧ ν`, and `κ/ρ = (μ/ρ) ∧ ν` -/
theorem exposed_meet {P1 P2 : Fin n → Fin n → ℕ} (h1 : ∀ a, Function.Injective (P1 a))
    (h2 : ∀ b, Function.Injective (P2 b)) {μ ν κ : Equiv.Perm (Fin n)} (hμ : StableSM P1 P2 μ)
    (hν : StableSM P1 P2 ν) (hκ : ∀ a, κ a = better P1 μ ν a) {ρ : List (Fin n)} (hex : ExposedRot P1 P2 μ ρ)
    (hon : ∀ c ∈ ρ, P1 c (μ c) < P1 c (ν c)) :
    ExposedRot P1 P2 κ ρ ∧ (∀ c ∈ ρ, κ c = μ c) ∧ ∀ a, elim κ ρ a = better P1 (elim μ ρ) ν a := by
  have hag : ∀ c ∈ ρ, κ c = μ c := by
    intro c hc
    rw [hκ]; unfold better; rw [if_pos (Nat.le_of_lt (hon c hc))]
  have hle : MLe P1 κ μ := fun a => by rw [hκ]; exact (better_le P1 μ ν a).1
  have hw := women_le h1 hμ hle
  have hnj : ∀ c ∈ ρ, P1 c (elim μ ρ c) ≤ P1 c (ν c) := by
    intro c hc
    by_contra hlt
    exact no_jump h1 h2 hμ hν hex hc (hon c hc) (by omega)
  refine ⟨⟨hex.1, hex.2.1, ?_⟩, hag, ?_⟩
  · intro c hc
    have hc' : ρ.formPerm c ∈ ρ := List.formPerm_apply_mem_of_mem hc
    obtain ⟨⟨c1, c2⟩, hmin⟩ := hex.2.2 c hc
    have e1 : κ.symm (μ (ρ.formPerm c)) = ρ.formPerm c := by
      rw [← hag _ hc']; simp
    refine ⟨⟨?_, ?_⟩, ?_⟩
    · rw [hag c hc, hag _ hc']; exact c1
    · rw [hag _ hc', e1]; simpa using c2
    · intro b' ⟨d1, d2⟩
      rw [hag _ hc']
      rw [hag c hc] at d1
      by_contra hlt
      have hlt : P1 c b' < P1 c (μ (ρ.formPerm c)) := by omega
      by_cases hcm : P2 b' c < P2 b' (μ.symm b')
      · have := hmin b' ⟨d1, hcm⟩
        omega
      · -- the `κ`-husband `h` of `b'` got her from `ν`
        have hne1 : μ.symm b' ≠ c := by
          intro h
          have : b' = μ c := by rw [← h]; simp
          rw [this] at d1; exact Nat.lt_irrefl _ d1
        have hlt2 : P2 b' (μ.symm b') < P2 b' c := by
          have : P2 b' (μ.symm b') ≠ P2 b' c := fun h => hne1 (h2 _ h)
          omega
        have hκb : κ (κ.symm b') = b' := by simp
        rw [hκ] at hκb
        unfold better at hκb
        split at hκb
        · have : μ.symm b' = κ.symm b' := (Equiv.symm_apply_eq μ).mpr hκb.symm
          rw [this] at hlt2
          omega
        · have hνh : ν.symm b' = κ.symm b' := (Equiv.symm_apply_eq ν).mpr hκb.symm
          have hnb : ¬ P1 c b' < P1 c (ν c) := fun hb => hν c b' ⟨hb, by rw [hνh]; exact d2⟩
          have hne2 : ν c ≠ b' := by
            intro h
            have : ν.symm b' = c := by rw [← h]; simp
            rw [hνh] at this
            rw [this] at d2
            exact Nat.lt_irrefl _ d2
          have : P1 c (ν c) ≠ P1 c b' := fun h => hne2 (h1 c h)
          exact no_jump h1 h2 hμ hν hex hc (hon c hc) (by rw [elim_apply]; omega)
  · intro a
    by_cases ha : a ∈ ρ
    · have ha' : ρ.formPerm a ∈ ρ := List.formPerm_apply_mem_of_mem ha
      have := hnj a ha
      unfold better
      rw [if_pos this, elim_apply, elim_apply, hag _ ha']
    · rw [elim_apply_of_notMem κ ha, hκ]
      unfold better
      rw [elim_apply_of_notMem μ ha]

/-- a rotation that is NOT on the way to `ν` does not change the meet with `ν` -/
theorem meet_unchanged {P1 P2 : Fin n → Fin n → ℕ} (h1 : ∀ a, Function.Injective (P1 a))
    {μ ν : Equiv.Perm (Fin n)} {ρ : List (Fin n)} (hex : ExposedRot P1 P2 μ ρ)
    (hoff : ∀ c ∈ ρ, P1 c (ν c) ≤ P1 c (μ c)) (a : Fin n) :
    better P1 (elim μ ρ) ν a = better P1 μ ν a := by
  by_cases ha : a ∈ ρ
  · have e1 := hoff a ha
    have e2 := (hex.2.2 a ha).1.1
    rw [← elim_apply] at e2
    unfold better
    rw [if_neg (by omega)]
    split
    · rename_i hle
      exact (h1 a (Nat.le_antisymm hle e1)).symm
    · rfl
  · unfold better
    rw [elim_apply_of_notMem μ ha]

/-- `r` (a list of pairs) is on the way to `ν`: every man of `r` strictly prefers his wife in `r` to his `ν`-wife -/
def OnWay (P1 : Fin n → Fin n → ℕ) (ν : Equiv.Perm (Fin n)) (r : List Pair) : Prop :=
  ∀ q ∈ r, ∀ c b : Fin n, q = ((c : Nat), (b : Nat)) → P1 c b < P1 c (ν c)

theorem onWay_rotPairs {P1 : Fin n → Fin n → ℕ} {ν μ : Equiv.Perm (Fin n)} {ρ : List (Fin n)} :
    OnWay P1 ν (rotPairs μ ρ) ↔ ∀ c ∈ ρ, P1 c (μ c) < P1 c (ν c) := by
  constructor
  · intro h c hc
    exact h (pr μ c) (List.mem_map.mpr ⟨c, hc, rfl⟩) c (μ c) rfl
  · intro h q hq c b hqe
    obtain ⟨c', hc', rfl⟩ := List.mem_map.mp hq
    have e1 : c' = c := Fin.ext (congrArg Prod.fst hqe)
    have e2 : μ c' = b := Fin.ext (congrArg Prod.snd hqe)
    subst e1; subst e2
    exact h c' hc'

open Classical in
/-- **the rotations of a path that are on the way to `ν`, in the order of the path, form a path from the meet** -/
theorem meet_path {P1 P2 : Fin n → Fin n → ℕ} (h1 : ∀ a, Function.Injective (P1 a))
    (h2 : ∀ b, Function.Injective (P2 b)) {ν : Equiv.Perm (Fin n)} (hν : StableSM P1 P2 ν) :
    ∀ (A : List (List (Fin n))) (μ νz κ : Equiv.Perm (Fin n)), StableSM P1 P2 μ → StableSM P1 P2 κ →
      (∀ a, κ a = better P1 μ ν a) → ElimPath P1 P2 μ A νz →
      ∃ A' κz, ElimPath P1 P2 κ A' κz ∧ (∀ a, κz a = better P1 νz ν a) ∧
        pathPairs κ A' = (pathPairs μ A).filter (fun r => decide (OnWay P1 ν r)) := by
  intro A
  induction A with
  | nil =>
    intro μ νz κ _ _ hκ hp
    cases hp
    exact ⟨[], κ, rfl, hκ, rfl⟩
  | cons ρ rest ih =>
    intro μ νz κ hμ hκst hκ hp
    obtain ⟨hex, hp'⟩ := hp
    have hst' := (exposed_elim_stable h1 hμ hex).1
    rcases onway_dichotomy h1 h2 hμ hν hex with hon | hoff
    · obtain ⟨hexκ, hag, hmeet⟩ := exposed_meet h1 h2 hμ hν hκ hex hon
      obtain ⟨A', κz, hpA', hκz, hpp⟩ := ih (elim μ ρ) νz (elim κ ρ) hst' (exposed_elim_stable h1 hκst hexκ).1
        hmeet hp'
      have erot : rotPairs κ ρ = rotPairs μ ρ := by
        unfold rotPairs
        apply List.map_congr_left
        intro a ha
        unfold pr; rw [hag a ha]
      refine ⟨ρ :: A', κz, ⟨hexκ, hpA'⟩, hκz, ?_⟩
      simp only [pathPairs]
      rw [List.filter_cons_of_pos (by simpa using onWay_rotPairs.mpr hon), hpp, erot]
    · have hκ' : ∀ a, κ a = better P1 (elim μ ρ) ν a := fun a => by rw [hκ, meet_unchanged h1 hex hoff]
      obtain ⟨A', κz, hpA', hκz, hpp⟩ := ih (elim μ ρ) νz κ hst' hκst hκ' hp'
      refine ⟨A', κz, hpA', hκz, ?_⟩
      simp only [pathPairs]
      rw [List.filter_cons_of_neg, hpp]
      simp only [decide_eq_true_eq]
      intro hw
      obtain ⟨c, hc⟩ := List.exists_mem_of_ne_nil _ hex.2.1
      have := onWay_rotPairs.mp hw c hc
      have := hoff c hc
      omega

end SMLattice

#print axioms SMLattice.meet_path

namespace IrvingAlgo

open Irving SMLattice

/-- the members of `all` at the indices satisfying `S`, in index order -/
def idxSub (all : List (List Pair)) (S : Nat → Bool) : List (List Pair) :=
  ((List.range all.length).filter S).map (fun i => all.getD i [])

theorem filter_eq_idxSub (p : List Pair → Bool) :
    ∀ all : List (List Pair), all.filter p = idxSub all (fun i => p (all.getD i [])) := by
  intro all
  induction all with
  | nil => rfl
  | cons a l ih =>
    unfold idxSub at ih ⊢
    rw [List.length_cons, List.range_succ_eq_map, List.filter_cons, List.filter_cons]
    have e0 : (a :: l).getD 0 [] = a := rfl
    have emap : (List.filter (fun i => p ((a :: l).getD i [])) (List.map Nat.succ (List.range l.length))).map
        (fun i => (a :: l).getD i []) = List.filter p l := by
      rw [List.filter_map, List.map_map, ih]
      rfl
    rw [e0]
    split
    · rw [List.map_cons, emap]; rfl
    · exact emap.symm

/-- **(j) in the "index order" form, soundness half**: whenever the members of `all` at an increasing list of indices
can be eliminated from `M0` in that order (each exposed when its turn comes), the index set is closed in the mirror's
poset graph -/
def Remaining_j_index_at (n : Nat) (P1 P2 : List (List Nat)) : Prop :=
  ∀ M0 all elim, maleOptimal n P1 P2 = some M0 →
    allRotations (shortlists n P1 P2 (muOf n M0)).1 (shortlists n P1 P2 (muOf n M0)).2 = some (all, elim) →
    ∀ S : Nat → Bool, exposedAllB P1 P2 M0 (idxSub all S) = true →
      ClosedUnder (posetGraph all (shortlists n P1 P2 (muOf n M0)).1 elim) ((List.range all.length).filter S)

/-- **the rotation set of any run can be eliminated in the index order of `all`** (if `all` is a run from `M0`) -/
theorem index_run_of_run {n : Nat} {P1 P2 : List (List Nat)} {V1 V2 : List (List Int)}
    (hwf : wfB n P1 P2 V1 V2 = true) {M0 : List Pair} (hmo : maleOptimal n P1 P2 = some M0)
    {all B : List (List Pair)} (hA : exposedAllB P1 P2 M0 all = true) (hAne : ∀ r ∈ all, r ≠ [])
    (hB : exposedAllB P1 P2 M0 B = true) (hBne : ∀ r ∈ B, r ≠ []) :
    ∃ S : Nat → Bool, exposedAllB P1 P2 M0 (idxSub all S) = true ∧
      ∀ i, i < all.length → (S i = true ↔ ∃ r ∈ B, r ~r all.getD i []) := by
  classical
  obtain ⟨h1, h2⟩ := rk_injective hwf
  obtain ⟨μ0, hrep0, hst0, hopt0⟩ := maleOptimal_spec hwf hmo
  obtain ⟨rotsA, νz, _, hpA, hppA, _, _⟩ := path_unbridge h1 all M0 μ0 hrep0 hst0 hAne hA
  obtain ⟨rotsB, ν, _, hpB, hppB, _, _⟩ := path_unbridge h1 B M0 μ0 hrep0 hst0 hBne hB
  have hν := (elimPath_stable h1 rotsB μ0 ν hst0 hpB).1
  have hκ : ∀ a, μ0 a = better (rk n P1) μ0 ν a := fun a => by
    unfold better; rw [if_pos (hopt0 ν hν a)]
  obtain ⟨A', κz, hpA', _, hpp⟩ := meet_path h1 h2 hν rotsA μ0 νz μ0 hst0 hst0 hκ hpA
  obtain ⟨hex, _⟩ := path_bridge (P2 := P2) h1 A' μ0 κz M0 hrep0 hst0 hpA'
  rw [hpp, hppA, filter_eq_idxSub] at hex
  refine ⟨_, hex, ?_⟩
  intro i hi
  have hmem : all.getD i [] ∈ pathPairs μ0 rotsA := by
    rw [hppA, List.getD_eq_getElem?_getD, List.getElem?_eq_getElem hi]
    exact List.getElem_mem hi
  obtain ⟨N, σ, hN, hσ, hr⟩ := mem_pathPairs h1 rotsA μ0 νz hst0 hpA _ hmem
  rw [hr, decide_eq_true_eq, onWay_rotPairs, ← hppB]
  constructor
  · intro hon
    obtain ⟨c, hc⟩ := List.exists_mem_of_ne_nil _ hσ.2.1
    exact (mem_path_iff h1 h2 hN hσ hc rotsB μ0 ν hst0 hpB).mpr ⟨hopt0 N hN c, hon c hc⟩
  · intro hex' c hc
    exact ((mem_path_iff h1 h2 hN hσ hc rotsB μ0 ν hst0 hpB).mp hex').2

/-- with obligation (i), the index-order form of (j) implies the form used by the reduction -/
theorem remaining_j_of_index {n : Nat} {P1 P2 : List (List Nat)} {V1 V2 : List (List Int)}
    (hwf : wfB n P1 P2 V1 V2 = true) (hi : Remaining_i_at n P1 P2) (hx : Remaining_j_index_at n P1 P2) :
    Remaining_j_at n P1 P2 := by
  intro M0 all elim hmo hall B hB hBne x y hy hyB
  obtain ⟨hA, hAne, _⟩ := hi M0 all elim hmo hall
  obtain ⟨S, hS, hSiff⟩ := index_run_of_run hwf hmo hA hAne hB hBne
  have hcl := hx M0 all elim hmo hall S hS
  have hylt : y < all.length := by
    by_contra hge
    obtain ⟨r, hr, hrot⟩ := hyB
    rw [List.getD_eq_getElem?_getD, List.getElem?_eq_none (by omega)] at hrot
    exact hBne r hr (List.isRotated_nil_iff.mp hrot)
  have hyS : y ∈ (List.range all.length).filter S :=
    List.mem_filter.mpr ⟨List.mem_range.mpr hylt, (hSiff y hylt).mpr hyB⟩
  have hxS := hcl x ⟨y, hy, hyS⟩
  obtain ⟨hxlt, hxS'⟩ := List.mem_filter.mp hxS
  exact (hSiff x (List.mem_range.mp hxlt)).mp hxS'

/-! ### `sorted(C)` is the increasing enumeration of `C` -/

theorem insNat_pairwise (a : Nat) : ∀ l : List Nat, l.Pairwise (· ≤ ·) → (insNat a l).Pairwise (· ≤ ·) := by
  intro l
  induction l with
  | nil => intro _; simp [insNat]
  | cons b bs ih =>
    intro h
    simp only [insNat]
    split
    · rename_i hab
      rw [List.pairwise_cons]
      refine ⟨?_, h⟩
      intro x hx
      rcases List.mem_cons.mp hx with rfl | hx
      · exact hab
      · exact Nat.le_trans hab ((List.pairwise_cons.mp h).1 x hx)
    · rename_i hab
      rw [List.pairwise_cons] at h ⊢
      refine ⟨?_, ih h.2⟩
      intro x hx
      rcases List.mem_cons.mp ((insNat_perm a bs).subset hx) with rfl | hx
      · omega
      · exact h.1 x hx

theorem sortNat_pairwise (l : List Nat) : (sortNat l).Pairwise (· ≤ ·) := by
  induction l with
  | nil => exact List.Pairwise.nil
  | cons a l ih => exact insNat_pairwise a _ ih

theorem sortNat_eq_filter {k : Nat} {C : List Nat} (hnd : C.Nodup) (hlt : ∀ x ∈ C, x < k) :
    sortNat C = (List.range k).filter (fun i => C.contains i) := by
  refine List.Perm.eq_of_pairwise (le := (· ≤ ·)) (fun a b _ _ h1 h2 => Nat.le_antisymm h1 h2)
    (sortNat_pairwise C) ?_ ?_
  · exact (List.pairwise_lt_range.imp (fun h => Nat.le_of_lt h)).filter _
  · refine (sortNat_perm C).trans ?_
    rw [List.perm_ext_iff_of_nodup hnd (List.nodup_range.filter _)]
    intro x
    simp only [List.mem_filter, List.mem_range, List.contains_iff_mem]
    exact ⟨fun h => ⟨hlt x h, h⟩, fun h => h.2⟩

/-- **(j) exactly as in the task statement**: a set of the mirror's rotations (given by a Boolean predicate on the
indices) can be eliminated from `M0` in index order iff it is closed in the mirror's sparse poset graph -/
def Remaining_j_task_at (n : Nat) (P1 P2 : List (List Nat)) : Prop :=
  ∀ M0 all elim, maleOptimal n P1 P2 = some M0 →
    allRotations (shortlists n P1 P2 (muOf n M0)).1 (shortlists n P1 P2 (muOf n M0)).2 = some (all, elim) →
    ∀ S : Nat → Bool, exposedAllB P1 P2 M0 (idxSub all S) = true ↔
      ClosedUnder (posetGraph all (shortlists n P1 P2 (muOf n M0)).1 elim) ((List.range all.length).filter S)

theorem remaining_j_index_of_task {n : Nat} {P1 P2 : List (List Nat)} (h : Remaining_j_task_at n P1 P2) :
    Remaining_j_index_at n P1 P2 :=
  fun M0 all elim hmo hall S => (h M0 all elim hmo hall S).mp

theorem remaining_j_complete_of_task {n : Nat} {P1 P2 : List (List Nat)} (h : Remaining_j_task_at n P1 P2) :
    Remaining_j_complete_at n P1 P2 := by
  intro M0 all elim hmo hall T hnd hlt hcl
  have e := sortNat_eq_filter hnd hlt
  have hcl' : ClosedUnder (posetGraph all (shortlists n P1 P2 (muOf n M0)).1 elim)
      ((List.range all.length).filter (fun i => T.contains i)) := by
    rintro rho ⟨x, hx, hxT⟩
    have hxT' : x ∈ T := by
      have := (List.mem_filter.mp hxT).2
      exact List.contains_iff_mem.mp this
    have hrho := hcl rho ⟨x, hx, hxT'⟩
    exact List.mem_filter.mpr ⟨List.mem_range.mpr (hlt rho hrho), List.contains_iff_mem.mpr hrho⟩
  have := (h M0 all elim hmo hall (fun i => T.contains i)).mpr hcl'
  unfold idxSub at this
  rw [← e] at this
  exact this

end IrvingAlgo

open IrvingAlgo in
/-- **Remaining obligation (j), in the form of the task statement** -/
def Remaining_j_task : Prop :=
  ∀ n P1 P2 V1 V2, wfB n P1 P2 V1 V2 = true → Remaining_j_task_at n P1 P2

namespace IrvingAlgo

/-- the reduction with (j) in the "index order iff closed" form: optimal value AND no run-time check fires -/
theorem irving_optimal_of_remaining_task (hi : Remaining_i) (hj : Remaining_j_task)
    {n : Nat} {P1 P2 : List (List Nat)} {V1 V2 : List (List Int)} (hbig : WeightBound n P1 P2 V1 V2) :
    (∀ M, irving n P1 P2 V1 V2 = .ok M →
      Brute.optStable n P1 P2 V1 V2 = some (Irving.matchingValue V1 V2 M)) ∧
    (wfB n P1 P2 V1 V2 = true →
      irving n P1 P2 V1 V2 ≠ .error "check-exposed" ∧ irving n P1 P2 V1 V2 ≠ .error "not-exposed") := by
  constructor
  · intro M h
    obtain ⟨_, _, _, M0, rots, hplan, _⟩ := irving_sound' n P1 P2 V1 V2 M h
    have hwf := (irvingPlan_ok n P1 P2 V1 V2 M0 rots hplan).1
    exact irving_optimal_of_remaining_at (hi n P1 P2 V1 V2 hwf)
      (remaining_j_of_index hwf (hi n P1 P2 V1 V2 hwf) (remaining_j_index_of_task (hj n P1 P2 V1 V2 hwf)))
      (flowSide_of_weightBound hbig) h
  · intro hwf
    exact irving_no_exposed_error_of_complete (remaining_j_complete_of_task (hj n P1 P2 V1 V2 hwf))

end IrvingAlgo

#print axioms IrvingAlgo.irving_optimal_of_remaining_task

namespace IrvingAlgo

open Irving

theorem exLatin_closed_iff (T : List Nat) : ClosedUnder [[1], []] T ↔ (1 ∈ T → 0 ∈ T) := by
  constructor
  · intro h h1
    exact h 0 ⟨1, by decide, h1⟩
  · rintro h rho ⟨x, hx, hxT⟩
    match rho, hx with
    | 0, hx =>
      have : x = 1 := by simpa using hx
      subst this; exact h hxT
    | 1, hx => simp at hx
    | rho + 2, hx => simp at hx

/-- the task form of (j) holds on the 3×3 Latin-square instance -/
theorem exLatin_remaining_j_task : Remaining_j_task_at 3 exL1 exL2 := by
  refine exLatin_cases (motive := fun M0 all elim => ∀ S : Nat → Bool,
    exposedAllB exL1 exL2 M0 (idxSub all S) = true ↔
      ClosedUnder (posetGraph all (shortlists 3 exL1 exL2 (muOf 3 M0)).1 elim) ((List.range all.length).filter S)) ?_
  intro S
  rw [exLatin_posetGraph, exLatin_closed_iff]
  have hr : List.range exAll.length = [0, 1] := by decide
  unfold idxSub
  rw [hr]
  cases h0 : S 0 <;> cases h1 : S 1 <;> simp only [List.filter_cons, h0, h1, List.filter_nil] <;> decide +kernel

end IrvingAlgo
