import Sck.Proofs.ElicitRules3

/-! Rule-level elicitation models: rows of the simulated matrices of the threshold rules; Match-TwoQueries rows. -/

namespace ElicitRules

open Elicit

/-- the matrix of a threshold rule is produced as soon as every row is, and its rows are the `simRow`s -/
theorem thrMatrixPV_rows (floor : Rat) {PV : List (List Nat × List Rat)} {m : Nat} {lams : List Rat}
    (hk : lams.length ≤ m) (hm : 0 < m)
    (hPV : ∀ pv ∈ PV, consistentRowB pv.1 pv.2 m = true) (hl : lamsOkB lams = true) :
    ∃ M, thrMatrixPV floor PV m lams = some M ∧ M.length = PV.length ∧
      ∀ i (hi : i < PV.length), simRow floor PV[i].1 PV[i].2 m lams = some (M.getD i []) := by
  have hsucc : ∃ M, optAll (PV.map (fun pv => simRow floor pv.1 pv.2 m lams)) = some M := by
    apply optAll_succeeds
    intro x hx
    obtain ⟨pv, hpv, rfl⟩ := List.mem_map.1 hx
    obtain ⟨srow, hs, _⟩ := simRow_spec floor hm (consistentRowB_iff.1 (hPV pv hpv)) hl
    exact ⟨srow, hs⟩
  obtain ⟨M, hM⟩ := hsucc
  have hM' := optAll_eq_some_iff.1 hM
  have hlen : M.length = PV.length := by
    have := congrArg List.length hM'
    simpa using this.symm
  refine ⟨M, by unfold thrMatrixPV; rw [if_neg (by omega)]; exact hM, hlen, ?_⟩
  intro i hi
  have h1 : (PV.map (fun pv => simRow floor pv.1 pv.2 m lams))[i]? = (M.map some)[i]? := by rw [hM']
  rw [List.getElem?_map, List.getElem?_map, List.getElem?_eq_getElem hi,
    List.getElem?_eq_getElem (hlen ▸ hi)] at h1
  simp only [Option.map_some, Option.some.injEq] at h1
  rw [h1, List.getD_eq_getElem?_getD, List.getElem?_eq_getElem (hlen ▸ hi)]
  rfl

/-- one Match-TwoQueries row in alternative order -/
theorem m2qRow_spec (floor : Rat) {row : List Nat} {vrow : List Rat} {m : Nat} (hc : ConsistentRow row vrow m)
    {a : Nat} (ha : a < m) :
    (m2qRow floor row vrow a).length = m ∧
    (∀ j, j < m → row.getD j 0 = 1 → (m2qRow floor row vrow a).getD j 0 = vrow.getD j 0) ∧
    (∀ j, j < m → 1 < row.getD j 0 → row.getD j 0 ≤ row.getD a 0 →
      (m2qRow floor row vrow a).getD j 0 = vrow.getD a 0 ∧ vrow.getD a 0 ≤ vrow.getD j 0) ∧
    (∀ j, j < m → row.getD a 0 < row.getD j 0 → (m2qRow floor row vrow a).getD j 0 = floor) := by
  have hra := rank_pos hc.perm ha
  have hpa : posVals row vrow (row.getD a 1 - 1) = vrow.getD a 0 := by
    have e : row.getD a 1 = row.getD a 0 := by
      rw [List.getD_eq_getElem?_getD, List.getD_eq_getElem?_getD,
        List.getElem?_eq_getElem (by rw [perm_length hc.perm]; exact ha)]
      rfl
    rw [e]
    exact posVals_at_alt hc.perm vrow ha
  have e1 : row.getD a 1 = row.getD a 0 := by
    rw [List.getD_eq_getElem?_getD, List.getD_eq_getElem?_getD,
      List.getElem?_eq_getElem (by rw [perm_length hc.perm]; exact ha)]
    rfl
  refine ⟨by unfold m2qRow; rw [scatter_length, perm_length hc.perm], ?_, ?_, ?_⟩
  · intro j hj h1
    unfold m2qRow
    rw [scatter_getD hc.perm _ hj, h1, m2q_favourite]
    have := posVals_at_alt hc.perm vrow hj
    rwa [h1] at this
  · intro j hj h1 hle
    unfold m2qRow
    rw [scatter_getD hc.perm _ hj, m2q_value floor _ _ _ (by omega) (by rw [e1]; omega), hpa]
    exact ⟨rfl, hc.anti j a hj ha hle⟩
  · intro j hj hlt
    unfold m2qRow
    rw [scatter_getD hc.perm _ hj, m2q_beyond floor _ _ _ (by rw [e1]; omega)]

end ElicitRules
