import Sck.Proofs.McmCut
import Sck.Proofs.FlowTotal
import Sck.Proofs.FlowCert

/-! C09: totality of the model (`mcm` does not fail with enough fuel; `|X| + 1` is enough) and the combined
end-to-end statement. -/

theorem sum_filter_map_const (p : Int → Bool) (g : Int → Nat) (c : Nat) :
    ∀ L : List Int, (∀ v ∈ L, p v = true ∧ g v = c) → ((L.filter p).map g).sum = c * L.length := by
  intro L
  induction L with
  | nil => intro _; simp
  | cons a L ih =>
    intro h
    have ha := h a (by simp)
    have := ih (fun v hv => h v (by simp [hv]))
    rw [List.filter_cons_of_pos ha.1, List.map_cons, List.sum_cons, this, ha.2, List.length_cons]
    rw [Nat.mul_add, Nat.mul_one, Nat.add_comm]

/-- the generic fuel bound of C08 is `|X| + 1` on the network of a bipartite graph -/
theorem ffFuel_bipNet (X Y : List Int) (adj : Int → List Int) (hwf : bipWfB X Y adj = true) :
    ffFuel (bipNet X Y adj) = mcmFuel X := by
  have w := (bipWfB_iff X Y adj).mp hwf
  unfold ffFuel mcmFuel
  have hs : (bipNet X Y adj).s = -1 := rfl
  have hv : (bipNet X Y adj).verts = X ++ ([-1, -2] ++ Y) := by simp [bipNet]
  rw [hs, hv, List.filter_append, List.map_append, List.sum_append,
    sum_filter_map_const _ _ 1 X (fun v hv => ?_), List.filter_append, List.map_append, List.sum_append,
    sum_filter_map_const _ _ 0 Y (fun v hv => ?_)]
  · have h2 : (bipNet X Y adj).cap (-1) (-2) = 0 :=
      bipNet_cap_eq_zero X Y adj _ _ (fun h => w.tX ((bipEdge_source w).mp h))
    simp [h2]; omega
  · refine ⟨?_, ?_⟩
    · have : v ≠ -1 := fun e => w.sY (e ▸ hv)
      simpa using this
    · rw [bipNet_cap_eq_zero X Y adj _ _ (fun h => w.disj v ((bipEdge_source w).mp h) hv)]; rfl
  · refine ⟨?_, ?_⟩
    · have : v ≠ -1 := fun e => w.sX (e ▸ hv)
      simpa using this
    · rw [bipNet_cap_eq_one X Y adj _ _ ((bipEdge_source w).mpr hv)]; rfl

/-- with enough fuel the model does not fail on a well-formed instance -/
theorem mcm_total_of_le (X Y : List Int) (adj : Int → List Int) (fuel : Nat)
    (hwf : bipWfB X Y adj = true) (hfuel : mcmFuel X ≤ fuel) : ∃ M, mcm X Y adj fuel = .ok M := by
  rw [← ffFuel_bipNet X Y adj hwf] at hfuel
  obtain ⟨⟨f, S⟩, h⟩ := ff_total_of_le (bipNet X Y adj) (bipNet_wf X Y adj hwf) fuel hfuel
  exact ⟨mcmOfFlow X adj f, by unfold mcm; rw [h]⟩

/-- end to end: on a well-formed instance, with fuel `|X| + 1` or more, the model returns a maximum matching -/
theorem mcm_correct (X Y : List Int) (adj : Int → List Int) (fuel : Nat)
    (hwf : bipWfB X Y adj = true) (hfuel : mcmFuel X ≤ fuel) :
    ∃ M, mcm X Y adj fuel = .ok M ∧ IsMatching X adj M ∧
      ∀ M', IsMatching X adj M' → M'.length ≤ M.length := by
  obtain ⟨M, h⟩ := mcm_total_of_le X Y adj fuel hwf hfuel
  exact ⟨M, h, mcm_is_matching X Y adj fuel M hwf h, mcm_maximum X Y adj fuel M hwf h⟩

/-- bridge to the IMPLEMENTATION's max-flow: if the flow dict `fl` and cut `S` reported by `ford_fulkerson` on
the network of a well-formed bipartite graph pass the C08 certificate check, then the read-out loop applied
to that dict yields a maximum matching -/
theorem mcmOfFlow_of_flowCert (X Y : List Int) (adj : Int → List Int) (fl : List (Int × Int × Int))
    (S : List Int) (hwf : bipWfB X Y adj = true) (h : flowCutOk (bipNet X Y adj) fl S = true) :
    IsMatching X adj (mcmOfFlow X adj (flowOf fl)) ∧
      ∀ M', IsMatching X adj M' → M'.length ≤ (mcmOfFlow X adj (flowOf fl)).length := by
  have w := (bipWfB_iff X Y adj).mp hwf
  obtain ⟨hf, _, ⟨hs, ht, _, hval⟩, _, _⟩ := flowCutOk_sound _ fl S (bipNet_wf X Y adj hwf) h
  exact ⟨mcmOfFlow_isMatching w hf, mcmOfFlow_maximum w hf S.toFinset (List.mem_toFinset.mpr hs)
    (fun hm => ht (List.mem_toFinset.mp hm)) hval.symm⟩

#print axioms ffFuel_bipNet
#print axioms mcm_total_of_le
#print axioms mcm_correct
#print axioms mcmOfFlow_of_flowCert
