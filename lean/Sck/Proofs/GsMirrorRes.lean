import Sck.Proofs.GsMirrorHosp
import Sck.Proofs.GsMirrorHeap
import Mathlib.Data.List.Perm.Basic

/-! L5: the resident-oriented mirror `GsMirror.gsResMirror` refines the generic deferred-acceptance model
(`gsRes`) on instances whose hospital rows carry the ranks `1..k` (`compactRowB`, needed because the code
decodes a heap entry through `ranked_hprofile[h, rank - 1]`): simulation relation `RelR` between the code's
state (`resident_applications`, the `heapq` arrays `hospital_waiting_lists`, `next_current_applicants`) and
the model's state (`ptr`, `mu`). -/

namespace GsMirror

/-! ### the loop body, case by case -/

theorem resBody_skip (I : HR) (cur : List Nat) (s : ResSt) (r : Nat)
    (hc : (cur.getD r 0 == 0 || cur.getD r 0 == 2) = true) : resBody I cur s r = .ok s := by
  unfold resBody; rw [if_pos hc]

theorem resBody_mark1 (I : HR) (cur : List Nat) (s : ResSt) (r : Nat)
    (hc : (cur.getD r 0 == 0 || cur.getD r 0 == 2) = false) (hm : I.m ≤ last1 s.apps r) :
    resBody I cur s r = .ok { s with next := s.next.set r 2 } := by
  unfold resBody
  rw [if_neg (by rw [hc]; simp)]
  simp only [hm, if_true]

theorem resBody_mark2 (I : HR) (cur : List Nat) (s : ResSt) (r h : Nat)
    (hc : (cur.getD r 0 == 0 || cur.getD r 0 == 2) = false) (hm : ¬ I.m ≤ last1 s.apps r)
    (hh : (argsortRow (I.R.getD r [])).getD (last1 s.apps r) 0 = h) (hnan : rankAt I.R r h = none) :
    resBody I cur s r = .ok { s with next := s.next.set r 2 } := by
  unfold resBody
  rw [if_neg (by rw [hc]; simp)]
  simp only [hm, if_false, hh, hnan, Option.isNone_none, if_true]

theorem resBody_rej (I : HR) (cur : List Nat) (s : ResSt) (r h x : Nat)
    (hc : (cur.getD r 0 == 0 || cur.getD r 0 == 2) = false) (hm : ¬ I.m ≤ last1 s.apps r)
    (hh : (argsortRow (I.R.getD r [])).getD (last1 s.apps r) 0 = h) (hx : rankAt I.R r h = some x)
    (ha : rankAt I.H h r = none) :
    resBody I cur s r = .ok { s with apps := s.apps.set r (some (last1 s.apps r)) } := by
  unfold resBody
  rw [if_neg (by rw [hc]; simp)]
  simp only [hm, if_false, hh, hx, Option.isNone_some, Bool.false_eq_true, ha]

theorem resBody_room (I : HR) (cur : List Nat) (s : ResSt) (r h x a : Nat)
    (hc : (cur.getD r 0 == 0 || cur.getD r 0 == 2) = false) (hm : ¬ I.m ≤ last1 s.apps r)
    (hh : (argsortRow (I.R.getD r [])).getD (last1 s.apps r) 0 = h) (hx : rankAt I.R r h = some x)
    (ha : rankAt I.H h r = some a)
    (hroom : (hpush (s.heaps.getD h []) (-((a : Int) - 1))).length ≤ I.cap.getD h 0) :
    resBody I cur s r = .ok { s with apps := s.apps.set r (some (last1 s.apps r)),
                                      heaps := s.heaps.set h (hpush (s.heaps.getD h []) (-((a : Int) - 1))),
                                      next := s.next.set r 0 } := by
  unfold resBody
  rw [if_neg (by rw [hc]; simp)]
  simp only [hm, if_false, hh, hx, Option.isNone_some, Bool.false_eq_true, ha, hroom, if_true]

theorem resBody_full (I : HR) (cur : List Nat) (s : ResSt) (r h x a : Nat) (e : Int) (heap2 : List Int) (d : Nat)
    (hc : (cur.getD r 0 == 0 || cur.getD r 0 == 2) = false) (hm : ¬ I.m ≤ last1 s.apps r)
    (hh : (argsortRow (I.R.getD r [])).getD (last1 s.apps r) 0 = h) (hx : rankAt I.R r h = some x)
    (ha : rankAt I.H h r = some a)
    (hroom : ¬ (hpush (s.heaps.getD h []) (-((a : Int) - 1))).length ≤ I.cap.getD h 0)
    (hpop' : hpop (hpush (s.heaps.getD h []) (-((a : Int) - 1))) = some (e, heap2))
    (hd : pyIdx (argsortRow (I.H.getD h [])) (-e) = some d) :
    resBody I cur s r = .ok { s with apps := s.apps.set r (some (last1 s.apps r)),
                                      heaps := s.heaps.set h heap2,
                                      next := (s.next.set r 0).set d 1 } := by
  unfold resBody
  rw [if_neg (by rw [hc]; simp)]
  simp only [hm, if_false, hh, hx, Option.isNone_some, Bool.false_eq_true, ha, hroom, hpop', hd, List.set_set]

/-! ### list helpers -/

theorem heldBy_erase_same (l : List (Nat × Nat)) (w h : Nat) :
    heldBy (l.erase (w, h)) h = (heldBy l h).erase w := by
  induction l with
  | nil => simp [heldBy]
  | cons e t ih =>
    obtain ⟨a, b⟩ := e
    by_cases he : (a, b) = (w, h)
    · simp only [Prod.mk.injEq] at he
      obtain ⟨rfl, rfl⟩ := he
      rw [List.erase_cons_head, heldBy_cons_same, List.erase_cons_head]
    · rw [List.erase_cons_tail (by simpa using he)]
      by_cases hb : b = h
      · subst hb
        have haw : a ≠ w := by intro h'; apply he; rw [h']
        rw [heldBy_cons_same, heldBy_cons_same, List.erase_cons_tail (by simpa using haw), ih]
      · rw [heldBy_cons_ne _ _ _ _ hb, heldBy_cons_ne _ _ _ _ hb, ih]

theorem map_erase_perm {α β : Type} [DecidableEq α] [DecidableEq β] (f : α → β) (L : List α) (w : α)
    (hw : w ∈ L) : ((L.map f).erase (f w)).Perm ((L.erase w).map f) := by
  induction L with
  | nil => simp at hw
  | cons a t ih =>
    by_cases haw : a = w
    · subst haw; simp
    · have hwt : w ∈ t := by
        rcases List.mem_cons.mp hw with h | h
        · exact absurd h.symm haw
        · exact h
      rw [List.erase_cons_tail (by simpa using haw), List.map_cons, List.map_cons]
      by_cases hf : f a = f w
      · rw [hf, List.erase_cons_head]
        have h1 : (t.map f).Perm (f w :: (t.map f).erase (f w)) :=
          List.perm_cons_erase (List.mem_map.mpr ⟨w, hwt, rfl⟩)
        exact h1.trans (List.Perm.cons _ (ih hwt))
      · rw [List.erase_cons_tail (by simpa using hf)]
        exact List.Perm.cons _ (ih hwt)

/-! ### the simulation relation -/

/-- the heap entry of resident `r` in the waiting list of hospital `h`: the negated 0-based rank -/
def enc (I : HR) (h r : Nat) : Int := -((((rankAt I.H h r).getD 0 : Nat) : Int) - 1)

theorem enc_eq (I : HR) (h r a : Nat) (ha : rankAt I.H h r = some a) : enc I h r = -((a : Int) - 1) := by
  unfold enc; rw [ha]; rfl

structure RelR (I : HR) (s : ResSt) (st : St) : Prop where
  lenA : s.apps.length = I.n
  lenH : s.heaps.length = I.m
  lenN : s.next.length = I.n
  /-- `resident_applications[r] + 1` is the model's pointer -/
  ptr : ∀ r, r < I.n → st.ptr r = last1 s.apps r
  /-- every `heapq` array is a heap and holds exactly the (encoded) residents matched to the hospital -/
  heap : ∀ h, h < I.m → IsHeap (s.heaps.getD h []) ∧
    (s.heaps.getD h []).Perm ((heldBy st.mu h).map (enc I h))
  /-- status 0 = holds a place -/
  zero : ∀ r, r < I.n → (s.next.getD r 0 = 0 ↔ matchesOf st.mu r ≠ [])
  /-- status 2 is only given to residents whose list is exhausted -/
  two : ∀ r, r < I.n → s.next.getD r 0 = 2 → ((daRes I).plist r).length ≤ st.ptr r
  /-- only the three status codes occur -/
  le2 : ∀ r, s.next.getD r 0 ≤ 2

theorem le2_set (l : List Nat) (i v : Nat) (hv : v ≤ 2) (h : ∀ q, l.getD q 0 ≤ 2) :
    ∀ q, (l.set i v).getD q 0 ≤ 2 := by
  intro q
  by_cases hq : i = q
  · subst hq
    by_cases hl : i < l.length
    · rw [getD_set_self _ _ _ _ hl]; exact hv
    · rw [List.set_eq_of_length_le (by omega)]; exact h i
  · rw [getD_set_ne _ _ _ _ _ hq]; exact h q

theorem resRow_facts (I : HR) (hwf : I.WF2) (r : Nat) (hr : r < I.n) :
    (I.R.getD r []).length = I.m ∧ StrictRow (I.R.getD r []) ∧
    (daRes I).plist r = plistOfRow (I.R.getD r []) := by
  have hmem : I.R.getD r [] ∈ I.R := by
    rw [List.getD_eq_getElem?_getD, List.getElem?_eq_getElem (by rw [hwf.lenR]; exact hr)]
    exact List.getElem_mem _
  refine ⟨hwf.rowR _ hmem, hwf.strictR _ hmem, ?_⟩
  simp only [daRes, hr, if_true]

theorem hospRow_compact (I : HR) (hcomp : I.H.all compactRowB = true) (hwf : I.WF2) (h : Nat) (hh : h < I.m) :
    compactRowB (I.H.getD h []) = true := by
  have hmem : I.H.getD h [] ∈ I.H := by
    rw [List.getD_eq_getElem?_getD, List.getElem?_eq_getElem (by rw [hwf.lenH]; exact hh)]
    exact List.getElem_mem _
  exact List.all_eq_true.mp hcomp _ hmem

/-- **one iteration of `for resident in range(n)`** for a resident with status 1 is one `step` of the model -/
theorem resBody_sim (I : HR) (hwf : I.WF2) (hcomp : I.H.all compactRowB = true) (cur : List Nat)
    (s : ResSt) (st : St) (hrel : RelR I s st)
    (hinv : DAInv (daRes I) st) (hcap : CapP (daRes I) st) (r : Nat) (hr : r < I.n)
    (hc : (cur.getD r 0 == 0 || cur.getD r 0 == 2) = false) (hun : matchesOf st.mu r = []) :
    ∃ s', resBody I cur s r = .ok s' ∧ RelR I s' (step (daRes I) st r) ∧
      (((daRes I).plist r)[st.ptr r]? = none → s' = { s with next := s.next.set r 2 }) := by
  obtain ⟨hrowlen, hstrict, hpl⟩ := resRow_facts I hwf r hr
  have hptr := hrel.ptr r hr
  have hwfD := daRes_wf2 I hwf
  by_cases hex : (plistOfRow (I.R.getD r [])).length ≤ last1 s.apps r
  · -- the list is exhausted: the code confirms the rejection, the model does nothing
    have hnone : ((daRes I).plist r)[st.ptr r]? = none := by
      rw [hpl, hptr]; exact List.getElem?_eq_none hex
    have hbody : resBody I cur s r = .ok { s with next := s.next.set r 2 } := by
      by_cases hm : I.m ≤ last1 s.apps r
      · exact resBody_mark1 I cur s r hc hm
      · refine resBody_mark2 I cur s r _ hc hm rfl ?_
        have := argsortRow_getD_ge (I.R.getD r []) hstrict (last1 s.apps r) hex (by omega)
        unfold rankAt
        exact Option.isNone_iff_eq_none.mp this
    refine ⟨_, hbody, ?_, fun _ => rfl⟩
    rw [step_exhausted _ _ _ hnone]
    refine ⟨hrel.lenA, hrel.lenH, by simp [hrel.lenN], hrel.ptr, hrel.heap, ?_, ?_,
      le2_set _ _ _ (by decide) hrel.le2⟩
    · intro q hq
      by_cases hqr : q = r
      · subst hqr
        rw [getD_set_self _ _ _ _ (by rw [hrel.lenN]; exact hq)]
        simp [hun]
      · rw [getD_set_ne _ _ _ _ _ (Ne.symm hqr)]; exact hrel.zero q hq
    · intro q hq hq2
      by_cases hqr : q = r
      · subst hqr; rw [hpl, hptr]; exact hex
      · rw [getD_set_ne _ _ _ _ _ (Ne.symm hqr)] at hq2; exact hrel.two q hq hq2
  · -- an application is made
    have hlt : last1 s.apps r < (plistOfRow (I.R.getD r [])).length := by omega
    have hplen := plistOfRow_length_le (I.R.getD r [])
    have hm : ¬ I.m ≤ last1 s.apps r := by omega
    obtain ⟨h, hh⟩ : ∃ h, (plistOfRow (I.R.getD r []))[last1 s.apps r]? = some h :=
      ⟨_, List.getElem?_eq_getElem hlt⟩
    have hsome : ((daRes I).plist r)[st.ptr r]? = some h := by rw [hpl, hptr]; exact hh
    have hnext := argsortRow_getD_lt (I.R.getD r []) hstrict _ h hh
    obtain ⟨hhl, hhs⟩ := (mem_plistOfRow _ h).mp (List.mem_of_getElem? hh)
    obtain ⟨x, hx'⟩ := Option.isSome_iff_exists.mp hhs
    have hx : rankAt I.R r h = some x := hx'
    have hhm : h < I.m := by omega
    have hfresh := fresh (daRes I) hwfD st hinv r h hsome
    have hptr' : ∀ q, q < I.n → setPtr st.ptr r (st.ptr r + 1) q =
        last1 (s.apps.set r (some (last1 s.apps r))) q := by
      intro q hq
      by_cases hqr : q = r
      · subst hqr; rw [setPtr_same, last1_set_self _ _ _ (by rw [hrel.lenA]; exact hq), hptr]
      · rw [setPtr_ne _ _ _ _ hqr, last1_set_ne _ _ _ _ (Ne.symm hqr)]; exact hrel.ptr q hq
    have htwo' : ∀ q, q < I.n → s.next.getD q 0 = 2 →
        ((daRes I).plist q).length ≤ setPtr st.ptr r (st.ptr r + 1) q := by
      intro q hq hq2
      exact Nat.le_trans (hrel.two q hq hq2) (setPtr_ge st.ptr r q)
    cases ha : rankAt I.H h r with
    | none =>
      -- the hospital finds the resident unacceptable
      refine ⟨_, resBody_rej I cur s r h x hc hm hnext hx ha, ?_,
        fun hnone => by rw [hsome] at hnone; exact absurd hnone (by simp)⟩
      rw [step_rejected _ _ _ _ hsome ha]
      exact ⟨by simp [hrel.lenA], hrel.lenH, hrel.lenN, hptr', hrel.heap, hrel.zero, htwo', hrel.le2⟩
    | some a =>
      obtain ⟨hheap0, hperm0⟩ := hrel.heap h hhm
      have henc : -((a : Int) - 1) = enc I h r := (enc_eq I h r a ha).symm
      have hheap1 := hpush_isHeap (s.heaps.getD h []) (-((a : Int) - 1)) hheap0
      have hperm1 : (hpush (s.heaps.getD h []) (-((a : Int) - 1))).Perm
          ((heldBy ((r, h) :: st.mu) h).map (enc I h)) := by
        rw [heldBy_cons_same, List.map_cons, ← henc]
        exact (hpush_perm _ _).trans (List.Perm.cons _ hperm0)
      have hlen1 : (hpush (s.heaps.getD h []) (-((a : Int) - 1))).length =
          (heldBy ((r, h) :: st.mu) h).length := by
        rw [hperm1.length_eq, List.length_map]
      -- clauses shared by the two sub-cases: everything except the receiving hospital / dropped resident
      have hzero1 : ∀ q, q < I.n → ((s.next.set r 0).getD q 0 = 0 ↔ matchesOf ((r, h) :: st.mu) q ≠ []) := by
        intro q hq
        by_cases hqr : q = r
        · subst hqr
          rw [getD_set_self _ _ _ _ (by rw [hrel.lenN]; exact hq), matchesOf_cons_same]
          simp
        · rw [getD_set_ne _ _ _ _ _ (Ne.symm hqr), matchesOf_cons_ne _ _ _ _ (Ne.symm hqr)]
          exact hrel.zero q hq
      have htwo1 : ∀ q, q < I.n → (s.next.set r 0).getD q 0 = 2 →
          ((daRes I).plist q).length ≤ setPtr st.ptr r (st.ptr r + 1) q := by
        intro q hq hq2
        by_cases hqr : q = r
        · subst hqr
          rw [getD_set_self _ _ _ _ (by rw [hrel.lenN]; exact hq)] at hq2
          exact absurd hq2 (by decide)
        · rw [getD_set_ne _ _ _ _ _ (Ne.symm hqr)] at hq2
          exact htwo' q hq hq2
      by_cases hroom : (hpush (s.heaps.getD h []) (-((a : Int) - 1))).length ≤ I.cap.getD h 0
      · -- below capacity: the resident is kept
        refine ⟨_, resBody_room I cur s r h x a hc hm hnext hx ha hroom, ?_,
          fun hnone => by rw [hsome] at hnone; exact absurd hnone (by simp)⟩
        have hroom' : (heldBy ((r, h) :: st.mu) h).length ≤ (daRes I).qr h := by
          rw [← hlen1]; exact hroom
        rw [step_room _ _ _ _ a hsome ha hroom']
        refine ⟨by simp [hrel.lenA], by simp [hrel.lenH], by simp [hrel.lenN], hptr', ?_, hzero1, htwo1,
          le2_set _ _ _ (by decide) hrel.le2⟩
        intro h' hh'
        by_cases hhh : h' = h
        · subst hhh
          rw [getD_set_self _ _ _ _ (by rw [hrel.lenH]; exact hh')]
          exact ⟨hheap1, hperm1⟩
        · rw [getD_set_ne _ _ _ _ _ (Ne.symm hhh), heldBy_cons_ne _ _ _ _ (Ne.symm hhh)]
          exact hrel.heap h' hh'
      · -- over capacity: `heappop` removes the worst resident
        have hne1 : hpush (s.heaps.getD h []) (-((a : Int) - 1)) ≠ [] := by
          intro he; rw [he] at hlen1; rw [heldBy_cons_same] at hlen1; simp at hlen1
        obtain ⟨⟨e, heap2⟩, hpop'⟩ := Option.ne_none_iff_exists'.mp (hpop_ne_none _ hne1)
        obtain ⟨hemem, hemin, hperm2, hheap2⟩ := hpop_spec _ hheap1 e heap2 hpop'
        have hfull : ¬ (heldBy ((r, h) :: st.mu) h).length ≤ (daRes I).qr h := by
          rw [← hlen1]; exact hroom
        obtain ⟨w, hw⟩ := worst_some (daRes I) h (heldBy ((r, h) :: st.mu) h) (by rw [heldBy_cons_same]; simp)
        have hwm := worst_mem _ _ _ _ hw
        -- all held residents are acceptable to the hospital
        have hacc : ∀ p ∈ heldBy ((r, h) :: st.mu) h, ∃ b, rankAt I.H h p = some b := by
          intro p hp
          rw [heldBy_cons_same] at hp
          rcases List.mem_cons.mp hp with rfl | hp
          · exact ⟨a, ha⟩
          · exact hinv.acc p h (mem_heldBy.mp hp)
        -- the popped entry is the entry of the worst resident
        have hew : e = enc I h w := by
          obtain ⟨v, hv, hev⟩ := List.mem_map.mp (hperm1.subset hemem)
          have h1 := hemin (enc I h w) (hperm1.symm.subset (List.mem_map.mpr ⟨w, hwm, rfl⟩))
          have h2 := worst_ge _ _ _ _ hw v hv
          obtain ⟨bv, hbv⟩ := hacc v hv
          obtain ⟨bw, hbw⟩ := hacc w hwm
          rw [← hev, enc_eq I h v bv hbv] at h1 ⊢
          rw [enc_eq I h w bw hbw] at h1 ⊢
          unfold rk at h2
          rw [show (daRes I).rrank h v = rankAt I.H h v from rfl, show (daRes I).rrank h w = rankAt I.H h w from rfl,
            hbv, hbw] at h2
          simp only [Option.getD_some] at h2
          omega
        obtain ⟨bw, hbw⟩ := hacc w hwm
        have hwn : w < I.n := (rankAt_some_lt I.H I.n hwf.rowH h w bw hbw).2
        obtain ⟨hrowlenH, hstrictH, _⟩ := hospRow_facts I hwf h hhm
        have hdec : pyIdx (argsortRow (I.H.getD h [])) (-e) = some w := by
          rw [hew, enc_eq I h w bw hbw]
          exact pyIdx_decode (I.H.getD h []) hstrictH (hospRow_compact I hcomp hwf h hhm) w bw
            (by omega) hbw
        refine ⟨_, resBody_full I cur s r h x a e heap2 w hc hm hnext hx ha hroom hpop' hdec, ?_,
          fun hnone => by rw [hsome] at hnone; exact absurd hnone (by simp)⟩
        rw [step_full _ _ _ _ a w hsome ha hfull hw]
        have hwmu : (w, h) ∈ (r, h) :: st.mu := mem_heldBy.mp hwm
        -- the dropped resident held exactly this place
        have hmw : (matchesOf (((r, h) :: st.mu).erase (w, h)) w) = [] := by
          have hle : (matchesOf ((r, h) :: st.mu) w).length ≤ 1 := by
            by_cases hwr : w = r
            · subst hwr; rw [matchesOf_cons_same, hun]; simp
            · rw [matchesOf_cons_ne _ _ _ _ (Ne.symm hwr)]; exact hcap w
          have := matchesOf_erase_len _ w h hwmu
          exact List.eq_nil_of_length_eq_zero (by omega)
        refine ⟨by simp [hrel.lenA], by simp [hrel.lenH], by simp [hrel.lenN], hptr', ?_, ?_, ?_,
          le2_set _ _ _ (by decide) (le2_set _ _ _ (by decide) hrel.le2)⟩
        · intro h' hh'
          by_cases hhh : h' = h
          · subst hhh
            rw [getD_set_self _ _ _ _ (by rw [hrel.lenH]; exact hh')]
            refine ⟨hheap2, ?_⟩
            rw [heldBy_erase_same]
            refine hperm2.trans ?_
            rw [hew]
            exact (hperm1.erase _).trans (map_erase_perm (enc I h') _ w hwm)
          · rw [getD_set_ne _ _ _ _ _ (Ne.symm hhh), heldBy_erase_ne _ _ _ _ (Ne.symm hhh),
              heldBy_cons_ne _ _ _ _ (Ne.symm hhh)]
            exact hrel.heap h' hh'
        · intro q hq
          by_cases hqw : q = w
          · subst hqw
            rw [getD_set_self _ _ _ _ (by simp [hrel.lenN]; exact hq), hmw]
            simp
          · rw [getD_set_ne _ _ _ _ _ (Ne.symm hqw), matchesOf_erase_ne _ _ _ _ (Ne.symm hqw)]
            exact hzero1 q hq
        · intro q hq hq2
          by_cases hqw : q = w
          · subst hqw
            rw [getD_set_self _ _ _ _ (by simp [hrel.lenN]; exact hq)] at hq2
            exact absurd hq2 (by decide)
          · rw [getD_set_ne _ _ _ _ _ (Ne.symm hqw)] at hq2
            exact htwo1 q hq hq2

/-! ### one pass of the `for` loop -/

/-- what the round still owes resident `p` (not yet visited); `cur` is the copy `current_applicants` -/
def PendR (I : HR) (st0 : St) (cur : List Nat) (st : St) (p : Nat) : Prop :=
  ((cur.getD p 0 == 0 || cur.getD p 0 == 2) = false → matchesOf st.mu p = [] ∧
      (active (daRes I) st0 p = true ∨ ((daRes I).plist p)[st.ptr p]? = none)) ∧
  ((cur.getD p 0 == 0 || cur.getD p 0 == 2) = true → active (daRes I) st0 p = false)

theorem resFold_sim (I : HR) (hwf : I.WF2) (hcomp : I.H.all compactRowB = true) (st0 : St) (cur : List Nat)
    (ps : List Nat) (hnd : ps.Nodup) (hlt : ∀ p ∈ ps, p < I.n) (s : ResSt) (st : St) (hrel : RelR I s st)
    (hinv : DAInv (daRes I) st) (hcap : CapP (daRes I) st) (hpend : ∀ p ∈ ps, PendR I st0 cur st p) :
    ∃ s', foldExcept (resBody I cur) ps s = .ok s' ∧
      RelR I s' (ps.foldl (fun s p => if active (daRes I) st0 p then step (daRes I) s p else s) st) ∧
      DAInv (daRes I) (ps.foldl (fun s p => if active (daRes I) st0 p then step (daRes I) s p else s) st) ∧
      CapP (daRes I) (ps.foldl (fun s p => if active (daRes I) st0 p then step (daRes I) s p else s) st) ∧
      ((∀ p ∈ ps, (cur.getD p 0 == 0 || cur.getD p 0 == 2) = false → ((daRes I).plist p)[st.ptr p]? = none) →
        ∀ q, s'.next.getD q 0 =
          if q ∈ ps ∧ (cur.getD q 0 == 0 || cur.getD q 0 == 2) = false then 2 else s.next.getD q 0) := by
  have hwfD := daRes_wf2 I hwf
  induction ps generalizing s st with
  | nil => exact ⟨s, rfl, hrel, hinv, hcap, fun _ q => by simp⟩
  | cons p ps ih =>
    rw [List.nodup_cons] at hnd
    have hp := hlt p (by simp)
    simp only [List.foldl_cons, foldExcept]
    cases hc : (cur.getD p 0 == 0 || cur.getD p 0 == 2) with
    | false =>
      obtain ⟨hun, hstep⟩ := (hpend p (by simp)).1 hc
      obtain ⟨s1, hbody, hrel1, hmark⟩ := resBody_sim I hwf hcomp cur s st hrel hinv hcap p hp hc hun
      have hst : (if active (daRes I) st0 p then step (daRes I) st p else st) = step (daRes I) st p := by
        rcases hstep with h1 | h1
        · rw [if_pos h1]
        · rw [step_exhausted _ _ _ h1]; simp
      rw [hst, hbody]
      have hinv1 := step_inv (daRes I) hwfD st p hinv
      have hcap1 := step_capP (daRes I) st p hcap (by rw [hun]; exact Nat.zero_lt_one)
      have hpend1 : ∀ q ∈ ps, PendR I st0 cur (step (daRes I) st p) q := by
        intro q hq
        have hqp : q ≠ p := fun h => hnd.1 (h ▸ hq)
        have hpq := hpend q (by simp [hq])
        unfold PendR
        rw [step_ptr_other _ _ _ _ hqp]
        refine ⟨fun h1 => ?_, hpq.2⟩
        obtain ⟨h2, h3⟩ := hpq.1 h1
        refine ⟨?_, h3⟩
        have := matches_len_other (daRes I) hwfD st hinv p q hqp
        rw [h2] at this
        exact List.eq_nil_of_length_eq_zero (by simpa using this)
      obtain ⟨s', r0, r1, r2, r3, r4⟩ := ih hnd.2 (fun q hq => hlt q (by simp [hq])) s1 _ hrel1 hinv1 hcap1 hpend1
      refine ⟨s', r0, r1, r2, r3, ?_⟩
      intro hidle q
      have hnone := hidle p (by simp) hc
      have hs1 := hmark hnone
      have := r4 (fun q' hq' hc' => by
        have hqp : q' ≠ p := fun h => hnd.1 (h ▸ hq')
        rw [step_ptr_other _ _ _ _ hqp]
        exact hidle q' (by simp [hq']) hc') q
      rw [this, hs1]
      by_cases hqp : q = p
      · subst hqp
        simp only [hnd.1, false_and, if_false, List.mem_cons, true_or, hc, and_self, if_true]
        exact getD_set_self _ _ _ _ (by rw [hrel.lenN]; exact hp)
      · simp only [List.mem_cons, hqp, false_or]
        rw [getD_set_ne _ _ _ _ _ (Ne.symm hqp)]
    | true =>
      have hina := (hpend p (by simp)).2 hc
      rw [resBody_skip I cur s p hc, hina]
      simp only [Bool.false_eq_true, if_false]
      obtain ⟨s', r0, r1, r2, r3, r4⟩ := ih hnd.2 (fun q hq => hlt q (by simp [hq])) s st hrel hinv hcap
        (fun q hq => hpend q (by simp [hq]))
      refine ⟨s', r0, r1, r2, r3, ?_⟩
      intro hidle q
      rw [r4 (fun q' hq' hc' => hidle q' (by simp [hq']) hc') q]
      by_cases hqp : q = p
      · subst hqp
        rw [if_neg (fun h => hnd.1 h.1), if_neg (fun h => by rw [hc] at h; exact absurd h.2 (by decide))]
      · simp only [List.mem_cons, hqp, false_or]

/-! ### the head of the `while` loop -/

theorem skip_false_iff (x : Nat) : (x == 0 || x == 2) = false ↔ x ≠ 0 ∧ x ≠ 2 := by
  simp [Bool.or_eq_false_iff]

theorem resHead_pend (I : HR) (s : ResSt) (st : St) (hrel : RelR I s st) (p : Nat) (hp : p < I.n) :
    PendR I st s.next st p := by
  unfold PendR
  constructor
  · intro hc
    rw [skip_false_iff] at hc
    have hun : matchesOf st.mu p = [] := by
      by_contra hne
      exact hc.1 ((hrel.zero p hp).mpr hne)
    refine ⟨hun, ?_⟩
    by_cases hpt : st.ptr p < ((daRes I).plist p).length
    · left
      simp only [active, Bool.and_eq_true, decide_eq_true_eq]
      exact ⟨by rw [hun]; exact Nat.zero_lt_one, hpt⟩
    · right; exact List.getElem?_eq_none (by omega)
  · intro hc
    simp only [Bool.or_eq_true, beq_iff_eq] at hc
    simp only [active, Bool.and_eq_false_iff, decide_eq_false_iff_not]
    rcases hc with hc | hc
    · left
      have := (hrel.zero p hp).mp hc
      have hpos : 0 < (matchesOf st.mu p).length := List.length_pos_iff.mpr this
      show ¬ (matchesOf st.mu p).length < 1
      omega
    · right
      have := hrel.two p hp hc
      omega

theorem resHead_exit (I : HR) (s : ResSt) (st : St) (hrel : RelR I s st)
    (hall : s.next.all (fun x => x != 1) = true) :
    (List.range I.n).any (active (daRes I) st) = false := by
  rw [List.any_eq_false]
  intro p hp
  have hp' := List.mem_range.mp hp
  have h1 := (all_ne_one_iff _).mp hall p (by rw [hrel.lenN]; exact hp')
  have h2 := hrel.le2 p
  have hc : (s.next.getD p 0 == 0 || s.next.getD p 0 == 2) = true := by
    simp only [Bool.or_eq_true, beq_iff_eq]; omega
  have := (resHead_pend I s st hrel p hp').2 hc
  simp [this]

/-- **one round** of the code is one round of the model; a round of the model in which nobody is active
leaves no status 1 behind -/
theorem resRound_sim (I : HR) (hwf : I.WF2) (hcomp : I.H.all compactRowB = true) (s : ResSt) (st : St)
    (hrel : RelR I s st) (hinv : DAInv (daRes I) st) (hcap : CapP (daRes I) st) :
    ∃ s', resRound I s = .ok s' ∧ RelR I s' (gsRound (daRes I) I.n st) ∧
      DAInv (daRes I) (gsRound (daRes I) I.n st) ∧ CapP (daRes I) (gsRound (daRes I) I.n st) ∧
      ((List.range I.n).any (active (daRes I) st) = false → s'.next.all (fun x => x != 1) = true) := by
  obtain ⟨s', r0, r1, r2, r3, r4⟩ := resFold_sim I hwf hcomp st s.next (List.range I.n) List.nodup_range
    (fun p hp => List.mem_range.mp hp) s st hrel hinv hcap
    (fun p hp => resHead_pend I s st hrel p (List.mem_range.mp hp))
  refine ⟨s', r0, r1, r2, r3, ?_⟩
  intro hidle
  rw [all_ne_one_iff]
  intro q _
  have := r4 (fun p hp hc => by
    have hp' := List.mem_range.mp hp
    rcases ((resHead_pend I s st hrel p hp').1 hc).2 with h1 | h1
    · have := List.any_eq_false.mp hidle p hp
      rw [h1] at this; exact absurd this (by simp)
    · exact h1) q
  rw [this]
  split
  · decide
  · rename_i hn
    by_cases hq : q ∈ List.range I.n
    · have : ¬ (s.next.getD q 0 == 0 || s.next.getD q 0 == 2) = false := fun h => hn ⟨hq, h⟩
      simp only [Bool.not_eq_false, Bool.or_eq_true, beq_iff_eq] at this
      omega
    · have hq' : I.n ≤ q := by simpa using hq
      rw [List.getD_eq_getElem?_getD, List.getElem?_eq_none (by rw [hrel.lenN]; exact hq')]
      decide

/-! ### the `while` loop -/

theorem resLoop_sim (I : HR) (hwf : I.WF2) (hcomp : I.H.all compactRowB = true) :
    ∀ fuel (s : ResSt) (st : St), RelR I s st → DAInv (daRes I) st → CapP (daRes I) st →
      potential (daRes I) I.n st + 2 ≤ fuel →
      ∃ s' k, resLoop I fuel s = .ok s' ∧ RelR I s' (iterRound (daRes I) I.n k st) ∧
        (List.range I.n).any (active (daRes I) (iterRound (daRes I) I.n k st)) = false := by
  have hwfD := daRes_wf2 I hwf
  intro fuel
  induction fuel with
  | zero => intro s st _ _ _ h; omega
  | succ f ih =>
    intro s st hrel hinv hcap hfuel
    simp only [resLoop]
    by_cases hall : s.next.all (fun x => x != 1) = true
    · rw [if_pos hall]
      exact ⟨s, 0, rfl, hrel, resHead_exit I s st hrel hall⟩
    · rw [if_neg hall]
      obtain ⟨s1, r0, r1, r2, r3, r4⟩ := resRound_sim I hwf hcomp s st hrel hinv hcap
      rw [r0]
      by_cases hany : (List.range I.n).any (active (daRes I) st) = true
      · have hpot := round_potential_lt (daRes I) hwfD I.n st hinv hany
        obtain ⟨s', k, h1, h2, h3⟩ := ih _ _ r1 r2 r3 (by omega)
        exact ⟨s', k + 1, h1, h2, h3⟩
      · simp only [Bool.not_eq_true] at hany
        have hexit := r4 hany
        cases f with
        | zero => omega
        | succ f' =>
          simp only [resLoop]
          rw [if_pos hexit]
          refine ⟨s1, 1, rfl, r1, ?_⟩
          simp only [iterRound]
          rw [gsRound_idle (daRes I) I.n st hany]; exact hany

theorem relR_init (I : HR) : RelR I (ResSt.init I) St.init := by
  refine ⟨by simp [ResSt.init], by simp [ResSt.init], by simp [ResSt.init], ?_, ?_, ?_, ?_, ?_⟩
  · intro r hr
    simp [St.init, ResSt.init, last1, List.getD_eq_getElem?_getD, hr]
  · intro h hh
    simp [St.init, ResSt.init, heldBy, List.getD_eq_getElem?_getD, hh, isHeap_nil]
  · intro r hr
    simp [St.init, ResSt.init, matchesOf, List.getD_eq_getElem?_getD, hr]
  · intro r hr h2
    simp [ResSt.init, List.getD_eq_getElem?_getD, hr] at h2
  · intro r
    simp only [ResSt.init, List.getD_eq_getElem?_getD, List.getElem?_replicate]
    split <;> simp

/-! ### the output loop -/

/-- what `ranked_hprofile[h, -e]` yields (0 if it raises) -/
def decE (I : HR) (h : Nat) (e : Int) : Nat := (pyIdx (argsortRow (I.H.getD h [])) (-e)).getD 0

theorem decodeAll_eq (I : HR) (h : Nat) (L : List Int)
    (hdec : ∀ e ∈ L, pyIdx (argsortRow (I.H.getD h [])) (-e) ≠ none) :
    decodeAll I h L = some (L.map (fun e => (decE I h e, h))) := by
  induction L with
  | nil => rfl
  | cons e es ih =>
    obtain ⟨w, hw⟩ := Option.ne_none_iff_exists'.mp (hdec e (by simp))
    simp only [decodeAll, hw, ih (fun e' he' => hdec e' (by simp [he'])), List.map_cons, decE, Option.getD_some]

theorem resOutputFrom_eq (I : HR) (s : ResSt) (hs : List Nat) (acc : List (Nat × Nat))
    (hdec : ∀ h ∈ hs, ∀ e ∈ s.heaps.getD h [], pyIdx (argsortRow (I.H.getD h [])) (-e) ≠ none) :
    resOutputFrom I s hs acc =
      .ok (acc ++ hs.flatMap (fun h => (s.heaps.getD h []).map (fun e => (decE I h e, h)))) := by
  induction hs generalizing acc with
  | nil => simp [resOutputFrom]
  | cons h hs ih =>
    simp only [resOutputFrom, decodeAll_eq I h _ (hdec h (by simp))]
    rw [ih _ (fun h' hh' => hdec h' (by simp [hh']))]
    simp [List.flatMap_cons, List.append_assoc]

theorem res_pair_lt (I : HR) (hwf : I.WF2) (st : St) (hinv : DAInv (daRes I) st) (r h : Nat)
    (hm : (r, h) ∈ st.mu) : r < I.n ∧ h < I.m := by
  obtain ⟨i, _, hi⟩ := hinv.before r h hm
  have hr : r < I.n := getElem?_plistM_lt I.R I.n r i h hi
  obtain ⟨a, ha⟩ := (mem_plistM I.R I.n hwf.lenR r h).mp (List.mem_of_getElem? hi)
  exact ⟨hr, (rankAt_some_lt I.R I.m hwf.rowR r h a ha).2⟩

/-- the final double loop returns a permutation of the model's matching -/
theorem resOutput_perm (I : HR) (hwf : I.WF2) (hcomp : I.H.all compactRowB = true) (s : ResSt) (st : St)
    (hrel : RelR I s st) (hinv : DAInv (daRes I) st) :
    ∃ out, resOutput I s = .ok out ∧ out.Perm st.mu := by
  -- every heap entry decodes to the resident it stands for
  have hdecode : ∀ h, h < I.m → ∀ w ∈ heldBy st.mu h,
      pyIdx (argsortRow (I.H.getD h [])) (-(enc I h w)) = some w := by
    intro h hh w hw
    obtain ⟨b, hb⟩ := hinv.acc w h (mem_heldBy.mp hw)
    have hb' : rankAt I.H h w = some b := hb
    obtain ⟨hrowlenH, hstrictH, _⟩ := hospRow_facts I hwf h hh
    have hwn : w < I.n := (rankAt_some_lt I.H I.n hwf.rowH h w b hb').2
    rw [enc_eq I h w b hb']
    exact pyIdx_decode (I.H.getD h []) hstrictH (hospRow_compact I hcomp hwf h hh) w b (by omega) hb'
  have hdec : ∀ h ∈ List.range I.m, ∀ e ∈ s.heaps.getD h [], pyIdx (argsortRow (I.H.getD h [])) (-e) ≠ none := by
    intro h hh e he
    have hh' := List.mem_range.mp hh
    obtain ⟨w, hw, rfl⟩ := List.mem_map.mp ((hrel.heap h hh').2.subset he)
    rw [hdecode h hh' w hw]; simp
  refine ⟨_, resOutputFrom_eq I s (List.range I.m) [] hdec, ?_⟩
  rw [List.nil_append]
  -- hospital by hospital, the decoded heap array is a permutation of the residents held
  have h1 : ((List.range I.m).flatMap (fun h => (s.heaps.getD h []).map (fun e => (decE I h e, h)))).Perm
      ((List.range I.m).flatMap (fun h => (heldBy st.mu h).map (fun w => (w, h)))) := by
    apply List.Perm.flatMap_left
    intro h hh
    have hh' := List.mem_range.mp hh
    refine ((hrel.heap h hh').2.map _).trans ?_
    rw [List.map_map]
    apply List.Perm.of_eq
    apply List.map_congr_left
    intro w hw
    simp only [Function.comp, decE, hdecode h hh' w hw, Option.getD_some]
  refine h1.trans ?_
  rw [List.perm_ext_iff_of_nodup _ hinv.nodup]
  · rintro ⟨r, h⟩
    simp only [List.mem_flatMap, List.mem_range, List.mem_map, Prod.mk.injEq]
    constructor
    · rintro ⟨h', _, w, hw, rfl, rfl⟩; exact mem_heldBy.mp hw
    · intro hm
      exact ⟨h, (res_pair_lt I hwf st hinv r h hm).2, r, mem_heldBy.mpr hm, rfl, rfl⟩
  · rw [List.nodup_flatMap]
    constructor
    · intro h _
      apply List.Nodup.map _ (heldBy_nodup hinv.nodup h)
      intro a b hab
      simp only [Prod.mk.injEq] at hab; exact hab.1
    · apply List.Pairwise.imp _ List.nodup_range
      intro a b hab
      simp only [Function.onFun]
      intro x hxa hxb
      obtain ⟨_, _, rfl⟩ := List.mem_map.mp hxa
      obtain ⟨_, _, he⟩ := List.mem_map.mp hxb
      simp only [Prod.mk.injEq] at he
      exact hab he.2.symm

/-- **refinement, resident-oriented branch.** On a well-formed instance whose hospital rows carry the ranks
`1..k`, the mirror terminates within its fuel without error, and returns a permutation of the pairs of the
generic model `gsRes`. -/
theorem gsResMirror_refines (I : HR) (hwf : I.WF2) (hcomp : I.H.all compactRowB = true) :
    ∃ out mu, gsResMirror I = .ok out ∧ gsRes I = some mu ∧ out.Perm mu := by
  have hwfD := daRes_wf2 I hwf
  have hpot : potential (daRes I) I.n St.init ≤ I.n * I.m :=
    potential_init_le (daRes I) I.n I.m (fun r => plistM_length_le I.R I.n I.m hwf.rowR r)
  obtain ⟨s', k, h1, h2, h3⟩ := resLoop_sim I hwf hcomp (mirrorFuel I) (ResSt.init I) St.init (relR_init I)
    (init_inv _) (init_good _).cap (by unfold mirrorFuel; omega)
  obtain ⟨mu, hmu⟩ := gsRes_terminates I hwf
  have hmu' := hmu
  simp only [gsRes, Option.map_eq_some_iff] at hmu'
  obtain ⟨st, hst, rfl⟩ := hmu'
  have hiter := gsLoop_eq_iter (daRes I) I.n _ St.init st hst k h3
  rw [hiter] at h2
  have hgood := gsLoop_good (daRes I) hwfD I.n _ St.init st (init_good _) hst
  obtain ⟨out, hout, hperm⟩ := resOutput_perm I hwf hcomp s' st h2 hgood.inv
  refine ⟨out, st.mu, ?_, hmu, hperm⟩
  unfold gsResMirror
  rw [shapeOk_of_wf2 I hwf, h1]; exact hout

end GsMirror
