import Sck.Model.Stv
import Mathlib.Data.List.Nodup
import Mathlib.Data.List.Basic
import Mathlib.Tactic.Linarith

/-! C12 prototype: an alternative ranked first by a strict majority wins STV, whatever the
tie-breaking among minimal alternatives. -/

theorem listMin_le (s : List Nat) : ∀ x ∈ s, listMin s ≤ x := by
  induction s with
  | nil => simp
  | cons a as ih =>
    intro x hx
    cases as with
    | nil => simp at hx; subst hx; simp [listMin]
    | cons b bs =>
      simp only [listMin]
      simp only [List.mem_cons] at hx
      rcases hx with rfl | hx
      · exact Nat.min_le_left _ _
      · exact Nat.le_trans (Nat.min_le_right _ _) (ih x (by simpa using hx))

theorem getD_lt (l : List Nat) (i d : Nat) (h : i < l.length) : l.getD i d = l[i] := by
  simp [List.getD_eq_getElem?_getD, List.getElem?_eq_getElem h]

theorem mem_argmins (s : List Nat) (d : Nat) (h : d ∈ argmins s) :
    d < s.length ∧ ∀ j, j < s.length → s.getD d 0 ≤ s.getD j 0 := by
  simp only [argmins, List.mem_filter, List.mem_range, beq_iff_eq] at h
  refine ⟨h.1, fun j hj => ?_⟩
  rw [h.2]
  apply listMin_le
  rw [getD_lt _ _ _ hj]
  exact List.getElem_mem hj

theorem pluralityScores_getD (P : List (List Nat)) (w j : Nat) (hj : j < w) :
    (pluralityScores P w).getD j 0 = colCount1 P j := by
  simp [pluralityScores, List.getD_eq_getElem?_getD, List.getElem?_map, List.getElem?_range hj]

theorem colCount1_cons (row : List Nat) (P : List (List Nat)) (j : Nat) :
    colCount1 (row :: P) j = (if row.getD j 0 = 1 then 1 else 0) + colCount1 P j := by
  unfold colCount1
  by_cases h : row.getD j 0 = 1
  · rw [List.filter_cons_of_pos (by rw [beq_iff_eq]; exact h), if_pos h, List.length_cons]; omega
  · rw [List.filter_cons_of_neg (by rw [beq_iff_eq]; exact h), if_neg h]; omega

/-- two different columns cannot both carry a `1` on a duplicate-free ballot -/
theorem two_cols_le (P : List (List Nat)) (j k : Nat) (hjk : j ≠ k)
    (hrows : ∀ row ∈ P, row.Nodup ∧ j < row.length ∧ k < row.length) :
    colCount1 P j + colCount1 P k ≤ P.length := by
  induction P with
  | nil => simp [colCount1]
  | cons row P ih =>
    have ih' := ih (fun r hr => hrows r (by simp [hr]))
    obtain ⟨hnd, hj, hk⟩ := hrows row (by simp)
    rw [colCount1_cons, colCount1_cons, List.length_cons]
    have hne : ¬ (row.getD j 0 = 1 ∧ row.getD k 0 = 1) := by
      rintro ⟨h1, h2⟩
      rw [getD_lt _ _ _ hj] at h1
      rw [getD_lt _ _ _ hk] at h2
      exact hjk ((List.Nodup.getElem_inj_iff hnd).mp (h1.trans h2.symm))
    by_cases h1 : row.getD j 0 = 1 <;> by_cases h2 : row.getD k 0 = 1
    · exact absurd ⟨h1, h2⟩ hne
    · rw [if_pos h1, if_neg h2]; omega
    · rw [if_neg h1, if_pos h2]; omega
    · rw [if_neg h1, if_neg h2]; omega

#print axioms two_cols_le

/-! ### what `dropRow` does to a ballot -/

theorem dropRow_length (row : List Nat) (d : Nat) (hd : d < row.length) :
    (dropRow row d).length + 1 = row.length := by
  simp only [dropRow, List.length_map, List.length_eraseIdx_of_lt hd]; omega

theorem dropRow_pos (row : List Nat) (d : Nat) (hd : d < row.length) (hpos : ∀ r ∈ row, 1 ≤ r) :
    ∀ r ∈ dropRow row d, 1 ≤ r := by
  intro r hr
  simp only [dropRow, List.mem_map] at hr
  obtain ⟨r0, hr0, rfl⟩ := hr
  have h0 := hpos r0 (List.mem_of_mem_eraseIdx hr0)
  have hd1 : 1 ≤ row.getD d 0 := by rw [getD_lt _ _ _ hd]; exact hpos _ (List.getElem_mem hd)
  split <;> omega

theorem dropRow_nodup (row : List Nat) (d : Nat) (hd : d < row.length) (hnd : row.Nodup) :
    (dropRow row d).Nodup := by
  unfold dropRow
  apply List.Nodup.map_on
  · intro x hx y hy hxy
    -- neither x nor y is the dropped rank
    have hne : ∀ z ∈ row.eraseIdx d, z ≠ row.getD d 0 := by
      intro z hz heq
      rw [getD_lt _ _ _ hd] at heq
      -- z occurs in the erased list, so it occurs at an index other than d
      obtain ⟨i, hi, hiz⟩ := List.getElem_of_mem hz
      rw [List.getElem_eraseIdx] at hiz
      split at hiz
      · rename_i hlt
        have := (List.Nodup.getElem_inj_iff hnd).mp (hiz.trans heq)
        omega
      · rename_i hge
        have := (List.Nodup.getElem_inj_iff hnd).mp (hiz.trans heq)
        omega
    have hx' := hne x hx
    have hy' := hne y hy
    split at hxy <;> split at hxy <;> omega
  · exact List.Nodup.eraseIdx d hnd

/-- the entry that was at index `k ≠ d` moves to `k'` and keeps the value `1` -/
theorem dropRow_keeps_one (row : List Nat) (d k : Nat) (hd : d < row.length) (hk : k < row.length)
    (hdk : d ≠ k) (hpos : ∀ r ∈ row, 1 ≤ r) (h1 : row.getD k 0 = 1) :
    (dropRow row d).getD (if d < k then k - 1 else k) 0 = 1 := by
  have hd1 : 1 ≤ row.getD d 0 := by rw [getD_lt _ _ _ hd]; exact hpos _ (List.getElem_mem hd)
  rw [getD_lt _ _ _ hk] at h1
  have hlen := dropRow_length row d hd
  have hk' : (if d < k then k - 1 else k) < (dropRow row d).length := by split <;> omega
  rw [getD_lt _ _ _ hk']
  simp only [dropRow, List.getElem_map, List.getElem_eraseIdx]
  split
  · rename_i hdk'
    -- d < k, new index k-1 ≥ d, so we read row[k]
    have hidx : ¬ (k - 1 < d) := by omega
    simp only [hidx, dite_false]
    have : row[k - 1 + 1]'(by omega) = row[k] := by congr 1; omega
    rw [this, h1]; split <;> omega
  · rename_i hdk'
    have hidx : k < d := by omega
    simp only [hidx, dite_true]
    rw [h1]; split <;> omega

#print axioms dropRow_keeps_one
#print axioms dropRow_nodup

/-! ### the majority invariant -/

structure StvInv (P : List (List Nat)) (labels : List Nat) (a0 k : Nat) : Prop where
  rows : ∀ row ∈ P, row.Nodup ∧ row.length = labels.length ∧ ∀ r ∈ row, 1 ≤ r
  pos : labels[k]? = some a0
  maj : P.length < 2 * colCount1 P k

/-- a minimal-score column is never the majority column while two or more remain -/
theorem argmin_ne_majority (P : List (List Nat)) (labels : List Nat) (a0 k d : Nat)
    (h : StvInv P labels a0 k) (h2 : 2 ≤ labels.length)
    (hd : d ∈ argmins (pluralityScores P labels.length)) : d ≠ k ∧ d < labels.length := by
  have hlen : (pluralityScores P labels.length).length = labels.length := by simp [pluralityScores]
  obtain ⟨hdl, hmin⟩ := mem_argmins _ d hd
  rw [hlen] at hdl
  have hk : k < labels.length := (List.getElem?_eq_some_iff.mp h.pos).1
  refine ⟨?_, hdl⟩
  intro hdk
  subst hdk
  -- pick another column j
  obtain ⟨j, hj, hjd⟩ : ∃ j, j < labels.length ∧ j ≠ d := by
    by_cases h0 : d = 0
    · exact ⟨1, by omega, by omega⟩
    · exact ⟨0, by omega, fun h => h0 h.symm⟩
  have hle := hmin j (by rw [hlen]; exact hj)
  rw [pluralityScores_getD _ _ _ hdl, pluralityScores_getD _ _ _ hj] at hle
  have htwo := two_cols_le P j d hjd (fun row hr => by
    obtain ⟨hn, hl, _⟩ := h.rows row hr
    exact ⟨hn, by omega, by omega⟩)
  have := h.maj
  omega

theorem colCount1_map_ge (P : List (List Nat)) (g : List Nat → List Nat) (k k' : Nat)
    (hg : ∀ row ∈ P, row.getD k 0 = 1 → (g row).getD k' 0 = 1) :
    colCount1 P k ≤ colCount1 (P.map g) k' := by
  induction P with
  | nil => simp [colCount1]
  | cons row P ih =>
    rw [List.map_cons, colCount1_cons, colCount1_cons]
    have ih' := ih (fun r hr => hg r (by simp [hr]))
    by_cases h1 : row.getD k 0 = 1
    · rw [if_pos h1, if_pos (hg row (by simp) h1)]; omega
    · rw [if_neg h1]; split <;> omega

theorem stv_step_inv (P : List (List Nat)) (labels : List Nat) (a0 k d : Nat)
    (h : StvInv P labels a0 k) (hdk : d ≠ k) (hd : d < labels.length) :
    StvInv (P.map (fun row => dropRow row d)) (labels.eraseIdx d) a0 (if d < k then k - 1 else k) := by
  have hk : k < labels.length := (List.getElem?_eq_some_iff.mp h.pos).1
  refine ⟨?_, ?_, ?_⟩
  · intro row' hr'
    simp only [List.mem_map] at hr'
    obtain ⟨row, hr, rfl⟩ := hr'
    obtain ⟨hn, hl, hp⟩ := h.rows row hr
    have hdr : d < row.length := by omega
    refine ⟨dropRow_nodup row d hdr hn, ?_, dropRow_pos row d hdr hp⟩
    have := dropRow_length row d hdr
    rw [List.length_eraseIdx_of_lt hd]; omega
  · rw [List.getElem?_eraseIdx]
    split
    · rename_i hlt
      have : ¬ (k - 1 < d) := by omega
      simp only [this, if_false]
      have : k - 1 + 1 = k := by omega
      rw [this]; exact h.pos
    · rename_i hge
      have : k < d := by omega
      simp only [this, if_true]; exact h.pos
  · rw [List.length_map]
    have := colCount1_map_ge P (fun row => dropRow row d) k (if d < k then k - 1 else k)
      (fun row hr h1 => by
        obtain ⟨_, hl, hp⟩ := h.rows row hr
        exact dropRow_keeps_one row d k (by omega) (by omega) hdk hp h1)
    have := h.maj
    omega

/-- **An alternative ranked first by a strict majority wins, whatever the tie-breaking.** -/
theorem stvLoop_majority (choose : List Nat → Nat) (hchoose : ∀ c, c ≠ [] → choose c ∈ c) :
    ∀ fuel P labels a0 k, StvInv P labels a0 k → labels.length ≤ fuel →
      stvLoop choose fuel P labels = some a0 := by
  intro fuel
  induction fuel with
  | zero =>
    intro P labels a0 k h hl
    have := (List.getElem?_eq_some_iff.mp h.pos).1; omega
  | succ fuel ih =>
    intro P labels a0 k h hl
    have hk : k < labels.length := (List.getElem?_eq_some_iff.mp h.pos).1
    match labels, h, hl, hk with
    | [], _, _, hk => simp at hk
    | [a], h, _, hk =>
      have : k = 0 := by simp at hk; exact hk
      subst this
      have := h.pos; simp at this; subst this
      simp [stvLoop]
    | a :: b :: rest, h, hl, hk =>
      simp only [stvLoop]
      have h2 : 2 ≤ (a :: b :: rest).length := by simp
      have hne : argmins (pluralityScores P (a :: b :: rest).length) ≠ [] := by
        -- the list minimum is attained
        intro hempty
        have hs : (pluralityScores P (a :: b :: rest).length) ≠ [] := by simp [pluralityScores]
        -- some index attains listMin
        have hex : ∃ j, j < (pluralityScores P (a :: b :: rest).length).length ∧
            (pluralityScores P (a :: b :: rest).length).getD j 0 = listMin (pluralityScores P (a :: b :: rest).length) := by
          generalize pluralityScores P (a :: b :: rest).length = s at hs
          clear hempty
          induction s with
          | nil => exact absurd rfl hs
          | cons x xs ihs =>
            cases xs with
            | nil => exact ⟨0, by simp, by simp [listMin]⟩
            | cons y ys =>
              obtain ⟨j, hj, hjv⟩ := ihs (by simp)
              simp only [listMin] at hjv ⊢
              by_cases hxy : x ≤ listMin (y :: ys)
              · exact ⟨0, by simp, by simp [listMin, Nat.min_eq_left hxy]⟩
              · refine ⟨j + 1, by simp at hj ⊢; omega, ?_⟩
                have : min x (listMin (y :: ys)) = listMin (y :: ys) := Nat.min_eq_right (by omega)
                rw [this]
                simpa [List.getD_eq_getElem?_getD] using hjv
        obtain ⟨j, hj, hjv⟩ := hex
        have : j ∈ argmins (pluralityScores P (a :: b :: rest).length) := by
          simp only [argmins, List.mem_filter, List.mem_range, beq_iff_eq]
          exact ⟨hj, hjv⟩
        rw [hempty] at this; simp at this
      have hd := hchoose _ hne
      obtain ⟨hdk, hdl⟩ := argmin_ne_majority P (a :: b :: rest) a0 k _ h h2 hd
      have hinv := stv_step_inv P (a :: b :: rest) a0 k _ h hdk hdl
      apply ih _ _ a0 _ hinv
      rw [List.length_eraseIdx_of_lt hdl]; simp at hl ⊢; omega

#print axioms stvLoop_majority
