import Sck.Proofs.Lattice2
import Sck.Proofs.BruteSpec3
import Sck.Proofs.IrvingAlgoGs
import Sck.Proofs.GsOpt

/-! # The lattice of stable matchings (C03, package L7), part 3: bridge to the executable model

Matchings as lists of pairs (`Irving.Pair`), `Irving.Exposed`, `Irving.eliminate`, `Irving.eliminateAll`,
`IrvingAlgo.maleOptimal` versus the spec-level notions of `Lattice1/2`. -/

namespace SMLattice

open Irving

variable {n : ℕ}

/-- the rank function on `Fin n` of a rank matrix -/
def rk (n : ℕ) (P : List (List Nat)) : Fin n → Fin n → ℕ := fun a b => rankOf P a b

/-- the pair `(a, μ a)` -/
def pr (μ : Equiv.Perm (Fin n)) (a : Fin n) : Pair := ((a : Nat), ((μ a : Fin n) : Nat))

/-- the list of pairs of a permutation, men in increasing order -/
def pairsOfPerm (μ : Equiv.Perm (Fin n)) : List Pair := List.ofFn (pr μ)

/-- the list of pairs `M` represents the perfect matching `μ` -/
def Rep (M : List Pair) (μ : Equiv.Perm (Fin n)) : Prop := M.Perm (pairsOfPerm μ)

/-- the pairs `(a, μ a)`, `a ∈ ρ`, of a rotation given by its men -/
def rotPairs (μ : Equiv.Perm (Fin n)) (ρ : List (Fin n)) : List Pair := ρ.map (pr μ)

/-- the rotations of an elimination path as lists of pairs -/
def pathPairs : Equiv.Perm (Fin n) → List (List (Fin n)) → List (List Pair)
  | _, [] => []
  | μ, ρ :: rest => rotPairs μ ρ :: pathPairs (elim μ ρ) rest

theorem pr_injective (μ : Equiv.Perm (Fin n)) : Function.Injective (pr μ) := by
  intro a b h
  exact Fin.ext (congrArg Prod.fst h)

theorem pr_fst_inj {μ ν : Equiv.Perm (Fin n)} {a b : Fin n} (h : (pr μ a).1 = (pr ν b).1) : a = b := Fin.ext h

theorem mem_pairsOfPerm {μ : Equiv.Perm (Fin n)} {p : Pair} : p ∈ pairsOfPerm μ ↔ ∃ a, p = pr μ a := by
  unfold pairsOfPerm
  rw [List.mem_ofFn']
  exact ⟨fun ⟨a, h⟩ => ⟨a, h.symm⟩, fun ⟨a, h⟩ => ⟨a, h.symm⟩⟩

theorem pairsOfPerm_nodup (μ : Equiv.Perm (Fin n)) : (pairsOfPerm μ).Nodup :=
  List.nodup_ofFn.mpr (pr_injective μ)

theorem pairsOfPerm_length (μ : Equiv.Perm (Fin n)) : (pairsOfPerm μ).length = n := by simp [pairsOfPerm]

theorem pairsOfPerm_fst (μ : Equiv.Perm (Fin n)) : (pairsOfPerm μ).map Prod.fst = List.range n := by
  apply List.ext_getElem
  · simp [pairsOfPerm]
  · intro i h1 h2
    simp [pairsOfPerm, pr]

theorem pairsOfPerm_snd_perm (μ : Equiv.Perm (Fin n)) : ((pairsOfPerm μ).map Prod.snd).Perm (List.range n) := by
  refine IrvingAlgo.perm_range_of_nodup n _ (by simp [pairsOfPerm]) ?_ ?_
  · unfold pairsOfPerm
    rw [List.map_ofFn]
    exact List.nodup_ofFn.mpr (fun a b h => μ.injective (Fin.ext h))
  · intro x hx
    obtain ⟨p, hp, rfl⟩ := List.mem_map.mp hx
    obtain ⟨a, rfl⟩ := mem_pairsOfPerm.mp hp
    exact (μ a).2

namespace Rep

variable {M : List Pair} {μ : Equiv.Perm (Fin n)}

theorem mem_iff (h : Rep M μ) {p : Pair} : p ∈ M ↔ ∃ a, p = pr μ a := by
  rw [List.Perm.mem_iff h]; exact mem_pairsOfPerm

theorem mem (h : Rep M μ) (a : Fin n) : pr μ a ∈ M := h.mem_iff.mpr ⟨a, rfl⟩

theorem nodup (h : Rep M μ) : M.Nodup := (List.Perm.nodup_iff h).mpr (pairsOfPerm_nodup μ)

theorem length (h : Rep M μ) : M.length = n := by rw [List.Perm.length_eq h, pairsOfPerm_length]

theorem fst_perm (h : Rep M μ) : (M.map Prod.fst).Perm (List.range n) := by
  have := List.Perm.map Prod.fst h
  rwa [pairsOfPerm_fst] at this

theorem snd_perm (h : Rep M μ) : (M.map Prod.snd).Perm (List.range n) :=
  (List.Perm.map Prod.snd h).trans (pairsOfPerm_snd_perm μ)

theorem bounded (h : Rep M μ) : boundedB n M = true := by
  rw [boundedB_iff]
  intro p hp
  obtain ⟨a, rfl⟩ := h.mem_iff.mp hp
  exact ⟨a.2, (μ a).2⟩

/-- a representation is unique -/
theorem unique {ν : Equiv.Perm (Fin n)} (h : Rep M μ) (h' : Rep M ν) : μ = ν := by
  ext a
  obtain ⟨b, hb⟩ := h'.mem_iff.mp (h.mem a)
  have hab : a = b := pr_fst_inj (congrArg Prod.fst hb)
  subst hab
  exact congrArg Prod.snd hb

end Rep

/-- two lists with the same duplicate-free men in the same positions and the same members are equal … we only need:
a list of `n` pairs with duplicate-free men that contains every `(a, μ a)` represents `μ` -/
theorem rep_of_subset {M : List Pair} {μ : Equiv.Perm (Fin n)} (hlen : M.length = n)
    (hsub : ∀ a, pr μ a ∈ M) : Rep M μ := by
  have hsp : (pairsOfPerm μ).Subperm M :=
    List.subperm_of_subset (pairsOfPerm_nodup μ) (fun p hp => by
      obtain ⟨a, rfl⟩ := mem_pairsOfPerm.mp hp; exact hsub a)
  exact (hsp.perm_of_length_le (by rw [hlen, pairsOfPerm_length])).symm

/-- every perfect list of pairs represents a permutation -/
theorem exists_rep {M : List Pair} (h1 : (M.map Prod.fst).Perm (List.range n))
    (h2 : (M.map Prod.snd).Perm (List.range n)) : ∃ μ : Equiv.Perm (Fin n), Rep M μ := by
  have hmu := Brute.muOfPairs_perm h1 h2
  refine ⟨Brute.permOfList n _ hmu, rep_of_subset (by simpa using h1.length_eq) ?_⟩
  intro a
  have hnd1 : (M.map Prod.fst).Nodup := h1.nodup_iff.mpr List.nodup_range
  have : (a : Nat) ∈ M.map Prod.fst := h1.symm.subset (List.mem_range.mpr a.2)
  obtain ⟨q, hq, hqa⟩ := List.mem_map.mp this
  have hp := Brute.partner_of_mem (n := n) hnd1 hq
  have hval : ((Brute.permOfList n _ hmu a : Fin n) : Nat) = q.2 := by
    rw [Brute.permOfList_apply]
    simp only [Brute.muOfPairs, List.getD_eq_getElem?_getD, List.getElem?_map,
      List.getElem?_range a.2, Option.map_some, Option.getD_some]
    rw [← hqa]; exact hp
  have : pr (Brute.permOfList n _ hmu) a = q := by
    unfold pr; rw [hval, ← hqa]
  rw [this]; exact hq

/-- stability of a list of pairs is stability of the permutation it represents -/
theorem stablePairs_iff {P1 P2 : List (List Nat)} {M : List Pair} {μ : Equiv.Perm (Fin n)} (h : Rep M μ) :
    StablePairs P1 P2 M ↔ StableSM (rk n P1) (rk n P2) μ := by
  constructor
  · intro hst a b hb
    have := hst _ (h.mem a) _ (h.mem (μ.symm b))
    simp only [pr, Equiv.apply_symm_apply] at this
    exact this hb
  · intro hst p hp q hq hb
    obtain ⟨a, rfl⟩ := h.mem_iff.mp hp
    obtain ⟨c, rfl⟩ := h.mem_iff.mp hq
    have := hst a (μ c)
    simp only [Equiv.symm_apply_apply] at this
    exact this hb

/-! ### rotations -/

theorem rotPairs_length (μ : Equiv.Perm (Fin n)) (ρ : List (Fin n)) : (rotPairs μ ρ).length = ρ.length := by
  simp [rotPairs]

theorem rotAt_rotPairs (μ : Equiv.Perm (Fin n)) (ρ : List (Fin n)) (i : Nat) (hi : i < ρ.length) :
    rotAt (rotPairs μ ρ) i = pr μ ρ[i] := by
  unfold rotAt rotPairs
  rw [List.getD_eq_getElem?_getD, List.getElem?_map, List.getElem?_eq_getElem hi]
  rfl

theorem rotNew_rotPairs (μ : Equiv.Perm (Fin n)) {ρ : List (Fin n)} (hnd : ρ.Nodup) (i : Nat) (hi : i < ρ.length) :
    rotNew (rotPairs μ ρ) i = pr (elim μ ρ) ρ[i] := by
  have hi' : (i + 1) % ρ.length < ρ.length := Nat.mod_lt _ (by omega)
  unfold rotNew
  rw [rotPairs_length, rotAt_rotPairs μ ρ i hi, rotAt_rotPairs μ ρ _ hi']
  unfold pr
  rw [elim_apply, List.formPerm_apply_getElem ρ hnd i hi]

theorem rotPairs_fst_nodup (μ : Equiv.Perm (Fin n)) {ρ : List (Fin n)} (hnd : ρ.Nodup) :
    ((rotPairs μ ρ).map Prod.fst).Nodup := by
  unfold rotPairs
  rw [List.map_map]
  exact hnd.map (fun a b h => Fin.ext h)

/-- a rotation exposed in `μ` (spec level) is exposed in every list of pairs representing `μ` (executable notion) -/
theorem exposed_bridge {P1 P2 : List (List Nat)} {M : List Pair} {μ : Equiv.Perm (Fin n)} (h : Rep M μ)
    {ρ : List (Fin n)} (hex : ExposedRot (rk n P1) (rk n P2) μ ρ) : Exposed P1 P2 M (rotPairs μ ρ) := by
  obtain ⟨hnd, _, hsucc⟩ := hex
  refine ⟨rotPairs_fst_nodup μ hnd, ?_⟩
  intro i hi
  rw [rotPairs_length] at hi
  have hi' : (i + 1) % ρ.length < ρ.length := Nat.mod_lt _ (by omega)
  obtain ⟨⟨hc1, hc2⟩, hmin⟩ := hsucc ρ[i] (List.getElem_mem hi)
  rw [rotNew_rotPairs μ hnd i hi, rotAt_rotPairs μ ρ i hi, rotPairs_length, rotAt_rotPairs μ ρ _ hi']
  have hform := List.formPerm_apply_getElem ρ hnd i hi
  refine ⟨h.mem _, ?_, ?_⟩
  · have := hc2
    simp only [Equiv.symm_apply_apply, hform] at this
    simpa [pr, rk, hform] using this
  · intro q hq ⟨hq1, hq2, hq3⟩
    obtain ⟨c, rfl⟩ := h.mem_iff.mp hq
    have hcand : Cand (rk n P1) (rk n P2) μ ρ[i] (μ c) := ⟨hq1, by simpa [pr, rk] using hq3⟩
    have := hmin _ hcand
    have hq2' : rk n P1 ρ[i] (μ c) < rk n P1 ρ[i] (μ (ρ.formPerm ρ[i])) := by
      simpa [pr, rk, hform] using hq2
    omega

theorem sum_map_singleton {ι α : Type} (l : List ι) (f : ι → α) :
    (l.map (fun i => ({f i} : Multiset α))).sum = ((l.map f : List α) : Multiset α) := by
  induction l with
  | nil => rfl
  | cons x xs ih => simp only [List.map_cons, List.sum_cons, ih]; rfl

/-- eliminating (executable `Irving.eliminate`) the pairs form of a rotation from a list representing `μ` succeeds
and gives a list representing `μ/ρ` -/
theorem eliminate_bridge {M : List Pair} {μ : Equiv.Perm (Fin n)} (h : Rep M μ) {ρ : List (Fin n)}
    (hnd : ρ.Nodup) (hmove : ∀ a ∈ ρ, ρ.formPerm a ≠ a) :
    ∃ M', eliminate M (rotPairs μ ρ) = some M' ∧ Rep M' (elim μ ρ) := by
  obtain ⟨M', hM', hfst, _⟩ := eliminate_perm M (rotPairs μ ρ)
    (fun p hp => by obtain ⟨a, _, rfl⟩ := List.mem_map.mp hp; exact h.mem a) (rotPairs_fst_nodup μ hnd)
  refine ⟨M', hM', rep_of_subset ?_ ?_⟩
  · have := congrArg List.length hfst
    simp only [List.length_map] at this
    rw [this, h.length]
  · have hs := elimLoop_sum (fun p => ({p} : Multiset Pair)) (rotPairs μ ρ) _ M M' hM'
    have e1 : ∀ L : List Pair, (L.map (fun p => ({p} : Multiset Pair))).sum = (L : Multiset Pair) := fun L => by
      have := sum_map_singleton L (fun p : Pair => p)
      rwa [List.map_id'] at this
    rw [e1, e1, sum_map_singleton _ (rotAt (rotPairs μ ρ)),
      sum_map_singleton _ (rotNew (rotPairs μ ρ)), rotPairs_length] at hs
    intro a
    have hmem : pr (elim μ ρ) a ∈ ((M : Multiset Pair) + ((List.range ρ.length).map (rotNew (rotPairs μ ρ)) : List Pair)) := by
      rw [Multiset.mem_add]
      by_cases ha : a ∈ ρ
      · right
        obtain ⟨i, hi, rfl⟩ := List.getElem_of_mem ha
        rw [Multiset.mem_coe, List.mem_map]
        exact ⟨i, List.mem_range.mpr hi, rotNew_rotPairs μ hnd i hi⟩
      · left
        have : pr (elim μ ρ) a = pr μ a := by unfold pr; rw [elim_apply_of_notMem μ ha]
        rw [this]; exact h.mem a
    rw [← hs, Multiset.mem_add] at hmem
    rcases hmem with hm | hm
    · exact hm
    · exfalso
      rw [Multiset.mem_coe, List.mem_map] at hm
      obtain ⟨j, hj, hje⟩ := hm
      have hj' := List.mem_range.mp hj
      rw [rotAt_rotPairs μ ρ j hj'] at hje
      have haj : ρ[j] = a := pr_fst_inj (congrArg Prod.fst hje)
      have hsnd : μ ρ[j] = elim μ ρ a := Fin.ext (congrArg Prod.snd hje)
      rw [elim_apply, ← haj] at hsnd
      exact hmove ρ[j] (List.getElem_mem hj') (μ.injective hsnd).symm

theorem exposedRot_move {P1 P2 : Fin n → Fin n → ℕ} {μ : Equiv.Perm (Fin n)} {ρ : List (Fin n)}
    (hex : ExposedRot P1 P2 μ ρ) : ∀ a ∈ ρ, ρ.formPerm a ≠ a := by
  intro a ha he
  have := (hex.2.2 a ha).1.1
  rw [he] at this
  exact Nat.lt_irrefl _ this

/-- **an elimination path at the spec level is a run of the executable `eliminate_rotations`** on any list of pairs
representing its starting point: every rotation is exposed (`exposedAllB`) when its turn comes, no `ValueError`, and
the result represents the end point -/
theorem path_bridge {P1 P2 : List (List Nat)} (h1 : ∀ a, Function.Injective (rk n P1 a)) :
    ∀ (rots : List (List (Fin n))) (μ ν : Equiv.Perm (Fin n)) (M : List Pair), Rep M μ →
      StableSM (rk n P1) (rk n P2) μ → ElimPath (rk n P1) (rk n P2) μ rots ν →
      exposedAllB P1 P2 M (pathPairs μ rots) = true ∧
      ∃ M', eliminateAll M (pathPairs μ rots) = some M' ∧ Rep M' ν := by
  intro rots
  induction rots with
  | nil =>
    intro μ ν M hM _ hp
    cases hp
    exact ⟨rfl, M, rfl, hM⟩
  | cons ρ rest ih =>
    intro μ ν M hM hμ hp
    obtain ⟨hex, hp'⟩ := hp
    obtain ⟨M1, hM1, hrep1⟩ := eliminate_bridge hM hex.1 (exposedRot_move hex)
    obtain ⟨hea, M', hM', hrep'⟩ := ih (elim μ ρ) ν M1 hrep1 (exposed_elim_stable h1 hμ hex).1 hp'
    refine ⟨?_, M', ?_, hrep'⟩
    · simp only [pathPairs, exposedAllB, Bool.and_eq_true]
      refine ⟨(exposedB_iff _ _ _ _).mpr (exposed_bridge hM hex), ?_⟩
      rw [hM1]; exact hea
    · simp only [pathPairs, eliminateAll, hM1]; exact hM'

end SMLattice

/-! ### the male-optimal matching of the mirror (`IrvingAlgo.maleOptimal`, i.e. Gale–Shapley) -/

namespace SMLattice

open Irving IrvingAlgo

variable {n : ℕ}

theorem wfB_swap {P1 P2 : List (List Nat)} {V1 V2 : List (List Int)} (hwf : wfB n P1 P2 V1 V2 = true) :
    wfB n P2 P1 V2 V1 = true := by
  obtain ⟨⟨a, b, c, d⟩, e, f, g, h⟩ := (wfB_iff n P1 P2 V1 V2).mp hwf
  exact (wfB_iff n P2 P1 V2 V1).mpr ⟨⟨b, a, d, c⟩, f, e, h, g⟩

/-- strict complete profiles give injective rank functions on both sides -/
theorem rk_injective {P1 P2 : List (List Nat)} {V1 V2 : List (List Int)} (hwf : wfB n P1 P2 V1 V2 = true) :
    (∀ a, Function.Injective (rk n P1 a)) ∧ (∀ b, Function.Injective (rk n P2 b)) := by
  have i1 := (injRowsB_iff n P1).mp (injRowsB_of_wfB n P1 P2 V1 V2 hwf)
  have i2 := (injRowsB_iff n P2).mp (injRowsB_of_wfB n P2 P1 V2 V1 (wfB_swap hwf))
  exact ⟨fun a x y h => Fin.ext (i1 a x y a.2 x.2 y.2 h), fun b x y h => Fin.ext (i2 b x y b.2 x.2 y.2 h)⟩

theorem hrOf_rankR {P1 P2 : List (List Nat)} {V1 V2 : List (List Int)} (hwf : wfB n P1 P2 V1 V2 = true)
    {i j : Nat} (hi : i < n) (hj : j < n) : rankAt (hrOf n P1 P2).R i j = some (rankOf P1 i j) := by
  obtain ⟨⟨l1, _, _, _⟩, r1, _, _, _⟩ := (wfB_iff n P1 P2 V1 V2).mp hwf
  exact rankAt_map_some n P1 l1 r1 i j hi hj

theorem hrOf_rankH {P1 P2 : List (List Nat)} {V1 V2 : List (List Int)} (hwf : wfB n P1 P2 V1 V2 = true)
    {i j : Nat} (hi : i < n) (hj : j < n) : rankAt (hrOf n P1 P2).H i j = some (rankOf P2 i j) := by
  obtain ⟨⟨_, l2, _, _⟩, _, r2, _, _⟩ := (wfB_iff n P1 P2 V1 V2).mp hwf
  exact rankAt_map_some n P2 l2 r2 i j hi hj

theorem hrOf_cap (P1 P2 : List (List Nat)) {h : Nat} (hh : h < n) : (hrOf n P1 P2).cap.getD h 0 = 1 := by
  simp [hrOf, List.getD_eq_getElem?_getD, hh]

/-- a stable permutation is a stable matching of the HR instance handed to Gale–Shapley -/
theorem stableHR_of_stableSM {P1 P2 : List (List Nat)} {V1 V2 : List (List Int)} (hwf : wfB n P1 P2 V1 V2 = true)
    {ν : Equiv.Perm (Fin n)} (hν : StableSM (rk n P1) (rk n P2) ν) :
    StableHR (hrOf n P1 P2) (pairsOfPerm ν) := by
  have hwf2 := hrOf_wf2 n P1 P2 V1 V2 hwf
  have hrep : Rep (pairsOfPerm ν) ν := List.Perm.refl _
  have hheld : ∀ h p, p ∈ heldBy (pairsOfPerm ν) h → ∃ hh : h < n, p = ((ν.symm ⟨h, hh⟩ : Fin n) : Nat) := by
    intro h p hp
    obtain ⟨a, ha⟩ := mem_pairsOfPerm.mp (mem_heldBy.mp hp)
    have e1 : p = a := congrArg Prod.fst ha
    have e2 : h = ν a := congrArg Prod.snd ha
    refine ⟨e2 ▸ (ν a).2, ?_⟩
    rw [e1]
    congr 1
    rw [Equiv.eq_symm_apply]
    exact Fin.ext e2.symm
  refine ⟨⟨pairsOfPerm_nodup ν, ?_, ?_, ?_⟩, ?_⟩
  · intro r h h' hm hm'
    obtain ⟨a, ha⟩ := mem_pairsOfPerm.mp hm
    obtain ⟨a', ha'⟩ := mem_pairsOfPerm.mp hm'
    have : a = a' := Fin.ext ((congrArg Prod.fst ha).symm.trans (congrArg Prod.fst ha'))
    subst this
    exact (congrArg Prod.snd ha).trans (congrArg Prod.snd ha').symm
  · intro h
    have hnd : (heldBy (pairsOfPerm ν) h).Nodup := by
      unfold heldBy
      have : ((pairsOfPerm ν).map Prod.fst).Nodup := by rw [pairsOfPerm_fst]; exact List.nodup_range
      exact this.sublist (List.Sublist.map _ List.filter_sublist)
    by_cases hh : h < n
    · rw [hrOf_cap P1 P2 hh]
      have hsub : heldBy (pairsOfPerm ν) h ⊆ [((ν.symm ⟨h, hh⟩ : Fin n) : Nat)] := by
        intro p hp
        obtain ⟨_, e⟩ := hheld h p hp
        simp [e]
      exact (List.subperm_of_subset hnd hsub).length_le
    · have : heldBy (pairsOfPerm ν) h = [] := by
        apply List.eq_nil_iff_forall_not_mem.mpr
        intro p hp
        exact hh (hheld h p hp).1
      rw [this]; exact Nat.zero_le _
  · intro r h hm
    obtain ⟨a, ha⟩ := mem_pairsOfPerm.mp hm
    have e1 : r = a := congrArg Prod.fst ha
    have e2 : h = ν a := congrArg Prod.snd ha
    rw [e1, e2, hrOf_rankR hwf a.2 (ν a).2, hrOf_rankH hwf (ν a).2 a.2]
    exact ⟨by simp, by simp⟩
  · rintro r h ⟨hr, x, y, hx, hy, _, hleft, hright⟩
    have hr' : r < n := hr
    have hh : h < n := by
      have := (rankAt_some_lt _ _ hwf2.rowR r h x hx).2
      exact this
    rw [hrOf_rankR hwf hr' hh] at hx
    rw [hrOf_rankH hwf hh hr'] at hy
    have hx' := Option.some.inj hx
    have hy' := Option.some.inj hy
    -- the man is matched, to `ν r`
    have c1 : rankOf P1 r h < rankOf P1 r (ν ⟨r, hr'⟩) := by
      rcases hleft with hun | ⟨h', x', hm, hx2, hlt⟩
      · exact absurd (hrep.mem ⟨r, hr'⟩) (hun _)
      · obtain ⟨a, ha⟩ := mem_pairsOfPerm.mp hm
        have e1 : r = a := congrArg Prod.fst ha
        have e2 : h' = ν a := congrArg Prod.snd ha
        have : a = ⟨r, hr'⟩ := Fin.ext e1.symm
        subst this
        rw [e2, hrOf_rankR hwf hr' (ν _).2] at hx2
        rw [← Option.some.inj hx2] at hlt
        omega
    have c2 : rankOf P2 h r < rankOf P2 h (ν.symm ⟨h, hh⟩) := by
      rcases hright with hcap | ⟨r', b, hm, hb, hlt⟩
      · rw [hrOf_cap P1 P2 hh] at hcap
        have : heldBy (pairsOfPerm ν) h = [] := List.eq_nil_of_length_eq_zero (by omega)
        have hm : ((ν.symm ⟨h, hh⟩ : Fin n) : Nat) ∈ heldBy (pairsOfPerm ν) h := by
          rw [mem_heldBy]
          have := hrep.mem (ν.symm ⟨h, hh⟩)
          simpa [pr] using this
        rw [this] at hm
        simp at hm
      · obtain ⟨_, e⟩ := hheld h r' (mem_heldBy.mpr hm)
        rw [e, hrOf_rankH hwf hh (ν.symm _).2] at hb
        rw [← Option.some.inj hb] at hlt
        omega
    exact hν ⟨r, hr'⟩ ⟨h, hh⟩ ⟨c1, c2⟩

end SMLattice

namespace SMLattice

open Irving IrvingAlgo

variable {n : ℕ}

/-- the Gale–Shapley output on a strict complete `n × n` instance is a PERFECT matching (so the three `assert`s of
`Irving.scf` after Gale–Shapley cannot fail) -/
theorem gsRes_perfect {P1 P2 : List (List Nat)} {V1 V2 : List (List Int)} (hwf : wfB n P1 P2 V1 V2 = true)
    {mu : List Pair} (hmu : gsRes (hrOf n P1 P2) = some mu) :
    (mu.map Prod.fst).Perm (List.range n) ∧ (mu.map Prod.snd).Perm (List.range n) := by
  have hwf2 := hrOf_wf2 n P1 P2 V1 V2 hwf
  obtain ⟨hfeas, hnb⟩ := gsRes_stable _ hwf2 mu hmu
  have hbd : ∀ r w, (r, w) ∈ mu → r < n ∧ w < n := fun r w hm => hfeas.bounds hwf2 hm
  have hnd1 : (mu.map Prod.fst).Nodup := by
    refine List.Nodup.map_on ?_ hfeas.nodup
    intro x hx y hy hxy
    have := hfeas.resOnce x.1 x.2 y.2 hx (by rw [hxy]; exact hy)
    exact Prod.ext hxy this
  have hnd2 : (mu.map Prod.snd).Nodup := by
    refine List.Nodup.map_on ?_ hfeas.nodup
    intro x hx y hy hxy
    have hc := hfeas.cap x.2
    rw [hrOf_cap P1 P2 (hbd x.1 x.2 hx).2] at hc
    have m1 : x.1 ∈ heldBy mu x.2 := mem_heldBy.mpr hx
    have m2 : y.1 ∈ heldBy mu x.2 := mem_heldBy.mpr (by rw [hxy]; exact hy)
    have : x.1 = y.1 := by
      match hl : heldBy mu x.2, hc, m1, m2 with
      | [], _, m1, _ => simp at m1
      | [c], _, m1, m2 => simp at m1 m2; rw [m1, m2]
      | _ :: _ :: _, hc, _, _ => simp at hc
    exact Prod.ext this hxy
  -- every man is matched
  have hall : ∀ a, a < n → ∃ h, (a, h) ∈ mu := by
    intro a ha
    by_contra hun
    have hun' : ∀ h, (a, h) ∉ mu := fun h hm => hun ⟨h, hm⟩
    -- some woman is unmatched
    have hw : ∃ b, b < n ∧ ∀ r, (r, b) ∉ mu := by
      by_contra hno
      have hsub : List.range n ⊆ mu.map Prod.snd := by
        intro b hb
        have hb' := List.mem_range.mp hb
        by_contra hb2
        exact hno ⟨b, hb', fun r hm => hb2 (List.mem_map.mpr ⟨(r, b), hm, rfl⟩)⟩
      have l1 := (List.subperm_of_subset List.nodup_range hsub).length_le
      have hsub2 : mu.map Prod.fst ⊆ (List.range n).erase a := by
        intro r hr
        obtain ⟨p, hp, rfl⟩ := List.mem_map.mp hr
        rw [List.Nodup.mem_erase_iff List.nodup_range]
        exact ⟨fun he => hun' p.2 (by rw [← he]; exact hp), List.mem_range.mpr (hbd p.1 p.2 hp).1⟩
      have l2 := (List.subperm_of_subset hnd1 hsub2).length_le
      rw [List.length_erase_of_mem (List.mem_range.mpr ha)] at l2
      simp only [List.length_map, List.length_range] at l1 l2
      omega
    obtain ⟨b, hb, hbun⟩ := hw
    refine hnb a b ⟨ha, rankOf P1 a b, rankOf P2 b a, hrOf_rankR hwf ha hb, hrOf_rankH hwf hb ha, hun' b,
      Or.inl hun', Or.inl ?_⟩
    rw [hrOf_cap P1 P2 hb]
    have : heldBy mu b = [] := List.eq_nil_iff_forall_not_mem.mpr (fun r hr => hbun r (mem_heldBy.mp hr))
    rw [this]; exact Nat.one_pos
  have hp1 : (mu.map Prod.fst).Perm (List.range n) := by
    rw [List.perm_ext_iff_of_nodup hnd1 List.nodup_range]
    intro a
    constructor
    · intro h
      obtain ⟨p, hp, rfl⟩ := List.mem_map.mp h
      exact List.mem_range.mpr (hbd p.1 p.2 hp).1
    · intro h
      obtain ⟨w, hw⟩ := hall a (List.mem_range.mp h)
      exact List.mem_map.mpr ⟨(a, w), hw, rfl⟩
  refine ⟨hp1, perm_range_of_nodup n _ (by simpa using hp1.length_eq) hnd2 ?_⟩
  intro x hx
  obtain ⟨p, hp, rfl⟩ := List.mem_map.mp hx
  exact (hbd p.1 p.2 hp).2

/-- **the male-optimal matching of the mirror is THE man-optimal stable matching** (C01 + C02 for `gsRes`): it
represents a stable permutation `μ0` that every man weakly prefers to every stable matching -/
theorem maleOptimal_spec {P1 P2 : List (List Nat)} {V1 V2 : List (List Int)} (hwf : wfB n P1 P2 V1 V2 = true)
    {M0 : List Pair} (h : maleOptimal n P1 P2 = some M0) :
    ∃ μ0 : Equiv.Perm (Fin n), Rep M0 μ0 ∧ StableSM (rk n P1) (rk n P2) μ0 ∧
      ∀ ν, StableSM (rk n P1) (rk n P2) ν → MLe (rk n P1) μ0 ν := by
  have hwf2 := hrOf_wf2 n P1 P2 V1 V2 hwf
  have hM0 := h
  unfold maleOptimal at h
  rw [Option.map_eq_some_iff] at h
  obtain ⟨mu, hmu, hdef⟩ := h
  obtain ⟨hp1, hp2⟩ := gsRes_perfect hwf hmu
  obtain ⟨μ0, hrep⟩ := exists_rep hp1 hp2
  -- `M0` is `mu` reordered
  have hmem : ∀ p, p ∈ M0 ↔ p ∈ mu := by
    intro p
    rw [← hdef, List.mem_flatMap]
    constructor
    · rintro ⟨w, _, hpw⟩; exact (List.mem_filter.mp hpw).1
    · intro hp
      have : p.2 < n := by
        obtain ⟨a, rfl⟩ := hrep.mem_iff.mp hp
        exact (μ0 a).2
      exact ⟨p.2, List.mem_range.mpr this, List.mem_filter.mpr ⟨hp, by simp⟩⟩
  have hndM0 : M0.Nodup := by
    rw [← hdef, List.nodup_flatMap]
    refine ⟨fun w _ => hrep.nodup.filter _, ?_⟩
    refine List.Pairwise.imp ?_ List.nodup_range
    intro w w' hne p hp hp'
    have e1 := (List.mem_filter.mp hp).2
    have e2 := (List.mem_filter.mp hp').2
    simp only [beq_iff_eq] at e1 e2
    exact hne (e1.symm.trans e2)
  have hrep0 : Rep M0 μ0 := ((List.perm_ext_iff_of_nodup hndM0 hrep.nodup).mpr hmem).trans hrep
  have hst : StableSM (rk n P1) (rk n P2) μ0 :=
    (stablePairs_iff hrep0).mp (maleOptimal_stable n P1 P2 V1 V2 hwf M0 hM0).2
  refine ⟨μ0, hrep0, hst, ?_⟩
  intro ν hν a
  obtain ⟨w, hw, x, x', hx, hx', hle⟩ := gsRes_resident_optimal _ hwf2 mu hmu (pairsOfPerm ν)
    (stableHR_of_stableSM hwf hν) a (ν a) (mem_pairsOfPerm.mpr ⟨a, rfl⟩)
  obtain ⟨c, hc⟩ := hrep.mem_iff.mp hw
  have hca : a = c := Fin.ext (congrArg Prod.fst hc)
  subst hca
  have hw' : w = μ0 a := congrArg Prod.snd hc
  rw [hw', hrOf_rankR hwf a.2 (μ0 a).2] at hx
  rw [hrOf_rankR hwf a.2 (ν a).2] at hx'
  rw [← Option.some.inj hx, ← Option.some.inj hx'] at hle
  exact hle

end SMLattice

#print axioms SMLattice.path_bridge
#print axioms SMLattice.maleOptimal_spec

namespace SMLattice

open Irving IrvingAlgo

/-- **(e), executable form** -/
theorem reachable_from_maleOptimal {n : ℕ} {P1 P2 : List (List Nat)} {V1 V2 : List (List Int)}
    (hwf : wfB n P1 P2 V1 V2 = true) {M0 : List Pair} (h : maleOptimal n P1 P2 = some M0)
    {ν : Equiv.Perm (Fin n)} (hν : StableSM (rk n P1) (rk n P2) ν) :
    ∃ rots : List (List Pair), exposedAllB P1 P2 M0 rots = true ∧
      ∃ M, eliminateAll M0 rots = some M ∧ Rep M ν := by
  obtain ⟨h1, h2⟩ := rk_injective hwf
  obtain ⟨μ0, hrep, hst, hopt⟩ := maleOptimal_spec hwf h
  obtain ⟨rots, hp⟩ := reachable_from_man_optimal h1 h2 hst hopt hν
  exact ⟨pathPairs μ0 rots, path_bridge h1 rots μ0 ν M0 hrep hst hp⟩

end SMLattice
