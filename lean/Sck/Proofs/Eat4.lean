import Sck.Proofs.Eat3

/-! C05: one executed loop iteration is an `advance` of the abstract model by an `Admissible` step,
preserves the concrete invariant and decreases the measure. -/

open Finset

theorem EatSt.ext' {n : ℕ} (a b : EatSt n) (h1 : a.rem = b.rem) (h2 : a.eaten = b.eaten)
    (h3 : a.X = b.X) : a = b := by
  cases a; cases b; simp_all

/-- balance of the bookkeeping -/
theorem sum_rem_eq {n : ℕ} (st : EatSt n) (h : EatInv st) :
    ∑ j, st.rem j = (n : ℚ) - ∑ i, st.eaten i := by
  have h1 : ∑ j, st.rem j = ∑ j, (1 - ∑ i, st.X i j) := sum_congr rfl (fun j _ => h.col j)
  have h2 : ∑ i, st.eaten i = ∑ i, ∑ j, st.X i j := sum_congr rfl (fun i _ => h.row i)
  rw [h1, h2, sum_sub_distrib, sum_comm]
  simp

namespace Eat

variable {n : Nat} {ranked : List (List Nat)} {speeds : List Rat} {st : State}

/-- concrete admissibility of a time step -/
structure AdmC (n : Nat) (ranked : List (List Nat)) (speeds : List Rat) (st : State) (t : Rat) : Prop where
  nonneg : 0 ≤ t
  agent : ∀ i < n, ∀ e, lk st.eaten i = some e → e + spd speeds i * t ≤ 1
  item : ∀ j < n, ∀ r, lk st.rem j = some r → 0 ≤ r - total n ranked speeds st j * t

/-! ### facts that hold inside the loop body -/

theorem body_rem (h : CI n ranked st) (hx : exitNow st = false) :
    ∃ j < n, (lk st.rem j).isSome = true := by
  unfold exitNow at hx
  rw [Bool.or_eq_false_iff] at hx
  have h1 := hx.1
  by_contra hcon
  have : st.rem.all (fun r => r.isNone) = true := by
    rw [all_isNone_iff _ n h.rem_len]
    intro j hj
    cases hl : lk st.rem j with
    | none => rfl
    | some r => exact absurd ⟨j, hj, by simp [hl]⟩ hcon
  rw [this] at h1
  cases h1

theorem body_cur (hr : RankedOK n ranked) (h : CI n ranked st) (hx : exitNow st = false)
    (i : Nat) (hi : i < n) (he : (lk st.eaten i).isSome = true) :
    (curItem ranked st i).isSome = true := by
  rw [curItem_spec hr h i hi, if_pos he, List.find?_isSome]
  obtain ⟨j, hj, hjs⟩ := body_rem h hx
  exact ⟨j, (hr.mem i hi j).mpr hj, hjs⟩

theorem body_agent (h : CI n ranked st) (hx : exitNow st = false) :
    ∃ i < n, (lk st.eaten i).isSome = true := by
  by_contra hcon
  have hall : ∀ i : Fin n, (absSt n st).eaten i = 1 := by
    intro i
    simp only [absSt]
    cases hl : lk st.eaten i.val with
    | none => rfl
    | some e => exact absurd ⟨i.val, i.isLt, by simp [hl]⟩ hcon
  have hbal := sum_rem_eq (absSt n st) h.inv
  have hs : ∑ i : Fin n, (absSt n st).eaten i = n := by
    rw [Finset.sum_congr rfl (fun i _ => hall i)]; simp
  rw [hs, sub_self] at hbal
  obtain ⟨j, hj, hjs⟩ := body_rem h hx
  have hpos : 0 < (absSt n st).rem ⟨j, hj⟩ := (abs_rem_pos_iff h ⟨j, hj⟩).mpr hjs
  have hle : (absSt n st).rem ⟨j, hj⟩ ≤ ∑ j, (absSt n st).rem j :=
    Finset.single_le_sum (fun j _ => h.inv.rem_nonneg j) (Finset.mem_univ _)
  linarith

theorem total_nonneg (hs : ∀ i < n, 0 < spd speeds i) (j : Nat) :
    0 ≤ total n ranked speeds st j := by
  unfold total
  rw [sum_range_map]
  refine Finset.sum_nonneg (fun i hi => ?_)
  split
  · exact le_of_lt (hs i (Finset.mem_range.mp hi))
  · exact le_refl _

theorem total_zero_of_exhausted (hr : RankedOK n ranked) (h : CI n ranked st) (j : Nat)
    (hj : lk st.rem j = none) : total n ranked speeds st j = 0 := by
  unfold total
  rw [sum_range_map]
  refine Finset.sum_eq_zero (fun i hi => ?_)
  rw [if_neg]
  intro hc
  have := (curItem_lt hr h i (Finset.mem_range.mp hi) j hc).2.1
  rw [hj] at this
  cases this

theorem mem_range_map_some {α : Type} (n : Nat) (f : Nat → Option α) (x : α) :
    some x ∈ (List.range n).map f ↔ ∃ i < n, f i = some x := by
  simp [List.mem_map]

/-- the chosen `t` exists, is admissible, and fills an agent or exhausts an item -/
theorem stepTime_spec (hs : ∀ i < n, 0 < spd speeds i)
    (h : CI n ranked st) (hx : exitNow st = false) :
    ∃ t, stepTime n ranked speeds st = some t ∧ AdmC n ranked speeds st t ∧
      ((∃ i < n, ∃ e, lk st.eaten i = some e ∧ ¬ e + spd speeds i * t < 1) ∨
       (∃ j < n, ∃ r, lk st.rem j = some r ∧ ¬ 0 < r - total n ranked speeds st j * t)) := by
  obtain ⟨i1, hi1, he1⟩ := body_agent h hx
  unfold stepTime
  cases hta : tAgent n speeds st with
  | none =>
    exfalso
    unfold tAgent at hta
    rw [minList_eq_none] at hta
    cases he : lk st.eaten i1 with
    | none => rw [he] at he1; cases he1
    | some e =>
      have hm : some ((1 - e) / spd speeds i1) ∈ (List.range n).map (fun i =>
          match lk st.eaten i with
          | none => none
          | some e => some ((1 - e) / spd speeds i)) := by
        rw [mem_range_map_some]
        exact ⟨i1, hi1, by rw [he]⟩
      cases hta _ hm
  | some ta =>
    unfold tAgent at hta
    obtain ⟨hmem, hmin⟩ := minList_eq_some _ _ hta
    rw [mem_range_map_some] at hmem
    obtain ⟨i0, hi0, hf0⟩ := hmem
    -- the minimising agent
    obtain ⟨e0, he0, hta0⟩ : ∃ e0, lk st.eaten i0 = some e0 ∧ ta = (1 - e0) / spd speeds i0 := by
      cases he : lk st.eaten i0 with
      | none => rw [he] at hf0; cases hf0
      | some e => rw [he] at hf0; exact ⟨e, rfl, (Option.some.inj hf0).symm⟩
    have hs0 := hs i0 hi0
    have he0lt := h.eaten_lt i0 e0 he0
    have hta_pos : 0 < ta := by rw [hta0]; exact div_pos (by linarith) hs0
    have hta_le : ∀ i < n, ∀ e, lk st.eaten i = some e → spd speeds i * ta ≤ 1 - e := by
      intro i hi e he
      have : ta ≤ (1 - e) / spd speeds i := by
        apply hmin
        rw [mem_range_map_some]
        exact ⟨i, hi, by rw [he]⟩
      have hsi := hs i hi
      rw [le_div_iff₀ hsi] at this
      linarith
    have hwit0 : e0 + spd speeds i0 * ta = 1 := by
      rw [hta0]; field_simp; ring
    simp only
    cases hti : tItem n ranked speeds st with
    | none =>
      unfold tItem at hti
      rw [minList_eq_none] at hti
      have htot0 : ∀ j < n, ∀ r, lk st.rem j = some r → total n ranked speeds st j = 0 := by
        intro j hj r hjr
        by_contra hne
        have hm : some (r / total n ranked speeds st j) ∈ (List.range n).map (fun j =>
            match lk st.rem j with
            | none => none
            | some r => if total n ranked speeds st j = 0 then none
                else some (r / total n ranked speeds st j)) := by
          rw [mem_range_map_some]
          exact ⟨j, hj, by rw [hjr]; simp only; rw [if_neg hne]⟩
        cases hti _ hm
      refine ⟨ta, rfl, ⟨le_of_lt hta_pos, ?_, ?_⟩, Or.inl ⟨i0, hi0, e0, he0, by linarith⟩⟩
      · intro i hi e he
        have := hta_le i hi e he
        linarith
      · intro j hj r hjr
        rw [htot0 j hj r hjr, zero_mul, sub_zero]
        exact le_of_lt (h.rem_pos j r hjr)
    | some ti =>
      unfold tItem at hti
      obtain ⟨hmem, hmin2⟩ := minList_eq_some _ _ hti
      rw [mem_range_map_some] at hmem
      obtain ⟨j0, hj0, hg0⟩ := hmem
      obtain ⟨r0, hr0, hne0, hti0⟩ : ∃ r0, lk st.rem j0 = some r0 ∧ total n ranked speeds st j0 ≠ 0 ∧
          ti = r0 / total n ranked speeds st j0 := by
        cases hl : lk st.rem j0 with
        | none => rw [hl] at hg0; cases hg0
        | some r =>
          rw [hl] at hg0
          simp only at hg0
          by_cases hz : total n ranked speeds st j0 = 0
          · rw [if_pos hz] at hg0; cases hg0
          · rw [if_neg hz] at hg0; exact ⟨r, rfl, hz, (Option.some.inj hg0).symm⟩
      have htp0 : 0 < total n ranked speeds st j0 :=
        lt_of_le_of_ne (total_nonneg hs j0) (Ne.symm hne0)
      have hti_pos : 0 < ti := by rw [hti0]; exact div_pos (h.rem_pos j0 r0 hr0) htp0
      have hti_le : ∀ j < n, ∀ r, lk st.rem j = some r → total n ranked speeds st j * ti ≤ r := by
        intro j hj r hjr
        by_cases hz : total n ranked speeds st j = 0
        · rw [hz, zero_mul]; exact le_of_lt (h.rem_pos j r hjr)
        · have htp : 0 < total n ranked speeds st j := lt_of_le_of_ne (total_nonneg hs j) (Ne.symm hz)
          have : ti ≤ r / total n ranked speeds st j := by
            apply hmin2
            rw [mem_range_map_some]
            exact ⟨j, hj, by rw [hjr]; simp only; rw [if_neg hz]⟩
          rw [le_div_iff₀ htp] at this
          linarith
      have hwit1 : r0 - total n ranked speeds st j0 * ti = 0 := by
        rw [hti0]; field_simp; ring
      simp only
      by_cases hle : ta ≤ ti
      · rw [if_pos hle]
        refine ⟨ta, rfl, ⟨le_of_lt hta_pos, ?_, ?_⟩, Or.inl ⟨i0, hi0, e0, he0, by linarith⟩⟩
        · intro i hi e he
          have := hta_le i hi e he
          linarith
        · intro j hj r hjr
          have h1 := hti_le j hj r hjr
          have h2 : total n ranked speeds st j * ta ≤ total n ranked speeds st j * ti :=
            mul_le_mul_of_nonneg_left hle (total_nonneg hs j)
          linarith
      · rw [if_neg hle]
        have hlt : ti ≤ ta := le_of_lt (lt_of_not_ge hle)
        refine ⟨ti, rfl, ⟨le_of_lt hti_pos, ?_, ?_⟩, Or.inr ⟨j0, hj0, r0, hr0, by linarith⟩⟩
        · intro i hi e he
          have h1 := hta_le i hi e he
          have h2 : spd speeds i * ti ≤ spd speeds i * ta :=
            mul_le_mul_of_nonneg_left hlt (le_of_lt (hs i hi))
          linarith
        · intro j hj r hjr
          have := hti_le j hj r hjr
          linarith

end Eat
