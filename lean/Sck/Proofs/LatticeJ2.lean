import Sck.Proofs.LatticeJ1

/-! # C03, package L8b, part 2: the shortlists, exactly

For strict complete profiles and a perfect matching `mu`, `w` is on `m`'s shortlist iff `m` does not prefer his partner
to `w`… precisely: `rank_m(mu m) ≤ rank_m(w)` and `rank_w(m) ≤ rank_w(partner of w)`; both families of lists are sorted
by rank.  Hence every pair that is stable-below-`mu` is on the lists. -/

namespace IrvingAlgo.J

open Irving

/-- a permutation row contains every rank `1..n` -/
theorem permRow_mem {n : Nat} {row : List Nat} (h : permRowB n row = true) {k : Nat} (hk : k < n) : k + 1 ∈ row := by
  obtain ⟨hlen, hrng, hnd⟩ := (permRowB_iff n row).mp h
  have hp : (row.map (· - 1)).Perm (List.range n) := by
    refine perm_range_of_nodup n _ (by simpa using hlen) ?_ ?_
    · refine List.Nodup.map_on ?_ hnd
      intro x hx y hy hxy
      have := hrng x hx; have := hrng y hy; omega
    · intro x hx
      obtain ⟨y, hy, rfl⟩ := List.mem_map.mp hx
      have := hrng y hy; omega
  have : k ∈ row.map (· - 1) := hp.symm.subset (List.mem_range.mpr hk)
  obtain ⟨y, hy, hyk⟩ := List.mem_map.mp this
  have := hrng y hy
  have e : y = k + 1 := by omega
  rw [← e]; exact hy

/-- the entry at position `k` of `rankedRow` is the index holding rank `k + 1` -/
theorem rankedRow_getElem {n : Nat} {row : List Nat} (h : permRowB n row = true) {k : Nat}
    (hk : k < (rankedRow n row).length) :
    (rankedRow n row)[k] < n ∧ row.getD ((rankedRow n row)[k]) 0 = k + 1 := by
  obtain ⟨hlen, _, _⟩ := (permRowB_iff n row).mp h
  have hk' : k < n := by simpa [rankedRow] using hk
  have hmem := permRow_mem h hk'
  have hidx := List.idxOf_lt_length_of_mem hmem
  have e : (rankedRow n row)[k] = row.idxOf (k + 1) := by simp [rankedRow]
  rw [e]
  refine ⟨by omega, ?_⟩
  rw [List.getD_eq_getElem?_getD, List.getElem?_eq_getElem hidx]
  exact List.getElem_idxOf hidx

theorem rankedRow_length (n : Nat) (row : List Nat) : (rankedRow n row).length = n := by simp [rankedRow]

theorem rankedRow_pairwise {n : Nat} {row : List Nat} (h : permRowB n row = true) :
    (rankedRow n row).Pairwise (fun a b => row.getD a 0 < row.getD b 0) := by
  rw [List.pairwise_iff_getElem]
  intro i j hi hj hij
  rw [(rankedRow_getElem h hi).2, (rankedRow_getElem h hj).2]
  omega

theorem mem_rankedRow_drop {n : Nat} {row : List Nat} (h : permRowB n row = true) (d w : Nat) :
    w ∈ (rankedRow n row).drop d ↔ w < n ∧ d + 1 ≤ row.getD w 0 := by
  rw [List.mem_drop_iff_getElem]
  constructor
  · rintro ⟨j, hj, rfl⟩
    obtain ⟨a, b⟩ := rankedRow_getElem h (k := d + j) (by omega)
    exact ⟨a, by omega⟩
  · rintro ⟨hw, hd⟩
    obtain ⟨h1, h2⟩ := rankedRow_getElem? n row h w hw
    refine ⟨row.getD w 0 - 1 - d, by omega, ?_⟩
    have e : d + (row.getD w 0 - 1 - d) = row.getD w 0 - 1 := by omega
    rw [List.getElem?_eq_getElem h2] at h1
    simp only [e]
    exact Option.some.inj h1

theorem mem_rankedRow_take {n : Nat} {row : List Nat} (h : permRowB n row = true) (d w : Nat) :
    w ∈ (rankedRow n row).take (d + 1) ↔ w < n ∧ row.getD w 0 ≤ d + 1 := by
  obtain ⟨hlen, hrng, _⟩ := (permRowB_iff n row).mp h
  rw [List.mem_take_iff_getElem]
  constructor
  · rintro ⟨j, hj, rfl⟩
    obtain ⟨a, b⟩ := rankedRow_getElem h (k := j) (by omega)
    exact ⟨a, by omega⟩
  · rintro ⟨hw, hd⟩
    obtain ⟨h1, h2⟩ := rankedRow_getElem? n row h w hw
    refine ⟨row.getD w 0 - 1, by omega, ?_⟩
    rw [List.getElem?_eq_getElem h2] at h1
    exact Option.some.inj h1

/-- ranks of a permutation row are positive -/
theorem rank_pos {n : Nat} {P : List (List Nat)} {i : Nat} (h : permRowB n (P.getD i []) = true) {j : Nat}
    (hj : j < n) : 1 ≤ rankOf P i j := by
  obtain ⟨hlen, hrng, _⟩ := (permRowB_iff n _).mp h
  unfold rankOf
  have hj' : j < (P.getD i []).length := by omega
  rw [List.getD_eq_getElem?_getD, List.getElem?_eq_getElem hj']
  exact (hrng _ (List.getElem_mem hj')).1

section
variable (n : Nat) (P1 P2 : List (List Nat)) (mu : List Nat)
  (hP1 : ∀ i, i < n → permRowB n (P1.getD i []) = true)
  (hP2 : ∀ j, j < n → permRowB n (P2.getD j []) = true) (hmu : mu.Perm (List.range n))
include hP1 hP2 hmu

/-- **the men's shortlists, exactly** -/
theorem mem_shortlists_fst (m w : Nat) :
    w ∈ (shortlists n P1 P2 mu).1.getD m [] ↔
      m < n ∧ w < n ∧ rankOf P1 m (mu.getD m n) ≤ rankOf P1 m w ∧ rankOf P2 w m ≤ rankOf P2 w (mu.idxOf w) := by
  rw [shortlists_fst]
  split
  · rename_i hm
    simp only [List.mem_filter, Bool.and_eq_true, decide_eq_true_eq, List.contains_iff_mem]
    have hmm := ((mu_facts n mu hmu).1 m hm).1
    have hr1 := rank_pos (hP1 m hm) hmm
    constructor
    · rintro ⟨ha, hw, hb⟩
      have hww := ((mu_facts n mu hmu).2 w hw).1
      have hr2 := rank_pos (hP2 w hw) hww
      unfold pl1 at ha
      unfold pl2 at hb
      rw [mem_rankedRow_drop (hP1 m hm)] at ha
      rw [mem_rankedRow_take (hP2 w hw)] at hb
      unfold rk0 at ha hb
      refine ⟨hm, hw, ?_, ?_⟩
      · have := ha.2; unfold rankOf at *; omega
      · have := hb.2; unfold rankOf at *; omega
    · rintro ⟨_, hw, ha, hb⟩
      have hww := ((mu_facts n mu hmu).2 w hw).1
      have hr2 := rank_pos (hP2 w hw) hww
      unfold pl1 pl2
      rw [mem_rankedRow_drop (hP1 m hm), mem_rankedRow_take (hP2 w hw)]
      unfold rk0
      refine ⟨⟨hw, ?_⟩, hw, hm, ?_⟩
      · unfold rankOf at *; omega
      · unfold rankOf at *; omega
  · rename_i hm
    simp only [List.not_mem_nil, false_iff]
    rintro ⟨h, _⟩; exact hm h

/-- **the women's shortlists, exactly** -/
theorem mem_shortlists_snd (m w : Nat) :
    m ∈ (shortlists n P1 P2 mu).2.getD w [] ↔
      m < n ∧ w < n ∧ rankOf P1 m (mu.getD m n) ≤ rankOf P1 m w ∧ rankOf P2 w m ≤ rankOf P2 w (mu.idxOf w) := by
  rw [← shortlists_mutual]
  exact mem_shortlists_fst n P1 P2 mu hP1 hP2 hmu m w

omit hP2 hmu in
/-- the men's shortlists are sorted by the men's ranks -/
theorem shortlists_fst_pairwise (m : Nat) :
    ((shortlists n P1 P2 mu).1.getD m []).Pairwise (fun a b => rankOf P1 m a < rankOf P1 m b) := by
  rw [shortlists_fst]
  split
  · rename_i hm
    refine List.Pairwise.sublist List.filter_sublist ?_
    unfold pl1
    exact List.Pairwise.sublist (List.drop_sublist _ _) (rankedRow_pairwise (hP1 m hm))
  · exact List.Pairwise.nil

omit hP1 hmu in
/-- the women's shortlists are sorted by the women's ranks -/
theorem shortlists_snd_pairwise (w : Nat) :
    ((shortlists n P1 P2 mu).2.getD w []).Pairwise (fun a b => rankOf P2 w a < rankOf P2 w b) := by
  rw [shortlists_snd]
  split
  · rename_i hw
    refine List.Pairwise.sublist List.filter_sublist ?_
    unfold pl2
    exact List.Pairwise.sublist (List.take_sublist _ _) (rankedRow_pairwise (hP2 w hw))
  · exact List.Pairwise.nil

end

/-- in a list sorted by `r`, an earlier position means a smaller `r` -/
theorem lt_of_idxOf_lt {r : Nat → Nat} {L : List Nat} (hL : L.Pairwise (fun a b => r a < r b)) {a b : Nat}
    (ha : a ∈ L) (hb : b ∈ L) (h : L.idxOf a < L.idxOf b) : r a < r b := by
  have hia := List.idxOf_lt_length_of_mem ha
  have hib := List.idxOf_lt_length_of_mem hb
  have := (List.pairwise_iff_getElem.mp hL) _ _ hia hib h
  rwa [List.getElem_idxOf hia, List.getElem_idxOf hib] at this

end IrvingAlgo.J

#print axioms IrvingAlgo.J.mem_shortlists_fst
