import Sck.Proofs.LatticeJ15

/-! # C03, package L8b, part 16: the mirror's list of rotations is a run from the male-optimal matching (`AllRun_at`,
unconditionally); hence soundness and completeness of the sparse poset graph hold unconditionally -/

namespace IrvingAlgo.J

open Irving SMLattice SMLattice.J

theorem exposedAllB_append (P1 P2 : List (List Nat)) : ∀ (A : List (List Pair)) (M M' : List Pair) (B : List (List Pair)),
    exposedAllB P1 P2 M A = true → eliminateAll M A = some M' → exposedAllB P1 P2 M' B = true →
    exposedAllB P1 P2 M (A ++ B) = true := by
  intro A
  induction A with
  | nil => intro M M' B _ h hB; cases h; exact hB
  | cons r A ih =>
    intro M M' B hA h hB
    simp only [List.cons_append, exposedAllB, Bool.and_eq_true] at hA ⊢
    simp only [eliminateAll] at h
    cases he : eliminate M r with
    | none => rw [he] at h; exact absurd h (by simp)
    | some M1 =>
      rw [he] at h hA
      exact ⟨hA.1, ih M1 M' B hA.2 h hB⟩

section
variable {n : Nat} {P1 P2 : List (List Nat)} {M0 : List Pair} {μ0 : Equiv.Perm (Fin n)}

/-- the rotations of one level, eliminated one after the other (all of them exposed when their turn comes): the
women's lists, the matrix and the dict follow; the men's lists are not touched -/
theorem levelFold_inv2 (C : JCtx n P1 P2 M0 μ0) {all : List (List Pair)} :
    ∀ (rots : List (List Pair)) (st : LvSt) (ans suf : List (List Pair)) (M : List Pair) (μ : Equiv.Perm (Fin n)),
      Rep M μ → StableSM (rk n P1) (rk n P2) μ →
      L2Inv P2 (shortlists n P1 P2 (muOf n M0)).2 (husb μ) st.l2 →
      DictAll (fun (p : Pair) pi => ElimOK P2 all p.1 p.2 pi) st.elim →
      EIInv (shortlists n P1 P2 (muOf n M0)).2 st → PM2Inv st → st.cnt = ans.length →
      all = ans ++ (rots ++ suf) → exposedAllB P1 P2 M rots = true → (∀ r ∈ rots, r ≠ []) →
      ∃ M' μ', Rep M' μ' ∧ StableSM (rk n P1) (rk n P2) μ' ∧ MLe (rk n P1) μ μ' ∧
        L2Inv P2 (shortlists n P1 P2 (muOf n M0)).2 (husb μ') (rots.foldl elimRot st).l2 ∧
        DictAll (fun (p : Pair) pi => ElimOK P2 all p.1 p.2 pi) (rots.foldl elimRot st).elim ∧
        EIInv (shortlists n P1 P2 (muOf n M0)).2 (rots.foldl elimRot st) ∧ PM2Inv (rots.foldl elimRot st) ∧
        (rots.foldl elimRot st).l1 = st.l1 ∧
        (rots.foldl elimRot st).cnt = (ans ++ rots).length ∧ eliminateAll M rots = some M' := by
  intro rots
  induction rots with
  | nil =>
    intro st ans suf M μ hM hμ hinv hel hei hpm hcnt _ _ _
    exact ⟨M, μ, hM, hμ, MLe.refl _ _, hinv, hel, hei, hpm, rfl, by simpa using hcnt, rfl⟩
  | cons rho rest ih =>
    intro st ans suf M μ hM hμ hinv hel hei hpm hcnt hall hexp hne
    simp only [exposedAllB, Bool.and_eq_true] at hexp
    obtain ⟨hex1, hex2⟩ := hexp
    obtain ⟨ρ, rfl, hexρ⟩ := exposed_unbridge C.h1 hM hμ (hne _ List.mem_cons_self) ((exposedB_iff _ _ _ _).mp hex1)
    obtain ⟨M1, hM1, hrep1⟩ := eliminate_bridge hM hexρ.1 (exposedRot_move hexρ)
    rw [hM1] at hex2
    have hcur : all.getD st.cnt [] = rotPairs μ ρ := by
      rw [hall, hcnt, List.getD_eq_getElem?_getD, List.getElem?_append_right (Nat.le_refl _)]
      simp
    obtain ⟨i1, i2, i3, i4, i5, i6⟩ := elimRot_inv C hμ hexρ st hinv hel hei hcur
    obtain ⟨hst1, hle1, _⟩ := exposed_elim_stable C.h1 hμ hexρ
    obtain ⟨M', μ', r1, r2, r3, r4, r5, r6, r7, r8, r9, r10⟩ := ih (elimRot st (rotPairs μ ρ)) (ans ++ [rotPairs μ ρ]) suf M1
      (elim μ ρ) hrep1 hst1 i1 i2 i3 (i5 hpm) (by rw [i4, hcnt]; simp) (by rw [hall]; simp) hex2
      (fun r hr => hne r (List.mem_cons_of_mem _ hr))
    refine ⟨M', μ', r1, r2, hle1.trans r3, r4, r5, r6, r7, ?_, ?_, ?_⟩
    · rw [List.foldl_cons, r8, i6]
    · rw [List.foldl_cons, r9]; simp
    · simp only [eliminateAll, hM1]; exact r10

/-- **the level loop produces a run**: started in a state that satisfies the level invariant for the stable matching `μ`
(represented by `M`), whatever it appends to its accumulator can be eliminated from `M`, each rotation non-empty and
exposed when its turn comes -/
theorem levelLoop_run (C : JCtx n P1 P2 M0 μ0) {all : List (List Pair)} {el : List (Pair × Nat)} :
    ∀ (fuel : Nat) (st : LvSt) (ans : List (List Pair)) (M : List Pair) (μ : Equiv.Perm (Fin n)),
      Rep M μ → JLevelInv C μ st →
      DictAll (fun (p : Pair) pi => ElimOK P2 all p.1 p.2 pi) st.elim →
      EIInv (shortlists n P1 P2 (muOf n M0)).2 st → st.cnt = ans.length →
      levelLoop fuel st ans = some (all, el) →
      ∃ suf, all = ans ++ suf ∧ exposedAllB P1 P2 M suf = true ∧ ∀ r ∈ suf, r ≠ [] := by
  intro fuel
  induction fuel with
  | zero => intro st ans M μ _ _ _ _ _ h; simp [levelLoop] at h
  | succ fuel ih =>
    intro st ans M μ hM hinv hel hei hcnt h
    simp only [levelLoop] at h
    split at h
    · have := Prod.mk.inj (Option.some.inj h)
      exact ⟨[], by rw [← this.1]; simp, rfl, fun r hr => by simp at hr⟩
    · obtain ⟨suf', hs⟩ := levelLoop_prefix _ _ _ _ h
      simp only at hs
      obtain ⟨hgood, hdisj⟩ := findRotations_spec (P1 := P1) (P2 := P2) hinv
      obtain ⟨hexp, hne⟩ := level_run C _ M μ hM hinv.stable hgood hdisj
      obtain ⟨M', μ', r1, r2, r3, r4, r5, r6, r7, r8, r9, r10⟩ := levelFold_inv2 C (findRotations st.l1 st.l2) st ans suf'
        M μ hM hinv.stable hinv.l2 hel hei hinv.pm2 hcnt (by rw [hs, List.append_assoc]) hexp hne
      have hinv' := jLevelInv_step C hinv r2 r3 r4 r7 r8
      obtain ⟨suf2, hs2, e1, e2⟩ := ih _ (ans ++ findRotations st.l1 st.l2) M' μ' r1 hinv' (by exact r5) (by exact r6)
        (by exact r9) h
      have hsuf : suf' = suf2 := by
        rw [hs] at hs2
        exact List.append_cancel_left hs2
      subst hsuf
      refine ⟨findRotations st.l1 st.l2 ++ suf', by rw [hs, List.append_assoc], ?_, ?_⟩
      · exact exposedAllB_append P1 P2 _ M M' _ hexp r10 e1
      · intro r hr
        rcases List.mem_append.mp hr with hr | hr
        · exact hne r hr
        · exact e2 r hr

end

/-- **the "run" half of obligation (i) holds**: on every strict complete instance the mirror's list of rotations, in
discovery order, can be eliminated from the male-optimal matching, each rotation non-empty and exposed when its turn
comes -/
theorem allRun_at {n : Nat} {P1 P2 : List (List Nat)} {V1 V2 : List (List Int)} (hwf : wfB n P1 P2 V1 V2 = true) :
    AllRun_at n P1 P2 := by
  intro M0 all el hmo hall
  obtain ⟨μ0, C⟩ := jctx_of_wf hwf hmo
  unfold allRotations at hall
  obtain ⟨suf, hs, e1, e2⟩ := levelLoop_run C _ _ [] M0 μ0 C.rep (jLevelInv_init C) (fun e he => by simp at he)
    (fun m w _ hnot => absurd ‹_› hnot) rfl hall
  simp only [List.nil_append] at hs
  subst hs
  exact ⟨e1, e2⟩

end IrvingAlgo.J

/-- **obligation (j), soundness of the sparse poset graph — unconditionally** -/
theorem L8b.remaining_j : Remaining_j :=
  fun _ _ _ _ _ hwf => IrvingAlgo.J.remaining_j_at_of_run hwf (IrvingAlgo.J.allRun_at hwf)

/-- **obligation (j) as in the task statement (soundness and completeness) — unconditionally** -/
theorem L8b.remaining_j_task : Remaining_j_task :=
  fun _ _ _ _ _ hwf => IrvingAlgo.J.remaining_j_task_at_of_run hwf (IrvingAlgo.J.allRun_at hwf)

#print axioms IrvingAlgo.J.allRun_at
#print axioms L8b.remaining_j
#print axioms L8b.remaining_j_task
