import Sck.Proofs.LatticeJ12

/-! # C03, package L8b, part 13: the men's lists in the level loop

Invariant `L1Inv` at the beginning of every level (current stable matching `μ`): man `m`'s list is his wife followed by
what is left of his initial shortlist after her, once the leading women who have deleted him are dropped.  Hence the
SECOND woman of his list is his successor woman `s_μ(m)` and `outEdge` is the next-man function of `μ`. -/

namespace IrvingAlgo.J

open Irving SMLattice SMLattice.J

/-! ### list helpers -/

theorem dropWhile_dropWhile_of_imp {α : Type} {p q : α → Bool} (h : ∀ x, p x = true → q x = true) :
    ∀ l : List α, (l.dropWhile p).dropWhile q = l.dropWhile q := by
  intro l
  induction l with
  | nil => rfl
  | cons a l ih =>
    rw [List.dropWhile_cons]
    split
    · rename_i hp
      rw [ih, List.dropWhile_cons, if_pos (h a hp)]
    · rfl

theorem dropWhile_eq_cons {α : Type} {p : α → Bool} : ∀ {l : List α} {a : α} {t : List α},
    l.dropWhile p = a :: t → ∃ l1, l = l1 ++ a :: t ∧ (∀ x ∈ l1, p x = true) ∧ p a = false := by
  intro l
  induction l with
  | nil => intro a t h; simp at h
  | cons b l ih =>
    intro a t h
    rw [List.dropWhile_cons] at h
    split at h
    · rename_i hp
      obtain ⟨l1, rfl, h1, h2⟩ := ih h
      exact ⟨b :: l1, rfl, fun x hx => by
        rcases List.mem_cons.mp hx with rfl | hx
        · exact hp
        · exact h1 x hx, h2⟩
    · rename_i hp
      obtain ⟨rfl, rfl⟩ := List.cons.inj h
      exact ⟨[], rfl, fun x hx => by simp at hx, by simpa using hp⟩

theorem dropWhile_nil_all {α : Type} {p : α → Bool} : ∀ {l : List α}, l.dropWhile p = [] → ∀ x ∈ l, p x = true := by
  intro l
  induction l with
  | nil => intro _ x hx; simp at hx
  | cons a l ih =>
    intro h x hx
    rw [List.dropWhile_cons] at h
    split at h
    · rename_i hp
      rcases List.mem_cons.mp hx with rfl | hx
      · exact hp
      · exact ih h x hx
    · simp at h

theorem dropWhile_eq_self_of_all {α : Type} {p : α → Bool} {l : List α} (h : ∀ x ∈ l, p x = false) :
    l.dropWhile p = l := by
  cases l with
  | nil => rfl
  | cons a l => rw [List.dropWhile_cons, if_neg (by rw [h a List.mem_cons_self]; simp)]

/-- the last element of a list sorted by `r` is its `r`-maximal member -/
theorem getLast?_of_max {r : Nat → Nat} {L : List Nat} (hL : L.Pairwise (fun a b => r a < r b)) {x : Nat}
    (hx : x ∈ L) (hmax : ∀ y ∈ L, r y ≤ r x) : L.getLast? = some x := by
  obtain ⟨A, B, rfl⟩ := List.append_of_mem hx
  have hB : B = [] := by
    cases B with
    | nil => rfl
    | cons b B =>
      exfalso
      have h1 := (List.pairwise_cons.mp (List.pairwise_append.mp hL).2.1).1 b List.mem_cons_self
      have h2 := hmax b (by simp)
      omega
  subst hB
  simp

section
variable {n : Nat} {P1 P2 : List (List Nat)} {M0 : List Pair} {μ0 : Equiv.Perm (Fin n)}

/-- the state at the beginning of a level: the women's lists, the matrix and the men's lists describe `μ` -/
structure JLevelInv (C : JCtx n P1 P2 M0 μ0) (μ : Equiv.Perm (Fin n)) (st : LvSt) : Prop where
  stable : StableSM (rk n P1) (rk n P2) μ
  l2 : L2Inv P2 (shortlists n P1 P2 (muOf n M0)).2 (husb μ) st.l2
  pm2 : PM2Inv st
  len1 : st.l1.length = n
  l1 : ∀ m : Fin n, ∃ pre post, (shortlists n P1 P2 (muOf n M0)).1.getD m [] = pre ++ ((μ m : Fin n) : Nat) :: post ∧
    st.l1.getD m [] = ((μ m : Fin n) : Nat) :: post.dropWhile (fun j => !((st.pm2.getD j []).getD m false))

variable {C : JCtx n P1 P2 M0 μ0}

/-- validity of a pair in the matrix, semantically -/
theorem valid_iff {μ : Equiv.Perm (Fin n)} {st : LvSt}
    (hl2 : L2Inv P2 (shortlists n P1 P2 (muOf n M0)).2 (husb μ) st.l2) (hpm : PM2Inv st) (j m : Nat) :
    (st.pm2.getD j []).getD m false = true ↔
      m ∈ (shortlists n P1 P2 (muOf n M0)).2.getD j [] ∧ rankOf P2 j m ≤ rankOf P2 j (husb μ j) := by
  rw [hpm j m, (hl2 j).2 m]

theorem valid_fin {μ : Equiv.Perm (Fin n)} {st : LvSt}
    (hl2 : L2Inv P2 (shortlists n P1 P2 (muOf n M0)).2 (husb μ) st.l2) (hpm : PM2Inv st) (b m : Fin n) :
    (st.pm2.getD b []).getD m false = true ↔
      (m : Nat) ∈ (shortlists n P1 P2 (muOf n M0)).2.getD b [] ∧ rk n P2 b m ≤ rk n P2 b (μ.symm b) := by
  rw [valid_iff hl2 hpm, husb_fin]; rfl

/-- a man is valid for his own wife -/
theorem valid_wife (C : JCtx n P1 P2 M0 μ0) {μ : Equiv.Perm (Fin n)} {st : LvSt} (hμ : StableSM (rk n P1) (rk n P2) μ)
    (hl2 : L2Inv P2 (shortlists n P1 P2 (muOf n M0)).2 (husb μ) st.l2) (hpm : PM2Inv st) (m : Fin n) :
    (st.pm2.getD (μ m) []).getD m false = true := by
  rw [valid_fin hl2 hpm]
  exact ⟨(stable_pair_mem C hμ m).2, by simp⟩

/-- members of the men's shortlists are women `< n` -/
theorem l10_lt (C : JCtx n P1 P2 M0 μ0) {m x : Nat} (h : x ∈ (shortlists n P1 P2 (muOf n M0)).1.getD m []) :
    m < n ∧ x < n := by
  obtain ⟨hperm, _, _⟩ := muOf_facts C.rep
  have := (mem_shortlists_fst n P1 P2 _ C.hP1 C.hP2 hperm m x).mp h
  exact ⟨this.1, this.2.1⟩

/-- the initial state satisfies the invariant for the male-optimal matching -/
theorem jLevelInv_init (C : JCtx n P1 P2 M0 μ0) :
    JLevelInv C μ0
      { l1 := (shortlists n P1 P2 (muOf n M0)).1, l2 := (shortlists n P1 P2 (muOf n M0)).2,
        pm2 := (List.range (shortlists n P1 P2 (muOf n M0)).1.length).map (fun j =>
          (List.range (shortlists n P1 P2 (muOf n M0)).1.length).map (fun i =>
            ((shortlists n P1 P2 (muOf n M0)).2.getD j []).contains i)),
        elim := [], cnt := 0 } := by
  obtain ⟨hperm, hget, hidx⟩ := muOf_facts C.rep
  have hlen := shortlists_fst_length n P1 P2 (muOf n M0)
  have hpm : PM2Inv
      { l1 := (shortlists n P1 P2 (muOf n M0)).1, l2 := (shortlists n P1 P2 (muOf n M0)).2,
        pm2 := (List.range (shortlists n P1 P2 (muOf n M0)).1.length).map (fun j =>
          (List.range (shortlists n P1 P2 (muOf n M0)).1.length).map (fun i =>
            ((shortlists n P1 P2 (muOf n M0)).2.getD j []).contains i)),
        elim := [], cnt := 0 } := by
    intro w m
    simp only [hlen]
    constructor
    · intro h
      by_cases hw : w < n
      · rw [getD_map_range _ _ _ _ hw] at h
        by_cases hm : m < n
        · rw [getD_map_range _ _ _ _ hm] at h
          exact List.contains_iff_mem.mp h
        · rw [getD_map_range_ge _ _ _ _ (by omega)] at h; simp at h
      · rw [getD_map_range_ge _ _ _ _ (by omega)] at h; simp at h
    · intro h
      obtain ⟨hm, hw, _⟩ := (mem_shortlists_snd n P1 P2 _ C.hP1 C.hP2 hperm m w).mp h
      rw [getD_map_range _ _ _ _ hw, getD_map_range _ _ _ _ hm]
      exact List.contains_iff_mem.mpr h
  refine ⟨C.st0, l2Inv_init C, hpm, hlen, ?_⟩
  intro m
  have hhead := shortlists_head n P1 P2 _ C.hP1 C.hP2 hperm m m.2
  rw [hget m] at hhead
  cases hL : (shortlists n P1 P2 (muOf n M0)).1.getD m [] with
  | nil => rw [hL] at hhead; simp at hhead
  | cons a post =>
    rw [hL] at hhead
    simp only [List.head?_cons, Option.some.injEq] at hhead
    subst hhead
    refine ⟨[], post, rfl, ?_⟩
    congr 1
    symm
    apply dropWhile_eq_self_of_all
    intro x hx
    have hxm : x ∈ (shortlists n P1 P2 (muOf n M0)).1.getD m [] := by rw [hL]; exact List.mem_cons_of_mem _ hx
    have := (hpm x m).mpr ((shortlists_mutual n P1 P2 _ _ _).mp hxm)
    simp only at this
    rw [this]; rfl

/-- **the men's lists after a level**: if the women's lists and the matrix have been brought to the stable matching
`μ' ≽ μ` (men's lists untouched), `menUpdate` re-establishes the invariant for `μ'` -/
theorem jLevelInv_step (C : JCtx n P1 P2 M0 μ0) {μ μ' : Equiv.Perm (Fin n)} {st st' : LvSt} (hinv : JLevelInv C μ st)
    (hμ' : StableSM (rk n P1) (rk n P2) μ') (hle : MLe (rk n P1) μ μ')
    (hl2' : L2Inv P2 (shortlists n P1 P2 (muOf n M0)).2 (husb μ') st'.l2) (hpm' : PM2Inv st') (hl1 : st'.l1 = st.l1) :
    JLevelInv C μ' { st' with l1 := (List.range st'.l1.length).map (fun i => menUpdate st'.pm2 i (st'.l1.getD i [])) } := by
  refine ⟨hμ', hl2', hpm', by simp [hl1, hinv.len1], ?_⟩
  intro m
  obtain ⟨pre, post, hL, hl1m⟩ := hinv.l1 m
  have hw := women_le C.h1 hμ' hle
  have hLp := shortlists_fst_pairwise n P1 P2 (muOf n M0) C.hP1 m
  rw [hL] at hLp
  -- validity only decreases
  have hmono : ∀ x, (fun j => !((st.pm2.getD j []).getD m false)) x = true →
      (fun j => !((st'.pm2.getD j []).getD m false)) x = true := by
    intro x hx
    simp only [Bool.not_eq_true', ← Bool.not_eq_true] at hx ⊢
    intro hv
    apply hx
    rw [valid_iff hinv.l2 hinv.pm2]
    obtain ⟨h1, h2⟩ := (valid_iff hl2' hpm' x m).mp hv
    refine ⟨h1, Nat.le_trans h2 ?_⟩
    obtain ⟨_, hxn, _⟩ := (mem_shortlists_snd n P1 P2 _ C.hP1 C.hP2 (muOf_facts C.rep).1 m x).mp h1
    have := hw ⟨x, hxn⟩
    rw [show husb μ' x = μ'.symm ⟨x, hxn⟩ from husb_fin μ' ⟨x, hxn⟩,
      show husb μ x = μ.symm ⟨x, hxn⟩ from husb_fin μ ⟨x, hxn⟩]
    exact this
  have hnew : ({ st' with l1 := (List.range st'.l1.length).map (fun i => menUpdate st'.pm2 i (st'.l1.getD i [])) } : LvSt).l1.getD m []
      = menUpdate st'.pm2 m (st.l1.getD m []) := by
    show ((List.range st'.l1.length).map (fun i => menUpdate st'.pm2 i (st'.l1.getD i []))).getD m [] = _
    rw [getD_map_range _ _ _ _ (by rw [hl1, hinv.len1]; exact m.2), hl1]
  show ∃ pre post, _ = pre ++ ((μ' m : Fin n) : Nat) :: post ∧
    ({ st' with l1 := (List.range st'.l1.length).map (fun i => menUpdate st'.pm2 i (st'.l1.getD i [])) } : LvSt).l1.getD m []
      = ((μ' m : Fin n) : Nat) :: post.dropWhile (fun j => !((st'.pm2.getD j []).getD m false))
  rw [hnew, hl1m]
  unfold menUpdate
  by_cases hsame : μ' m = μ m
  · -- `m` keeps his wife
    have hv : (st'.pm2.getD (μ m) []).getD m false = true := by rw [← hsame]; exact valid_wife C hμ' hl2' hpm' m
    rw [List.dropWhile_cons, if_neg (by rw [hv]; simp)]
    simp only
    rw [dropWhile_dropWhile_of_imp hmono, hsame]
    exact ⟨pre, post, hL, rfl⟩
  · -- `m` has moved: his old wife has deleted him
    have hnv : (st'.pm2.getD (μ m) []).getD m false = false := by
      rw [← Bool.not_eq_true, valid_fin hl2' hpm']
      rintro ⟨_, h2⟩
      have h3 := hw (μ m)
      simp only [Equiv.symm_apply_apply] at h3
      have : μ'.symm (μ m) = m := C.h2 _ (Nat.le_antisymm h3 h2)
      exact hsame ((Equiv.symm_apply_eq μ').mp this).symm
    rw [List.dropWhile_cons, if_pos (by rw [hnv]; rfl), dropWhile_dropWhile_of_imp hmono]
    -- his new wife is further down his shortlist
    have hlt : rankOf P1 m (μ m) < rankOf P1 m (μ' m) :=
      lt_of_le_of_ne (hle m) (fun h => hsame (C.h1 m h).symm)
    have hmem : ((μ' m : Fin n) : Nat) ∈ pre ++ ((μ m : Fin n) : Nat) :: post := by
      rw [← hL]; exact (stable_pair_mem C hμ' m).1
    have hpost := mem_right_of_gt (r := fun x => rankOf P1 m x) hLp hmem hlt
    obtain ⟨post1, post2, hpost12⟩ := List.append_of_mem hpost
    have hp1 : ∀ x ∈ post1, (fun j => !((st'.pm2.getD j []).getD m false)) x = true := by
      intro x hx
      simp only [Bool.not_eq_true', ← Bool.not_eq_true]
      intro hv
      have hxpost : x ∈ post := by rw [hpost12]; exact List.mem_append_left _ hx
      have hxL : x ∈ (shortlists n P1 P2 (muOf n M0)).1.getD m [] := by
        rw [hL]; exact List.mem_append_right _ (List.mem_cons_of_mem _ hxpost)
      obtain ⟨_, hxn⟩ := l10_lt C hxL
      have hv' := (valid_fin hl2' hpm' ⟨x, hxn⟩ m).mp hv
      -- `x` is before `μ' m` on the list
      have hpw := (List.pairwise_cons.mp (List.pairwise_append.mp hLp).2.1).2
      rw [hpost12] at hpw
      have hx1 : rankOf P1 m x < rankOf P1 m (μ' m) := (List.pairwise_append.mp hpw).2.2 x hx _ List.mem_cons_self
      have hne : μ'.symm ⟨x, hxn⟩ ≠ m := by
        intro h
        have : μ' m = ⟨x, hxn⟩ := by rw [← h]; simp
        rw [this] at hx1; exact Nat.lt_irrefl _ hx1
      have hx2 : rk n P2 ⟨x, hxn⟩ m < rk n P2 ⟨x, hxn⟩ (μ'.symm ⟨x, hxn⟩) :=
        lt_of_le_of_ne hv'.2 (fun h => hne (C.h2 _ h).symm)
      exact hμ' m ⟨x, hxn⟩ ⟨hx1, hx2⟩
    have hv2 : (st'.pm2.getD (μ' m) []).getD m false = true := valid_wife C hμ' hl2' hpm' m
    rw [hpost12, List.dropWhile_append_of_pos hp1, List.dropWhile_cons, if_neg (by rw [hv2]; simp)]
    refine ⟨pre ++ ((μ m : Fin n) : Nat) :: post1, post2, ?_, rfl⟩
    rw [hL, hpost12]; simp

end

end IrvingAlgo.J

#print axioms IrvingAlgo.J.jLevelInv_step
