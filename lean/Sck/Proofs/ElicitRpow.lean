import Mathlib.Analysis.SpecialFunctions.Pow.Real

/-! C16: the thresholds of the code, `λ_l = m ** (l / (k + 1))`, form a chain with ratio
`ρ = m ** (1 / (k + 1))`, from `λ_0 = 1` up to `λ_{k+1} = m`. -/

namespace Elicit

theorem rpow_thresholds (m k : ℕ) (hm : 1 ≤ m) :
    let lam : ℕ → ℝ := fun l => (m : ℝ) ^ ((l : ℝ) / ((k : ℝ) + 1))
    let ρ : ℝ := (m : ℝ) ^ ((1 : ℝ) / ((k : ℝ) + 1))
    lam 0 = 1 ∧ lam (k + 1) = m ∧ (∀ l, lam (l + 1) = ρ * lam l) ∧ (∀ l, 1 ≤ lam l) ∧
      Monotone lam ∧ 1 ≤ ρ := by
  intro lam ρ
  have hm1 : (1 : ℝ) ≤ m := by exact_mod_cast hm
  have hm0 : (0 : ℝ) < m := by linarith
  have hk : (0 : ℝ) < (k : ℝ) + 1 := by positivity
  refine ⟨?_, ?_, ?_, ?_, ?_, ?_⟩
  · simp [lam]
  · simp only [lam]
    push_cast
    rw [div_self (ne_of_gt hk), Real.rpow_one]
  · intro l
    simp only [lam, ρ]
    rw [← Real.rpow_add hm0]
    congr 1
    push_cast
    ring
  · intro l
    exact Real.one_le_rpow hm1 (by positivity)
  · intro a b hab
    apply Real.rpow_le_rpow_of_exponent_le hm1
    apply div_le_div_of_nonneg_right _ (le_of_lt hk)
    exact_mod_cast hab
  · exact Real.one_le_rpow hm1 (by positivity)

end Elicit

#print axioms Elicit.rpow_thresholds
