import Sck.Proofs.BvnMirror2

/-! C06, the faithful mirror of `birkhoff_von_neumann`, part 3: TOTALITY on every square matrix (balanced or not).
Every round removes at least one strictly positive entry and creates none, so over exact arithmetic the loop stops
within `n² + 1` rounds on every input: it either returns, or `check_bipartite_graph` raises `ValueError` (some row or
column of the residual matrix has no positive entry although the matrix is not zero).  The other error tokens of the
mirror (`fuel`, `inf`, `KeyError`, `IndexError`) never occur. -/

open Finset

namespace Mirror

open FH (BGraph keysB posGraph)

/-- number of strictly positive entries of the `n × n` matrix -/
def posCnt (n : ℕ) (X : List (List Rat)) : ℕ := #{p : Fin n × Fin n | 0 < matGet X p.1 p.2}

theorem posCnt_le (n : ℕ) (X : List (List Rat)) : posCnt n X ≤ n * n := by
  unfold posCnt
  calc _ ≤ (univ : Finset (Fin n × Fin n)).card := card_filter_le _ _
    _ = n * n := by simp

/-- the value of a pair of a matching of the positivity graph -/
theorem pairVal_eq (n : ℕ) (X : List (List Rat)) (i j : ℕ) :
    matGet X ((i : Int)).toNat ((((j + n : ℕ) : Int)) - Int.ofNat n).toNat = matGet X i j := by
  have h1 : ((i : Int)).toNat = i := by simp
  have h2 : ((((j + n : ℕ) : Int)) - Int.ofNat n).toNat = j := by
    simp only [Int.ofNat_eq_natCast]; omega
  rw [h1, h2]

section Step
variable {n : ℕ} {X : List (List Rat)} {M : List (Int × Int)}

/-- the coefficient is the value of a matched pair and a lower bound of all of them; it is strictly positive -/
theorem coeff_spec (hM : IsMatching (rowVerts n) (positivityAdj n X) M) (z : Rat)
    (hz : minList (pairVals n X M) = some z) :
    0 < z ∧ (∃ i j : ℕ, i < n ∧ j < n ∧ ((i : Int), ((j + n : ℕ) : Int)) ∈ M ∧ matGet X i j = z) ∧
    ∀ i j : ℕ, ((i : Int), ((j + n : ℕ) : Int)) ∈ M → z ≤ matGet X i j := by
  obtain ⟨hmem, hmin⟩ := minList_spec _ z hz
  unfold pairVals at hmem hmin
  obtain ⟨p, hp, hpz⟩ := List.mem_map.mp hmem
  obtain ⟨i, j, hi, hj, rfl, hpos⟩ := matching_pair_shape hM p hp
  simp only at hpz
  rw [pairVal_eq] at hpz
  refine ⟨hpz ▸ hpos, ⟨i, j, hi, hj, hp, hpz⟩, ?_⟩
  intro i' j' hp'
  have := hmin _ (List.mem_map.mpr ⟨_, hp', rfl⟩)
  simp only at this
  rwa [pairVal_eq] at this

/-- **one round removes a positive entry and creates none** -/
theorem posCnt_step (hsq : isSquareB n X = true) (hM : IsMatching (rowVerts n) (positivityAdj n X) M) (z : Rat)
    (hz : minList (pairVals n X M) = some z) :
    posCnt n (subPerm X (sigmaOfPairs n M) z) < posCnt n X := by
  obtain ⟨hzpos, ⟨i, j, hi, hj, hp, hval⟩, _⟩ := coeff_spec hM z hz
  have hsub : ∀ a b : ℕ, a < n → b < n →
      matGet (subPerm X (sigmaOfPairs n M) z) a b =
        matGet X a b - if (sigmaOfPairs n M).getD a n = b then z else 0 :=
    fun a b ha hb => matGet_subPerm n X (sigmaOfPairs n M) z hsq (sigmaOfPairs_length n M) a b ha hb
  unfold posCnt
  apply card_lt_card
  rw [ssubset_iff_of_subset]
  · refine ⟨(⟨i, hi⟩, ⟨j, hj⟩), ?_, ?_⟩
    · simp only [mem_filter, mem_univ, true_and]
      rw [hval]; exact hzpos
    · simp only [mem_filter, mem_univ, true_and]
      rw [hsub i j hi hj, sigmaOfPairs_getD n M i hi, colOfPairs_eq hM i j hp, if_pos rfl, hval]
      simp
  · intro q hq
    simp only [mem_filter, mem_univ, true_and] at hq ⊢
    rw [hsub q.1 q.2 q.1.2 q.2.2] at hq
    split at hq
    · linarith
    · simpa using hq

end Step

/-- after the key check the positivity graph has an edge, so a maximum matching is not empty -/
theorem matching_ne_nil (n : ℕ) (X : List (List Rat)) (hn : 0 < n) (hk : posKeysOkB n X = true)
    (M : List (Int × Int))
    (hmax : ∀ M', IsMatching (rowVerts n) (positivityAdj n X) M' → M'.length ≤ M.length) : M ≠ [] := by
  simp only [posKeysOkB, Bool.and_eq_true, allLt_iff, List.any_eq_true, List.mem_range,
    decide_eq_true_eq] at hk
  obtain ⟨j, hj, hpos⟩ := hk.1 0 hn
  have hm : IsMatching (rowVerts n) (positivityAdj n X) [(((0 : ℕ) : Int), ((j + n : ℕ) : Int))] := by
    refine ⟨?_, ?_⟩
    · intro p hp
      simp only [List.mem_singleton] at hp
      subst hp
      exact ⟨(mem_rowVerts n _).mpr ⟨0, hn, rfl⟩,
        (mem_positivityAdj_row n X 0 hn _).mpr ⟨j, hj, hpos, rfl⟩⟩
    · simp only [List.map_cons, List.map_nil, List.cons_append, List.nil_append, List.nodup_cons,
        List.mem_singleton, List.not_mem_nil, not_false_eq_true, List.nodup_nil, and_true]
      push_cast
      omega
  have := hmax _ hm
  intro hnil
  rw [hnil] at this
  simp at this

/-- **totality of the mirrored loop**: with more rounds of fuel than positive entries, a square matrix either yields
a result (with at most as many terms as it has positive entries) or the `ValueError` of `check_bipartite_graph` -/
theorem bvnMirrorAux_total (n : ℕ) :
    ∀ (k : ℕ) (X : List (List Rat)), isSquareB n X = true → posCnt n X < k →
      (∃ out, bvnMirrorAux n k X = .ok out ∧ out.length ≤ posCnt n X ∧ ∀ e ∈ out, 0 < e.1) ∨
      bvnMirrorAux n k X = .error "ValueError" := by
  intro k
  induction k with
  | zero => intro X _ h; omega
  | succ k ih =>
    intro X hsq hcnt
    rw [bvnMirrorAux_succ n k X hsq]
    by_cases hz : isZeroB X = true
    · rw [if_pos hz]
      exact Or.inl ⟨[], rfl, by simp, by simp⟩
    · rw [if_neg hz]
      have hn : 0 < n := by
        rcases Nat.eq_zero_or_pos n with rfl | h
        · exact absurd (isZeroB_of_zero X hsq) hz
        · exact h
      by_cases hk : posKeysOkB n X = true
      · rw [hk]
        simp only [Bool.not_true, Bool.false_eq_true, if_false]
        obtain ⟨M, hM, hm, hmax⟩ := mcmMirror_posGraph n X hk
        rw [hM]
        simp only
        have hne := matching_ne_nil n X hn hk M hmax
        obtain ⟨z, hzm⟩ := minList_isSome (pairVals n X M) (by
          unfold pairVals
          intro h
          exact hne (List.map_eq_nil_iff.mp h))
        rw [hzm]
        simp only
        have hlt := posCnt_step hsq hm z hzm
        have hsq' := subPerm_square n X (sigmaOfPairs n M) z hsq (sigmaOfPairs_length n M)
        rcases ih _ hsq' (by omega) with ⟨out, hout, hlen, hpos⟩ | herr
        · rw [hout]
          refine Or.inl ⟨_, rfl, by simp only [List.length_cons]; omega, ?_⟩
          intro e he
          rcases List.mem_cons.mp he with rfl | he
          · exact (coeff_spec hm z hzm).1
          · exact hpos e he
        · rw [herr]
          exact Or.inr rfl
      · have hk' : posKeysOkB n X = false := by simpa using hk
        rw [hk']
        exact Or.inr rfl

/-- **totality of the mirror**: on every `n × n` matrix the loop stops within its `n² + 1` rounds; the only exception
is `ValueError` -/
theorem bvnMirror_total (n : ℕ) (X : List (List Rat)) (hsq : isSquareB n X = true) :
    (∃ out, bvnMirror n X = .ok out ∧ out.length ≤ n * n ∧ ∀ e ∈ out, 0 < e.1) ∨
    bvnMirror n X = .error "ValueError" := by
  unfold bvnMirror
  rw [if_pos hsq]
  have hle := posCnt_le n X
  rcases bvnMirrorAux_total n (n * n + 1) X hsq (by omega) with ⟨out, h1, h2, h3⟩ | h
  · exact Or.inl ⟨out, h1, by omega, h3⟩
  · exact Or.inr h

end Mirror

#print axioms Mirror.bvnMirror_total
