import Sck.Proofs.Lattice7
import Sck.Proofs.IrvingAlgoExamples

/-! # C03, package L7, part 8: corollaries and the non-vacuity instance for Stage 3

* Rule 1 of the sparse poset, at the spec level: of two rotations that share a man, the one in which he has the better
  wife is eliminated first on every path.
* the `assert`s of `Irving.scf` after Gale–Shapley never fail on strict complete inputs.
* with completeness of the sparse representation (`Remaining_j_complete_at`) the mirror never answers `check-exposed`
  / `not-exposed`.
* `Remaining_i_at`, `Remaining_j_at`, `FlowSide` hold on the 3×3 Latin-square instance. -/

namespace SMLattice

open Irving

variable {n : ℕ}

/-- **Rule 1, spec level**: rotations `σ` (exposed in `N`) and `σ'` (exposed in `N'`) share the man `c`, and `c` prefers
his wife in `N` to his wife in `N'`.  On every elimination path that starts at a stable `μ` with
`rank(μ c) ≤ rank(N c)` (e.g. the man-optimal matching) and eliminates `σ'`, the rotation `σ` is eliminated too. -/
theorem precedes_of_shared_man {P1 P2 : Fin n → Fin n → ℕ} (h1 : ∀ a, Function.Injective (P1 a))
    (h2 : ∀ b, Function.Injective (P2 b)) {N N' : Equiv.Perm (Fin n)} (hN : StableSM P1 P2 N)
    (hN' : StableSM P1 P2 N') {σ σ' : List (Fin n)} (hσ : ExposedRot P1 P2 N σ) (hσ' : ExposedRot P1 P2 N' σ')
    {c : Fin n} (hc : c ∈ σ) (hc' : c ∈ σ') (hlt : P1 c (N c) < P1 c (N' c))
    {A : List (List (Fin n))} {μ ν : Equiv.Perm (Fin n)} (hμ : StableSM P1 P2 μ) (hp : ElimPath P1 P2 μ A ν)
    (hstart : P1 c (μ c) ≤ P1 c (N c)) (h' : ∃ r ∈ pathPairs μ A, r ~r rotPairs N' σ') :
    ∃ r ∈ pathPairs μ A, r ~r rotPairs N σ := by
  have := (mem_path_iff h1 h2 hN' hσ' hc' A μ ν hμ hp).mp h'
  exact (mem_path_iff h1 h2 hN hσ hc A μ ν hμ hp).mpr ⟨hstart, by omega⟩

end SMLattice

namespace IrvingAlgo

open Irving SMLattice

/-- the three `assert`s of `Irving.scf` after Gale–Shapley cannot fail on inputs satisfying the precondition -/
theorem irvingPlan_no_assert (n : Nat) (P1 P2 : List (List Nat)) (V1 V2 : List (List Int)) :
    irvingPlan n P1 P2 V1 V2 ≠ .error "assert" := by
  intro h
  unfold irvingPlan at h
  split at h
  · exact absurd h (by simp)
  · rename_i hwf
    simp only [Bool.not_eq_true, Bool.not_eq_false'] at hwf
    split at h
    · exact absurd h (by simp)
    · rename_i M0 hmo
      obtain ⟨μ0, hrep, _, _⟩ := maleOptimal_spec hwf hmo
      have c1 : (M0.length == n) = true := by rw [hrep.length]; simp
      have c2 : nodupB (M0.map Prod.fst) = true :=
        (nodupB_iff _).mpr (hrep.fst_perm.nodup_iff.mpr List.nodup_range)
      have c3 : nodupB (M0.map Prod.snd) = true :=
        (nodupB_iff _).mpr (hrep.snd_perm.nodup_iff.mpr List.nodup_range)
      rw [c1, c2, c3] at h
      simp only [Bool.and_self, Bool.not_true, Bool.false_eq_true, if_false] at h
      split at h
      · exact absurd h (by simp)
      · split at h <;> exact absurd h (by simp)

theorem irving_no_assert (n : Nat) (P1 P2 : List (List Nat)) (V1 V2 : List (List Int)) :
    irving n P1 P2 V1 V2 ≠ .error "assert" := by
  intro h
  unfold irving at h
  split at h
  · rename_i e hplan
    simp only [Except.error.injEq] at h
    subst h
    exact irvingPlan_no_assert n P1 P2 V1 V2 hplan
  · split at h
    · exact absurd h (by simp)
    · split at h
      · exact absurd h (by simp)
      · split at h <;> exact absurd h (by simp)

/-- with completeness of the sparse representation, the chosen rotations pass the run-time check and
`eliminate_rotations` does not raise: the checked mirror never answers `check-exposed` or `not-exposed` -/
theorem irving_no_exposed_error_of_complete {n : Nat} {P1 P2 : List (List Nat)} {V1 V2 : List (List Int)}
    (hc : Remaining_j_complete_at n P1 P2) :
    irving n P1 P2 V1 V2 ≠ .error "check-exposed" ∧ irving n P1 P2 V1 V2 ≠ .error "not-exposed" := by
  have key : ∀ M0 rots, irvingPlan n P1 P2 V1 V2 = .ok (M0, rots) →
      exposedAllB P1 P2 M0 rots = true ∧ ∃ M, eliminateAll M0 rots = some M := by
    intro M0 rots hplan
    obtain ⟨hwf, hmo, _, _, _, all, elim, C, hall, hC, hrots⟩ := irvingPlan_ok n P1 P2 V1 V2 M0 rots hplan
    obtain ⟨hcl, _⟩ := closedSubset_closed _ all V1 V2 C hC
    have hnd := closedSubset_nodup _ all V1 V2 C hC
    -- members of `C` are `< k`: they have a successor list or are positive rotations; use closedness + range
    obtain ⟨f, S, _, hCeq⟩ := closedSubset_ok _ all V1 V2 C hC
    have hlt : ∀ x ∈ C, x < all.length := by
      -- the closure only adds keys `< k` to the positive rotations `< k`
      have hsub : ∀ x ∈ C, x ∈ List.range (posetGraph all (shortlists n P1 P2 (muOf n M0)).1 elim).length := by
        obtain ⟨_, _, hleast⟩ := closureOf_spec (posetGraph all (shortlists n P1 P2 (muOf n M0)).1 elim)
          (positivesOff (posetGraph all (shortlists n P1 P2 (muOf n M0)).1 elim).length
            (all.map (rotationWeight V1 V2)) S)
        rw [← hCeq] at hleast
        refine hleast _ ?_ ?_
        · intro x hx
          simp only [positivesOff, List.mem_filter] at hx
          exact hx.1
        · rintro rho ⟨x, hx, _⟩
          rw [List.mem_range]
          by_contra hge
          rw [List.getD_eq_getElem?_getD, List.getElem?_eq_none (by omega)] at hx
          simp at hx
      intro x hx
      have := List.mem_range.mp (hsub x hx)
      rwa [posetGraph_length] at this
    have hex := hc M0 all elim hmo hall C hnd hlt hcl
    rw [← hrots] at hex
    obtain ⟨μ0, hrep0, hst0, _⟩ := maleOptimal_spec hwf hmo
    obtain ⟨M', hM', _⟩ := eliminateAll_stable n P1 P2 (injRowsB_of_wfB n P1 P2 V1 V2 hwf) rots M0 hrep0.bounded
      (hrep0.snd_perm.nodup_iff.mpr List.nodup_range) ((stablePairs_iff hrep0).mpr hst0) hex
    exact ⟨hex, M', hM'⟩
  constructor
  · intro h
    unfold irving at h
    split at h
    · rename_i e hplan
      simp only [Except.error.injEq] at h
      subst h
      -- `irvingPlan` never answers "check-exposed"
      unfold irvingPlan at hplan
      split at hplan
      · exact absurd hplan (by simp)
      · split at hplan
        · exact absurd hplan (by simp)
        · split at hplan
          · exact absurd hplan (by simp)
          · dsimp only at hplan
            split at hplan
            · exact absurd hplan (by simp)
            · split at hplan <;> exact absurd hplan (by simp)
    · rename_i M0 rots hplan
      obtain ⟨hex, M', hM'⟩ := key M0 rots hplan
      rw [hex, hM'] at h
      split at h
      · exact absurd h (by simp)
      · exact absurd h (by simp)
  · intro h
    unfold irving at h
    split at h
    · rename_i e hplan
      simp only [Except.error.injEq] at h
      subst h
      unfold irvingPlan at hplan
      split at hplan
      · exact absurd hplan (by simp)
      · split at hplan
        · exact absurd hplan (by simp)
        · split at hplan
          · exact absurd hplan (by simp)
          · dsimp only at hplan
            split at hplan
            · exact absurd hplan (by simp)
            · split at hplan <;> exact absurd hplan (by simp)
    · rename_i M0 rots hplan
      obtain ⟨hex, M', hM'⟩ := key M0 rots hplan
      rw [hex, hM'] at h
      split at h
      · exact absurd h (by simp)
      · exact absurd h (by simp)

end IrvingAlgo

/-! ### the 3×3 Latin-square instance satisfies the remaining obligations -/

namespace IrvingAlgo

open Irving SMLattice

def exM0 : List Pair := [(0, 0), (1, 1), (2, 2)]
def exAll : List (List Pair) := [[(0, 0), (1, 1), (2, 2)], [(0, 1), (1, 2), (2, 0)]]
def exElim : List (Pair × Nat) := [((0, 0), 0), ((1, 1), 0), ((2, 2), 0), ((0, 1), 1), ((1, 2), 1), ((2, 0), 1)]

theorem exLatin_allRotations :
    allRotations (shortlists 3 exL1 exL2 (muOf 3 exM0)).1 (shortlists 3 exL1 exL2 (muOf 3 exM0)).2
      = some (exAll, exElim) := by decide +kernel

theorem exLatin_posetGraph : posetGraph exAll (shortlists 3 exL1 exL2 (muOf 3 exM0)).1 exElim = [[1], []] := by
  decide +kernel

/-- reduce a statement about "whatever the mirror computes" to the concrete values -/
theorem exLatin_cases {motive : List Pair → List (List Pair) → List (Pair × Nat) → Prop}
    (h : motive exM0 exAll exElim) :
    ∀ M0 all elim, maleOptimal 3 exL1 exL2 = some M0 →
      allRotations (shortlists 3 exL1 exL2 (muOf 3 M0)).1 (shortlists 3 exL1 exL2 (muOf 3 M0)).2 = some (all, elim) →
      motive M0 all elim := by
  intro M0 all elim hmo hall
  rw [exLatin_maleOptimal] at hmo
  obtain rfl : exM0 = M0 := Option.some.inj hmo
  rw [exLatin_allRotations] at hall
  obtain ⟨rfl, rfl⟩ := Prod.mk.inj (Option.some.inj hall)
  exact h

theorem exLatin_remaining_i : Remaining_i_at 3 exL1 exL2 := by
  refine exLatin_cases (motive := fun M0 all _ => exposedAllB exL1 exL2 M0 all = true ∧ (∀ r ∈ all, r ≠ []) ∧
    ∃ Mz, eliminateAll M0 all = some Mz ∧ ∀ rho, rho ≠ [] → ¬ Exposed exL1 exL2 Mz rho) ?_
  refine ⟨by decide +kernel, by decide, [(0, 2), (1, 0), (2, 1)], by decide +kernel, ?_⟩
  -- in the woman-optimal matching every woman has her first choice: nobody is preferred to her husband
  intro rho hne hex
  have hlen : 0 < rho.length := List.length_pos_iff.mpr hne
  obtain ⟨h0, hpref, _⟩ := hex.2 0 hlen
  have h1 := (hex.2 ((0 + 1) % rho.length) (Nat.mod_lt _ hlen)).1
  have key : ∀ p ∈ ([(0, 2), (1, 0), (2, 1)] : List Pair), ∀ q ∈ ([(0, 2), (1, 0), (2, 1)] : List Pair),
      ¬ rankOf exL2 q.2 p.1 < rankOf exL2 q.2 q.1 := by decide
  exact key _ h0 _ h1 hpref

/-- the two stable matchings in which the two rotations are exposed -/
def exm0 : Equiv.Perm (Fin 3) := ⟨![0, 1, 2], ![0, 1, 2], by decide, by decide⟩
def exm1 : Equiv.Perm (Fin 3) := ⟨![1, 2, 0], ![2, 0, 1], by decide, by decide⟩

theorem exLatin_remaining_j : Remaining_j_at 3 exL1 exL2 := by
  refine exLatin_cases (motive := fun M0 all elim => ∀ B, exposedAllB exL1 exL2 M0 B = true → (∀ r ∈ B, r ≠ []) →
      ∀ x y, y ∈ (posetGraph all (shortlists 3 exL1 exL2 (muOf 3 M0)).1 elim).getD x [] →
        (∃ r ∈ B, r ~r all.getD y []) → ∃ r ∈ B, r ~r all.getD x []) ?_
  intro B hB hne x y hy hyB
  rw [exLatin_posetGraph] at hy
  -- the only edge is `0 → 1`
  have hxy : x = 0 ∧ y = 1 := by
    match x, hy with
    | 0, hy => simp at hy; exact ⟨rfl, hy⟩
    | 1, hy => simp at hy
    | x + 2, hy => simp at hy
  obtain ⟨rfl, rfl⟩ := hxy
  have hwf : wfB 3 exL1 exL2 [[0,0,0],[0,0,0],[0,0,0]] [[0,0,0],[0,0,0],[0,0,0]] = true := by decide +kernel
  obtain ⟨h1, h2⟩ := rk_injective hwf
  have hrep : Rep exM0 exm0 := by
    show List.Perm _ _
    decide
  have hst0 : StableSM (rk 3 exL1) (rk 3 exL2) exm0 := by unfold StableSM; decide
  have hst1 : StableSM (rk 3 exL1) (rk 3 exL2) exm1 := by unfold StableSM; decide
  have hex0 : ExposedRot (rk 3 exL1) (rk 3 exL2) exm0 [0, 1, 2] := by unfold ExposedRot IsSucc Cand; decide
  have hex1 : ExposedRot (rk 3 exL1) (rk 3 exL2) exm1 [0, 1, 2] := by unfold ExposedRot IsSucc Cand; decide
  obtain ⟨rotsB, ν, _, hpB, hppB, _, _⟩ := path_unbridge h1 B exM0 exm0 hrep hst0 hne hB
  have e0 : exAll.getD 0 [] = rotPairs exm0 [0, 1, 2] := by decide
  have e1 : exAll.getD 1 [] = rotPairs exm1 [0, 1, 2] := by decide
  rw [e1] at hyB
  rw [e0, ← hppB]
  rw [← hppB] at hyB
  exact precedes_of_shared_man h1 h2 hst0 hst1 hex0 hex1 (c := 0) (by decide) (by decide) (by decide) hst0 hpB
    (Nat.le_refl _) hyB

theorem exLatin_flowSide : FlowSide 3 exL1 exL2 [[0,0,0],[0,0,0],[0,0,0]] [[0,1,5],[5,0,1],[1,5,0]] := by
  refine exLatin_cases (motive := fun M0 all elim =>
    netWfB (closedNet (posetGraph all (shortlists 3 exL1 exL2 (muOf 3 M0)).1 elim)
      (all.map (rotationWeight [[0,0,0],[0,0,0],[0,0,0]] [[0,1,5],[5,0,1],[1,5,0]]))) = true ∧
    ∑ i ∈ Finset.range (posetGraph all (shortlists 3 exL1 exL2 (muOf 3 M0)).1 elim).length,
      max (-((all.map (rotationWeight [[0,0,0],[0,0,0],[0,0,0]] [[0,1,5],[5,0,1],[1,5,0]])).getD i 0)) 0 < maxsize) ?_
  rw [exLatin_posetGraph]
  exact ⟨by decide +kernel, by decide +kernel⟩

end IrvingAlgo

namespace IrvingAlgo

/-- the reduction, quantified over all instances -/
theorem irving_optimal_of_remaining
    (hi : ∀ n P1 P2 V1 V2, wfB n P1 P2 V1 V2 = true → Remaining_i_at n P1 P2)
    (hj : ∀ n P1 P2 V1 V2, wfB n P1 P2 V1 V2 = true → Remaining_j_at n P1 P2)
    {n : Nat} {P1 P2 : List (List Nat)} {V1 V2 : List (List Int)} (hflow : FlowSide n P1 P2 V1 V2)
    {M : List Irving.Pair} (h : irving n P1 P2 V1 V2 = .ok M) :
    Brute.optStable n P1 P2 V1 V2 = some (Irving.matchingValue V1 V2 M) := by
  obtain ⟨_, _, _, M0, rots, hplan, _⟩ := irving_sound' n P1 P2 V1 V2 M h
  have hwf := (irvingPlan_ok n P1 P2 V1 V2 M0 rots hplan).1
  exact irving_optimal_of_remaining_at (hi n P1 P2 V1 V2 hwf) (hj n P1 P2 V1 V2 hwf) hflow h

end IrvingAlgo

open IrvingAlgo in
/-- **Remaining obligation (i)**: on every strict complete instance, the mirror's list of all rotations is a maximal
chain of eliminations from the male-optimal matching (`Remaining_i_at`) -/
def Remaining_i : Prop :=
  ∀ n P1 P2 V1 V2, wfB n P1 P2 V1 V2 = true → Remaining_i_at n P1 P2

open IrvingAlgo in
/-- **Remaining obligation (j)** (soundness of the edges of the sparse poset graph, Rules 1 and 2): on every strict
complete instance, `Remaining_j_at` -/
def Remaining_j : Prop :=
  ∀ n P1 P2 V1 V2, wfB n P1 P2 V1 V2 = true → Remaining_j_at n P1 P2

open IrvingAlgo in
/-- (j), completeness of the sparse representation — needed only for totality of the checked mirror -/
def Remaining_j_complete : Prop :=
  ∀ n P1 P2 V1 V2, wfB n P1 P2 V1 V2 = true → Remaining_j_complete_at n P1 P2
