import Sck.Proofs.LatticeJ4

/-! # C03, package L8b, part 5: the level loop only records good entries in `eliminating_rotations_of_pair`, and it records
every pair that leaves the women's lists -/

namespace IrvingAlgo.J

open Irving SMLattice SMLattice.J

theorem eliminateAll_append (M : List Pair) (A B : List (List Pair)) :
    eliminateAll M (A ++ B) = (eliminateAll M A).bind (fun M' => eliminateAll M' B) := by
  induction A generalizing M with
  | nil => rfl
  | cons r A ih =>
    simp only [List.cons_append, eliminateAll]
    cases eliminate M r with
    | none => rfl
    | some M' => exact ih M'

section
variable {n : Nat} {P1 P2 : List (List Nat)} {M0 : List Pair} {μ0 : Equiv.Perm (Fin n)}

/-- the rotations of one level, eliminated one after the other -/
theorem levelFold_inv (C : JCtx n P1 P2 M0 μ0) {all : List (List Pair)} :
    ∀ (rots : List (List Pair)) (st : LvSt) (ans suf : List (List Pair)) (M : List Pair) (μ : Equiv.Perm (Fin n)),
      Rep M μ → StableSM (rk n P1) (rk n P2) μ →
      L2Inv P2 (shortlists n P1 P2 (muOf n M0)).2 (husb μ) st.l2 →
      DictAll (fun (p : Pair) pi => ElimOK P2 all p.1 p.2 pi) st.elim →
      EIInv (shortlists n P1 P2 (muOf n M0)).2 st → st.cnt = ans.length →
      all = ans ++ (rots ++ suf) → exposedAllB P1 P2 M (rots ++ suf) = true → (∀ r ∈ rots, r ≠ []) →
      ∃ M' μ', Rep M' μ' ∧ StableSM (rk n P1) (rk n P2) μ' ∧
        L2Inv P2 (shortlists n P1 P2 (muOf n M0)).2 (husb μ') (rots.foldl elimRot st).l2 ∧
        DictAll (fun (p : Pair) pi => ElimOK P2 all p.1 p.2 pi) (rots.foldl elimRot st).elim ∧
        EIInv (shortlists n P1 P2 (muOf n M0)).2 (rots.foldl elimRot st) ∧
        (rots.foldl elimRot st).cnt = (ans ++ rots).length ∧ exposedAllB P1 P2 M' suf = true ∧
        eliminateAll M rots = some M' := by
  intro rots
  induction rots with
  | nil =>
    intro st ans suf M μ hM hμ hinv hel hei hcnt _ hexp _
    exact ⟨M, μ, hM, hμ, hinv, hel, hei, by simpa using hcnt, by simpa using hexp, rfl⟩
  | cons rho rest ih =>
    intro st ans suf M μ hM hμ hinv hel hei hcnt hall hexp hne
    rw [List.cons_append] at hexp
    simp only [exposedAllB, Bool.and_eq_true] at hexp
    obtain ⟨hex1, hex2⟩ := hexp
    obtain ⟨ρ, rfl, hexρ⟩ := exposed_unbridge C.h1 hM hμ (hne _ List.mem_cons_self) ((exposedB_iff _ _ _ _).mp hex1)
    obtain ⟨M1, hM1, hrep1⟩ := eliminate_bridge hM hexρ.1 (exposedRot_move hexρ)
    rw [hM1] at hex2
    have hcur : all.getD st.cnt [] = rotPairs μ ρ := by
      rw [hall, hcnt, List.getD_eq_getElem?_getD, List.getElem?_append_right (Nat.le_refl _)]
      simp
    obtain ⟨i1, i2, i3, i4, _, _⟩ := elimRot_inv C hμ hexρ st hinv hel hei hcur
    obtain ⟨M', μ', r1, r2, r3, r4, r5, r6, r7, r8⟩ := ih (elimRot st (rotPairs μ ρ)) (ans ++ [rotPairs μ ρ]) suf M1
      (elim μ ρ) hrep1 (exposed_elim_stable C.h1 hμ hexρ).1 i1 i2 i3 (by rw [i4, hcnt]; simp) (by rw [hall]; simp) hex2
      (fun r hr => hne r (List.mem_cons_of_mem _ hr))
    refine ⟨M', μ', r1, r2, r3, r4, r5, ?_, r7, ?_⟩
    · rw [List.foldl_cons, r6]; simp
    · simp only [eliminateAll, hM1]; exact r8

/-- the level loop extends its accumulator -/
theorem levelLoop_prefix : ∀ (fuel : Nat) (st : LvSt) (ans : List (List Pair)) (res : List (List Pair) × List (Pair × Nat)),
    levelLoop fuel st ans = some res → ∃ suf, res.1 = ans ++ suf := by
  intro fuel
  induction fuel with
  | zero => intro st ans res h; simp [levelLoop] at h
  | succ fuel ih =>
    intro st ans res h
    simp only [levelLoop] at h
    split at h
    · refine ⟨[], ?_⟩
      rw [← Option.some.inj h]; simp
    · obtain ⟨suf, hs⟩ := ih _ _ _ h
      exact ⟨_, by rw [hs, List.append_assoc]⟩

/-- what the level loop guarantees about its answer `(all, elim)`, started in a state that satisfies the invariants for
the stable matching `μ` (represented by `M`) with `all = ans ++ suf`, `suf` a run from `M`: the run ends in a stable
matching `μz`; all entries of `elim` are `ElimOK`; every pair `(m, w)` of the initial shortlists such that `w` strictly
prefers her `μz`-husband to `m` has an entry -/
theorem levelLoop_inv (C : JCtx n P1 P2 M0 μ0) {all : List (List Pair)} {elim : List (Pair × Nat)} :
    ∀ (fuel : Nat) (st : LvSt) (ans suf : List (List Pair)) (M : List Pair) (μ : Equiv.Perm (Fin n)),
      Rep M μ → StableSM (rk n P1) (rk n P2) μ →
      L2Inv P2 (shortlists n P1 P2 (muOf n M0)).2 (husb μ) st.l2 →
      DictAll (fun (p : Pair) pi => ElimOK P2 all p.1 p.2 pi) st.elim →
      EIInv (shortlists n P1 P2 (muOf n M0)).2 st → st.cnt = ans.length →
      all = ans ++ suf → exposedAllB P1 P2 M suf = true → (∀ r ∈ suf, r ≠ []) →
      levelLoop fuel st ans = some (all, elim) →
      ∃ Mz μz, eliminateAll M suf = some Mz ∧ Rep Mz μz ∧ StableSM (rk n P1) (rk n P2) μz ∧
        DictAll (fun (p : Pair) pi => ElimOK P2 all p.1 p.2 pi) elim ∧
        ∀ m w, m ∈ (shortlists n P1 P2 (muOf n M0)).2.getD w [] → rankOf P2 w (husb μz w) < rankOf P2 w m →
          (dictGet? elim (m, w)).isSome := by
  intro fuel
  induction fuel with
  | zero => intro st ans suf M μ _ _ _ _ _ _ _ _ _ h; simp [levelLoop] at h
  | succ fuel ih =>
    intro st ans suf M μ hM hμ hinv hel hei hcnt hall hexp hne h
    simp only [levelLoop] at h
    split at h
    · have := Prod.mk.inj (Option.some.inj h)
      have hsuf : suf = [] := by
        have h1 := this.1
        rw [hall] at h1
        exact List.self_eq_append_right.mp h1
      subst hsuf
      refine ⟨M, μ, rfl, hM, hμ, by rw [← this.2]; exact hel, ?_⟩
      intro m w hm hlt
      rw [← this.2]
      refine hei m w hm ?_
      intro hmem
      have := ((hinv w).2 m).mp hmem
      omega
    · obtain ⟨suf', hs⟩ := levelLoop_prefix _ _ _ _ h
      simp only at hs
      have hsuf : suf = findRotations st.l1 st.l2 ++ suf' := by
        rw [hall, List.append_assoc] at hs
        exact List.append_cancel_left hs
      subst hsuf
      obtain ⟨M', μ', r1, r2, r3, r4, r5, r6, r7, r8⟩ := levelFold_inv C (findRotations st.l1 st.l2) st ans suf' M μ hM hμ
        hinv hel hei hcnt hall hexp (fun r hr => hne r (List.mem_append_left _ hr))
      obtain ⟨Mz, μz, z1, z2, z3, z4, z5⟩ := ih _ (ans ++ findRotations st.l1 st.l2) suf' M' μ' r1 r2 (by exact r3)
        (by exact r4) (by exact r5) (by exact r6) (by rw [hall, List.append_assoc]) r7
        (fun r hr => hne r (List.mem_append_right _ hr)) h
      refine ⟨Mz, μz, ?_, z2, z3, z4, z5⟩
      rw [eliminateAll_append, r8]; exact z1

/-- **what `find_all_rotations_and_eliminations` guarantees** if its list `all` is a run from the male-optimal matching -/
theorem allRotations_elim_facts (C : JCtx n P1 P2 M0 μ0) {all : List (List Pair)} {elim : List (Pair × Nat)}
    (hall : allRotations (shortlists n P1 P2 (muOf n M0)).1 (shortlists n P1 P2 (muOf n M0)).2 = some (all, elim))
    (hexp : exposedAllB P1 P2 M0 all = true) (hne : ∀ r ∈ all, r ≠ []) :
    ∃ Mz μz, eliminateAll M0 all = some Mz ∧ Rep Mz μz ∧ StableSM (rk n P1) (rk n P2) μz ∧
      DictAll (fun (p : Pair) pi => ElimOK P2 all p.1 p.2 pi) elim ∧
      ∀ m w, m ∈ (shortlists n P1 P2 (muOf n M0)).2.getD w [] → rankOf P2 w (husb μz w) < rankOf P2 w m →
        (dictGet? elim (m, w)).isSome := by
  unfold allRotations at hall
  exact levelLoop_inv C _ _ [] all M0 μ0 C.rep C.st0 (l2Inv_init C) (fun e he => by simp at he)
    (fun m w _ hnot => absurd ‹_› hnot) rfl (by simp) hexp hne hall

/-- **`eliminating_rotations_of_pair` is good**: if the mirror's `all` is a run from the male-optimal matching, every entry
`(m, w) ↦ π` of the dict satisfies: `w` is a woman of rotation number `π`, and she likes `m` at least as much as her husband
in that rotation -/
theorem allRotations_elim_good (C : JCtx n P1 P2 M0 μ0) {all : List (List Pair)} {elim : List (Pair × Nat)}
    (hall : allRotations (shortlists n P1 P2 (muOf n M0)).1 (shortlists n P1 P2 (muOf n M0)).2 = some (all, elim))
    (hexp : exposedAllB P1 P2 M0 all = true) (hne : ∀ r ∈ all, r ≠ []) :
    DictAll (fun (p : Pair) pi => ElimGood P2 all p.1 p.2 pi) elim := by
  obtain ⟨_, _, _, _, _, h, _⟩ := allRotations_elim_facts C hall hexp hne
  exact fun e he => (h e he).1

end

end IrvingAlgo.J

#print axioms IrvingAlgo.J.allRotations_elim_facts
