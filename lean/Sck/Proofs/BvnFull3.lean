import Sck.Proofs.BvnFull2
import Sck.Proofs.Eat10

/-! C07 end to end: the eating matrix of a well-formed profile is a balanced matrix with common sum `1`,
so the Birkhoff–von Neumann loop with the real oracle decomposes it. -/

open Finset

/-- `Eat.mget` and `matGet` are the same entry accessor -/
theorem mget_eq_matGet (X : List (List Rat)) (i j : ℕ) : Eat.mget X i j = matGet X i j := rfl

theorem eat_balanced {n : ℕ} {P : List (List ℕ)} {speeds : List Rat} (hn : 0 < n)
    (hwf : Eat.eatWfB n P speeds = true) :
    ∃ M, Eat.eat n P speeds = some M ∧ isBalancedB n M = some 1 := by
  have hw := Eat.eatWfB_sound hwf
  obtain ⟨evs, stf, he, _⟩ := Eat.eatLog_run hw
  obtain ⟨hdims, hnn, hrow, hcol, _, _⟩ := Eat.eatLog_spec hw he
  refine ⟨stf.mat, by unfold Eat.eat; rw [he]; rfl, ?_⟩
  have hsq : isSquareB n stf.mat = true := by
    rw [isSquareB_iff]
    constructor
    · rw [hdims]; simp
    · intro r hr
      rw [hdims] at hr
      obtain ⟨i, _, rfl⟩ := List.mem_map.mp hr
      simp
  apply balanced_isBalancedB hn _ _ hsq
  refine ⟨fun i j => hnn i i.2 j j.2, fun i => ?_, fun j => ?_⟩
  · have := hrow i i.2
    rw [Finset.sum_range] at this
    exact this
  · have := hcol j j.2
    rw [Finset.sum_range] at this
    exact this

/-- a decomposition whose coefficients sum to `1` has at least one term -/
theorem out_nonempty_of_sum_one (out : List (Rat × List ℕ)) (h : sumList (out.map (·.1)) = 1) :
    0 < out.length := by
  rcases out with _ | ⟨e, out⟩
  · simp [sumList] at h
  · simp
