import Sck.Proofs.IrvingAlgo
import Sck.Proofs.IrvingAlgoLists
import Sck.Proofs.GsHosp

/-! Stage 1 of the mirror of `Irving.scf` and the C01/C02 theorems about `gsRes`: on inputs satisfying the
precondition `wfB`, Gale–Shapley terminates within its fuel and the male-optimal matching handed to the later
stages is bounded and stable — so the run-time check `check-matching` of `IrvingAlgo.irving` never fires. -/

namespace IrvingAlgo

open Irving

theorem wfB_iff (n : Nat) (P1 P2 : List (List Nat)) (V1 V2 : List (List Int)) :
    wfB n P1 P2 V1 V2 = true ↔
      (P1.length = n ∧ P2.length = n ∧ V1.length = n ∧ V2.length = n) ∧
      (∀ row ∈ P1, permRowB n row = true) ∧ (∀ row ∈ P2, permRowB n row = true) ∧
      (∀ r ∈ V1, r.length = n) ∧ (∀ r ∈ V2, r.length = n) := by
  simp [wfB, and_assoc]

theorem keyOf_map_some (row : List Nat) (a : Nat) (ha : a < row.length) :
    keyOf (row.map some) a = row[a] := by
  unfold keyOf
  rw [List.getD_eq_getElem?_getD, List.getElem?_map, List.getElem?_eq_getElem ha]
  rfl

theorem strictRow_map_some (row : List Nat) (hnd : row.Nodup) : StrictRow (row.map some) := by
  intro a b ha hb hk
  have ha' : a < row.length := by simpa using ((mem_plistOfRow _ a).mp ha).1
  have hb' : b < row.length := by simpa using ((mem_plistOfRow _ b).mp hb).1
  rw [keyOf_map_some row a ha', keyOf_map_some row b hb'] at hk
  exact (List.Nodup.getElem_inj_iff hnd).mp hk

/-- the instance handed to Gale–Shapley is well formed -/
theorem hrOf_wf2 (n : Nat) (P1 P2 : List (List Nat)) (V1 V2 : List (List Int))
    (hwf : wfB n P1 P2 V1 V2 = true) : (hrOf n P1 P2).WF2 := by
  obtain ⟨⟨l1, l2, _, _⟩, r1, r2, _, _⟩ := (wfB_iff n P1 P2 V1 V2).mp hwf
  refine ⟨by simpa [hrOf] using l1, by simpa [hrOf] using l2, by simp [hrOf], ?_, ?_, ?_, ?_⟩
  · intro row hr
    obtain ⟨r, hr', rfl⟩ := List.mem_map.mp hr
    rw [List.length_map]; exact ((permRowB_iff n r).mp (r1 r hr')).1
  · intro row hr
    obtain ⟨r, hr', rfl⟩ := List.mem_map.mp hr
    rw [List.length_map]; exact ((permRowB_iff n r).mp (r2 r hr')).1
  · intro row hr
    obtain ⟨r, hr', rfl⟩ := List.mem_map.mp hr
    exact strictRow_map_some r ((permRowB_iff n r).mp (r1 r hr')).2.2
  · intro row hr
    obtain ⟨r, hr', rfl⟩ := List.mem_map.mp hr
    exact strictRow_map_some r ((permRowB_iff n r).mp (r2 r hr')).2.2

/-- ranks of the mapped matrix, inside the square -/
theorem rankAt_map_some (n : Nat) (P : List (List Nat)) (hl : P.length = n)
    (hrow : ∀ row ∈ P, permRowB n row = true) (i j : Nat) (hi : i < n) (hj : j < n) :
    rankAt (P.map (fun r => r.map some)) i j = some (rankOf P i j) := by
  have hi' : i < P.length := by omega
  have hlen : P[i].length = n := ((permRowB_iff n _).mp (hrow _ (List.getElem_mem hi'))).1
  have e1 : (P.map (fun r => r.map some)).getD i [] = P[i].map some := by
    rw [List.getD_eq_getElem?_getD, List.getElem?_map, List.getElem?_eq_getElem hi']; rfl
  have e2 : P.getD i [] = P[i] := by
    rw [List.getD_eq_getElem?_getD, List.getElem?_eq_getElem hi']; rfl
  have e3 : (P[i].map some).getD j none = some P[i][j] := by
    rw [List.getD_eq_getElem?_getD, List.getElem?_map, List.getElem?_eq_getElem (by omega)]; rfl
  have e4 : P[i].getD j 0 = P[i][j] := by
    rw [List.getD_eq_getElem?_getD, List.getElem?_eq_getElem (by omega)]; rfl
  unfold rankAt rankOf
  rw [e1, e2, e3, e4]

/-- Gale–Shapley does not run out of fuel on well-formed inputs -/
theorem maleOptimal_isSome (n : Nat) (P1 P2 : List (List Nat)) (V1 V2 : List (List Int))
    (hwf : wfB n P1 P2 V1 V2 = true) : ∃ M0, maleOptimal n P1 P2 = some M0 := by
  obtain ⟨mu, hmu⟩ := gsRes_terminates _ (hrOf_wf2 n P1 P2 V1 V2 hwf)
  exact ⟨_, by unfold maleOptimal; rw [hmu]; rfl⟩

/-- **the male-optimal matching handed to the later stages is bounded and stable** (by C01 for `gsRes`) -/
theorem maleOptimal_stable (n : Nat) (P1 P2 : List (List Nat)) (V1 V2 : List (List Int))
    (hwf : wfB n P1 P2 V1 V2 = true) (M0 : List Pair) (h : maleOptimal n P1 P2 = some M0) :
    (∀ p ∈ M0, p.1 < n ∧ p.2 < n) ∧ StablePairs P1 P2 M0 := by
  have hwf2 := hrOf_wf2 n P1 P2 V1 V2 hwf
  obtain ⟨⟨l1, l2, _, _⟩, r1, r2, _, _⟩ := (wfB_iff n P1 P2 V1 V2).mp hwf
  unfold maleOptimal at h
  rw [Option.map_eq_some_iff] at h
  obtain ⟨mu, hmu, rfl⟩ := h
  obtain ⟨hfeas, hnb⟩ := gsRes_stable _ hwf2 mu hmu
  have hbd : ∀ r w, (r, w) ∈ mu → r < n ∧ w < n := fun r w hm => hfeas.bounds hwf2 hm
  have hmem : ∀ p, p ∈ (List.range n).flatMap (fun w => mu.filter (fun e => e.2 == w)) → p ∈ mu := by
    intro p hp
    obtain ⟨w, _, hpw⟩ := List.mem_flatMap.mp hp
    exact (List.mem_filter.mp hpw).1
  refine ⟨fun p hp => hbd p.1 p.2 (hmem p hp), ?_⟩
  intro p hp q hq ⟨hb1, hb2⟩
  have hp' := hmem p hp
  have hq' := hmem q hq
  obtain ⟨hp1, hp2⟩ := hbd p.1 p.2 hp'
  obtain ⟨hq1, hq2⟩ := hbd q.1 q.2 hq'
  refine hnb p.1 q.2 ⟨hp1, rankOf P1 p.1 q.2, rankOf P2 q.2 p.1, ?_, ?_, ?_, ?_, ?_⟩
  · exact rankAt_map_some n P1 l1 r1 _ _ hp1 hq2
  · exact rankAt_map_some n P2 l2 r2 _ _ hq2 hp1
  · intro hm
    have := hfeas.resOnce p.1 q.2 p.2 hm hp'
    rw [this] at hb1
    exact Nat.lt_irrefl _ hb1
  · exact Or.inr ⟨p.2, rankOf P1 p.1 p.2, hp', rankAt_map_some n P1 l1 r1 _ _ hp1 hp2, hb1⟩
  · exact Or.inr ⟨q.1, rankOf P2 q.2 q.1, hq', rankAt_map_some n P2 l2 r2 _ _ hq2 hq1, hb2⟩

/-- strictness of the men's preferences follows from the precondition -/
theorem injRowsB_of_wfB (n : Nat) (P1 P2 : List (List Nat)) (V1 V2 : List (List Int))
    (hwf : wfB n P1 P2 V1 V2 = true) : injRowsB n P1 = true := by
  obtain ⟨⟨l1, _, _, _⟩, r1, _, _, _⟩ := (wfB_iff n P1 P2 V1 V2).mp hwf
  rw [injRowsB_iff]
  intro b a a' hb ha ha' he
  have hb' : b < P1.length := by omega
  obtain ⟨hlen, _, hnd⟩ := (permRowB_iff n _).mp (r1 _ (List.getElem_mem hb'))
  unfold rankOf at he
  rw [List.getD_eq_getElem?_getD (l := P1), List.getElem?_eq_getElem hb'] at he
  simp only [Option.getD_some] at he
  rw [List.getD_eq_getElem?_getD, List.getElem?_eq_getElem (by omega),
    List.getD_eq_getElem?_getD, List.getElem?_eq_getElem (by omega)] at he
  exact (List.Nodup.getElem_inj_iff hnd).mp (by simpa using he)

/-- **the run-time check `check-matching` of `irving` never fires**: whenever the plan succeeds, the three
conditions it tests hold -/
theorem irvingPlan_checks (n : Nat) (P1 P2 : List (List Nat)) (V1 V2 : List (List Int)) (M0 : List Pair)
    (rots : List (List Pair)) (h : irvingPlan n P1 P2 V1 V2 = .ok (M0, rots)) :
    (injRowsB n P1 && boundedB n M0 && stablePairsB P1 P2 M0) = true := by
  obtain ⟨hwf, hmo, _⟩ := irvingPlan_ok n P1 P2 V1 V2 M0 rots h
  obtain ⟨hbd, hst⟩ := maleOptimal_stable n P1 P2 V1 V2 hwf M0 hmo
  rw [Bool.and_eq_true, Bool.and_eq_true]
  exact ⟨⟨injRowsB_of_wfB n P1 P2 V1 V2 hwf, (boundedB_iff n M0).mpr hbd⟩, (stablePairsB_iff _ _ _).mpr hst⟩

/-- the error answers of the checked mirror that have no counterpart in the Python: `gs-fuel` and
`check-matching` are impossible -/
theorem irving_no_spurious (n : Nat) (P1 P2 : List (List Nat)) (V1 V2 : List (List Int)) :
    irving n P1 P2 V1 V2 ≠ .error "gs-fuel" ∧ irving n P1 P2 V1 V2 ≠ .error "check-matching" := by
  constructor
  · intro h
    unfold irving at h
    split at h
    · rename_i e hplan
      simp only [Except.error.injEq] at h
      subst h
      unfold irvingPlan at hplan
      split at hplan
      · exact absurd hplan (by simp)
      · rename_i hwf
        simp only [Bool.not_eq_true, Bool.not_eq_false'] at hwf
        obtain ⟨M0, hM0⟩ := maleOptimal_isSome n P1 P2 V1 V2 hwf
        rw [hM0] at hplan
        dsimp only at hplan
        split at hplan
        · exact absurd hplan (by simp)
        · split at hplan
          · exact absurd hplan (by simp)
          · split at hplan
            · exact absurd hplan (by simp)
            · exact absurd hplan (by simp)
    · split at h
      · exact absurd h (by simp)
      · split at h
        · exact absurd h (by simp)
        · split at h <;> exact absurd h (by simp)
  · intro h
    unfold irving at h
    split at h
    · rename_i e hplan
      simp only [Except.error.injEq] at h
      subst h
      unfold irvingPlan at hplan
      split at hplan
      · exact absurd hplan (by simp)
      · split at hplan
        · exact absurd hplan (by simp)
        · split at hplan
          · exact absurd hplan (by simp)
          · dsimp only at hplan
            split at hplan
            · exact absurd hplan (by simp)
            · split at hplan
              · exact absurd hplan (by simp)
              · exact absurd hplan (by simp)
    · rename_i M0 rots hplan
      rw [irvingPlan_checks n P1 P2 V1 V2 M0 rots hplan] at h
      simp only [Bool.not_true, Bool.false_eq_true, if_false] at h
      split at h
      · exact absurd h (by simp)
      · split at h <;> exact absurd h (by simp)

end IrvingAlgo

#print axioms IrvingAlgo.maleOptimal_stable
#print axioms IrvingAlgo.irving_no_spurious
