import Sck.Proofs.LatticeJ13

/-! # C03, package L8b, part 14: `find_rotations` only finds rotations that are exposed in the current matching

`outEdge` is the next-man function of the current stable matching (`outEdge_spec`); `walk` follows it and keeps a linked,
duplicate-free list of freshly visited men; `rotStep` cuts out a cycle.  Rotations found in the same call are disjoint. -/

namespace IrvingAlgo.J

open Irving SMLattice SMLattice.J

section
variable {n : Nat} {P1 P2 : List (List Nat)} {M0 : List Pair} {μ0 : Equiv.Perm (Fin n)} {C : JCtx n P1 P2 M0 μ0}

/-- a man with a list has an index `< n`, and his list starts with his wife -/
theorem JLevelInv.head {μ : Equiv.Perm (Fin n)} {st : LvSt} (hinv : JLevelInv C μ st) (m : Fin n) :
    (st.l1.getD m []).headD 0 = ((μ m : Fin n) : Nat) := by
  obtain ⟨_, _, _, h⟩ := hinv.l1 m
  rw [h]; rfl

theorem JLevelInv.lt_of_ne_nil {μ : Equiv.Perm (Fin n)} {st : LvSt} (hinv : JLevelInv C μ st) {i : Nat}
    (h : st.l1.getD i [] ≠ []) : i < n := by
  by_contra hge
  apply h
  rw [List.getD_eq_getElem?_getD, List.getElem?_eq_none (by rw [hinv.len1]; omega)]; rfl

/-- **`outEdge` is the next-man function**: if the list of `i` has a second woman `j`, she is the successor woman of `i`
and the out-edge of `i` goes to her husband -/
theorem outEdge_eq {μ : Equiv.Perm (Fin n)} {st : LvSt} (hinv : JLevelInv C μ st) {i w0 j : Nat} {t : List Nat}
    (hmatch : st.l1.getD i [] = w0 :: j :: t) :
    ∃ m b : Fin n, i = (m : Nat) ∧ j = (b : Nat) ∧ IsSucc (rk n P1) (rk n P2) μ m b ∧
      outEdge st.l1 st.l2 i = some ((μ.symm b : Fin n) : Nat) := by
  have hi : i < n := hinv.lt_of_ne_nil (by rw [hmatch]; simp)
  obtain ⟨pre, post, hL, hl1m⟩ := hinv.l1 ⟨i, hi⟩
  simp only at hl1m
  rw [hmatch] at hl1m
  obtain ⟨hw0, hD⟩ := List.cons.inj hl1m
  obtain ⟨post1, hpost, hp1, hvj⟩ := dropWhile_eq_cons hD.symm
  simp only [Bool.not_eq_false', Bool.not_eq_true'] at hvj hp1
  -- `j` is a woman of the shortlist of `i` who has not deleted him
  obtain ⟨hjmem, hjle⟩ := (valid_iff hinv.l2 hinv.pm2 j i).mp hvj
  obtain ⟨_, hjn, _⟩ := (mem_shortlists_snd n P1 P2 _ C.hP1 C.hP2 (muOf_facts C.rep).1 i j).mp hjmem
  set m : Fin n := ⟨i, hi⟩ with hm
  set b : Fin n := ⟨j, hjn⟩ with hb
  have hLp := shortlists_fst_pairwise n P1 P2 (muOf n M0) C.hP1 i
  rw [hL, hpost] at hLp
  -- she comes after his wife
  have hlt1 : rk n P1 m (μ m) < rk n P1 m b := by
    have := (List.pairwise_cons.mp (List.pairwise_append.mp hLp).2.1).1 j (by simp)
    exact this
  have hneb : μ.symm b ≠ m := by
    intro he
    have : μ m = b := by rw [← he]; simp
    rw [this] at hlt1; exact Nat.lt_irrefl _ hlt1
  have hjle' : rk n P2 b m ≤ rk n P2 b (μ.symm b) := by
    have := hjle; rw [show husb μ j = μ.symm b from husb_fin μ b] at this; exact this
  have hlt2 : rk n P2 b m < rk n P2 b (μ.symm b) := lt_of_le_of_ne hjle' (fun he => hneb (C.h2 b he).symm)
  -- the last man on her list is her husband
  have hlast : (st.l2.getD j []).getLast? = some ((μ.symm b : Fin n) : Nat) := by
    refine getLast?_of_max (r := fun x => rankOf P2 j x) (hinv.l2 j).1 ?_ ?_
    · rw [(hinv.l2 j).2]
      refine ⟨?_, by rw [show husb μ j = μ.symm b from husb_fin μ b]⟩
      have := (stable_pair_mem C hinv.stable (μ.symm b)).2
      simpa using this
    · intro y hy
      have := ((hinv.l2 j).2 y).mp hy
      rw [show husb μ j = μ.symm b from husb_fin μ b] at this
      exact this.2
  refine ⟨m, b, rfl, rfl, ⟨⟨hlt1, hlt2⟩, ?_⟩, ?_⟩
  · -- minimality: an earlier candidate would be a valid woman among the dropped ones
    intro b' ⟨d1, d2⟩
    by_contra hcon
    have hcon : rk n P1 m b' < rk n P1 m b := by omega
    have hb'L : (b' : Nat) ∈ (shortlists n P1 P2 (muOf n M0)).1.getD i [] := by
      rw [mem_shortlists_fst n P1 P2 _ C.hP1 C.hP2 (muOf_facts C.rep).1]
      obtain ⟨_, hget, hidx⟩ := muOf_facts C.rep
      refine ⟨hi, b'.2, ?_, ?_⟩
      · rw [hget m]
        exact Nat.le_trans (C.opt μ hinv.stable m) (Nat.le_of_lt d1)
      · rw [hidx b']
        have := women_le C.h1 hinv.stable (C.opt μ hinv.stable) b'
        exact Nat.le_trans (Nat.le_of_lt d2) this
    rw [hL, hpost] at hb'L
    have hv' : (st.pm2.getD b' []).getD i false = true := by
      rw [valid_iff hinv.l2 hinv.pm2]
      refine ⟨(shortlists_mutual n P1 P2 _ _ _).mp (by rw [hL, hpost]; exact hb'L), ?_⟩
      rw [husb_fin]; exact Nat.le_of_lt d2
    have hb'post : (b' : Nat) ∈ post1 ++ j :: t :=
      mem_right_of_gt (r := fun x => rankOf P1 i x) hLp hb'L d1
    have hpw2 := (List.pairwise_cons.mp (List.pairwise_append.mp hLp).2.1).2
    have hb'1 : (b' : Nat) ∈ post1 := mem_left_of_lt (r := fun x => rankOf P1 i x) hpw2 hb'post hcon
    have := hp1 _ hb'1
    rw [hv'] at this
    exact absurd this (by simp)
  · unfold outEdge
    rw [hmatch]
    simp only [hlast, Option.getD_some]
    have : (i != ((μ.symm b : Fin n) : Nat)) = true := by
      simp only [bne_iff_ne, ne_eq]
      intro he
      exact hneb (Fin.ext he.symm)
    rw [if_pos this]

/-- an out-edge `i → i'` means that the wife of `i'` is the successor woman of `i` -/
theorem outEdge_spec {μ : Equiv.Perm (Fin n)} {st : LvSt} (hinv : JLevelInv C μ st) {i i' : Nat}
    (h : outEdge st.l1 st.l2 i = some i') :
    ∃ m m' : Fin n, i = (m : Nat) ∧ i' = (m' : Nat) ∧ IsSucc (rk n P1) (rk n P2) μ m (μ m') := by
  have h' := h
  unfold outEdge at h'
  split at h'
  · rename_i w0 j t hmatch
    obtain ⟨m, b, hm, _, hsucc, hout⟩ := outEdge_eq hinv hmatch
    rw [h] at hout
    refine ⟨m, μ.symm b, hm, Option.some.inj hout, ?_⟩
    rw [Equiv.apply_symm_apply]; exact hsucc
  · exact absurd h' (by simp)

/-- a man who has a successor woman has the out-edge to her husband -/
theorem outEdge_of_succ {μ : Equiv.Perm (Fin n)} {st : LvSt} (hinv : JLevelInv C μ st) {m b : Fin n}
    (hs : IsSucc (rk n P1) (rk n P2) μ m b) : outEdge st.l1 st.l2 m = some ((μ.symm b : Fin n) : Nat) := by
  obtain ⟨pre, post, hL, hl1m⟩ := hinv.l1 m
  -- `b` is on the shortlist after the wife, and valid: the list of `m` has a second woman
  have hbL : (b : Nat) ∈ (shortlists n P1 P2 (muOf n M0)).1.getD m [] := by
    rw [mem_shortlists_fst n P1 P2 _ C.hP1 C.hP2 (muOf_facts C.rep).1]
    obtain ⟨_, hget, hidx⟩ := muOf_facts C.rep
    refine ⟨m.2, b.2, ?_, ?_⟩
    · rw [hget m]
      exact Nat.le_trans (C.opt μ hinv.stable m) (Nat.le_of_lt hs.1.1)
    · rw [hidx b]
      have := women_le C.h1 hinv.stable (C.opt μ hinv.stable) b
      exact Nat.le_trans (Nat.le_of_lt hs.1.2) this
  have hv : (st.pm2.getD b []).getD m false = true := by
    rw [valid_iff hinv.l2 hinv.pm2]
    refine ⟨(shortlists_mutual n P1 P2 _ _ _).mp hbL, ?_⟩
    rw [husb_fin]; exact Nat.le_of_lt hs.1.2
  have hLp := shortlists_fst_pairwise n P1 P2 (muOf n M0) C.hP1 m
  rw [hL] at hLp hbL
  have hbpost := mem_right_of_gt (r := fun x => rankOf P1 m x) hLp hbL hs.1.1
  cases hD : post.dropWhile (fun j => !((st.pm2.getD j []).getD m false)) with
  | nil =>
    have := dropWhile_nil_all hD b hbpost
    rw [hv] at this; exact absurd this (by simp)
  | cons j t =>
    rw [hD] at hl1m
    obtain ⟨m1, b1, hm1, _, hsucc, hout⟩ := outEdge_eq hinv hl1m
    have : m = m1 := Fin.ext hm1
    subst this
    rw [hout, isSucc_unique C.h1 hsucc hs]

/-! ### `walk` -/

/-- every node of the list points (by `outEdge`) to the next one, the last one to `cur` -/
def Linked (l1 l2 : List (List Nat)) : List Nat → Nat → Prop
  | [], _ => True
  | a :: rest, cur => outEdge l1 l2 a = some (rest.headD cur) ∧ Linked l1 l2 rest cur

theorem linked_append_singleton (l1 l2 : List (List Nat)) : ∀ (l : List Nat) (c nxt : Nat),
    Linked l1 l2 l c → outEdge l1 l2 c = some nxt → Linked l1 l2 (l ++ [c]) nxt := by
  intro l
  induction l with
  | nil => intro c nxt _ h; exact ⟨h, trivial⟩
  | cons a l ih =>
    intro c nxt hl h
    obtain ⟨h1, h2⟩ := hl
    refine ⟨?_, ih c nxt h2 h⟩
    cases l with
    | nil => simpa using h1
    | cons b l => simpa using h1

theorem linked_suffix (l1 l2 : List (List Nat)) : ∀ (k : Nat) (l : List Nat) (c : Nat),
    Linked l1 l2 l c → Linked l1 l2 (l.drop k) c := by
  intro k
  induction k with
  | zero => intro l c h; simpa using h
  | succ k ih =>
    intro l c h
    cases l with
    | nil => simpa using h
    | cons a l => rw [List.drop_succ_cons]; exact ih l c h.2

theorem linked_getElem (l1 l2 : List (List Nat)) : ∀ (l : List Nat) (c : Nat), Linked l1 l2 l c →
    ∀ t (ht : t < l.length), outEdge l1 l2 l[t] = some (if h : t + 1 < l.length then l[t + 1] else c) := by
  intro l
  induction l with
  | nil => intro c _ t ht; simp at ht
  | cons a l ih =>
    intro c h t ht
    obtain ⟨h1, h2⟩ := h
    cases t with
    | zero =>
      simp only [List.getElem_cons_zero]
      rw [h1]
      cases l with
      | nil => simp
      | cons b l => simp
    | succ t =>
      have := ih c h2 t (by simpa using ht)
      simp only [List.getElem_cons_succ, List.length_cons]
      rw [this]
      by_cases hlt : t + 1 < l.length
      · simp [hlt]
      · simp [hlt]

/-- the invariant of `walk`: the collected pairs are `(node, head of its list)`, the nodes are visited, distinct and linked -/
def WalkInv (l1 l2 : List (List Nat)) (vis : List Bool) (cur : Nat) (cyc : List Pair) : Prop :=
  (∀ p ∈ cyc, p.2 = (l1.getD p.1 []).headD 0 ∧ vis.getD p.1 true = true) ∧
  (cyc.map Prod.fst).Nodup ∧ Linked l1 l2 (cyc.map Prod.fst) cur

theorem getD_set_true (vis : List Bool) (c a : Nat) (h : vis.getD a true = true) : (vis.set c true).getD a true = true := by
  by_cases hc : c = a
  · subst hc
    by_cases hlt : c < vis.length
    · rw [getD_set_self _ _ _ _ hlt]
    · rw [List.set_eq_of_length_le (by omega)]; exact h
  · rw [getD_set_ne _ _ _ _ _ hc]; exact h

theorem walk_spec (l1 l2 : List (List Nat)) : ∀ (fuel : Nat) (vis : List Bool) (cur : Nat) (cyc : List Pair),
    WalkInv l1 l2 vis cur cyc →
    WalkInv l1 l2 (walk l1 l2 fuel vis cur cyc).1 (walk l1 l2 fuel vis cur cyc).2.1 (walk l1 l2 fuel vis cur cyc).2.2 ∧
    (∀ a, vis.getD a true = true → (walk l1 l2 fuel vis cur cyc).1.getD a true = true) ∧
    (∀ p ∈ (walk l1 l2 fuel vis cur cyc).2.2, p ∈ cyc ∨ vis.getD p.1 true = false) := by
  intro fuel
  induction fuel with
  | zero => intro vis cur cyc h; exact ⟨h, fun a ha => ha, fun p hp => Or.inl hp⟩
  | succ fuel ih =>
    intro vis cur cyc h
    simp only [walk]
    split
    · exact ⟨h, fun a ha => ha, fun p hp => Or.inl hp⟩
    · rename_i hvis
      have hvis' : vis.getD cur true = false := by simpa using hvis
      have hcurlt : cur < vis.length := by
        by_contra hge
        rw [List.getD_eq_getElem?_getD, List.getElem?_eq_none (by omega)] at hvis'
        simp at hvis'
      obtain ⟨h1, h2, h3⟩ := h
      split
      · -- no out-edge: stop
        refine ⟨⟨fun p hp => ⟨(h1 p hp).1, getD_set_true _ _ _ (h1 p hp).2⟩, h2, h3⟩,
          fun a ha => getD_set_true _ _ _ ha, fun p hp => Or.inl hp⟩
      · rename_i nxt hnxt
        have hnot : cur ∉ cyc.map Prod.fst := by
          intro hmem
          obtain ⟨p, hp, hpc⟩ := List.mem_map.mp hmem
          have := (h1 p hp).2
          rw [hpc, hvis'] at this
          exact absurd this (by simp)
        have hinv' : WalkInv l1 l2 (vis.set cur true) nxt (cyc ++ [(cur, (l1.getD cur []).headD 0)]) := by
          refine ⟨?_, ?_, ?_⟩
          · intro p hp
            rcases List.mem_append.mp hp with hp | hp
            · exact ⟨(h1 p hp).1, getD_set_true _ _ _ (h1 p hp).2⟩
            · simp only [List.mem_singleton] at hp
              subst hp
              exact ⟨rfl, getD_set_self _ _ _ _ hcurlt⟩
          · rw [List.map_append, List.nodup_append]
            refine ⟨h2, by simp, ?_⟩
            intro a ha b hb
            simp only [List.map_cons, List.map_nil, List.mem_singleton] at hb
            subst hb
            exact fun he => hnot (he ▸ ha)
          · rw [List.map_append]
            exact linked_append_singleton l1 l2 _ cur nxt h3 hnxt
        obtain ⟨r1, r2, r3⟩ := ih (vis.set cur true) nxt _ hinv'
        refine ⟨r1, fun a ha => r2 a (getD_set_true _ _ _ ha), ?_⟩
        intro p hp
        rcases r3 p hp with hp' | hp'
        · rcases List.mem_append.mp hp' with hp'' | hp''
          · exact Or.inl hp''
          · simp only [List.mem_singleton] at hp''
            subst hp''
            exact Or.inr hvis'
        · right
          by_contra hcon
          have : vis.getD p.1 true = true := by simpa using hcon
          rw [getD_set_true _ _ _ this] at hp'
          exact absurd hp' (by simp)

end

end IrvingAlgo.J

#print axioms IrvingAlgo.J.outEdge_spec
#print axioms IrvingAlgo.J.walk_spec
