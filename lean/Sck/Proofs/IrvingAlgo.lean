import Sck.Model.IrvingAlgo
import Sck.Proofs.Irving

/-! Partial correctness of the executable mirror `IrvingAlgo.irving` of `Irving.scf` (C03): unfolding lemmas for
the checked pipeline, and soundness of its answer (perfect, stable, value bookkeeping). -/

namespace IrvingAlgo

open Irving

/-- what an `ok` answer of `irvingPlan` says about the stages -/
theorem irvingPlan_ok (n : Nat) (P1 P2 : List (List Nat)) (V1 V2 : List (List Int)) (M0 : List Pair)
    (rots : List (List Pair)) (h : irvingPlan n P1 P2 V1 V2 = .ok (M0, rots)) :
    wfB n P1 P2 V1 V2 = true ∧ maleOptimal n P1 P2 = some M0 ∧
    M0.length = n ∧ (M0.map Prod.fst).Nodup ∧ (M0.map Prod.snd).Nodup ∧
    ∃ all elim C, allRotations (shortlists n P1 P2 (muOf n M0)).1 (shortlists n P1 P2 (muOf n M0)).2 = some (all, elim) ∧
      closedSubset (posetGraph all (shortlists n P1 P2 (muOf n M0)).1 elim) all V1 V2 = .ok C ∧
      rots = (sortNat C).map (fun i => all.getD i []) := by
  unfold irvingPlan at h
  split at h
  · exact absurd h (by simp)
  · rename_i hwf
    split at h
    · exact absurd h (by simp)
    · rename_i M0' hmo
      split at h
      · exact absurd h (by simp)
      · rename_i hassert
        dsimp only at h
        split at h
        · exact absurd h (by simp)
        · rename_i all elim hall
          split at h
          · exact absurd h (by simp)
          · rename_i C hC
            simp only [Except.ok.injEq, Prod.mk.injEq] at h
            obtain ⟨rfl, rfl⟩ := h
            simp only [Bool.not_eq_true, Bool.not_eq_false'] at hwf
            simp only [Bool.not_eq_true, Bool.not_eq_false', Bool.and_eq_true, beq_iff_eq, nodupB_iff] at hassert
            exact ⟨hwf, hmo, hassert.1.1, hassert.1.2, hassert.2, all, elim, C, hall, hC, rfl⟩

/-- what an `ok` answer of `irving` says: the plan succeeded, all run-time checks passed, and the answer is the
result of `eliminate_rotations` -/
theorem irving_ok (n : Nat) (P1 P2 : List (List Nat)) (V1 V2 : List (List Int)) (M : List Pair)
    (h : irving n P1 P2 V1 V2 = .ok M) :
    ∃ M0 rots, irvingPlan n P1 P2 V1 V2 = .ok (M0, rots) ∧ injRowsB n P1 = true ∧ boundedB n M0 = true ∧
      stablePairsB P1 P2 M0 = true ∧ exposedAllB P1 P2 M0 rots = true ∧ eliminateAll M0 rots = some M := by
  unfold irving at h
  split at h
  · exact absurd h (by simp)
  · rename_i M0 rots hplan
    split at h
    · exact absurd h (by simp)
    · rename_i hck
      split at h
      · exact absurd h (by simp)
      · rename_i hex
        split at h
        · exact absurd h (by simp)
        · rename_i M' hel
          simp only [Except.ok.injEq] at h
          subst h
          simp only [Bool.not_eq_true, Bool.not_eq_false', Bool.and_eq_true] at hck hex
          exact ⟨M0, rots, hplan, hck.1.1, hck.1.2, hck.2, hex, hel⟩

/-- the checked and the unchecked pipeline agree on `ok` answers of the checked one -/
theorem irving_ok_raw (n : Nat) (P1 P2 : List (List Nat)) (V1 V2 : List (List Int)) (M : List Pair)
    (h : irving n P1 P2 V1 V2 = .ok M) : irvingRaw n P1 P2 V1 V2 = .ok M := by
  obtain ⟨M0, rots, hplan, _, _, _, _, hel⟩ := irving_ok n P1 P2 V1 V2 M h
  unfold irvingRaw
  rw [hplan]
  simp only [hel]

/-- a duplicate-free list of `n` numbers `< n` is a permutation of `0..n-1` -/
theorem perm_range_of_nodup (n : Nat) (l : List Nat) (hlen : l.length = n) (hnd : l.Nodup)
    (hlt : ∀ x ∈ l, x < n) : l.Perm (List.range n) := by
  have hsub : l.Subperm (List.range n) :=
    List.subperm_of_subset hnd (fun x hx => List.mem_range.mpr (hlt x hx))
  exact hsub.perm_of_length_le (by simp [hlen])

/-- **soundness of the checked mirror.**  Whatever `irving` answers is a perfect matching (men and women are each
a permutation of `0..n-1`) that is stable w.r.t. the rank matrices, and its value is the value of the male-optimal
matching plus the weights of the eliminated rotations. -/
theorem irving_sound' (n : Nat) (P1 P2 : List (List Nat)) (V1 V2 : List (List Int)) (M : List Pair)
    (h : irving n P1 P2 V1 V2 = .ok M) :
    (M.map Prod.fst).Perm (List.range n) ∧ (M.map Prod.snd).Perm (List.range n) ∧ StablePairs P1 P2 M ∧
    ∃ M0 rots, irvingPlan n P1 P2 V1 V2 = .ok (M0, rots) ∧ eliminateAll M0 rots = some M ∧
      matchingValue V1 V2 M = matchingValue V1 V2 M0 + (rots.map (rotationWeight V1 V2)).sum := by
  obtain ⟨M0, rots, hplan, hinj, hbd, hst, hex, hel⟩ := irving_ok n P1 P2 V1 V2 M h
  obtain ⟨_, _, hlen, hmen, hwom, _⟩ := irvingPlan_ok n P1 P2 V1 V2 M0 rots hplan
  obtain ⟨M', hM', hst', hfst, hsnd⟩ := eliminateAll_stable n P1 P2 hinj rots M0 hbd hwom
    ((stablePairsB_iff _ _ _).mp hst) hex
  rw [hel] at hM'
  obtain rfl := Option.some.inj hM'
  have hbd' := (boundedB_iff n M0).mp hbd
  have hp1 : (M0.map Prod.fst).Perm (List.range n) :=
    perm_range_of_nodup n _ (by simpa using hlen) hmen (by
      intro x hx
      obtain ⟨p, hp, rfl⟩ := List.mem_map.mp hx
      exact (hbd' p hp).1)
  have hp2 : (M0.map Prod.snd).Perm (List.range n) :=
    perm_range_of_nodup n _ (by simpa using hlen) hwom (by
      intro x hx
      obtain ⟨p, hp, rfl⟩ := List.mem_map.mp hx
      exact (hbd' p hp).2)
  exact ⟨hfst ▸ hp1, hsnd.trans hp2, hst', M0, rots, hplan, hel, eliminateAll_value V1 V2 rots M0 M hel⟩

/-- what an `ok` answer of `closedSubset` is: the predecessor closure of the positive rotations that are not on
the source side of the cut returned by the max-flow model -/
theorem closedSubset_ok (succs : List (List Nat)) (rots : List (List Pair)) (V1 V2 : List (List Int))
    (C : List Nat) (h : closedSubset succs rots V1 V2 = .ok C) :
    ∃ f S, ff (closedNet succs (rots.map (rotationWeight V1 V2)))
        (ffFuel (closedNet succs (rots.map (rotationWeight V1 V2)))) = .ok (f, S) ∧
      C = closureOf succs (positivesOff succs.length (rots.map (rotationWeight V1 V2)) S) := by
  unfold closedSubset at h
  dsimp only at h
  split at h
  · exact absurd h (by simp)
  · rename_i f S hff
    simp only [Except.ok.injEq] at h
    exact ⟨f, S, hff, h.symm⟩

/-- **the chosen set is closed under predecessors** in the poset graph it was computed from, contains every
selected positive rotation, and is the least such set -/
theorem closedSubset_closed (succs : List (List Nat)) (rots : List (List Pair)) (V1 V2 : List (List Int))
    (C : List Nat) (h : closedSubset succs rots V1 V2 = .ok C) :
    ClosedUnder succs C ∧
    ∃ f S, ff (closedNet succs (rots.map (rotationWeight V1 V2)))
        (ffFuel (closedNet succs (rots.map (rotationWeight V1 V2)))) = .ok (f, S) ∧
      (∀ x ∈ positivesOff succs.length (rots.map (rotationWeight V1 V2)) S, x ∈ C) ∧
      (∀ T, (∀ x ∈ positivesOff succs.length (rots.map (rotationWeight V1 V2)) S, x ∈ T) →
        ClosedUnder succs T → ∀ x ∈ C, x ∈ T) := by
  obtain ⟨f, S, hff, rfl⟩ := closedSubset_ok succs rots V1 V2 C h
  obtain ⟨a, b, c⟩ := closureOf_spec succs (positivesOff succs.length (rots.map (rotationWeight V1 V2)) S)
  exact ⟨b, f, S, hff, a, c⟩

end IrvingAlgo

#print axioms IrvingAlgo.irving_sound'
