import Sck.Proofs.GsHR

/-! C01/C02: symmetric well-formedness of a hospitals/residents instance, its Bool checker, and the
matrix-level facts (`rankAt`, preference lists of rows) shared by both orientations. -/

/-- Symmetric well-formedness: dimensions agree and every row on either side is strict. -/
structure HR.WF2 (I : HR) : Prop where
  lenR : I.R.length = I.n
  lenH : I.H.length = I.m
  lenC : I.cap.length = I.m
  rowR : ∀ row ∈ I.R, row.length = I.m
  rowH : ∀ row ∈ I.H, row.length = I.n
  strictR : ∀ row ∈ I.R, StrictRow row
  strictH : ∀ row ∈ I.H, StrictRow row

/-- Bool version of `StrictRow` that does not mention the sorted list. -/
def hrStrictRowB (row : List (Option Nat)) : Bool :=
  (List.range row.length).all fun a => (List.range row.length).all fun b =>
    !((row.getD a none).isSome && (row.getD b none).isSome && keyOf row a == keyOf row b) || a == b

theorem strictRowB_sound (row : List (Option Nat)) (h : hrStrictRowB row = true) : StrictRow row := by
  intro a b ha hb hk
  obtain ⟨hal, has⟩ := (mem_plistOfRow row a).mp ha
  obtain ⟨hbl, hbs⟩ := (mem_plistOfRow row b).mp hb
  unfold hrStrictRowB at h
  rw [List.all_eq_true] at h
  have h1 := h a (List.mem_range.mpr hal)
  rw [List.all_eq_true] at h1
  have h2 := h1 b (List.mem_range.mpr hbl)
  rw [has, hbs, hk] at h2
  simpa using h2

theorem strictRowB_complete (row : List (Option Nat)) (h : StrictRow row) : hrStrictRowB row = true := by
  unfold hrStrictRowB
  rw [List.all_eq_true]
  intro a ha
  rw [List.all_eq_true]
  intro b hb
  by_cases hc : ((row.getD a none).isSome && (row.getD b none).isSome && keyOf row a == keyOf row b) = true
  · simp only [Bool.and_eq_true, beq_iff_eq] at hc
    have hab := h a b ((mem_plistOfRow row a).mpr ⟨List.mem_range.mp ha, hc.1.1⟩)
      ((mem_plistOfRow row b).mpr ⟨List.mem_range.mp hb, hc.1.2⟩) hc.2
    simp [hab]
  · simp only [Bool.not_eq_true] at hc
    rw [hc]; rfl

/-- Decidable well-formedness check. -/
def HR.wfB (I : HR) : Bool :=
  I.R.length == I.n && I.H.length == I.m && I.cap.length == I.m &&
  I.R.all (fun row => row.length == I.m && hrStrictRowB row) &&
  I.H.all (fun row => row.length == I.n && hrStrictRowB row)

theorem HR.wfB_sound (I : HR) (h : I.wfB = true) : I.WF2 := by
  unfold HR.wfB at h
  simp only [Bool.and_eq_true, beq_iff_eq, List.all_eq_true] at h
  obtain ⟨⟨⟨⟨h1, h2⟩, h3⟩, h4⟩, h5⟩ := h
  exact ⟨h1, h2, h3, fun row hr => (h4 row hr).1, fun row hr => (h5 row hr).1,
    fun row hr => strictRowB_sound row (h4 row hr).2, fun row hr => strictRowB_sound row (h5 row hr).2⟩

theorem HR.wfB_complete (I : HR) (h : I.WF2) : I.wfB = true := by
  unfold HR.wfB
  simp only [Bool.and_eq_true, beq_iff_eq, List.all_eq_true]
  exact ⟨⟨⟨⟨h.lenR, h.lenH⟩, h.lenC⟩, fun row hr => ⟨h.rowR row hr, strictRowB_complete row (h.strictR row hr)⟩⟩,
    fun row hr => ⟨h.rowH row hr, strictRowB_complete row (h.strictH row hr)⟩⟩

theorem HR.wfB_iff (I : HR) : I.wfB = true ↔ I.WF2 := ⟨I.wfB_sound, I.wfB_complete⟩

instance (I : HR) : Decidable I.WF2 := decidable_of_iff _ I.wfB_iff

/-! ### matrices -/

theorem strictRow_nil : StrictRow [] := by
  intro a b ha; simp [plistOfRow] at ha

theorem getD_row_mem_or_nil (M : List (List (Option Nat))) (i : Nat) :
    M.getD i [] ∈ M ∨ M.getD i [] = [] := by
  rw [List.getD_eq_getElem?_getD]
  by_cases h : i < M.length
  · left; rw [List.getElem?_eq_getElem h]; exact List.getElem_mem h
  · right; rw [List.getElem?_eq_none (by omega)]; rfl

theorem getD_row_nil_of_le (M : List (List (Option Nat))) (i : Nat) (h : M.length ≤ i) :
    M.getD i [] = [] := by
  rw [List.getD_eq_getElem?_getD, List.getElem?_eq_none h]; rfl

theorem strictRow_getD (M : List (List (Option Nat))) (hs : ∀ row ∈ M, StrictRow row) (i : Nat) :
    StrictRow (M.getD i []) := by
  rcases getD_row_mem_or_nil M i with h | h
  · exact hs _ h
  · rw [h]; exact strictRow_nil

theorem length_getD_row (M : List (List (Option Nat))) (k : Nat) (hs : ∀ row ∈ M, row.length = k) (i : Nat) :
    (M.getD i []).length ≤ k := by
  rcases getD_row_mem_or_nil M i with h | h
  · exact Nat.le_of_eq (hs _ h)
  · rw [h]; exact Nat.zero_le _

/-- an entry that is present lies inside the matrix -/
theorem rankAt_some_lt (M : List (List (Option Nat))) (k : Nat) (hs : ∀ row ∈ M, row.length = k)
    (i j x : Nat) (h : rankAt M i j = some x) : i < M.length ∧ j < k := by
  unfold rankAt at h
  have hi : i < M.length := by
    by_contra hc
    rw [getD_row_nil_of_le M i (by omega)] at h
    simp at h
  refine ⟨hi, ?_⟩
  by_contra hc
  have := length_getD_row M k hs i
  rw [getD_none_of_le _ _ (by omega)] at h
  simp at h

/-- preference list of row `i` of a matrix with `k` declared rows -/
def plistM (M : List (List (Option Nat))) (k i : Nat) : List Nat :=
  if i < k then plistOfRow (M.getD i []) else []

theorem daRes_plist (I : HR) (r : Nat) : (daRes I).plist r = plistM I.R I.n r := rfl
theorem daHosp_plist (I : HR) (h : Nat) : (daHosp I).plist h = plistM I.H I.m h := rfl

theorem plistM_nodup (M : List (List (Option Nat))) (k i : Nat) : (plistM M k i).Nodup := by
  unfold plistM; split
  · exact plistOfRow_nodup _
  · exact List.nodup_nil

theorem plistM_out (M : List (List (Option Nat))) (k i : Nat) (h : k ≤ i) : plistM M k i = [] := by
  unfold plistM; rw [if_neg (by omega)]

theorem mem_plistM (M : List (List (Option Nat))) (k : Nat) (hk : M.length = k) (i j : Nat) :
    j ∈ plistM M k i ↔ ∃ x, rankAt M i j = some x := by
  unfold plistM rankAt
  constructor
  · intro h
    split at h
    · obtain ⟨_, hs⟩ := (mem_plistOfRow _ _).mp h
      exact Option.isSome_iff_exists.mp hs
    · simp at h
  · rintro ⟨x, hx⟩
    have hi : i < k := by
      by_contra hc
      rw [getD_row_nil_of_le M i (by omega)] at hx
      simp at hx
    rw [if_pos hi]
    have hlen : j < (M.getD i []).length := by
      by_contra hlen
      rw [getD_none_of_le _ _ (by omega)] at hx
      simp at hx
    exact (mem_plistOfRow _ _).mpr ⟨hlen, by rw [hx]; rfl⟩

theorem keyOf_eq_of_rankAt (M : List (List (Option Nat))) (i j x : Nat) (h : rankAt M i j = some x) :
    keyOf (M.getD i []) j = x := by
  unfold rankAt at h; unfold keyOf; rw [h]; rfl

theorem getElem?_plistM_lt (M : List (List (Option Nat))) (k i t a : Nat)
    (h : (plistM M k i)[t]? = some a) : i < k := by
  by_contra hc
  rw [plistM_out M k i (by omega)] at h
  simp at h

/-- position order in the preference list is rank order -/
theorem plistM_index_lt_iff (M : List (List (Option Nat))) (k : Nat)
    (hs : ∀ row ∈ M, StrictRow row) (i s t a b x y : Nat)
    (ha : (plistM M k i)[s]? = some a) (hb : (plistM M k i)[t]? = some b)
    (hx : rankAt M i a = some x) (hy : rankAt M i b = some y) : s < t ↔ x < y := by
  have hi := getElem?_plistM_lt M k i s a ha
  unfold plistM at ha hb
  rw [if_pos hi] at ha hb
  have := plistOfRow_index_lt_iff _ (strictRow_getD M hs i) s t a b ha hb
  rw [keyOf_eq_of_rankAt M i a x hx, keyOf_eq_of_rankAt M i b y hy] at this
  exact this

/-- "earlier in the list" in the vocabulary of rank matrices -/
theorem plistM_prefers_iff (M : List (List (Option Nat))) (k : Nat) (hk : M.length = k)
    (hs : ∀ row ∈ M, StrictRow row) (i a b : Nat) :
    (∃ s t : Nat, s < t ∧ (plistM M k i)[s]? = some a ∧ (plistM M k i)[t]? = some b) ↔
    ∃ x y, rankAt M i a = some x ∧ rankAt M i b = some y ∧ x < y := by
  constructor
  · rintro ⟨s, t, hst, ha, hb⟩
    obtain ⟨x, hx⟩ := (mem_plistM M k hk i a).mp (List.mem_of_getElem? ha)
    obtain ⟨y, hy⟩ := (mem_plistM M k hk i b).mp (List.mem_of_getElem? hb)
    exact ⟨x, y, hx, hy, (plistM_index_lt_iff M k hs i s t a b x y ha hb hx hy).mp hst⟩
  · rintro ⟨x, y, hx, hy, hxy⟩
    obtain ⟨s, ha⟩ := List.getElem?_of_mem ((mem_plistM M k hk i a).mpr ⟨x, hx⟩)
    obtain ⟨t, hb⟩ := List.getElem?_of_mem ((mem_plistM M k hk i b).mpr ⟨y, hy⟩)
    exact ⟨s, t, (plistM_index_lt_iff M k hs i s t a b x y ha hb hx hy).mpr hxy, ha, hb⟩

/-- a strict matrix row is injective on its acceptable entries -/
theorem rankAt_inj (M : List (List (Option Nat))) (hs : ∀ row ∈ M, StrictRow row) (i a b x : Nat)
    (ha : rankAt M i a = some x) (hb : rankAt M i b = some x) : a = b := by
  have hs' := strictRow_getD M hs i
  have hm : ∀ j, rankAt M i j = some x → j ∈ plistOfRow (M.getD i []) := by
    intro j hj
    unfold rankAt at hj
    have hlen : j < (M.getD i []).length := by
      by_contra hlen
      rw [getD_none_of_le _ _ (by omega)] at hj
      simp at hj
    exact (mem_plistOfRow _ _).mpr ⟨hlen, by rw [hj]; rfl⟩
  exact hs' a b (hm a ha) (hm b hb)
    ((keyOf_eq_of_rankAt M i a x ha).trans (keyOf_eq_of_rankAt M i b x hb).symm)

theorem plistOfRow_length_le (row : List (Option Nat)) : (plistOfRow row).length ≤ row.length := by
  unfold plistOfRow
  rw [List.length_mergeSort]
  exact Nat.le_trans (List.length_filter_le _ _) (by simp)

theorem plistM_length_le (M : List (List (Option Nat))) (k c : Nat) (hs : ∀ row ∈ M, row.length = c) (i : Nat) :
    (plistM M k i).length ≤ c := by
  unfold plistM; split
  · exact Nat.le_trans (plistOfRow_length_le _) (length_getD_row M c hs i)
  · exact Nat.zero_le _

/-! ### the two deferred-acceptance instances are well-formed -/

theorem HR.WF2.toWF {I : HR} (h : I.WF2) : I.WF :=
  ⟨fun r => strictRow_getD I.R h.strictR r, fun hh r r' a h1 h2 => rankAt_inj I.H h.strictH hh r r' a h1 h2⟩

theorem daRes_wf2 (I : HR) (hwf : I.WF2) : WF (daRes I) := daRes_wf I hwf.toWF

theorem daHosp_wf2 (I : HR) (hwf : I.WF2) : WF (daHosp I) :=
  ⟨fun h => plistM_nodup I.H I.m h, fun r h h' a h1 h2 => rankAt_inj I.R hwf.strictR r h h' a h1 h2⟩

theorem daRes_out (I : HR) : ∀ p, I.n ≤ p → (daRes I).plist p = [] := fun p hp => plistM_out I.R I.n p hp
theorem daHosp_out (I : HR) : ∀ p, I.m ≤ p → (daHosp I).plist p = [] := fun p hp => plistM_out I.H I.m p hp

/-! ### compact ranks (not needed by any theorem about the model)

The Python resident-oriented branch decodes a popped heap entry with `ranked_hprofile[h, rank - 1]`,
which is the right resident only when the acceptable ranks in hospital `h`'s row are exactly
`1, …, k` (no gaps). `StrictProfile.of` does not enforce this and the model does not need it:
on `R = [[1,2],[NaN,1],[1,2]]`, `H = [[3,NaN,1],[1,2,3]]`, `c = [1,1]` the code returns
`[(2,0),(1,1)]` (blocked by resident 0 and hospital 1) while the model returns `[(0,1),(2,0)]`.
`HR.compactB` is the checker for the domain on which the two agree. -/

def compactRowB (row : List (Option Nat)) : Bool :=
  let k := (row.filter (·.isSome)).length
  row.all fun o => match o with
    | none => true
    | some x => decide (1 ≤ x) && decide (x ≤ k)

def HR.compactB (I : HR) : Bool := I.R.all compactRowB && I.H.all compactRowB
