import Sck.Proofs.Eat2

/-! C05: well-formedness, the concrete loop invariant and the abstraction to `EatSt` of `Eat1`. -/

open Finset

namespace Eat

/-! ### well-formed inputs -/

structure EatWf (n : Nat) (P : List (List Nat)) (speeds : List Rat) : Prop where
  plen : P.length = n
  rows : ∀ row ∈ P, row.length = n ∧ ∀ r < n, r + 1 ∈ row
  slen : speeds.length = n
  spos : ∀ s ∈ speeds, 0 < s

theorem eatWfB_iff (n : Nat) (P : List (List Nat)) (speeds : List Rat) :
    eatWfB n P speeds = true ↔ EatWf n P speeds := by
  simp only [eatWfB, Bool.and_eq_true, decide_eq_true_eq, List.all_eq_true, List.mem_range,
    List.contains_iff_mem]
  constructor
  · rintro ⟨⟨⟨h1, h2⟩, h3⟩, h4⟩
    exact ⟨h1, h2, h3, h4⟩
  · rintro ⟨h1, h2, h3, h4⟩
    exact ⟨⟨⟨h1, h2⟩, h3⟩, h4⟩

theorem eatWfB_sound {n : Nat} {P : List (List Nat)} {speeds : List Rat}
    (h : eatWfB n P speeds = true) : EatWf n P speeds := (eatWfB_iff n P speeds).mp h

/-- what the loop needs to know about `ranked_items`: every row lists exactly the items `0..n-1` -/
structure RankedOK (n : Nat) (ranked : List (List Nat)) : Prop where
  len : ∀ i < n, (ranked.getD i []).length = n
  mem : ∀ i < n, ∀ j, j ∈ ranked.getD i [] ↔ j < n

theorem mem_rankedOf (row : List Nat) (j : Nat) : j ∈ rankedOf row ↔ j < row.length := by
  rw [rankedOf, mem_plistOfRow]
  simp only [List.length_map]
  constructor
  · exact fun h => h.1
  · intro h
    refine ⟨h, ?_⟩
    simp [h]

theorem length_rankedOf (row : List Nat) : (rankedOf row).length = row.length := by
  unfold rankedOf plistOfRow
  rw [List.length_mergeSort, List.filter_eq_self.mpr, List.length_range, List.length_map]
  intro j hj
  have : j < row.length := by simpa using hj
  simp [this]

theorem rankedOK_of_wf {n : Nat} {P : List (List Nat)} {speeds : List Rat} (h : EatWf n P speeds) :
    RankedOK n (P.map rankedOf) := by
  have hrow : ∀ i < n, ∃ row ∈ P, row.length = n ∧ (P.map rankedOf).getD i [] = rankedOf row := by
    intro i hi
    have hi' : i < P.length := by rw [h.plen]; exact hi
    refine ⟨P[i], List.getElem_mem hi', (h.rows _ (List.getElem_mem hi')).1, ?_⟩
    simp [hi']
  constructor
  · intro i hi
    obtain ⟨row, _, hl, he⟩ := hrow i hi
    rw [he, length_rankedOf, hl]
  · intro i hi j
    obtain ⟨row, _, hl, he⟩ := hrow i hi
    rw [he, mem_rankedOf, hl]

theorem spd_pos_of_wf {n : Nat} {P : List (List Nat)} {speeds : List Rat} (h : EatWf n P speeds) :
    ∀ i < n, 0 < spd speeds i := by
  intro i hi
  have hi' : i < speeds.length := by rw [h.slen]; exact hi
  have : spd speeds i = speeds[i] := by simp [spd, hi']
  rw [this]
  exact h.spos _ (List.getElem_mem hi')

/-! ### abstraction -/

def toFin (n : Nat) (j : Nat) : Option (Fin n) := if h : j < n then some ⟨j, h⟩ else none

/-- the preference lists over `Fin n` -/
def order (n : Nat) (ranked : List (List Nat)) (i : Fin n) : List (Fin n) :=
  (ranked.getD i.val []).filterMap (toFin n)

theorem map_val_filterMap_toFin (n : Nat) (l : List Nat) (h : ∀ j ∈ l, j < n) :
    (l.filterMap (toFin n)).map Fin.val = l := by
  induction l with
  | nil => rfl
  | cons a l ih =>
    have ha : a < n := h a List.mem_cons_self
    have : toFin n a = some ⟨a, ha⟩ := by simp [toFin, ha]
    rw [List.filterMap_cons_some this, List.map_cons, ih (fun j hj => h j (List.mem_cons_of_mem _ hj))]

theorem order_map_val {n : Nat} {ranked : List (List Nat)} (hr : RankedOK n ranked) (i : Fin n) :
    (order n ranked i).map Fin.val = ranked.getD i.val [] :=
  map_val_filterMap_toFin n _ (fun j hj => (hr.mem i.val i.isLt j).mp hj)

theorem order_complete {n : Nat} {ranked : List (List Nat)} (hr : RankedOK n ranked) (i j : Fin n) :
    j ∈ order n ranked i := by
  have hj : j.val ∈ ranked.getD i.val [] := (hr.mem i.val i.isLt j.val).mpr j.isLt
  rw [← order_map_val hr i] at hj
  obtain ⟨j', hj', he⟩ := List.mem_map.mp hj
  have : j' = j := Fin.ext he
  rwa [this] at hj'

def sF (n : Nat) (speeds : List Rat) : Fin n → ℚ := fun i => spd speeds i.val

def absSt (n : Nat) (st : State) : EatSt n where
  rem := fun j => (lk st.rem j.val).getD 0
  eaten := fun i => (lk st.eaten i.val).getD 1
  X := fun i j => mget st.mat i.val j.val

/-- the concrete loop invariant -/
structure CI (n : Nat) (ranked : List (List Nat)) (st : State) : Prop where
  rem_len : st.rem.length = n
  eaten_len : st.eaten.length = n
  dims : st.mat = (List.range n).map (fun i => (List.range n).map (fun j => mget st.mat i j))
  rem_pos : ∀ j r, lk st.rem j = some r → 0 < r
  eaten_lt : ∀ i e, lk st.eaten i = some e → e < 1
  pos_some : ∀ i p, lk st.pos i = some p →
      (∀ q < p, ∀ j, (ranked.getD i [])[q]? = some j → lk st.rem j = none) ∧
      (∃ j, (ranked.getD i [])[p]? = some j ∧ (lk st.rem j).isSome = true) ∧
      (lk st.eaten i).isSome = true
  pos_none : ∀ i < n, lk st.pos i = none → lk st.eaten i = none ∨ ∀ j < n, lk st.rem j = none
  inv : EatInv (absSt n st)

theorem find?_of_getElem? {α : Type} (q : α → Bool) (l : List α) (p : Nat) (b : α)
    (hb : l[p]? = some b) (hq : q b = true)
    (hlt : ∀ k < p, ∀ a, l[k]? = some a → q a = false) : l.find? q = some b := by
  induction l generalizing p with
  | nil => simp at hb
  | cons x xs ih =>
    cases p with
    | zero =>
      simp only [List.getElem?_cons_zero, Option.some.injEq] at hb
      subst hb
      simp [hq]
    | succ p =>
      have hx : q x = false := hlt 0 (Nat.succ_pos _) x (by simp)
      rw [List.find?_cons, hx]
      simp only [List.getElem?_cons_succ] at hb
      exact ih p hb (fun k hk a ha => hlt (k + 1) (by omega) a (by simpa using ha))

/-- `current_item` is the first not yet exhausted item of the agent's list, unless the agent is full -/
theorem curItem_spec {n : Nat} {ranked : List (List Nat)} {st : State} (hr : RankedOK n ranked)
    (h : CI n ranked st) (i : Nat) (hi : i < n) :
    curItem ranked st i =
      if (lk st.eaten i).isSome then (ranked.getD i []).find? (fun j => (lk st.rem j).isSome) else none := by
  unfold curItem
  cases hp : lk st.pos i with
  | none =>
    simp only
    rcases h.pos_none i hi hp with he | hrem
    · simp [he]
    · have : (ranked.getD i []).find? (fun j => (lk st.rem j).isSome) = none := by
        rw [List.find?_eq_none]
        intro x hx
        have := hrem x ((hr.mem i hi x).mp hx)
        simp [this]
      rw [this]; simp
  | some p =>
    simp only
    obtain ⟨h1, ⟨j, hj, hjs⟩, h3⟩ := h.pos_some i p hp
    rw [if_pos h3, hj]
    symm
    apply find?_of_getElem? _ _ p j hj hjs
    intro k hk a ha
    simp [h1 k hk a ha]

theorem abs_eaten_lt_iff {n : Nat} {ranked : List (List Nat)} {st : State} (h : CI n ranked st)
    (i : Fin n) : (absSt n st).eaten i < 1 ↔ (lk st.eaten i.val).isSome = true := by
  simp only [absSt]
  cases he : lk st.eaten i.val with
  | none => simp
  | some e => simpa using h.eaten_lt _ _ he

theorem abs_rem_pos_iff {n : Nat} {ranked : List (List Nat)} {st : State} (h : CI n ranked st)
    (j : Fin n) : 0 < (absSt n st).rem j ↔ (lk st.rem j.val).isSome = true := by
  simp only [absSt]
  cases he : lk st.rem j.val with
  | none => simp
  | some e => simpa using h.rem_pos _ _ he

/-- the abstract `cur` is the concrete `current_item` -/
theorem cur_abs {n : Nat} {ranked : List (List Nat)} {st : State} (hr : RankedOK n ranked)
    (h : CI n ranked st) (i : Fin n) :
    (cur (order n ranked) (absSt n st) i).map Fin.val = curItem ranked st i.val := by
  rw [curItem_spec hr h i.val i.isLt, cur]
  by_cases he : (lk st.eaten i.val).isSome = true
  · rw [if_pos ((abs_eaten_lt_iff h i).mpr he), if_pos he, ← order_map_val hr i, List.find?_map]
    congr 2
    funext j
    simp only [Function.comp]
    by_cases hj : (lk st.rem j.val).isSome = true
    · rw [hj]; simpa using (abs_rem_pos_iff h j).mpr hj
    · have hn : ¬ 0 < (absSt n st).rem j := fun hc => hj ((abs_rem_pos_iff h j).mp hc)
      simp only [Bool.not_eq_true] at hj
      rw [hj]; simpa using hn
  · rw [if_neg (fun hc => he ((abs_eaten_lt_iff h i).mp hc)), if_neg he]
    rfl

theorem cur_abs_eq {n : Nat} {ranked : List (List Nat)} {st : State} (hr : RankedOK n ranked)
    (h : CI n ranked st) (i j : Fin n) :
    cur (order n ranked) (absSt n st) i = some j ↔ curItem ranked st i.val = some j.val := by
  rw [← cur_abs hr h i]
  cases cur (order n ranked) (absSt n st) i with
  | none => simp
  | some j' => simp [Fin.ext_iff]

theorem curItem_lt {n : Nat} {ranked : List (List Nat)} {st : State} (hr : RankedOK n ranked)
    (h : CI n ranked st) (i : Nat) (hi : i < n) (j : Nat) (hj : curItem ranked st i = some j) :
    j < n ∧ (lk st.rem j).isSome = true ∧ (lk st.eaten i).isSome = true := by
  rw [curItem_spec hr h i hi] at hj
  by_cases he : (lk st.eaten i).isSome = true
  · rw [if_pos he] at hj
    have hm := List.mem_of_find?_eq_some hj
    have hq := List.find?_some hj
    exact ⟨(hr.mem i hi j).mp hm, hq, he⟩
  · rw [if_neg he] at hj; cases hj

theorem cur_isSome_abs {n : Nat} {ranked : List (List Nat)} {st : State} (hr : RankedOK n ranked)
    (h : CI n ranked st) (i : Fin n) :
    (cur (order n ranked) (absSt n st) i).isSome = (curItem ranked st i.val).isSome := by
  rw [← cur_abs hr h i]; simp

/-- the abstract total speed is `total_speeds[j]` -/
theorem tot_abs {n : Nat} {ranked : List (List Nat)} {st : State} (hr : RankedOK n ranked)
    (h : CI n ranked st) (speeds : List Rat) (j : Fin n) :
    tot (order n ranked) (sF n speeds) (absSt n st) j = total n ranked speeds st j.val := by
  unfold tot total
  rw [sum_range_map_fin]
  refine Finset.sum_congr rfl (fun i _ => ?_)
  by_cases hc : cur (order n ranked) (absSt n st) i = some j
  · rw [if_pos hc, if_pos ((cur_abs_eq hr h i j).mp hc)]; rfl
  · rw [if_neg hc, if_neg (fun hc' => hc ((cur_abs_eq hr h i j).mpr hc'))]

end Eat
