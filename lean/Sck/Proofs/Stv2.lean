import Sck.Model.C12Spec
import Sck.Proofs.StvProof

/-! C12, STV half, part 1: the relation "`w` survives some legal elimination sequence", soundness of the
loop and of the replay w.r.t. it, the majority winner, and the `first` tie-breaker. -/

namespace C12

/-! ### the minimum is attained -/

theorem listMin_attained (s : List Nat) (hs : s ≠ []) :
    ∃ j, j < s.length ∧ s.getD j 0 = listMin s := by
  induction s with
  | nil => exact absurd rfl hs
  | cons x xs ihs =>
    cases xs with
    | nil => exact ⟨0, by simp, by simp [listMin]⟩
    | cons y ys =>
      obtain ⟨j, hj, hjv⟩ := ihs (by simp)
      simp only [listMin]
      by_cases hxy : x ≤ listMin (y :: ys)
      · exact ⟨0, by simp, by simp [Nat.min_eq_left hxy]⟩
      · refine ⟨j + 1, by simp at hj ⊢; omega, ?_⟩
        have : min x (listMin (y :: ys)) = listMin (y :: ys) := Nat.min_eq_right (by omega)
        rw [this]
        simpa [List.getD_eq_getElem?_getD] using hjv

theorem mem_argmins_iff (s : List Nat) (d : Nat) :
    d ∈ argmins s ↔ d < s.length ∧ ∀ j, j < s.length → s.getD d 0 ≤ s.getD j 0 := by
  constructor
  · exact mem_argmins s d
  · rintro ⟨hd, hmin⟩
    simp only [argmins, List.mem_filter, List.mem_range, beq_iff_eq]
    refine ⟨hd, ?_⟩
    have hs : s ≠ [] := by intro h; rw [h] at hd; simp at hd
    obtain ⟨j, hj, hjv⟩ := listMin_attained s hs
    have h1 := hmin j hj
    have h2 : listMin s ≤ s.getD d 0 := by
      apply listMin_le
      rw [getD_lt _ _ _ hd]; exact List.getElem_mem hd
    omega

theorem argmins_ne_nil (s : List Nat) (hs : s ≠ []) : argmins s ≠ [] := by
  obtain ⟨j, hj, hjv⟩ := listMin_attained s hs
  intro hempty
  have : j ∈ argmins s := by
    simp only [argmins, List.mem_filter, List.mem_range, beq_iff_eq]
    exact ⟨hj, hjv⟩
  rw [hempty] at this; simp at this

theorem pluralityScores_length (P : List (List Nat)) (w : Nat) : (pluralityScores P w).length = w := by
  simp [pluralityScores]

theorem argmins_scores_ne_nil (P : List (List Nat)) (w : Nat) (hw : 0 < w) :
    argmins (pluralityScores P w) ≠ [] := by
  apply argmins_ne_nil
  intro h
  have := pluralityScores_length P w
  rw [h] at this; simp at this; omega

theorem mem_argmins_scores_lt (P : List (List Nat)) (w d : Nat)
    (hd : d ∈ argmins (pluralityScores P w)) : d < w := by
  have := (mem_argmins _ d hd).1
  rwa [pluralityScores_length] at this

/-! ### legal elimination sequences -/

/-- `StvRun P labels w`: starting from the (reduced) profile `P` whose columns carry the names `labels`,
the alternative `w` is the one that survives SOME sequence of rounds in each of which a column with the
fewest first places (in the current reduced profile) is deleted. -/
inductive StvRun : List (List Nat) → List Nat → Nat → Prop
  | done (P : List (List Nat)) (a : Nat) : StvRun P [a] a
  | step (P : List (List Nat)) (labels : List Nat) (d w : Nat) :
      2 ≤ labels.length → d ∈ argmins (pluralityScores P labels.length) →
      StvRun (P.map (fun row => dropRow row d)) (labels.eraseIdx d) w → StvRun P labels w

/-- the loop, with ANY tie-breaker that picks one of the minimal alternatives, performs a legal run -/
theorem stvLoop_sound (choose : List Nat → Nat) (hchoose : ∀ c, c ≠ [] → choose c ∈ c) :
    ∀ fuel P labels w, stvLoop choose fuel P labels = some w → StvRun P labels w := by
  intro fuel
  induction fuel with
  | zero => intro P labels w h; simp [stvLoop] at h
  | succ fuel ih =>
    intro P labels w h
    match labels, h with
    | [], h => simp [stvLoop] at h
    | [a], h =>
      simp only [stvLoop, Option.some.injEq] at h
      subst h; exact StvRun.done P a
    | a :: b :: rest, h =>
      simp only [stvLoop] at h
      have hne := argmins_scores_ne_nil P (a :: b :: rest).length (by simp)
      exact StvRun.step P (a :: b :: rest) _ w (by simp) (hchoose _ hne) (ih _ _ _ h)

/-- the loop never gets stuck: with enough fuel and a legal tie-breaker it returns an alternative -/
theorem stvLoop_total (choose : List Nat → Nat) (hchoose : ∀ c, c ≠ [] → choose c ∈ c) :
    ∀ fuel P labels, labels ≠ [] → labels.length ≤ fuel → ∃ w, stvLoop choose fuel P labels = some w := by
  intro fuel
  induction fuel with
  | zero =>
    intro P labels hne hl
    cases labels with
    | nil => exact absurd rfl hne
    | cons a as => simp at hl
  | succ fuel ih =>
    intro P labels hne hl
    match labels, hne, hl with
    | [], hne, _ => exact absurd rfl hne
    | [a], _, _ => exact ⟨a, by simp [stvLoop]⟩
    | a :: b :: rest, _, hl =>
      simp only [stvLoop]
      have hne := argmins_scores_ne_nil P (a :: b :: rest).length (by simp)
      have hd := mem_argmins_scores_lt _ _ _ (hchoose _ hne)
      apply ih
      · intro h
        have := congrArg List.length h
        rw [List.length_eraseIdx_of_lt hd] at this
        simp at this
      · rw [List.length_eraseIdx_of_lt hd]; simp at hl ⊢; omega

/-- a successful replay of a recorded elimination sequence is a legal run -/
theorem stvReplay_sound : ∀ choices P labels w, stvReplay choices P labels = some w → StvRun P labels w := by
  intro choices
  induction choices with
  | nil =>
    intro P labels w h
    match labels, h with
    | [], h => simp [stvReplay] at h
    | [a], h =>
      simp only [stvReplay, Option.some.injEq] at h
      subst h; exact StvRun.done P a
    | a :: b :: rest, h => simp [stvReplay] at h
  | cons d ds ih =>
    intro P labels w h
    match labels, h with
    | [], h => simp [stvReplay] at h
    | [a], h =>
      simp only [stvReplay, Option.some.injEq] at h
      subst h; exact StvRun.done P a
    | a :: b :: rest, h =>
      simp only [stvReplay] at h
      split at h
      · rename_i hc
        rw [List.contains_iff_mem] at hc
        exact StvRun.step P (a :: b :: rest) d w (by simp) hc (ih _ _ _ h)
      · exact absurd h (by simp)

/-- conversely every legal run is the replay of some recorded sequence (so `StvRun` is exactly
"the result of some successful replay") -/
theorem stvReplay_complete (P : List (List Nat)) (labels : List Nat) (w : Nat) (h : StvRun P labels w) :
    ∃ choices, stvReplay choices P labels = some w := by
  induction h with
  | done P a => exact ⟨[], by simp [stvReplay]⟩
  | step P labels d w h2 hd _ ih =>
    obtain ⟨ds, hds⟩ := ih
    refine ⟨d :: ds, ?_⟩
    match labels, h2, hd, hds with
    | a :: b :: rest, _, hd, hds =>
      simp only [stvReplay]
      rw [if_pos (by rw [List.contains_iff_mem]; exact hd)]
      exact hds

/-- the `first` loop result is also the result of a replay -/
theorem stvRun_iff_replay (P : List (List Nat)) (labels : List Nat) (w : Nat) :
    StvRun P labels w ↔ ∃ choices, stvReplay choices P labels = some w :=
  ⟨stvReplay_complete P labels w, fun ⟨c, hc⟩ => stvReplay_sound c P labels w hc⟩

/-! ### the majority favourite survives every legal run -/

theorem stvRun_majority (P : List (List Nat)) (labels : List Nat) (w : Nat) (h : StvRun P labels w) :
    ∀ a0 k, StvInv P labels a0 k → w = a0 := by
  induction h with
  | done P a =>
    intro a0 k hinv
    have hk : k < [a].length := (List.getElem?_eq_some_iff.mp hinv.pos).1
    have : k = 0 := by simp at hk; exact hk
    subst this
    have := hinv.pos; simp at this; exact this
  | step P labels d w h2 hd _ ih =>
    intro a0 k hinv
    obtain ⟨hdk, hdl⟩ := argmin_ne_majority P labels a0 k d hinv h2 hd
    exact ih a0 _ (stv_step_inv P labels a0 k d hinv hdk hdl)

/-! ### the `first` tie-breaker drops the lowest-numbered minimal column -/

theorem argmins_sorted (s : List Nat) : (argmins s).Pairwise (· < ·) := by
  unfold argmins
  exact List.Pairwise.filter _ List.pairwise_lt_range

theorem argmins_head_le (s : List Nat) (h : argmins s ≠ []) : ∀ j ∈ argmins s, (argmins s).head h ≤ j := by
  intro j hj
  have hs := argmins_sorted s
  generalize argmins s = l at h hj hs
  cases l with
  | nil => exact absurd rfl h
  | cons x xs =>
    simp only [List.head_cons]
    rw [List.mem_cons] at hj
    rcases hj with rfl | hj
    · exact Nat.le_refl _
    · exact Nat.le_of_lt ((List.pairwise_cons.mp hs).1 j hj)

theorem headD_eq_head (l : List Nat) (h : l ≠ []) : l.headD 0 = l.head h := by
  cases l with
  | nil => exact absurd rfl h
  | cons x xs => rfl

/-- one round of the `first` loop: the dropped column is the head of the minimal columns … -/
theorem stv_first_step (fuel : Nat) (P : List (List Nat)) (a b : Nat) (rest : List Nat) :
    stvLoop (fun c => c.headD 0) (fuel + 1) P (a :: b :: rest) =
      stvLoop (fun c => c.headD 0) fuel
        (P.map (fun row => dropRow row
          ((argmins (pluralityScores P (rest.length + 2))).head (argmins_scores_ne_nil P _ (by omega)))))
        ((a :: b :: rest).eraseIdx
          ((argmins (pluralityScores P (rest.length + 2))).head (argmins_scores_ne_nil P _ (by omega)))) := by
  simp only [stvLoop, List.length_cons]
  rw [headD_eq_head _ (argmins_scores_ne_nil P _ (by omega))]

/-- … which is a minimal column, and no minimal column has a smaller index -/
theorem stv_first_lowest (P : List (List Nat)) (w : Nat) (hw : 0 < w) :
    (argmins (pluralityScores P w)).head (argmins_scores_ne_nil P w hw) ∈ argmins (pluralityScores P w) ∧
    ∀ j ∈ argmins (pluralityScores P w),
      (argmins (pluralityScores P w)).head (argmins_scores_ne_nil P w hw) ≤ j :=
  ⟨List.head_mem _, argmins_head_le _ _⟩

end C12
