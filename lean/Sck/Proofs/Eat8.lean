import Sck.Proofs.Eat7
import Batteries.Data.List.Perm

/-! C05: the event log of an execution is a trace of the continuous eating process. -/

open Finset

namespace Eat

/-- `profile[i, j]`: agent `i`'s rank of item `j` -/
def rk (P : List (List Nat)) (i j : Nat) : Nat := (P.getD i []).getD j 0

/-- amount of item `j` eaten by agent `i` during the event: `t * s_i` if `j` is what `i` eats -/
def evAmt (speeds : List Rat) (ev : Event) (i j : Nat) : ℚ :=
  if lk ev.cur i = some j then ev.t * spd speeds i else 0

/-- total amount of item `j` eaten by agent `i` during a list of events -/
def amt (speeds : List Rat) (evs : List Event) (i j : Nat) : ℚ :=
  (evs.map (fun ev => evAmt speeds ev i j)).sum

/-- The event `ev` is a correct piece of the continuous process started in the state in which agent `i`
has eaten `X i j` of item `j`: every agent that has eaten less than one unit eats its best-ranked item
with a positive remaining amount, full agents do not eat, and for the duration `ev.t` nothing changes:
no eating agent gets beyond one unit and no item is over-eaten. -/
structure EventOK (n : Nat) (P : List (List Nat)) (speeds : List Rat) (X : Nat → Nat → ℚ)
    (ev : Event) : Prop where
  t_nonneg : 0 ≤ ev.t
  hungry : ∀ i < n, ∑ j ∈ range n, X i j < 1 →
    ∃ j < n, lk ev.cur i = some j ∧ ∑ i' ∈ range n, X i' j < 1 ∧
      (∀ j' < n, rk P i j' < rk P i j → ∑ i' ∈ range n, X i' j' = 1) ∧
      ∑ j ∈ range n, X i j + ev.t * spd speeds i ≤ 1
  full : ∀ i < n, ¬ ∑ j ∈ range n, X i j < 1 → lk ev.cur i = none
  item : ∀ j < n, ∑ i ∈ range n, (X i j + evAmt speeds ev i j) ≤ 1

/-- a list of events is a trace of the process from state `X` that ends with every agent having eaten
exactly one unit -/
def TraceFrom (n : Nat) (P : List (List Nat)) (speeds : List Rat) :
    (Nat → Nat → ℚ) → List Event → Prop
  | X, [] => ∀ i < n, ∑ j ∈ range n, X i j = 1
  | X, ev :: evs => EventOK n P speeds X ev ∧ TraceFrom n P speeds (fun i j => X i j + evAmt speeds ev i j) evs

theorem EventOK_congr {n : Nat} {P : List (List Nat)} {speeds : List Rat} {X Y : Nat → Nat → ℚ}
    (hXY : ∀ i < n, ∀ j < n, X i j = Y i j) {ev : Event} (h : EventOK n P speeds X ev) :
    EventOK n P speeds Y ev := by
  have e1 : ∀ i < n, ∑ j ∈ range n, X i j = ∑ j ∈ range n, Y i j := fun i hi =>
    Finset.sum_congr rfl (fun j hj => hXY i hi j (Finset.mem_range.mp hj))
  have e2 : ∀ j < n, ∑ i ∈ range n, X i j = ∑ i ∈ range n, Y i j := fun j hj =>
    Finset.sum_congr rfl (fun i hi => hXY i (Finset.mem_range.mp hi) j hj)
  refine ⟨h.t_nonneg, ?_, ?_, ?_⟩
  · intro i hi hlt
    rw [← e1 i hi] at hlt
    obtain ⟨j, hj, hc, h1, h2, h3⟩ := h.hungry i hi hlt
    refine ⟨j, hj, hc, ?_, ?_, ?_⟩
    · rw [← e2 j hj]; exact h1
    · intro j' hj' hlt'; rw [← e2 j' hj']; exact h2 j' hj' hlt'
    · rw [← e1 i hi]; exact h3
  · intro i hi hn
    rw [← e1 i hi] at hn
    exact h.full i hi hn
  · intro j hj
    have : ∑ i ∈ range n, (Y i j + evAmt speeds ev i j) = ∑ i ∈ range n, (X i j + evAmt speeds ev i j) :=
      Finset.sum_congr rfl (fun i hi => by rw [hXY i (Finset.mem_range.mp hi) j hj])
    rw [this]; exact h.item j hj

theorem TraceFrom_congr {n : Nat} {P : List (List Nat)} {speeds : List Rat} (evs : List Event) :
    ∀ {X Y : Nat → Nat → ℚ}, (∀ i < n, ∀ j < n, X i j = Y i j) →
      TraceFrom n P speeds X evs → TraceFrom n P speeds Y evs := by
  induction evs with
  | nil =>
    intro X Y hXY h i hi
    rw [← h i hi]
    exact Finset.sum_congr rfl (fun j hj => (hXY i hi j (Finset.mem_range.mp hj)).symm)
  | cons ev evs ih =>
    intro X Y hXY h
    exact ⟨EventOK_congr hXY h.1, ih (fun i hi j hj => by rw [hXY i hi j hj]) h.2⟩

/-! ### strict rows: earlier in `ranked_items` ⇔ smaller rank -/

theorem nodup_of_wf_row {n : Nat} (row : List Nat) (hl : row.length = n)
    (hc : ∀ r < n, r + 1 ∈ row) : row.Nodup := by
  have hnd : ((List.range n).map (· + 1)).Nodup :=
    List.Nodup.map (fun a b h => by simpa using h) List.nodup_range
  have hsub : (List.range n).map (· + 1) ⊆ row := by
    intro x hx
    obtain ⟨r, hr, rfl⟩ := List.mem_map.mp hx
    exact hc r (List.mem_range.mp hr)
  have hp := (List.subperm_of_subset hnd hsub).perm_of_length_le (by simp [hl])
  exact hp.nodup_iff.mp hnd

/-- `ranked_items` is sorted by strictly increasing rank -/
def BestOK (n : Nat) (P : List (List Nat)) (ranked : List (List Nat)) : Prop :=
  ∀ i < n, ∀ p q j j' : Nat, (ranked.getD i [])[p]? = some j → (ranked.getD i [])[q]? = some j' →
    (q < p ↔ rk P i j' < rk P i j)

theorem bestOK_of_wf {n : Nat} {P : List (List Nat)} {speeds : List Rat} (h : EatWf n P speeds) :
    BestOK n P (P.map rankedOf) := by
  intro i hi p q j j' hp hq
  have hi' : i < P.length := by rw [h.plen]; exact hi
  have hrow : (P.map rankedOf).getD i [] = rankedOf P[i] := by simp [hi']
  have hPi : P.getD i [] = P[i] := by simp [hi']
  obtain ⟨hlen, hcont⟩ := h.rows _ (List.getElem_mem hi')
  have hnd := nodup_of_wf_row P[i] hlen hcont
  rw [hrow] at hp hq
  unfold rankedOf at hp hq
  have hkey : ∀ a, keyOf (P[i].map some) a = rk P i a := by
    intro a
    unfold keyOf rk
    rw [hPi]
    by_cases ha : a < P[i].length
    · simp [ha]
    · simp [Nat.le_of_not_lt ha]
  have hstrict : StrictRow (P[i].map some) := by
    intro a b ha hb hab
    have ha' : a < P[i].length := by
      have := (mem_plistOfRow _ a).mp ha; simpa using this.1
    have hb' : b < P[i].length := by
      have := (mem_plistOfRow _ b).mp hb; simpa using this.1
    rw [hkey, hkey] at hab
    unfold rk at hab
    rw [hPi] at hab
    have : P[i][a] = P[i][b] := by simpa [ha', hb'] using hab
    exact (List.getElem_inj hnd).mp this
  have := plistOfRow_index_lt_iff (P[i].map some) hstrict q p j' j hq hp
  rw [hkey, hkey] at this
  exact this

/-! ### executions are traces -/

variable {n : Nat} {P : List (List Nat)} {ranked : List (List Nat)} {speeds : List Rat}

theorem row_sum_abs {st : State} (h : CI n ranked st) (i : Nat) (hi : i < n) :
    ∑ j ∈ range n, mget st.mat i j = (lk st.eaten i).getD 1 := by
  rw [Finset.sum_range]
  exact (h.inv.row ⟨i, hi⟩).symm

theorem col_sum_abs {st : State} (h : CI n ranked st) (j : Nat) (hj : j < n) :
    ∑ i ∈ range n, mget st.mat i j = 1 - (lk st.rem j).getD 0 := by
  rw [Finset.sum_range]
  have := h.inv.col ⟨j, hj⟩
  simp only [absSt] at this
  linarith

theorem mget_applyT {st : State} (t : Rat) (i j : Nat) (hi : i < n) (hj : j < n) :
    mget (applyT n ranked speeds st t).mat i j =
      mget st.mat i j + evAmt speeds (mkEvent n ranked st t) i j := by
  rw [applyT_mat, mget_mk n _ i j hi hj]
  have hc : lk (mkEvent n ranked st t).cur i = curItem ranked st i := lk_mk n _ i hi
  unfold evAmt
  rw [hc]
  rfl

/-- one executed event is a correct piece of the process -/
theorem eventOK_of_step (hr : RankedOK n ranked) (hb : BestOK n P ranked)
    (hs : ∀ i < n, 0 < spd speeds i) {st : State} (h : CI n ranked st) (hx : exitNow st = false)
    (t : Rat) (ha : AdmC n ranked speeds st t) :
    EventOK n P speeds (fun i j => mget st.mat i j) (mkEvent n ranked st t) := by
  have hcur : ∀ i < n, lk (mkEvent n ranked st t).cur i = curItem ranked st i :=
    fun i hi => lk_mk n _ i hi
  refine ⟨ha.nonneg, ?_, ?_, ?_⟩
  · intro i hi hlt
    rw [row_sum_abs h i hi] at hlt
    cases he : lk st.eaten i with
    | none => rw [he] at hlt; simp at hlt
    | some e =>
      have hcs := body_cur hr h hx i hi (by rw [he]; rfl)
      obtain ⟨j, hj⟩ := Option.isSome_iff_exists.mp hcs
      obtain ⟨hjn, hjr, _⟩ := curItem_lt hr h i hi j hj
      obtain ⟨r, hr'⟩ := Option.isSome_iff_exists.mp hjr
      refine ⟨j, hjn, by rw [hcur i hi, hj], ?_, ?_, ?_⟩
      · rw [col_sum_abs h j hjn, hr']
        have := h.rem_pos j r hr'
        simp only [Option.getD_some]; linarith
      · intro j' hj'n hlt'
        -- position of `j`
        unfold curItem at hj
        cases hp : lk st.pos i with
        | none => rw [hp] at hj; cases hj
        | some p =>
          rw [hp] at hj
          simp only at hj
          have hj'm : j' ∈ ranked.getD i [] := (hr.mem i hi j').mpr hj'n
          obtain ⟨q, hq, hqe⟩ := List.getElem_of_mem hj'm
          have hq' : (ranked.getD i [])[q]? = some j' := by rw [List.getElem?_eq_getElem hq, hqe]
          have hqp := (hb i hi p q j j' hj hq').mpr hlt'
          have := (h.pos_some i p hp).1 q hqp j' hq'
          rw [col_sum_abs h j' hj'n, this]; simp
      · rw [row_sum_abs h i hi, he]
        have := ha.agent i hi e he
        have ht : (mkEvent n ranked st t).t = t := rfl
        rw [ht]
        simp only [Option.getD_some]; linarith
  · intro i hi hn
    rw [row_sum_abs h i hi] at hn
    rw [hcur i hi]
    cases hc : curItem ranked st i with
    | none => rfl
    | some j =>
      obtain ⟨e, he⟩ := Option.isSome_iff_exists.mp (curItem_lt hr h i hi j hc).2.2
      rw [he] at hn
      exact absurd (h.eaten_lt i e he) (by simpa using hn)
  · intro j hj
    have hci := applyT_CI hr hs h hx t ha
    have : ∑ i ∈ range n, (mget st.mat i j + evAmt speeds (mkEvent n ranked st t) i j) =
        ∑ i ∈ range n, mget (applyT n ranked speeds st t).mat i j :=
      Finset.sum_congr rfl (fun i hi => (mget_applyT t i j (Finset.mem_range.mp hi) hj).symm)
    rw [this, col_sum_abs hci j hj]
    have := hci.inv.rem_nonneg ⟨j, hj⟩
    simp only [absSt] at this
    linarith

theorem amt_cons (ev : Event) (evs : List Event) (i j : Nat) :
    amt speeds (ev :: evs) i j = evAmt speeds ev i j + amt speeds evs i j := by
  simp [amt]

theorem amt_nil (i j : Nat) : amt speeds [] i j = 0 := rfl

/-- an execution is a trace, and the final matrix adds up the events -/
theorem Run.trace (hr : RankedOK n ranked) (hb : BestOK n P ranked)
    (hs : ∀ i < n, 0 < spd speeds i) {st stf : State} {evs : List Event}
    (h : Run n ranked speeds st evs stf) :
    TraceFrom n P speeds (fun i j => mget st.mat i j) evs ∧
    ∀ i < n, ∀ j < n, mget stf.mat i j = mget st.mat i j + amt speeds evs i j := by
  induction h with
  | done st h hx =>
    refine ⟨?_, fun i _ j _ => by rw [amt_nil, add_zero]⟩
    exact (final_sums hr h hx).1
  | next st t evs stf h hx _ ha _ ih =>
    obtain ⟨ih1, ih2⟩ := ih
    refine ⟨⟨eventOK_of_step hr hb hs h hx t ha, ?_⟩, ?_⟩
    · exact TraceFrom_congr evs (fun i hi j hj => mget_applyT t i j hi hj) ih1
    · intro i hi j hj
      rw [ih2 i hi j hj, mget_applyT t i j hi hj, amt_cons, add_assoc]

end Eat
