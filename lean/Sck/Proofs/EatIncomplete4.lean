import Sck.Proofs.EatIncomplete3
import Sck.Proofs.BvnFull3

/-! C07 (incomplete profiles), part 4: the lottery of `SimultaneousEating.scf` on an incomplete profile — the
decomposition of the eating matrix hands out exactly the pairs `(i, j)` with a positive share, so every
unacceptable share of the matrix IS an unacceptable allocation of positive probability. -/

open Finset

/-- a positive reconstructed entry comes from a term of the decomposition -/
theorem reconEntry_pos_exists (n : ℕ) (out : List (Rat × List ℕ)) (i j : ℕ)
    (h : 0 < reconEntry n (out.map (·.1)) (out.map (·.2)) i j) :
    ∃ k, ∃ hk : k < out.length, out[k].2.getD i n = j := by
  by_contra hcon
  have hall : ∀ e ∈ out, e.2.getD i n ≠ j := by
    intro e he heq
    obtain ⟨k, hk, rfl⟩ := List.getElem_of_mem he
    exact hcon ⟨k, hk, heq⟩
  have hz : reconEntry n (out.map (·.1)) (out.map (·.2)) i j = 0 := by
    unfold reconEntry sumList
    clear h hcon
    induction out with
    | nil => rfl
    | cons e out ih =>
      simp only [List.map_cons, List.zipWith_cons_cons, List.sum_cons]
      rw [ih (fun e' he' => hall e' (List.mem_cons_of_mem _ he')),
        if_neg (hall e List.mem_cons_self)]
      simp
  rw [hz] at h
  exact lt_irrefl _ h

namespace Eat

variable {n : Nat} {P : List (List (Option Nat))} {speeds : List Rat}

/-- **The lottery on an incomplete profile.** The eating matrix `M` of the real loop is bistochastic, the
Birkhoff–von Neumann loop decomposes it into positive coefficients that sum to `1`, every permutation of the
decomposition is a bijection — and agent `i` holds item `j` in SOME permutation of the decomposition
(i.e. with positive probability) if and only if `0 < M[i][j]`. -/
theorem eatInc_lottery (hn : 0 < n) (hwf : EatIncWf n P speeds) :
    ∃ M out, eatInc n P speeds = some M ∧ isBalancedB n M = some 1 ∧ bvnFull n M = .ok out ∧
      0 < out.length ∧ (∀ e ∈ out, 0 < e.1) ∧ sumList (out.map (·.1)) = 1 ∧
      (∀ e ∈ out, isPermB n e.2 = true) ∧
      ∀ i j, i < n → j < n →
        (0 < matGet M i j ↔ ∃ k, ∃ hk : k < out.length, out[k].2.getD i n = j) := by
  have hwc : eatWfB n (completeFirst P) speeds = true :=
    (eatWfB_iff n _ speeds).mpr (eatWf_completeFirst hwf)
  obtain ⟨M, hM, hbal⟩ := eat_balanced hn hwc
  obtain ⟨out, hout, _, hpos, hperm, hsum, hrecon⟩ :=
    bvnWith_spec n (matchingPairs n) (matchingPairs_ok n) M 1 hbal
  refine ⟨M, out, by rw [eatInc_eq hwf]; exact hM, hbal, hout, out_nonempty_of_sum_one out hsum, hpos,
    hsum, fun e he => (hperm e he).1, ?_⟩
  intro i j hi hj
  constructor
  · intro h
    rw [← hrecon i j hi hj] at h
    exact reconEntry_pos_exists n out i j h
  · rintro ⟨k, hk, rfl⟩
    exact (hperm _ (List.getElem_mem hk)).2 i hi

/-- **The defect at the level of `scf`.** Whenever the eating matrix gives agent `i` a positive share of an
item `j` it marked unacceptable, the lottery returns with positive probability an allocation in which `i`
receives `j`. -/
theorem eatInc_lottery_defect (hn : 0 < n) (hwf : EatIncWf n P speeds) {M : List (List Rat)}
    (hM : eatInc n P speeds = some M) {i j : Nat} (hi : i < n) (hj : j < n) (hpos : 0 < mget M i j) :
    ∃ out, bvnFull n M = .ok out ∧ ∃ k, ∃ hk : k < out.length, 0 < out[k].1 ∧ out[k].2.getD i n = j := by
  obtain ⟨M', out, hM', _, hout, _, hp, _, _, hiff⟩ := eatInc_lottery hn hwf
  rw [hM] at hM'
  cases hM'
  obtain ⟨k, hk, hkj⟩ := (hiff i j hi hj).mp hpos
  exact ⟨out, hout, k, hk, hp _ (List.getElem_mem hk), hkj⟩

end Eat
