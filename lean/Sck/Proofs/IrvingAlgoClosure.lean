import Sck.Proofs.IrvingAlgo
import Sck.Props.C08

/-! Picard's reduction for the mirror of `find_maximum_weight_closed_subset`: the set returned by
`IrvingAlgo.closedSubset` is a maximum-weight closed subset of the poset graph it was given (by max-flow/min-cut,
`C08_ff_maxflow_mincut`). -/

open Finset

namespace IrvingAlgo

open Irving

/-! ### the capacities of `closedNet` -/

theorem mem_closedNet_edges (succs : List (List Nat)) (ws : List Int) (e : Int × Int × Nat) :
    e ∈ (closedNet succs ws).edges ↔
      (∃ pi, pi < succs.length ∧ ws.getD pi 0 < 0 ∧ e = (-1, Int.ofNat pi, (-(ws.getD pi 0)).toNat)) ∨
      (∃ pi, pi < succs.length ∧ ((∃ rho ∈ succs.getD pi [], e = (Int.ofNat pi, Int.ofNat rho, maxsize)) ∨
        (0 < ws.getD pi 0 ∧ e = (Int.ofNat pi, -2, (ws.getD pi 0).toNat)))) := by
  simp only [closedNet, List.mem_append, List.mem_map, List.mem_filter, List.mem_range, decide_eq_true_eq,
    List.mem_flatMap]
  constructor
  · rintro (⟨pi, ⟨h1, h2⟩, rfl⟩ | ⟨pi, h1, (⟨rho, hr, rfl⟩ | h3)⟩)
    · exact Or.inl ⟨pi, h1, h2, rfl⟩
    · exact Or.inr ⟨pi, h1, Or.inl ⟨rho, hr, rfl⟩⟩
    · split at h3
      · rename_i hpos
        simp only [List.mem_singleton] at h3
        exact Or.inr ⟨pi, h1, Or.inr ⟨hpos, h3⟩⟩
      · simp at h3
  · rintro (⟨pi, h1, h2, rfl⟩ | ⟨pi, h1, (⟨rho, hr, rfl⟩ | ⟨hpos, rfl⟩)⟩)
    · exact Or.inl ⟨pi, ⟨h1, h2⟩, rfl⟩
    · exact Or.inr ⟨pi, h1, Or.inl ⟨rho, hr, rfl⟩⟩
    · refine Or.inr ⟨pi, h1, Or.inr ?_⟩
      rw [if_pos hpos]; simp

variable {succs : List (List Nat)} {ws : List Int}

theorem cap_s_node (hwf : (closedNet succs ws).WF') (pi : Nat) (hpi : pi < succs.length) :
    (closedNet succs ws).cap (-1) (Int.ofNat pi) = max (-(ws.getD pi 0)) 0 := by
  by_cases hneg : ws.getD pi 0 < 0
  · rw [cap_of_edge hwf ((mem_closedNet_edges succs ws _).mpr (Or.inl ⟨pi, hpi, hneg, rfl⟩))]
    rw [Int.toNat_of_nonneg (by omega)]; omega
  · have h0 : ¬ 0 < (closedNet succs ws).cap (-1) (Int.ofNat pi) := by
      intro hpos
      obtain ⟨c, hc⟩ := cap_pos_edge hpos
      rcases (mem_closedNet_edges succs ws _).mp hc with ⟨p, _, h2, he⟩ | ⟨p, _, (⟨rho, _, he⟩ | ⟨_, he⟩)⟩
      · simp only [Prod.mk.injEq, true_and] at he
        have : pi = p := by have := he.1; simpa using this
        subst this; exact hneg h2
      · simp only [Prod.mk.injEq] at he
        have := he.1; simp at this
      · simp only [Prod.mk.injEq] at he
        have := he.1; simp at this
    have := cap_nonneg (closedNet succs ws) (-1) (Int.ofNat pi)
    omega

theorem cap_node_t (hwf : (closedNet succs ws).WF') (pi : Nat) (hpi : pi < succs.length) :
    (closedNet succs ws).cap (Int.ofNat pi) (-2) = max (ws.getD pi 0) 0 := by
  by_cases hp : 0 < ws.getD pi 0
  · rw [cap_of_edge hwf ((mem_closedNet_edges succs ws _).mpr (Or.inr ⟨pi, hpi, Or.inr ⟨hp, rfl⟩⟩))]
    rw [Int.toNat_of_nonneg (by omega)]; omega
  · have h0 : ¬ 0 < (closedNet succs ws).cap (Int.ofNat pi) (-2) := by
      intro hpos
      obtain ⟨c, hc⟩ := cap_pos_edge hpos
      rcases (mem_closedNet_edges succs ws _).mp hc with ⟨p, _, h2, he⟩ | ⟨p, _, (⟨rho, _, he⟩ | ⟨h2, he⟩)⟩
      · simp only [Prod.mk.injEq] at he
        have := he.1; simp at this
      · simp only [Prod.mk.injEq] at he
        have := he.2.1; simp at this
      · simp only [Prod.mk.injEq] at he
        have : pi = p := by have := he.1; simpa using this
        subst this; exact hp h2
    have := cap_nonneg (closedNet succs ws) (Int.ofNat pi) (-2)
    omega

theorem cap_s_t : (closedNet succs ws).cap (-1) (-2) = 0 := by
  have h0 : ¬ 0 < (closedNet succs ws).cap (-1) (-2) := by
    intro hpos
    obtain ⟨c, hc⟩ := cap_pos_edge hpos
    rcases (mem_closedNet_edges succs ws _).mp hc with ⟨p, _, h2, he⟩ | ⟨p, _, (⟨rho, _, he⟩ | ⟨h2, he⟩)⟩
    · simp only [Prod.mk.injEq] at he
      have := he.2.1; simp at this
    · simp only [Prod.mk.injEq] at he
      have := he.1; simp at this
    · simp only [Prod.mk.injEq] at he
      have := he.1; simp at this
  have := cap_nonneg (closedNet succs ws) (-1) (-2)
  omega

theorem cap_succ (hwf : (closedNet succs ws).WF') (pi rho : Nat) (hpi : pi < succs.length)
    (hr : rho ∈ succs.getD pi []) : (closedNet succs ws).cap (Int.ofNat pi) (Int.ofNat rho) = maxsize :=
  cap_of_edge hwf ((mem_closedNet_edges succs ws _).mpr (Or.inr ⟨pi, hpi, Or.inl ⟨rho, hr, rfl⟩⟩))

theorem succ_of_cap_pos (p a : Nat) (h : 0 < (closedNet succs ws).cap (Int.ofNat p) (Int.ofNat a)) :
    a ∈ succs.getD p [] := by
  obtain ⟨c, hc⟩ := cap_pos_edge h
  rcases (mem_closedNet_edges succs ws _).mp hc with ⟨q, _, h2, he⟩ | ⟨q, _, (⟨rho, hr, he⟩ | ⟨h2, he⟩)⟩
  · simp only [Prod.mk.injEq] at he
    have := he.1; simp at this
  · simp only [Prod.mk.injEq] at he
    have e1 : p = q := by have := he.1; simpa using this
    have e2 : a = rho := by have := he.2.1; simpa using this
    subst e1; subst e2; exact hr
  · simp only [Prod.mk.injEq] at he
    have := he.2.1; simp at this

/-! ### cuts of the form `{s} ∪ (nodes \ A)` -/

/-- the nodes `0..k-1` as integers -/
def KI (k : Nat) : Finset Int := ((List.range k).map Int.ofNat).toFinset

theorem mem_KI {k : Nat} {v : Int} : v ∈ KI k ↔ ∃ i, i < k ∧ v = Int.ofNat i := by
  simp only [KI, List.mem_toFinset, List.mem_map, List.mem_range]
  constructor
  · rintro ⟨i, hi, rfl⟩; exact ⟨i, hi, rfl⟩
  · rintro ⟨i, hi, rfl⟩; exact ⟨i, hi, rfl⟩

theorem KI_nonneg {k : Nat} {v : Int} (h : v ∈ KI k) : 0 ≤ v := by
  obtain ⟨i, _, rfl⟩ := mem_KI.mp h; exact Int.natCast_nonneg i

/-- source side of the cut whose sink side is `{t} ∪ A` -/
def SA (k : Nat) (A : Finset Int) : Finset Int := insert (-1) (KI k \ A)

theorem verts_closedNet (succs : List (List Nat)) (ws : List Int) :
    (closedNet succs ws).verts.toFinset = insert (-1) (insert (-2) (KI succs.length)) := by
  simp [closedNet, KI]

theorem sdiff_SA (k : Nat) (A : Finset Int) (hA : A ⊆ KI k) :
    insert (-1) (insert (-2) (KI k)) \ SA k A = insert (-2) A := by
  ext x
  simp only [SA, mem_sdiff, mem_insert, not_or, not_and, not_not]
  constructor
  · rintro ⟨h1 | h1 | h1, h2, h3⟩
    · exact absurd h1 h2
    · exact Or.inl h1
    · exact Or.inr (h3 h1)
  · rintro (h | h)
    · subst h
      refine ⟨Or.inr (Or.inl rfl), by decide, fun hk => ?_⟩
      have := KI_nonneg hk; omega
    · have hk := hA h
      refine ⟨Or.inr (Or.inr hk), ?_, fun _ => h⟩
      have := KI_nonneg hk; omega

theorem cutCap_SA (cap : Int → Int → Int) (k : Nat) (A : Finset Int) (hA : A ⊆ KI k) :
    cutCap (insert (-1) (insert (-2) (KI k))) cap (SA k A) =
      (cap (-1) (-2) + ∑ a ∈ A, cap (-1) a) + ∑ p ∈ KI k \ A, (cap p (-2) + ∑ a ∈ A, cap p a) := by
  have h2 : (-2 : Int) ∉ A := fun h => by have := KI_nonneg (hA h); omega
  have h1 : (-1 : Int) ∉ KI k \ A := fun h => by have := KI_nonneg (mem_sdiff.mp h).1; omega
  unfold cutCap
  rw [sdiff_SA k A hA]
  unfold SA
  rw [sum_insert h1, sum_insert h2]
  congr 1
  exact sum_congr rfl (fun p _ => sum_insert h2)

/-- weight, positive part and negative part of an integer-labelled node -/
def wI (ws : List Int) (v : Int) : Int := ws.getD v.toNat 0
def posI (ws : List Int) (v : Int) : Int := max (wI ws v) 0
def negI (ws : List Int) (v : Int) : Int := max (-(wI ws v)) 0

/-- `Σ neg over A + Σ pos over the rest`: the capacity of the cut `SA A` without the poset edges -/
def cutU (ws : List Int) (k : Nat) (A : Finset Int) : Int := ∑ a ∈ A, negI ws a + ∑ p ∈ KI k \ A, posI ws p

theorem weight_eq (ws : List Int) (k : Nat) (A : Finset Int) (hA : A ⊆ KI k) :
    ∑ a ∈ A, wI ws a = ∑ p ∈ KI k, posI ws p - cutU ws k A := by
  have h1 : ∑ a ∈ A, wI ws a = ∑ a ∈ A, posI ws a - ∑ a ∈ A, negI ws a := by
    rw [← sum_sub_distrib]
    exact sum_congr rfl (fun a _ => by unfold posI negI; omega)
  have h2 : ∑ p ∈ KI k \ A, posI ws p + ∑ a ∈ A, posI ws a = ∑ p ∈ KI k, posI ws p := sum_sdiff hA
  unfold cutU
  omega

theorem cutCap_closedNet_SA (hwf : (closedNet succs ws).WF') (A : Finset Int) (hA : A ⊆ KI succs.length) :
    cutCap (closedNet succs ws).verts.toFinset (closedNet succs ws).cap (SA succs.length A) =
      cutU ws succs.length A + ∑ p ∈ KI succs.length \ A, ∑ a ∈ A, (closedNet succs ws).cap p a := by
  rw [verts_closedNet, cutCap_SA _ _ A hA, cap_s_t, sum_add_distrib]
  have e1 : ∑ a ∈ A, (closedNet succs ws).cap (-1) a = ∑ a ∈ A, negI ws a := by
    refine sum_congr rfl (fun a ha => ?_)
    obtain ⟨i, hi, rfl⟩ := mem_KI.mp (hA ha)
    rw [cap_s_node hwf i hi]; rfl
  have e2 : ∑ p ∈ KI succs.length \ A, (closedNet succs ws).cap p (-2) = ∑ p ∈ KI succs.length \ A, posI ws p := by
    refine sum_congr rfl (fun p hp => ?_)
    obtain ⟨i, hi, rfl⟩ := mem_KI.mp (mem_sdiff.mp hp).1
    rw [cap_node_t hwf i hi]; rfl
  rw [e1, e2]
  unfold cutU
  omega

/-! ### the minimum cut gives a maximum-weight closed set -/

theorem KI_eq_image (k : Nat) : KI k = (Finset.range k).image Int.ofNat := by
  ext v
  rw [mem_KI, mem_image]
  constructor
  · rintro ⟨i, hi, rfl⟩; exact ⟨i, mem_range.mpr hi, rfl⟩
  · rintro ⟨i, hi, rfl⟩; exact ⟨i, mem_range.mp hi, rfl⟩

theorem sum_image_ofNat (T : Finset Nat) (g : Int → Int) :
    ∑ v ∈ T.image Int.ofNat, g v = ∑ x ∈ T, g (Int.ofNat x) :=
  sum_image (fun a _ b _ h => Int.ofNat.inj h)

/-- what max-flow/min-cut says about the cut `S` returned for `closedNet`: with `A = nodes \ S`,
(1) no poset edge leaves `S` (so `A` is closed under predecessors), provided the total negative weight is below
`sys.maxsize`; (2) `A` has maximum weight among the sets `T` of nodes into which no edge enters from outside. -/
theorem mincut_closedNet (hwfB : netWfB (closedNet succs ws) = true) (fuel : Nat) (f : Flow) (S : List Int)
    (hff : ff (closedNet succs ws) fuel = .ok (f, S))
    (hbig : ∑ p ∈ KI succs.length, negI ws p < maxsize) :
    (∀ p a, p < succs.length → a ∈ succs.getD p [] → a < succs.length → Int.ofNat a ∉ S → Int.ofNat p ∉ S) ∧
    (∀ T : Finset Int, T ⊆ KI succs.length →
      (∀ p ∈ KI succs.length \ T, ∀ a ∈ T, (closedNet succs ws).cap p a = 0) →
      ∑ v ∈ T, wI ws v ≤ ∑ v ∈ KI succs.length \ S.toFinset, wI ws v) := by
  have hwf := (netWfB_iff _).mp hwfB
  obtain ⟨_, _, ⟨hs, ht, hsub, _⟩, hmin⟩ := C08_ff_maxflow_mincut _ hwfB fuel f S hff
  have hs' : (-1 : Int) ∈ S := hs
  have ht' : (-2 : Int) ∉ S := ht
  -- the returned cut is of the form `SA A`
  have hSA : SA succs.length (KI succs.length \ S.toFinset) = S.toFinset := by
    ext x
    simp only [SA, mem_insert, mem_sdiff, not_and, not_not, List.mem_toFinset]
    constructor
    · rintro (rfl | ⟨h1, h2⟩)
      · exact hs'
      · exact h2 h1
    · intro hx
      have hv : x ∈ (closedNet succs ws).verts.toFinset := List.mem_toFinset.mpr (hsub x hx)
      rw [verts_closedNet] at hv
      simp only [mem_insert] at hv
      rcases hv with rfl | rfl | hv
      · exact Or.inl rfl
      · exact absurd hx ht'
      · exact Or.inr ⟨hv, fun _ => hx⟩
  have hAsub : KI succs.length \ S.toFinset ⊆ KI succs.length := sdiff_subset
  have hcutS := cutCap_closedNet_SA hwf _ hAsub
  rw [hSA] at hcutS
  have hcross : 0 ≤ ∑ p ∈ KI succs.length \ (KI succs.length \ S.toFinset),
      ∑ a ∈ KI succs.length \ S.toFinset, (closedNet succs ws).cap p a :=
    sum_nonneg (fun p _ => sum_nonneg (fun a _ => cap_nonneg _ p a))
  -- comparison with the cuts `SA T`
  have hcmp : ∀ T : Finset Int, T ⊆ KI succs.length →
      cutCap (closedNet succs ws).verts.toFinset (closedNet succs ws).cap S.toFinset ≤
        cutCap (closedNet succs ws).verts.toFinset (closedNet succs ws).cap (SA succs.length T) := by
    intro T _
    refine hmin _ ?_ ?_ ?_
    · rw [verts_closedNet]
      intro x hx
      simp only [SA, mem_insert, mem_sdiff] at hx
      rcases hx with rfl | ⟨h1, _⟩
      · exact mem_insert_self _ _
      · exact mem_insert_of_mem (mem_insert_of_mem h1)
    · exact mem_insert_self _ _
    · intro h
      simp only [SA, mem_insert, mem_sdiff] at h
      rcases h with h | ⟨h1, _⟩
      · change (-2 : Int) = -1 at h
        omega
      · have := KI_nonneg h1
        change (0 : Int) ≤ -2 at this
        omega
  constructor
  · -- no poset edge leaves `S`
    intro p a hp ha hak haS hpS
    have hle := hcmp (KI succs.length) (Subset.refl _)
    rw [cutCap_closedNet_SA hwf _ (Subset.refl _)] at hle
    unfold cutU at hle
    rw [Finset.sdiff_self, Finset.sum_empty, Finset.sum_empty] at hle
    have hterm : (closedNet succs ws).cap (Int.ofNat p) (Int.ofNat a) ≤
        cutCap (closedNet succs ws).verts.toFinset (closedNet succs ws).cap S.toFinset := by
      unfold cutCap
      have hpm : Int.ofNat p ∈ S.toFinset := List.mem_toFinset.mpr hpS
      have ham : Int.ofNat a ∈ (closedNet succs ws).verts.toFinset \ S.toFinset := by
        rw [mem_sdiff, verts_closedNet]
        exact ⟨mem_insert_of_mem (mem_insert_of_mem (mem_KI.mpr ⟨a, hak, rfl⟩)),
          fun h => haS (List.mem_toFinset.mp h)⟩
      calc (closedNet succs ws).cap (Int.ofNat p) (Int.ofNat a)
          ≤ ∑ v ∈ (closedNet succs ws).verts.toFinset \ S.toFinset, (closedNet succs ws).cap (Int.ofNat p) v :=
            single_le_sum (f := fun v => (closedNet succs ws).cap (Int.ofNat p) v)
              (fun v _ => cap_nonneg _ _ v) ham
        _ ≤ _ := single_le_sum
              (f := fun u => ∑ v ∈ (closedNet succs ws).verts.toFinset \ S.toFinset, (closedNet succs ws).cap u v)
              (fun u _ => sum_nonneg (fun v _ => cap_nonneg _ u v)) hpm
    rw [cap_succ hwf p a hp ha] at hterm
    omega
  · intro T hT hclosed
    have hle := hcmp T hT
    rw [cutCap_closedNet_SA hwf T hT] at hle
    have hz : ∑ p ∈ KI succs.length \ T, ∑ a ∈ T, (closedNet succs ws).cap p a = 0 :=
      sum_eq_zero (fun p hp => sum_eq_zero (fun a ha => hclosed p hp a ha))
    rw [weight_eq ws _ T hT, weight_eq ws _ _ hAsub]
    omega

/-! ### the answer of `closedSubset` -/

theorem wI_ofNat (ws : List Int) (x : Nat) : wI ws (Int.ofNat x) = ws.getD x 0 := rfl

/-- **Picard's reduction for the mirror.**  If the network is well formed (`netWfB`: the adjacency lists of the
poset graph are duplicate-free and stay inside `0..k-1`) and the total negative weight is below `sys.maxsize`, then
the set `C` returned by `closedSubset` consists of nodes `< k` and has maximum total weight among ALL subsets of
`0..k-1` that are closed under predecessors (and `C` itself is closed, `closedSubset_closed`). -/
theorem closedSubset_max (succs : List (List Nat)) (rots : List (List Pair)) (V1 V2 : List (List Int))
    (C : List Nat)
    (hwfB : netWfB (closedNet succs (rots.map (rotationWeight V1 V2))) = true)
    (hbig : ∑ i ∈ Finset.range succs.length, max (-((rots.map (rotationWeight V1 V2)).getD i 0)) 0 < maxsize)
    (h : closedSubset succs rots V1 V2 = .ok C) :
    (∀ x ∈ C, x < succs.length) ∧
    ∀ T : Finset Nat, (∀ x ∈ T, x < succs.length) →
      (∀ rho, (∃ x ∈ succs.getD rho [], x ∈ T) → rho ∈ T) →
      ∑ x ∈ T, (rots.map (rotationWeight V1 V2)).getD x 0
        ≤ ∑ x ∈ C.toFinset, (rots.map (rotationWeight V1 V2)).getD x 0 := by
  obtain ⟨f, S, hff, hC⟩ := closedSubset_ok succs rots V1 V2 C h
  generalize rots.map (rotationWeight V1 V2) = ws at *
  have hbig' : ∑ p ∈ KI succs.length, negI ws p < maxsize := by
    rw [KI_eq_image, sum_image_ofNat]; exact hbig
  obtain ⟨hcl, hmax⟩ := mincut_closedNet hwfB _ f S hff hbig'
  -- the sink side of the cut, as a list of naturals
  let Astar : List Nat := (List.range succs.length).filter (fun i => !S.contains (Int.ofNat i))
  have hAmem : ∀ x, x ∈ Astar ↔ x < succs.length ∧ Int.ofNat x ∉ S := by
    intro x
    simp only [Astar, List.mem_filter, List.mem_range, Bool.not_eq_true', ← Bool.not_eq_true,
      List.contains_iff_mem]
  have hAclosed : ClosedUnder succs Astar := by
    rintro rho ⟨x, hx, hxA⟩
    have hrk : rho < succs.length := by
      by_contra hc
      rw [List.getD_eq_getElem?_getD, List.getElem?_eq_none (by omega)] at hx
      simp at hx
    obtain ⟨hxk, hxS⟩ := (hAmem x).mp hxA
    exact (hAmem rho).mpr ⟨hrk, hcl rho x hrk hx hxk hxS⟩
  have hposA : ∀ x ∈ positivesOff succs.length ws S, x ∈ Astar := by
    intro x hx
    simp only [positivesOff, List.mem_filter, List.mem_range, Bool.and_eq_true, decide_eq_true_eq,
      Bool.not_eq_true', ← Bool.not_eq_true, List.contains_iff_mem] at hx
    exact (hAmem x).mpr ⟨hx.1, hx.2.2⟩
  obtain ⟨hsup, _, hleast⟩ := closureOf_spec succs (positivesOff succs.length ws S)
  rw [← hC] at hsup hleast
  have hCA : ∀ x ∈ C, x ∈ Astar := hleast Astar hposA hAclosed
  refine ⟨fun x hx => ((hAmem x).mp (hCA x hx)).1, ?_⟩
  intro T hTk hTcl
  -- `T` as a set of integer nodes
  have hT1 : T.image Int.ofNat ⊆ KI succs.length := by
    intro v hv
    obtain ⟨x, hx, rfl⟩ := mem_image.mp hv
    exact mem_KI.mpr ⟨x, hTk x hx, rfl⟩
  have hT2 : ∀ p ∈ KI succs.length \ T.image Int.ofNat, ∀ a ∈ T.image Int.ofNat,
      (closedNet succs ws).cap p a = 0 := by
    intro p hp a ha
    obtain ⟨hpk, hpT⟩ := mem_sdiff.mp hp
    obtain ⟨i, _, rfl⟩ := mem_KI.mp hpk
    obtain ⟨j, hj, rfl⟩ := mem_image.mp ha
    by_contra hne
    have hpos : 0 < (closedNet succs ws).cap (Int.ofNat i) (Int.ofNat j) := by
      have := cap_nonneg (closedNet succs ws) (Int.ofNat i) (Int.ofNat j); omega
    exact hpT (mem_image.mpr ⟨i, hTcl i ⟨j, succ_of_cap_pos i j hpos, hj⟩, rfl⟩)
  have h1 := hmax _ hT1 hT2
  rw [sum_image_ofNat] at h1
  simp only [wI_ofNat] at h1
  -- from the sink side `A` down to `C`
  have hCsub : C.toFinset.image Int.ofNat ⊆ KI succs.length \ S.toFinset := by
    intro v hv
    obtain ⟨x, hx, rfl⟩ := mem_image.mp hv
    obtain ⟨hxk, hxS⟩ := (hAmem x).mp (hCA x (List.mem_toFinset.mp hx))
    exact mem_sdiff.mpr ⟨mem_KI.mpr ⟨x, hxk, rfl⟩, fun hm => hxS (List.mem_toFinset.mp hm)⟩
  have hrest : ∑ v ∈ (KI succs.length \ S.toFinset) \ C.toFinset.image Int.ofNat, wI ws v ≤ 0 := by
    refine sum_nonpos (fun v hv => ?_)
    obtain ⟨hvA, hvC⟩ := mem_sdiff.mp hv
    obtain ⟨hvk, hvS⟩ := mem_sdiff.mp hvA
    obtain ⟨i, hi, rfl⟩ := mem_KI.mp hvk
    by_contra hpos
    rw [wI_ofNat] at hpos
    have : i ∈ positivesOff succs.length ws S := by
      simp only [positivesOff, List.mem_filter, List.mem_range, Bool.and_eq_true, decide_eq_true_eq,
        Bool.not_eq_true', ← Bool.not_eq_true, List.contains_iff_mem]
      exact ⟨hi, by omega, fun hm => hvS (List.mem_toFinset.mpr hm)⟩
    exact hvC (mem_image.mpr ⟨i, List.mem_toFinset.mpr (hsup i this), rfl⟩)
  have hsplit := sum_sdiff (f := wI ws) hCsub
  rw [sum_image_ofNat] at hsplit
  simp only [wI_ofNat] at hsplit
  omega

end IrvingAlgo

#print axioms IrvingAlgo.closedSubset_max
