import Sck.Proofs.Lattice1
import Mathlib.GroupTheory.Perm.List
import Mathlib.Dynamics.PeriodicPts.Defs
import Mathlib.Data.Fintype.Pigeonhole

/-! # The lattice of stable matchings (C03, package L7), part 2: rotations

Successor woman, rotation exposed in a stable matching, elimination, and the two classical facts
(Irving–Leather 1986; Gusfield–Irving 1989, §2.5): eliminating an exposed rotation gives a stable matching that is
an immediate step down for the men, and whenever `μ ≼ ν`, `μ ≠ ν` are stable there is a rotation `ρ` exposed in `μ`
with `μ/ρ ≼ ν`.  Hence every stable matching is reached from the man-optimal one by eliminating rotations. -/

namespace SMLattice

variable {n : ℕ}

/-- `b` is a candidate for `a` in `μ`: she is below his wife on his list and prefers him to her husband -/
def Cand (P1 P2 : Fin n → Fin n → ℕ) (μ : Equiv.Perm (Fin n)) (a b : Fin n) : Prop :=
  P1 a (μ a) < P1 a b ∧ P2 b a < P2 b (μ.symm b)

/-- `b = s_μ(a)`: the FIRST woman below `μ a` on `a`'s list who prefers `a` to her `μ`-husband -/
def IsSucc (P1 P2 : Fin n → Fin n → ℕ) (μ : Equiv.Perm (Fin n)) (a b : Fin n) : Prop :=
  Cand P1 P2 μ a b ∧ ∀ b', Cand P1 P2 μ a b' → P1 a b ≤ P1 a b'

theorem isSucc_unique {P1 P2 : Fin n → Fin n → ℕ} (h1 : ∀ a, Function.Injective (P1 a))
    {μ : Equiv.Perm (Fin n)} {a b b' : Fin n} (h : IsSucc P1 P2 μ a b) (h' : IsSucc P1 P2 μ a b') : b = b' :=
  h1 a (Nat.le_antisymm (h.2 b' h'.1) (h'.2 b h.1))

/-- a candidate yields a successor that is at least as good -/
theorem exists_isSucc_of_cand {P1 P2 : Fin n → Fin n → ℕ} {μ : Equiv.Perm (Fin n)} {a b0 : Fin n}
    (h : Cand P1 P2 μ a b0) : ∃ b, IsSucc P1 P2 μ a b ∧ P1 a b ≤ P1 a b0 := by
  classical
  obtain ⟨b, hb, hmin⟩ := Finset.exists_min_image (Finset.univ.filter (fun b => Cand P1 P2 μ a b)) (P1 a)
    ⟨b0, by simp [h]⟩
  simp only [Finset.mem_filter, Finset.mem_univ, true_and] at hb hmin
  exact ⟨b, ⟨hb, hmin⟩, hmin b0 h⟩

/-- the rotation `ρ` (a duplicate-free non-empty cyclic list of men; the pairs are `(a, μ a)`, `a ∈ ρ`) is EXPOSED
in `μ`: the successor woman of every man of `ρ` is the wife of the next man of `ρ` -/
def ExposedRot (P1 P2 : Fin n → Fin n → ℕ) (μ : Equiv.Perm (Fin n)) (ρ : List (Fin n)) : Prop :=
  ρ.Nodup ∧ ρ ≠ [] ∧ ∀ a ∈ ρ, IsSucc P1 P2 μ a (μ (ρ.formPerm a))

/-- `μ/ρ`: every man of `ρ` gets the wife of the next man of `ρ`, the others keep theirs -/
def elim (μ : Equiv.Perm (Fin n)) (ρ : List (Fin n)) : Equiv.Perm (Fin n) := ρ.formPerm.trans μ

@[simp] theorem elim_apply (μ : Equiv.Perm (Fin n)) (ρ : List (Fin n)) (a : Fin n) :
    elim μ ρ a = μ (ρ.formPerm a) := rfl

@[simp] theorem elim_symm_apply (μ : Equiv.Perm (Fin n)) (ρ : List (Fin n)) (b : Fin n) :
    (elim μ ρ).symm b = ρ.formPerm.symm (μ.symm b) := rfl

theorem elim_apply_of_notMem (μ : Equiv.Perm (Fin n)) {ρ : List (Fin n)} {a : Fin n} (h : a ∉ ρ) :
    elim μ ρ a = μ a := by rw [elim_apply, List.formPerm_apply_of_notMem h]

theorem formPerm_symm_mem {ρ : List (Fin n)} {c : Fin n} (h : c ∈ ρ) : ρ.formPerm.symm c ∈ ρ := by
  have : ρ.formPerm (ρ.formPerm.symm c) ∈ ρ := by simpa using h
  exact List.formPerm_mem_iff_mem.mp this

/-- every woman weakly prefers her husband in `μ/ρ` -/
theorem elim_women_le {P1 P2 : Fin n → Fin n → ℕ} {μ : Equiv.Perm (Fin n)} {ρ : List (Fin n)}
    (hex : ExposedRot P1 P2 μ ρ) (b : Fin n) : P2 b ((elim μ ρ).symm b) ≤ P2 b (μ.symm b) := by
  rw [elim_symm_apply]
  by_cases hc : μ.symm b ∈ ρ
  · have hc' := formPerm_symm_mem hc
    have := (hex.2.2 _ hc').1.2
    simp only [Equiv.apply_symm_apply] at this
    exact Nat.le_of_lt this
  · have : ρ.formPerm.symm (μ.symm b) = μ.symm b := by
      rw [Equiv.symm_apply_eq, List.formPerm_apply_of_notMem hc]
    rw [this]

/-- **(c)** eliminating a rotation exposed in a stable matching gives a stable matching; every man finds it weakly
worse, the men of the rotation strictly worse -/
theorem exposed_elim_stable {P1 P2 : Fin n → Fin n → ℕ} (h1 : ∀ a, Function.Injective (P1 a))
    {μ : Equiv.Perm (Fin n)} (hμ : StableSM P1 P2 μ) {ρ : List (Fin n)} (hex : ExposedRot P1 P2 μ ρ) :
    StableSM P1 P2 (elim μ ρ) ∧ MLe P1 μ (elim μ ρ) ∧ ∀ a ∈ ρ, P1 a (μ a) < P1 a (elim μ ρ a) := by
  have hlt : ∀ a ∈ ρ, P1 a (μ a) < P1 a (elim μ ρ a) := fun a ha => (hex.2.2 a ha).1.1
  refine ⟨?_, ?_, hlt⟩
  · intro a b ⟨hb1, hb2⟩
    have hb2' : P2 b a < P2 b (μ.symm b) := Nat.lt_of_lt_of_le hb2 (elim_women_le hex b)
    by_cases ha : a ∈ ρ
    · obtain ⟨⟨_, _⟩, hmin⟩ := hex.2.2 a ha
      rw [elim_apply] at hb1
      rcases Nat.lt_trichotomy (P1 a b) (P1 a (μ a)) with hc | hc | hc
      · exact hμ a b ⟨hc, hb2'⟩
      · have : b = μ a := h1 a hc
        rw [this] at hb2'
        simp at hb2'
      · have := hmin b ⟨hc, hb2'⟩
        omega
    · rw [elim_apply_of_notMem μ ha] at hb1
      exact hμ a b ⟨hb1, hb2'⟩
  · intro a
    by_cases ha : a ∈ ρ
    · exact Nat.le_of_lt (hlt a ha)
    · rw [elim_apply_of_notMem μ ha]

/-- **key lemma of (d)**: `μ ≼ ν` stable and `a` has different partners; then `a` has a successor woman in `μ`, he
likes her at least as much as his `ν`-wife, and her `μ`-husband has different partners too -/
theorem succ_of_ne {P1 P2 : Fin n → Fin n → ℕ} (h1 : ∀ a, Function.Injective (P1 a))
    (h2 : ∀ b, Function.Injective (P2 b)) {μ ν : Equiv.Perm (Fin n)} (hν : StableSM P1 P2 ν)
    (hle : MLe P1 μ ν) {a : Fin n} (ha : μ a ≠ ν a) :
    ∃ b, IsSucc P1 P2 μ a b ∧ P1 a b ≤ P1 a (ν a) ∧ μ (μ.symm b) ≠ ν (μ.symm b) := by
  have hw := women_le h1 hν hle
  -- his `ν`-wife is a candidate
  have hc : Cand P1 P2 μ a (ν a) := by
    refine ⟨lt_of_le_of_ne (hle a) (fun h => ha (h1 a h)), ?_⟩
    have h3 := hw (ν a)
    simp only [Equiv.symm_apply_apply] at h3
    have hne : μ.symm (ν a) ≠ a := fun h => ha ((Equiv.symm_apply_eq μ).mp h).symm
    exact lt_of_le_of_ne h3 (fun h => hne (h2 _ h).symm)
  obtain ⟨b, hb, hbl⟩ := exists_isSucc_of_cand hc
  refine ⟨b, hb, hbl, ?_⟩
  simp only [Equiv.apply_symm_apply]
  intro he
  -- otherwise `(a, b)` blocks `ν`
  have e1 : ν.symm b = μ.symm b := (Equiv.symm_apply_eq ν).mpr he
  have hab : a ≠ μ.symm b := by
    intro h
    have : μ a = b := by rw [h]; simp
    have := hb.1.1
    rw [‹μ a = b›] at this
    exact Nat.lt_irrefl _ this
  have hbne : ν a ≠ b := fun h => hab (by rw [← e1, ← h]; simp)
  refine hν a b ⟨lt_of_le_of_ne hbl (fun h => hbne (h1 a h).symm), ?_⟩
  rw [e1]; exact hb.1.2

/-- the "next man" function of `μ`: the husband of the successor woman (the man himself if there is none) -/
noncomputable def nxt (P1 P2 : Fin n → Fin n → ℕ) (μ : Equiv.Perm (Fin n)) (a : Fin n) : Fin n :=
  open Classical in if h : ∃ b, IsSucc P1 P2 μ a b then μ.symm h.choose else a

theorem nxt_eq {P1 P2 : Fin n → Fin n → ℕ} (h1 : ∀ a, Function.Injective (P1 a)) {μ : Equiv.Perm (Fin n)}
    {a b : Fin n} (h : IsSucc P1 P2 μ a b) : nxt P1 P2 μ a = μ.symm b := by
  unfold nxt
  have hex : ∃ b, IsSucc P1 P2 μ a b := ⟨b, h⟩
  rw [dif_pos hex, isSucc_unique h1 hex.choose_spec h]

/-- a periodic orbit of the next-man function on which every man has a successor is an exposed rotation -/
theorem exposed_of_periodic {P1 P2 : Fin n → Fin n → ℕ} (h1 : ∀ a, Function.Injective (P1 a))
    {μ : Equiv.Perm (Fin n)} (y : Fin n) (hper : y ∈ Function.periodicPts (nxt P1 P2 μ))
    (hs : ∀ k, ∃ b, IsSucc P1 P2 μ ((nxt P1 P2 μ)^[k] y) b) :
    ExposedRot P1 P2 μ ((List.range (Function.minimalPeriod (nxt P1 P2 μ) y)).map (fun k => (nxt P1 P2 μ)^[k] y)) := by
  set f := nxt P1 P2 μ with hf
  set r := Function.minimalPeriod f y with hr
  have hrpos : 0 < r := Function.minimalPeriod_pos_of_mem_periodicPts hper
  have hnd : ((List.range r).map (fun k => f^[k] y)).Nodup := by
    refine List.Nodup.map_on ?_ List.nodup_range
    intro i hi j hj hij
    exact (Function.iterate_eq_iterate_iff_of_lt_minimalPeriod (List.mem_range.mp hi) (List.mem_range.mp hj)).mp hij
  refine ⟨hnd, ?_, ?_⟩
  · intro h
    have := congrArg List.length h
    simp at this
    omega
  · intro a ha
    obtain ⟨k, hk, rfl⟩ := List.mem_map.mp ha
    have hk' : k < r := List.mem_range.mp hk
    obtain ⟨b, hb⟩ := hs k
    have hlen : ((List.range r).map (fun k => f^[k] y)).length = r := by simp
    have hget : f^[k] y = ((List.range r).map (fun k => f^[k] y))[k]'(by rw [hlen]; exact hk') := by simp
    have hform : ((List.range r).map (fun k => f^[k] y)).formPerm (f^[k] y) = f (f^[k] y) := by
      conv_lhs => rw [hget]
      rw [List.formPerm_apply_getElem _ hnd]
      simp only [List.getElem_map, List.getElem_range, hlen]
      rw [hr, Function.iterate_mod_minimalPeriod_eq, Function.iterate_succ_apply']
    have hfb : f (f^[k] y) = μ.symm b := by rw [hf]; exact nxt_eq h1 hb
    rw [hform, hfb]
    simpa using hb

/-- **(d)** if `μ ≼ ν` are stable and different, some rotation `ρ` is exposed in `μ` with `μ ≼ μ/ρ ≼ ν` -/
theorem exists_exposed_rotation_between {P1 P2 : Fin n → Fin n → ℕ} (h1 : ∀ a, Function.Injective (P1 a))
    (h2 : ∀ b, Function.Injective (P2 b)) {μ ν : Equiv.Perm (Fin n)} (hμ : StableSM P1 P2 μ)
    (hν : StableSM P1 P2 ν) (hle : MLe P1 μ ν) (hne : μ ≠ ν) :
    ∃ ρ, ExposedRot P1 P2 μ ρ ∧ MLe P1 μ (elim μ ρ) ∧ MLe P1 (elim μ ρ) ν := by
  set f := nxt P1 P2 μ with hf
  obtain ⟨a0, ha0⟩ : ∃ a, μ a ≠ ν a := by
    by_contra hall
    exact hne (Equiv.ext (fun a => by_contra (fun h => hall ⟨a, h⟩)))
  -- all iterates of `a0` have different partners
  have hD : ∀ k, μ (f^[k] a0) ≠ ν (f^[k] a0) := by
    intro k
    induction k with
    | zero => exact ha0
    | succ k ih =>
      obtain ⟨b, hb, _, hb3⟩ := succ_of_ne h1 h2 hν hle ih
      rw [Function.iterate_succ_apply', hf, nxt_eq h1 hb]
      exact hb3
  obtain ⟨i, j, hij, he⟩ := Finite.exists_ne_map_eq_of_infinite (fun k : ℕ => f^[k] a0)
  wlog hlt : i < j generalizing i j
  · exact this j i (Ne.symm hij) he.symm (by omega)
  set y := f^[i] a0 with hy
  have hper : y ∈ Function.periodicPts f := by
    refine Function.mk_mem_periodicPts (n := j - i) (by omega) ?_
    show f^[j - i] y = y
    rw [hy, ← Function.iterate_add_apply]
    have : j - i + i = j := by omega
    rw [this]; exact he.symm
  have hDy : ∀ k, μ (f^[k] y) ≠ ν (f^[k] y) := by
    intro k
    rw [hy, ← Function.iterate_add_apply]
    exact hD _
  have hs : ∀ k, ∃ b, IsSucc P1 P2 μ (f^[k] y) b := fun k => by
    obtain ⟨b, hb, _⟩ := succ_of_ne h1 h2 hν hle (hDy k)
    exact ⟨b, hb⟩
  have hex := exposed_of_periodic h1 y hper hs
  refine ⟨_, hex, (exposed_elim_stable h1 hμ hex).2.1, ?_⟩
  intro a
  by_cases ha : a ∈ (List.range (Function.minimalPeriod f y)).map (fun k => f^[k] y)
  · obtain ⟨k, _, rfl⟩ := List.mem_map.mp ha
    obtain ⟨b, hb, hbl, _⟩ := succ_of_ne h1 h2 hν hle (hDy k)
    have := isSucc_unique h1 (hex.2.2 _ ha) hb
    rw [elim_apply, this]
    exact hbl
  · rw [elim_apply_of_notMem μ ha]
    exact hle a

/-! ### paths of eliminations -/

/-- `ν` is obtained from `μ` by eliminating the rotations of `rots` in this order, each one exposed when its turn
comes -/
def ElimPath (P1 P2 : Fin n → Fin n → ℕ) : Equiv.Perm (Fin n) → List (List (Fin n)) → Equiv.Perm (Fin n) → Prop
  | μ, [], ν => μ = ν
  | μ, ρ :: rest, ν => ExposedRot P1 P2 μ ρ ∧ ElimPath P1 P2 (elim μ ρ) rest ν

/-- total rank the men give their partners -/
def menCost (P1 : Fin n → Fin n → ℕ) (μ : Equiv.Perm (Fin n)) : ℕ := ∑ a, P1 a (μ a)

theorem menCost_le {P1 : Fin n → Fin n → ℕ} {μ ν : Equiv.Perm (Fin n)} (h : MLe P1 μ ν) :
    menCost P1 μ ≤ menCost P1 ν := Finset.sum_le_sum (fun a _ => h a)

theorem menCost_lt {P1 : Fin n → Fin n → ℕ} {μ ν : Equiv.Perm (Fin n)} (h : MLe P1 μ ν) (a : Fin n)
    (ha : P1 a (μ a) < P1 a (ν a)) : menCost P1 μ < menCost P1 ν :=
  Finset.sum_lt_sum (fun a _ => h a) ⟨a, Finset.mem_univ a, ha⟩

/-- **(e), general form**: if `μ ≼ ν` are stable, `ν` is reached from `μ` by eliminating rotations, each exposed
when its turn comes -/
theorem reachable_of_le {P1 P2 : Fin n → Fin n → ℕ} (h1 : ∀ a, Function.Injective (P1 a))
    (h2 : ∀ b, Function.Injective (P2 b)) {ν : Equiv.Perm (Fin n)} (hν : StableSM P1 P2 ν) :
    ∀ (d : ℕ) (μ : Equiv.Perm (Fin n)), StableSM P1 P2 μ → MLe P1 μ ν → menCost P1 ν - menCost P1 μ ≤ d →
      ∃ rots, ElimPath P1 P2 μ rots ν := by
  intro d
  induction d with
  | zero =>
    intro μ hμ hle hd
    refine ⟨[], ?_⟩
    by_contra hne
    obtain ⟨ρ, hex, _, hle2⟩ := exists_exposed_rotation_between h1 h2 hμ hν hle hne
    obtain ⟨_, hle1, hlt⟩ := exposed_elim_stable h1 hμ hex
    obtain ⟨a, ha⟩ := List.exists_mem_of_ne_nil _ hex.2.1
    have := menCost_lt hle1 a (hlt a ha)
    have := menCost_le hle2
    omega
  | succ d ih =>
    intro μ hμ hle hd
    by_cases hne : μ = ν
    · exact ⟨[], hne⟩
    · obtain ⟨ρ, hex, _, hle2⟩ := exists_exposed_rotation_between h1 h2 hμ hν hle hne
      obtain ⟨hst, hle1, hlt⟩ := exposed_elim_stable h1 hμ hex
      obtain ⟨a, ha⟩ := List.exists_mem_of_ne_nil _ hex.2.1
      have := menCost_lt hle1 a (hlt a ha)
      have := menCost_le hle2
      obtain ⟨rots, hp⟩ := ih (elim μ ρ) hst hle2 (by omega)
      exact ⟨ρ :: rots, hex, hp⟩

/-- **(e)** every stable matching is reached from a man-optimal stable matching `μ0` (one that every man weakly
prefers to every stable matching) by eliminating a finite sequence of rotations, each exposed when its turn comes -/
theorem reachable_from_man_optimal {P1 P2 : Fin n → Fin n → ℕ} (h1 : ∀ a, Function.Injective (P1 a))
    (h2 : ∀ b, Function.Injective (P2 b)) {μ0 : Equiv.Perm (Fin n)} (h0 : StableSM P1 P2 μ0)
    (hopt : ∀ ν, StableSM P1 P2 ν → MLe P1 μ0 ν) {ν : Equiv.Perm (Fin n)} (hν : StableSM P1 P2 ν) :
    ∃ rots, ElimPath P1 P2 μ0 rots ν :=
  reachable_of_le h1 h2 hν _ μ0 h0 (hopt ν hν) (Nat.le_refl _)

/-- every matching on an elimination path from a stable matching is stable, and the path goes down for the men -/
theorem elimPath_stable {P1 P2 : Fin n → Fin n → ℕ} (h1 : ∀ a, Function.Injective (P1 a)) :
    ∀ (rots : List (List (Fin n))) (μ ν : Equiv.Perm (Fin n)), StableSM P1 P2 μ → ElimPath P1 P2 μ rots ν →
      StableSM P1 P2 ν ∧ MLe P1 μ ν := by
  intro rots
  induction rots with
  | nil => intro μ ν hμ hp; cases hp; exact ⟨hμ, MLe.refl _ _⟩
  | cons ρ rest ih =>
    intro μ ν hμ hp
    obtain ⟨hst, hle, _⟩ := exposed_elim_stable h1 hμ hp.1
    obtain ⟨a, b⟩ := ih _ _ hst hp.2
    exact ⟨a, hle.trans b⟩

end SMLattice

#print axioms SMLattice.exposed_elim_stable
#print axioms SMLattice.exists_exposed_rotation_between
#print axioms SMLattice.reachable_from_man_optimal
