import Sck.Proofs.LatticeI2
import Sck.Proofs.Lattice6

/-! # C03, package L8a, part 3: eliminating a rotation in the lists (`truncStep`, `elimRot`) keeps the women's side of
the invariant; `menUpdate` re-establishes the men's side -/

namespace SMLattice

open Irving IrvingAlgo

variable {n : ℕ}

/-! ### list lemmas -/

theorem getD_getD_set_set (pm : List (List Bool)) (w m w' m' : Nat) :
    ((pm.set w ((pm.getD w []).set m false)).getD w' []).getD m' false
      = if w' = w ∧ m' = m then false else (pm.getD w' []).getD m' false := by
  by_cases hw : w' = w
  · subst hw
    by_cases hl : w' < pm.length
    · have e : (pm.set w' ((pm.getD w' []).set m false)).getD w' [] = (pm.getD w' []).set m false := by
        rw [List.getD_eq_getElem?_getD, List.getElem?_set]; simp [hl]
      rw [e]
      by_cases hm : m' = m
      · subst hm
        simp only [and_self, if_true]
        rw [List.getD_eq_getElem?_getD, List.getElem?_set]
        simp only [if_true]
        split <;> rfl
      · simp only [hm, and_false, if_false]
        rw [List.getD_eq_getElem?_getD, List.getElem?_set, if_neg (fun h => hm h.symm), ← List.getD_eq_getElem?_getD]
    · have e0 : pm.getD w' [] = [] := by
        rw [List.getD_eq_getElem?_getD, List.getElem?_eq_none (by omega)]; rfl
      have e : (pm.set w' ((pm.getD w' []).set m false)).getD w' [] = [] := by
        rw [List.getD_eq_getElem?_getD, List.getElem?_set]; simp [hl]
      rw [e, e0]
      split <;> simp
  · simp only [hw, false_and, if_false]
    congr 1
    rw [List.getD_eq_getElem?_getD, List.getElem?_set, if_neg (fun h => hw h.symm), ← List.getD_eq_getElem?_getD]

theorem getD_getD_foldl_set (w : Nat) : ∀ (dropped : List Nat) (pm : List (List Bool)) (w' m' : Nat),
    ((dropped.foldl (fun pm m => pm.set w ((pm.getD w []).set m false)) pm).getD w' []).getD m' false
      = if w' = w ∧ m' ∈ dropped then false else (pm.getD w' []).getD m' false := by
  intro dropped
  induction dropped with
  | nil => intro pm w' m'; simp
  | cons d dropped ih =>
    intro pm w' m'
    rw [List.foldl_cons, ih, getD_getD_set_set]
    by_cases hw : w' = w
    · by_cases hd : m' = d
      · simp [hw, hd]
      · by_cases hin : m' ∈ dropped
        · simp [hw, hin]
        · simp [hw, hd, hin]
    · simp [hw]

theorem trunc_lists {L : List Nat} {x : Nat} (hx : x ∈ L) (hnd : L.Nodup) :
    ∃ A B, L = A ++ x :: B ∧ L.reverse.takeWhile (fun m => m != x) = B.reverse ∧
      L.reverse.dropWhile (fun m => m != x) = x :: A.reverse := by
  obtain ⟨A, B, rfl⟩ := List.append_of_mem hx
  refine ⟨A, B, rfl, ?_, ?_⟩
  all_goals
    have hB : ∀ a ∈ B.reverse, (a != x) = true := by
      intro a ha
      have ha' : a ∈ B := List.mem_reverse.mp ha
      have hnd' := (List.nodup_append.mp hnd).2.1
      have : x ∉ B := (List.nodup_cons.mp hnd').1
      simp only [bne_iff_ne, ne_eq]
      rintro rfl
      exact this ha'
    have e : (A ++ x :: B).reverse = B.reverse ++ x :: A.reverse := by simp
    rw [e]
  · rw [List.takeWhile_append_of_pos hB]; simp
  · rw [List.dropWhile_append_of_pos hB]; simp

theorem nodup_of_sorted {f : Nat → Nat} {l : List Nat} (h : l.Pairwise (fun a b => f a < f b)) : l.Nodup :=
  h.imp (fun hab he => by rw [he] at hab; exact Nat.lt_irrefl _ hab)

theorem getD_set_list (l2 : List (List Nat)) (w : Nat) (hw : w < l2.length) (X : List Nat) (w' : Nat) :
    (l2.set w X).getD w' [] = if w' = w then X else l2.getD w' [] := by
  rw [List.getD_eq_getElem?_getD, List.getElem?_set]
  by_cases h : w = w'
  · subst h; simp [hw]
  · rw [if_neg h, if_neg (fun e => h e.symm), ← List.getD_eq_getElem?_getD]

/-! ### one woman's list is cut after a man on it -/

theorem truncStep_winv {P2 : List (List Nat)} {st : LvSt} {hus : Fin n → Fin n}
    (hW : WInv n P2 st.l2 st.pm2 hus) (rho : List Pair) (idx i : Nat) (w m' : Fin n)
    (hw : (rotAt rho i).2 = w) (hm' : (rotAt rho ((i + rho.length - 1) % rho.length)).1 = m')
    (hmem : (m' : Nat) ∈ st.l2.getD w []) :
    WInv n P2 (truncStep rho idx st i).l2 (truncStep rho idx st i).pm2 (Function.update hus w m') ∧
    (truncStep rho idx st i).l1 = st.l1 ∧
    ∀ (w' m : Nat), m ∈ (truncStep rho idx st i).l2.getD w' [] → m ∈ st.l2.getD w' [] := by
  have hsorted := hW.sorted w
  have hnd := nodup_of_sorted hsorted
  obtain ⟨A, B, hL, htake, hdrop⟩ := trunc_lists hmem hnd
  have hwl : (w : Nat) < st.l2.length := by rw [hW.len]; exact w.2
  have hl2 : (truncStep rho idx st i).l2 = st.l2.set w (A ++ [(m' : Nat)]) := by
    simp only [truncStep, hw, hm', hdrop]
    simp
  have hpm : (truncStep rho idx st i).pm2
      = B.reverse.foldl (fun pm m => pm.set w ((pm.getD w []).set m false)) st.pm2 := by
    simp only [truncStep, hw, hm', htake]
  have hget : ∀ w' : Nat, (truncStep rho idx st i).l2.getD w' []
      = if w' = w then A ++ [(m' : Nat)] else st.l2.getD w' [] := by
    intro w'; rw [hl2]; exact getD_set_list _ _ hwl _ _
  rw [hL] at hsorted hnd
  obtain ⟨hsA, hsB, hAB⟩ := List.pairwise_append.mp hsorted
  obtain ⟨hndA, hndB, hdAB⟩ := List.nodup_append.mp hnd
  have hmemL : ∀ x, x ∈ st.l2.getD w [] ↔ x ∈ A ∨ x = m' ∨ x ∈ B := by
    intro x; rw [hL]; simp
  refine ⟨⟨?_, ?_, ?_, ?_⟩, rfl, ?_⟩
  · rw [hl2, List.length_set]; exact hW.len
  · intro w'
    rw [hget]
    by_cases hww : (w' : Nat) = w
    · rw [if_pos hww]
      have hw'w : w' = w := Fin.ext hww
      subst hw'w
      refine hsorted.sublist ?_
      exact List.Sublist.append (List.Sublist.refl A) (List.cons_sublist_cons.mpr (List.nil_sublist B))
    · rw [if_neg hww]; exact hW.sorted w'
  · intro w' m
    rw [hget]
    by_cases hww : (w' : Nat) = w
    · have hw'w : w' = w := Fin.ext hww
      subst hw'w
      rw [if_pos rfl, Function.update_self]
      constructor
      · intro hm
        have hmL : m ∈ st.l2.getD w' [] := by
          rw [hmemL]; rcases List.mem_append.mp hm with h | h
          · exact Or.inl h
          · exact Or.inr (Or.inl (by simpa using h))
        refine ⟨((hW.mem w' m).mp hmL).1, ?_⟩
        rcases List.mem_append.mp hm with h | h
        · exact Nat.le_of_lt (hAB m h m' List.mem_cons_self)
        · have : m = m' := by simpa using h
          rw [this]
      · rintro ⟨hmn, hle⟩
        have hm'le := ((hW.mem w' m').mp hmem).2
        have hmL : m ∈ st.l2.getD w' [] := (hW.mem w' m).mpr ⟨hmn, Nat.le_trans hle hm'le⟩
        rcases (hmemL m).mp hmL with h | h | h
        · exact List.mem_append_left _ h
        · rw [h]; simp
        · exfalso
          have := (List.pairwise_cons.mp hsB).1 m h
          omega
    · rw [if_neg hww]
      have hne : w' ≠ w := fun h => hww (congrArg Fin.val h)
      rw [Function.update_of_ne hne]
      exact hW.mem w' m
  · intro w' m
    rw [hpm, getD_getD_foldl_set, hget]
    by_cases hww : w' = (w : Nat)
    · subst hww
      simp only [true_and, if_true, List.mem_reverse]
      by_cases hmB : m ∈ B
      · rw [if_pos hmB]
        symm
        rw [Bool.eq_false_iff]
        intro hc
        rw [List.contains_iff_mem] at hc
        rcases List.mem_append.mp hc with h | h
        · exact hdAB m h m (List.mem_cons_of_mem _ hmB) rfl
        · have : m = m' := by simpa using h
          rw [this] at hmB
          exact (List.nodup_cons.mp hndB).1 hmB
      · rw [if_neg hmB, hW.pm]
        rw [Bool.eq_iff_iff, List.contains_iff_mem, List.contains_iff_mem, hmemL]
        simp only [List.mem_append, List.mem_singleton]
        tauto
    · rw [if_neg (fun h => hww h.1), if_neg hww]
      exact hW.pm w' m
  · intro w' m
    rw [hget]
    by_cases hww : w' = (w : Nat)
    · subst hww
      rw [if_pos rfl, hmemL]
      intro h
      rcases List.mem_append.mp h with h | h
      · exact Or.inl h
      · exact Or.inr (Or.inl (by simpa using h))
    · rw [if_neg hww]; exact fun h => h

/-! ### eliminating one exposed rotation in the lists -/

/-- the husbands after the first `k` steps of `for i in range(r)` -/
def husK (μ : Equiv.Perm (Fin n)) (ρ : List (Fin n)) (k : Nat) (w : Fin n) : Fin n :=
  if ρ.idxOf (μ.symm w) < k then (elim μ ρ).symm w else μ.symm w

theorem husK_zero (μ : Equiv.Perm (Fin n)) (ρ : List (Fin n)) : husK μ ρ 0 = μ.symm := by
  funext w; simp [husK]

theorem husK_length (μ : Equiv.Perm (Fin n)) (ρ : List (Fin n)) : husK μ ρ ρ.length = (elim μ ρ).symm := by
  funext w
  unfold husK
  split
  · rfl
  · rename_i h
    have hnot : μ.symm w ∉ ρ := fun hm => h (List.idxOf_lt_length_of_mem hm)
    have : ρ.formPerm.symm (μ.symm w) = μ.symm w := by
      rw [Equiv.symm_apply_eq, List.formPerm_apply_of_notMem hnot]
    rw [elim_symm_apply, this]

theorem prev_formPerm {ρ : List (Fin n)} (hnd : ρ.Nodup) (k : Nat) (hk : k < ρ.length) :
    ρ.formPerm (ρ[(k + ρ.length - 1) % ρ.length]'(Nat.mod_lt _ (by omega))) = ρ[k] := by
  rw [List.formPerm_apply_getElem ρ hnd _ (Nat.mod_lt _ (by omega))]
  simp only [mod_aux1 k ρ.length hk]

theorem foldl_truncStep_winv {P1 P2 : List (List Nat)} {st : LvSt} {μ : Equiv.Perm (Fin n)}
    (hW : WInv n P2 st.l2 st.pm2 μ.symm) {ρ : List (Fin n)} (hex : ExposedRot (rk n P1) (rk n P2) μ ρ) (idx : Nat) :
    ∀ k, k ≤ ρ.length →
      WInv n P2 ((List.range k).foldl (truncStep (rotPairs μ ρ) idx) st).l2
        ((List.range k).foldl (truncStep (rotPairs μ ρ) idx) st).pm2 (husK μ ρ k) ∧
      ((List.range k).foldl (truncStep (rotPairs μ ρ) idx) st).l1 = st.l1 ∧
      ∀ (w' m : Nat), m ∈ ((List.range k).foldl (truncStep (rotPairs μ ρ) idx) st).l2.getD w' [] →
        m ∈ st.l2.getD w' [] := by
  intro k
  induction k with
  | zero =>
    intro _
    rw [husK_zero]
    exact ⟨hW, rfl, fun _ _ h => h⟩
  | succ k ih =>
    intro hk
    have hk' : k < ρ.length := by omega
    obtain ⟨ihW, ihl1, ihsh⟩ := ih (by omega)
    rw [List.range_succ, List.foldl_append]
    simp only [List.foldl_cons, List.foldl_nil]
    set stk := (List.range k).foldl (truncStep (rotPairs μ ρ) idx) st with hstk
    have hkm : (k + ρ.length - 1) % ρ.length < ρ.length := Nat.mod_lt _ (by omega)
    have hprev := prev_formPerm hex.1 k hk'
    have hw : (rotAt (rotPairs μ ρ) k).2 = ((μ ρ[k] : Fin n) : Nat) := by
      rw [rotAt_rotPairs μ ρ k hk']; rfl
    have hm' : (rotAt (rotPairs μ ρ) ((k + (rotPairs μ ρ).length - 1) % (rotPairs μ ρ).length)).1
        = ((ρ[(k + ρ.length - 1) % ρ.length] : Fin n) : Nat) := by
      rw [rotPairs_length, rotAt_rotPairs μ ρ _ hkm]; rfl
    have hidx : ρ.idxOf (μ.symm (μ ρ[k])) = k := by
      rw [Equiv.symm_apply_apply]; exact hex.1.idxOf_getElem k hk'
    have hmem : ((ρ[(k + ρ.length - 1) % ρ.length] : Fin n) : Nat) ∈ stk.l2.getD (μ ρ[k]) [] := by
      rw [ihW.mem_fin]
      have hh : husK μ ρ k (μ ρ[k]) = ρ[k] := by
        unfold husK
        rw [hidx, if_neg (Nat.lt_irrefl _)]; simp
      rw [hh]
      have := (hex.2.2 _ (List.getElem_mem hkm)).1.2
      rw [hprev] at this
      simp only [Equiv.symm_apply_apply] at this
      exact Nat.le_of_lt this
    obtain ⟨hW', hl1', hsh'⟩ := truncStep_winv ihW (rotPairs μ ρ) idx k (μ ρ[k])
      ρ[(k + ρ.length - 1) % ρ.length] hw hm' hmem
    have hupd : Function.update (husK μ ρ k) (μ ρ[k]) ρ[(k + ρ.length - 1) % ρ.length] = husK μ ρ (k + 1) := by
      funext w'
      by_cases hww : w' = μ ρ[k]
      · subst hww
        rw [Function.update_self]
        unfold husK
        rw [hidx, if_pos (Nat.lt_succ_self _), elim_symm_apply, Equiv.symm_apply_apply, Equiv.eq_symm_apply]
        exact hprev
      · rw [Function.update_of_ne hww]
        unfold husK
        have hne : ρ.idxOf (μ.symm w') ≠ k := by
          intro he
          apply hww
          have hlt : ρ.idxOf (μ.symm w') < ρ.length := by omega
          have := List.getElem_idxOf hlt
          simp only [he] at this
          rw [this]; simp
        have : (ρ.idxOf (μ.symm w') < k + 1) ↔ (ρ.idxOf (μ.symm w') < k) := by omega
        simp only [this]
    rw [hupd] at hW'
    exact ⟨hW', hl1'.trans ihl1, fun w' m h => ihsh w' m (hsh' w' m h)⟩

/-- **eliminating an exposed rotation in the lists**: the women's side of the invariant holds for `μ/ρ`; the men's
lists are untouched; the women's lists only lose members -/
theorem elimRot_winv {P1 P2 : List (List Nat)} {st : LvSt} {μ : Equiv.Perm (Fin n)}
    (hW : WInv n P2 st.l2 st.pm2 μ.symm) {ρ : List (Fin n)} (hex : ExposedRot (rk n P1) (rk n P2) μ ρ) :
    WInv n P2 (elimRot st (rotPairs μ ρ)).l2 (elimRot st (rotPairs μ ρ)).pm2 (elim μ ρ).symm ∧
    (elimRot st (rotPairs μ ρ)).l1 = st.l1 ∧
    ∀ (w' m : Nat), m ∈ (elimRot st (rotPairs μ ρ)).l2.getD w' [] → m ∈ st.l2.getD w' [] := by
  have := foldl_truncStep_winv hW hex st.cnt ρ.length (Nat.le_refl _)
  rw [husK_length] at this
  unfold elimRot
  rw [rotPairs_length]
  exact this

/-! ### the men's lists are brought up to date -/

theorem mem_dropWhile_of_false {p : Nat → Bool} {l : List Nat} {x : Nat} (hx : x ∈ l) (hp : p x = false) :
    x ∈ l.dropWhile p := by
  induction l with
  | nil => simp at hx
  | cons a l ih =>
    rw [List.dropWhile_cons]
    split
    · rename_i hpa
      rcases List.mem_cons.mp hx with rfl | h
      · rw [hp] at hpa; simp at hpa
      · exact ih h
    · exact hx

theorem head_dropWhile_false {p : Nat → Bool} {l : List Nat} {a : Nat} {t : List Nat}
    (h : l.dropWhile p = a :: t) : p a = false := by
  have hne : l.dropWhile p ≠ [] := by rw [h]; simp
  have := List.head_dropWhile_not p hne
  simpa [h] using this

theorem menUpdate_spec (pm2 : List (List Bool)) (i : Nat) (L : List Nat) :
    (menUpdate pm2 i L).Sublist L ∧
    (∀ x ∈ L, (pm2.getD x []).getD i false = true → x ∈ menUpdate pm2 i L) ∧
    (∀ a t, menUpdate pm2 i L = a :: t → (pm2.getD a []).getD i false = true) ∧
    (∀ a b t, menUpdate pm2 i L = a :: b :: t → (pm2.getD b []).getD i false = true) := by
  unfold menUpdate
  split
  · rename_i h0
    refine ⟨List.nil_sublist _, ?_, by simp, by simp⟩
    intro x hx hv
    have := mem_dropWhile_of_false (p := fun j => !((pm2.getD j []).getD i false)) hx (by show (!((pm2.getD x []).getD i false)) = false; rw [hv]; rfl)
    rw [h0] at this
    exact this
  · rename_i a t h0
    have hsub : (a :: t.dropWhile (fun j => !((pm2.getD j []).getD i false))).Sublist L := by
      have h1 := List.dropWhile_sublist (l := L) (fun j => !((pm2.getD j []).getD i false))
      rw [h0] at h1
      exact (List.cons_sublist_cons.mpr (List.dropWhile_sublist _)).trans h1
    refine ⟨hsub, ?_, ?_, ?_⟩
    · intro x hx hv
      have := mem_dropWhile_of_false (p := fun j => !((pm2.getD j []).getD i false)) hx (by show (!((pm2.getD x []).getD i false)) = false; rw [hv]; rfl)
      rw [h0] at this
      rcases List.mem_cons.mp this with rfl | h
      · exact List.mem_cons_self
      · exact List.mem_cons_of_mem _ (mem_dropWhile_of_false h (by show (!((pm2.getD x []).getD i false)) = false; rw [hv]; rfl))
    · intro a' t' he
      have := head_dropWhile_false h0
      obtain ⟨rfl, _⟩ := List.cons.inj he
      simpa using this
    · intro a' b t' he
      obtain ⟨_, he'⟩ := List.cons.inj he
      have := head_dropWhile_false he'
      simpa using this

/-- after the women's lists have shrunk, `menUpdate` re-establishes the men's side of the invariant -/
theorem menUpdate_minv {P1 P2 : List (List Nat)} {l1 l2 l2' : List (List Nat)} {pm2' : List (List Bool)}
    {hus' : Fin n → Fin n} (hM : MInv n P1 l1 l2) (hW' : WInv n P2 l2' pm2' hus')
    (hsh : ∀ (w m : Nat), m ∈ l2'.getD w [] → m ∈ l2.getD w []) :
    MInv n P1 ((List.range l1.length).map (fun i => menUpdate pm2' i (l1.getD i []))) l2' := by
  have hget : ∀ m : Fin n, ((List.range l1.length).map (fun i => menUpdate pm2' i (l1.getD i []))).getD m []
      = menUpdate pm2' m (l1.getD m []) := by
    intro m
    exact getD_map_range _ _ _ _ (by rw [hM.len]; exact m.2)
  have hvalid : ∀ (m : Fin n) (w : Nat), (pm2'.getD w []).getD m false = true ↔ (m : Nat) ∈ l2'.getD w [] := by
    intro m w
    rw [hW'.pm, List.contains_iff_mem]
  refine ⟨by simp [hM.len], ?_, ?_, ?_, ?_, ?_⟩
  · intro m
    rw [hget]
    exact (hM.sorted m).sublist (menUpdate_spec pm2' m _).1
  · intro m w hw
    rw [hget] at hw
    exact hM.lt m w ((menUpdate_spec pm2' m _).1.subset hw)
  · intro m w hw
    rw [hget]
    exact (menUpdate_spec pm2' m _).2.1 w (hM.sup m w (hsh w m hw)) ((hvalid m w).mpr hw)
  · intro m a t hl
    rw [hget] at hl
    exact (hvalid m a).mp ((menUpdate_spec pm2' m _).2.2.1 a t hl)
  · intro m a b t hl
    rw [hget] at hl
    exact (hvalid m b).mp ((menUpdate_spec pm2' m _).2.2.2 a b t hl)

end SMLattice
