import Sck.Model.Profile
import Mathlib.Data.List.Sort
import Mathlib.Data.List.Perm.Basic
import Mathlib.Data.List.Nodup

/-! Shared lemmas for C18: `valAt`, `allPairsB`, sorted permutations of the positions `0..n-1`. -/

theorem valAt_eq_some {α : Type} (l : List (Option α)) (j : Nat) (x : α) :
    valAt l j = some x ↔ l[j]? = some (some x) := by
  unfold valAt
  cases h : l[j]? with
  | none => simp
  | some v => simp

theorem valAt_eq_none {α : Type} (l : List (Option α)) (j : Nat) :
    valAt l j = none ↔ l[j]? = some none ∨ l.length ≤ j := by
  unfold valAt
  cases h : l[j]? with
  | none => simpa using h
  | some v =>
    have : j < l.length := (List.getElem?_eq_some_iff.1 h).1
    simp; omega

theorem valAt_of_lt {α : Type} (l : List (Option α)) (j : Nat) (h : j < l.length) :
    valAt l j = l[j] := by
  unfold valAt
  rw [List.getElem?_eq_getElem h]

theorem valAt_of_getElem? {α : Type} (l : List (Option α)) (j : Nat) (v : Option α)
    (h : l[j]? = some v) : valAt l j = v := by
  unfold valAt
  rw [h]

theorem map_valAt_range {α : Type} (l : List (Option α)) :
    (List.range l.length).map (valAt l) = l := by
  apply List.ext_getElem
  · simp
  · intro i h1 h2
    simp only [List.getElem_map, List.getElem_range]
    exact valAt_of_lt l i h2

theorem countP_eq_range {α : Type} (l : List (Option α)) (p : Option α → Bool) :
    l.countP p = (List.range l.length).countP (fun j => p (valAt l j)) := by
  conv_lhs => rw [← map_valAt_range l]
  rw [List.countP_map]
  rfl

theorem allPairsB_iff {α : Type} (r : α → α → Bool) (l : List α) :
    allPairsB r l = true ↔ l.Pairwise (fun a b => r a b = true) := by
  induction l with
  | nil => simp [allPairsB]
  | cons a l ih =>
    simp only [allPairsB, Bool.and_eq_true, List.all_eq_true, ih, List.pairwise_cons]

theorem allPairsB_ne_iff {α : Type} [DecidableEq α] (l : List α) :
    allPairsB (fun a b => a != b) l = true ↔ l.Nodup := by
  rw [allPairsB_iff]
  simp [List.Nodup]

/-- a permutation of the positions `0..n-1` sorted w.r.t. `R` -/
structure SortedOrder (n : Nat) (R : Nat → Nat → Prop) (o : List Nat) : Prop where
  perm : o.Perm (List.range n)
  sorted : o.Pairwise R

namespace SortedOrder
variable {n : Nat} {R : Nat → Nat → Prop} {o : List Nat}

theorem nodup (h : SortedOrder n R o) : o.Nodup := (h.perm.nodup_iff).2 List.nodup_range

theorem length_eq (h : SortedOrder n R o) : o.length = n := by
  simpa using h.perm.length_eq

theorem mem_iff (h : SortedOrder n R o) (a : Nat) : a ∈ o ↔ a < n := by
  rw [h.perm.mem_iff]; simp

theorem idx_lt (h : SortedOrder n R o) {a : Nat} (ha : a < n) : o.idxOf a < o.length :=
  List.idxOf_lt_length_iff.2 ((h.mem_iff a).2 ha)

theorem idx_lt' (h : SortedOrder n R o) {a : Nat} (ha : a < n) : o.idxOf a < n := by
  have := h.idx_lt ha
  rwa [h.length_eq] at this

theorem getElem_idx (h : SortedOrder n R o) {a : Nat} (ha : a < n) :
    o[o.idxOf a]'(h.idx_lt ha) = a := List.getElem_idxOf _

theorem idx_inj (h : SortedOrder n R o) {a b : Nat} (ha : a < n) (hb : b < n)
    (hab : o.idxOf a = o.idxOf b) : a = b := by
  have h1 := h.getElem_idx ha
  have h2 := h.getElem_idx hb
  simp only [hab] at h1
  exact h1.symm.trans h2

theorem rel_of_idx_lt (h : SortedOrder n R o) {a b : Nat} (ha : a < n) (hb : b < n)
    (hab : o.idxOf a < o.idxOf b) : R a b := by
  have := List.pairwise_iff_getElem.1 h.sorted _ _ (h.idx_lt ha) (h.idx_lt hb) hab
  rwa [h.getElem_idx ha, h.getElem_idx hb] at this

theorem idx_lt_of_not_rel (h : SortedOrder n R o) {a b : Nat} (ha : a < n) (hb : b < n)
    (hne : a ≠ b) (hnr : ¬ R b a) : o.idxOf a < o.idxOf b := by
  rcases Nat.lt_trichotomy (o.idxOf a) (o.idxOf b) with h1 | h1 | h1
  · exact h1
  · exact absurd (h.idx_inj ha hb h1) hne
  · exact absurd (h.rel_of_idx_lt hb ha h1) hnr

theorem split (h : SortedOrder n R o) {a : Nat} (ha : a < n) :
    o = o.take (o.idxOf a) ++ a :: o.drop (o.idxOf a + 1) := by
  have h1 : o.drop (o.idxOf a) = a :: o.drop (o.idxOf a + 1) := by
    rw [List.drop_eq_getElem_cons (h.idx_lt ha), h.getElem_idx ha]
  conv_lhs => rw [← List.take_append_drop (o.idxOf a) o, h1]

/-- everything that must come strictly before `a` is counted by its index -/
theorem count_le_idx (h : SortedOrder n R o) {a : Nat} (ha : a < n) (p : Nat → Bool)
    (hp : ∀ b, b < n → p b = true → b ≠ a ∧ ¬ R a b) :
    (List.range n).countP p ≤ o.idxOf a := by
  rw [← h.perm.countP_eq p]
  have hs := h.split ha
  have hsorted := h.sorted
  rw [hs] at hsorted
  rw [List.pairwise_append, List.pairwise_cons] at hsorted
  obtain ⟨_, ⟨hafter, _⟩, _⟩ := hsorted
  have h0 : (a :: o.drop (o.idxOf a + 1)).countP p = 0 := by
    rw [List.countP_eq_zero]
    intro b hb
    have hbn : b < n := by
      apply (h.mem_iff b).1
      rw [hs]; exact List.mem_append_right _ hb
    intro hpb
    rcases List.mem_cons.1 hb with rfl | hb'
    · exact (hp _ hbn hpb).1 rfl
    · exact (hp _ hbn hpb).2 (hafter _ hb')
  conv_lhs => rw [hs]
  rw [List.countP_append, h0, Nat.add_zero]
  calc (o.take (o.idxOf a)).countP p ≤ (o.take (o.idxOf a)).length := List.countP_le_length
    _ ≤ o.idxOf a := by rw [List.length_take]; exact Nat.min_le_left _ _

/-- everything up to and including `a` satisfies `q`, so the index is below the count of `q` -/
theorem idx_lt_count (h : SortedOrder n R o) {a : Nat} (ha : a < n) (q : Nat → Bool)
    (hq : ∀ b, b < n → (b = a ∨ R b a) → q b = true) :
    o.idxOf a + 1 ≤ (List.range n).countP q := by
  rw [← h.perm.countP_eq q]
  have hs := h.split ha
  have hsorted := h.sorted
  rw [hs] at hsorted
  rw [List.pairwise_append] at hsorted
  obtain ⟨_, _, hbefore⟩ := hsorted
  have hlen : (o.take (o.idxOf a)).length = o.idxOf a := by
    rw [List.length_take]; exact Nat.min_eq_left (Nat.le_of_lt (h.idx_lt ha))
  have h1 : (o.take (o.idxOf a)).countP q = o.idxOf a := by
    conv_rhs => rw [← hlen]
    rw [List.countP_eq_length]
    intro b hb
    have hbn : b < n := by
      apply (h.mem_iff b).1
      rw [hs]; exact List.mem_append_left _ hb
    exact hq b hbn (Or.inr (hbefore b hb a (List.mem_cons_self)))
  conv_rhs => rw [hs]
  rw [List.countP_append, h1, List.countP_cons, if_pos (hq a ha (Or.inl rfl))]
  omega

end SortedOrder

theorem sortedOrder_of_desc (vals : List (Option Rat)) (o : List Nat)
    (h : validDescOrder vals o = true) :
    SortedOrder vals.length (fun a b => descLe (valAt vals a) (valAt vals b) = true) o := by
  simp only [validDescOrder, Bool.and_eq_true, List.isPerm_iff, allPairsB_iff] at h
  exact ⟨h.1, h.2⟩

theorem sortedOrder_of_asc (ranks : List (Option Nat)) (o : List Nat) (first : Bool)
    (h : validAscOrder ranks o first = true) :
    SortedOrder ranks.length (fun a b => ascLe (valAt ranks a) (valAt ranks b) = true) o := by
  simp only [validAscOrder, Bool.and_eq_true, List.isPerm_iff, allPairsB_iff] at h
  exact ⟨h.1, h.2.imp (fun h => h.1)⟩

theorem sortedOrder_of_asc_first (ranks : List (Option Nat)) (o : List Nat)
    (h : validAscOrder ranks o true = true) :
    SortedOrder ranks.length (fun a b => ascLe (valAt ranks a) (valAt ranks b) = true ∧
      ((valAt ranks a).isSome = true → valAt ranks a = valAt ranks b → a < b)) o := by
  simp only [validAscOrder, Bool.and_eq_true, List.isPerm_iff, allPairsB_iff] at h
  refine ⟨h.1, h.2.imp ?_⟩
  intro a b hab
  refine ⟨hab.1, ?_⟩
  intro hs he
  have h2 := hab.2
  simp only [Bool.not_true, Bool.false_or, Bool.or_eq_true, bne_iff_ne, ne_eq,
    decide_eq_true_eq] at h2
  rcases h2 with (h2 | h2) | h2
  · cases hv : valAt ranks a <;> simp [hv] at h2 hs
  · exact absurd he h2
  · exact h2

/-- membership in `zip` through positions -/
theorem mem_zip_of_getElem? {α β : Type} (l₁ : List α) (l₂ : List β) (j : Nat) (a : α) (b : β)
    (h1 : l₁[j]? = some a) (h2 : l₂[j]? = some b) : (a, b) ∈ l₁.zip l₂ := by
  rw [List.mem_iff_getElem?]
  exact ⟨j, List.getElem?_zip_eq_some.2 ⟨h1, h2⟩⟩

theorem getElem?_of_mem_zip {α β : Type} (l₁ : List α) (l₂ : List β) (p : α × β)
    (h : p ∈ l₁.zip l₂) : ∃ j : Nat, l₁[j]? = some p.1 ∧ l₂[j]? = some p.2 := by
  rw [List.mem_iff_getElem?] at h
  obtain ⟨j, hj⟩ := h
  exact ⟨j, List.getElem?_zip_eq_some.1 hj⟩

theorem filterMap_ite_eq_map_filter {α β : Type} (p : α → Bool) (f : α → β) (l : List α) :
    l.filterMap (fun a => if p a = true then some (f a) else none) = (l.filter p).map f := by
  induction l with
  | nil => rfl
  | cons a l ih =>
    by_cases hp : p a = true <;> simp [hp, ih]

/-- two positions carrying the same non-NaN entry of a row whose non-NaN entries are distinct -/
theorem eq_of_nodup_filterMap {α : Type} (l : List (Option α)) (h : (l.filterMap id).Nodup)
    (i j : Nat) (x : α) (hi : l[i]? = some (some x)) (hj : l[j]? = some (some x)) : i = j := by
  induction l generalizing i j with
  | nil => simp at hi
  | cons a l ih =>
    cases a with
    | none =>
      rw [List.filterMap_cons_none (by rfl)] at h
      cases i with
      | zero => simp at hi
      | succ i =>
        cases j with
        | zero => simp at hj
        | succ j =>
          simp only [List.getElem?_cons_succ] at hi hj
          rw [ih h i j hi hj]
    | some y =>
      rw [List.filterMap_cons_some (by rfl : id (some y) = some y), List.nodup_cons] at h
      have hmem : ∀ k : Nat, l[k]? = some (some y) → y ∈ l.filterMap id := by
        intro k hk
        rw [List.mem_filterMap]
        exact ⟨some y, List.mem_of_getElem? hk, rfl⟩
      cases i with
      | zero =>
        cases j with
        | zero => rfl
        | succ j =>
          simp only [List.getElem?_cons_zero, Option.some.injEq] at hi
          simp only [List.getElem?_cons_succ] at hj
          subst hi
          exact absurd (hmem j hj) h.1
      | succ i =>
        cases j with
        | zero =>
          simp only [List.getElem?_cons_zero, Option.some.injEq] at hj
          simp only [List.getElem?_cons_succ] at hi
          subst hj
          exact absurd (hmem i hi) h.1
        | succ j =>
          simp only [List.getElem?_cons_succ] at hi hj
          rw [ih h.2 i j hi hj]

/-! ### the structural insertion sort of the model -/

theorem insertBy_perm {α : Type} (le : α → α → Bool) (a : α) (l : List α) :
    (insertBy le a l).Perm (a :: l) := by
  induction l with
  | nil => exact List.Perm.refl _
  | cons b l ih =>
    unfold insertBy
    split
    · exact List.Perm.refl _
    · exact ((ih.cons b).trans (List.Perm.swap a b l))

theorem isortBy_perm {α : Type} (le : α → α → Bool) (l : List α) : (isortBy le l).Perm l := by
  induction l with
  | nil => exact List.Perm.refl _
  | cons a l ih =>
    unfold isortBy
    exact (insertBy_perm le a _).trans (ih.cons a)

theorem insertBy_pairwise {α : Type} (le : α → α → Bool) (R : α → α → Prop) (a : α) (l : List α)
    (hl : l.Pairwise R) (h1' : ∀ b ∈ l, le a b = true → R a b)
    (h1 : ∀ b ∈ l, ∀ x ∈ l, le a b = true → R b x → R a x)
    (h2 : ∀ b ∈ l, le a b = false → R b a) : (insertBy le a l).Pairwise R := by
  induction l with
  | nil => simp [insertBy]
  | cons b l ih =>
    rw [List.pairwise_cons] at hl
    unfold insertBy
    by_cases hab : le a b = true
    · rw [if_pos hab, List.pairwise_cons]
      refine ⟨?_, List.pairwise_cons.2 hl⟩
      intro x hx
      rcases List.mem_cons.1 hx with rfl | hx
      · exact h1' _ List.mem_cons_self hab
      · exact h1 b List.mem_cons_self x (List.mem_cons_of_mem _ hx) hab (hl.1 x hx)
    · rw [if_neg hab, List.pairwise_cons]
      constructor
      · intro y hy
        rcases List.mem_cons.1 ((insertBy_perm le a l).mem_iff.1 hy) with rfl | hy
        · exact h2 b List.mem_cons_self (by simpa using hab)
        · exact hl.1 y hy
      · apply ih hl.2
        · intro c hc; exact h1' c (List.mem_cons_of_mem _ hc)
        · intro c hc x hx; exact h1 c (List.mem_cons_of_mem _ hc) x (List.mem_cons_of_mem _ hx)
        · intro c hc; exact h2 c (List.mem_cons_of_mem _ hc)

theorem isortBy_pairwise {α : Type} (le : α → α → Bool)
    (htrans : ∀ a b c, le a b = true → le b c = true → le a c = true)
    (htotal : ∀ a b, le a b = true ∨ le b a = true) (l : List α) :
    (isortBy le l).Pairwise (fun a b => le a b = true) := by
  induction l with
  | nil => simp [isortBy]
  | cons a l ih =>
    unfold isortBy
    apply insertBy_pairwise le _ a _ ih
    · intro b _ h; exact h
    · intro b _ x _ hab hbx; exact htrans a b x hab hbx
    · intro b _ hab
      rcases htotal a b with h | h
      · rw [h] at hab; cases hab
      · exact h

/-- stability on a strictly increasing list of positions: equal keys keep increasing position -/
theorem isortBy_stable (le : Nat → Nat → Bool)
    (htrans : ∀ a b c, le a b = true → le b c = true → le a c = true)
    (htotal : ∀ a b, le a b = true ∨ le b a = true) (l : List Nat) (hinc : l.Pairwise (· < ·)) :
    (isortBy le l).Pairwise (fun a b => le a b = true ∧ (le b a = true → a < b)) := by
  induction l with
  | nil => simp [isortBy]
  | cons a l ih =>
    rw [List.pairwise_cons] at hinc
    unfold isortBy
    have hgt : ∀ x ∈ isortBy le l, a < x := fun x hx => hinc.1 x ((isortBy_perm le l).mem_iff.1 hx)
    apply insertBy_pairwise le _ a _ (ih hinc.2)
    · intro b hb h; exact ⟨h, fun _ => hgt b hb⟩
    · intro b _ x hx hab hbx; exact ⟨htrans a b x hab hbx.1, fun _ => hgt x hx⟩
    · intro b _ hab
      refine ⟨?_, fun h => by rw [h] at hab; cases hab⟩
      rcases htotal a b with h | h
      · rw [h] at hab; cases hab
      · exact h
